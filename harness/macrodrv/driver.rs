// In-process driver for the ts-rs-macros crate, `include!`d by the cfg(all(test, ts_rs_verif))
// hook in macros/src/lib.rs.  Run with
//   RUSTFLAGS="--cfg ts_rs_verif" TS_RS_VERIF_MACRO_DRIVER=<this file> \
//   TS_RS_VERIF_IN=<cases.tsv> TS_RS_VERIF_OUT=<results.tsv> cargo test -p ts-rs-macros --lib verif_driver
// One operation per input line, fields separated by TAB, `\\`, `\t`, `\n`, `\r` escaped.
use std::panic::{catch_unwind, AssertUnwindSafe};

use crate::attr::Inflection;

fn unesc(s: &str) -> String {
    let mut out = String::new();
    let mut it = s.chars();
    while let Some(c) = it.next() {
        if c == '\\' {
            match it.next() {
                Some('t') => out.push('\t'),
                Some('n') => out.push('\n'),
                Some('r') => out.push('\r'),
                Some('\\') => out.push('\\'),
                Some(o) => { out.push('\\'); out.push(o) }
                None => out.push('\\'),
            }
        } else {
            out.push(c)
        }
    }
    out
}

fn esc(s: &str) -> String {
    s.replace('\\', "\\\\").replace('\t', "\\t").replace('\n', "\\n").replace('\r', "\\r")
}

fn rule(name: &str) -> Inflection {
    match name {
        "Lower" => Inflection::Lower,
        "Upper" => Inflection::Upper,
        "Camel" => Inflection::Camel,
        "Snake" => Inflection::Snake,
        "Pascal" => Inflection::Pascal,
        "ScreamingSnake" => Inflection::ScreamingSnake,
        "Kebab" => Inflection::Kebab,
        "ScreamingKebab" => Inflection::ScreamingKebab,
        other => panic!("unknown rule {other}"),
    }
}

fn expand(src: &str) -> String {
    let item: syn::Item = match syn::parse_str(src) {
        Ok(i) => i,
        Err(e) => return format!("synerr\t{}", esc(&e.to_string())),
    };
    let r = match item {
        syn::Item::Struct(s) => crate::types::struct_def(&s).map(|ts| ts.into_impl(s.ident, s.generics)),
        syn::Item::Enum(e) => crate::types::enum_def(&e).map(|ts| ts.into_impl(e.ident, e.generics)),
        _ => return "err\tunsupported item".to_owned(),
    };
    match r {
        Ok(ts) => format!("ok\t{}", esc(&ts.to_string())),
        Err(e) => format!("err\t{}", esc(&e.to_string())),
    }
}

fn docs_of(src: &str) -> String {
    let item: syn::ItemStruct = match syn::parse_str(src) {
        Ok(i) => i,
        Err(e) => return format!("synerr\t{}", esc(&e.to_string())),
    };
    match crate::utils::parse_docs(&item.attrs) {
        Ok(s) => format!("ok\t{}", esc(&s)),
        Err(e) => format!("err\t{}", esc(&e.to_string())),
    }
}

/// canonical dump of the attribute struct `from_attrs` produces at one of the four positions:
/// `target=value` for every field that is set, sorted, joined by `;`
fn attrs_dump(pos: &str, src: &str) -> String {
    use quote::ToTokens;
    let item: syn::Item = match syn::parse_str(src) {
        Ok(i) => i,
        Err(e) => return format!("synerr\t{}", esc(&e.to_string())),
    };
    let dummy: syn::Type = syn::parse_quote!(Orig);
    fn push_o<T: quote::ToTokens>(v: &mut Vec<String>, k: &str, o: &Option<T>) { if let Some(x) = o { v.push(format!("{k}={}", x.to_token_stream())) } }
    fn push_s(v: &mut Vec<String>, k: &str, o: &Option<String>) { if let Some(x) = o { v.push(format!("{k}={x}")) } }
    fn push_b(v: &mut Vec<String>, k: &str, b: bool) { if b { v.push(format!("{k}=true")) } }
    fn push_i(v: &mut Vec<String>, k: &str, o: &Option<crate::attr::Inflection>) { if let Some(x) = o { v.push(format!("{k}={x:?}")) } }
    fn push_opt(v: &mut Vec<String>, k: &str, o: &crate::attr::Optional) {
        match o {
            crate::attr::Optional::Optional { nullable: true } => v.push(format!("{k}=nullable")),
            crate::attr::Optional::Optional { nullable: false } => v.push(format!("{k}=optional")),
            crate::attr::Optional::NotOptional => (),
        }
    }
    let r: syn::Result<Vec<String>> = (|| {
        let mut v = Vec::new();
        match (pos, &item) {
            ("struct", syn::Item::Struct(s)) => {
                let a = crate::attr::StructAttr::from_attrs(&s.attrs)?;
                push_o(&mut v, "type_as", &a.type_as); push_s(&mut v, "type_override", &a.type_override); push_i(&mut v, "rename_all", &a.rename_all);
                push_o(&mut v, "rename", &a.rename); push_o(&mut v, "export_to", &a.export_to); push_b(&mut v, "export", a.export); push_s(&mut v, "tag", &a.tag);
                push_b(&mut v, "concrete", !a.concrete.is_empty()); push_b(&mut v, "bound", a.bound.is_some()); push_opt(&mut v, "optional_fields", &a.optional_fields);
            }
            ("enum", syn::Item::Enum(e)) => {
                let a = crate::attr::EnumAttr::from_attrs(&e.attrs)?;
                push_o(&mut v, "type_as", &a.type_as); push_s(&mut v, "type_override", &a.type_override); push_i(&mut v, "rename_all", &a.rename_all);
                push_i(&mut v, "rename_all_fields", &a.rename_all_fields); push_o(&mut v, "rename", &a.rename); push_o(&mut v, "export_to", &a.export_to);
                push_b(&mut v, "export", a.export); push_s(&mut v, "tag", &a.tag); push_s(&mut v, "content", &a.content); push_b(&mut v, "untagged", a.untagged);
                push_b(&mut v, "concrete", !a.concrete.is_empty()); push_b(&mut v, "bound", a.bound.is_some());
            }
            ("variant", syn::Item::Enum(e)) => {
                let var = e.variants.first().expect("a variant");
                let a = crate::attr::VariantAttr::from_attrs(&var.attrs)?;
                push_o(&mut v, "type_as", &a.type_as); push_s(&mut v, "type_override", &a.type_override); push_o(&mut v, "rename", &a.rename);
                push_i(&mut v, "rename_all", &a.rename_all); push_b(&mut v, "inline", a.inline); push_b(&mut v, "skip", a.skip); push_b(&mut v, "untagged", a.untagged);
            }
            ("field", syn::Item::Struct(s)) => {
                let f = s.fields.iter().next().expect("a field");
                let a = crate::attr::FieldAttr::from_attrs(&f.attrs)?;
                let ta = a.type_as(&dummy).to_token_stream().to_string();
                if ta != "Orig" { v.push(format!("type_as={ta}")) }
                push_s(&mut v, "type_override", &a.type_override); push_s(&mut v, "rename", &a.rename); push_b(&mut v, "inline", a.inline);
                push_b(&mut v, "skip", a.skip); push_opt(&mut v, "optional", &a.optional); push_b(&mut v, "flatten", a.flatten);
                push_b(&mut v, "using_serde_with", a.using_serde_with);
            }
            _ => v.push("unsupported position".to_owned()),
        }
        v.sort();
        Ok(v)
    })();
    match r {
        Ok(v) => format!("ok\t{}", esc(&v.join(";"))),
        Err(e) => format!("err\t{}", esc(&e.to_string())),
    }
}

fn handle(line: &str) -> String {
    let f: Vec<String> = line.split('\t').map(unesc).collect();
    match f[0].as_str() {
        "inflect_field" => format!("ok\t{}", esc(&rule(&f[1]).apply_to_field(&f[2]))),
        "inflect_variant" => format!("ok\t{}", esc(&rule(&f[1]).apply_to_variant(&f[2]))),
        "field_name" => format!("ok\t{}", esc(&crate::utils::raw_name_to_ts_field(f[1].clone()))),
        "ts_ident" => match syn::parse_str::<syn::Ident>(&f[1]) {
            Ok(id) => format!("ok\t{}", esc(&crate::utils::to_ts_ident(&id))),
            Err(e) => format!("synerr\t{}", esc(&e.to_string())),
        },
        "parse_docs" => docs_of(&f[1]),
        "expand" => expand(&f[1]),
        "attrs" => attrs_dump(&f[1], &f[2]),
        other => panic!("unknown op {other}"),
    }
}

#[test]
fn verif_driver() {
    let (Ok(inp), Ok(outp)) = (std::env::var("TS_RS_VERIF_IN"), std::env::var("TS_RS_VERIF_OUT")) else {
        return;
    };
    std::panic::set_hook(Box::new(|_| {}));
    let input = std::fs::read_to_string(inp).expect("read input");
    let mut out = String::new();
    for line in input.split('\n') {
        if line.is_empty() {
            continue;
        }
        let r = match catch_unwind(AssertUnwindSafe(|| handle(line))) {
            Ok(r) => r,
            Err(_) => "panic".to_owned(),
        };
        out.push_str(&r);
        out.push('\n');
    }
    std::fs::write(outp, out).expect("write output");
}
