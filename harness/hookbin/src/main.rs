//! Function-level correspondence harness: reads one JSON operation per line on stdin, calls the
//! REAL ts-rs function (through the cfg(ts_rs_verif) re-exports) under catch_unwind and prints one
//! canonical JSON result per line. The Lean driver answers the same lines from the model.
use std::{
    io::{BufRead, Write},
    panic::{catch_unwind, AssertUnwindSafe},
    path::{Path, PathBuf},
};

use serde_json::{json, Value};
use ts_rs::{verif, ExportError};

fn err_name(e: &ExportError) -> &'static str {
    match e {
        ExportError::CannotBeExported(_) => "CannotBeExported",
        ExportError::Io(_) => "Io",
        ExportError::ManifestDirNotSet => "ManifestDirNotSet",
        ExportError::Fmt(_) => "Fmt",
        #[allow(unreachable_patterns)]
        _ => "Other",
    }
}

fn res_str(r: Result<String, ExportError>) -> Value {
    match r {
        Ok(s) => json!({ "ok": s }),
        Err(e) => json!({ "err": err_name(&e) }),
    }
}

fn s<'a>(v: &'a Value, k: &str) -> &'a str {
    v.get(k).and_then(Value::as_str).unwrap_or_else(|| panic!("missing string field {k}"))
}

fn set_cwd(v: &Value) {
    if let Some(cwd) = v.get("cwd").and_then(Value::as_str) {
        std::fs::create_dir_all(cwd).expect("create cwd");
        std::env::set_current_dir(cwd).expect("set cwd");
    }
}

fn lossy(p: PathBuf) -> String {
    p.to_string_lossy().into_owned()
}

/// Recursive listing of `root`: path relative to root -> file contents | "<dir>"
fn snapshot(root: &Path) -> Value {
    fn walk(root: &Path, dir: &Path, out: &mut Vec<(String, Value)>) {
        let mut entries: Vec<_> = match std::fs::read_dir(dir) {
            Ok(rd) => rd.filter_map(|e| e.ok()).collect(),
            Err(_) => return,
        };
        entries.sort_by_key(|e| e.file_name());
        for e in entries {
            let p = e.path();
            let rel = p.strip_prefix(root).unwrap().to_string_lossy().into_owned();
            if p.is_dir() {
                out.push((rel, json!({"dir": true})));
                walk(root, &p, out);
            } else {
                let bytes = std::fs::read(&p).unwrap_or_default();
                out.push((rel, json!({"file": String::from_utf8_lossy(&bytes)})));
            }
        }
    }
    let mut out = Vec::new();
    walk(root, root, &mut out);
    Value::Array(out.into_iter().map(|(k, v)| json!([k, v])).collect())
}

fn subst(sv: &str, root: &str) -> String {
    sv.replace("$ROOT", root)
}

/// A whole history against a fresh scratch directory and a fresh registry.
fn run_history(v: &Value) -> Value {
    let root = s(v, "root").to_owned();
    let _ = std::fs::remove_dir_all(&root);
    std::fs::create_dir_all(&root).expect("mk root");
    std::env::set_current_dir(&root).expect("cd root");
    verif::registry_reset();
    let mut results = Vec::new();
    for step in v.get("steps").and_then(Value::as_array).expect("steps") {
        let k = s(step, "k");
        let r: Value = match k {
            "mkdir" => {
                let p = subst(s(step, "p"), &root);
                match std::fs::create_dir_all(&p) { Ok(_) => json!("ok"), Err(_) => json!("io") }
            }
            "write" => {
                let p = subst(s(step, "p"), &root);
                if let Some(par) = Path::new(&p).parent() { let _ = std::fs::create_dir_all(par); }
                match std::fs::write(&p, s(step, "s")) { Ok(_) => json!("ok"), Err(_) => json!("io") }
            }
            "rm" => {
                let p = subst(s(step, "p"), &root);
                let pp = Path::new(&p);
                let r = if pp.is_dir() { std::fs::remove_dir_all(pp) } else { std::fs::remove_file(pp) };
                match r { Ok(_) => json!("ok"), Err(_) => json!("io") }
            }
            "hide" => {
                // replace an existing file by a directory (keeping its content aside, outside the tree that is reported)
                let p = subst(s(step, "p"), &root);
                let bak = format!("{}.hidden-{}", root.trim_end_matches('/'), p.replace('/', "_"));
                match std::fs::rename(&p, &bak).and_then(|_| std::fs::create_dir(&p)) { Ok(_) => json!("ok"), Err(_) => json!("io") }
            }
            "unhide" => {
                let p = subst(s(step, "p"), &root);
                let bak = format!("{}.hidden-{}", root.trim_end_matches('/'), p.replace('/', "_"));
                match std::fs::remove_dir(&p).and_then(|_| std::fs::rename(&bak, &p)) { Ok(_) => json!("ok"), Err(_) => json!("io") }
            }
            "eam" => {
                let p = PathBuf::from(subst(s(step, "p"), &root));
                let name = s(step, "name").to_owned();
                let text = s(step, "text").to_owned();
                match catch_unwind(AssertUnwindSafe(|| verif::export_and_merge(p, name, text))) {
                    Ok(Ok(())) => json!("ok"),
                    Ok(Err(e)) => json!({ "err": err_name(&e) }),
                    Err(_) => json!({ "panic": true }),
                }
            }
            "reset" => { verif::registry_reset(); json!("ok") }
            other => panic!("unknown history step {other}"),
        };
        results.push(r);
    }
    let reg: Vec<Value> = verif::registry_dump()
        .into_iter()
        .map(|(p, names)| json!([lossy(p).replace(&root, "$ROOT"), names]))
        .collect();
    let out = json!({ "steps": results, "tree": snapshot(Path::new(&root)), "registry": reg,
                      "poisoned": verif::registry_is_poisoned() });
    std::env::set_current_dir("/").ok();
    let _ = std::fs::remove_dir_all(&root);
    out
}

fn handle(v: &Value) -> Value {
    match s(v, "op") {
        "absolute" => {
            set_cwd(v);
            res_str(verif::absolute(Path::new(s(v, "p"))).map(lossy))
        }
        "diff_paths" => {
            set_cwd(v);
            res_str(verif::diff_paths(Path::new(s(v, "path")), Path::new(s(v, "base"))).map(lossy))
        }
        "import_path" => {
            set_cwd(v);
            let esm = v.get("esm").and_then(Value::as_bool).unwrap_or(false);
            assert_eq!(esm, cfg!(feature = "import-esm"), "esm flag of the case does not match this build");
            res_str(verif::import_path(Path::new(s(v, "from")), Path::new(s(v, "to"))))
        }
        "merge" => json!({ "ok": verif::merge(s(v, "old").to_owned(), s(v, "new").to_owned()) }),
        "hist" => run_history(v),
        "chars" => {
            let rows: Vec<Value> = v.get("cps").and_then(Value::as_array).expect("cps").iter().map(|cp| {
                let c = char::from_u32(cp.as_u64().unwrap() as u32).expect("char");
                let dbg = format!("{:?}", c.to_string());
                json!([cp, c.is_uppercase(), c.is_alphanumeric(), c.is_numeric(),
                       c.to_string().to_uppercase(), c.to_string().to_lowercase(), dbg[1..dbg.len() - 1].to_owned()])
            }).collect();
            json!({ "ok": rows })
        }
        "threads" => {
            // concurrent exports of several types into one file (real threads, real mutex)
            let root = s(v, "root").to_owned();
            let rounds = v.get("rounds").and_then(Value::as_u64).unwrap_or(1);
            let gens: Vec<(String, String)> = v.get("gens").and_then(Value::as_array).expect("gens").iter()
                .map(|g| (s(g, "name").to_owned(), s(g, "text").to_owned())).collect();
            let mut finals = Vec::new();
            for round in 0..rounds {
                let _ = std::fs::remove_dir_all(&root);
                std::fs::create_dir_all(&root).expect("mk root");
                verif::registry_reset();
                let path = PathBuf::from(&root).join("shared.ts");
                let barrier = std::sync::Arc::new(std::sync::Barrier::new(gens.len()));
                let mut hs = Vec::new();
                for (i, (name, text)) in gens.iter().cloned().enumerate() {
                    let (b, p) = (barrier.clone(), path.clone());
                    hs.push(std::thread::spawn(move || {
                        b.wait();
                        if (i as u64 + round) % 3 == 0 { std::thread::yield_now(); }
                        verif::export_and_merge(p, name, text).is_ok()
                    }));
                }
                let oks: Vec<bool> = hs.into_iter().map(|h| h.join().unwrap_or(false)).collect();
                let content = std::fs::read_to_string(&path).unwrap_or_default();
                finals.push(json!({"ok": oks.iter().all(|b| *b), "file": content}));
            }
            let _ = std::fs::remove_dir_all(&root);
            json!({ "ok": finals })
        }
        "relay" => {
            // a SEQUENTIAL history of exports into one file whose steps are carried out by different (persistent) threads:
            // step i runs on worker `assign[i]` and is finished before step i + 1 starts (anything a thread remembers between
            // its own steps is wrong as soon as another thread has written in between)
            let root = s(v, "root").to_owned();
            let gens: Vec<(String, String)> = v.get("gens").and_then(Value::as_array).expect("gens").iter()
                .map(|g| (s(g, "name").to_owned(), s(g, "text").to_owned())).collect();
            let assign: Vec<usize> = v.get("assign").and_then(Value::as_array).expect("assign").iter().map(|x| x.as_u64().unwrap() as usize).collect();
            let _ = std::fs::remove_dir_all(&root);
            std::fs::create_dir_all(&root).expect("mk root");
            verif::registry_reset();
            let path = PathBuf::from(&root).join("shared.ts");
            let nthreads = assign.iter().copied().max().unwrap_or(0) + 1;
            let mut txs = Vec::new();
            let (rtx, rrx) = std::sync::mpsc::channel::<bool>();
            let mut hs = Vec::new();
            for _ in 0..nthreads {
                let (tx, rx) = std::sync::mpsc::channel::<(PathBuf, String, String)>();
                let rtx = rtx.clone();
                txs.push(tx);
                hs.push(std::thread::spawn(move || {
                    for (p, name, text) in rx {
                        let ok = catch_unwind(AssertUnwindSafe(|| verif::export_and_merge(p, name, text).is_ok())).unwrap_or(false);
                        let _ = rtx.send(ok);
                    }
                }));
            }
            let mut oks = Vec::new();
            for (i, (name, text)) in gens.iter().cloned().enumerate() {
                let t = assign[i % assign.len()];
                txs[t].send((path.clone(), name, text)).expect("send");
                oks.push(rrx.recv().unwrap_or(false));
            }
            drop(txs);
            for h in hs { let _ = h.join(); }
            let content = std::fs::read_to_string(&path).unwrap_or_default();
            let _ = std::fs::remove_dir_all(&root);
            json!({ "ok": { "steps": oks, "file": content } })
        }
        "consts" => json!({ "ok": { "NOTE": verif::NOTE, "DECLARATION_START": verif::DECLARATION_START,
                                    "esm": cfg!(feature = "import-esm"),
                                    "default_out_dir": lossy(verif::default_out_dir()) } }),
        other => panic!("unknown op {other}"),
    }
}

fn main() {
    std::panic::set_hook(Box::new(|_| {}));
    let stdin = std::io::stdin();
    let stdout = std::io::stdout();
    let mut out = std::io::BufWriter::new(stdout.lock());
    for line in stdin.lock().lines() {
        let line = line.expect("read line");
        if line.trim().is_empty() { continue; }
        let v: Value = serde_json::from_str(&line).expect("json");
        let r = match catch_unwind(AssertUnwindSafe(|| handle(&v))) {
            Ok(r) => r,
            Err(_) => json!({ "panic": true }),
        };
        writeln!(out, "{}", r).unwrap();
    }
}
