//! A small compiled universe of types driven through the PUBLIC export entry points
//! (`export`, `export_all`, `export_all_to`) against a scratch directory. One JSON op per line.
#![allow(dead_code)]
use std::{
    any::TypeId,
    collections::HashMap,
    io::{BufRead, Write},
    panic::{catch_unwind, AssertUnwindSafe},
    path::{Path, PathBuf},
};

use serde_json::{json, Value};
use ts_rs::{verif, ExportError, TypeVisitor, TS};

// ---- the universe -----------------------------------------------------------------------------
#[derive(TS)]
struct Leaf { x: i32 }
#[derive(TS)]
struct Inner { leaf: Leaf, v: Vec<Leaf> }
/// Outer docs
#[derive(TS)]
struct Outer { inner: Inner, o: Option<Box<Outer>> }
#[derive(TS)]
#[ts(export_to = "shared.ts")]
struct ShA { l: Leaf }
#[derive(TS)]
#[ts(export_to = "shared.ts")]
struct ShB { a: ShA, i: Inner }
/// docs of ShC
#[derive(TS)]
#[ts(export_to = "shared.ts")]
struct ShC {
    /// field doc
    c: u8,
}
#[derive(TS)]
#[ts(export_to = "sub/")]
struct InDir { b: ShB }
#[derive(TS)]
#[ts(export_to = "a/b/deep.ts")]
struct Deep { d: InDir, m: M1 }
#[derive(TS)]
struct M1 { m: Option<Box<M2>> }
#[derive(TS)]
#[ts(export_to = "sub/")]
struct M2 { m: Vec<M1> }
#[derive(TS)]
struct Wrapper<T> { t: T }
#[derive(TS)]
struct Apple;
#[derive(TS)]
struct Banana { w: Leaf }
#[derive(TS)]
#[ts(export_to = "../esc/Esc.ts")]
struct Esc { l: Leaf }
#[derive(TS)]
#[ts(export_to = "../../../../../../../../../../../../up.ts")]
struct TooHigh { a: u8 }
#[derive(TS)]
#[ts(export_to = "../../../../../poproot.ts")]
struct PopRoot { a: u8 }
#[derive(TS)]
struct UsesVec { v: Vec<Wrapper<Apple>> }
#[derive(TS)]
struct Inl { #[ts(inline)] i: Inner }
#[derive(TS)]
struct Fl { #[ts(flatten)] i: Inner, own: u8 }
#[derive(TS)]
struct AsTy { #[ts(as = "Leaf")] x: i32 }
#[derive(TS)]
struct Dflt<T = Banana> { t: Option<T> }
#[derive(TS)]
#[ts(export_to = "shared.ts")]
struct ShD { w: Wrapper<Banana> }
#[derive(TS)]
enum En { A(Leaf), B { i: Apple }, C }
// dependencies reachable only through a type alias of a container / generic / option
#[derive(TS)]
struct Wheel { r: u8 }
#[derive(TS)]
struct Seat { n: u8 }
#[derive(TS)]
#[ts(export_to = "parts/engine.ts")]
struct Engine { hp: u16 }
type Wheels = Vec<Wheel>;
type Seats = [Seat; 2];
type MaybeEngine = Option<Engine>;
// two types in one file that import DIFFERENT names from one other shared file
#[derive(TS)]
#[ts(export_to = "dep.ts")]
struct DepW { w: u8 }
#[derive(TS)]
#[ts(export_to = "dep.ts")]
struct DepX { x: u8 }
#[derive(TS)]
#[ts(export_to = "pshared.ts")]
struct PA { x: DepX }
#[derive(TS)]
#[ts(export_to = "pshared.ts")]
struct PB { w: DepW, l: Leaf }
// the shared file spelled with a `..` detour in `export_to`
#[derive(TS)]
#[ts(export_to = "dots/../shared.ts")]
struct ShDots { l: Leaf }
#[derive(TS)]
struct UsesDots { d: ShDots, a: ShA }
// two names that differ only in case, in one file (the order of the blocks is by code point, not by dictionary)
#[derive(TS)]
#[ts(export_to = "ids.ts")]
struct UserId { v: u32 }
#[derive(TS)]
#[ts(export_to = "ids.ts")]
struct UserID { v: String }
#[derive(TS)]
#[ts(export_to = "ids.ts")]
struct Userid { v: bool }
#[derive(TS)]
#[ts(export_to = "ids.ts")]
struct User { v: u8 }
#[derive(TS)]
struct UsesIds { a: UserId, b: UserID, c: Userid, d: User }
// two different Rust types with the same TypeScript name, in different files
mod shapes {
    use ts_rs::TS;
    #[derive(TS)]
    #[ts(export_to = "shapes/")]
    pub struct Point { pub x: u8 }
}
mod geo {
    use ts_rs::TS;
    #[derive(TS)]
    #[ts(export_to = "geo/")]
    pub struct Srid { pub code: u32 }
    #[derive(TS)]
    #[ts(export_to = "geo/")]
    pub struct Point { pub srid: Srid }
}
#[derive(TS)]
struct UsesPoints { a: shapes::Point, b: geo::Point }
// a generic `Name<T>` and a `Name2` in one file (`2` sorts below `<`)
#[derive(TS)]
#[ts(export_to = "pts.ts")]
struct Pt<T> { t: T }
#[derive(TS)]
#[ts(export_to = "pts.ts")]
struct Pt2 { x: u8 }
#[derive(TS)]
struct UsesPts { a: Pt<u8>, b: Pt2 }
#[derive(TS)]
struct CarAliased { wheels: Wheels, seats: Seats, engine: MaybeEngine }
// `export_to` values that are files without the `.ts` extension, and a directory whose name ends in `.ts`
// (only a trailing `/` makes it a directory; anything else is the file, verbatim)
#[derive(TS)]
#[ts(export_to = "forms/index")]
struct NoExt { v: u8 }
#[derive(TS)]
#[ts(export_to = "forms/types.d.mts")]
struct OtherExt { v: u8 }
#[derive(TS)]
#[ts(export_to = "forms/v1.ts/")]
struct DotDir { v: u8 }
#[derive(TS)]
#[ts(export_to = ".hidden")]
struct Hidden { v: u8 }
// a second type in `shared.ts`, spelled with the `..` detour, that USES a type of the same file spelled plainly
// (whether two types share a file is a question about normalised paths, not about the spelling of `export_to`)
#[derive(TS)]
#[ts(export_to = "dots/../shared.ts")]
struct ShDots2 { a: ShA, l: Leaf }
// dependencies reached by descending into an entry whose name begins with a dot: the specifier still starts with `./`
#[derive(TS)]
#[ts(export_to = ".generated/")]
struct HiddenDep { v: u8 }
#[derive(TS)]
#[ts(export_to = ".dotshared.ts")]
struct DotA { v: u8 }
#[derive(TS)]
struct UsesDotNames { h: HiddenDep, a: DotA }
// a type used FIRST inlined / flattened and THEN by name in one item, and nowhere else: its file still has to be written
#[derive(TS)]
struct OnlyHere { v: u8 }
#[derive(TS)]
struct InlThenName { #[ts(inline)] first: OnlyHere, second: OnlyHere }
#[derive(TS)]
struct OnlyThere { w: u8 }
#[derive(TS)]
struct FlatThenName { #[ts(flatten)] first: OnlyThere, second: OnlyThere }

// two instantiations of ONE generic type whose dependencies come from an associated type of the argument (the parameter is made
// concrete, so the parent's `visit_generics` does not reach them): each instantiation has its own dependency list
trait AsDriver { type Info; }
#[derive(TS)]
struct AsInfoA { a: i32 }
#[derive(TS)]
struct AsInfoB { b: String }
struct AsDriverA;
struct AsDriverB;
impl AsDriver for AsDriverA { type Info = AsInfoA; }
impl AsDriver for AsDriverB { type Info = AsInfoB; }
#[derive(TS)]
#[ts(concrete(D = AsDriverA))]
struct AsInner<D: AsDriver> { info: D::Info }
#[derive(TS)]
struct AsRoot { x: AsInner<AsDriverA>, y: AsInner<AsDriverB> }

struct Entry {
    name: &'static str,
    tid: TypeId,
    export: fn() -> Result<(), ExportError>,
    export_all: fn() -> Result<(), ExportError>,
    export_all_to: fn(&Path) -> Result<(), ExportError>,
    describe: fn(&HashMap<TypeId, usize>) -> Value,
}

struct DepV<'a>(&'a HashMap<TypeId, usize>, Vec<Value>);
impl TypeVisitor for DepV<'_> {
    fn visit<T: TS + 'static + ?Sized>(&mut self) {
        if <T as TS>::output_path().is_none() {
            return;
        }
        match self.0.get(&TypeId::of::<T>()) {
            Some(i) => self.1.push(json!(i)),
            None => self.1.push(json!({"outside": std::any::type_name::<T>()})),
        }
    }
}

fn describe<T: TS + 'static + ?Sized>(ids: &HashMap<TypeId, usize>) -> Value {
    let mut v = DepV(ids, vec![]);
    T::visit_dependencies(&mut v);
    let text = match catch_unwind(|| T::export_to_string()) {
        Ok(Ok(s)) => json!({"ok": s}),
        Ok(Err(e)) => json!({"err": err_name(&e)}),
        Err(_) => json!({"panic": true}),
    };
    let ident = catch_unwind(|| T::ident()).unwrap_or_else(|_| "<panic>".to_owned());
    json!({
        "ident": ident,
        "output_path": T::output_path().map(|p| p.to_string_lossy().into_owned()),
        "default_output_path": T::default_output_path().map(|p| p.to_string_lossy().into_owned()),
        "text": text,
        "deps": v.1,
    })
}

fn entry<T: TS + 'static + ?Sized>(name: &'static str) -> Entry {
    Entry {
        name,
        tid: TypeId::of::<T>(),
        export: || T::export(),
        export_all: || T::export_all(),
        export_all_to: |p| T::export_all_to(p),
        describe: describe::<T>,
    }
}

fn universe() -> Vec<Entry> {
    vec![
        entry::<Leaf>("Leaf"), entry::<Inner>("Inner"), entry::<Outer>("Outer"), entry::<ShA>("ShA"),
        entry::<ShB>("ShB"), entry::<ShC>("ShC"), entry::<InDir>("InDir"), entry::<Deep>("Deep"),
        entry::<M1>("M1"), entry::<M2>("M2"), entry::<Wrapper<Apple>>("Wrapper<Apple>"),
        entry::<Wrapper<Banana>>("Wrapper<Banana>"), entry::<Apple>("Apple"), entry::<Banana>("Banana"),
        entry::<Esc>("Esc"), entry::<TooHigh>("TooHigh"), entry::<PopRoot>("PopRoot"), entry::<UsesVec>("UsesVec"),
        entry::<Inl>("Inl"), entry::<Fl>("Fl"), entry::<AsTy>("AsTy"), entry::<Dflt<Banana>>("Dflt<Banana>"),
        entry::<Dflt<Apple>>("Dflt<Apple>"), entry::<ShD>("ShD"), entry::<En>("En"),
        entry::<Vec<Leaf>>("Vec<Leaf>"), entry::<(Leaf, Inner)>("(Leaf, Inner)"), entry::<i32>("i32"),
        entry::<Option<Outer>>("Option<Outer>"), entry::<Wrapper<ts_rs::Dummy>>("Wrapper<Dummy>"),
        entry::<Dflt<ts_rs::Dummy>>("Dflt<Dummy>"),
        entry::<Wheel>("Wheel"), entry::<Seat>("Seat"), entry::<Engine>("Engine"), entry::<CarAliased>("CarAliased"),
        entry::<DepW>("DepW"), entry::<DepX>("DepX"), entry::<PA>("PA"), entry::<PB>("PB"),
        entry::<ShDots>("ShDots"), entry::<UsesDots>("UsesDots"),
        entry::<UserId>("UserId"), entry::<UserID>("UserID"), entry::<Userid>("Userid"), entry::<UsesIds>("UsesIds"),
        entry::<User>("User"), entry::<shapes::Point>("shapes::Point"), entry::<geo::Point>("geo::Point"), entry::<geo::Srid>("Srid"),
        entry::<UsesPoints>("UsesPoints"), entry::<Pt<u8>>("Pt<u8>"), entry::<Pt2>("Pt2"), entry::<UsesPts>("UsesPts"),
        entry::<NoExt>("NoExt"), entry::<OtherExt>("OtherExt"), entry::<DotDir>("DotDir"), entry::<Hidden>("Hidden"),
        entry::<ShDots2>("ShDots2"), entry::<HiddenDep>("HiddenDep"), entry::<DotA>("DotA"), entry::<UsesDotNames>("UsesDotNames"),
        entry::<OnlyHere>("OnlyHere"), entry::<InlThenName>("InlThenName"), entry::<OnlyThere>("OnlyThere"), entry::<FlatThenName>("FlatThenName"),
        entry::<AsInfoA>("AsInfoA"), entry::<AsInfoB>("AsInfoB"), entry::<AsInner<AsDriverA>>("AsInner<AsDriverA>"),
        entry::<AsInner<AsDriverB>>("AsInner<AsDriverB>"), entry::<AsRoot>("AsRoot"),
    ]
}

fn err_name(e: &ExportError) -> &'static str {
    match e {
        ExportError::CannotBeExported(_) => "CannotBeExported",
        ExportError::Io(_) => "Io",
        ExportError::ManifestDirNotSet => "ManifestDirNotSet",
        ExportError::Fmt(_) => "Fmt",
        #[allow(unreachable_patterns)]
        _ => "Other",
    }
}

fn s<'a>(v: &'a Value, k: &str) -> &'a str {
    v.get(k).and_then(Value::as_str).unwrap_or_else(|| panic!("missing string field {k}"))
}

fn snapshot(root: &Path) -> Value {
    fn walk(root: &Path, dir: &Path, out: &mut Vec<Value>) {
        let mut entries: Vec<_> = match std::fs::read_dir(dir) {
            Ok(rd) => rd.filter_map(|e| e.ok()).collect(),
            Err(_) => return,
        };
        entries.sort_by_key(|e| e.file_name());
        for e in entries {
            let p = e.path();
            let rel = p.strip_prefix(root).unwrap().to_string_lossy().into_owned();
            if p.is_dir() {
                out.push(json!([rel, {"dir": true}]));
                walk(root, &p, out);
            } else {
                let bytes = std::fs::read(&p).unwrap_or_default();
                out.push(json!([rel, {"file": String::from_utf8_lossy(&bytes)}]));
            }
        }
    }
    let mut out = Vec::new();
    walk(root, root, &mut out);
    Value::Array(out)
}

fn set_env(v: &Value, root: &str) {
    match v.get("env").and_then(Value::as_str) {
        Some(d) => std::env::set_var("TS_RS_EXPORT_DIR", d.replace("$ROOT", root)),
        None => std::env::remove_var("TS_RS_EXPORT_DIR"),
    }
}

fn res(r: std::thread::Result<Result<(), ExportError>>) -> Value {
    match r {
        Ok(Ok(())) => json!("ok"),
        Ok(Err(e)) => json!({ "err": err_name(&e) }),
        Err(_) => json!({ "panic": true }),
    }
}

fn run_history(u: &[Entry], v: &Value) -> Value {
    let root = s(v, "root").to_owned();
    let _ = std::fs::remove_dir_all(&root);
    std::fs::create_dir_all(&root).expect("mk root");
    std::env::set_current_dir(&root).expect("cd root");
    set_env(v, &root);
    verif::registry_reset();
    let mut results = Vec::new();
    let mut snaps = Vec::new();
    for step in v.get("steps").and_then(Value::as_array).expect("steps") {
        let k = s(step, "k");
        let t = step.get("t").and_then(Value::as_u64).map(|i| &u[i as usize]);
        let r: Value = match k {
            "export" => res(catch_unwind(AssertUnwindSafe(|| (t.unwrap().export)()))),
            "export_all" => res(catch_unwind(AssertUnwindSafe(|| (t.unwrap().export_all)()))),
            "export_all_to" => {
                let d = PathBuf::from(s(step, "dir").replace("$ROOT", &root));
                res(catch_unwind(AssertUnwindSafe(|| (t.unwrap().export_all_to)(&d))))
            }
            "mkdir" => match std::fs::create_dir_all(s(step, "p").replace("$ROOT", &root)) { Ok(_) => json!("ok"), Err(_) => json!("io") },
            "write" => {
                let p = s(step, "p").replace("$ROOT", &root);
                if let Some(par) = Path::new(&p).parent() { let _ = std::fs::create_dir_all(par); }
                match std::fs::write(&p, s(step, "s")) { Ok(_) => json!("ok"), Err(_) => json!("io") }
            }
            "rm" => {
                let p = s(step, "p").replace("$ROOT", &root);
                let pp = Path::new(&p);
                let r = if pp.is_dir() { std::fs::remove_dir_all(pp) } else { std::fs::remove_file(pp) };
                match r { Ok(_) => json!("ok"), Err(_) => json!("io") }
            }
            "hide" => {
                // replace an existing file by a directory (keeping its content aside)
                let p = s(step, "p").replace("$ROOT", &root);
                let bak = format!("{p}.bak");
                match std::fs::rename(&p, &bak).and_then(|_| std::fs::create_dir(&p)) { Ok(_) => json!("ok"), Err(_) => json!("io") }
            }
            "unhide" => {
                let p = s(step, "p").replace("$ROOT", &root);
                let bak = format!("{p}.bak");
                match std::fs::remove_dir(&p).and_then(|_| std::fs::rename(&bak, &p)) { Ok(_) => json!("ok"), Err(_) => json!("io") }
            }
            "reset" => { verif::registry_reset(); json!("ok") }
            "cd" => match std::env::set_current_dir(s(step, "p").replace("$ROOT", &root)) { Ok(_) => json!("ok"), Err(_) => json!("io") },
            "snap" => { snaps.push(snapshot(Path::new(&root))); json!("ok") }
            other => panic!("unknown step {other}"),
        };
        results.push(r);
    }
    let reg: Vec<Value> = verif::registry_dump().into_iter()
        .map(|(p, names)| json!([p.to_string_lossy().replace(&root, "$ROOT"), names])).collect();
    let out = json!({ "steps": results, "tree": snapshot(Path::new(&root)), "snaps": snaps, "registry": reg,
                      "poisoned": verif::registry_is_poisoned() });
    std::env::set_current_dir("/").ok();
    let _ = std::fs::remove_dir_all(&root);
    out
}

fn main() {
    std::panic::set_hook(Box::new(|_| {}));
    let u = universe();
    let ids: HashMap<TypeId, usize> = u.iter().enumerate().map(|(i, e)| (e.tid, i)).collect();
    let stdin = std::io::stdin();
    let stdout = std::io::stdout();
    let mut out = std::io::BufWriter::new(stdout.lock());
    for line in stdin.lock().lines() {
        let line = line.expect("line");
        if line.trim().is_empty() { continue; }
        let v: Value = serde_json::from_str(&line).expect("json");
        let r = match s(&v, "op") {
            "describe" => {
                let root = s(&v, "root").to_owned();
                std::fs::create_dir_all(&root).expect("mk root");
                std::env::set_current_dir(&root).expect("cd");
                set_env(&v, &root);
                let tys: Vec<Value> = u.iter().map(|e| {
                    let mut d = (e.describe)(&ids);
                    d["name"] = json!(e.name);
                    d
                }).collect();
                json!({ "ok": tys, "default_out_dir": verif::default_out_dir().to_string_lossy() })
            }
            "uhist" => match catch_unwind(AssertUnwindSafe(|| run_history(&u, &v))) {
                Ok(r) => r,
                Err(_) => json!({"panic": true}),
            },
            other => panic!("unknown op {other}"),
        };
        writeln!(out, "{}", r).unwrap();
    }
}
