import TsRsVerif.Model.Text
import TsRsVerif.Model.Path
