/-
  Line-protocol driver: one JSON operation per line on stdin, one JSON result per line on stdout,
  computed by the MODEL (TsRsVerif.Model.*). The Rust harnesses answer the same lines from the
  real implementation; tools/check.py diffs the two streams.
-/
import Lean.Data.Json
import TsRsVerif.Model.Text
import TsRsVerif.Model.Path
import TsRsVerif.Model.Case
import TsRsVerif.Model.Export
import TsRsVerif.Driver.ProgIO
import TsRsVerif.Model.TsNorm
import TsRsVerif.Model.TsWitness
import TsRsVerif.Model.Attr
import TsRsVerif.Model.Validity
import TsRsVerif.Model.Comment
import TsRsVerif.Model.TreeDerive
import TsRsVerif.Lemmas.History
import TsRsVerif.Lemmas.UnfoldCheck
import TsRsVerif.Model.De
import TsRsVerif.Model.DeFrag
open Lean TsRs

def gs (j : Json) (k : String) : Str :=
  match j.getObjValAs? String k with
  | .ok s => s.toList
  | .error _ => []

def gsl (j : Json) (k : String) : List Str :=
  match j.getObjValAs? (Array String) k with
  | .ok a => a.toList.map (·.toList)
  | .error _ => []

def gb (j : Json) (k : String) : Bool :=
  match j.getObjValAs? Bool k with
  | .ok b => b
  | .error _ => false

def S (s : Str) : Json := Json.str (String.ofList s)

def errName : ExportErr → String
  | .cannotBeExported => "CannotBeExported"
  | .io => "Io"
  | .fmt => "Fmt"

def resStr : Except ExportErr Str → Json
  | .ok s => Json.mkObj [("ok", S s)]
  | .error e => Json.mkObj [("err", Json.str (errName e))]

def panicJ : Json := Json.mkObj [("panic", Json.bool true)]

/-- driver state: the Unicode table printed by Rust's own `char` methods for the working alphabet -/
structure CharRow where
  cp : Nat
  upper : Bool
  alnum : Bool
  numeric : Bool
  up : Str
  lo : Str
  esc : Str

def lookup (t : List CharRow) (c : Char) : Option CharRow := t.find? fun r => r.cp = c.toNat

def opsOf (t : List CharRow) : CharOps where
  isUpper := fun c => match lookup t c with | some r => r.upper | none => Case.asciiOps.isUpper c
  isAlnum := fun c => match lookup t c with | some r => r.alnum | none => Case.asciiOps.isAlnum c
  isNumeric := fun c => match lookup t c with | some r => r.numeric | none => Case.asciiOps.isNumeric c
  strLower := fun s => (s.map fun c => match lookup t c with | some r => r.lo | none => [Text.asciiLower c]).flatten
  strUpper := fun s => (s.map fun c => match lookup t c with | some r => r.up | none => [Text.asciiUpper c]).flatten
  escDebug := fun c => match lookup t c with | some r => r.esc | none => Case.asciiEscDebug c

def parseChars (j : Json) : List CharRow :=
  match j.getObjVal? "table" with
  | .ok (Json.arr rows) => rows.toList.filterMap fun r =>
    match r with
    | Json.arr a =>
      if a.size = 7 then
        match a[0]!.getNat?, a[1]!.getBool?, a[2]!.getBool?, a[3]!.getBool?, a[4]!.getStr?, a[5]!.getStr?, a[6]!.getStr? with
        | .ok cp, .ok u, .ok al, .ok nu, .ok up, .ok lo, .ok esc => some ⟨cp, u, al, nu, up.toList, lo.toList, esc.toList⟩
        | _, _, _, _, _, _, _ => none
      else none
    | _ => none
  | _ => []

def resJ : Res Str → Json
  | .ok s => Json.mkObj [("ok", S s)]
  | .panic _ => Json.mkObj [("panic", Json.bool true)]

/-! ### histories against the file-system / registry model -/

def locOf (root : Str) : Loc := (Text.splitChar '/' root).filter (· ≠ [])

def prefixes (l : Loc) : List Loc := (List.range l.length).map fun i => l.take (i + 1)

def initFs (root : Str) : Fs :=
  let l := locOf root
  { nodes := (prefixes l).map fun p => (p, Node.dir), cwd := l }

def substRoot (root s : Str) : Str := Text.replace "$ROOT".toList root s

def isPrefixLoc (a b : Loc) : Bool := a.length ≤ b.length && b.take a.length == a

def outcomeJ : Outcome → Json
  | .ok => Json.str "ok"
  | .err e => Json.mkObj [("err", Json.str (errName e))]
  | .panic => Json.mkObj [("panic", Json.bool true)]

def optJ (o : Option α) : Json := match o with | some _ => Json.str "ok" | none => Json.str "io"

def histStep (root : Str) (w : World) (st : Json) : World × Json :=
  let p := substRoot root (gs st "p")
  match String.ofList (gs st "k") with
  | "mkdir" => match w.fs.createDirAll p with
    | some fs' => ({ w with fs := fs' }, Json.str "ok")
    | none => (w, Json.str "io")
  | "write" =>
    let par := (Path.parent p).getD []
    match w.fs.createDirAll par with
    | none => (w, Json.str "io")
    | some fs1 => match fs1.fileCreate p (gs st "s") with
      | some fs2 => ({ w with fs := fs2 }, Json.str "ok")
      | none => ({ w with fs := fs1 }, Json.str "io")
  | "rm" => match w.fs.resolve p with
    | none => (w, Json.str "io")
    | some l => match w.fs.lookup l with
      | none => (w, Json.str "io")
      | some _ => ({ w with fs := { w.fs with nodes := w.fs.nodes.filter fun n => !isPrefixLoc l n.1 } }, Json.str "ok")
  | "eam" =>
    let (w', o) := Export.exportAndMerge w p (gs st "name") (gs st "text")
    (w', outcomeJ o)
  | "hide" => match w.fs.resolve p with
    | none => (w, Json.str "io")
    | some l => match w.fs.lookup l, l.getLast? with
      | some (.file c), some nm =>
        let bak := l.dropLast ++ [nm ++ ".bak".toList]
        ({ w with fs := (w.fs.set bak (.file c)).set l .dir }, Json.str "ok")
      | _, _ => (w, Json.str "io")
  | "unhide" => match w.fs.resolve p with
    | none => (w, Json.str "io")
    | some l => match l.getLast? with
      | none => (w, Json.str "io")
      | some nm =>
        let bak := l.dropLast ++ [nm ++ ".bak".toList]
        match w.fs.lookup l, w.fs.lookup bak with
        | some .dir, some (.file c) =>
          if w.fs.nodes.any (fun n => isPrefixLoc l n.1 && n.1 ≠ l) then (w, Json.str "io")
          else ({ w with fs := { (w.fs.set l (.file c)) with nodes := ((w.fs.set l (.file c)).nodes.filter fun n => n.1 ≠ bak) } }, Json.str "ok")
        | _, _ => (w, Json.str "io")
  | "reset" => ({ w with reg := [], poisoned := false }, Json.str "ok")
  | "cd" => match w.fs.resolve p with
    | none => (w, Json.str "io")
    | some l => if w.fs.isDir l || l == [] then ({ w with fs := { w.fs with cwd := l } }, Json.str "ok") else (w, Json.str "io")
  | k => (w, Json.mkObj [("unknown_step", Json.str k)])

def runHist (j : Json) : Json :=
  let root := gs j "root"
  let steps := match j.getObjVal? "steps" with | .ok (Json.arr a) => a.toList | _ => []
  let (w, outs) := steps.foldl (fun (acc : World × List Json) st =>
    let (w', o) := histStep root acc.1 st; (w', acc.2 ++ [o])) (({ fs := initFs root, reg := [] } : World), [])
  let rl := locOf root
  let tree := w.fs.nodes.filter (fun n => isPrefixLoc rl n.1 && n.1 ≠ rl) |>.map fun n =>
    Json.arr #[S (Text.intercalate ['/'] (n.1.drop rl.length)),
      match n.2 with | .dir => Json.mkObj [("dir", Json.bool true)] | .file c => Json.mkObj [("file", S c)]]
  Json.mkObj [("steps", Json.arr outs.toArray), ("tree", Json.arr tree.toArray),
    ("registry", Json.arr (w.reg.map fun e => Json.arr #[S (Text.replace root "$ROOT".toList (Path.ofComps e.1)), Json.arr (e.2.map S).toArray]).toArray),
    ("poisoned", Json.bool w.poisoned)]

/-! ### universe histories (public entry points) -/

def parseTy (t : Json) : Export.TyInfo :=
  let op : Option Str := match t.getObjValAs? String "output_path" with
    | .ok s => some s.toList
    | .error _ => none
  let text : Except ExportErr Str := match t.getObjVal? "text" with
    | .ok tx => match tx.getObjValAs? String "ok" with
      | .ok s => .ok s.toList
      | .error _ => match tx.getObjValAs? String "err" with
        | .ok "CannotBeExported" => .error .cannotBeExported
        | .ok "Fmt" => .error .fmt
        | _ => .error .io
    | .error _ => .error .io
  let deps : List Nat := match t.getObjVal? "deps" with
    | .ok (Json.arr ds) => ds.toList.filterMap fun d => match d.getNat? with | .ok n => some n | .error _ => none
    | _ => []
  ⟨gs t "ident", op, text, deps⟩

def parseUniverse (j : Json) : Export.Universe :=
  match j.getObjVal? "types" with
  | .ok (Json.arr ts) => ts.toList.map parseTy
  | _ => []

def uStep (u : Export.Universe) (dod root : Str) (w : World) (st : Json) : World × Json :=
  let ti := match st.getObjValAs? Nat "t" with | .ok n => n | .error _ => 0
  let ent : Option Export.Entry := match String.ofList (gs st "k") with
    | "export" => some (.export ti)
    | "export_all" => some (.exportAll ti)
    | "export_all_to" => some (.exportAllTo ti (substRoot root (gs st "dir")))
    | _ => none
  match ent with
  | some e => match Export.runEntry u dod w e with
    | some (w', o) => (w', outcomeJ o)
    | none => (w, Json.mkObj [("model_fuel_or_index", Json.bool true)])
  | none => histStep root w st

def treeJ (w : World) (rl : Loc) : Json :=
  Json.arr (w.fs.nodes.filter (fun n => isPrefixLoc rl n.1 && n.1 ≠ rl) |>.map fun n =>
    Json.arr #[S (Text.intercalate ['/'] (n.1.drop rl.length)),
      match n.2 with | .dir => Json.mkObj [("dir", Json.bool true)] | .file c => Json.mkObj [("file", S c)]]).toArray

def runUHist (u : Export.Universe) (j : Json) : Json :=
  let root := gs j "root"
  let dod := match j.getObjValAs? String "env" with | .ok s => substRoot root s.toList | .error _ => Gen.DEFAULT_OUT_DIR.toList
  let steps := match j.getObjVal? "steps" with | .ok (Json.arr a) => a.toList | _ => []
  let rl := locOf root
  let (w, outs, snaps) := steps.foldl (fun (acc : World × List Json × List Json) st =>
    if gs st "k" = "snap".toList then (acc.1, acc.2.1 ++ [Json.str "ok"], acc.2.2 ++ [treeJ acc.1 rl])
    else let (w', o) := uStep u dod root acc.1 st; (w', acc.2.1 ++ [o], acc.2.2)) (({ fs := initFs root, reg := [] } : World), [], [])
  Json.mkObj [("steps", Json.arr outs.toArray), ("tree", treeJ w rl), ("snaps", Json.arr snaps.toArray),
    ("registry", Json.arr (w.reg.map fun e => Json.arr #[S (Text.replace root "$ROOT".toList (Path.ofComps e.1)), Json.arr (e.2.map S).toArray]).toArray),
    ("poisoned", Json.bool w.poisoned)]

structure DState where
  chars : List CharRow := []
  uni : Export.Universe := []

partial def tokOf (j : Json) : Tok :=
  match j.getObjValAs? String "i", j.getObjValAs? String "p", j.getObjValAs? String "s", j.getObjValAs? String "o" with
  | .ok s, _, _, _ => .ident s
  | _, .ok p, _, _ => .punct (p.toList.headD ',')
  | _, _, .ok s, _ => .strLit s
  | _, _, _, .ok o => .otherLit o
  | _, _, _, _ => match j.getObjVal? "g" with
    | .ok (Json.arr a) => .group (a.toList.map tokOf)
    | _ => .otherLit "?"

def tokLists (j : Json) (k : String) : List (List Tok) :=
  match j.getObjVal? k with
  | .ok (Json.arr ls) => ls.toList.map fun l => match l with | Json.arr a => a.toList.map tokOf | _ => []
  | _ => []

def posOf : String → Pos
  | "struct" => .struct | "enum" => .enum | "variant" => .variant | _ => .field

def shapeOfJ (j : Json) : Shape :=
  match j.getObjValAs? String "shape" with
  | .ok "tuple" => .tuple | .ok "unit" => .unit | _ => .named

def aField (j : Json) : Validity.AField :=
  { named := gb j "named", ts := tokLists j "ts", serde := tokLists j "serde" }

def aItem (j : Json) : Validity.AItem :=
  { isEnum := gb j "is_enum", ts := tokLists j "ts", serde := tokLists j "serde", shape := shapeOfJ j,
    fields := (ProgIO.arr j "fields").map aField,
    variants := (ProgIO.arr j "variants").map fun v =>
      { shape := shapeOfJ v, ts := tokLists v "ts", serde := tokLists v "serde", fields := (ProgIO.arr v "fields").map aField } }

def canonParsed (p : Parsed) : String :=
  let norm := p.map fun (k, v) => (k, if k = "concrete" ∨ k = "bound" then "true" else v)
  let items := (norm.filter fun (k, _) => k ≠ "crate_rename").map fun (k, v) => k ++ "=" ++ v
  ";".intercalate (items.toArray.qsort (· < ·)).toList

def handle (ops : CharOps) (j : Json) : Json :=
  match String.ofList (gs j "op") with
  | "inflect_field" =>
    match Case.ruleOfName (String.ofList (gs j "rule")) with
    | some r => Json.mkObj [("ok", S (Case.applyToField ops r (gs j "s")))]
    | none => Json.mkObj [("unknown_rule", S (gs j "rule"))]
  | "inflect_variant" =>
    match Case.ruleOfName (String.ofList (gs j "rule")) with
    | some r => Json.mkObj [("ok", S (Case.applyToVariant ops r (gs j "s")))]
    | none => Json.mkObj [("unknown_rule", S (gs j "rule"))]
  | "serde_field" =>
    match Case.ruleOfName (String.ofList (gs j "rule")) with
    | some r => resJ (Case.serdeField ops r (gs j "s"))
    | none => Json.null
  | "serde_variant" =>
    match Case.ruleOfName (String.ofList (gs j "rule")) with
    | some r => resJ (Case.serdeVariant ops r (gs j "s"))
    | none => Json.null
  | "merge" => resJ (Merge.merge (gs j "old") (gs j "new"))
  | "canon_file" => match Merge.canonFile ((gsl j "names").zip (gsl j "texts")) with
    | some s => Json.mkObj [("ok", S s)]
    | none => Json.mkObj [("not_wf", Json.bool true)]
  | "gen_ok" =>
    -- is this generated text inside the domain of the history theorems (C05_history_canonical)?
    let (parts, ok, same) := genTextInDomain (gs j "name") (gs j "text")
    let dn : Str := match Merge.genParts (gs j "text") with
      | some (_, decl) => (Merge.declName decl).getD []
      | none => []
    Json.mkObj [("parts", Json.bool parts), ("ok", Json.bool ok), ("same_text", Json.bool same), ("decl_name", S dn)]
  | "hist" => runHist j
  | "oracle_member" =>
    -- does the JSON text `json` inhabit the type `ty` under the declarations `decls` (all given as TypeScript text)?
    let decls : Decls := (gsl j "decls").filterMap fun d => (TsParse.parseDecl d).map fun (n, ps, body) => (n, ps, TsParse.bindParams ps body)
    let nDecl := (gsl j "decls").length
    match TsParse.parseType (gs j "ty"), Json.parse (String.ofList (gs j "json")) with
    | some t, .ok v =>
      Json.mkObj [("ok", Json.bool (Ts.memberb decls 60 t (ProgIO.ofLean v))), ("decls_parsed", Json.num decls.length), ("decls_given", Json.num nDecl)]
    | none, _ => Json.mkObj [("unparsed_type", S (gs j "ty"))]
    | _, .error e => Json.mkObj [("bad_value", Json.str e)]
  | "witnesses" =>
    let decls : Decls := (gsl j "decls").filterMap fun d => (TsParse.parseDecl d).map fun (n, ps, body) => (n, ps, TsParse.bindParams ps body)
    match TsParse.parseType (gs j "ty") with
    | some t => Json.mkObj [("ok", Json.arr ((Ts.witnesses decls 24 30 t).map fun w => Json.str (ProgIO.render w)).toArray)]
    | none => Json.mkObj [("unparsed_type", S (gs j "ty"))]
  | "attrs" =>
    match Attr.fromAttrs (gb j "serde_compat") (posOf (String.ofList (gs j "pos"))) (tokLists j "ts") (tokLists j "serde") with
    | .ok p => Json.mkObj [("ok", Json.str (canonParsed p))]
    | .error m => Json.mkObj [("err", Json.str m)]
  | "derive_outcome" =>
    match Validity.derive (gb j "serde_compat") (aItem j) with
    | .ok => Json.mkObj [("ok", Json.bool true)]
    | .error m => Json.mkObj [("err", Json.str m)]
  | "parse_docs" =>
    let out := Derive.parseDocs (gsl j "docs")
    let sentinel := gs j "sentinel"
    let lead := Comment.leadingComment (out ++ sentinel)
    Json.mkObj [("out", Json.str (String.ofList out)),
      ("inert", Json.bool (Comment.run .code (out ++ sentinel) == Comment.run .code sentinel)),
      ("body", match lead with | some (b, _) => Json.str (String.ofList b) | none => Json.null),
      ("rest", match lead with | some (_, r) => Json.str (String.ofList r) | none => Json.null)]
  | "sig" => Json.mkObj [("sig", Json.str (String.ofList (Comment.sig .code (gs j "text")))),
                         ("end_code", Json.bool (Comment.endState .code (gs j "text") == .code))]
  | "oracle_c07" =>
    -- generic declaration vs concrete declaration of one instantiation
    let others : Decls := (gsl j "decls").filterMap fun d => (TsParse.parseDecl d).map fun (n, ps, body) => (n, ps, TsParse.bindParams ps body)
    match TsParse.parseDecl (gs j "decl"), TsParse.parseDecl (gs j "decl_concrete"), TsParse.parseType (gs j "name") with
    | some (n, ps, body), some (n', ps', cbody), some nameT =>
      let body' := TsParse.bindParams ps body
      let declared := others.map (·.1)
      let isScoped := (Ts.freeRefs body').all fun r => r ∈ ps || r ∈ declared || r = n
      let argsOk := match nameT with
        | .ref m args => m = n && args.length = ps.length
        | _ => false
      let inst := match nameT with
        | .ref _ args => Ts.subst (ps.zip args) body'
        | _ => body'
      -- syntactic normal forms first; otherwise unfold every declared name on both sides (inlined vs referenced presentations)
      let allD : Decls := (n, ps, body') :: others
      let same := Ts.beq (Ts.norm others [] 40 inst) (Ts.norm others [] 40 cbody)
        || Ts.beq (Ts.norm allD (allD.map (·.1)) 12 inst) (Ts.norm allD (allD.map (·.1)) 12 cbody)
      Json.mkObj [("ok", Json.bool (isScoped && argsOk && ps' == [] && n == n')), ("params", Json.arr (ps.map S).toArray), ("scoped", Json.bool isScoped),
        ("name_is_ident_applied", Json.bool argsOk), ("instantiation_equals_concrete", Json.bool same)]
    | _, _, _ => Json.mkObj [("unparsed", Json.bool true)]
  | "oracle_c14" =>
    -- two declarations must denote the same type once references to `unfold` are replaced by their bodies
    let D : Decls := (gsl j "decls").filterMap fun d => (TsParse.parseDecl d).map fun (n, ps, body) => (n, ps, TsParse.bindParams ps body)
    match TsParse.parseDecl (gs j "a"), TsParse.parseDecl (gs j "b") with
    | some (_, psa, ba), some (_, psb, bb) =>
      let na := Ts.norm D (gsl j "unfold") 40 (TsParse.bindParams psa ba)
      let nb := Ts.norm D (gsl j "unfold") 40 (TsParse.bindParams psb bb)
      Json.mkObj [("ok", Json.bool (Ts.beq na nb))]
    | _, _ => Json.mkObj [("unparsed", Json.bool true)]
  | "field_name" =>
    let out := Case.rawNameToTsField ops (gs j "s")
    Json.mkObj [("ok", S out),
      ("reads_back", Json.bool (out == gs j "s" || TsParse.strLit (out ++ ": number".toList) == some (gs j "s", ": number".toList)))]
  | "quote" =>
    let out := Case.quoteStr ops (gs j "s")
    Json.mkObj [("ok", S out), ("reads_back", Json.bool (TsParse.strLit (out ++ [';']) == some (gs j "s", [';'])))]
  | "esc_ok" =>
    -- the per-character contract `EscOk` of the escape table, evaluated on the given characters
    let bad := (gs j "s").filter fun c => TsParse.litBody .normal ['x'] (Case.jsEsc (ops.escDebug c) ++ ['y', '"', 'z']) != some (['x', c, 'y'], ['z'])
    Json.mkObj [("bad", S bad)]
  | "esc_lex" =>
    -- the lexical contract `EscLex` of the escape table, evaluated on the given characters
    let bad := (gs j "s").filter fun c => !Comment.litBodyB '"' (Case.jsEsc (ops.escDebug c))
    Json.mkObj [("bad", S bad)]
  | "ts_ident" => Json.mkObj [("ok", S (Case.toTsIdent (gs j "s")))]
  | "absolute" => resStr (Path.absolute (gs j "cwd") (gs j "p"))
  | "diff_paths" => resStr (Path.diffPaths (gs j "cwd") (gs j "path") (gs j "base"))
  | "import_path" =>
    match Path.importPath (gb j "esm") (gs j "cwd") (gs j "from") (gs j "to") with
    | none => panicJ
    | some r => resStr r
  | "oracle_c08" =>
    let spec := gs j "spec"; let esm := gb j "esm"; let dir := gsl j "dir"; let to := gsl j "to"
    let ok := Path.specGood esm dir to spec
    Json.mkObj [("ok", Json.bool ok),
      ("relative", Json.bool (Text.startsWith "./".toList spec || Text.startsWith "../".toList spec)),
      ("no_backslash", Json.bool (!spec.contains '\\')),
      ("no_ts_ext", Json.bool (!Text.endsWith ".ts".toList spec)),
      ("js_iff_esm", Json.bool (Text.endsWith ".js".toList spec == esm)),
      ("resolved", match Path.resolve esm dir spec with
        | some ns => Json.arr (ns.map S).toArray
        | none => Json.null)]
  | op => Json.mkObj [("unknown_op", Json.str op)]

partial def loop (h : IO.FS.Stream) (out : IO.FS.Stream) (st : DState) : IO Unit := do
  let line ← h.getLine
  if line.isEmpty then return ()
  let t := line.trimAscii.toString
  if t.isEmpty then loop h out st else
  match Json.parse t with
  | .error e =>
    out.putStrLn (Json.mkObj [("bad_json", Json.str e)]).compress
    loop h out st
  | .ok j =>
    let op := String.ofList (gs j "op")
    if op = "set_chars" then
      let tbl' := parseChars j
      out.putStrLn (Json.mkObj [("ok", Json.num tbl'.length)]).compress
      loop h out { st with chars := tbl' }
    else if op = "set_universe" then
      let u := parseUniverse j
      out.putStrLn (Json.mkObj [("ok", Json.num u.length)]).compress
      loop h out { st with uni := u }
    else if op = "prog" then
      let env : Env := (ProgIO.arr j "items").map ProgIO.item
      let cfg : Cfg := { ops := opsOf st.chars }
      let outs := (ProgIO.arr j "probes").map (ProgIO.probe cfg env (gb j "esm") (gs j "cwd") (gs j "out_dir"))
      out.putStrLn (Json.mkObj [("probes", Json.arr outs.toArray)]).compress
      loop h out st
    else if op = "tree_check" then
      -- the tree-level derive (Model/TreeDerive.lean) against the REAL declarations: the largest closed sub-program inside the
      -- fragment is determined, `fragB` is evaluated on it, and every item's tree is compared with the parsed real `decl()`
      let env : Env := (ProgIO.arr j "items").map ProgIO.item
      let cfg : Cfg := { ops := opsOf st.chars }
      let decls := gsl j "decls"
      let env0 := env.filter (Tree.itemOk cfg)
      let rec shrink : Nat → Env → Env
        | 0, e => e
        | n + 1, e =>
          let e' := e.filter fun it => (Tree.itemBody cfg e it).isSome
          if e'.length = e.length then e else shrink n e'
      let sub := shrink env.length env0
      let frag := Tree.fragB cfg sub
      let rows := (env.zip decls).map fun (it, d) =>
        if (sub.find? (·.name = it.name)).isNone || !frag then Json.mkObj [("in", Json.bool false)]
        else
          match Tree.itemBody cfg sub it, TsParse.parseDecl d with
          | some b, some (n, ps, pb) =>
            Json.mkObj [("in", Json.bool true),
              ("eq", Json.bool (n == Derive.tsName it && ps == it.generics.map (·.name)
                && Ts.beq (Ts.norm [] [] 60 b) (Ts.norm [] [] 60 (TsParse.bindParams ps pb))))]
          | _, _ => Json.mkObj [("in", Json.bool true), ("eq", Json.bool false), ("unparsed", Json.bool true)]
      out.putStrLn (Json.mkObj [("frag", Json.bool frag), ("sub", Json.num sub.length), ("rows", Json.arr rows.toArray)]).compress
      loop h out st
    else if op = "de_acc" then
      -- the acceptance model of serde's Deserialize (Model/De.lean) on a batch of JSON texts for one type of one program
      let env : Env := (ProgIO.arr j "items").map ProgIO.item
      let cfg : Cfg := { ops := opsOf st.chars }
      let t : RTy := match j.getObjVal? "ty" with
        | .ok tj => ProgIO.rty tj
        | .error _ => .prim "()"
      let ranks := (gsl j "jsons").map fun txt =>
        match Json.parse (String.ofList txt) with
        | .ok v => Json.num (De.accTy cfg env 60 t (ProgIO.ofLean v))
        | .error _ => Json.num 9
      -- is the (reachable part of the) program inside the fragment of C02_members_are_accepted?
      let infrag := deFragB cfg env && tyOk cfg.limit t && (Tree.tyTs cfg env t).isSome
      let wf := (gsl j "jsons").map fun txt =>
        match Json.parse (String.ofList txt) with
        | .ok v => Json.bool (wfJ (ProgIO.ofLean v))
        | .error _ => Json.bool false
      out.putStrLn (Json.mkObj [("ranks", Json.arr ranks.toArray), ("frag", Json.bool infrag), ("wf", Json.arr wf.toArray)]).compress
      loop h out st
    else if op = "inline_check" then
      -- C01_inline_sound / C14_checked_unfolding: the tree-level declarations of the program WITHOUT its `inline` marks against the
      -- parsed REAL declarations of the program WITH them, through the executable unfolding test (`declsUnfB`, proven sound)
      let env : Env := (ProgIO.arr j "items").map ProgIO.item
      let cfg : Cfg := { ops := opsOf st.chars }
      let decls := gsl j "decls"
      let eraseF (f : Field) : Field := { f with attr := { f.attr with inline := false } }
      let erase (it : Item) : Item :=
        { it with fields := it.fields.map eraseF,
                  variants := it.variants.map fun v => { v with fields := v.fields.map eraseF, attr := { v.attr with inline := false } } }
      let marked (it : Item) : Bool :=
        it.fields.any (·.attr.inline) || it.variants.any fun v => v.attr.inline || v.fields.any (·.attr.inline)
      let env1 := env.map erase
      let env0 := env1.filter (Tree.itemOk cfg)
      let rec shrinkI : Nat → Env → Env
        | 0, e => e
        | n + 1, e =>
          let e' := e.filter fun it => (Tree.itemBody cfg e it).isSome
          if e'.length = e.length then e else shrinkI n e'
      let sub := shrinkI env.length env0
      let frag := Tree.fragB cfg sub
      let D := Tree.declsOf cfg sub
      let real : List (Option (Str × List Str × Ts)) := sub.map fun it =>
        match (env.zip decls).find? (fun p => p.1.name = it.name) with
        | some (_, d) => (TsParse.parseDecl d).map fun (n, ps, pb) => (n, ps, TsParse.bindParams ps pb)
        | none => none
      let D' : Decls := real.filterMap id
      let parsedAll := real.all (·.isSome)
      let nMarked := (env.filter fun it => marked it && (sub.find? (·.name = it.name)).isSome).length
      let wsd := wsdB D
      -- fuel: one unit per list element and per level (sound for ANY fuel, `declsUnfB_sound`); wide enough for the widest tuple written
      let uf := 40 + (decls.map (·.length)).foldl max 0
      let unf := parsedAll && declsUnfB D uf D D'
      let bad := ((D.zip D').filter fun (a, b) => !(a.1 == b.1 && a.2.1 == b.2.1 && unfB D uf a.2.2 b.2.2)).map fun (a, _) => S a.1
      out.putStrLn (Json.mkObj [("frag", Json.bool frag), ("sub", Json.num sub.length), ("marked", Json.num nMarked), ("wsd", Json.bool wsd),
        ("parsed", Json.bool parsedAll), ("unf", Json.bool unf), ("bad", Json.arr bad.toArray)]).compress
      loop h out st
    else if op = "uhist" then
      out.putStrLn (runUHist st.uni j).compress
      loop h out st
    else
      out.putStrLn (handle (opsOf st.chars) j).compress
      loop h out st

def main : IO Unit := do
  let out ← IO.getStdout
  loop (← IO.getStdin) out {}
