/-
  Line-protocol driver: one JSON operation per line on stdin, one JSON result per line on stdout,
  computed by the MODEL (TsRsVerif.Model.*). The Rust harnesses answer the same lines from the
  real implementation; tools/check.py diffs the two streams.
-/
import Lean.Data.Json
import TsRsVerif.Model.Text
import TsRsVerif.Model.Path
open Lean TsRs

def gs (j : Json) (k : String) : Str :=
  match j.getObjValAs? String k with
  | .ok s => s.toList
  | .error _ => []

def gsl (j : Json) (k : String) : List Str :=
  match j.getObjValAs? (Array String) k with
  | .ok a => a.toList.map (·.toList)
  | .error _ => []

def gb (j : Json) (k : String) : Bool :=
  match j.getObjValAs? Bool k with
  | .ok b => b
  | .error _ => false

def S (s : Str) : Json := Json.str (String.ofList s)

def errName : ExportErr → String
  | .cannotBeExported => "CannotBeExported"
  | .io => "Io"
  | .fmt => "Fmt"

def resStr : Except ExportErr Str → Json
  | .ok s => Json.mkObj [("ok", S s)]
  | .error e => Json.mkObj [("err", Json.str (errName e))]

def panicJ : Json := Json.mkObj [("panic", Json.bool true)]

def handle (j : Json) : Json :=
  match String.ofList (gs j "op") with
  | "absolute" => resStr (Path.absolute (gs j "cwd") (gs j "p"))
  | "diff_paths" => resStr (Path.diffPaths (gs j "cwd") (gs j "path") (gs j "base"))
  | "import_path" =>
    match Path.importPath (gb j "esm") (gs j "cwd") (gs j "from") (gs j "to") with
    | none => panicJ
    | some r => resStr r
  | "oracle_c08" =>
    let spec := gs j "spec"; let esm := gb j "esm"; let dir := gsl j "dir"; let to := gsl j "to"
    let ok := Path.specGood esm dir to spec
    Json.mkObj [("ok", Json.bool ok),
      ("relative", Json.bool (Text.startsWith "./".toList spec || Text.startsWith "../".toList spec)),
      ("no_backslash", Json.bool (!spec.contains '\\')),
      ("no_ts_ext", Json.bool (!Text.endsWith ".ts".toList spec)),
      ("js_iff_esm", Json.bool (Text.endsWith ".js".toList spec == esm)),
      ("resolved", match Path.resolve esm dir spec with
        | some ns => Json.arr (ns.map S).toArray
        | none => Json.null)]
  | op => Json.mkObj [("unknown_op", Json.str op)]

partial def loop (h : IO.FS.Stream) (out : IO.FS.Stream) : IO Unit := do
  let line ← h.getLine
  if line.isEmpty then return ()
  let t := line.trimAscii.toString
  if t.isEmpty then loop h out else
  match Json.parse t with
  | .error e => out.putStrLn (Json.mkObj [("bad_json", Json.str e)]).compress
  | .ok j => out.putStrLn (handle j).compress
  loop h out

def main : IO Unit := do
  let out ← IO.getStdout
  loop (← IO.getStdin) out
