import TsRsVerif.Model.Path
import TsRsVerif.Lemmas.TextLemmas
/-! Lemmas about the path model used by `Props/C08.lean`. -/
namespace TsRs.Path
open TsRs.Text

/-- a file/directory name as `Path::components` can produce it (and that contains no backslash) -/
def NameOK (n : Str) : Prop :=
  n ≠ [] ∧ '/' ∉ n ∧ '\\' ∉ n ∧ n ≠ ['.'] ∧ n ≠ ['.', '.']

instance (n : Str) : Decidable (NameOK n) := by unfold NameOK; infer_instance

def N (ns : List Str) : List Comp := ns.map Comp.normal

def ups (bs : List Str) : List Str := bs.map fun _ => ['.', '.']

/-- `diff_paths` on two name lists, as a list of specifier pieces -/
def diffNames : List Str → List Str → List Str
  | [], bs => ups bs
  | a :: as, [] => a :: as
  | a :: as, b :: bs => if a = b then diffNames as bs else (['.', '.'] :: ups bs) ++ (a :: as)

theorem diffLoop_nil (s : Bool) (bs : List Comp) :
    diffLoop s [] bs = bs.map fun _ => Comp.parent := by
  induction bs generalizing s with
  | nil => cases s <;> rfl
  | cons b bs ih => cases s <;> simp [diffLoop, ih]

theorem diffLoop_names (A B : List Str) :
    (diffLoop false (N A) (N B)).map compStr = diffNames A B := by
  induction A generalizing B with
  | nil => simp [N, diffLoop_nil, diffNames, ups, compStr]
  | cons a as ih =>
    cases B with
    | nil => simp [N, diffLoop, diffNames, compStr, Function.comp_def]
    | cons b bs =>
      by_cases hab : a = b
      · subst hab
        simp only [N, List.map_cons, diffLoop, diffNames] at ih ⊢
        simp [ih]
      · have : (Comp.normal a == Comp.normal b) = false := by simp [hab]
        simp [N, diffLoop, diffNames, this, hab, compStr, ups, Function.comp_def]

theorem resolveLoop_names (dir ps : List Str) (h : ∀ p ∈ ps, p ≠ ['.'] ∧ p ≠ ['.', '.']) :
    resolveLoop dir ps = some (dir ++ ps) := by
  induction ps generalizing dir with
  | nil => simp [resolveLoop]
  | cons p ps ih =>
    have hp := h p (by simp)
    simp [resolveLoop, hp.1, hp.2, ih (dir ++ [p]) (fun q hq => h q (by simp [hq]))]

theorem ups_concat (B : List Str) (b : Str) (rest : List Str) :
    ups (B ++ [b]) ++ rest = ['.', '.'] :: (ups B ++ rest) := by
  induction B with
  | nil => rfl
  | cons x xs ihx => simp_all [ups]

theorem resolveLoop_ups_aux (n : Nat) : ∀ (pre B rest : List Str), B.length = n →
    resolveLoop (pre ++ B) (ups B ++ rest) = resolveLoop pre rest := by
  induction n with
  | zero => intro pre B rest h; have : B = [] := List.length_eq_zero_iff.mp h; subst this; simp [ups]
  | succ n ih =>
    intro pre B rest h
    rcases List.eq_nil_or_concat B with hB | ⟨B', b, hB⟩
    · subst hB; simp at h
    · subst hB
      have hl : B'.length = n := by simp at h; exact h
      rw [List.concat_eq_append, ups_concat]
      simp only [resolveLoop]
      simp [← List.append_assoc, ih pre B' rest hl]

theorem resolveLoop_ups (pre B rest : List Str) :
    resolveLoop (pre ++ B) (ups B ++ rest) = resolveLoop pre rest :=
  resolveLoop_ups_aux B.length pre B rest rfl

theorem diffNames_resolve (pre A B : List Str)
    (hA : ∀ p ∈ A, p ≠ ['.'] ∧ p ≠ ['.', '.']) :
    resolveLoop (pre ++ B) (diffNames A B) = some (pre ++ A) := by
  induction A generalizing B pre with
  | nil =>
    have := resolveLoop_ups pre B []
    simp [diffNames] at this ⊢
    simp [this, resolveLoop]
  | cons a as ih =>
    cases B with
    | nil => simpa [diffNames] using resolveLoop_names pre (a :: as) hA
    | cons b bs =>
      by_cases hab : a = b
      · subst hab
        have := ih (pre ++ [a]) bs (fun p hp => hA p (by simp [hp]))
        simpa [diffNames] using this
      · have h1 : (['.', '.'] :: ups bs) = ups (b :: bs) := by simp [ups]
        simp only [diffNames, hab, if_false, h1]
        rw [resolveLoop_ups]
        exact resolveLoop_names pre (a :: as) hA

/-- every piece of the relative path is `..` or one of the target's names -/
theorem diffNames_mem (A B : List Str) : ∀ p ∈ diffNames A B, p = ['.', '.'] ∨ p ∈ A := by
  induction A generalizing B with
  | nil => intro p hp; simp [diffNames, ups] at hp; exact Or.inl hp.2.symm
  | cons a as ih =>
    cases B with
    | nil => intro p hp; right; simpa [diffNames] using hp
    | cons b bs =>
      intro p hp
      by_cases hab : a = b
      · simp only [diffNames, hab, if_true] at hp
        rcases ih bs p hp with h | h
        · exact Or.inl h
        · right; simp [h]
      · simp only [diffNames, hab, if_false] at hp
        simp [ups] at hp
        rcases hp with h | h | h | h
        · exact Or.inl h
        · exact Or.inl h.2.symm
        · right; simp [h]
        · right; simp [h]

/-- unless the target is (a prefix of) the importing directory, the relative path ends in the
    target's file name -/
theorem diffNames_last (A' : List Str) (l : Str) (B : List Str) (h : ¬ (A' ++ [l]) <+: B) :
    ∃ init, diffNames (A' ++ [l]) B = init ++ [l] := by
  induction A' generalizing B with
  | nil =>
    cases B with
    | nil => exact ⟨[], by simp [diffNames]⟩
    | cons b bs =>
      by_cases hlb : l = b
      · subst hlb; exact absurd (by simp) h
      · exact ⟨['.', '.'] :: ups bs, by simp [diffNames, hlb]⟩
  | cons a as ih =>
    cases B with
    | nil => exact ⟨a :: as, by simp [diffNames]⟩
    | cons b bs =>
      by_cases hab : a = b
      · subst hab
        have h' : ¬ (as ++ [l]) <+: bs := fun hp => h (by simpa using hp)
        obtain ⟨init, hi⟩ := ih bs h'
        exact ⟨init, by simp [diffNames, hi]⟩
      · exact ⟨(['.', '.'] :: ups bs) ++ (a :: as), by simp [diffNames, hab]⟩

/-! ## helper facts local to the statement (string shape of the specifier) -/

theorem intercalate_concat (sep : Str) (init : List Str) (x : Str) :
    intercalate sep (init ++ [x]) = (if init = [] then x else intercalate sep init ++ sep ++ x) := by
  induction init with
  | nil => simp [intercalate]
  | cons a as ih =>
    cases as with
    | nil => simp [intercalate]
    | cons b bs =>
      simp only [List.cons_append, intercalate] at ih ⊢
      simp [ih]

theorem mem_intercalate (sep : Str) (ps : List Str) (c : Char) (h : c ∈ intercalate sep ps) :
    c ∈ sep ∨ ∃ p ∈ ps, c ∈ p := by
  induction ps with
  | nil => simp [intercalate] at h
  | cons a as ih =>
    cases as with
    | nil => right; exact ⟨a, by simp, by simpa [intercalate] using h⟩
    | cons b bs =>
      simp only [intercalate, List.mem_append] at h
      rcases h with (h | h) | h
      · right; exact ⟨a, by simp, h⟩
      · exact Or.inl h
      · rcases ih h with h' | ⟨p, hp, hc⟩
        · exact Or.inl h'
        · right; exact ⟨p, by simp [hp], hc⟩

/-- a three-character extension cannot end `q/tf` unless it ends `tf` -/
theorem ext_none (x y z : Char) (hx : x ≠ '/') (hy : y ≠ '/') (hz : z ≠ '/')
    (tf q : Str) (htf : tf ≠ []) (hs : '/' ∉ tf) (hne : endsWith [x, y, z] tf = false) :
    stripPrefix [x, y, z].reverse (q ++ ['/'] ++ tf).reverse = none := by
  have hrev : (q ++ ['/'] ++ tf).reverse = tf.reverse ++ '/' :: q.reverse := by simp
  rw [hrev]
  have hs' : '/' ∉ tf.reverse := by simpa using hs
  have hne' : stripPrefix [z, y, x] tf.reverse = none := by
    simpa [endsWith, startsWith] using hne
  have htf' : tf.reverse ≠ [] := by simpa using htf
  generalize tf.reverse = r at *
  match r with
  | [] => exact absurd rfl htf'
  | [a] =>
    simp [stripPrefix]
    intro h1 h2; exact absurd h2 hy
  | [a, b] =>
    simp [stripPrefix]
    intro h1 h2 h3; exact absurd h3 hx
  | a :: b :: c :: r' =>
    simp only [List.reverse_cons, List.reverse_nil, List.nil_append, List.cons_append, stripPrefix] at hne' ⊢
    split
    · split
      · split
        · simp_all
        · rfl
      · rfl
    · rfl



end TsRs.Path
