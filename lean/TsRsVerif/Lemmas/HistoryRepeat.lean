import TsRsVerif.Lemmas.HistoryToMulti
/-!
# Exporting a type again

A history over the entry points exports the same type more than once (`export` of a type, then `export_all` of a root that reaches
it; two `export_all`s with a common dependency). A repeated step — the same generated text into the same file, through any spelling
of the path — returns `Ok` and keeps the invariant with the SAME list of exports: the registry already lists the type, the file is not
touched, `create_dir_all` at most re-creates directories that are there. So a history with repeats ends in the invariant of the history
without them.
-/
namespace TsRs
open Text Export Fs

/-- a repeated step -/
theorem tinv_step_repeat (fs0 : Fs) (slots : List TSlot) (hs : TSlotsOK fs0 slots) (done : List Op) (op : TOp) (w : World)
    (hinv : TInv fs0 slots done w) (s : TSlot) (hsl : slots[op.1.1]? = some s)
    (habs : Path.absolute (cwdStr w.fs) op.2 = .ok s.path)
    (hrep : op.1.2 ∈ gensAt op.1.1 done) :
    ∃ w', exportTo w (tyOfGen op.1.2) op.2 = (w', .ok) ∧ TInv fs0 slots done w' := by
  have hmem : s ∈ slots := List.mem_of_getElem? hsl
  have hns := hs.names s hmem
  obtain ⟨fsD, hmk⟩ := Fs.createDirAllAux_succeeds s.ns w.fs [] (by
    intro k hk0 hk c
    simpa using hinv.chain s hmem k hk0 hk c)
  have hd : w.fs.createDirAll s.par = some fsD := by
    have hns' : ∀ n ∈ s.ns, Path.CompName n := fun n hn => hns n (by simp [hn])
    have hc2 := Path.components_ofComps s.ns hns'
    have hne : s.par ≠ [] := by simp [TSlot.par, Path.ofComps]
    unfold Fs.createDirAll
    simp only [hne, if_false]
    unfold TSlot.par
    rw [hc2]
    simpa [Fs.createDirAllAux, Path.N] using hmk
  have hlk := Fs.createDirAllAux_lookup s.ns w.fs [] fsD hmk
  have hcwdD : fsD.cwd = w.fs.cwd := (Fs.createDirAll_frame _ _ _ hd).2
  have hloc_same : ∀ s' ∈ slots, fsD.lookup s'.loc = w.fs.lookup s'.loc := by
    intro s' hs'
    rcases hlk s'.loc with h | ⟨_, k, hk, _, hl⟩
    · exact h
    · exact absurd (by simpa using hl) (hs.prefixFree s' hs' s hmem k hk)
  have hstepeq : exportTo w (tyOfGen op.1.2) op.2 = exportGen { w with fs := fsD } s.path op.1.2 :=
    exportTo_eq w op.1.2 op.2 s.path s.par fsD habs (tslot_parent s hns) hd
  have hne : gensAt op.1.1 done ≠ [] := by intro e; rw [e] at hrep; cases hrep
  obtain ⟨names, hreg, hnames⟩ := hinv.regSome op.1.1 s hsl hne
  have hin : op.1.2.ident ∈ names := (hnames _).mpr (List.mem_map.mpr ⟨op.1.2, hrep, rfl⟩)
  have hstep : exportGen { w with fs := fsD } s.path op.1.2 = ({ w with fs := fsD }, .ok) := by
    simp [exportGen, exportAndMerge, hinv.alive, hreg, hin]
  refine ⟨{ w with fs := fsD }, by rw [hstepeq]; exact hstep, ?_⟩
  refine ⟨hinv.alive, by simpa [hcwdD] using hinv.cwd, ?_, ?_, ?_, ?_, hinv.regNone, hinv.regSome⟩
  · intro i s' hs' hne'
    simp only; rw [hloc_same s' (List.mem_of_getElem? hs')]
    exact hinv.files i s' hs' hne'
  · intro l c hun
    have hold := hinv.others l c hun
    simp only
    rcases hlk l with h | ⟨hdir, k, hk, hk0, hlk'⟩
    · rw [h]; exact hold
    · have hl' : l = s.ns.take k := by simpa using hlk'
      constructor
      · intro hf; rw [hdir] at hf; cases hf
      · intro hf
        exact absurd (hold.mpr hf) (by rw [hl']; exact hinv.chain s hmem k hk0 hk c)
  · intro s' hs' k hk0 hk c
    simp only
    rcases hlk (s'.ns.take k) with h | ⟨hdir, _⟩
    · rw [h]; exact hinv.chain s' hs' k hk0 hk c
    · rw [hdir]; simp
  · intro s' hs'
    simp only; rw [hloc_same s' hs']; exact hinv.notdir s' hs'

/-- `news` are the steps of `ops` that export something new, in order; the others repeat an earlier export into the same file -/
inductive Dedup : List Op → List TOp → List Op → Prop where
  | nil {done : List Op} : Dedup done [] []
  | rep {done : List Op} {op : TOp} {ops : List TOp} {news : List Op} :
      op.1.2 ∈ gensAt op.1.1 done → Dedup done ops news → Dedup done (op :: ops) news
  | new {done : List Op} {op : TOp} {ops : List TOp} {news : List Op} :
      Dedup (done ++ [op.1]) ops news → Dedup done (op :: ops) (op.1 :: news)

/-- **a history with repeats ends in the invariant of the history without them** -/
theorem tmulti_repeats (fs0 : Fs) (slots : List TSlot) (hs : TSlotsOK fs0 slots) : ∀ (ops : List TOp) (done news : List Op) (w : World),
    Dedup done ops news → TInv fs0 slots done w → (∀ op ∈ ops, op.1.1 < slots.length) →
    (∀ op ∈ ops, ∀ s, slots[op.1.1]? = some s → Path.absolute (cwdStr fs0) op.2 = .ok s.path) →
    (∀ x, (∃ op ∈ news, op.2 = x) ∨ (∃ op ∈ done, op.2 = x) → GenOK x) →
    (∀ i, ((gensAt i (done ++ news)).map (·.name)).Nodup) → (∀ i, ((gensAt i (done ++ news)).map (·.ident)).Nodup) →
    ∃ w', runOpsTo slots w ops = (w', true) ∧ TInv fs0 slots (done ++ news) w'
  | [], done, news, w, hd, h, _, _, _, _, _ => by
    cases hd
    exact ⟨w, rfl, by simpa using h⟩
  | op :: ops, done, news, w, hd, h, hr, hsp, hg, hnm, hid => by
    have hr0 : op.1.1 < slots.length := hr op (by simp)
    have hsl : slots[op.1.1]? = some slots[op.1.1] := List.getElem?_eq_getElem hr0
    have habs : Path.absolute (cwdStr w.fs) op.2 = .ok slots[op.1.1].path := by
      rw [cwdStr_of_cwd w.fs fs0 h.cwd]; exact hsp op (by simp) _ hsl
    cases hd with
    | rep hrep hrest =>
      obtain ⟨w1, hstep, hinv1⟩ := tinv_step_repeat fs0 slots hs done op w h _ hsl habs hrep
      obtain ⟨w', hrun, hinv'⟩ := tmulti_repeats fs0 slots hs ops done news w1 hrest hinv1 (fun o ho => hr o (by simp [ho]))
        (fun o ho => hsp o (by simp [ho])) hg hnm hid
      exact ⟨w', by simp only [runOpsTo, hsl, hstep]; exact hrun, hinv'⟩
    | new hrest =>
      rename_i news'
      have e : done ++ op.1 :: news' = (done ++ [op.1]) ++ news' := by simp
      have hpre : ∀ i, gensAt i (done ++ op.1 :: news') = gensAt i (done ++ [op.1]) ++ gensAt i news' := by
        intro i; rw [e, gensAt_append]
      obtain ⟨w1, hstep, hinv1⟩ := tinv_step fs0 slots hs done op w h _ hsl habs
        (by
          intro x hx
          obtain ⟨op', hop', rfl⟩ := mem_gensAt _ _ _ hx
          rcases List.mem_append.mp hop' with h1 | h1
          · exact hg _ (Or.inr ⟨op', h1, rfl⟩)
          · simp only [List.mem_singleton] at h1; subst h1
            exact hg _ (Or.inl ⟨op.1, by simp, rfl⟩))
        (by
          have := hnm op.1.1
          rw [hpre, List.map_append] at this
          exact (List.nodup_append.mp this).1)
        (by
          have := hid op.1.1
          rw [hpre, List.map_append] at this
          exact (List.nodup_append.mp this).1)
      obtain ⟨w', hrun, hinv'⟩ := tmulti_repeats fs0 slots hs ops (done ++ [op.1]) news' w1 hrest hinv1 (fun o ho => hr o (by simp [ho]))
        (fun o ho => hsp o (by simp [ho]))
        (by
          intro x hx
          rcases hx with ⟨o, ho, rfl⟩ | ⟨o, ho, rfl⟩
          · exact hg _ (Or.inl ⟨o, by simp [ho], rfl⟩)
          · rcases List.mem_append.mp ho with h1 | h1
            · exact hg _ (Or.inr ⟨o, h1, rfl⟩)
            · simp only [List.mem_singleton] at h1; subst h1
              exact hg _ (Or.inl ⟨op.1, by simp, rfl⟩))
        (by intro i; rw [← e]; exact hnm i) (by intro i; rw [← e]; exact hid i)
      exact ⟨w', by simp only [runOpsTo, hsl, hstep]; exact hrun, by rw [e]; exact hinv'⟩

end TsRs
