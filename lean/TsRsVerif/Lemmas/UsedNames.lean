import TsRsVerif.Model.TreeDerive
import TsRsVerif.Model.Deps
/-! The names a type expression MENTIONS (in its TypeScript name) are exactly the names its `TS` impl VISITS
    (`visit::<T>()` + `visit_generics`): the heart of "a file imports exactly what it uses". -/
namespace TsRs
open Text Ts Builtin Derive Tree

mutual
/-- the names of the declarations a type refers to -/
def refNames : Ts → List Str
  | .ref n args => n :: refNamesL args
  | .array x | .paren x => refNames x
  | .tuple xs | .union xs | .inter xs => refNamesL xs
  | .obj fs => refNamesF fs
  | .mapped k v => refNames k ++ refNames v
  | _ => []
def refNamesL : List Ts → List Str
  | [] => []
  | t :: ts => refNames t ++ refNamesL ts
def refNamesF : List (TsKey × Ts) → List Str
  | [] => []
  | (_, t) :: fs => refNames t ++ refNamesF fs
end

mutual
/-- well-formed type expression of the fragment: user types are known, applied to as many arguments as they have
parameters, nothing concretised; no zero-length array (finding C03-zero-length-array) -/
def tyWF (env : Env) : RTy → Bool
  | .prim _ | .param _ => true
  | .option x | .vec x | .slice x | .set x | .range x | .wrap _ x => tyWF env x
  | .arr x n => n != 0 && tyWF env x
  | .tuple ts => tyWFL env ts
  | .map k v | .result k v => tyWF env k && tyWF env v
  | .named id args =>
    (match env.find id with
     | some it => it.generics.length == args.length && it.attr.concrete.isEmpty
     | none => false) && tyWFL env args
def tyWFL (env : Env) : List RTy → Bool
  | [] => true
  | t :: ts => tyWF env t && tyWFL env ts
end

mutual
def depthR : RTy → Nat
  | .prim _ | .param _ => 0
  | .option x | .vec x | .slice x | .set x | .range x | .wrap _ x | .arr x _ => depthR x + 1
  | .tuple ts => depthRL ts + 1
  | .map k v | .result k v => max (depthR k) (depthR v) + 1
  | .named _ args => depthRL args + 1
def depthRL : List RTy → Nat
  | [] => 0
  | t :: ts => max (depthR t) (depthRL ts)
end

def idents (vs : List Visited) : List Str := vs.map (·.ident)

theorem idents_append (a b : List Visited) : idents (a ++ b) = idents a ++ idents b := by simp [idents]

theorem refNamesL_replicate (x : Ts) : ∀ (k : Nat) (n : Str), n ∈ refNamesL (List.replicate (k + 1) x) ↔ n ∈ refNames x
  | 0, n => by simp [List.replicate, refNamesL]
  | k + 1, n => by
    have ih := refNamesL_replicate x k n
    simp only [List.replicate_succ, refNamesL, List.mem_append] at ih ⊢
    constructor
    · rintro (h | h)
      · exact h
      · exact ih.mp h
    · intro h; exact Or.inl h

theorem refNames_prim (r : String) (T : Ts) (h : primTs r = some T) : refNames T = [] := by
  unfold primTs at h
  cases hn : primTsName r with
  | none => simp [hn] at h
  | some n =>
    simp only [hn, Option.bind_some] at h
    unfold tsOfPrimName at h
    split at h <;> first | (simp only [Option.some.injEq] at h; subst h; simp [refNames]) | cases h

theorem visitOne_not_named (env : Env) (f : Nat) (t : RTy) (h : ∀ id args, t ≠ .named id args) : visitOne env f t = [] := by
  cases f with
  | zero => simp [visitOne]
  | succ f' =>
    cases t <;> simp [visitOne]
    rename_i id args
    exact absurd rfl (h id args)

theorem zip_snd_of_length {α β : Type} : ∀ (as : List α) (bs : List β), as.length = bs.length → (as.zip bs).map (·.2) = bs
  | [], [], _ => rfl
  | [], _ :: _, h => by simp at h
  | _ :: _, [], h => by simp at h
  | a :: as, b :: bs, h => by simp [zip_snd_of_length as bs (by simpa using h)]

theorem liveArgs_all (it : Item) (args : List RTy) (hc : it.attr.concrete = []) (hl : it.generics.length = args.length) :
    (liveArgs it args).map (·.2) = args := by
  unfold liveArgs
  have : ((it.generics.zip args).filterMap fun (g, a) => if (it.attr.concrete.find? (·.1 = g.name)).isSome then none else some (g.name, a))
      = (it.generics.zip args).map fun (g, a) => (g.name, a) := by
    rw [hc]
    induction it.generics.zip args with
    | nil => rfl
    | cons x xs ih => simp [List.filterMap_cons, ih]
  rw [this, List.map_map]
  have e : ((fun x : Str × RTy => x.2) ∘ fun (x : GenericParam × RTy) => (x.1.name, x.2)) = fun x => x.2 := rfl
  rw [e]
  exact zip_snd_of_length it.generics args hl

theorem flatMap_snd {α β γ : Type} (l : List (α × β)) (g : β → List γ) : l.flatMap (fun (_, a) => g a) = (l.map (·.2)).flatMap g := by
  induction l with
  | nil => rfl
  | cons x xs ih => simp [List.flatMap_cons, ih]

theorem visitOne_named (env : Env) (f : Nat) (id : Str) (args : List RTy) (it : Item) (h : env.find id = some it) :
    visitOne env (f + 1) (.named id args) = [{ ty := .named id args, ident := tsName it, path := outputPath it }] := by
  rw [visitOne]; simp only [h]

theorem visitGenerics_named (env : Env) (f : Nat) (id : Str) (args : List RTy) (it : Item) (h : env.find id = some it) :
    visitGenerics env (f + 1) (.named id args) = (liveArgs it args).flatMap fun (_, a) => visitOne env f a ++ visitGenerics env f a := by
  rw [visitGenerics]; simp only [h]

mutual
/-- **mentioned = visited**, for one type expression -/
theorem visit_refs (cfg : Cfg) (env : Env) : ∀ (t : RTy) (T : Ts) (f : Nat), tyWF env t = true → depthR t < f →
    tyTs cfg env t = some T → ∀ n, n ∈ idents (visitOne env f t ++ visitGenerics env f t) ↔ n ∈ refNames T
  | .prim r, T, f, _, _, hT, n => by
    simp only [tyTs, nameTyB] at hT
    rw [refNames_prim r T hT, visitOne_not_named env f _ (by intro _ _ h; cases h)]
    cases f <;> simp [visitGenerics, idents]
  | .param p, T, f, _, _, hT, n => by
    simp only [tyTs, nameTyB, Option.some.injEq] at hT
    subst hT
    rw [visitOne_not_named env f _ (by intro _ _ h; cases h)]
    cases f <;> simp [visitGenerics, idents, refNames]
  | .option x, T, f, hw, hd, hT, n => by
    simp only [tyTs, nameTyB, Option.map_eq_some_iff] at hT
    obtain ⟨X, hX, rfl⟩ := hT
    cases f with
    | zero => simp [depthR] at hd
    | succ f' =>
      have ih := visit_refs cfg env x X f' (by simpa [tyWF] using hw) (by simp [depthR] at hd; omega) hX n
      rw [visitOne_not_named env _ _ (by intro _ _ h; cases h)]
      simp only [visitGenerics, List.nil_append, idents_append, List.mem_append, refNames, refNamesL, List.append_nil] at ih ⊢
      rw [← ih]; exact Or.comm
  | .vec x, T, f, hw, hd, hT, n => by
    simp only [tyTs, nameTyB, Option.map_eq_some_iff] at hT
    obtain ⟨X, hX, rfl⟩ := hT
    cases f with
    | zero => simp [depthR] at hd
    | succ f' =>
      have ih := visit_refs cfg env x X f' (by simpa [tyWF] using hw) (by simp [depthR] at hd; omega) hX n
      rw [visitOne_not_named env _ _ (by intro _ _ h; cases h)]
      simp only [visitGenerics, List.nil_append, idents_append, List.mem_append, refNames] at ih ⊢
      rw [← ih]; exact Or.comm
  | .slice x, T, f, hw, hd, hT, n => by
    simp only [tyTs, nameTyB, Option.map_eq_some_iff] at hT
    obtain ⟨X, hX, rfl⟩ := hT
    cases f with
    | zero => simp [depthR] at hd
    | succ f' =>
      have ih := visit_refs cfg env x X f' (by simpa [tyWF] using hw) (by simp [depthR] at hd; omega) hX n
      rw [visitOne_not_named env _ _ (by intro _ _ h; cases h)]
      simp only [visitGenerics, List.nil_append, idents_append, List.mem_append, refNames] at ih ⊢
      rw [← ih]; exact Or.comm
  | .set x, T, f, hw, hd, hT, n => by
    simp only [tyTs, nameTyB, Option.map_eq_some_iff] at hT
    obtain ⟨X, hX, rfl⟩ := hT
    cases f with
    | zero => simp [depthR] at hd
    | succ f' =>
      have ih := visit_refs cfg env x X f' (by simpa [tyWF] using hw) (by simp [depthR] at hd; omega) hX n
      rw [visitOne_not_named env _ _ (by intro _ _ h; cases h)]
      simp only [visitGenerics, List.nil_append, idents_append, List.mem_append, refNames] at ih ⊢
      rw [← ih]; exact Or.comm
  | .wrap k x, T, f, hw, hd, hT, n => by
    simp only [tyTs, nameTyB] at hT
    cases f with
    | zero => simp [depthR] at hd
    | succ f' =>
      have ih := visit_refs cfg env x T f' (by simpa [tyWF] using hw) (by simp [depthR] at hd; omega) hT n
      rw [visitOne_not_named env _ _ (by intro _ _ h; cases h)]
      simp only [visitGenerics, List.nil_append, idents_append, List.mem_append] at ih ⊢
      rw [← ih]; exact Or.comm
  | .range x, T, f, hw, hd, hT, n => by
    simp only [tyTs, nameTyB, Option.map_eq_some_iff] at hT
    obtain ⟨X, hX, rfl⟩ := hT
    cases f with
    | zero => simp [depthR] at hd
    | succ f' =>
      have ih := visit_refs cfg env x X f' (by simpa [tyWF] using hw) (by simp [depthR] at hd; omega) hX n
      rw [visitOne_not_named env _ _ (by intro _ _ h; cases h)]
      simp only [visitGenerics, List.nil_append, idents_append, List.mem_append, refNames, refNamesF, List.append_nil] at ih ⊢
      rw [← ih]
      constructor
      · rintro (h | h)
        · exact Or.inl (Or.inr h)
        · exact Or.inl (Or.inl h)
      · rintro (h | h)
        · exact h.symm
        · exact h.symm
  | .arr x k, T, f, hw, hd, hT, n => by
    simp only [tyTs, nameTyB, Option.map_eq_some_iff] at hT
    obtain ⟨X, hX, rfl⟩ := hT
    simp only [tyWF, Bool.and_eq_true, bne_iff_ne, ne_eq] at hw
    cases f with
    | zero => simp [depthR] at hd
    | succ f' =>
      have ih := visit_refs cfg env x X f' hw.2 (by simp [depthR] at hd; omega) hX n
      rw [visitOne_not_named env _ _ (by intro _ _ h; cases h)]
      simp only [visitGenerics, List.nil_append, idents_append, List.mem_append] at ih ⊢
      have hk : ∃ k', k = k' + 1 := by
        cases k with
        | zero => exact absurd rfl hw.1
        | succ k' => exact ⟨k', rfl⟩
      obtain ⟨k', rfl⟩ := hk
      split
      · simp only [refNames]; rw [← ih]; exact Or.comm
      · simp only [refNames]; rw [refNamesL_replicate X k' n, ← ih]; exact Or.comm
  | .tuple ts, T, f, hw, hd, hT, n => by
    simp only [tyTs, nameTyB, Option.map_eq_some_iff] at hT
    obtain ⟨Xs, hXs, rfl⟩ := hT
    cases f with
    | zero => simp [depthR] at hd
    | succ f' =>
      have ih := visit_refsL cfg env ts Xs f' (by simpa [tyWF] using hw) (by simp [depthR] at hd; omega) hXs n
      rw [visitOne_not_named env _ _ (by intro _ _ h; cases h)]
      simp only [visitGenerics, List.nil_append, refNames] at ih ⊢
      exact ih
  | .map k v, T, f, hw, hd, hT, n => by
    simp only [tyTs, nameTyB, bind, Option.bind] at hT
    cases hk : nameTyB cfg.limit (nameN env) k with
    | none => simp [hk] at hT
    | some K =>
      cases hv : nameTyB cfg.limit (nameN env) v with
      | none => simp [hk, hv] at hT
      | some V =>
        simp only [hk, hv, pure, Option.some.injEq] at hT
        subst hT
        simp only [tyWF, Bool.and_eq_true] at hw
        cases f with
        | zero => simp [depthR] at hd
        | succ f' =>
          have hdk : depthR k < f' := by simp [depthR] at hd; omega
          have hdv : depthR v < f' := by simp [depthR] at hd; omega
          have ihk := visit_refs cfg env k K f' hw.1 hdk hk n
          have ihv := visit_refs cfg env v V f' hw.2 hdv hv n
          rw [visitOne_not_named env _ _ (by intro _ _ h; cases h)]
          simp only [visitGenerics, List.nil_append, idents_append, List.mem_append, refNames] at ihk ihv ⊢
          rw [← ihk, ← ihv]
          constructor
          · rintro (((h | h) | h) | h)
            · exact Or.inl (Or.inr h)
            · exact Or.inl (Or.inl h)
            · exact Or.inr (Or.inr h)
            · exact Or.inr (Or.inl h)
          · rintro ((h | h) | (h | h))
            · exact Or.inl (Or.inl (Or.inr h))
            · exact Or.inl (Or.inl (Or.inl h))
            · exact Or.inr h
            · exact Or.inl (Or.inr h)
  | .result k v, T, f, hw, hd, hT, n => by
    simp only [tyTs, nameTyB, bind, Option.bind] at hT
    cases hk : nameTyB cfg.limit (nameN env) k with
    | none => simp [hk] at hT
    | some K =>
      cases hv : nameTyB cfg.limit (nameN env) v with
      | none => simp [hk, hv] at hT
      | some V =>
        simp only [hk, hv, pure, Option.some.injEq] at hT
        subst hT
        simp only [tyWF, Bool.and_eq_true] at hw
        cases f with
        | zero => simp [depthR] at hd
        | succ f' =>
          have hdk : depthR k < f' := by simp [depthR] at hd; omega
          have hdv : depthR v < f' := by simp [depthR] at hd; omega
          have ihk := visit_refs cfg env k K f' hw.1 hdk hk n
          have ihv := visit_refs cfg env v V f' hw.2 hdv hv n
          rw [visitOne_not_named env _ _ (by intro _ _ h; cases h)]
          simp only [visitGenerics, List.nil_append, idents_append, List.mem_append, refNames, refNamesL, refNamesF, List.append_nil] at ihk ihv ⊢
          rw [← ihk, ← ihv]
          constructor
          · rintro (((h | h) | h) | h)
            · exact Or.inl (Or.inr h)
            · exact Or.inl (Or.inl h)
            · exact Or.inr (Or.inr h)
            · exact Or.inr (Or.inl h)
          · rintro ((h | h) | (h | h))
            · exact Or.inl (Or.inl (Or.inr h))
            · exact Or.inl (Or.inl (Or.inl h))
            · exact Or.inr h
            · exact Or.inl (Or.inr h)
  | .named id args, T, f, hw, hd, hT, n => by
    simp only [tyWF, Bool.and_eq_true] at hw
    obtain ⟨hit, hargs⟩ := hw
    cases hfind : env.find id with
    | none => simp [hfind] at hit
    | some it =>
      simp only [hfind, Bool.and_eq_true, beq_iff_eq, List.isEmpty_iff] at hit
      simp only [tyTs, nameTyB] at hT
      cases hXs : nameTyBL cfg.limit (nameN env) args with
      | none => simp [hXs] at hT
      | some Xs =>
        simp only [hXs, Option.bind_some, nameN, hfind] at hT
        have hT : Ts.ref (Derive.tsName it) Xs = T := by
          split at hT
          · simpa using hT
          · cases hT
        subst hT
        cases f with
        | zero => simp [depthR] at hd
        | succ f' =>
          cases f' with
          | zero => simp [depthR] at hd
          | succ f'' =>
            have ih := visit_refsL cfg env args Xs (f'' + 1) hargs (by simp [depthR] at hd; omega) hXs n
            rw [visitOne_named env _ id args it hfind, visitGenerics_named env _ id args it hfind,
              flatMap_snd (liveArgs it args) (fun a => visitOne env (f'' + 1) a ++ visitGenerics env (f'' + 1) a),
              liveArgs_all it args hit.2 hit.1]
            simp only [idents_append, List.mem_append, refNames, List.mem_cons]
            rw [← ih]
            simp [idents]
theorem visit_refsL (cfg : Cfg) (env : Env) : ∀ (ts : List RTy) (Xs : List Ts) (f : Nat), tyWFL env ts = true → depthRL ts < f →
    nameTyBL cfg.limit (nameN env) ts = some Xs →
    ∀ n, n ∈ idents (ts.flatMap fun x => visitOne env f x ++ visitGenerics env f x) ↔ n ∈ refNamesL Xs
  | [], Xs, f, _, _, hT, n => by
    simp only [nameTyBL, Option.some.injEq] at hT
    subst hT
    simp [idents, refNamesL]
  | t :: ts, Xs, f, hw, hd, hT, n => by
    simp only [nameTyBL, bind, Option.bind] at hT
    cases hx : nameTyB cfg.limit (nameN env) t with
    | none => simp [hx] at hT
    | some X =>
      cases hr : nameTyBL cfg.limit (nameN env) ts with
      | none => simp [hx, hr] at hT
      | some Rs =>
        simp only [hx, hr, pure, Option.some.injEq] at hT
        subst hT
        simp only [tyWFL, Bool.and_eq_true] at hw
        have hdt : depthR t < f := by simp [depthRL] at hd; omega
        have hdr : depthRL ts < f := by simp [depthRL] at hd; omega
        have ih1 := visit_refs cfg env t X f hw.1 hdt hx n
        have ih2 := visit_refsL cfg env ts Rs f hw.2 hdr hr n
        simp only [List.flatMap_cons, idents_append, List.mem_append, refNamesL] at ih1 ih2 ⊢
        rw [← ih1, ← ih2]
end

end TsRs
