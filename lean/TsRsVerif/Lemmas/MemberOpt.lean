import TsRsVerif.Lemmas.MemberLemmas
/-! Exact objects with optional properties: absent keys are fine where the property is optional. -/
namespace TsRs.Ts

/-- witness rows: key, optional?, type, value if present -/
abbrev Row := Str × Bool × Ts × Option JVal

def presentOf (l : List Row) : List (Str × JVal) := l.filterMap fun x => x.2.2.2.map fun j => (x.1, j)
def fieldsOf (l : List Row) : List (TsKey × Ts) := l.map fun x => (({ name := x.1, optional := x.2.1 } : TsKey), x.2.2.1)

theorem presentOf_keys_sub (l : List Row) : ∀ k ∈ (presentOf l).map (·.1), k ∈ l.map (·.1) := by
  intro k hk
  simp only [presentOf, List.mem_map, List.mem_filterMap] at hk
  obtain ⟨⟨k', j⟩, ⟨x, hx, hxj⟩, rfl⟩ := hk
  cases hv : x.2.2.2 with
  | none => simp [hv] at hxj
  | some j' =>
    simp only [hv, Option.map_some, Option.some.injEq, Prod.mk.injEq] at hxj
    exact List.mem_map.mpr ⟨x, hx, hxj.1⟩

theorem lookup_present : ∀ (l : List Row) (k : Str) (o : Bool) (T : Ts) (j : JVal), (l.map (·.1)).Nodup → (k, o, T, some j) ∈ l →
    JVal.lookup k (presentOf l) = some j
  | [], _, _, _, _, _, h => by cases h
  | x :: xs, k, o, T, j, hnd, hmem => by
    simp only [List.map_cons, List.nodup_cons] at hnd
    rcases List.mem_cons.mp hmem with rfl | hmem'
    · simp [presentOf, JVal.lookup]
    · have hne : x.1 ≠ k := by
        intro e
        apply hnd.1
        rw [e]
        exact List.mem_map.mpr ⟨(k, o, T, some j), hmem', rfl⟩
      have ih := lookup_present xs k o T j hnd.2 hmem'
      cases hv : x.2.2.2 with
      | none => simpa [presentOf, hv] using ih
      | some j' =>
        simp only [presentOf, List.filterMap_cons, hv, Option.map_some]
        rw [lookup_cons_ne hne]
        exact ih

theorem lookup_absent : ∀ (l : List Row) (k : Str) (o : Bool) (T : Ts), (l.map (·.1)).Nodup → (k, o, T, none) ∈ l →
    JVal.lookup k (presentOf l) = none
  | [], _, _, _, _, h => by cases h
  | x :: xs, k, o, T, hnd, hmem => by
    simp only [List.map_cons, List.nodup_cons] at hnd
    rcases List.mem_cons.mp hmem with rfl | hmem'
    · simp only [presentOf, List.filterMap_cons, Option.map_none]
      apply lookup_none_of_not_mem
      intro hk
      exact hnd.1 (presentOf_keys_sub xs _ hk)
    · have hne : x.1 ≠ k := by
        intro e
        apply hnd.1
        rw [e]
        exact List.mem_map.mpr ⟨(k, o, T, none), hmem', rfl⟩
      have ih := lookup_absent xs k o T hnd.2 hmem'
      cases hv : x.2.2.2 with
      | none => simpa [presentOf, hv] using ih
      | some j' =>
        simp only [presentOf, List.filterMap_cons, hv, Option.map_some]
        rw [lookup_cons_ne hne]
        exact ih

/-- **exact object with optional properties** -/
theorem objOpt_sound (D : Decls) (l : List Row) (hnd : (l.map (·.1)).Nodup)
    (hm : ∀ x ∈ l, match x.2.2.2 with | some j => Member D x.2.2.1 j | none => x.2.1 = true) :
    Member D (.obj (fieldsOf l)) (.obj (presentOf l)) := by
  have hfields : ∀ (sub : List Row), (∀ x ∈ sub, x ∈ l) → MemberFields D (fieldsOf sub) (presentOf l) := by
    intro sub
    induction sub with
    | nil => intro _; exact MemberFields.nil
    | cons x xs ih =>
      intro hsub
      have hx : x ∈ l := hsub x (by simp)
      have rest := ih (fun y hy => hsub y (by simp [hy]))
      obtain ⟨k, o, T, v⟩ := x
      have hmx := hm (k, o, T, v) hx
      cases v with
      | some j =>
        simp only at hmx
        exact MemberFields.present (lookup_present l k o T j hnd hx) hmx rest
      | none =>
        simp only at hmx
        exact MemberFields.absent (lookup_absent l k o T hnd hx) hmx rest
  refine Member.obj (hfields l (fun _ h => h)) ?_
  intro k hk
  have := presentOf_keys_sub l k (by simpa [JVal.keys] using hk)
  obtain ⟨x, hx, rfl⟩ := List.mem_map.mp this
  exact ⟨(({ name := x.1, optional := x.2.1 } : TsKey), x.2.2.1), List.mem_map.mpr ⟨x, hx, rfl⟩, rfl⟩

end TsRs.Ts
