import TsRsVerif.Lemmas.MemberOpt
/-! Denotational facts behind C14: a reference denotes what its unfolded body denotes; an intersection of two
    object literals with disjoint property names denotes what the merged object literal denotes. -/
namespace TsRs.Ts

/-- **inline = by name**: unfolding a reference does not change the set of values -/
theorem member_ref_iff (D : Decls) (n : Str) (args : List Ts) (ps : List Str) (body : Ts) (j : JVal)
    (hl : lookupDecl D n = some (ps, body)) :
    Member D (.ref n args) j ↔ Member D (subst (ps.zip args) body) j := by
  constructor
  · intro h
    cases h with
    | ref hl' hm =>
      rw [hl] at hl'
      simp only [Option.some.injEq, Prod.mk.injEq] at hl'
      obtain ⟨rfl, rfl⟩ := hl'
      exact hm
  · intro h; exact Member.ref hl h

theorem member_paren_iff (D : Decls) (t : Ts) (j : JVal) : Member D (.paren t) j ↔ Member D t j := by
  constructor
  · intro h; cases h with | paren hm => exact hm
  · intro h; exact Member.paren h

theorem member_array_iff (D : Decls) (t : Ts) (js : List JVal) : Member D (.array t) (.arr js) ↔ MemberAll D t js := by
  constructor
  · intro h; cases h with | array hm => exact hm
  · intro h; exact Member.array h

theorem memberAll_imp (D : Decls) (t t' : Ts) (himp : ∀ j, Member D t j → Member D t' j) :
    ∀ (js : List JVal), MemberAll D t js → MemberAll D t' js
  | [], _ => MemberAll.nil
  | j :: js, h => by
    cases h with
    | cons hj hs => exact MemberAll.cons (himp j hj) (memberAll_imp D t t' himp js hs)

/-- inlining below `Vec` / `Option`: if two element types denote the same values, so do the containers -/
theorem member_array_congr (D : Decls) (t t' : Ts) (h : ∀ j, Member D t j ↔ Member D t' j) (j : JVal) :
    Member D (.array t) j ↔ Member D (.array t') j := by
  constructor
  · intro hm
    cases hm with
    | array ha => exact Member.array (memberAll_imp D t t' (fun x hx => (h x).mp hx) _ ha)
  · intro hm
    cases hm with
    | array ha => exact Member.array (memberAll_imp D t' t (fun x hx => (h x).mpr hx) _ ha)

theorem member_union_null_congr (D : Decls) (t t' : Ts) (h : ∀ j, Member D t j ↔ Member D t' j) (j : JVal) :
    Member D (.union [t, .null]) j ↔ Member D (.union [t', .null]) j := by
  constructor
  · intro hm
    cases hm with
    | union hin hmem =>
      simp only [List.mem_cons, List.not_mem_nil, or_false] at hin
      rcases hin with rfl | rfl
      · exact Member.union (by simp) ((h j).mp hmem)
      · exact Member.union (by simp) hmem
  · intro hm
    cases hm with
    | union hin hmem =>
      simp only [List.mem_cons, List.not_mem_nil, or_false] at hin
      rcases hin with rfl | rfl
      · exact Member.union (by simp) ((h j).mpr hmem)
      · exact Member.union (by simp) hmem

/-! ### flatten: `{ A } & { B }` = `{ A B }` -/

theorem lookup_some_mem {k : Str} {v : JVal} : ∀ {kvs : List (Str × JVal)}, JVal.lookup k kvs = some v → (k, v) ∈ kvs
  | [], h => by simp [JVal.lookup] at h
  | (k', v') :: rest, h => by
    simp only [JVal.lookup] at h
    split at h
    · rename_i hk; subst hk; simp only [Option.some.injEq] at h; subst h; simp
    · exact List.mem_cons_of_mem _ (lookup_some_mem h)

theorem lookup_of_mem_nodup {k : Str} {v : JVal} : ∀ {kvs : List (Str × JVal)}, (kvs.map (·.1)).Nodup → (k, v) ∈ kvs → JVal.lookup k kvs = some v
  | [], _, h => by cases h
  | (k', v') :: rest, hnd, h => by
    simp only [List.map_cons, List.nodup_cons] at hnd
    rcases List.mem_cons.mp h with e | h'
    · simp only [Prod.mk.injEq] at e; obtain ⟨rfl, rfl⟩ := e; simp [JVal.lookup]
    · have hne : k' ≠ k := by
        intro e; subst e
        exact hnd.1 (List.mem_map.mpr ⟨(k', v), h', rfl⟩)
      rw [lookup_cons_ne hne]
      exact lookup_of_mem_nodup hnd.2 h'

/-- with distinct keys, `lookup` only depends on the set of entries -/
theorem lookup_perm {kvs kvs' : List (Str × JVal)} (hp : kvs.Perm kvs') (hnd : (kvs.map (·.1)).Nodup) (k : Str) :
    JVal.lookup k kvs = JVal.lookup k kvs' := by
  have hnd' : (kvs'.map (·.1)).Nodup := (hp.map _).nodup_iff.mp hnd
  cases h : JVal.lookup k kvs with
  | some v =>
    have := hp.mem_iff.mp (lookup_some_mem h)
    rw [lookup_of_mem_nodup hnd' this]
  | none =>
    cases h' : JVal.lookup k kvs' with
    | none => rfl
    | some v =>
      have := hp.mem_iff.mpr (lookup_some_mem h')
      rw [lookup_of_mem_nodup hnd this] at h
      cases h

theorem lookup_append_left {k : Str} (a b : List (Str × JVal)) (h : k ∉ b.map (·.1)) :
    JVal.lookup k (a ++ b) = JVal.lookup k a := by
  induction a with
  | nil => simp only [List.nil_append, JVal.lookup]; exact lookup_none_of_not_mem h
  | cons x xs ih =>
    obtain ⟨k', v'⟩ := x
    simp only [List.cons_append, JVal.lookup]
    split
    · rfl
    · exact ih

theorem lookup_append_right {k : Str} (a b : List (Str × JVal)) (h : k ∉ a.map (·.1)) :
    JVal.lookup k (a ++ b) = JVal.lookup k b := by
  induction a with
  | nil => rfl
  | cons x xs ih =>
    obtain ⟨k', v'⟩ := x
    have hne : k' ≠ k := fun e => h (by simp [e])
    simp only [List.cons_append]
    rw [lookup_cons_ne hne]
    exact ih (fun hm => h (by simp [hm]))

/-- the declared properties are still satisfied when looked up in another list that agrees on their names -/
theorem memberFields_transfer (D : Decls) : ∀ (fs : List (TsKey × Ts)) (kvs kvs' : List (Str × JVal)),
    (∀ f ∈ fs, JVal.lookup f.1.name kvs' = JVal.lookup f.1.name kvs) → MemberFields D fs kvs → MemberFields D fs kvs'
  | [], _, _, _, _ => MemberFields.nil
  | (k, t) :: fs, kvs, kvs', hl, h => by
    have hk := hl (k, t) (by simp)
    cases h with
    | present hlook hm hrest =>
      exact MemberFields.present (by rw [hk]; exact hlook) hm
        (memberFields_transfer D fs kvs kvs' (fun f hf => hl f (by simp [hf])) hrest)
    | absent hlook hopt hrest =>
      exact MemberFields.absent (by rw [hk]; exact hlook) hopt
        (memberFields_transfer D fs kvs kvs' (fun f hf => hl f (by simp [hf])) hrest)

theorem memberFields_append (D : Decls) : ∀ (a b : List (TsKey × Ts)) (kvs : List (Str × JVal)),
    MemberFields D a kvs → MemberFields D b kvs → MemberFields D (a ++ b) kvs
  | [], _, _, _, hb => hb
  | (k, t) :: a, b, kvs, ha, hb => by
    cases ha with
    | present hlook hm hrest => exact MemberFields.present hlook hm (memberFields_append D a b kvs hrest hb)
    | absent hlook hopt hrest => exact MemberFields.absent hlook hopt (memberFields_append D a b kvs hrest hb)

theorem memberFields_split (D : Decls) : ∀ (a b : List (TsKey × Ts)) (kvs : List (Str × JVal)),
    MemberFields D (a ++ b) kvs → MemberFields D a kvs ∧ MemberFields D b kvs
  | [], _, _, h => ⟨MemberFields.nil, h⟩
  | (k, t) :: a, b, kvs, h => by
    cases h with
    | present hlook hm hrest =>
      obtain ⟨h1, h2⟩ := memberFields_split D a b kvs hrest
      exact ⟨MemberFields.present hlook hm h1, h2⟩
    | absent hlook hopt hrest =>
      obtain ⟨h1, h2⟩ := memberFields_split D a b kvs hrest
      exact ⟨MemberFields.absent hlook hopt h1, h2⟩

def namesOf (fs : List (TsKey × Ts)) : List Str := fs.map (·.1.name)

/-- **flatten = merge**: under the property's reading of `&` on objects (disjoint merge), the intersection of two
object literals with disjoint property names denotes exactly what the single merged literal denotes -/
theorem inter_objs_iff (D : Decls) (A B : List (TsKey × Ts)) (kvs : List (Str × JVal))
    (hdisj : ∀ k, k ∈ namesOf A → k ∉ namesOf B) (hnd : (kvs.map (·.1)).Nodup) :
    Member D (.inter [.obj A, .obj B]) (.obj kvs) ↔ Member D (.obj (A ++ B)) (.obj kvs) := by
  constructor
  · intro h
    cases h with
    | @interObj _ _ _ kvs1 kvs2 hperm hA hB _ =>
      have hB' : Member D (.obj B) (.obj kvs2) := by
        cases hB with
        | interOne hm => exact hm
        | interObj _ _ _ hne => exact absurd rfl hne
        | interVal hv _ _ => simp [JVal.isObj] at hv
      cases hA with
      | obj hfA hexA =>
        cases hB' with
        | obj hfB hexB =>
          have hnd12 : ((kvs1 ++ kvs2).map (·.1)).Nodup := (hperm.map _).nodup_iff.mpr hnd
          have hk2B : ∀ k ∈ kvs2.map (·.1), k ∈ namesOf B := by
            intro k hk
            obtain ⟨f, hf, hfk⟩ := hexB k (by simpa [JVal.keys] using hk)
            exact List.mem_map.mpr ⟨f, hf, hfk⟩
          have hk1A : ∀ k ∈ kvs1.map (·.1), k ∈ namesOf A := by
            intro k hk
            obtain ⟨f, hf, hfk⟩ := hexA k (by simpa [JVal.keys] using hk)
            exact List.mem_map.mpr ⟨f, hf, hfk⟩
          refine Member.obj (memberFields_append D A B kvs ?_ ?_) ?_
          · apply memberFields_transfer D A kvs1 kvs _ hfA
            intro f hf
            rw [← lookup_perm hperm hnd12]
            apply lookup_append_left
            intro hk
            exact hdisj f.1.name (List.mem_map.mpr ⟨f, hf, rfl⟩) (hk2B _ hk)
          · apply memberFields_transfer D B kvs2 kvs _ hfB
            intro f hf
            rw [← lookup_perm hperm hnd12]
            apply lookup_append_right
            intro hk
            exact hdisj f.1.name (hk1A _ hk) (List.mem_map.mpr ⟨f, hf, rfl⟩)
          · intro k hk
            have : k ∈ (kvs1 ++ kvs2).map (·.1) := (hperm.map _).mem_iff.mpr (by simpa [JVal.keys] using hk)
            simp only [List.map_append, List.mem_append] at this
            rcases this with h1 | h2
            · obtain ⟨f, hf, hfk⟩ := hexA k (by simpa [JVal.keys] using h1)
              exact ⟨f, by simp [hf], hfk⟩
            · obtain ⟨f, hf, hfk⟩ := hexB k (by simpa [JVal.keys] using h2)
              exact ⟨f, by simp [hf], hfk⟩
    | interVal hv _ _ => simp [JVal.isObj] at hv
  · intro h
    cases h with
    | obj hf hex =>
      obtain ⟨hfA, hfB⟩ := memberFields_split D A B kvs hf
      -- split the entries by whether their key is a property of A
      let p : Str × JVal → Bool := fun kv => decide (kv.1 ∈ namesOf A)
      have hperm : (kvs.filter p ++ kvs.filter (fun kv => !p kv)).Perm kvs := List.filter_append_perm p kvs
      have hnd12 : ((kvs.filter p ++ kvs.filter (fun kv => !p kv)).map (·.1)).Nodup := (hperm.map _).nodup_iff.mpr hnd
      have hk1 : ∀ k ∈ (kvs.filter p).map (·.1), k ∈ namesOf A := by
        intro k hk
        obtain ⟨kv, hkv, rfl⟩ := List.mem_map.mp hk
        simpa [p] using (List.mem_filter.mp hkv).2
      have hk2 : ∀ k ∈ (kvs.filter (fun kv => !p kv)).map (·.1), k ∉ namesOf A := by
        intro k hk
        obtain ⟨kv, hkv, rfl⟩ := List.mem_map.mp hk
        simpa [p] using (List.mem_filter.mp hkv).2
      refine Member.interObj hperm ?_ (Member.interOne ?_) (by simp)
      · refine Member.obj ?_ ?_
        · apply memberFields_transfer D A kvs _ _ hfA
          intro f hfm
          rw [lookup_perm hperm.symm hnd]
          symm
          apply lookup_append_left
          intro hk
          exact hk2 _ hk (List.mem_map.mpr ⟨f, hfm, rfl⟩)
        · intro k hk
          have hkA := hk1 k (by simpa [JVal.keys] using hk)
          obtain ⟨f, hfm, hfk⟩ := List.mem_map.mp hkA
          exact ⟨f, hfm, hfk⟩
      · refine Member.obj ?_ ?_
        · apply memberFields_transfer D B kvs _ _ hfB
          intro f hfm
          rw [lookup_perm hperm.symm hnd]
          symm
          apply lookup_append_right
          intro hk
          exact hdisj _ (hk1 _ hk) (List.mem_map.mpr ⟨f, hfm, rfl⟩)
        · intro k hk
          have hkin : k ∈ (kvs.filter (fun kv => !p kv)).map (·.1) := by simpa [JVal.keys] using hk
          have hnA := hk2 k hkin
          obtain ⟨kv, hkv, rfl⟩ := List.mem_map.mp hkin
          have hkk : kv.1 ∈ JVal.keys kvs := List.mem_map.mpr ⟨kv, (List.mem_filter.mp hkv).1, rfl⟩
          obtain ⟨f, hfm, hfk⟩ := hex kv.1 hkk
          rcases List.mem_append.mp hfm with h1 | h2
          · exact absurd (List.mem_map.mpr ⟨f, h1, hfk⟩) hnA
          · exact ⟨f, h2, hfk⟩

end TsRs.Ts
