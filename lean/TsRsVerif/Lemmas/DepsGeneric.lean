import TsRsVerif.Lemmas.DepsLemmas
import TsRsVerif.Lemmas.DeInst
/-!
# The file of a GENERIC item imports exactly what its declaration uses

`export_to_string` of a generic item visits the dependencies of `T::WithoutGenerics` — the item at the placeholder type `Dummy` for
every parameter. Visiting the dependencies of the item at arguments `σ` is visiting the dependencies of its INSTANCE
(`Item.inst σ`, `Lemmas/DeInst.lean`) at no arguments; the body of the instance is the generic body with the parameters renamed;
renaming parameters does not change the names of the declarations a type refers to. So the theorem for monomorphic items carries over.
-/
namespace TsRs
open Ts Tree Builtin Derive

def Dep.inst (σ : List (Str × RTy)) : Dep → Dep
  | .type t => .type { t with ty := RTy.subst σ t.ty }
  | .generics t => .generics { t with ty := RTy.subst σ t.ty }
  | .transitive t => .transitive { t with ty := RTy.subst σ t.ty }

theorem visitDep_inst (env : Env) (f : Nat) (σ : List (Str × RTy)) (d : Dep) :
    visitDep env f [] (Dep.inst σ d) = visitDep env f σ d := by
  cases d <;> simp [Dep.inst, visitDep, resolveInner, rsubst_nil]

theorem flatMap_visitDep_inst (env : Env) (f : Nat) (σ : List (Str × RTy)) (l : List Dep) :
    (l.map (Dep.inst σ)).flatMap (visitDep env f []) = l.flatMap (visitDep env f σ) := by
  induction l with
  | nil => rfl
  | cons d ds ih => simp [List.flatMap_cons, visitDep_inst, ih]

/-- the dependencies the derive records for the fields of the instance are those of the generic fields, substituted -/
theorem typeDefDeps_inst (σ : List (Str × RTy)) (sattr : SAttr) (shape : Shape) (fields : List Field)
    (hta : ∀ fld ∈ fields, fld.attr.typeAs = none) (ha : sattr.typeAs = none) :
    typeDefDeps sattr shape (fields.map (Field.inst σ)) = (typeDefDeps sattr shape fields).map (Dep.inst σ) := by
  have heff : ∀ fld ∈ fields, effTy (Field.inst σ fld) = RTy.subst σ (effTy fld) := by
    intro fld hf
    simp [effTy, hta fld hf]
  have hfd : ∀ of, ∀ fld ∈ fields, fieldDepTy of (Field.inst σ fld) = { fieldDepTy of fld with ty := RTy.subst σ (fieldDepTy of fld).ty } := by
    intro of fld hf
    simp only [fieldDepTy, heff fld hf, Field.inst_attr]
  have hflat : ∀ (g g' : Field → List Dep), (∀ fld ∈ fields, g' (Field.inst σ fld) = (g fld).map (Dep.inst σ)) →
      (fields.map (Field.inst σ)).flatMap g' = (fields.flatMap g).map (Dep.inst σ) := by
    intro g g' h
    induction fields with
    | nil => rfl
    | cons x xs ih =>
      simp only [List.map_cons, List.flatMap_cons, List.map_append]
      rw [h x (by simp), ih (fun fld hf => hta fld (by simp [hf])) (fun fld hf => heff fld (by simp [hf]))
        (fun of fld hf => hfd of fld (by simp [hf])) (fun fld hf => h fld (by simp [hf]))]
  unfold typeDefDeps
  cases hto : sattr.typeOverride with
  | some o => simp [hto]
  | none =>
    simp only [hto, ha]
    cases shape with
    | unit => rfl
    | named =>
      simp only [List.length_map]
      split
      · rfl
      · apply hflat
        intro fld hf
        simp only [Field.inst_attr, hfd _ fld hf]
        split
        · rfl
        · split <;> simp [push, Dep.inst]
    | tuple =>
      match fields, hta, heff, hflat with
      | [], _, _, _ => rfl
      | [fld], _, heff, _ =>
        simp only [List.map_cons, List.map_nil, Field.inst_attr, heff fld (by simp)]
        split
        · rfl
        · split <;> simp [push, Dep.inst]
      | a :: b :: rest, _, heff, hflat =>
        simp only [List.map_cons]
        have := hflat (fun fld => if fld.attr.skip || fld.attr.typeOverride.isSome then []
            else if fld.attr.inline then [Dep.transitive { ty := effTy fld, inner := false }] else push { ty := effTy fld, inner := false })
          (fun fld => if fld.attr.skip || fld.attr.typeOverride.isSome then []
            else if fld.attr.inline then [Dep.transitive { ty := effTy fld, inner := false }] else push { ty := effTy fld, inner := false })
          (by
            intro fld hf
            simp only [Field.inst_attr, heff fld hf]
            split
            · rfl
            · split <;> simp [push, Dep.inst])
        simpa [List.map_cons] using this

/-- what one variant contributes to the recorded dependencies -/
def variantDeps (it : Item) (v : Variant) : List Dep :=
  if v.attr.skip then []
  else match v.attr.typeAs, v.attr.typeOverride with
    | some a, _ => push { ty := a, inner := false }
    | none, some _ => []
    | none, none =>
      let sattr : SAttr :=
        { tag := match v.shape, tagged it.attr with
            | .named, .internally t => if v.attr.untagged then none else some t
            | _, _ => none }
      typeDefDeps sattr v.shape v.fields

theorem variantDeps_inst (σ : List (Str × RTy)) (it : Item) (v : Variant)
    (hv : v.attr.typeAs = none ∧ v.attr.typeOverride = none) (hvf : ∀ fld ∈ v.fields, fld.attr.typeAs = none) :
    variantDeps (Item.inst σ it) (Variant.inst σ v) = (variantDeps it v).map (Dep.inst σ) := by
  unfold variantDeps
  simp only [Variant.inst_attr, Item.inst_attr, Variant.inst_shape, Variant.inst_fields, hv.1, hv.2]
  split
  · rfl
  · exact typeDefDeps_inst σ _ v.shape v.fields hvf rfl

theorem itemDeps_eq (it : Item) : itemDeps it =
    (if it.isEnum then
      (match it.attr.typeOverride, it.attr.typeAs with
      | some _, _ => []
      | none, some a => [.transitive { ty := a, inner := false }]
      | none, none => it.variants.flatMap (variantDeps it))
    else typeDefDeps ({ tag := it.attr.tag, typeAs := it.attr.typeAs, typeOverride := it.attr.typeOverride, optionalFields := it.attr.optionalFields } : SAttr)
      it.shape it.fields)
    ++ (it.generics.flatMap fun g =>
      if (it.attr.concrete.find? (·.1 = g.name)).isSome then []
      else match g.default with
        | some d => push { ty := d, inner := false }
        | none => []) := rfl

theorem itemDeps_inst (σ : List (Str × RTy)) (it : Item)
    (hdef : ∀ g ∈ it.generics, g.default = none) (hta : it.attr.typeAs = none) (hto : it.attr.typeOverride = none)
    (hv : ∀ v ∈ it.variants, v.attr.typeAs = none ∧ v.attr.typeOverride = none)
    (hf : ∀ fld ∈ it.fields, fld.attr.typeAs = none) (hvf : ∀ v ∈ it.variants, ∀ fld ∈ v.fields, fld.attr.typeAs = none) :
    itemDeps (Item.inst σ it) = (itemDeps it).map (Dep.inst σ) := by
  have hd0 : (it.generics.flatMap fun g =>
      if (it.attr.concrete.find? (·.1 = g.name)).isSome then ([] : List Dep)
      else match g.default with
        | some d => push { ty := d, inner := false }
        | none => []) = [] := by
    rw [List.flatMap_eq_nil_iff]
    intro g hg
    simp [hdef g hg]
  rw [itemDeps_eq, itemDeps_eq, hd0]
  simp only [Item.inst_isEnum, Item.inst_attr, Item.inst_generics, Item.inst_variants, Item.inst_fields, Item.inst_shape, List.flatMap_nil,
    List.append_nil, hta, hto]
  by_cases hen : it.isEnum = true
  · simp only [hen, if_true]
    have : ∀ (vs : List Variant), (∀ v ∈ vs, v.attr.typeAs = none ∧ v.attr.typeOverride = none) →
        (∀ v ∈ vs, ∀ fld ∈ v.fields, fld.attr.typeAs = none) →
        (vs.map (Variant.inst σ)).flatMap (variantDeps (Item.inst σ it)) = (vs.flatMap (variantDeps it)).map (Dep.inst σ) := by
      intro vs
      induction vs with
      | nil => intro _ _; rfl
      | cons v vs ih =>
        intro h1 h2
        simp only [List.map_cons, List.flatMap_cons, List.map_append]
        rw [variantDeps_inst σ it v (h1 v (by simp)) (h2 v (by simp)),
          ih (fun w hw => h1 w (by simp [hw])) (fun w hw => h2 w (by simp [hw]))]
    exact this it.variants hv hvf
  · simp only [hen, Bool.false_eq_true, if_false]
    exact typeDefDeps_inst σ _ it.shape it.fields hf rfl

/-! ### renaming parameters changes neither the declarations a type refers to nor its well-formedness -/

def ParamsOnlyT (σ : List (Str × Ts)) : Prop := ∀ p ∈ σ, ∃ m, p.2 = Ts.param m
def ParamsOnly (σ : List (Str × RTy)) : Prop := ∀ p ∈ σ, ∃ m, p.2 = RTy.param m

mutual
theorem refNames_subst (σ : List (Str × Ts)) (h : ParamsOnlyT σ) : ∀ (t : Ts), refNames (Ts.subst σ t) = refNames t
  | .param n => by
    simp only [Ts.subst, lookupSub]
    cases hf : σ.find? (·.1 = n) with
    | none => simp [refNames]
    | some p =>
      obtain ⟨m, hm⟩ := h p (List.mem_of_find?_eq_some hf)
      simp [hm, refNames]
  | .ref n args => by simp [Ts.subst, refNames, refNamesL_subst σ h args]
  | .array x => by simp [Ts.subst, refNames, refNames_subst σ h x]
  | .paren x => by simp [Ts.subst, refNames, refNames_subst σ h x]
  | .tuple xs => by simp [Ts.subst, refNames, refNamesL_subst σ h xs]
  | .union xs => by simp [Ts.subst, refNames, refNamesL_subst σ h xs]
  | .inter xs => by simp [Ts.subst, refNames, refNamesL_subst σ h xs]
  | .obj fs => by simp [Ts.subst, refNames, refNamesF_subst σ h fs]
  | .mapped k v => by simp [Ts.subst, refNames, refNames_subst σ h k, refNames_subst σ h v]
  | .number | .bigint | .string | .boolean | .null | .never | .lit _ | .neverArray | .emptyRecord | .raw _ => by simp [Ts.subst]
theorem refNamesL_subst (σ : List (Str × Ts)) (h : ParamsOnlyT σ) : ∀ (ts : List Ts), refNamesL (Ts.substList σ ts) = refNamesL ts
  | [] => by simp [Ts.substList]
  | t :: ts => by simp [Ts.substList, refNamesL, refNames_subst σ h t, refNamesL_subst σ h ts]
theorem refNamesF_subst (σ : List (Str × Ts)) (h : ParamsOnlyT σ) : ∀ (fs : List (TsKey × Ts)), refNamesF (Ts.substFields σ fs) = refNamesF fs
  | [] => by simp [Ts.substFields]
  | (k, t) :: fs => by simp [Ts.substFields, refNamesF, refNames_subst σ h t, refNamesF_subst σ h fs]
end

mutual
theorem tyWF_subst (env : Env) (σ : List (Str × RTy)) (h : ParamsOnly σ) : ∀ (t : RTy), tyWF env t = true → tyWF env (RTy.subst σ t) = true
  | .param n, _ => by
    simp only [RTy.subst]
    cases hf : σ.find? (·.1 = n) with
    | none => simp [tyWF]
    | some p =>
      obtain ⟨m, hm⟩ := h p (List.mem_of_find?_eq_some hf)
      simp [hm, tyWF]
  | .prim _, _ => by simp [RTy.subst, tyWF]
  | .option x, hw | .vec x, hw | .slice x, hw | .set x, hw | .range x, hw | .wrap _ x, hw => by
    simp only [tyWF] at hw; simp only [RTy.subst, tyWF]; exact tyWF_subst env σ h x hw
  | .arr x n, hw => by
    simp only [tyWF, Bool.and_eq_true] at hw; simp only [RTy.subst, tyWF, Bool.and_eq_true]; exact ⟨hw.1, tyWF_subst env σ h x hw.2⟩
  | .tuple ts, hw => by simp only [tyWF] at hw; simp only [RTy.subst, tyWF]; exact tyWFL_subst env σ h ts hw
  | .map k v, hw | .result k v, hw => by
    simp only [tyWF, Bool.and_eq_true] at hw; simp only [RTy.subst, tyWF, Bool.and_eq_true]
    exact ⟨tyWF_subst env σ h k hw.1, tyWF_subst env σ h v hw.2⟩
  | .named id args, hw => by
    simp only [tyWF, Bool.and_eq_true] at hw
    simp only [RTy.subst, tyWF, Bool.and_eq_true]
    refine ⟨?_, tyWFL_subst env σ h args hw.2⟩
    have hl : (RTy.substL σ args).length = args.length := by
      clear hw
      induction args with
      | nil => simp [RTy.substL]
      | cons a as ih => simp [RTy.substL, ih]
    rw [hl]; exact hw.1
theorem tyWFL_subst (env : Env) (σ : List (Str × RTy)) (h : ParamsOnly σ) : ∀ (ts : List RTy), tyWFL env ts = true → tyWFL env (RTy.substL σ ts) = true
  | [], _ => by simp [RTy.substL, tyWFL]
  | t :: ts, hw => by
    simp only [tyWFL, Bool.and_eq_true] at hw; simp only [RTy.substL, tyWFL, Bool.and_eq_true]
    exact ⟨tyWF_subst env σ h t hw.1, tyWFL_subst env σ h ts hw.2⟩
end

mutual
theorem depthR_subst (σ : List (Str × RTy)) (h : ParamsOnly σ) : ∀ (t : RTy), depthR (RTy.subst σ t) = depthR t
  | .param n => by
    simp only [RTy.subst]
    cases hf : σ.find? (·.1 = n) with
    | none => simp
    | some p =>
      obtain ⟨m, hm⟩ := h p (List.mem_of_find?_eq_some hf)
      simp [hm, depthR]
  | .prim _ => by simp [RTy.subst]
  | .option x | .vec x | .slice x | .set x | .range x | .wrap _ x | .arr x _ => by simp [RTy.subst, depthR, depthR_subst σ h x]
  | .tuple ts => by simp [RTy.subst, depthR, depthRL_subst σ h ts]
  | .map k v | .result k v => by simp [RTy.subst, depthR, depthR_subst σ h k, depthR_subst σ h v]
  | .named _ args => by simp [RTy.subst, depthR, depthRL_subst σ h args]
theorem depthRL_subst (σ : List (Str × RTy)) (h : ParamsOnly σ) : ∀ (ts : List RTy), depthRL (RTy.substL σ ts) = depthRL ts
  | [] => by simp [RTy.substL]
  | t :: ts => by simp [RTy.substL, depthRL, depthR_subst σ h t, depthRL_subst σ h ts]
end

/-! ### the theorem for generic items -/

theorem plainField_inst (env : Env) (f : Nat) (σ : List (Str × RTy)) (h : ParamsOnly σ) (fld : Field) (hp : PlainField env f fld) :
    PlainField env f (Field.inst σ fld) := by
  obtain ⟨h1, h2, h3, h4, h5⟩ := hp
  refine ⟨h1, h2, h3, h4, ?_⟩
  intro hsk
  obtain ⟨hw, hd⟩ := h5 hsk
  exact ⟨tyWF_subst env σ h _ hw, by simp only [Field.inst_ty, depthR_subst σ h]; exact hd⟩

theorem dummies_named (cfg : Cfg) (env : Env) : ∀ (gs : List GenericParam),
    nameTyBL cfg.limit (nameN env) (gs.map fun _ => RTy.param "Dummy".toList) = some (gs.map fun _ => Ts.param "Dummy".toList)
  | [] => by simp [nameTyBL]
  | g :: gs => by
    simp only [List.map_cons, nameTyBL, nameTyB, bind, Option.bind]
    rw [dummies_named cfg env gs]
    rfl

/-- **the file of a generic item imports exactly what its declaration uses**: `generate_imports::<T::WithoutGenerics>` visits the
dependencies of the item at `Dummy` for every parameter; the names visited are exactly the names of declarations the generic body
refers to (type parameters are not declarations). For items of the fragment without parameter defaults and `concrete`. -/
theorem item_visit_generic (cfg : Cfg) (env : Env) (it : Item) (f : Nat) (body : Ts)
    (hfind : env.find it.name = some it) (hdef : ∀ g ∈ it.generics, g.default = none) (hconc : it.attr.concrete = [])
    (hta : it.attr.typeAs = none) (hto : it.attr.typeOverride = none)
    (hv : ∀ v ∈ it.variants, v.attr.typeAs = none ∧ v.attr.typeOverride = none)
    (hp : ∀ fld ∈ it.fields, PlainField env f fld) (hpv : ∀ v ∈ it.variants, ∀ fld ∈ v.fields, PlainField env f fld)
    (hS : it.isEnum = false → it.shape = .named → it.fields.all (fieldOkN cfg it.attr.renameAll it.attr.optionalFields) = true)
    (hE : it.isEnum = true → ∀ v ∈ it.variants, v.shape = .named → v.fields.all (fieldOkN cfg (renameAllT it v) .no) = true)
    (hb : itemBody cfg env it = some body) :
    ∀ n, n ∈ idents (visitDeps env (f + 1) (withoutGenerics it)) ↔ n ∈ refNames body := by
  intro n
  have hwg : withoutGenerics it = .named it.name (it.generics.map fun _ => RTy.param "Dummy".toList) := by
    simp [withoutGenerics, hconc]
  have hσ : bindArgs it (it.generics.map fun _ => RTy.param "Dummy".toList)
      = (it.generics.map (·.name)).zip (it.generics.map fun _ => RTy.param "Dummy".toList) := by
    simp only [bindArgs, hconc, List.find?_nil, Option.map_none]
    exact zip_map_names it.generics _
  have hpo : ParamsOnly ((it.generics.map (·.name)).zip (it.generics.map fun _ => RTy.param "Dummy".toList)) := by
    intro p hp'
    have := (List.of_mem_zip hp').2
    simp only [List.mem_map] at this
    obtain ⟨_, _, e⟩ := this
    exact ⟨_, e.symm⟩
  have hpoT : ParamsOnlyT ((it.generics.map (·.name)).zip (it.generics.map fun _ => Ts.param "Dummy".toList)) := by
    intro p hp'
    have := (List.of_mem_zip hp').2
    simp only [List.mem_map] at this
    obtain ⟨_, _, e⟩ := this
    exact ⟨_, e.symm⟩
  have hb' := itemBody_inst cfg env (it.generics.map (·.name)) _ _ (dummies_named cfg env it.generics) it body hb hS hE
  generalize hσd : (it.generics.map (·.name)).zip (it.generics.map fun _ => RTy.param "Dummy".toList) = σ at hσ hpo hb'
  generalize hσd' : (it.generics.map (·.name)).zip (it.generics.map fun _ => Ts.param "Dummy".toList) = σ' at hpoT hb'
  rw [hwg, visitDeps_named env f it.name _ it hfind, idents_dedup, hσ, ← flatMap_visitDep_inst,
    ← itemDeps_inst σ it hdef hta hto hv (fun fld hf => (hp fld hf).1) (fun v hvm fld hf => (hpv v hvm fld hf).1)]
  have key := itemDeps_visit cfg env (Item.inst σ it) f (Ts.subst σ' body) rfl hta hto
    (by
      intro v hvm
      simp only [Item.inst_variants, List.mem_map] at hvm
      obtain ⟨v0, hv0, rfl⟩ := hvm
      exact hv v0 hv0)
    (by
      intro fld hf
      simp only [Item.inst_fields, List.mem_map] at hf
      obtain ⟨f0, hf0, rfl⟩ := hf
      exact plainField_inst env f _ hpo f0 (hp f0 hf0))
    (by
      intro v hvm fld hf
      simp only [Item.inst_variants, List.mem_map] at hvm
      obtain ⟨v0, hv0, rfl⟩ := hvm
      simp only [Variant.inst_fields, List.mem_map] at hf
      obtain ⟨f0, hf0, rfl⟩ := hf
      exact plainField_inst env f _ hpo f0 (hpv v0 hv0 f0 hf0))
    hb' n
  rw [key, refNames_subst σ' hpoT]

/-! ### … with defaults of type parameters: the header `<A, B = D>` mentions the names of `D` -/

def bodyDeps (it : Item) : List Dep :=
  if it.isEnum then
    (match it.attr.typeOverride, it.attr.typeAs with
    | some _, _ => []
    | none, some a => [.transitive { ty := a, inner := false }]
    | none, none => it.variants.flatMap (variantDeps it))
  else typeDefDeps ({ tag := it.attr.tag, typeAs := it.attr.typeAs, typeOverride := it.attr.typeOverride, optionalFields := it.attr.optionalFields } : SAttr)
    it.shape it.fields

def defaultDeps (it : Item) : List Dep :=
  it.generics.flatMap fun g =>
    if (it.attr.concrete.find? (·.1 = g.name)).isSome then []
    else match g.default with
      | some d => push { ty := d, inner := false }
      | none => []

theorem itemDeps_split (it : Item) : itemDeps it = bodyDeps it ++ defaultDeps it := rfl

theorem bodyDeps_inst (σ : List (Str × RTy)) (it : Item) (hta : it.attr.typeAs = none) (hto : it.attr.typeOverride = none)
    (hv : ∀ v ∈ it.variants, v.attr.typeAs = none ∧ v.attr.typeOverride = none)
    (hf : ∀ fld ∈ it.fields, fld.attr.typeAs = none) (hvf : ∀ v ∈ it.variants, ∀ fld ∈ v.fields, fld.attr.typeAs = none) :
    itemDeps (Item.inst σ it) = (bodyDeps it).map (Dep.inst σ) := by
  rw [itemDeps_split]
  have hd0 : defaultDeps (Item.inst σ it) = [] := by simp [defaultDeps]
  rw [hd0, List.append_nil]
  unfold bodyDeps
  simp only [Item.inst_isEnum, Item.inst_attr, Item.inst_variants, Item.inst_fields, Item.inst_shape, hta, hto]
  by_cases hen : it.isEnum = true
  · simp only [hen, if_true]
    have : ∀ (vs : List Variant), (∀ v ∈ vs, v.attr.typeAs = none ∧ v.attr.typeOverride = none) →
        (∀ v ∈ vs, ∀ fld ∈ v.fields, fld.attr.typeAs = none) →
        (vs.map (Variant.inst σ)).flatMap (variantDeps (Item.inst σ it)) = (vs.flatMap (variantDeps it)).map (Dep.inst σ) := by
      intro vs
      induction vs with
      | nil => intro _ _; rfl
      | cons v vs ih =>
        intro h1 h2
        simp only [List.map_cons, List.flatMap_cons, List.map_append]
        rw [variantDeps_inst σ it v (h1 v (by simp)) (h2 v (by simp)),
          ih (fun w hw => h1 w (by simp [hw])) (fun w hw => h2 w (by simp [hw]))]
    exact this it.variants hv hvf
  · simp only [hen, Bool.false_eq_true, if_false]
    exact typeDefDeps_inst σ _ it.shape it.fields hf rfl

/-- the names of declarations the defaults of the type parameters refer to (what the header `<A, B = D>` mentions) -/
def defaultNames (cfg : Cfg) (env : Env) (it : Item) : List Str :=
  it.generics.flatMap fun g => match g.default with
    | some d => ((tyTs cfg env d).map refNames).getD []
    | none => []

theorem defaults_visit (cfg : Cfg) (env : Env) (f : Nat) (names : List Str) (args : List RTy) (targs : List Ts)
    (hargs : nameTyBL cfg.limit (nameN env) args = some targs) (hpo : ParamsOnly (names.zip args)) (hpoT : ParamsOnlyT (names.zip targs))
    (conc : List (Str × RTy)) (hconc : conc = []) :
    ∀ (gs : List GenericParam), (∀ g ∈ gs, ∀ d, g.default = some d → tyWF env d = true ∧ depthR d < f ∧ (tyTs cfg env d).isSome) →
    ∀ n, n ∈ idents ((gs.flatMap fun g =>
        if (conc.find? (·.1 = g.name)).isSome then ([] : List Dep)
        else match g.default with
          | some d => push { ty := d, inner := false }
          | none => []).flatMap (visitDep env f (names.zip args)))
      ↔ n ∈ gs.flatMap fun g => match g.default with
        | some d => ((tyTs cfg env d).map refNames).getD []
        | none => []
  | [], _, n => by simp [idents]
  | g :: gs, h, n => by
    have ih := defaults_visit cfg env f names args targs hargs hpo hpoT conc hconc gs (fun g' hg' => h g' (by simp [hg'])) n
    simp only [List.flatMap_cons, List.flatMap_append, idents_append, List.mem_append]
    rw [ih]
    subst hconc
    simp only [List.find?_nil, Option.isSome_none, Bool.false_eq_true, if_false]
    cases hd : g.default with
    | none => simp [idents]
    | some d =>
      obtain ⟨hw, hdep, hT⟩ := h g (by simp) d hd
      obtain ⟨D, hD⟩ := Option.isSome_iff_exists.mp hT
      have hD' := tyTs_inst cfg env names args targs hargs d D hD
      have := visit_refs cfg env (RTy.subst (names.zip args) d) _ f (tyWF_subst env _ hpo d hw)
        (by rw [depthR_subst _ hpo]; exact hdep) hD' n
      simp only [push, List.flatMap_cons, List.flatMap_nil, List.append_nil, visitDep, resolveInner, Bool.false_eq_true, if_false, hD,
        Option.map_some, Option.getD_some]
      rw [← refNames_subst _ hpoT D, ← this]

/-- **generic items with defaults**: the names visited for the file of a generic item are the names its body refers to together with
the names the defaults of its parameters refer to (both appear in the declaration: `type G<A, B = D> = body`) -/
theorem item_visit_generic_defaults (cfg : Cfg) (env : Env) (it : Item) (f : Nat) (body : Ts)
    (hfind : env.find it.name = some it) (hconc : it.attr.concrete = [])
    (hdef : ∀ g ∈ it.generics, ∀ d, g.default = some d → tyWF env d = true ∧ depthR d < f ∧ (tyTs cfg env d).isSome)
    (hta : it.attr.typeAs = none) (hto : it.attr.typeOverride = none)
    (hv : ∀ v ∈ it.variants, v.attr.typeAs = none ∧ v.attr.typeOverride = none)
    (hp : ∀ fld ∈ it.fields, PlainField env f fld) (hpv : ∀ v ∈ it.variants, ∀ fld ∈ v.fields, PlainField env f fld)
    (hS : it.isEnum = false → it.shape = .named → it.fields.all (fieldOkN cfg it.attr.renameAll it.attr.optionalFields) = true)
    (hE : it.isEnum = true → ∀ v ∈ it.variants, v.shape = .named → v.fields.all (fieldOkN cfg (renameAllT it v) .no) = true)
    (hb : itemBody cfg env it = some body) :
    ∀ n, n ∈ idents (visitDeps env (f + 1) (withoutGenerics it)) ↔ (n ∈ refNames body ∨ n ∈ defaultNames cfg env it) := by
  intro n
  have hwg : withoutGenerics it = .named it.name (it.generics.map fun _ => RTy.param "Dummy".toList) := by
    simp [withoutGenerics, hconc]
  have hσ : bindArgs it (it.generics.map fun _ => RTy.param "Dummy".toList)
      = (it.generics.map (·.name)).zip (it.generics.map fun _ => RTy.param "Dummy".toList) := by
    simp only [bindArgs, hconc, List.find?_nil, Option.map_none]
    exact zip_map_names it.generics _
  have hpo : ParamsOnly ((it.generics.map (·.name)).zip (it.generics.map fun _ => RTy.param "Dummy".toList)) := by
    intro p hp'
    have := (List.of_mem_zip hp').2
    simp only [List.mem_map] at this
    obtain ⟨_, _, e⟩ := this
    exact ⟨_, e.symm⟩
  have hpoT : ParamsOnlyT ((it.generics.map (·.name)).zip (it.generics.map fun _ => Ts.param "Dummy".toList)) := by
    intro p hp'
    have := (List.of_mem_zip hp').2
    simp only [List.mem_map] at this
    obtain ⟨_, _, e⟩ := this
    exact ⟨_, e.symm⟩
  have hargs := dummies_named cfg env it.generics
  have hb' := itemBody_inst cfg env (it.generics.map (·.name)) _ _ hargs it body hb hS hE
  have hdv := defaults_visit cfg env f (it.generics.map (·.name)) _ _ hargs hpo hpoT it.attr.concrete hconc it.generics hdef n
  generalize hσd : (it.generics.map (·.name)).zip (it.generics.map fun _ => RTy.param "Dummy".toList) = σ at hσ hpo hb' hdv
  generalize hσd' : (it.generics.map (·.name)).zip (it.generics.map fun _ => Ts.param "Dummy".toList) = σ' at hpoT hb'
  rw [hwg, visitDeps_named env f it.name _ it hfind, idents_dedup, hσ, itemDeps_split, List.flatMap_append, idents_append, List.mem_append]
  have key := itemDeps_visit cfg env (Item.inst σ it) f (Ts.subst σ' body) rfl hta hto
    (by
      intro v hvm
      simp only [Item.inst_variants, List.mem_map] at hvm
      obtain ⟨v0, hv0, rfl⟩ := hvm
      exact hv v0 hv0)
    (by
      intro fld hf
      simp only [Item.inst_fields, List.mem_map] at hf
      obtain ⟨f0, hf0, rfl⟩ := hf
      exact plainField_inst env f _ hpo f0 (hp f0 hf0))
    (by
      intro v hvm fld hf
      simp only [Item.inst_variants, List.mem_map] at hvm
      obtain ⟨v0, hv0, rfl⟩ := hvm
      simp only [Variant.inst_fields, List.mem_map] at hf
      obtain ⟨f0, hf0, rfl⟩ := hf
      exact plainField_inst env f _ hpo f0 (hpv v0 hv0 f0 hf0))
    hb' n
  rw [bodyDeps_inst σ it hta hto hv (fun fld hf => (hp fld hf).1) (fun v hvm fld hf => (hpv v hvm fld hf).1), flatMap_visitDep_inst,
    refNames_subst σ' hpoT] at key
  rw [key]
  unfold defaultNames
  unfold defaultDeps
  rw [hdv]

end TsRs
