import TsRsVerif.Lemmas.MergeLemmas
import TsRsVerif.Lemmas.MergeText
import TsRsVerif.Lemmas.ImportLine
import TsRsVerif.Lemmas.ImportsCanon
import TsRsVerif.Lemmas.ByteLen
/-!
# A file as a function of the set of exports written into it (text level)

`FileSt` is the abstract content of a shared file: the import map and the name-sorted blocks. `fileText` renders it.
`merge` followed by the seek-and-write of `export_and_merge` is `FileSt.add` on that abstraction (`step_text`), the result
is again of the shape the step asks for (`StOK` is an invariant), and the state reached by any sequence of exports is
`canonSt` of the sequence, which does not depend on the order (`canonSt_perm`).
-/
namespace TsRs
open Text Merge Fs

/-! ### the pieces proved for one merge (used by `Props/C05.lean` as well) -/

theorem loop_is_sorted_insert (n d : Str) (ds : List (Str × Str)) (hn : ∀ x ∈ ds, x.1 ≠ n) :
    insertLoop n d false ds = (insertByName n d ds).map (·.2) := by
  induction ds with
  | nil => simp [insertLoop, insertByName]
  | cons x xs ih =>
    obtain ⟨m, e⟩ := x
    have hm : m ≠ n := hn (m, e) (by simp)
    have ih' := ih (fun y hy => hn y (by simp [hy]))
    simp only [insertLoop, insertByName, Bool.false_or]
    by_cases hlt : ltStr m n = true
    · have h2 : ltStr n m = false := ltStr_asymm hlt
      have h3 : ¬ n = m := fun h => hm h.symm
      simp [hlt, h2, h3, ih']
    · have h2 : ltStr n m = true := by
        rcases ltStr_total hm with h | h
        · exact absurd h hlt
        · exact h
      simp [hlt, h2, insertLoop_true]

theorem mapM_parse_lines' : ∀ (imps : List (Str × List Str)),
    (∀ x ∈ imps, PathOK x.1 ∧ x.2 ≠ [] ∧ ∀ t ∈ x.2, NameOK t) →
    (imps.map fun x => renderLine x.1 x.2).mapM parseImportLine = some imps
  | [], _ => by simp
  | x :: xs, h => by
    obtain ⟨h1, h2, h3⟩ := h x (by simp)
    have ih := mapM_parse_lines' xs (fun y hy => h y (by simp [hy]))
    simp only [List.map_cons, List.mapM_cons, parse_render_line x.1 x.2 h1 h2 h3, ih, bind, Option.bind, pure]

theorem merge_text_full (note : Str) (impO impN : List (Str × List Str)) (blocks : List (Str × Str)) (n d : Str)
    (hnote : LineOK note)
    (hO : ∀ x ∈ impO, PathOK x.1 ∧ x.2 ≠ [] ∧ ∀ t ∈ x.2, NameOK t) (hN : ∀ x ∈ impN, PathOK x.1 ∧ x.2 ≠ [] ∧ ∀ t ∈ x.2, NameOK t)
    (hlO : ∀ x ∈ impO, LineOK (renderLine x.1 x.2)) (hlN : ∀ x ∈ impN, LineOK (renderLine x.1 x.2))
    (hne : blocks ≠ []) (hb : ∀ b ∈ blocks, BlockOK b.1 b.2) (hnew : BlockOK n d) (hfresh : ∀ x ∈ blocks, x.1 ≠ n) :
    merge (header note (impO.map fun x => renderLine x.1 x.2) ++ '\n' :: '\n' :: declsText (blocks.map (·.2)))
          (header note (impN.map fun x => renderLine x.1 x.2) ++ '\n' :: '\n' :: (d ++ ['\n']))
      = .ok (renderImports ((impO ++ impN).foldl addLine []) ++ renderDecls ((insertByName n d blocks).map (·.2))) := by
  have hlO' : ∀ l ∈ impO.map (fun x => renderLine x.1 x.2), LineOK l := by
    intro l hl; obtain ⟨x, hx, rfl⟩ := List.mem_map.mp hl; exact hlO x hx
  have hlN' : ∀ l ∈ impN.map (fun x => renderLine x.1 x.2), LineOK l := by
    intro l hl; obtain ⟨x, hx, rfl⟩ := List.mem_map.mp hl; exact hlN x hx
  have pO := header_props note _ hnote hlO'
  have pN := header_props note _ hnote hlN'
  rw [merge_text _ _ blocks n d (impO ++ impN) ⟨pO.1, pO.2.1⟩ ⟨pN.1, pN.2.1⟩ hne hb hnew ?_, loop_is_sorted_insert n d blocks hfresh]
  rw [lines_header note _ hnote hlO', lines_header note _ hnote hlN']
  simp only [List.drop_succ_cons, List.drop_zero]
  rw [← List.map_append]
  exact mapM_parse_lines' (impO ++ impN) (by
    intro x hx
    rcases List.mem_append.mp hx with h | h
    · exact hO x h
    · exact hN x h)

/-! ### the abstract content of a file -/

/-- what one export contributes: the declared name, the import lines `generate_imports` wrote, the declaration block -/
structure GenT where
  /-- `T::ident()`: the key under which the export registry records the type -/
  ident : Str
  /-- the name `merge` reads back from the declaration (`Name` or `Name<T, ..>`): the sort key of the blocks -/
  name : Str
  imps : Imports
  decl : Str

structure FileSt where
  imps : Imports
  blocks : List (Str × Str)

/-- the notice without its line break -/
def noteLine : Str := NOTE.dropLast

theorem NOTE_eq : NOTE = noteLine ++ ['\n'] := by decide +kernel

theorem noteLine_ok : LineOK noteLine := by
  have h : (!noteLine.isEmpty && noteLine.all (fun c => c != '\n') && (noteLine.getLast? != some '\r')) = true := by decide +kernel
  simp only [Bool.and_eq_true, Bool.not_eq_true', List.all_eq_true, bne_iff_ne, ne_eq] at h
  obtain ⟨⟨h1, h2⟩, h3⟩ := h
  refine ⟨?_, fun hm => h2 _ hm rfl, h3⟩
  intro e; rw [e] at h1; simp at h1

def lineOf (x : Str × List Str) : Str := renderLine x.1 x.2

def fileText (s : FileSt) : Str :=
  header noteLine (s.imps.map lineOf) ++ '\n' :: '\n' :: declsText (s.blocks.map (·.2))

/-- the text `export_to_string` returns for one type -/
def genText (g : GenT) : Str := header noteLine (g.imps.map lineOf) ++ '\n' :: '\n' :: (g.decl ++ ['\n'])

def FileSt.single (g : GenT) : FileSt := ⟨g.imps, [(g.name, g.decl)]⟩

theorem genText_eq (g : GenT) : genText g = fileText (FileSt.single g) := rfl

def FileSt.add (s : FileSt) (g : GenT) : FileSt :=
  ⟨(s.imps ++ g.imps).foldl addLine [], insertByName g.name g.decl s.blocks⟩

/-- one entry of an import block as it can be written on a line and read back -/
def EntryOK (x : Str × List Str) : Prop :=
  PathOK x.1 ∧ '\n' ∉ x.1 ∧ x.2 ≠ [] ∧ ∀ t ∈ x.2, NameOK t ∧ '\n' ∉ t

def ImpsOK (m : Imports) : Prop := ImportsWF m ∧ ∀ x ∈ m, EntryOK x

def GenOK (g : GenT) : Prop := ImpsOK g.imps ∧ BlockOK g.name g.decl

def StOK (s : FileSt) : Prop := ImpsOK s.imps ∧ s.blocks ≠ [] ∧ ∀ b ∈ s.blocks, BlockOK b.1 b.2

theorem lineOK_of_entry (x : Str × List Str) (h : EntryOK x) : LineOK (lineOf x) := by
  obtain ⟨_, hp, _, ht⟩ := h
  have e : lineOf x = PRE ++ (intercalate CS x.2 ++ (SEP ++ ['"'] ++ (x.1 ++ QEND))) := by
    simp [lineOf, renderLine, List.append_assoc]
  refine ⟨?_, ?_, ?_⟩
  · rw [e]; intro h
    exact absurd (List.append_eq_nil_iff.mp h).1 (by decide)
  · rw [e]
    simp only [List.mem_append, not_or]
    refine ⟨by decide, not_mem_intercalate '\n' _ (by decide) x.2 (fun t h' => (ht t h').2), ⟨by decide, by decide⟩, hp, by decide⟩
  · have : (lineOf x).getLast? = some ';' := by
      have e2 : lineOf x = (PRE ++ intercalate CS x.2 ++ (SEP ++ ['"']) ++ x.1 ++ ['"']) ++ [';'] := by
        simp [lineOf, renderLine, QEND, List.append_assoc]
      rw [e2, List.getLast?_append]; simp
    rw [this]; decide

theorem entry_parse_ok (x : Str × List Str) (h : EntryOK x) : PathOK x.1 ∧ x.2 ≠ [] ∧ ∀ t ∈ x.2, NameOK t :=
  ⟨h.1, h.2.2.1, fun t ht => (h.2.2.2 t ht).1⟩

/-! ### `NOTE ++ imports ++ decls` is the file text -/

theorem intercalate_nl_snoc : ∀ (ls : List Str) (a : Str),
    intercalate ['\n'] (a :: ls) ++ ['\n'] = a ++ ['\n'] ++ (ls.map (· ++ ['\n'])).flatten
  | [], a => by simp [intercalate]
  | l :: ls, a => by
    have e : intercalate ['\n'] (a :: l :: ls) = a ++ ['\n'] ++ intercalate ['\n'] (l :: ls) := rfl
    rw [e, List.append_assoc, intercalate_nl_snoc ls l]
    simp

theorem entryText_eq (x : Str × List Str) : entryText x = lineOf x ++ ['\n'] := by
  have h2 : E2 = SEP ++ ['"'] := by decide
  have h3 : E3 = QEND ++ ['\n'] := by decide
  have h1 : E1 = PRE := rfl
  have hc : ECS = CS := rfl
  simp [entryText, lineOf, renderLine, h1, h2, h3, hc, List.append_assoc]

theorem nl_declsText : ∀ (ds : List Str), ds ≠ [] → '\n' :: declsText ds = renderDecls ds
  | [], h => absurd rfl h
  | [d], _ => by simp [declsText, renderDecls]
  | d :: d' :: r, _ => by
    have ih := nl_declsText (d' :: r) (by simp)
    have e : declsText (d :: d' :: r) = d ++ '\n' :: '\n' :: declsText (d' :: r) := rfl
    rw [e, renderDecls_cons, ← ih]
    simp

theorem fileText_eq (s : FileSt) (hne : s.blocks ≠ []) :
    fileText s = NOTE ++ (renderImports s.imps ++ renderDecls (s.blocks.map (·.2))) := by
  unfold fileText header
  have h1 := intercalate_nl_snoc (s.imps.map lineOf) noteLine
  have h2 : renderImports s.imps = ((s.imps.map lineOf).map (· ++ ['\n'])).flatten := by
    rw [renderImports_eq, List.map_map]
    congr 1
    apply List.map_congr_left
    intro x _
    exact entryText_eq x
  rw [← nl_declsText (s.blocks.map (·.2)) (by simpa using hne), h2, NOTE_eq]
  have : intercalate ['\n'] (noteLine :: s.imps.map lineOf) ++ '\n' :: '\n' :: declsText (s.blocks.map (·.2))
       = (intercalate ['\n'] (noteLine :: s.imps.map lineOf) ++ ['\n']) ++ '\n' :: declsText (s.blocks.map (·.2)) := by simp
  rw [this, h1]
  simp [List.append_assoc]

/-! ### one export into an existing file -/

theorem merge_step (s : FileSt) (g : GenT) (hs : StOK s) (hg : GenOK g) (hfresh : ∀ b ∈ s.blocks, b.1 ≠ g.name) :
    merge (fileText s) (genText g)
      = .ok (renderImports (s.add g).imps ++ renderDecls ((s.add g).blocks.map (·.2))) := by
  obtain ⟨⟨_, hse⟩, hne, hb⟩ := hs
  obtain ⟨⟨_, hge⟩, hnew⟩ := hg
  exact merge_text_full noteLine s.imps g.imps s.blocks g.name g.decl noteLine_ok
    (fun x hx => entry_parse_ok x (hse x hx)) (fun x hx => entry_parse_ok x (hge x hx))
    (fun x hx => lineOK_of_entry x (hse x hx)) (fun x hx => lineOK_of_entry x (hge x hx)) hne hb hnew hfresh

theorem add_blocks_ne (s : FileSt) (g : GenT) : (s.add g).blocks ≠ [] := by
  simp only [FileSt.add]
  cases s.blocks with
  | nil => simp [insertByName]
  | cons b bs => obtain ⟨m, e⟩ := b; simp only [insertByName]; split <;> (try split) <;> simp

/-- **seek past the notice, write the merged text**: the file afterwards is exactly the rendering of the new abstract
content; nothing of the old file is left behind, because import block and declaration list only grow -/
theorem write_step (s : FileSt) (g : GenT) (hs : StOK s) :
    writeAt (fileText s) (byteLen NOTE) (renderImports (s.add g).imps ++ renderDecls ((s.add g).blocks.map (·.2)))
      = fileText (s.add g) := by
  rw [fileText_eq s hs.2.1, fileText_eq (s.add g) (add_blocks_ne s g)]
  apply writeAt_prefix
  have h1 : byteLen (renderImports s.imps) ≤ byteLen (renderImports (s.add g).imps) := by
    simp only [FileSt.add, List.foldl_append]
    rw [foldl_addLine_self s.imps hs.1.1]
    exact byteLen_foldl_addLine g.imps s.imps
  have h2 := byteLen_insertByName g.name g.decl s.blocks
  simp only [byteLen_append, FileSt.add] at h1 ⊢
  omega

/-! ### the invariant -/

theorem foldl_addLine_entries (ls : List (Str × List Str)) (hls : ∀ x ∈ ls, EntryOK x) :
    ∀ x ∈ ls.foldl addLine [], EntryOK x := by
  intro x hx
  have wf := foldl_addLine_wf ls [] (by simp [ImportsWF])
  obtain ⟨p, tys⟩ := x
  have hk : p ∈ keys (ls.foldl addLine []) := List.mem_map.mpr ⟨(p, tys), hx, rfl⟩
  rcases (foldl_addLine_keys ls [] p).mp hk with ⟨l, hl, hpl⟩ | h
  · obtain ⟨h1, h2, h3, h4⟩ := hls l hl
    have hpl' : l.1 = p := hpl.symm
    refine ⟨hpl' ▸ h1, hpl' ▸ h2, ?_, ?_⟩
    · -- some name of the line is listed under p, and the entry for p is unique
      cases hl2 : l.2 with
      | nil => exact absurd hl2 h3
      | cons t ts =>
        have : HasPair (ls.foldl addLine []) p t :=
          (foldl_addLine_pairs ls [] p t).mpr (Or.inl ⟨l, hl, hpl, by rw [hl2]; simp⟩)
        obtain ⟨tys', hm, ht⟩ := this
        rw [wf_key_unique wf hx hm]
        intro e
        have e' : tys' = [] := e
        rw [e'] at ht; simp at ht
    · intro t ht
      rcases (foldl_addLine_pairs ls [] p t).mp ⟨tys, hx, ht⟩ with ⟨l', hl', _, ht'⟩ | h
      · exact (hls l' hl').2.2.2 t ht'
      · obtain ⟨_, hm, _⟩ := h; simp at hm
  · simp [keys] at h

theorem add_ok (s : FileSt) (g : GenT) (hs : StOK s) (hg : GenOK g) : StOK (s.add g) := by
  refine ⟨⟨foldl_addLine_wf _ [] (by simp [ImportsWF]), ?_⟩, add_blocks_ne s g, ?_⟩
  · apply foldl_addLine_entries
    intro x hx
    rcases List.mem_append.mp hx with h | h
    · exact hs.1.2 x h
    · exact hg.1.2 x h
  · intro b hb
    rcases insertByName_mem _ _ _ _ hb with h | h
    · subst h; exact hg.2
    · exact hs.2.2 b h

theorem single_ok (g : GenT) (hg : GenOK g) : StOK (FileSt.single g) :=
  ⟨hg.1, by simp [FileSt.single], by intro b hb; simp [FileSt.single] at hb; subst hb; exact hg.2⟩

/-! ### the state after any sequence of exports -/

def canonSt (gens : List GenT) : FileSt :=
  ⟨(gens.flatMap (·.imps)).foldl addLine [], gens.foldl (fun bs g => insertByName g.name g.decl bs) []⟩

theorem canonSt_single (g : GenT) (hg : GenOK g) : FileSt.single g = canonSt [g] := by
  simp only [FileSt.single, canonSt, List.flatMap_cons, List.flatMap_nil, List.append_nil, List.foldl_cons, List.foldl_nil, insertByName]
  rw [foldl_addLine_self g.imps hg.1.1]

theorem canonSt_snoc (gens : List GenT) (g : GenT) : (canonSt gens).add g = canonSt (gens ++ [g]) := by
  simp only [FileSt.add, canonSt, List.flatMap_append, List.flatMap_cons, List.flatMap_nil, List.append_nil, List.foldl_append,
    List.foldl_cons, List.foldl_nil]
  congr 1
  have := foldl_addLine_absorb (gens.flatMap (·.imps)) g.imps
  simpa [List.foldl_append] using this

theorem canonSt_blocks_names (gens : List GenT) : ∀ b ∈ (canonSt gens).blocks, ∃ g ∈ gens, b.1 = g.name := by
  have : ∀ (gs : List GenT) (acc : List (Str × Str)), (∀ b ∈ acc, ∃ g ∈ gens, b.1 = g.name) → (∀ g ∈ gs, g ∈ gens) →
      ∀ b ∈ gs.foldl (fun bs g => insertByName g.name g.decl bs) acc, ∃ g ∈ gens, b.1 = g.name := by
    intro gs
    induction gs with
    | nil => intro acc h _; exact h
    | cons g gs ih =>
      intro acc h hsub
      apply ih
      · intro b hb
        rcases insertByName_mem _ _ _ _ hb with e | e
        · exact ⟨g, hsub g (by simp), by rw [e]⟩
        · exact h b e
      · intro g' hg'; exact hsub g' (by simp [hg'])
  exact this gens [] (by simp) (fun g hg => hg)

theorem canonSt_ok_aux : ∀ (gs pre : List GenT), StOK (canonSt pre) → (∀ x ∈ gs, GenOK x) → StOK (canonSt (pre ++ gs))
  | [], pre, h, _ => by simpa using h
  | g :: gs, pre, h, hg => by
    have e : pre ++ g :: gs = (pre ++ [g]) ++ gs := by simp
    rw [e]
    apply canonSt_ok_aux gs (pre ++ [g])
    · rw [← canonSt_snoc]; exact add_ok _ g h (hg g (by simp))
    · intro x hx; exact hg x (by simp [hx])

theorem canonSt_ok (gens : List GenT) (g : GenT) (h : ∀ x ∈ g :: gens, GenOK x) : StOK (canonSt (g :: gens)) := by
  have := canonSt_ok_aux gens [g] (by rw [← canonSt_single g (h g (by simp))]; exact single_ok g (h g (by simp)))
    (fun x hx => h x (by simp [hx]))
  simpa using this

/-- **the content of a file does not depend on the order of the exports** -/
theorem canonSt_perm (g₁ g₂ : List GenT) (hp : g₁.Perm g₂) (hnd : (g₁.map (·.name)).Nodup) : canonSt g₁ = canonSt g₂ := by
  simp only [canonSt]
  congr 1
  · exact foldl_addLine_perm (hp.flatMap_right _)
  · have e : ∀ (gs : List GenT), gs.foldl (fun bs g => insertByName g.name g.decl bs) [] = insertAll (gs.map fun g => (g.name, g.decl)) := by
      intro gs
      simp only [insertAll, List.foldl_map]
    rw [e, e]
    have hp' : (g₁.map fun g => (g.name, g.decl)).Perm (g₂.map fun g => (g.name, g.decl)) := hp.map _
    have hnd' : ((g₁.map fun g => (g.name, g.decl)).map (·.1)).Nodup := by
      rw [List.map_map]; exact hnd
    have hnd₂ : ((g₂.map fun g => (g.name, g.decl)).map (·.1)).Nodup := (hp'.map _).nodup_iff.mp hnd'
    have s₁ := foldl_insert_sorted (g₁.map fun g => (g.name, g.decl)) [] (by simp [SortedN])
    have s₂ := foldl_insert_sorted (g₂.map fun g => (g.name, g.decl)) [] (by simp [SortedN])
    have p₁ := foldl_insert_perm (g₁.map fun g => (g.name, g.decl)) [] hnd' (by simp)
    have p₂ := foldl_insert_perm (g₂.map fun g => (g.name, g.decl)) [] hnd₂ (by simp)
    simp only [List.append_nil] at p₁ p₂
    exact sorted_perm_eq s₁ s₂ (p₁.trans ((List.reverse_perm _).trans (hp'.trans ((List.reverse_perm _).symm.trans p₂.symm))))

end TsRs

namespace TsRs
open Text Merge

instance (g : GenT) : Decidable (GenOK g) := by
  unfold GenOK ImpsOK ImportsWF SortedS EntryOK PathOK NameOK BlockOK
  infer_instance

/-- executable form of the theorem's domain: is this generated text (declaring `name`) of the modelled shape, with
well-formed import lines and a well-formed block? -/
def genTextInDomain (ident text : Str) : Bool × Bool × Bool :=
  match genParts text with
  | none => (false, false, false)
  | some (imps, decl) =>
    let g : GenT := ⟨ident, (declName decl).getD [], imps, decl⟩
    (true, decide (GenOK g), genText g == text)

theorem genTextInDomain_sound (ident text : Str) (h : genTextInDomain ident text = (true, true, true)) :
    ∃ g : GenT, g.ident = ident ∧ GenOK g ∧ genText g = text := by
  unfold genTextInDomain at h
  cases hp : genParts text with
  | none => simp [hp] at h
  | some p =>
    obtain ⟨imps, decl⟩ := p
    simp only [hp, Prod.mk.injEq, decide_eq_true_eq, beq_iff_eq, true_and] at h
    exact ⟨⟨ident, (declName decl).getD [], imps, decl⟩, rfl, h.1, h.2⟩

end TsRs
