import TsRsVerif.Lemmas.HistoryTo
import TsRsVerif.Lemmas.HistoryMulti
/-!
# Several files through `export_to`: directories created on the way

The last link between the per-file history theorems and the entry points: a sequence of `export_to` calls into SEVERAL files whose
parent directories do not exist yet. Each call creates the missing directories of its own file (`create_dir_all`) and then merges.
Invariant (`TInv`): every file that received exports holds the canonical text of ITS exports, no other regular file changed, no
regular file stands on the directory chain of any target, no target is a directory.
-/
namespace TsRs
open Text Export Fs

namespace Fs

/-- what `create_dir_all` of a chain of names changes: nothing but directories at the prefixes of the chain -/
theorem createDirAllAux_lookup (ns : List Str) : ∀ (fs : Fs) (cur : Loc) (fs' : Fs),
    createDirAllAux fs cur (ns.map Comp.normal) = some fs' →
    ∀ l, fs'.lookup l = fs.lookup l ∨ (fs'.lookup l = some .dir ∧ ∃ k, k ≤ ns.length ∧ 0 < k ∧ l = cur ++ ns.take k) := by
  induction ns with
  | nil =>
    intro fs cur fs' h l
    simp only [List.map_nil, createDirAllAux, Option.some.injEq] at h
    subst h; exact Or.inl rfl
  | cons n ns ih =>
    intro fs cur fs' h l
    simp only [List.map_cons, createDirAllAux] at h
    cases hx : fs.lookup (cur ++ [n]) with
    | none =>
      simp only [hx] at h
      rcases ih _ _ _ h l with h1 | ⟨h1, k, hk, hk0, hl⟩
      · rw [lookup_set] at h1
        by_cases h0 : l = []
        · left; subst h0; simp [lookup]
        · by_cases hl : l = cur ++ [n]
          · right
            subst hl
            simp only [if_true] at h1
            refine ⟨?_, 1, by simp, by simp, by simp⟩
            rw [h1]; split <;> rfl
          · left; simpa [h0, hl] using h1
      · right
        exact ⟨h1, k + 1, by simp; omega, by omega, by simp [hl, List.append_assoc]⟩
    | some nd =>
      cases nd with
      | file c => simp [hx] at h
      | dir =>
        simp only [hx] at h
        rcases ih _ _ _ h l with h1 | ⟨h1, k, hk, hk0, hl⟩
        · exact Or.inl h1
        · right
          exact ⟨h1, k + 1, by simp; omega, by omega, by simp [hl, List.append_assoc]⟩

/-- `create_dir_all` succeeds when no regular file stands on the chain -/
theorem createDirAllAux_succeeds (ns : List Str) : ∀ (fs : Fs) (cur : Loc),
    (∀ k, 0 < k → k ≤ ns.length → ∀ c, fs.lookup (cur ++ ns.take k) ≠ some (.file c)) →
    ∃ fs', createDirAllAux fs cur (ns.map Comp.normal) = some fs' := by
  induction ns with
  | nil => intro fs cur _; exact ⟨fs, by simp [createDirAllAux]⟩
  | cons n ns ih =>
    intro fs cur h
    simp only [List.map_cons, createDirAllAux]
    have h1 := h 1 (by omega) (by simp)
    simp only [List.take_succ_cons, List.take_zero] at h1
    cases hx : fs.lookup (cur ++ [n]) with
    | none =>
      simp only []
      refine ih _ _ ?_
      intro k hk0 hk c
      have := h (k + 1) (by omega) (by simp; omega) c
      simp only [List.take_succ_cons, ← List.append_assoc, List.singleton_append] at this ⊢
      rw [lookup_set]
      have hne : cur ++ [n] ++ List.take k ns ≠ [] := by simp
      by_cases he : cur ++ [n] ++ List.take k ns = cur ++ [n]
      · simp [hne, he]
      · simp only [hne, if_false, he, if_false]
        simpa [List.append_assoc] using this
    | some nd =>
      cases nd with
      | file c => exact absurd hx (h1 c)
      | dir =>
        simp only []
        refine ih _ _ ?_
        intro k hk0 hk c
        have := h (k + 1) (by omega) (by simp; omega) c
        simpa [List.take_succ_cons, List.append_assoc] using this

end Fs

open Path in
/-- after `create_dir_all` of `/n₁/../nₖ`: the path `/n₁/../nₖ/name` resolves to `[n₁, .., nₖ, name]`, below an existing directory -/
theorem resolve_after_mkdir (fs fsD : Fs) (ns : List Str) (name : Str) (hns : ∀ n ∈ ns ++ [name], CompName n)
    (hd : fs.createDirAll (ofComps (Comp.root :: N ns)) = some fsD) :
    fsD.resolve (ofComps (Comp.root :: N (ns ++ [name]))) = some (ns ++ [name]) ∧ fsD.isDir ns = true
    ∧ Fs.createDirAllAux fs [] (ns.map Comp.normal) = some fsD := by
  have hns' : ∀ n ∈ ns, CompName n := fun n hn => hns n (by simp [hn])
  have hc1 := components_ofComps (ns ++ [name]) hns
  have hc2 := components_ofComps ns hns'
  have hne : ofComps (Comp.root :: N ns) ≠ [] := by simp [ofComps]
  unfold Fs.createDirAll at hd
  simp only [hne, if_false, hc2, Fs.createDirAllAux] at hd
  have hd' : Fs.createDirAllAux fs [] (ns.map Comp.normal) = some fsD := by simpa [N] using hd
  obtain ⟨hw, hdir⟩ := Fs.createDirAllAux_walk ns fs [] fsD (by simp [Fs.isDir, Fs.lookup]) hd'
  simp only [List.nil_append] at hdir hw
  refine ⟨?_, hdir, hd'⟩
  unfold Fs.resolve
  rw [hc1]
  simp only [Fs.walk, N, List.map_append, List.map_cons, List.map_nil]
  have : ∀ (cs : List Comp) (cur l : Loc), Fs.walk fsD cur cs = some l → Fs.walk fsD cur (cs ++ [Comp.normal name]) = Fs.walk fsD l [Comp.normal name] := by
    intro cs
    induction cs with
    | nil => intro cur l h; simp [Fs.walk] at h; subst h; rfl
    | cons c cs ih =>
      intro cur l h
      cases c <;> simp only [Fs.walk, List.cons_append] at h ⊢
      · exact ih _ _ h
      · split at h
        · rename_i hh; simp only [hh, if_true]; exact ih _ _ h
        · cases h
      · split at h
        · rename_i hh; simp only [hh, if_true]; exact ih _ _ h
        · cases h
      · split at h
        · rename_i hh; simp only [hh, if_true]; exact ih _ _ h
        · cases h
  rw [this _ _ _ hw]
  simp [Fs.walk, hdir]

/-! ### the files -/

/-- a target file: its directory names below the root and its own name -/
structure TSlot where
  ns : List Str
  name : Str

def TSlot.loc (s : TSlot) : Loc := s.ns ++ [s.name]
def TSlot.path (s : TSlot) : Str := Path.ofComps (Comp.root :: Path.N (s.ns ++ [s.name]))
def TSlot.par (s : TSlot) : Str := Path.ofComps (Comp.root :: Path.N s.ns)

/-- one step: (file index, generated text) and the spelling of the path handed to `export_to` -/
abbrev TOp := Op × Str

def runOpsTo (slots : List TSlot) : World → List TOp → World × Bool
  | w, [] => (w, true)
  | w, op :: ops =>
    match slots[op.1.1]? with
    | none => (w, false)
    | some _ =>
      match exportTo w (tyOfGen op.1.2) op.2 with
      | (w', .ok) => runOpsTo slots w' ops
      | (w', _) => (w', false)

/-- the targets: proper names, different files, no target is an ancestor directory of a target, no regular file stands on the way to
a target, no target is a directory -/
structure TSlotsOK (fs0 : Fs) (slots : List TSlot) : Prop where
  names : ∀ s ∈ slots, ∀ n ∈ s.ns ++ [s.name], Path.CompName n
  locs : ∀ (i j : Nat) (a b : TSlot), slots[i]? = some a → slots[j]? = some b → a.loc = b.loc → i = j
  prefixFree : ∀ a ∈ slots, ∀ b ∈ slots, ∀ k, k ≤ b.ns.length → a.loc ≠ b.ns.take k
  chain : ∀ s ∈ slots, ∀ k, 0 < k → k ≤ s.ns.length → ∀ c, fs0.lookup (s.ns.take k) ≠ some (.file c)
  notdir : ∀ s ∈ slots, fs0.lookup s.loc ≠ some .dir

structure TInv (fs0 : Fs) (slots : List TSlot) (done : List Op) (w : World) : Prop where
  alive : w.poisoned = false
  cwd : w.fs.cwd = fs0.cwd
  files : ∀ (i : Nat) s, slots[i]? = some s → gensAt i done ≠ [] → w.fs.lookup s.loc = some (.file (fileText (canonSt (gensAt i done))))
  others : ∀ l c, (∀ (i : Nat) s, slots[i]? = some s → s.loc = l → gensAt i done = []) →
    (w.fs.lookup l = some (.file c) ↔ fs0.lookup l = some (.file c))
  chain : ∀ s ∈ slots, ∀ k, 0 < k → k ≤ s.ns.length → ∀ c, w.fs.lookup (s.ns.take k) ≠ some (.file c)
  notdir : ∀ s ∈ slots, w.fs.lookup s.loc ≠ some .dir
  regNone : ∀ (i : Nat) s, slots[i]? = some s → gensAt i done = [] → regGet w.reg (regKey s.path) = none
  regSome : ∀ (i : Nat) s, slots[i]? = some s → gensAt i done ≠ [] →
    ∃ names, regGet w.reg (regKey s.path) = some names ∧ ∀ n, n ∈ names ↔ n ∈ (gensAt i done).map (·.ident)

open Path in
theorem tslot_parent (s : TSlot) (hns : ∀ n ∈ s.ns ++ [s.name], CompName n) : Path.parent s.path = some s.par := by
  have hc1 := components_ofComps (s.ns ++ [s.name]) hns
  unfold Path.parent TSlot.path TSlot.par
  rw [hc1]
  simp [N, List.reverse_append]

open Path in
theorem tslot_key (s : TSlot) (hns : ∀ n ∈ s.ns ++ [s.name], CompName n) : regKey s.path = Comp.root :: N s.loc := by
  unfold regKey TSlot.path TSlot.loc
  exact components_ofComps (s.ns ++ [s.name]) hns

theorem N_inj : ∀ (a b : List Str), Path.N a = Path.N b → a = b
  | [], [], _ => rfl
  | [], _ :: _, h => by simp [Path.N] at h
  | _ :: _, [], h => by simp [Path.N] at h
  | x :: xs, y :: ys, h => by
    simp only [Path.N, List.map_cons, List.cons.injEq, Comp.normal.injEq] at h
    rw [h.1, N_inj xs ys (by simpa [Path.N] using h.2)]

/-- one `export_to` step into one of the files -/
theorem tinv_step (fs0 : Fs) (slots : List TSlot) (hs : TSlotsOK fs0 slots) (done : List Op) (op : TOp) (w : World)
    (hinv : TInv fs0 slots done w) (s : TSlot) (hsl : slots[op.1.1]? = some s)
    (habs : Path.absolute (cwdStr w.fs) op.2 = .ok s.path)
    (hgen : ∀ x ∈ gensAt op.1.1 (done ++ [op.1]), GenOK x)
    (hnm : ((gensAt op.1.1 (done ++ [op.1])).map (·.name)).Nodup) (hid : ((gensAt op.1.1 (done ++ [op.1])).map (·.ident)).Nodup) :
    ∃ w', exportTo w (tyOfGen op.1.2) op.2 = (w', .ok) ∧ TInv fs0 slots (done ++ [op.1]) w' := by
  have hmem : s ∈ slots := List.mem_of_getElem? hsl
  have hns := hs.names s hmem
  have hsnoc : gensAt op.1.1 (done ++ [op.1]) = gensAt op.1.1 done ++ [op.1.2] := by rw [gensAt_snoc]; simp
  have hother : ∀ i, i ≠ op.1.1 → gensAt i (done ++ [op.1]) = gensAt i done := by
    intro i hi
    have hne : ¬ op.1.1 = i := fun e => hi e.symm
    rw [gensAt_snoc]; simp [hne]
  -- `create_dir_all` of the parent succeeds: no regular file on the chain
  obtain ⟨fsD, hmk⟩ := Fs.createDirAllAux_succeeds s.ns w.fs [] (by
    intro k hk0 hk c
    simpa using hinv.chain s hmem k hk0 hk c)
  have hd : w.fs.createDirAll s.par = some fsD := by
    have hns' : ∀ n ∈ s.ns, Path.CompName n := fun n hn => hns n (by simp [hn])
    have hc2 := Path.components_ofComps s.ns hns'
    have hne : s.par ≠ [] := by simp [TSlot.par, Path.ofComps]
    unfold Fs.createDirAll
    simp only [hne, if_false]
    unfold TSlot.par
    rw [hc2]
    simpa [Fs.createDirAllAux, Path.N] using hmk
  obtain ⟨hres, hpardir, _⟩ := resolve_after_mkdir w.fs fsD s.ns s.name hns hd
  have hlk := Fs.createDirAllAux_lookup s.ns w.fs [] fsD hmk
  have hcwdD : fsD.cwd = w.fs.cwd := (Fs.createDirAll_frame _ _ _ hd).2
  -- lookups that `create_dir_all` cannot have changed: the locations of the files
  have hloc_same : ∀ s' ∈ slots, fsD.lookup s'.loc = w.fs.lookup s'.loc := by
    intro s' hs'
    rcases hlk s'.loc with h | ⟨_, k, hk, _, hl⟩
    · exact h
    · exact absurd (by simpa using hl) (hs.prefixFree s' hs' s hmem k hk)
  have hstepeq : exportTo w (tyOfGen op.1.2) op.2 = exportGen { w with fs := fsD } s.path op.1.2 :=
    exportTo_eq w op.1.2 op.2 s.path s.par fsD habs (tslot_parent s hns) hd
  have hl : s.loc ≠ [] := by simp [TSlot.loc]
  have hdl : s.loc.dropLast = s.ns := by simp [TSlot.loc]
  have hndD : fsD.lookup s.loc ≠ some .dir := by rw [hloc_same s hmem]; exact hinv.notdir s hmem
  have key : ∃ text, exportGen { w with fs := fsD } s.path op.1.2 =
        ({ w with fs := fsD.set s.loc (.file text), reg := regInsert w.reg (regKey s.path) op.1.2.ident }, .ok)
      ∧ text = fileText (canonSt (gensAt op.1.1 (done ++ [op.1])))
      ∧ (∀ n, n ∈ ((regGet w.reg (regKey s.path)).getD []) ↔ n ∈ (gensAt op.1.1 done).map (·.ident)) := by
    by_cases hemp : gensAt op.1.1 done = []
    · have hreg := hinv.regNone op.1.1 s hsl hemp
      refine ⟨genText op.1.2, ?_, ?_, ?_⟩
      · have := step_fresh { w with fs := fsD } s.path op.1.2 s.loc hinv.alive hreg hres hl (by rw [hdl]; exact hpardir) hndD
        simpa using this
      · rw [hsnoc, hemp, List.nil_append, genText_eq, canonSt_single op.1.2 (hgen op.1.2 (by rw [hsnoc]; simp))]
      · intro n; rw [hreg, hemp]; simp
    · obtain ⟨names, hreg, hnames⟩ := hinv.regSome op.1.1 s hsl hemp
      have hfile : fsD.lookup s.loc = some (.file (fileText (canonSt (gensAt op.1.1 done)))) := by
        rw [hloc_same s hmem]; exact hinv.files op.1.1 s hsl hemp
      have hfresh : op.1.2.name ∉ (gensAt op.1.1 done).map (·.name) := by
        rw [hsnoc, List.map_append] at hnm
        intro hin
        exact (List.nodup_append.mp hnm).2.2 _ hin _ (by simp) rfl
      have hfreshI : op.1.2.ident ∉ (gensAt op.1.1 done).map (·.ident) := by
        rw [hsnoc, List.map_append] at hid
        intro hin
        exact (List.nodup_append.mp hid).2.2 _ hin _ (by simp) rfl
      refine ⟨_, ?_, by rw [hsnoc], ?_⟩
      · have := step_merge { w with fs := fsD } s.path op.1.2 s.loc (gensAt op.1.1 done) names hinv.alive hreg hnames hres hfile hemp
          (fun x hx => hgen x (by rw [hsnoc]; simp [hx])) (hgen op.1.2 (by rw [hsnoc]; simp)) hfresh hfreshI
        simpa using this
      · intro n; rw [hreg]; simpa using hnames n
  obtain ⟨text, hstep, htext, hregold⟩ := key
  refine ⟨_, by rw [hstepeq]; exact hstep, ?_⟩
  -- lookups in the new file system
  have hnew : ∀ l, l ≠ s.loc → l ≠ [] → (fsD.set s.loc (.file text)).lookup l = fsD.lookup l := by
    intro l h1 h0; rw [Fs.lookup_set]; simp [h0, h1]
  have hkeys : ∀ (i : Nat) s', slots[i]? = some s' → i ≠ op.1.1 → regKey s'.path ≠ regKey s.path := by
    intro i s' hs' hi e
    rw [tslot_key s' (hs.names s' (List.mem_of_getElem? hs')), tslot_key s hns] at e
    have : s'.loc = s.loc := N_inj _ _ (by simpa using e)
    exact hi (hs.locs i op.1.1 s' s hs' hsl this)
  refine ⟨hinv.alive, by simpa [set_cwd, hcwdD] using hinv.cwd, ?_, ?_, ?_, ?_, ?_, ?_⟩
  · -- files
    intro i s' hs' hne'
    have h0 : s'.loc ≠ [] := by simp [TSlot.loc]
    by_cases hi : i = op.1.1
    · subst hi
      have e : s' = s := by rw [hsl] at hs'; exact (Option.some.inj hs').symm
      subst e
      simp only; rw [Fs.lookup_set]; simp [h0, htext]
    · have hloc : s'.loc ≠ s.loc := fun e => hi (hs.locs i op.1.1 s' s hs' hsl e)
      simp only; rw [hnew _ hloc h0, hloc_same s' (List.mem_of_getElem? hs')]
      rw [hother i hi] at hne' ⊢
      exact hinv.files i s' hs' hne'
  · -- other regular files
    intro l c hun
    have hne : l ≠ s.loc := by
      intro e
      have := hun op.1.1 s hsl e.symm
      rw [hsnoc] at this; simp at this
    by_cases h0 : l = []
    · subst h0; simp [Fs.lookup]
    · simp only; rw [hnew l hne h0]
      have hold : w.fs.lookup l = some (.file c) ↔ fs0.lookup l = some (.file c) := by
        apply hinv.others
        intro i s' hs' hl'
        have := hun i s' hs' hl'
        by_cases hi : i = op.1.1
        · subst hi
          have e : s' = s := by rw [hsl] at hs'; exact (Option.some.inj hs').symm
          exact absurd (e ▸ hl') (fun e' => hne e'.symm)
        · rw [hother i hi] at this; exact this
      rcases hlk l with h | ⟨hdir, k, hk, hk0, hlk'⟩
      · rw [h]; exact hold
      · -- a directory of the chain: no regular file before (nor in the initial file system)
        have hl' : l = s.ns.take k := by simpa using hlk'
        constructor
        · intro hf; rw [hdir] at hf; cases hf
        · intro hf
          exact absurd (hold.mpr hf) (by rw [hl']; exact hinv.chain s hmem k hk0 hk c)
  · -- chains stay free of regular files
    intro s' hs' k hk0 hk c
    have h0 : s'.ns.take k ≠ [] := by
      intro e
      have h1 : (s'.ns.take k).length = 0 := by rw [e]; rfl
      rw [List.length_take] at h1
      omega
    have hne : s'.ns.take k ≠ s.loc := fun e => hs.prefixFree s hmem s' hs' k hk e.symm
    simp only; rw [hnew _ hne h0]
    rcases hlk (s'.ns.take k) with h | ⟨hdir, _⟩
    · rw [h]; exact hinv.chain s' hs' k hk0 hk c
    · rw [hdir]; simp
  · -- targets are not directories
    intro s' hs'
    by_cases he : s'.loc = s.loc
    · simp only; rw [he, Fs.lookup_set]; simp [hl]
    · have h0 : s'.loc ≠ [] := by simp [TSlot.loc]
      simp only; rw [hnew _ he h0, hloc_same s' hs']; exact hinv.notdir s' hs'
  · intro i s' hs' hemp'
    simp only
    by_cases hi : i = op.1.1
    · subst hi; rw [hsnoc] at hemp'; simp at hemp'
    · rw [regGet_regInsert_ne _ _ _ _ (hkeys i s' hs' hi)]
      rw [hother i hi] at hemp'
      exact hinv.regNone i s' hs' hemp'
  · intro i s' hs' hne'
    simp only
    by_cases hi : i = op.1.1
    · subst hi
      have e : s' = s := by rw [hsl] at hs'; exact (Option.some.inj hs').symm
      subst e
      obtain ⟨names', hn1, hn2⟩ := regGet_regInsert w.reg (regKey s'.path) op.1.2.ident
      refine ⟨names', hn1, ?_⟩
      intro n
      rw [hn2 n, hregold n, hsnoc]
      simp only [List.map_append, List.map_cons, List.map_nil, List.mem_append, List.mem_singleton]
      constructor
      · rintro (h | h); exact Or.inr h; exact Or.inl h
      · rintro (h | h); exact Or.inr h; exact Or.inl h
    · rw [regGet_regInsert_ne _ _ _ _ (hkeys i s' hs' hi)]
      rw [hother i hi] at hne' ⊢
      exact hinv.regSome i s' hs' hne'

/-- the steps are well-formed: indices in range, every spelling has the normal form of its file, texts in the domain, per file
distinct identifiers and declared names -/
structure TOpsOK (slots : List TSlot) (cwd0 : Str) (ops : List TOp) : Prop where
  inRange : ∀ op ∈ ops, op.1.1 < slots.length
  spelled : ∀ op ∈ ops, ∀ s, slots[op.1.1]? = some s → Path.absolute cwd0 op.2 = .ok s.path
  genOK : ∀ op ∈ ops, GenOK op.1.2
  names : ∀ i, ((gensAt i (ops.map (·.1))).map (·.name)).Nodup
  idents : ∀ i, ((gensAt i (ops.map (·.1))).map (·.ident)).Nodup

theorem cwdStr_of_cwd (a b : Fs) (h : a.cwd = b.cwd) : cwdStr a = cwdStr b := by simp [cwdStr, h]

theorem tmulti_aux (fs0 : Fs) (slots : List TSlot) (hs : TSlotsOK fs0 slots) : ∀ (ops : List TOp) (done : List Op) (w : World),
    TInv fs0 slots done w → (∀ op ∈ ops, op.1.1 < slots.length) →
    (∀ op ∈ ops, ∀ s, slots[op.1.1]? = some s → Path.absolute (cwdStr fs0) op.2 = .ok s.path) →
    (∀ x, (∃ op ∈ ops, op.1.2 = x) ∨ (∃ op ∈ done, op.2 = x) → GenOK x) →
    (∀ i, ((gensAt i (done ++ ops.map (·.1))).map (·.name)).Nodup) → (∀ i, ((gensAt i (done ++ ops.map (·.1))).map (·.ident)).Nodup) →
    ∃ w', runOpsTo slots w ops = (w', true) ∧ TInv fs0 slots (done ++ ops.map (·.1)) w'
  | [], done, w, h, _, _, _, _, _ => ⟨w, rfl, by simpa using h⟩
  | op :: ops, done, w, h, hr, hsp, hg, hnm, hid => by
    have hr0 : op.1.1 < slots.length := hr op (by simp)
    have hsl : slots[op.1.1]? = some slots[op.1.1] := List.getElem?_eq_getElem hr0
    have e : done ++ (op :: ops).map (·.1) = (done ++ [op.1]) ++ ops.map (·.1) := by simp
    have hpre : ∀ i, gensAt i (done ++ (op :: ops).map (·.1)) = gensAt i (done ++ [op.1]) ++ gensAt i (ops.map (·.1)) := by
      intro i; rw [e, gensAt_append]
    have hgen : ∀ x ∈ gensAt op.1.1 (done ++ [op.1]), GenOK x := by
      intro x hx
      obtain ⟨op', hop', rfl⟩ := mem_gensAt _ _ _ hx
      rcases List.mem_append.mp hop' with h1 | h1
      · exact hg _ (Or.inr ⟨op', h1, rfl⟩)
      · simp only [List.mem_singleton] at h1
        subst h1
        exact hg _ (Or.inl ⟨op, by simp, rfl⟩)
    have hnm1 : ((gensAt op.1.1 (done ++ [op.1])).map (·.name)).Nodup := by
      have := hnm op.1.1
      rw [hpre, List.map_append] at this
      exact (List.nodup_append.mp this).1
    have hid1 : ((gensAt op.1.1 (done ++ [op.1])).map (·.ident)).Nodup := by
      have := hid op.1.1
      rw [hpre, List.map_append] at this
      exact (List.nodup_append.mp this).1
    have habs : Path.absolute (cwdStr w.fs) op.2 = .ok slots[op.1.1].path := by
      rw [cwdStr_of_cwd w.fs fs0 h.cwd]; exact hsp op (by simp) _ hsl
    obtain ⟨w1, h1, hinv1⟩ := tinv_step fs0 slots hs done op w h slots[op.1.1] hsl habs hgen hnm1 hid1
    obtain ⟨w2, h2, hinv2⟩ := tmulti_aux fs0 slots hs ops (done ++ [op.1]) w1 hinv1 (fun o ho => hr o (by simp [ho]))
      (fun o ho => hsp o (by simp [ho]))
      (by
        intro x hx
        rcases hx with ⟨o, ho, rfl⟩ | ⟨o, ho, rfl⟩
        · exact hg _ (Or.inl ⟨o, by simp [ho], rfl⟩)
        · rcases List.mem_append.mp ho with h3 | h3
          · exact hg _ (Or.inr ⟨o, h3, rfl⟩)
          · simp only [List.mem_singleton] at h3; subst h3; exact hg _ (Or.inl ⟨op, by simp, rfl⟩))
      (by intro i; rw [← e]; exact hnm i) (by intro i; rw [← e]; exact hid i)
    refine ⟨w2, ?_, by rw [e]; exact hinv2⟩
    simp only [runOpsTo, hsl, h1, h2]

/-- a process that has not written any of the files yet -/
theorem tinv_init (slots : List TSlot) (w : World) (hs : TSlotsOK w.fs slots) (hp : w.poisoned = false)
    (hreg : ∀ s ∈ slots, regGet w.reg (regKey s.path) = none) : TInv w.fs slots [] w := by
  refine ⟨hp, rfl, ?_, fun _ _ _ => Iff.rfl, hs.chain, hs.notdir, ?_, ?_⟩
  · intro i s _ h; simp [gensAt] at h
  · intro i s hs' _; exact hreg s (List.mem_of_getElem? hs')
  · intro i s _ h; simp [gensAt] at h

/-- **several files through `export_to`**: from a process that has written none of them, every step of any interleaving — each with
its own spelling of its file's path — returns `Ok`, and the invariant holds at the end -/
theorem tmulti_history (slots : List TSlot) (w : World) (ops : List TOp) (hs : TSlotsOK w.fs slots) (hok : TOpsOK slots (cwdStr w.fs) ops)
    (hp : w.poisoned = false) (hreg : ∀ s ∈ slots, regGet w.reg (regKey s.path) = none) :
    ∃ w', runOpsTo slots w ops = (w', true) ∧ TInv w.fs slots (ops.map (·.1)) w' := by
  have := tmulti_aux w.fs slots hs ops [] w (tinv_init slots w hs hp hreg) hok.inRange hok.spelled
    (by
      intro x hx
      rcases hx with ⟨o, ho, rfl⟩ | ⟨o, ho, _⟩
      · exact hok.genOK o ho
      · cases ho)
    (by simpa using hok.names) (by simpa using hok.idents)
  simpa using this

theorem topsOK_perm (slots : List TSlot) (cwd0 : Str) {a b : List TOp} (h : a.Perm b) (hok : TOpsOK slots cwd0 a) : TOpsOK slots cwd0 b :=
  ⟨fun op hop => hok.inRange op (h.mem_iff.mpr hop), fun op hop => hok.spelled op (h.mem_iff.mpr hop),
   fun op hop => hok.genOK op (h.mem_iff.mpr hop),
   fun i => ((gensAt_perm i (h.map _)).map _).nodup_iff.mp (hok.names i), fun i => ((gensAt_perm i (h.map _)).map _).nodup_iff.mp (hok.idents i)⟩

/-- **the regular files depend only on what was exported where**: two interleavings of the same steps (any spellings, any order;
directories created by whichever step comes first) end with the same regular files with the same contents everywhere -/
theorem tmulti_order_independent (slots : List TSlot) (w : World) (ops₁ ops₂ : List TOp) (hperm : ops₁.Perm ops₂)
    (hs : TSlotsOK w.fs slots) (hok : TOpsOK slots (cwdStr w.fs) ops₁)
    (hp : w.poisoned = false) (hreg : ∀ s ∈ slots, regGet w.reg (regKey s.path) = none) :
    ∃ w₁ w₂, runOpsTo slots w ops₁ = (w₁, true) ∧ runOpsTo slots w ops₂ = (w₂, true) ∧
      ∀ l c, w₁.fs.lookup l = some (.file c) ↔ w₂.fs.lookup l = some (.file c) := by
  obtain ⟨w₁, r₁, i₁⟩ := tmulti_history slots w ops₁ hs hok hp hreg
  obtain ⟨w₂, r₂, i₂⟩ := tmulti_history slots w ops₂ hs (topsOK_perm slots _ hperm hok) hp hreg
  refine ⟨w₁, w₂, r₁, r₂, ?_⟩
  have hp' : (ops₁.map (·.1)).Perm (ops₂.map (·.1)) := hperm.map _
  intro l c
  by_cases hex : ∃ (i : Nat) (s : TSlot), slots[i]? = some s ∧ s.loc = l ∧ gensAt i (ops₁.map (·.1)) ≠ []
  · obtain ⟨i, s, hsl, hl, hne⟩ := hex
    have hne₂ : gensAt i (ops₂.map (·.1)) ≠ [] := by
      intro e
      have := (gensAt_perm i hp').length_eq
      rw [e] at this
      exact hne (List.eq_nil_of_length_eq_zero (by simpa using this))
    rw [← hl, i₁.files i s hsl hne, i₂.files i s hsl hne₂, canonSt_perm _ _ (gensAt_perm i hp') (hok.names i)]
  · have hun₁ : ∀ (i : Nat) s, slots[i]? = some s → s.loc = l → gensAt i (ops₁.map (·.1)) = [] := by
      intro i s hsl hl
      by_cases h : gensAt i (ops₁.map (·.1)) = []
      · exact h
      · exact absurd ⟨i, s, hsl, hl, h⟩ hex
    have hun₂ : ∀ (i : Nat) s, slots[i]? = some s → s.loc = l → gensAt i (ops₂.map (·.1)) = [] := by
      intro i s hsl hl
      have := (gensAt_perm i hp').length_eq
      rw [hun₁ i s hsl hl] at this
      exact List.eq_nil_of_length_eq_zero (by simpa using this.symm)
    rw [i₁.others l c hun₁, i₂.others l c hun₂]

end TsRs
