import TsRsVerif.Lemmas.Unfold
/-! The two directions of `unfold_same_values`: structural recursion on the derivation of membership; the statement quantifies
over ALL unfoldings of the type, so a chain of head unfoldings is absorbed by the induction hypothesis of the `ref` rule. -/
namespace TsRs
open Ts

theorem unfL_to_arms {D : Decls} : ∀ {xs xs' : List Ts}, UnfL D xs xs' → UnfArms D xs xs'
  | _, _, .nil => .nil
  | _, _, .cons u us => .one u (unfL_to_arms us)

theorem unfL_length {D : Decls} : ∀ {xs xs' : List Ts}, UnfL D xs xs' → xs'.length = xs.length
  | _, _, .nil => rfl
  | _, _, .cons _ us => by simp [unfL_length us]

theorem unfF_keys {D : Decls} : ∀ {fs fs' : List (TsKey × Ts)}, UnfF D fs fs' → fs'.map (·.1) = fs.map (·.1)
  | _, _, .nil => rfl
  | _, _, .cons _ us => by simp [unfF_keys us]

/-- where an arm of the original union went -/
theorem arms_mem {D : Decls} {t0 : Ts} : ∀ {ts out : List Ts}, UnfArms D ts out → t0 ∈ ts →
    (∃ t0', t0' ∈ out ∧ Unf D t0 t0') ∨ (∃ xs xs', HeadUnf D t0 (.union xs) ∧ UnfArms D xs xs' ∧ ∀ x' ∈ xs', x' ∈ out)
  | _, _, .nil, h => by simp at h
  | _, _, .one (t' := t') u us, h => by
    rcases List.mem_cons.mp h with e | e
    · subst e; exact Or.inl ⟨t', by simp, u⟩
    · rcases arms_mem us e with ⟨t0', hm, hu⟩ | ⟨xs, xs', hh, hl, hsub⟩
      · exact Or.inl ⟨t0', by simp [hm], hu⟩
      · exact Or.inr ⟨xs, xs', hh, hl, fun x' hx => by simp [hsub x' hx]⟩
  | _, _, .splice (xs := xs) (xs' := xs') hh ul us, h => by
    rcases List.mem_cons.mp h with e | e
    · subst e; exact Or.inr ⟨xs, xs', hh, ul, fun x' hx => by simp [hx]⟩
    · rcases arms_mem us e with ⟨t0', hm, hu⟩ | ⟨ys, ys', hh', hl, hsub⟩
      · exact Or.inl ⟨t0', by simp [hm], hu⟩
      · exact Or.inr ⟨ys, ys', hh', hl, fun x' hx => by simp [hsub x' hx]⟩

/-- an arm of the unfolded union that has a value gives an arm of the original union with that value -/
theorem arms_back {D : Decls} {x' : Ts} {j : JVal} (k : ∀ {t : Ts}, Unf D t x' → Member D t j) :
    ∀ {ts out : List Ts}, UnfArms D ts out → x' ∈ out → ∃ t0, t0 ∈ ts ∧ Member D t0 j
  | _, _, .nil, h => by simp at h
  | _, _, .one (t := t) u us, h => by
    rcases List.mem_cons.mp h with e | e
    · subst e; exact ⟨t, by simp, k u⟩
    · obtain ⟨t0, hm, hv⟩ := arms_back k us e
      exact ⟨t0, by simp [hm], hv⟩
  | _, _, .splice (t := t) (xs := xs) hh inner us, h => by
    rcases List.mem_append.mp h with e | e
    · obtain ⟨x, hx, hv⟩ := arms_back k inner e
      exact ⟨t, by simp, (headUnf_member hh j).mpr (.union hx hv)⟩
    · obtain ⟨t0, hm, hv⟩ := arms_back k us e
      exact ⟨t0, by simp [hm], hv⟩

mutual
theorem fwd {D D' : Decls} (hw : WSD D) (hd : DeclsUnf D D') : ∀ {t : Ts} {j : JVal}, Member D t j → ∀ {t' : Ts}, Unf D t t' → Member D' t' j
  | _, _, .numberInt i, _, u => by
    cases u with | mk h p => cases h; cases p with
      | plain c => cases c with | leaf _ => exact .numberInt i
      | paren c => cases c with | leaf _ => exact .paren (.numberInt i)
  | _, _, .numberFloat r, _, u => by
    cases u with | mk h p => cases h; cases p with
      | plain c => cases c with | leaf _ => exact .numberFloat r
      | paren c => cases c with | leaf _ => exact .paren (.numberFloat r)
  | _, _, .bigint i, _, u => by
    cases u with | mk h p => cases h; cases p with
      | plain c => cases c with | leaf _ => exact .bigint i
      | paren c => cases c with | leaf _ => exact .paren (.bigint i)
  | _, _, .string s, _, u => by
    cases u with | mk h p => cases h; cases p with
      | plain c => cases c with | leaf _ => exact .string s
      | paren c => cases c with | leaf _ => exact .paren (.string s)
  | _, _, .boolean b, _, u => by
    cases u with | mk h p => cases h; cases p with
      | plain c => cases c with | leaf _ => exact .boolean b
      | paren c => cases c with | leaf _ => exact .paren (.boolean b)
  | _, _, .null, _, u => by
    cases u with | mk h p => cases h; cases p with
      | plain c => cases c with | leaf _ => exact .null
      | paren c => cases c with | leaf _ => exact .paren .null
  | _, _, .lit s, _, u => by
    cases u with | mk h p => cases h; cases p with
      | plain c => cases c with | leaf _ => exact .lit s
      | paren c => cases c with | leaf _ => exact .paren (.lit s)
  | _, _, .neverArray, _, u => by
    cases u with | mk h p => cases h; cases p with
      | plain c => cases c with | leaf _ => exact .neverArray
      | paren c => cases c with | leaf _ => exact .paren .neverArray
  | _, _, .emptyRecord, _, u => by
    cases u with | mk h p => cases h; cases p with
      | plain c => cases c with | leaf _ => exact .emptyRecord
      | paren c => cases c with | leaf _ => exact .paren .emptyRecord
  | _, j, .ref (n := n) (args := args) (ps := ps) (body := b) hl m', t', u => by
    cases u with
    | mk h p =>
      cases h with
      | step hl2 hlen h' =>
        rw [hl] at hl2
        simp only [Option.some.injEq, Prod.mk.injEq] at hl2
        obtain ⟨rfl, rfl⟩ := hl2
        exact fwd hw hd m' (.mk h' p)
      | refl =>
        obtain ⟨b', hl', ub⟩ := hd.fwd n ps b hl
        have core : Member D' (.ref n args) j := .ref hl' (fwd hw hd m' (unf_subst hw _ ub))
        cases p with
        | plain c => cases c with
          | leaf hlf => simp [isLeaf] at hlf
          | refSame => exact core
        | paren c => cases c with
          | leaf hlf => simp [isLeaf] at hlf
          | refSame => exact .paren core
  | _, _, .array (js := js) mAll, _, u => by
    cases u with | mk h p => cases h; cases p with
      | plain c => cases c with
        | leaf hlf => simp [isLeaf] at hlf
        | array u' => exact .array (fwdAll hw hd mAll u')
      | paren c => cases c with
        | leaf hlf => simp [isLeaf] at hlf
        | array u' => exact .paren (.array (fwdAll hw hd mAll u'))
  | _, _, .tuple mZip, _, u => by
    cases u with | mk h p => cases h; cases p with
      | plain c => cases c with
        | leaf hlf => simp [isLeaf] at hlf
        | tuple u' => exact .tuple (fwdZip hw hd mZip u')
      | paren c => cases c with
        | leaf hlf => simp [isLeaf] at hlf
        | tuple u' => exact .paren (.tuple (fwdZip hw hd mZip u'))
  | _, _, .obj (kvs := kvs) mF hk, _, u => by
    cases u with | mk h p => cases h; cases p with
      | plain c => cases c with
        | leaf hlf => simp [isLeaf] at hlf
        | obj u' =>
          refine .obj (fwdFields hw hd mF u') ?_
          intro k hkm
          obtain ⟨f, hf, hn⟩ := hk k hkm
          have hkeys := unfF_keys u'
          have : f.1 ∈ (_ : List (TsKey × Ts)).map (·.1) := List.mem_map.mpr ⟨f, hf, rfl⟩
          rw [← hkeys] at this
          obtain ⟨f', hf', he⟩ := List.mem_map.mp this
          exact ⟨f', hf', by rw [he]; exact hn⟩
      | paren c => cases c with
        | leaf hlf => simp [isLeaf] at hlf
        | obj u' =>
          refine .paren (.obj (fwdFields hw hd mF u') ?_)
          intro k hkm
          obtain ⟨f, hf, hn⟩ := hk k hkm
          have hkeys := unfF_keys u'
          have : f.1 ∈ (_ : List (TsKey × Ts)).map (·.1) := List.mem_map.mpr ⟨f, hf, rfl⟩
          rw [← hkeys] at this
          obtain ⟨f', hf', he⟩ := List.mem_map.mp this
          exact ⟨f', hf', by rw [he]; exact hn⟩
  | _, _, .mapped mM, _, u => by
    cases u with | mk h p => cases h; cases p with
      | plain c => cases c with
        | leaf hlf => simp [isLeaf] at hlf
        | mapped uk uv => exact .mapped (fwdMap hw hd mM uk uv)
      | paren c => cases c with
        | leaf hlf => simp [isLeaf] at hlf
        | mapped uk uv => exact .paren (.mapped (fwdMap hw hd mM uk uv))
  | _, j, .union (ts := ts) (t := t0) hmem m', _, u => by
    have core : ∀ out, UnfArms D ts out → Member D' (.union out) j := by
      intro out arms
      rcases arms_mem arms hmem with ⟨t0', hm, hu⟩ | ⟨xs, xs', hh, hl, hsub⟩
      · exact .union hm (fwd hw hd m' hu)
      · have hmu : Member D' (.union xs') j := fwd hw hd m' (.mk hh (.plain (.union hl)))
        cases hmu with
        | union hx mx => exact .union (hsub _ hx) mx
    cases u with
    | mk h p =>
      cases h with
      | single h' =>
        simp only [List.mem_singleton] at hmem
        subst hmem
        exact fwd hw hd m' (.mk h' p)
      | refl =>
        cases p with
        | plain c => cases c with
          | leaf hlf => simp [isLeaf] at hlf
          | union arms => exact core _ arms
        | paren c => cases c with
          | leaf hlf => simp [isLeaf] at hlf
          | union arms => exact .paren (core _ arms)
  | _, _, .interNil, _, u => by
    cases u with | mk h p => cases h; cases p with
      | plain c => cases c with
        | leaf hlf => simp [isLeaf] at hlf
        | inter ul => cases ul; exact .interNil
      | paren c => cases c with
        | leaf hlf => simp [isLeaf] at hlf
        | inter ul => cases ul; exact .paren .interNil
  | _, _, .interObj (t := t1) (ts := ts) (kvs := kvs) hperm m1 m2 hne, _, u => by
    have core : ∀ ts', UnfL D (t1 :: ts) ts' → Member D' (.inter ts') (.obj kvs) := by
      intro ts' ul
      cases ul with
      | cons u1 us =>
        rename_i tsr
        have hne' : tsr ≠ [] := by
          intro e
          have := unfL_length us
          rw [e] at this
          exact hne (List.eq_nil_of_length_eq_zero this.symm)
        exact .interObj hperm (fwd hw hd m1 u1) (fwd hw hd m2 (.mk (.refl _) (.plain (.inter us)))) hne'
    cases u with | mk h p => cases h; cases p with
      | plain c => cases c with
        | leaf hlf => simp [isLeaf] at hlf
        | inter ul => exact core _ ul
      | paren c => cases c with
        | leaf hlf => simp [isLeaf] at hlf
        | inter ul => exact .paren (core _ ul)
  | _, j, .interOne (t := t1) m1, _, u => by
    have core : ∀ ts', UnfL D [t1] ts' → Member D' (.inter ts') j := by
      intro ts' ul
      cases ul with
      | cons u1 us => cases us; exact .interOne (fwd hw hd m1 u1)
    cases u with | mk h p => cases h; cases p with
      | plain c => cases c with
        | leaf hlf => simp [isLeaf] at hlf
        | inter ul => exact core _ ul
      | paren c => cases c with
        | leaf hlf => simp [isLeaf] at hlf
        | inter ul => exact .paren (core _ ul)
  | _, j, .interVal (t := t1) (ts := ts) hno m1 m2, _, u => by
    have core : ∀ ts', UnfL D (t1 :: ts) ts' → Member D' (.inter ts') j := by
      intro ts' ul
      cases ul with
      | cons u1 us => exact .interVal hno (fwd hw hd m1 u1) (fwd hw hd m2 (.mk (.refl _) (.plain (.inter us))))
    cases u with | mk h p => cases h; cases p with
      | plain c => cases c with
        | leaf hlf => simp [isLeaf] at hlf
        | inter ul => exact core _ ul
      | paren c => cases c with
        | leaf hlf => simp [isLeaf] at hlf
        | inter ul => exact .paren (core _ ul)
  | _, _, .paren m', _, u => by
    cases u with | mk h p => cases h; cases p with
      | plain c => cases c with
        | leaf hlf => simp [isLeaf] at hlf
        | parenC u' => exact .paren (fwd hw hd m' u')
      | paren c => cases c with
        | leaf hlf => simp [isLeaf] at hlf
        | parenC u' => exact .paren (.paren (fwd hw hd m' u'))
theorem fwdAll {D D' : Decls} (hw : WSD D) (hd : DeclsUnf D D') : ∀ {t : Ts} {js : List JVal}, MemberAll D t js → ∀ {t' : Ts}, Unf D t t' → MemberAll D' t' js
  | _, _, .nil, _, _ => .nil
  | _, _, .cons m ms, _, u => .cons (fwd hw hd m u) (fwdAll hw hd ms u)
theorem fwdZip {D D' : Decls} (hw : WSD D) (hd : DeclsUnf D D') : ∀ {ts : List Ts} {js : List JVal}, MemberZip D ts js → ∀ {ts' : List Ts}, UnfL D ts ts' → MemberZip D' ts' js
  | _, _, .nil, _, ul => by cases ul; exact .nil
  | _, _, .cons m ms, _, ul => by cases ul with | cons u us => exact .cons (fwd hw hd m u) (fwdZip hw hd ms us)
theorem fwdFields {D D' : Decls} (hw : WSD D) (hd : DeclsUnf D D') : ∀ {fs : List (TsKey × Ts)} {kvs : List (Str × JVal)}, MemberFields D fs kvs →
    ∀ {fs' : List (TsKey × Ts)}, UnfF D fs fs' → MemberFields D' fs' kvs
  | _, _, .nil, _, uf => by cases uf; exact .nil
  | _, _, .present hl m ms, _, uf => by cases uf with | cons u us => exact .present hl (fwd hw hd m u) (fwdFields hw hd ms us)
  | _, _, .absent hl ho ms, _, uf => by cases uf with | cons u us => exact .absent hl ho (fwdFields hw hd ms us)
theorem fwdMap {D D' : Decls} (hw : WSD D) (hd : DeclsUnf D D') : ∀ {k v : Ts} {kvs : List (Str × JVal)}, MemberMap D k v kvs →
    ∀ {k' v' : Ts}, Unf D k k' → Unf D v v' → MemberMap D' k' v' kvs
  | _, _, _, .nil, _, _, _, _ => .nil
  | _, _, _, .consStr mk mv ms, _, _, uk, uv => .consStr (fwd hw hd mk uk) (fwd hw hd mv uv) (fwdMap hw hd ms uk uv)
  | _, _, _, .consInt i he mk mv ms, _, _, uk, uv => .consInt i he (fwd hw hd mk uk) (fwd hw hd mv uv) (fwdMap hw hd ms uk uv)
end

mutual
theorem bwd {D D' : Decls} (hw : WSD D) (hd : DeclsUnf D D') : ∀ {t' : Ts} {j : JVal}, Member D' t' j → ∀ {t : Ts}, Unf D t t' → Member D t j
  | _, _, .numberInt i, _, u => by
    cases u with | mk h p => cases p with
      | plain c => cases c with | leaf _ => exact (headUnf_member h _).mpr (.numberInt i)
  | _, _, .numberFloat r, _, u => by
    cases u with | mk h p => cases p with
      | plain c => cases c with | leaf _ => exact (headUnf_member h _).mpr (.numberFloat r)
  | _, _, .bigint i, _, u => by
    cases u with | mk h p => cases p with
      | plain c => cases c with | leaf _ => exact (headUnf_member h _).mpr (.bigint i)
  | _, _, .string s, _, u => by
    cases u with | mk h p => cases p with
      | plain c => cases c with | leaf _ => exact (headUnf_member h _).mpr (.string s)
  | _, _, .boolean b, _, u => by
    cases u with | mk h p => cases p with
      | plain c => cases c with | leaf _ => exact (headUnf_member h _).mpr (.boolean b)
  | _, _, .null, _, u => by
    cases u with | mk h p => cases p with
      | plain c => cases c with | leaf _ => exact (headUnf_member h _).mpr .null
  | _, _, .lit s, _, u => by
    cases u with | mk h p => cases p with
      | plain c => cases c with | leaf _ => exact (headUnf_member h _).mpr (.lit s)
  | _, _, .neverArray, _, u => by
    cases u with | mk h p => cases p with
      | plain c => cases c with | leaf _ => exact (headUnf_member h _).mpr .neverArray
  | _, _, .emptyRecord, _, u => by
    cases u with | mk h p => cases p with
      | plain c => cases c with | leaf _ => exact (headUnf_member h _).mpr .emptyRecord
  | _, _, .ref (n := n) (args := args) (ps := ps) (body := b') hl' m'', _, u => by
    cases u with | mk h p => cases p with
      | plain c => cases c with
        | leaf hlf => simp [isLeaf] at hlf
        | refSame =>
          obtain ⟨b, hl, ub⟩ := hd.bwd n ps b' hl'
          exact (headUnf_member h _).mpr (.ref hl (bwd hw hd m'' (unf_subst hw _ ub)))
  | _, _, .array mAll, _, u => by
    cases u with | mk h p => cases p with
      | plain c => cases c with
        | leaf hlf => simp [isLeaf] at hlf
        | array u' => exact (headUnf_member h _).mpr (.array (bwdAll hw hd mAll u'))
  | _, _, .tuple mZip, _, u => by
    cases u with | mk h p => cases p with
      | plain c => cases c with
        | leaf hlf => simp [isLeaf] at hlf
        | tuple u' => exact (headUnf_member h _).mpr (.tuple (bwdZip hw hd mZip u'))
  | _, _, .obj (kvs := kvs) mF hk, _, u => by
    cases u with | mk h p => cases p with
      | plain c => cases c with
        | leaf hlf => simp [isLeaf] at hlf
        | obj u' =>
          refine (headUnf_member h _).mpr (.obj (bwdFields hw hd mF u') ?_)
          intro k hkm
          obtain ⟨f', hf', hn⟩ := hk k hkm
          have hkeys := unfF_keys u'
          have : f'.1 ∈ (_ : List (TsKey × Ts)).map (·.1) := List.mem_map.mpr ⟨f', hf', rfl⟩
          rw [hkeys] at this
          obtain ⟨f, hf, he⟩ := List.mem_map.mp this
          exact ⟨f, hf, by rw [he]; exact hn⟩
  | _, _, .mapped mM, _, u => by
    cases u with | mk h p => cases p with
      | plain c => cases c with
        | leaf hlf => simp [isLeaf] at hlf
        | mapped uk uv => exact (headUnf_member h _).mpr (.mapped (bwdMap hw hd mM uk uv))
  | _, _, .union (t := x') hmem m'', _, u => by
    cases u with | mk h p => cases p with
      | plain c => cases c with
        | leaf hlf => simp [isLeaf] at hlf
        | union arms =>
          refine (headUnf_member h _).mpr ?_
          obtain ⟨t0, hm, hv⟩ := arms_back (fun hu => bwd hw hd m'' hu) arms hmem
          exact .union hm hv
  | _, _, .interNil, _, u => by
    cases u with | mk h p => cases p with
      | plain c => cases c with
        | leaf hlf => simp [isLeaf] at hlf
        | inter ul => cases ul; exact (headUnf_member h _).mpr .interNil
  | _, _, .interObj (ts := ts') hperm m1 m2 hne, _, u => by
    cases u with | mk h p => cases p with
      | plain c => cases c with
        | leaf hlf => simp [isLeaf] at hlf
        | inter ul =>
          cases ul with
          | cons u1 us =>
            rename_i t0 ts0
            have hne0 : ts0 ≠ [] := by
              intro e
              have := unfL_length us
              rw [e] at this
              exact hne (List.eq_nil_of_length_eq_zero this)
            exact (headUnf_member h _).mpr (.interObj hperm (bwd hw hd m1 u1) (bwd hw hd m2 (.mk (.refl _) (.plain (.inter us)))) hne0)
  | _, _, .interOne m1, _, u => by
    cases u with | mk h p => cases p with
      | plain c => cases c with
        | leaf hlf => simp [isLeaf] at hlf
        | inter ul =>
          cases ul with
          | cons u1 us => cases us; exact (headUnf_member h _).mpr (.interOne (bwd hw hd m1 u1))
  | _, _, .interVal hno m1 m2, _, u => by
    cases u with | mk h p => cases p with
      | plain c => cases c with
        | leaf hlf => simp [isLeaf] at hlf
        | inter ul =>
          cases ul with
          | cons u1 us => exact (headUnf_member h _).mpr (.interVal hno (bwd hw hd m1 u1) (bwd hw hd m2 (.mk (.refl _) (.plain (.inter us)))))
  | _, _, .paren m'', _, u => by
    cases u with | mk h p => cases p with
      | plain c => cases c with
        | leaf hlf => simp [isLeaf] at hlf
        | parenC u' => exact (headUnf_member h _).mpr (.paren (bwd hw hd m'' u'))
      | paren c => exact (headUnf_member h _).mpr (bwd hw hd m'' (.mk (.refl _) (.plain c)))
theorem bwdAll {D D' : Decls} (hw : WSD D) (hd : DeclsUnf D D') : ∀ {t' : Ts} {js : List JVal}, MemberAll D' t' js → ∀ {t : Ts}, Unf D t t' → MemberAll D t js
  | _, _, .nil, _, _ => .nil
  | _, _, .cons m ms, _, u => .cons (bwd hw hd m u) (bwdAll hw hd ms u)
theorem bwdZip {D D' : Decls} (hw : WSD D) (hd : DeclsUnf D D') : ∀ {ts' : List Ts} {js : List JVal}, MemberZip D' ts' js → ∀ {ts : List Ts}, UnfL D ts ts' → MemberZip D ts js
  | _, _, .nil, _, ul => by cases ul; exact .nil
  | _, _, .cons m ms, _, ul => by cases ul with | cons u us => exact .cons (bwd hw hd m u) (bwdZip hw hd ms us)
theorem bwdFields {D D' : Decls} (hw : WSD D) (hd : DeclsUnf D D') : ∀ {fs' : List (TsKey × Ts)} {kvs : List (Str × JVal)}, MemberFields D' fs' kvs →
    ∀ {fs : List (TsKey × Ts)}, UnfF D fs fs' → MemberFields D fs kvs
  | _, _, .nil, _, uf => by cases uf; exact .nil
  | _, _, .present hl m ms, _, uf => by cases uf with | cons u us => exact .present hl (bwd hw hd m u) (bwdFields hw hd ms us)
  | _, _, .absent hl ho ms, _, uf => by cases uf with | cons u us => exact .absent hl ho (bwdFields hw hd ms us)
theorem bwdMap {D D' : Decls} (hw : WSD D) (hd : DeclsUnf D D') : ∀ {k' v' : Ts} {kvs : List (Str × JVal)}, MemberMap D' k' v' kvs →
    ∀ {k v : Ts}, Unf D k k' → Unf D v v' → MemberMap D k v kvs
  | _, _, _, .nil, _, _, _, _ => .nil
  | _, _, _, .consStr mk mv ms, _, _, uk, uv => .consStr (bwd hw hd mk uk) (bwd hw hd mv uv) (bwdMap hw hd ms uk uv)
  | _, _, _, .consInt i he mk mv ms, _, _, uk, uv => .consInt i he (bwd hw hd mk uk) (bwd hw hd mv uv) (bwdMap hw hd ms uk uv)
end

/-- **unfolding references never changes meaning**: if every body of `D'` is an unfolding (any number of references, at any
depth, parenthesised or not, unions spliced) of the body `D` declares under the same name, then every type and each of its
unfoldings have exactly the same JSON values, under `D` and `D'` respectively -/
theorem unfold_same_values {D D' : Decls} (hw : WSD D) (hd : DeclsUnf D D') {t t' : Ts} (u : Unf D t t') (j : JVal) :
    Member D t j ↔ Member D' t' j :=
  ⟨fun m => fwd hw hd m u, fun m => bwd hw hd m u⟩

end TsRs
