import TsRsVerif.Model.Text
import TsRsVerif.Lemmas.StrOrder
/-! `insertSorted` builds the unique strictly sorted list of a set of strings. -/
namespace TsRs.Text

def SortedS (l : List Str) : Prop := l.Pairwise fun a b => ltStr a b = true

theorem insertSorted_mem (x : Str) (l : List Str) (y : Str) : y ∈ insertSorted x l ↔ y = x ∨ y ∈ l := by
  induction l with
  | nil => simp [insertSorted]
  | cons z zs ih =>
    simp only [insertSorted]
    split
    · simp
    · split
      · rename_i h; subst h; simp
      · simp [ih]; constructor
        · rintro (h | h | h) <;> simp [h]
        · rintro (h | h | h) <;> simp [h]

theorem insertSorted_sorted (x : Str) (l : List Str) (h : SortedS l) : SortedS (insertSorted x l) := by
  induction l with
  | nil => simp [insertSorted, SortedS]
  | cons z zs ih =>
    have hz : ∀ w ∈ zs, ltStr z w = true := (List.pairwise_cons.mp h).1
    have hs : SortedS zs := (List.pairwise_cons.mp h).2
    simp only [insertSorted]
    split
    · rename_i hxz
      refine List.pairwise_cons.mpr ⟨?_, h⟩
      intro w hw; simp at hw
      rcases hw with hw | hw
      · subst hw; exact hxz
      · exact ltStr_trans hxz (hz w hw)
    · rename_i hxz
      split
      · exact h
      · rename_i hne
        refine List.pairwise_cons.mpr ⟨?_, ih hs⟩
        intro w hw
        rcases (insertSorted_mem x zs w).mp hw with hw' | hw'
        · subst hw'
          rcases ltStr_total hne with h1 | h1
          · exact absurd h1 hxz
          · exact h1
        · exact hz w hw'

theorem sortedS_ext {l₁ l₂ : List Str} (h₁ : SortedS l₁) (h₂ : SortedS l₂) (h : ∀ x, x ∈ l₁ ↔ x ∈ l₂) : l₁ = l₂ := by
  have nd₁ : l₁.Nodup := h₁.imp (fun hab => ltStr_ne hab)
  have nd₂ : l₂.Nodup := h₂.imp (fun hab => ltStr_ne hab)
  have hp : l₁.Perm l₂ := (List.perm_ext_iff_of_nodup nd₁ nd₂).mpr h
  exact List.Perm.eq_of_pairwise (le := fun (a b : Str) => ltStr a b = true)
    (fun a b _ _ hab hba => by rw [ltStr_asymm hab] at hba; exact absurd hba (by simp))
    (by unfold SortedS at h₁; exact h₁) (by unfold SortedS at h₂; exact h₂) hp

theorem foldl_insertSorted_sorted (xs acc : List Str) (h : SortedS acc) :
    SortedS (xs.foldl (fun a x => insertSorted x a) acc) := by
  induction xs generalizing acc with
  | nil => exact h
  | cons x xs ih => exact ih _ (insertSorted_sorted x acc h)

theorem foldl_insertSorted_mem (xs acc : List Str) (y : Str) :
    y ∈ xs.foldl (fun a x => insertSorted x a) acc ↔ y ∈ xs ∨ y ∈ acc := by
  induction xs generalizing acc with
  | nil => simp
  | cons x xs ih =>
    simp only [List.foldl_cons, ih, insertSorted_mem, List.mem_cons]
    constructor
    · rintro (h | h | h)
      · exact Or.inl (Or.inr h)
      · exact Or.inl (Or.inl h)
      · exact Or.inr h
    · rintro ((h | h) | h)
      · exact Or.inr (Or.inl h)
      · exact Or.inl h
      · exact Or.inr (Or.inr h)

/-- the sorted set of names does not depend on the order in which they are inserted -/
theorem foldl_insertSorted_perm (xs ys : List Str) (h : xs.Perm ys) :
    xs.foldl (fun a x => insertSorted x a) [] = ys.foldl (fun a x => insertSorted x a) [] := by
  apply sortedS_ext (foldl_insertSorted_sorted xs [] (by simp [SortedS])) (foldl_insertSorted_sorted ys [] (by simp [SortedS]))
  intro y
  simp [foldl_insertSorted_mem, h.mem_iff]

end TsRs.Text
