import TsRsVerif.Model.Ts
/-! Building blocks of C01: how `Member` of an exact object type is assembled from its fields. -/
namespace TsRs.Ts

theorem lookup_cons_ne {k k' : Str} {v : JVal} {kvs : List (Str × JVal)} (h : k' ≠ k) :
    JVal.lookup k ((k', v) :: kvs) = JVal.lookup k kvs := by
  simp [JVal.lookup, h]

theorem lookup_none_of_not_mem {k : Str} : ∀ {kvs : List (Str × JVal)}, k ∉ kvs.map (·.1) → JVal.lookup k kvs = none
  | [], _ => rfl
  | (k', v) :: kvs, h => by
    have h1 : k' ≠ k := fun e => h (by simp [e])
    rw [lookup_cons_ne h1]
    exact lookup_none_of_not_mem (fun hm => h (by simp [hm]))

/-- required fields, one JSON entry per field, in the same order, keys pairwise distinct -/
theorem objFields_sound (D : Decls) : ∀ (l : List (Str × Ts × JVal)) (extra : List (Str × JVal)),
    (l.map (·.1)).Nodup → (∀ x ∈ l, ∀ y ∈ extra, y.1 ≠ x.1) → (∀ x ∈ l, Member D x.2.1 x.2.2) →
    ∀ (pre : List (Str × JVal)), (∀ x ∈ l, ∀ y ∈ pre, y.1 ≠ x.1) →
    MemberFields D (l.map fun x => (({ name := x.1 } : TsKey), x.2.1)) (pre ++ l.map (fun x => (x.1, x.2.2)) ++ extra)
  | [], _, _, _, _, _, _ => MemberFields.nil
  | (k, T, j) :: rest, extra, hnd, hex, hm, pre, hpre => by
    have hnd' : k ∉ rest.map (·.1) ∧ (rest.map (·.1)).Nodup := by
      have : (k :: rest.map (·.1)).Nodup := hnd
      exact List.nodup_cons.mp this
    have hlook : JVal.lookup k (pre ++ ((k, T, j) :: rest).map (fun x => (x.1, x.2.2)) ++ extra) = some j := by
      have : ∀ (p : List (Str × JVal)), (∀ y ∈ p, y.1 ≠ k) →
          JVal.lookup k (p ++ ((k, j) :: rest.map (fun x => (x.1, x.2.2))) ++ extra) = some j := by
        intro p
        induction p with
        | nil => intro _; simp [JVal.lookup]
        | cons y ys ih =>
          intro hy
          obtain ⟨yk, yv⟩ := y
          have : yk ≠ k := hy (yk, yv) (by simp)
          simp only [List.cons_append]
          rw [lookup_cons_ne this]
          exact ih (fun z hz => hy z (by simp [hz]))
      exact this pre (fun y hy => hpre (k, T, j) (by simp) y hy)
    refine MemberFields.present (v := j) hlook (hm (k, T, j) (by simp)) ?_
    have := objFields_sound D rest extra hnd'.2 (fun x hx y hy => hex x (by simp [hx]) y hy)
      (fun x hx => hm x (by simp [hx])) (pre ++ [(k, j)]) (by
        intro x hx y hy
        simp at hy
        rcases hy with hy | hy
        · exact hpre x (by simp [hx]) y hy
        · subst hy
          intro e
          apply hnd'.1
          simp only [List.mem_map]
          exact ⟨x, hx, e.symm⟩)
    simpa using this

/-- **exact object from its fields**: the object whose entries are exactly the declared (required)
properties, each value a member of the property's type, inhabits the object type -/
theorem obj_sound (D : Decls) (l : List (Str × Ts × JVal)) (hnd : (l.map (·.1)).Nodup)
    (hm : ∀ x ∈ l, Member D x.2.1 x.2.2) :
    Member D (.obj (l.map fun x => (({ name := x.1 } : TsKey), x.2.1))) (.obj (l.map fun x => (x.1, x.2.2))) := by
  have h := objFields_sound D l [] hnd (by simp) hm [] (by simp)
  simp only [List.nil_append, List.append_nil] at h
  refine Member.obj h ?_
  intro k hk
  simp only [JVal.keys, List.map_map, List.mem_map, Function.comp] at hk
  obtain ⟨x, hx, rfl⟩ := hk
  exact ⟨(({ name := x.1 } : TsKey), x.2.1), by simp only [List.mem_map]; exact ⟨x, hx, rfl⟩, rfl⟩

end TsRs.Ts
