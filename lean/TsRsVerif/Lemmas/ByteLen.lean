import TsRsVerif.Model.Export
import TsRsVerif.Lemmas.SortedStr
/-! Byte lengths: `writeAt` (seek + write WITHOUT truncation) leaves nothing of the old file behind exactly when the new
content is at least as long as the old one; the import block and the declaration list written by `merge` only ever grow. -/
namespace TsRs.Fs
open TsRs.Text

theorem utf8Len_pos (c : Char) : 1 ≤ utf8Len c := by
  unfold utf8Len; simp only; split <;> (try split) <;> (try split) <;> omega

@[simp] theorem byteLen_nil : byteLen [] = 0 := rfl
@[simp] theorem byteLen_cons (c : Char) (s : Str) : byteLen (c :: s) = utf8Len c + byteLen s := by
  simp [byteLen]
@[simp] theorem byteLen_append (a b : Str) : byteLen (a ++ b) = byteLen a + byteLen b := by
  simp [byteLen]

theorem takeBytes_append_self : ∀ (a b : Str), takeBytes (byteLen a) (a ++ b) = a
  | [], b => by simp [takeBytes]
  | c :: a, b => by
    have h := utf8Len_pos c
    have e : byteLen (c :: a) = (utf8Len c + byteLen a - 1) + 1 := by simp; omega
    rw [e, List.cons_append, takeBytes]
    have : utf8Len c + byteLen a - 1 + 1 - utf8Len c = byteLen a := by omega
    rw [this, takeBytes_append_self a b]

theorem dropBytes_all : ∀ (s : Str) (n : Nat), byteLen s ≤ n → dropBytes n s = []
  | [], n, _ => by cases n <;> rfl
  | c :: s, n, h => by
    have hc := utf8Len_pos c
    simp only [byteLen_cons] at h
    cases n with
    | zero => omega
    | succ n =>
      rw [dropBytes]
      exact dropBytes_all s _ (by omega)

theorem dropBytes_append_self : ∀ (a b : Str) (k : Nat), dropBytes (byteLen a + k) (a ++ b) = dropBytes k b
  | [], b, k => by simp
  | c :: a, b, k => by
    have h := utf8Len_pos c
    have e : byteLen (c :: a) + k = (utf8Len c + byteLen a + k - 1) + 1 := by simp; omega
    rw [e, List.cons_append, dropBytes]
    have : utf8Len c + byteLen a + k - 1 + 1 - utf8Len c = byteLen a + k := by omega
    rw [this, dropBytes_append_self a b k]

/-- **seek past the notice and write**: nothing of the old content survives when the new content is not shorter -/
theorem writeAt_prefix (pre old new : Str) (h : byteLen old ≤ byteLen new) :
    writeAt (pre ++ old) (byteLen pre) new = pre ++ new := by
  unfold writeAt
  rw [takeBytes_append_self, dropBytes_append_self, dropBytes_all old _ h]
  simp

theorem byteLen_flatten (ls : List Str) : byteLen ls.flatten = (ls.map byteLen).sum := by
  induction ls with
  | nil => rfl
  | cons l ls ih => simp [ih]

theorem intercalate_cons_cons (sep a b : Str) (rest : List Str) :
    intercalate sep (a :: b :: rest) = a ++ sep ++ intercalate sep (b :: rest) := rfl

theorem insertSorted_ne_nil (t : Str) (l : List Str) : insertSorted t l ≠ [] := by
  cases l with
  | nil => simp [insertSorted]
  | cons y ys => simp only [insertSorted]; split <;> (try split) <;> simp

theorem byteLen_intercalate_insertSorted (sep t : Str) : ∀ (l : List Str),
    byteLen (intercalate sep l) ≤ byteLen (intercalate sep (insertSorted t l))
  | [] => by simp [insertSorted, intercalate]
  | y :: ys => by
    simp only [insertSorted]
    split
    · rw [intercalate_cons_cons]; simp only [byteLen_append]; omega
    · split
      · exact Nat.le_refl _
      · have ih := byteLen_intercalate_insertSorted sep t ys
        cases hL : insertSorted t ys with
        | nil => exact absurd hL (insertSorted_ne_nil t ys)
        | cons z zs =>
          rw [intercalate_cons_cons]
          rw [hL] at ih
          cases ys with
          | nil => simp [intercalate]
          | cons w ws => rw [intercalate_cons_cons]; simp only [byteLen_append]; omega

end TsRs.Fs

namespace TsRs.Merge
open TsRs.Text TsRs.Fs

def E1 : Str := "import type { ".toList
def E2 : Str := " } from \"".toList
def E3 : Str := "\";\n".toList
def ECS : Str := ", ".toList

def entryText (e : Str × List Str) : Str := E1 ++ intercalate ECS e.2 ++ E2 ++ e.1 ++ E3

theorem renderImports_eq (m : Imports) : renderImports m = (m.map entryText).flatten := rfl

theorem renderImports_cons (e : Str × List Str) (m : Imports) : renderImports (e :: m) = entryText e ++ renderImports m := rfl

theorem byteLen_touchPath (p : Str) : ∀ (m : Imports), byteLen (renderImports m) ≤ byteLen (renderImports (touchPath p m))
  | [] => by simp [renderImports_eq]
  | (q, tys) :: rest => by
    simp only [touchPath]
    split
    · rw [renderImports_cons (p, [])]; simp only [byteLen_append]; omega
    · split
      · exact Nat.le_refl _
      · rw [renderImports_cons, renderImports_cons]
        have := byteLen_touchPath p rest
        simp only [byteLen_append]; omega

theorem byteLen_insertImport (p t : Str) : ∀ (m : Imports), byteLen (renderImports m) ≤ byteLen (renderImports (insertImport p t m))
  | [] => by simp [renderImports_eq]
  | (q, tys) :: rest => by
    simp only [insertImport]
    split
    · rw [renderImports_cons (p, [t])]; simp only [byteLen_append]; omega
    · split
      · rw [renderImports_cons, renderImports_cons]
        have := byteLen_intercalate_insertSorted ECS t tys
        simp only [entryText, byteLen_append]; omega
      · rw [renderImports_cons, renderImports_cons]
        have := byteLen_insertImport p t rest
        simp only [byteLen_append]; omega

theorem byteLen_addLine (m : Imports) (l : Str × List Str) : byteLen (renderImports m) ≤ byteLen (renderImports (addLine m l)) := by
  unfold addLine
  have : ∀ (ts : List Str) (m' : Imports), byteLen (renderImports m') ≤ byteLen (renderImports (ts.foldl (fun a t => insertImport l.1 t a) m')) := by
    intro ts
    induction ts with
    | nil => intro m'; exact Nat.le_refl _
    | cons t ts ih => intro m'; exact Nat.le_trans (byteLen_insertImport l.1 t m') (ih _)
  exact Nat.le_trans (byteLen_touchPath l.1 m) (this l.2 _)

/-- **the import block only grows** -/
theorem byteLen_foldl_addLine : ∀ (ls : List (Str × List Str)) (m : Imports),
    byteLen (renderImports m) ≤ byteLen (renderImports (ls.foldl addLine m))
  | [], _ => Nat.le_refl _
  | l :: ls, m => Nat.le_trans (byteLen_addLine m l) (byteLen_foldl_addLine ls (addLine m l))

theorem renderDecls_cons (d : Str) (ds : List Str) : renderDecls (d :: ds) = (['\n'] ++ d ++ ['\n']) ++ renderDecls ds := rfl

/-- **the declaration list only grows** -/
theorem byteLen_insertByName (n d : Str) : ∀ (bs : List (Str × Str)),
    byteLen (renderDecls (bs.map (·.2))) ≤ byteLen (renderDecls ((insertByName n d bs).map (·.2)))
  | [] => by simp [insertByName, renderDecls]
  | (m, e) :: rest => by
    simp only [insertByName]
    split
    · simp only [List.map_cons]; rw [renderDecls_cons d]; simp only [byteLen_append]; omega
    · split
      · exact Nat.le_refl _
      · simp only [List.map_cons]
        rw [renderDecls_cons, renderDecls_cons]
        have := byteLen_insertByName n d rest
        simp only [byteLen_append]; omega

end TsRs.Merge
