import TsRsVerif.Lemmas.DeComplete
/-!
# Instances of generic items

`Item.inst σ it` is the item with its type parameters replaced (`σ`) in every field type — what a use `Name<A, B>` of a generic
item stands for. Reading a value as `Name<A, B>` (the acceptance model) is reading it as the instance; the body of the instance
is the generic body with the names of the arguments substituted (`itemBody_inst`); the instance of an item of the fragment is in
the fragment. With these the completeness theorem for monomorphic items carries over to every use of a generic item.
-/
namespace TsRs
open Ts Tree Builtin De

def Field.inst (σ : List (Str × RTy)) (f : Field) : Field := { f with ty := RTy.subst σ f.ty }
def Variant.inst (σ : List (Str × RTy)) (v : Variant) : Variant := { v with fields := v.fields.map (Field.inst σ) }
def Item.inst (σ : List (Str × RTy)) (it : Item) : Item :=
  { it with generics := [], fields := it.fields.map (Field.inst σ), variants := it.variants.map (Variant.inst σ) }

section
variable {σ : List (Str × RTy)}
@[simp] theorem Field.inst_attr (f : Field) : (Field.inst σ f).attr = f.attr := rfl
@[simp] theorem Field.inst_name (f : Field) : (Field.inst σ f).name = f.name := rfl
@[simp] theorem Field.inst_ty (f : Field) : (Field.inst σ f).ty = RTy.subst σ f.ty := rfl
@[simp] theorem Variant.inst_attr (v : Variant) : (Variant.inst σ v).attr = v.attr := rfl
@[simp] theorem Variant.inst_name (v : Variant) : (Variant.inst σ v).name = v.name := rfl
@[simp] theorem Variant.inst_shape (v : Variant) : (Variant.inst σ v).shape = v.shape := rfl
@[simp] theorem Variant.inst_fields (v : Variant) : (Variant.inst σ v).fields = v.fields.map (Field.inst σ) := rfl
@[simp] theorem Item.inst_attr (it : Item) : (Item.inst σ it).attr = it.attr := rfl
@[simp] theorem Item.inst_name (it : Item) : (Item.inst σ it).name = it.name := rfl
@[simp] theorem Item.inst_isEnum (it : Item) : (Item.inst σ it).isEnum = it.isEnum := rfl
@[simp] theorem Item.inst_shape (it : Item) : (Item.inst σ it).shape = it.shape := rfl
@[simp] theorem Item.inst_generics (it : Item) : (Item.inst σ it).generics = [] := rfl
@[simp] theorem Item.inst_fields (it : Item) : (Item.inst σ it).fields = it.fields.map (Field.inst σ) := rfl
@[simp] theorem Item.inst_variants (it : Item) : (Item.inst σ it).variants = it.variants.map (Variant.inst σ) := rfl

@[simp] theorem serdeFieldKey_inst (cfg : Cfg) (ra : Option Rule) (f : Field) : Serde.fieldKey cfg ra (Field.inst σ f) = Serde.fieldKey cfg ra f := rfl
@[simp] theorem treeFieldKey_inst (cfg : Cfg) (ra : Option Rule) (f : Field) : Tree.fieldKey cfg ra (Field.inst σ f) = Tree.fieldKey cfg ra f := rfl
@[simp] theorem missingOk_inst (t : RTy) (f : Field) : missingOk t (Field.inst σ f) = missingOk t f := rfl
@[simp] theorem variantKey_inst (cfg : Cfg) (ra : Option Rule) (v : Variant) : Serde.variantKey cfg ra (Variant.inst σ v) = Serde.variantKey cfg ra v := rfl
@[simp] theorem variantTsName_inst (cfg : Cfg) (ra : Option Rule) (v : Variant) :
    Derive.variantTsName cfg ra (Variant.inst σ v) = Derive.variantTsName cfg ra v := rfl
@[simp] theorem renameAllS_inst (it : Item) (v : Variant) : Serde.renameAllS (Item.inst σ it) (Variant.inst σ v) = Serde.renameAllS it v := rfl
@[simp] theorem renameAllT_inst (it : Item) (v : Variant) : Tree.renameAllT (Item.inst σ it) (Variant.inst σ v) = Tree.renameAllT it v := rfl
@[simp] theorem tsName_inst (it : Item) : Derive.tsName (Item.inst σ it) = Derive.tsName it := rfl

@[simp] theorem unitLike_inst (v : Variant) : (Variant.inst σ v).unitLike = v.unitLike := by
  unfold Variant.unitLike
  simp only [Variant.inst_shape, Variant.inst_fields]
  match v.fields with
  | [] => rfl
  | [_] => rfl
  | _ :: _ :: _ => rfl
end

/-! ### reading a value as `Name<args>` is reading it as the instance -/

theorem accNamed_inst (cfg : Cfg) (env : Env) (σ : List (Str × RTy)) (ra : Option Rule) (kvs : List (Str × JVal)) :
    ∀ (f : Nat) (fields : List Field), accNamed cfg env f σ ra fields kvs = accNamed cfg env f [] ra (fields.map (Field.inst σ)) kvs
  | 0, _ => by simp [accNamed]
  | _ + 1, [] => by simp [accNamed]
  | f + 1, fld :: fs => by
    simp only [accNamed, List.map_cons, Field.inst_attr, Field.inst_ty, serdeFieldKey_inst, missingOk_inst, rsubst_nil,
      accNamed_inst cfg env σ ra kvs f fs]

theorem accTuple_inst (cfg : Cfg) (env : Env) (σ : List (Str × RTy)) :
    ∀ (f : Nat) (fields : List Field) (js : List JVal), accTuple cfg env f σ fields js = accTuple cfg env f [] (fields.map (Field.inst σ)) js
  | 0, _, _ => by simp [accTuple]
  | _ + 1, [], [] => by simp [accTuple]
  | _ + 1, [], _ :: _ => by simp [accTuple]
  | f + 1, fld :: fs, js => by
    simp only [accTuple, List.map_cons, Field.inst_attr, Field.inst_ty, rsubst_nil, accTuple_inst cfg env σ f fs]

theorem accBody_inst (cfg : Cfg) (env : Env) (σ : List (Str × RTy)) (ra : Option Rule) (tag : Option Str) (shape : Shape) (fields : List Field) (j : JVal) :
    ∀ (f : Nat), accBody cfg env f σ ra tag shape fields j = accBody cfg env f [] ra tag shape (fields.map (Field.inst σ)) j
  | 0 => by simp [accBody]
  | f + 1 => by
    cases shape with
    | unit => simp [accBody]
    | named =>
      cases j <;> simp only [accBody]
      exact accNamed_inst cfg env σ ra _ f fields
    | tuple =>
      match fields with
      | [] => cases j <;> simp only [accBody, List.map_nil]; exact accTuple_inst cfg env σ f [] _
      | [fld] => simp only [accBody, List.map_cons, List.map_nil, Field.inst_ty, rsubst_nil]
      | a :: b :: rest =>
        cases j <;> simp only [accBody, List.map_cons]
        exact accTuple_inst cfg env σ f (a :: b :: rest) _

theorem accVariantContent_inst (cfg : Cfg) (env : Env) (σ : List (Str × RTy)) (it : Item) (var : Variant) (content : Option JVal) :
    ∀ (f : Nat), accVariantContent cfg env f it σ var content = accVariantContent cfg env f (Item.inst σ it) [] (Variant.inst σ var) content
  | 0 => by simp [accVariantContent]
  | f + 1 => by
    simp only [accVariantContent, unitLike_inst, renameAllS_inst, Variant.inst_shape, Variant.inst_fields]
    cases content with
    | none => rfl
    | some c => simp only [accBody_inst cfg env σ _ none var.shape var.fields c f]

theorem filter_inst (σ : List (Str × RTy)) (p : VariantAttr → Bool) (vs : List Variant) :
    (vs.map (Variant.inst σ)).filter (fun v => p v.attr) = (vs.filter (fun v => p v.attr)).map (Variant.inst σ) := by
  induction vs with
  | nil => rfl
  | cons v vs ih =>
    simp only [List.map_cons, List.filter_cons, Variant.inst_attr, ih]
    split <;> simp

theorem find_inst (σ : List (Str × RTy)) (cfg : Cfg) (ra : Option Rule) (n : Str) (vs : List Variant) :
    (vs.map (Variant.inst σ)).find? (fun v => Serde.variantKey cfg ra v = n) = (vs.find? (fun v => Serde.variantKey cfg ra v = n)).map (Variant.inst σ) := by
  induction vs with
  | nil => rfl
  | cons v vs ih =>
    by_cases h : Serde.variantKey cfg ra v = n
    · simp [List.find?_cons, h]
    · simp [List.find?_cons, h, ih]

theorem accEnum_inst (cfg : Cfg) (env : Env) (σ : List (Str × RTy)) (it : Item) (j : JVal) :
    ∀ (f : Nat), accEnum cfg env f it σ j = accEnum cfg env f (Item.inst σ it) [] j
  | 0 => by simp [accEnum]
  | f + 1 => by
    have hl := filter_inst σ (fun a => !a.skip) it.variants
    have hu := fun vs => filter_inst σ (fun a => a.untagged || it.attr.untagged) vs
    have ht := fun vs => filter_inst σ (fun a => !(a.untagged || it.attr.untagged)) vs
    simp only [accEnum]
    dsimp +instances only [Item.inst_variants, Item.inst_attr]
    simp only [hl, hu, ht, find_inst, List.foldl_map, unitLike_inst,
      ← accVariantContent_inst cfg env σ it _ _ f]
    congr 1
    cases Derive.tagged it.attr with
    | untagged => rfl
    | externally =>
      simp only
      split
      · split <;> rename_i h <;> simp only [h, Option.map_some, Option.map_none, unitLike_inst]
      · split <;> rename_i h <;> simp only [h, Option.map_some, Option.map_none, ← accVariantContent_inst cfg env σ it _ _ f]
      · rfl
    | adjacently t c =>
      simp only
      split
      · split
        · split <;> rename_i h <;> simp only [h, Option.map_some, Option.map_none, ← accVariantContent_inst cfg env σ it _ _ f]
        · rfl
      · rfl
    | internally t =>
      simp only
      split
      · rename_i kvs
        split
        · split
          · rename_i var h
            simp only [h, Option.map_some, unitLike_inst, Variant.inst_shape, Variant.inst_fields, renameAllS_inst,
              ← accNamed_inst cfg env σ _ kvs f var.fields]
            match var.fields with
            | [] => rfl
            | [fld] => simp [rsubst_nil]
            | _ :: _ :: _ => rfl
          · rename_i h
            simp only [h, Option.map_none]
        · rfl
      · rfl

/-! ### the body of the instance is the generic body with the argument names substituted -/

theorem isOption_subst (σ : List (Str × RTy)) (t : RTy) (h : isParam t = false) : Derive.isOption (RTy.subst σ t) = Derive.isOption t := by
  cases t <;> simp [RTy.subst, Derive.isOption, isParam] at h ⊢

theorem optionInner_subst (σ : List (Str × RTy)) (t : RTy) (h : isParam t = false) :
    Derive.optionInner (RTy.subst σ t) = RTy.subst σ (Derive.optionInner t) := by
  cases t <;> simp [RTy.subst, Derive.optionInner, isParam] at h ⊢

theorem optMode_inst (σ : List (Str × RTy)) (of : Opt) (f : Field)
    (h1 : (optMode of f).1 = false ∨ Derive.isOption f.ty = true) (h2 : of = .no ∨ isParam f.ty = false) :
    optMode of (Field.inst σ f) = optMode of f := by
  unfold optMode
  simp only [Field.inst_attr, Field.inst_ty]
  rcases h2 with rfl | h2
  · cases f.attr.optional <;> rfl
  · rw [isOption_subst σ f.ty h2]

theorem notParam_of (of : Opt) (f : Field) (ho : (optMode of f).1 = false ∨ Derive.isOption f.ty = true)
    (hp : of = .no ∨ isParam f.ty = false) (h2 : (optMode of f).2 = false) : isParam f.ty = false := by
  rcases hp with rfl | hp
  · unfold optMode at h2 ho
    cases hopt : f.attr.optional <;> simp [hopt] at h2 ho
    cases hty : f.ty <;> simp [hty, Derive.isOption, isParam] at ho ⊢
  · exact hp

theorem substList_isEmpty (σ : List (Str × Ts)) (xs : List Ts) : (Ts.substList σ xs).isEmpty = xs.isEmpty := by
  cases xs <;> rfl

section
variable (cfg : Cfg) (env : Env) (names : List Str) (args : List RTy) (targs : List Ts)
  (hargs : nameTyBL cfg.limit (nameN env) args = some targs)
include hargs

theorem tyTs_inst (t : RTy) (T : Ts) (h : tyTs cfg env t = some T) :
    tyTs cfg env (RTy.subst (names.zip args) t) = some (Ts.subst (names.zip targs) T) :=
  name_subst cfg.limit (nameN env) (nameN_commutes env) names args targs hargs t T h

theorem fieldsTs_inst (ra : Option Rule) (of : Opt) : ∀ (fields : List Field) (fs : List (TsKey × Ts)),
    fieldsTs cfg env ra of fields = some fs → fields.all (fieldOkN cfg ra of) = true →
    fieldsTs cfg env ra of (fields.map (Field.inst (names.zip args))) = some (Ts.substFields (names.zip targs) fs)
  | [], fs, h, _ => by
    simp only [fieldsTs, Option.some.injEq] at h
    subst h
    simp [fieldsTs, Ts.substFields]
  | f :: rest, fs, h, hok => by
    simp only [List.all_cons, Bool.and_eq_true] at hok
    simp only [fieldsTs, bind, Option.bind] at h
    cases hr : fieldsTs cfg env ra of rest with
    | none => simp [hr] at h
    | some rs =>
      have ih := fieldsTs_inst ra of rest rs hr hok.2
      simp only [hr] at h
      by_cases hsk : f.attr.skip = true
      · simp only [hsk, if_true, pure, Option.some.injEq] at h
        subst h
        simp [fieldsTs, ih, hsk]
      · have hsk' : f.attr.skip = false := by simpa using hsk
        simp only [hsk', Bool.false_eq_true, if_false] at h
        have hf := hok.1
        simp only [fieldOkN, hsk', Bool.false_or, Bool.and_eq_true, Bool.or_eq_true, Bool.not_eq_true', beq_iff_eq] at hf
        obtain ⟨_, ⟨⟨⟨_, _⟩, h3⟩, _⟩, h5⟩ := hf
        have hp : of = .no ∨ isParam f.ty = false := h5
        have ho : (optMode of f).1 = false ∨ Derive.isOption f.ty = true := h3
        have hm := optMode_inst (names.zip args) of f ho hp
        cases ht : tyTs cfg env (if (optMode of f).2 then f.ty else Derive.optionInner f.ty) with
        | none => simp [ht] at h
        | some T =>
          simp only [ht, pure, Option.some.injEq] at h
          subst h
          have ht' := tyTs_inst cfg env names args targs hargs _ T ht
          have harg : (if (optMode of f).2 = true then RTy.subst (names.zip args) f.ty else Derive.optionInner (RTy.subst (names.zip args) f.ty))
              = RTy.subst (names.zip args) (if (optMode of f).2 = true then f.ty else Derive.optionInner f.ty) := by
            by_cases h2 : (optMode of f).2 = true
            · simp [h2]
            · have h2' : (optMode of f).2 = false := by simpa using h2
              simp only [h2', Bool.false_eq_true, if_false]
              exact optionInner_subst _ _ (notParam_of of f ho hp h2')
          simp only [fieldsTs, List.map_cons, ih, Field.inst_attr, hsk', Bool.false_eq_true, if_false, hm, Field.inst_ty, harg, ht',
            treeFieldKey_inst, bind, Option.bind, pure, Ts.substFields]

theorem tupleTs_inst : ∀ (fields : List Field) (Xs : List Ts), tupleTs cfg env fields = some Xs →
    tupleTs cfg env (fields.map (Field.inst (names.zip args))) = some (Ts.substList (names.zip targs) Xs)
  | [], Xs, h => by
    simp only [tupleTs, Option.some.injEq] at h
    subst h
    simp [tupleTs, Ts.substList]
  | f :: rest, Xs, h => by
    simp only [tupleTs, bind, Option.bind] at h
    cases hr : tupleTs cfg env rest with
    | none => simp [hr] at h
    | some rs =>
      have ih := tupleTs_inst rest rs hr
      simp only [hr] at h
      by_cases hsk : f.attr.skip = true
      · simp only [hsk, if_true, pure, Option.some.injEq] at h
        subst h
        simp [tupleTs, ih, hsk]
      · have hsk' : f.attr.skip = false := by simpa using hsk
        simp only [hsk', Bool.false_eq_true, if_false] at h
        cases ht : tyTs cfg env f.ty with
        | none => simp [ht] at h
        | some T =>
          simp only [ht, pure, Option.some.injEq] at h
          subst h
          have ht' := tyTs_inst cfg env names args targs hargs _ T ht
          simp only [tupleTs, List.map_cons, ih, Field.inst_attr, hsk', Bool.false_eq_true, if_false, Field.inst_ty, ht',
            bind, Option.bind, pure, Ts.substList]

theorem structBody_inst (ra : Option Rule) (of : Opt) (tag : Option (Str × Str)) (shape : Shape) (fields : List Field) (B : Ts)
    (h : structBody cfg env ra of tag shape fields = some B) (hok : shape = .named → fields.all (fieldOkN cfg ra of) = true) :
    structBody cfg env ra of tag shape (fields.map (Field.inst (names.zip args))) = some (Ts.subst (names.zip targs) B) := by
  cases shape with
  | unit =>
    simp only [structBody, Option.some.injEq] at h
    subst h
    simp [structBody, Ts.subst]
  | named =>
    simp only [structBody] at h ⊢
    by_cases he : (fields.isEmpty && tag.isNone) = true
    · simp only [he, if_true, Option.some.injEq] at h
      subst h
      simp only [Bool.and_eq_true] at he
      simp [he.1, he.2, Ts.subst, List.isEmpty_iff.mp he.1]
    · have he' : ((fields.map (Field.inst (names.zip args))).isEmpty && tag.isNone) = false := by
        have : (fields.map (Field.inst (names.zip args))).isEmpty = fields.isEmpty := by cases fields <;> rfl
        rw [this]; exact Bool.eq_false_iff.mpr he
      simp only [he, Bool.false_eq_true, if_false, bind, Option.bind] at h
      simp only [he', Bool.false_eq_true, if_false, bind, Option.bind]
      cases hfs : fieldsTs cfg env ra of fields with
      | none => simp [hfs] at h
      | some fs =>
        simp only [hfs, pure, Option.some.injEq] at h
        subst h
        rw [fieldsTs_inst cfg env names args targs hargs ra of fields fs hfs (hok rfl)]
        cases tag with
        | none => simp [Ts.subst, pure]
        | some tn => simp [Ts.subst, Ts.substFields, pure]
  | tuple =>
    match fields, h with
    | [], h =>
      simp only [structBody, Option.some.injEq] at h
      subst h
      simp [structBody, Ts.subst]
    | [f], h =>
      simp only [structBody] at h
      simp only [structBody, List.map_cons, List.map_nil, Field.inst_attr, Field.inst_ty]
      by_cases hsk : f.attr.skip = true
      · simp only [hsk, if_true, Option.some.injEq] at h
        subst h
        simp [hsk, Ts.subst]
      · simp only [hsk, if_false] at h
        simp only [hsk, if_false]
        exact tyTs_inst cfg env names args targs hargs _ B h
    | a :: b :: rest, h =>
      simp only [structBody] at h
      obtain ⟨Xs, hXs, hB⟩ := some_map_inj h
      subst hB
      have := tupleTs_inst cfg env names args targs hargs (a :: b :: rest) Xs hXs
      simp only [List.map_cons] at this
      simp [structBody, this, Ts.subst]

theorem variantTs_inst (it : Item) (var : Variant) (A : Ts) (h : variantTs cfg env it var = some A)
    (hok : var.shape = .named → var.fields.all (fieldOkN cfg (renameAllT it var) .no) = true) :
    variantTs cfg env (Item.inst (names.zip args) it) (Variant.inst (names.zip args) var) = some (Ts.subst (names.zip targs) A) := by
  have sb := fun tag B hB => structBody_inst cfg env names args targs hargs (renameAllT it var) .no tag var.shape var.fields B hB hok
  unfold variantTs at h ⊢
  dsimp +instances only [Variant.inst_attr, Item.inst_attr]
  simp only [variantTsName_inst, renameAllT_inst, Variant.inst_attr, Item.inst_attr, unitLike_inst, Variant.inst_shape, Variant.inst_fields]
  simp only at h
  cases htg : (if var.attr.untagged = true then Derive.Tagged.untagged else Derive.tagged it.attr) with
  | untagged =>
    simp only [htg] at h ⊢
    exact sb none A h
  | externally =>
    simp only [htg] at h ⊢
    by_cases hu : var.unitLike = true
    · simp only [hu, if_true, Option.some.injEq] at h ⊢
      subst h; simp [Ts.subst]
    · simp only [hu, Bool.false_eq_true, if_false] at h ⊢
      obtain ⟨B, hB, hA⟩ := some_map_inj h
      subst hA
      simp [sb none B hB, Ts.subst, Ts.substFields]
  | adjacently t c =>
    simp only [htg] at h ⊢
    by_cases hu : var.unitLike = true
    · simp only [hu, if_true, Option.some.injEq] at h ⊢
      subst h; simp [Ts.subst, Ts.substFields]
    · simp only [hu, Bool.false_eq_true, if_false] at h ⊢
      obtain ⟨B, hB, hA⟩ := some_map_inj h
      subst hA
      simp [sb none B hB, Ts.subst, Ts.substFields]
  | internally t =>
    simp only [htg] at h ⊢
    by_cases hu : var.unitLike = true
    · simp only [hu, if_true, Option.some.injEq] at h ⊢
      subst h; simp [Ts.subst, Ts.substFields]
    · simp only [hu, Bool.false_eq_true, if_false] at h ⊢
      cases hs : var.shape with
      | named =>
        simp only [hs] at h ⊢
        have := sb (some (t, Derive.variantTsName cfg it.attr.renameAll var)) A (by rw [hs]; exact h)
        rw [hs] at this; exact this
      | tuple => simp [hs] at h
      | unit => simp [hs] at h

theorem variantsTs_inst (it : Item) : ∀ (vs : List Variant) (arms : List Ts), variantsTs cfg env it vs = some arms →
    (∀ v ∈ vs, v.shape = .named → v.fields.all (fieldOkN cfg (renameAllT it v) .no) = true) →
    variantsTs cfg env (Item.inst (names.zip args) it) (vs.map (Variant.inst (names.zip args))) = some (Ts.substList (names.zip targs) arms)
  | [], arms, h, _ => by
    simp only [variantsTs, Option.some.injEq] at h
    subst h
    simp [variantsTs, Ts.substList]
  | v :: rest, arms, h, hok => by
    simp only [variantsTs, bind, Option.bind] at h
    cases hr : variantsTs cfg env it rest with
    | none => simp [hr] at h
    | some rs =>
      have ih := variantsTs_inst it rest rs hr (fun v hv => hok v (List.mem_cons_of_mem _ hv))
      simp only [hr] at h
      by_cases hsk : v.attr.skip = true
      · simp only [hsk, if_true, pure, Option.some.injEq] at h
        subst h
        simp [variantsTs, ih, hsk]
      · have hsk' : v.attr.skip = false := by simpa using hsk
        simp only [hsk', Bool.false_eq_true, if_false] at h
        cases ht : variantTs cfg env it v with
        | none => simp [ht] at h
        | some A =>
          simp only [ht, pure, Option.some.injEq] at h
          subst h
          have ht' := variantTs_inst cfg env names args targs hargs it v A ht (hok v (List.mem_cons_self))
          simp only [variantsTs, List.map_cons, ih, Variant.inst_attr, hsk', Bool.false_eq_true, if_false, ht',
            bind, Option.bind, pure, Ts.substList]

theorem itemBody_inst (it : Item) (b : Ts) (h : itemBody cfg env it = some b)
    (hS : it.isEnum = false → it.shape = .named → it.fields.all (fieldOkN cfg it.attr.renameAll it.attr.optionalFields) = true)
    (hE : it.isEnum = true → ∀ v ∈ it.variants, v.shape = .named → v.fields.all (fieldOkN cfg (renameAllT it v) .no) = true) :
    itemBody cfg env (Item.inst (names.zip args) it) = some (Ts.subst (names.zip targs) b) := by
  unfold itemBody at h ⊢
  dsimp +instances only [Item.inst_isEnum, Item.inst_variants, Item.inst_attr, Item.inst_shape, Item.inst_fields]
  simp only [Item.inst_isEnum, Item.inst_variants, Item.inst_attr, Item.inst_shape, Item.inst_fields, tsName_inst]
  by_cases hen : it.isEnum = true
  · simp only [hen, if_true] at h ⊢
    have hemp : (it.variants.map (Variant.inst (names.zip args))).isEmpty = it.variants.isEmpty := by cases it.variants <;> rfl
    simp only [hemp]
    by_cases he : it.variants.isEmpty = true
    · simp only [he, if_true, Option.some.injEq] at h ⊢
      subst h; simp [Ts.subst]
    · simp only [he, Bool.false_eq_true, if_false, bind, Option.bind] at h ⊢
      cases harms : variantsTs cfg env it it.variants with
      | none => simp [harms] at h
      | some arms =>
        simp only [harms] at h
        rw [variantsTs_inst cfg env names args targs hargs it it.variants arms harms (hE hen)]
        have hse := substList_isEmpty (names.zip targs) arms
        by_cases hae : arms.isEmpty = true
        · simp only [hae, if_true, Option.some.injEq] at h
          subst h; simp [Ts.subst, hse, hae]
        · simp only [hae, Bool.false_eq_true, if_false, pure, Option.some.injEq] at h
          subst h
          rw [← hse] at hae
          simp only [hae, Bool.false_eq_true, if_false, pure, Ts.subst]
  · have hen' : it.isEnum = false := by simpa using hen
    simp only [hen', Bool.false_eq_true, if_false] at h ⊢
    exact structBody_inst cfg env names args targs hargs _ _ _ _ _ b h (hS hen')
end

/-! ### the instance of an item of the fragment is in the fragment -/

theorem isParam_subst (σ : List (Str × RTy)) (t : RTy) (h : isParam t = false) : isParam (RTy.subst σ t) = false := by
  cases t <;> simp [RTy.subst, isParam] at h ⊢

theorem isOption_subst_of (σ : List (Str × RTy)) (t : RTy) (h : Derive.isOption t = true) : Derive.isOption (RTy.subst σ t) = true := by
  cases t <;> simp [RTy.subst, Derive.isOption] at h ⊢

theorem fieldOkN_inst (σ : List (Str × RTy)) (cfg : Cfg) (ra : Option Rule) (of : Opt) (f : Field) (h : fieldOkN cfg ra of f = true) :
    fieldOkN cfg ra of (Field.inst σ f) = true := by
  by_cases hsk : f.attr.skip = true
  · simp only [fieldOkN, Field.inst_attr, hsk, Bool.true_or, Bool.and_true] at h ⊢
    exact h
  · have hsk' : f.attr.skip = false := by simpa using hsk
    have h' := h
    simp only [fieldOkN, hsk', Bool.false_or, Bool.and_eq_true, Bool.or_eq_true, Bool.not_eq_true', beq_iff_eq] at h
    obtain ⟨h0, ⟨⟨⟨h1, h2⟩, h3⟩, h4⟩, h5⟩ := h
    have hm := optMode_inst σ of f h3 h5
    simp only [fieldOkN, Field.inst_attr, hsk', Bool.false_or, Bool.and_eq_true, Bool.or_eq_true, Bool.not_eq_true', beq_iff_eq, hm,
      treeFieldKey_inst, serdeFieldKey_inst, Field.inst_ty]
    refine ⟨h0, ⟨⟨⟨h1, h2⟩, ?_⟩, h4⟩, ?_⟩
    · rcases h3 with h3 | h3
      · exact Or.inl h3
      · exact Or.inr (isOption_subst_of σ _ h3)
    · rcases h5 with h5 | h5
      · exact Or.inl h5
      · exact Or.inr (isParam_subst σ _ h5)

theorem fieldOk_inst (σ : List (Str × RTy)) (cfg : Cfg) (ra : Option Rule) (f : Field) : fieldOk cfg ra (Field.inst σ f) = fieldOk cfg ra f := rfl

theorem keysOf_inst (σ : List (Str × RTy)) (cfg : Cfg) (ra : Option Rule) (fields : List Field) :
    keysOf cfg ra (fields.map (Field.inst σ)) = keysOf cfg ra fields := by
  unfold keysOf
  induction fields with
  | nil => rfl
  | cons f fs ih =>
    simp only [List.map_cons, List.filter_cons, Field.inst_attr]
    by_cases hsk : f.attr.skip = true
    · simp only [hsk, Bool.not_true, Bool.false_eq_true, if_false]; exact ih
    · have : f.attr.skip = false := by simpa using hsk
      simp only [this, Bool.not_false, if_true, List.map_cons, serdeFieldKey_inst, ih]

theorem bodyOk_inst (σ : List (Str × RTy)) (cfg : Cfg) (ra : Option Rule) (of : Opt) (tag : Option Str) (shape : Shape) (fields : List Field)
    (h : bodyOk cfg ra of tag shape fields = true) : bodyOk cfg ra of tag shape (fields.map (Field.inst σ)) = true := by
  simp only [bodyOk, Bool.and_eq_true, keysOf_inst] at h ⊢
  refine ⟨?_, h.2⟩
  have h1 := h.1
  by_cases hs : (shape == Shape.named) = true
  · simp only [hs, if_true, List.all_map, List.all_eq_true, Function.comp] at h1 ⊢
    intro f hf; exact fieldOkN_inst σ cfg ra of f (h1 f hf)
  · simp only [hs, Bool.false_eq_true, if_false, List.all_map, List.all_eq_true, Function.comp] at h1 ⊢
    intro f hf; exact h1 f hf

theorem variantOk_inst (σ : List (Str × RTy)) (cfg : Cfg) (it : Item) (v : Variant) (h : variantOk cfg it v = true) :
    variantOk cfg (Item.inst σ it) (Variant.inst σ v) = true := by
  unfold variantOk at h ⊢
  dsimp +instances only [Variant.inst_attr, Item.inst_attr, Variant.inst_shape, Variant.inst_fields] at h ⊢
  simp only [variantTsName_inst, variantKey_inst, renameAllT_inst, renameAllS_inst, Bool.and_eq_true] at h ⊢
  refine ⟨h.1, h.2.1, ?_⟩
  have h3 := h.2.2
  cases htg : (if v.attr.untagged = true then Derive.Tagged.untagged else Derive.tagged it.attr) with
  | untagged =>
    simp only [htg] at h3 ⊢
    exact bodyOk_inst σ cfg _ _ _ _ _ h3
  | externally =>
    simp only [htg] at h3 ⊢
    exact bodyOk_inst σ cfg _ _ _ _ _ h3
  | adjacently t c =>
    simp only [htg, Bool.and_eq_true] at h3 ⊢
    exact ⟨h3.1, bodyOk_inst σ cfg _ _ _ _ _ h3.2⟩
  | internally t =>
    simp only [htg, Bool.and_eq_true] at h3 ⊢
    refine ⟨?_, bodyOk_inst σ cfg _ _ _ _ _ h3.2⟩
    have h31 := h3.1
    revert h31
    cases v.fields with
    | nil => exact id
    | cons a l => cases l <;> exact id

theorem zip_find_isSome : ∀ (names : List Str) (args : List RTy), names.length ≤ args.length → ∀ n ∈ names,
    ((names.zip args).find? (·.1 = n)).isSome = true
  | [], _, _, n, hn => by cases hn
  | x :: xs, [], hl, _, _ => by simp at hl
  | x :: xs, a :: as, hl, n, hn => by
    simp only [List.zip_cons_cons, List.find?_cons]
    by_cases hx : x = n
    · simp [hx]
    · have : n ∈ xs := by
        rcases List.mem_cons.mp hn with rfl | h
        · exact absurd rfl hx
        · exact h
      simp only [hx, decide_false]
      exact zip_find_isSome xs as (by simpa using hl) n this

theorem fieldTyOk_inst (cfg : Cfg) (names : List Str) (args : List RTy) (hlen : names.length ≤ args.length)
    (hargs : tyOkL cfg.limit args = true) (f : Field) (h : fieldTyOkP cfg names f = true) :
    fieldTyOk cfg (Field.inst (names.zip args) f) = true := by
  simp only [fieldTyOkP, fieldTyOk, Field.inst_attr, Field.inst_ty, Bool.or_eq_true] at h ⊢
  rcases h with h | h
  · exact Or.inl h
  · refine Or.inr (tyOk_subst cfg.limit _ ?_ names (zip_find_isSome names args hlen) f.ty h)
    intro p hp
    exact tyOkL_mem hargs p.2 (List.of_mem_zip hp).2

theorem fieldsTyOk_inst (cfg : Cfg) (names : List Str) (args : List RTy) (hlen : names.length ≤ args.length)
    (hargs : tyOkL cfg.limit args = true) (fields : List Field) (h : fields.all (fieldTyOkP cfg names) = true) :
    (fields.map (Field.inst (names.zip args))).all (fieldTyOk cfg) = true := by
  simp only [List.all_map, List.all_eq_true] at h ⊢
  intro f hf
  exact fieldTyOk_inst cfg names args hlen hargs f (h f hf)

end TsRs
