import TsRsVerif.Lemmas.UnfoldSound
import TsRsVerif.Model.TsNorm
/-! An executable test for `Unf` / `DeclsUnf` (run by the driver on the tree-level declarations of a program without its
`inline` flags against the parsed REAL declarations of the program with them), and its soundness. -/
namespace TsRs
open Ts

/-! ### structural equality is equality -/
mutual
theorem beq_eq : ∀ (a b : Ts), Ts.beq a b = true → a = b
  | .number, .number, _ => rfl | .bigint, .bigint, _ => rfl | .string, .string, _ => rfl | .boolean, .boolean, _ => rfl
  | .null, .null, _ => rfl | .never, .never, _ => rfl | .neverArray, .neverArray, _ => rfl | .emptyRecord, .emptyRecord, _ => rfl
  | .lit a, .lit b, h => by simp only [Ts.beq, beq_iff_eq] at h; rw [h]
  | .param a, .param b, h => by simp only [Ts.beq, beq_iff_eq] at h; rw [h]
  | .raw a, .raw b, h => by simp only [Ts.beq, beq_iff_eq] at h; rw [h]
  | .ref a as, .ref b bs, h => by
    simp only [Ts.beq, Bool.and_eq_true, beq_iff_eq] at h
    rw [h.1, beqL_eq as bs h.2]
  | .array a, .array b, h => by simp only [Ts.beq] at h; rw [beq_eq a b h]
  | .paren a, .paren b, h => by simp only [Ts.beq] at h; rw [beq_eq a b h]
  | .tuple a, .tuple b, h => by simp only [Ts.beq] at h; rw [beqL_eq a b h]
  | .union a, .union b, h => by simp only [Ts.beq] at h; rw [beqL_eq a b h]
  | .inter a, .inter b, h => by simp only [Ts.beq] at h; rw [beqL_eq a b h]
  | .obj a, .obj b, h => by simp only [Ts.beq] at h; rw [beqF_eq a b h]
  | .mapped a b, .mapped c d, h => by
    simp only [Ts.beq, Bool.and_eq_true] at h
    rw [beq_eq a c h.1, beq_eq b d h.2]
theorem beqL_eq : ∀ (a b : List Ts), Ts.beqL a b = true → a = b
  | [], [], _ => rfl
  | a :: as, b :: bs, h => by
    simp only [Ts.beqL, Bool.and_eq_true] at h
    rw [beq_eq a b h.1, beqL_eq as bs h.2]
theorem beqF_eq : ∀ (a b : List (TsKey × Ts)), Ts.beqF a b = true → a = b
  | [], [], _ => rfl
  | (k, a) :: as, (k', b) :: bs, h => by
    simp only [Ts.beqF, Bool.and_eq_true, beq_iff_eq] at h
    obtain ⟨⟨⟨h1, h2⟩, h3⟩, h4⟩ := h
    have hk : k = k' := by cases k; cases k'; simp_all
    rw [hk, beq_eq a b h3, beqF_eq as bs h4]
end

/-! ### the test -/

/-- unfold the head of `t` until it is a union -/
def headUnionB (D : Decls) : Nat → Ts → Option (List Ts)
  | 0, _ => none
  | f + 1, t =>
    match t with
    | .union xs => some xs
    | .ref n args =>
      match lookupDecl D n with
      | some (ps, b) => if ps.length = args.length then headUnionB D f (subst (ps.zip args) b) else none
      | none => none
    | _ => none

mutual
def unfB (D : Decls) : Nat → Ts → Ts → Bool
  | 0, _, _ => false
  | f + 1, t, t' =>
    congB D f t t'
    || (match t' with | .paren x => congB D f t x | _ => false)
    || (match t with
        | .ref n args =>
          match lookupDecl D n with
          | some (ps, b) => ps.length = args.length && unfB D f (subst (ps.zip args) b) t'
          | none => false
        | .union [x] => unfB D f x t'
        | _ => false)
def congB (D : Decls) : Nat → Ts → Ts → Bool
  | 0, _, _ => false
  | f + 1, t, t' =>
    match t, t' with
    | .ref n a, .ref n' a' => n == n' && Ts.beqL a a'
    | .array a, .array b => unfB D f a b
    | .tuple a, .tuple b => unfLB D f a b
    | .obj a, .obj b => unfFB D f a b
    | .mapped k v, .mapped k' v' => unfB D f k k' && unfB D f v v'
    | .union a, .union b => armsB D f a b
    | .inter a, .inter b => unfLB D f a b
    | .paren a, .paren b => unfB D f a b
    | a, b => isLeaf a && Ts.beq a b
def unfLB (D : Decls) : Nat → List Ts → List Ts → Bool
  | 0, _, _ => false
  | _ + 1, [], [] => true
  | f + 1, a :: as, b :: bs => unfB D f a b && unfLB D f as bs
  | _ + 1, _, _ => false
def unfFB (D : Decls) : Nat → List (TsKey × Ts) → List (TsKey × Ts) → Bool
  | 0, _, _ => false
  | _ + 1, [], [] => true
  | f + 1, (k, a) :: as, (k', b) :: bs => k.name == k'.name && k.optional == k'.optional && unfB D f a b && unfFB D f as bs
  | _ + 1, _, _ => false
def armsB (D : Decls) : Nat → List Ts → List Ts → Bool
  | 0, _, _ => false
  | _ + 1, [], out => out.isEmpty
  | f + 1, t :: ts, out =>
    (match out with
     | o :: out' => unfB D f t o && armsB D f ts out'
     | [] => false)
    || (match headUnionB D f t with
        | some xs => (List.range (out.length + 1)).any fun k => armsB D f xs (out.take k) && armsB D f ts (out.drop k)
        | none => false)
end

theorem headUnionB_sound (D : Decls) : ∀ (f : Nat) (t : Ts) (xs : List Ts), headUnionB D f t = some xs → HeadUnf D t (.union xs)
  | 0, _, _, h => by simp [headUnionB] at h
  | f + 1, t, xs, h => by
    cases t with
    | union ys => simp only [headUnionB, Option.some.injEq] at h; subst h; exact .refl _
    | ref n args =>
      simp only [headUnionB] at h
      cases hl : lookupDecl D n with
      | none => simp [hl] at h
      | some pb =>
        obtain ⟨ps, b⟩ := pb
        simp only [hl] at h
        by_cases hlen : ps.length = args.length
        · simp only [hlen, if_true] at h
          exact .step hl hlen (headUnionB_sound D f _ xs h)
        · simp [hlen] at h
    | _ => simp [headUnionB] at h

mutual
theorem unfB_sound (D : Decls) : ∀ (f : Nat) (t t' : Ts), unfB D f t t' = true → Unf D t t'
  | 0, _, _, h => by simp [unfB] at h
  | f + 1, t, t', h => by
    simp only [unfB, Bool.or_eq_true] at h
    rcases h with (h | h) | h
    · exact .mk (.refl _) (.plain (congB_sound D f t t' h))
    · cases t' with
      | paren x => exact .mk (.refl _) (.paren (congB_sound D f t x h))
      | _ => simp at h
    · cases t with
      | ref n args =>
        simp only at h
        cases hl : lookupDecl D n with
        | none => simp [hl] at h
        | some pb =>
          obtain ⟨ps, b⟩ := pb
          simp only [hl, Bool.and_eq_true, decide_eq_true_eq] at h
          cases unfB_sound D f _ t' h.2 with
          | mk hh p => exact .mk (.step hl h.1 hh) p
      | union xs =>
        cases xs with
        | nil => simp at h
        | cons x rest =>
          cases rest with
          | nil =>
            simp only at h
            cases unfB_sound D f x t' h with
            | mk hh p => exact .mk (.single hh) p
          | cons _ _ => simp at h
      | _ => simp at h
theorem congB_sound (D : Decls) : ∀ (f : Nat) (t t' : Ts), congB D f t t' = true → UnfC D t t'
  | 0, _, _, h => by simp [congB] at h
  | f + 1, t, t', h => by
    unfold congB at h
    split at h
    · simp only [Bool.and_eq_true, beq_iff_eq] at h
      rw [h.1, beqL_eq _ _ h.2]; exact .refSame _ _
    · exact .array (unfB_sound D f _ _ h)
    · exact .tuple (unfLB_sound D f _ _ h)
    · exact .obj (unfFB_sound D f _ _ h)
    · simp only [Bool.and_eq_true] at h
      exact .mapped (unfB_sound D f _ _ h.1) (unfB_sound D f _ _ h.2)
    · exact .union (armsB_sound D f _ _ h)
    · exact .inter (unfLB_sound D f _ _ h)
    · exact .parenC (unfB_sound D f _ _ h)
    · simp only [Bool.and_eq_true] at h
      rw [← beq_eq _ _ h.2]; exact .leaf h.1
theorem unfLB_sound (D : Decls) : ∀ (f : Nat) (a b : List Ts), unfLB D f a b = true → UnfL D a b
  | 0, _, _, h => by simp [unfLB] at h
  | _ + 1, [], [], _ => .nil
  | f + 1, a :: as, b :: bs, h => by
    simp only [unfLB, Bool.and_eq_true] at h
    exact .cons (unfB_sound D f a b h.1) (unfLB_sound D f as bs h.2)
  | _ + 1, [], _ :: _, h => by simp [unfLB] at h
  | _ + 1, _ :: _, [], h => by simp [unfLB] at h
theorem unfFB_sound (D : Decls) : ∀ (f : Nat) (a b : List (TsKey × Ts)), unfFB D f a b = true → UnfF D a b
  | 0, _, _, h => by simp [unfFB] at h
  | _ + 1, [], [], _ => .nil
  | f + 1, (k, a) :: as, (k', b) :: bs, h => by
    simp only [unfFB, Bool.and_eq_true, beq_iff_eq] at h
    obtain ⟨⟨⟨h1, h2⟩, h3⟩, h4⟩ := h
    have hk : k = k' := by cases k; cases k'; simp_all
    subst hk
    exact .cons (unfB_sound D f a b h3) (unfFB_sound D f as bs h4)
  | _ + 1, [], _ :: _, h => by simp [unfFB] at h
  | _ + 1, _ :: _, [], h => by simp [unfFB] at h
theorem armsB_sound (D : Decls) : ∀ (f : Nat) (ts out : List Ts), armsB D f ts out = true → UnfArms D ts out
  | 0, _, _, h => by simp [armsB] at h
  | _ + 1, [], out, h => by
    simp only [armsB, List.isEmpty_iff] at h
    subst h; exact .nil
  | f + 1, t :: ts, out, h => by
    simp only [armsB, Bool.or_eq_true] at h
    rcases h with h | h
    · cases out with
      | nil => simp at h
      | cons o out' =>
        simp only [Bool.and_eq_true] at h
        exact .one (unfB_sound D f t o h.1) (armsB_sound D f ts out' h.2)
    · cases hu : headUnionB D f t with
      | none => simp [hu] at h
      | some xs =>
        simp only [hu, List.any_eq_true, Bool.and_eq_true] at h
        obtain ⟨k, _, h2, h3⟩ := h
        have e : out = out.take k ++ out.drop k := (List.take_append_drop _ _).symm
        rw [e]
        exact .splice (headUnionB_sound D f t xs hu) (armsB_sound D f _ _ h2) (armsB_sound D f ts _ h3)
end

/-! ### whole sets of declarations -/

def declsUnfB (D : Decls) (fuel : Nat) : Decls → Decls → Bool
  | [], [] => true
  | (n, ps, b) :: r, (n', ps', b') :: r' => n == n' && ps == ps' && unfB D fuel b b' && declsUnfB D fuel r r'
  | _, _ => false

theorem declsUnfB_lookup (D : Decls) (fuel : Nat) : ∀ (E E' : Decls), declsUnfB D fuel E E' = true →
    (∀ n ps b, lookupDecl E n = some (ps, b) → ∃ b', lookupDecl E' n = some (ps, b') ∧ Unf D b b') ∧
    (∀ n ps b', lookupDecl E' n = some (ps, b') → ∃ b, lookupDecl E n = some (ps, b) ∧ Unf D b b')
  | [], [], _ => by simp [lookupDecl]
  | (n0, ps0, b0) :: r, (n0', ps0', b0') :: r', h => by
    simp only [declsUnfB, Bool.and_eq_true, beq_iff_eq] at h
    obtain ⟨⟨⟨hn, hp⟩, hb⟩, hr⟩ := h
    subst hn; subst hp
    have ih := declsUnfB_lookup D fuel r r' hr
    constructor
    · intro n ps b hl
      unfold lookupDecl at hl ⊢
      simp only [List.find?] at hl ⊢
      by_cases e : n0 = n
      · simp only [e, decide_true, Option.map_some, Option.some.injEq, Prod.mk.injEq] at hl ⊢
        obtain ⟨rfl, rfl⟩ := hl
        exact ⟨b0', ⟨rfl, rfl⟩, unfB_sound D fuel _ _ hb⟩
      · simp only [e, decide_false] at hl ⊢
        exact ih.1 n ps b hl
    · intro n ps b' hl
      unfold lookupDecl at hl ⊢
      simp only [List.find?] at hl ⊢
      by_cases e : n0 = n
      · simp only [e, decide_true, Option.map_some, Option.some.injEq, Prod.mk.injEq] at hl ⊢
        obtain ⟨rfl, rfl⟩ := hl
        exact ⟨b0, ⟨rfl, rfl⟩, unfB_sound D fuel _ _ hb⟩
      · simp only [e, decide_false] at hl ⊢
        exact ih.2 n ps b' hl
  | [], _ :: _, h => by simp [declsUnfB] at h
  | _ :: _, [], h => by simp [declsUnfB] at h

/-- **the executable test is sound**: when it accepts, `D'` is an unfolding of `D` -/
theorem declsUnfB_sound (D D' : Decls) (fuel : Nat) (h : declsUnfB D fuel D D' = true) : DeclsUnf D D' :=
  ⟨(declsUnfB_lookup D fuel D D' h).1, (declsUnfB_lookup D fuel D D' h).2⟩

def wsdB (D : Decls) : Bool := D.all fun e => closedIn e.2.1 e.2.2

theorem wsdB_sound (D : Decls) (h : wsdB D = true) : WSD D := by
  intro e he
  exact (List.all_eq_true.mp h) e he

end TsRs
