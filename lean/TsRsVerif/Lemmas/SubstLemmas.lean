import TsRsVerif.Model.TreeDerive
/-! Substituting type arguments commutes with taking the TypeScript name of a type:
    `name(t[σ]) = name(t)[σ']` where `σ'` holds the names of the arguments of `σ`. -/
namespace TsRs
open Text Ts Builtin

theorem tsOfPrimName_closed (n : String) (T : Ts) (σ : List (Str × Ts)) (h : tsOfPrimName n = some T) : Ts.subst σ T = T := by
  unfold tsOfPrimName at h
  split at h <;> first | (simp only [Option.some.injEq] at h; subst h; simp [Ts.subst]) | cases h

theorem primTs_closed (r : String) (T : Ts) (σ : List (Str × Ts)) (h : primTs r = some T) : Ts.subst σ T = T := by
  unfold primTs at h
  cases hn : primTsName r with
  | none => simp [hn] at h
  | some n => simp only [hn, Option.bind_some] at h; exact tsOfPrimName_closed n T σ h

theorem substList_replicate (σ : List (Str × Ts)) (x : Ts) : ∀ n, Ts.substList σ (List.replicate n x) = List.replicate n (Ts.subst σ x)
  | 0 => by simp [Ts.substList]
  | n + 1 => by simp [List.replicate_succ, Ts.substList, substList_replicate σ x n]

/-- looking a parameter up in the two zipped substitutions -/
theorem zip_lookup (limit : Nat) (nameN : Str → List Ts → Option Ts) (n : Str) :
    ∀ (names : List Str) (args : List RTy) (targs : List Ts), nameTyBL limit nameN args = some targs →
    (match ((names.zip args).find? (·.1 = n)).map (·.2) with
     | some a => ∃ ta, nameTyB limit nameN a = some ta ∧ lookupSub (names.zip targs) n = some ta
     | none => lookupSub (names.zip targs) n = none)
  | [], _, _, _ => by simp [lookupSub]
  | _ :: _, [], targs, h => by
    simp only [nameTyBL, Option.some.injEq] at h
    subst h
    simp [lookupSub]
  | nm :: names, a :: args, targs, h => by
    simp only [nameTyBL, bind, Option.bind] at h
    cases ha : nameTyB limit nameN a with
    | none => simp [ha] at h
    | some ta =>
      cases hr : nameTyBL limit nameN args with
      | none => simp [ha, hr] at h
      | some tr =>
        simp only [ha, hr, pure, Option.some.injEq] at h
        subst h
        by_cases hn : nm = n
        · subst hn
          simp [List.zip_cons_cons, List.find?_cons, lookupSub, ha]
        · have ih := zip_lookup limit nameN n names args tr hr
          simp only [List.zip_cons_cons, List.find?_cons, hn, decide_false, lookupSub] at ih ⊢
          exact ih

/-- the callback for user types commutes with substitution (true of `Tree.nameN`: a reference to the
declaration, applied to the arguments) -/
def NCommutes (nameN : Str → List Ts → Option Ts) : Prop :=
  ∀ id xs T σ, nameN id xs = some T → nameN id (Ts.substList σ xs) = some (Ts.subst σ T)

mutual
/-- **names commute with substitution** -/
theorem name_subst (limit : Nat) (nameN : Str → List Ts → Option Ts) (hN : NCommutes nameN)
    (names : List Str) (args : List RTy) (targs : List Ts) (hargs : nameTyBL limit nameN args = some targs) :
    ∀ (t : RTy) (T : Ts), nameTyB limit nameN t = some T →
      nameTyB limit nameN (RTy.subst (names.zip args) t) = some (Ts.subst (names.zip targs) T)
  | .prim r, T, h => by
    simp only [nameTyB] at h
    simp only [RTy.subst, nameTyB, h, primTs_closed r T _ h]
  | .param n, T, h => by
    simp only [nameTyB, Option.some.injEq] at h
    subst h
    have hz := zip_lookup limit nameN n names args targs hargs
    simp only [RTy.subst, Ts.subst]
    cases hf : ((names.zip args).find? (·.1 = n)).map (·.2) with
    | none =>
      simp only [hf] at hz
      simp [hz, nameTyB]
    | some a =>
      simp only [hf] at hz
      obtain ⟨ta, h1, h2⟩ := hz
      simp [h1, h2]
  | .option t, T, h => by
    simp only [nameTyB, Option.map_eq_some_iff] at h
    obtain ⟨x, hx, rfl⟩ := h
    simp [RTy.subst, nameTyB, name_subst limit nameN hN names args targs hargs t x hx, Ts.subst, Ts.substList]
  | .vec t, T, h => by
    simp only [nameTyB, Option.map_eq_some_iff] at h
    obtain ⟨x, hx, rfl⟩ := h
    simp [RTy.subst, nameTyB, name_subst limit nameN hN names args targs hargs t x hx, Ts.subst]
  | .slice t, T, h => by
    simp only [nameTyB, Option.map_eq_some_iff] at h
    obtain ⟨x, hx, rfl⟩ := h
    simp [RTy.subst, nameTyB, name_subst limit nameN hN names args targs hargs t x hx, Ts.subst]
  | .set t, T, h => by
    simp only [nameTyB, Option.map_eq_some_iff] at h
    obtain ⟨x, hx, rfl⟩ := h
    simp [RTy.subst, nameTyB, name_subst limit nameN hN names args targs hargs t x hx, Ts.subst]
  | .arr t n, T, h => by
    simp only [nameTyB, Option.map_eq_some_iff] at h
    obtain ⟨x, hx, rfl⟩ := h
    simp only [RTy.subst, nameTyB, name_subst limit nameN hN names args targs hargs t x hx, Option.map_some]
    split <;> simp [Ts.subst, substList_replicate]
  | .tuple ts, T, h => by
    simp only [nameTyB, Option.map_eq_some_iff] at h
    obtain ⟨xs, hxs, rfl⟩ := h
    simp [RTy.subst, nameTyB, nameL_subst limit nameN hN names args targs hargs ts xs hxs, Ts.subst]
  | .map k v, T, h => by
    simp only [nameTyB, bind, Option.bind] at h
    cases hk : nameTyB limit nameN k with
    | none => simp [hk] at h
    | some k' =>
      cases hv : nameTyB limit nameN v with
      | none => simp [hk, hv] at h
      | some v' =>
        simp only [hk, hv, pure, Option.some.injEq] at h
        subst h
        simp [RTy.subst, nameTyB, name_subst limit nameN hN names args targs hargs k k' hk,
          name_subst limit nameN hN names args targs hargs v v' hv, Ts.subst, bind, Option.bind, pure]
  | .result a b, T, h => by
    simp only [nameTyB, bind, Option.bind] at h
    cases ha : nameTyB limit nameN a with
    | none => simp [ha] at h
    | some a' =>
      cases hb : nameTyB limit nameN b with
      | none => simp [ha, hb] at h
      | some b' =>
        simp only [ha, hb, pure, Option.some.injEq] at h
        subst h
        simp [RTy.subst, nameTyB, name_subst limit nameN hN names args targs hargs a a' ha,
          name_subst limit nameN hN names args targs hargs b b' hb, Ts.subst, Ts.substList, Ts.substFields, bind, Option.bind, pure]
  | .range t, T, h => by
    simp only [nameTyB, Option.map_eq_some_iff] at h
    obtain ⟨x, hx, rfl⟩ := h
    simp [RTy.subst, nameTyB, name_subst limit nameN hN names args targs hargs t x hx, Ts.subst, Ts.substFields]
  | .wrap k t, T, h => by
    simp only [nameTyB] at h
    simp [RTy.subst, nameTyB, name_subst limit nameN hN names args targs hargs t T h]
  | .named id as, T, h => by
    simp only [nameTyB] at h
    cases hx : nameTyBL limit nameN as with
    | none => simp [hx] at h
    | some xs =>
      simp only [hx, Option.bind_some] at h
      simp only [RTy.subst, nameTyB, nameL_subst limit nameN hN names args targs hargs as xs hx, Option.bind_some]
      exact hN id xs T _ h
theorem nameL_subst (limit : Nat) (nameN : Str → List Ts → Option Ts) (hN : NCommutes nameN)
    (names : List Str) (args : List RTy) (targs : List Ts) (hargs : nameTyBL limit nameN args = some targs) :
    ∀ (ts : List RTy) (Ts' : List Ts), nameTyBL limit nameN ts = some Ts' →
      nameTyBL limit nameN (RTy.substL (names.zip args) ts) = some (Ts.substList (names.zip targs) Ts')
  | [], Ts', h => by
    simp only [nameTyBL, Option.some.injEq] at h
    subst h
    simp [RTy.substL, nameTyBL, Ts.substList]
  | t :: ts, Ts', h => by
    simp only [nameTyBL, bind, Option.bind] at h
    cases hx : nameTyB limit nameN t with
    | none => simp [hx] at h
    | some x =>
      cases hr : nameTyBL limit nameN ts with
      | none => simp [hx, hr] at h
      | some xs =>
        simp only [hx, hr, pure, Option.some.injEq] at h
        subst h
        simp [RTy.substL, nameTyBL, name_subst limit nameN hN names args targs hargs t x hx,
          nameL_subst limit nameN hN names args targs hargs ts xs hr, Ts.substList, bind, Option.bind, pure]
end

end TsRs
