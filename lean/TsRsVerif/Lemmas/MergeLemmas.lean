import TsRsVerif.Model.Merge
import TsRsVerif.Lemmas.StrOrder
/-! Lemmas about the insertion loop of `merge` and name-sorted block lists. -/
namespace TsRs.Merge
open TsRs.Text

/-- strictly name-sorted list of (name, declaration) -/
def SortedN (l : List (Str × Str)) : Prop := l.Pairwise fun a b => ltStr a.1 b.1 = true

theorem insertLoop_true (n d : Str) (ds : List (Str × Str)) :
    insertLoop n d true ds = ds.map (·.2) := by
  induction ds with
  | nil => rfl
  | cons x xs ih => cases x; simp [insertLoop, ih]

theorem insertByName_perm (n d : Str) (l : List (Str × Str)) (hn : ∀ x ∈ l, x.1 ≠ n) :
    (insertByName n d l).Perm ((n, d) :: l) := by
  induction l with
  | nil => simp [insertByName]
  | cons x xs ih =>
    obtain ⟨m, e⟩ := x
    have hm : m ≠ n := hn (m, e) (by simp)
    simp only [insertByName]
    split
    · exact List.Perm.refl _
    · have : ¬ n = m := fun h => hm h.symm
      simp only [this, if_false]
      exact (List.Perm.cons _ (ih (fun y hy => hn y (by simp [hy])))).trans (List.Perm.swap _ _ _)

theorem insertByName_mem (n d : Str) (l : List (Str × Str)) (x : Str × Str)
    (h : x ∈ insertByName n d l) : x = (n, d) ∨ x ∈ l := by
  induction l with
  | nil => simp [insertByName] at h; exact Or.inl h
  | cons y ys ih =>
    obtain ⟨m, e⟩ := y
    simp only [insertByName] at h
    split at h
    · simp at h; rcases h with h | h | h
      · exact Or.inl h
      · right; simp [h]
      · right; simp [h]
    · split at h
      · exact Or.inr h
      · simp at h; rcases h with h | h
        · right; simp [h]
        · rcases ih h with h' | h'
          · exact Or.inl h'
          · right; simp [h']

theorem insertByName_sorted (n d : Str) (l : List (Str × Str)) (hs : SortedN l) :
    SortedN (insertByName n d l) := by
  induction l with
  | nil => simp [insertByName, SortedN]
  | cons y ys ih =>
    obtain ⟨m, e⟩ := y
    have hs' : SortedN ys := (List.pairwise_cons.mp hs).2
    have hhead : ∀ z ∈ ys, ltStr m z.1 = true := (List.pairwise_cons.mp hs).1
    simp only [insertByName]
    split
    · rename_i hnm
      refine List.pairwise_cons.mpr ⟨?_, hs⟩
      intro z hz
      simp at hz
      rcases hz with hz | hz
      · subst hz; exact hnm
      · exact ltStr_trans hnm (hhead z hz)
    · rename_i hnm
      split
      · exact hs
      · rename_i hne
        refine List.pairwise_cons.mpr ⟨?_, ih hs'⟩
        intro z hz
        rcases insertByName_mem n d ys z hz with hz' | hz'
        · subst hz'
          rcases ltStr_total hne with h | h
          · exact absurd h hnm
          · exact h
        · exact hhead z hz'

/-- two name-sorted lists with the same elements are the same list -/
theorem sorted_perm_eq {l₁ l₂ : List (Str × Str)} (h₁ : SortedN l₁) (h₂ : SortedN l₂)
    (hp : l₁.Perm l₂) : l₁ = l₂ :=
  List.Perm.eq_of_pairwise (le := fun (a b : Str × Str) => ltStr a.1 b.1 = true)
    (fun a b _ _ hab hba => by rw [ltStr_asymm hab] at hba; exact absurd hba (by simp))
    (by unfold SortedN at h₁; exact h₁) (by unfold SortedN at h₂; exact h₂) hp

/-- fold of `insertByName` from the empty file -/
def insertAll (gens : List (Str × Str)) : List (Str × Str) :=
  gens.foldl (fun bs g => insertByName g.1 g.2 bs) []

theorem foldl_insert_sorted (gens acc : List (Str × Str)) (h : SortedN acc) :
    SortedN (gens.foldl (fun bs g => insertByName g.1 g.2 bs) acc) := by
  induction gens generalizing acc with
  | nil => exact h
  | cons g gs ih => exact ih _ (insertByName_sorted _ _ _ h)

theorem foldl_insert_perm (gens acc : List (Str × Str))
    (hnd : (gens.map (·.1)).Nodup) (hdisj : ∀ g ∈ gens, ∀ a ∈ acc, a.1 ≠ g.1) :
    (gens.foldl (fun bs g => insertByName g.1 g.2 bs) acc).Perm (gens.reverse ++ acc) := by
  induction gens generalizing acc with
  | nil => simp
  | cons g gs ih =>
    simp only [List.foldl_cons, List.reverse_cons, List.append_assoc]
    have hnd' : (gs.map (·.1)).Nodup := (List.nodup_cons.mp (by simpa using hnd)).2
    have hg : g.1 ∉ gs.map (·.1) := (List.nodup_cons.mp (by simpa using hnd)).1
    have hp := insertByName_perm g.1 g.2 acc (fun a ha => hdisj g (by simp) a ha)
    have hd' : ∀ g' ∈ gs, ∀ a ∈ insertByName g.1 g.2 acc, a.1 ≠ g'.1 := by
      intro g' hg' a ha
      rcases insertByName_mem _ _ _ _ ha with h | h
      · subst h; intro e; exact hg (by simp; exact ⟨g'.2, by rw [e]; exact hg'⟩)
      · exact hdisj g' (by simp [hg']) a h
    refine (ih _ hnd' hd').trans ?_
    exact List.Perm.append_left _ hp

end TsRs.Merge
