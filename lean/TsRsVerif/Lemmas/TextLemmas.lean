import TsRsVerif.Model.Text
/-! Helper lemmas about the `Text` functions (core Lean only). -/
namespace TsRs.Text

@[simp] theorem stripPrefix_nil (s : Str) : stripPrefix [] s = some s := by
  cases s <;> rfl

theorem stripPrefix_append (p r : Str) : stripPrefix p (p ++ r) = some r := by
  induction p with
  | nil => simp
  | cons c cs ih => simp [stripPrefix, ih]

theorem stripPrefix_eq_some {p s r : Str} (h : stripPrefix p s = some r) : s = p ++ r := by
  induction p generalizing s with
  | nil => simp at h; simp [h]
  | cons c cs ih =>
    cases s with
    | nil => simp [stripPrefix] at h
    | cons d ds =>
      simp only [stripPrefix] at h
      split at h
      · rename_i hcd; subst hcd; simp [ih h]
      · simp at h

/-- `splitChar` inverts `intercalate` with a one-character separator when no piece contains it. -/
theorem splitChar_intercalate (d : Char) (ps : List Str) (hne : ps ≠ [])
    (h : ∀ p ∈ ps, d ∉ p) : splitChar d (intercalate [d] ps) = ps := by
  induction ps with
  | nil => exact absurd rfl hne
  | cons p rest ih =>
    have hp : d ∉ p := h p (by simp)
    cases rest with
    | nil =>
      simp only [intercalate]
      clear ih h hne
      induction p with
      | nil => rfl
      | cons c cs ihp =>
        have hc : c ≠ d := fun e => hp (by simp [e])
        have hcs : d ∉ cs := fun e => hp (by simp [e])
        simp only [splitChar, hc, if_false, ihp hcs]
    | cons q rest' =>
      have ih' := ih (by simp) (fun x hx => h x (by simp [hx]))
      simp only [intercalate] at ih' ⊢
      clear ih h hne
      induction p with
      | nil => simp [splitChar, ih']
      | cons c cs ihp =>
        have hc : c ≠ d := fun e => hp (by simp [e])
        have hcs : d ∉ cs := fun e => hp (by simp [e])
        have := ihp hcs
        simp only [List.cons_append, splitChar, hc, if_false]
        rw [this]

theorem trimStartMatchesAux_none (pat : Str) (n : Nat) (s : Str) (h : stripPrefix pat s = none) :
    trimStartMatchesAux pat n s = s := by
  cases n <;> simp [trimStartMatchesAux, h]

theorem trimStartMatchesAux_step (pat : Str) (hp : pat ≠ []) (n : Nat) (r : Str) :
    trimStartMatchesAux pat (n + 1) (pat ++ r) = trimStartMatchesAux pat n r := by
  have : pat.isEmpty = false := by cases pat <;> simp_all
  simp [trimStartMatchesAux, stripPrefix_append, this]

/-- one application of `trim_end_matches(pat)` when what remains does not end in `pat` again -/
theorem trimEndMatches_once (pat s : Str) (hp : pat ≠ [])
    (h : stripPrefix pat.reverse s.reverse = none) : trimEndMatches pat (s ++ pat) = s := by
  unfold trimEndMatches trimStartMatches
  have hlen : (s ++ pat).reverse.length = (pat.length - 1 + s.length) + 1 := by
    cases pat with
    | nil => exact absurd rfl hp
    | cons c cs => simp; omega
  rw [hlen, List.reverse_append]
  rw [trimStartMatchesAux_step _ (by simpa using hp)]
  rw [trimStartMatchesAux_none _ _ _ h]
  simp

theorem trimEndMatches_none (pat s : Str) (h : stripPrefix pat.reverse s.reverse = none) :
    trimEndMatches pat s = s := by
  unfold trimEndMatches trimStartMatches
  rw [trimStartMatchesAux_none _ _ _ h]; simp

end TsRs.Text
