import TsRsVerif.Lemmas.WalkFiles
/-!
# The files `export_all` leaves do not depend on the order in which dependencies are visited

`visit_dependencies` of a derived type walks its dependencies in an order fixed by the derive; `dependencies()` collects them
through hash-based structures elsewhere. Here: two tables that differ ONLY in the order (and multiplicity) of every `deps` list —
same identifiers, output paths and generated texts — give walks that visit the same set of types (`reach_congr`), in orders that are
permutations of one another, and therefore (`tinv_same_files_perm`) the same regular files with the same contents.
-/
namespace TsRs
open Text Export Fs

/-- the invariant determines every regular file, up to the order of the history -/
theorem tinv_same_files_perm (fs0 : Fs) (slots : List TSlot) (d₁ d₂ : List Op) (hp : d₁.Perm d₂)
    (hnames : ∀ i, ((gensAt i d₁).map (·.name)).Nodup) (w₁ w₂ : World)
    (h₁ : TInv fs0 slots d₁ w₁) (h₂ : TInv fs0 slots d₂ w₂) :
    ∀ l c, w₁.fs.lookup l = some (.file c) ↔ w₂.fs.lookup l = some (.file c) := by
  intro l c
  have hnil : ∀ i, gensAt i d₁ = [] ↔ gensAt i d₂ = [] := by
    intro i
    have := (gensAt_perm i hp).length_eq
    constructor
    · intro e; rw [e] at this; exact List.eq_nil_of_length_eq_zero (by simpa using this.symm)
    · intro e; rw [e] at this; exact List.eq_nil_of_length_eq_zero (by simpa using this)
  by_cases hex : ∃ (i : Nat) (s : TSlot), slots[i]? = some s ∧ s.loc = l ∧ gensAt i d₁ ≠ []
  · obtain ⟨i, s, hsl, hl, hne⟩ := hex
    have hne₂ : gensAt i d₂ ≠ [] := fun e => hne ((hnil i).mpr e)
    rw [← hl, h₁.files i s hsl hne, h₂.files i s hsl hne₂, canonSt_perm _ _ (gensAt_perm i hp) (hnames i)]
  · have hun₁ : ∀ (i : Nat) s, slots[i]? = some s → s.loc = l → gensAt i d₁ = [] := by
      intro i s hsl hl
      exact Classical.byContradiction fun h => hex ⟨i, s, hsl, hl, h⟩
    have hun₂ : ∀ (i : Nat) s, slots[i]? = some s → s.loc = l → gensAt i d₂ = [] := fun i s hsl hl => (hnil i).mp (hun₁ i s hsl hl)
    rw [h₁.others l c hun₁, h₂.others l c hun₂]

/-- two tables that differ only in the order / multiplicity of the dependency lists -/
structure SameUpToDepOrder (u₁ u₂ : Universe) : Prop where
  len : u₁.length = u₂.length
  same : ∀ (k : Nat) (t₁ t₂ : TyInfo), u₁[k]? = some t₁ → u₂[k]? = some t₂ →
    t₁.ident = t₂.ident ∧ t₁.outputPath = t₂.outputPath ∧ t₁.text = t₂.text ∧ (∀ d, d ∈ t₁.deps ↔ d ∈ t₂.deps)

theorem SameUpToDepOrder.symm {u₁ u₂ : Universe} (h : SameUpToDepOrder u₁ u₂) : SameUpToDepOrder u₂ u₁ :=
  ⟨h.len.symm, fun k t₂ t₁ h2 h1 => by
    obtain ⟨a, b, c, d⟩ := h.same k t₁ t₂ h1 h2
    exact ⟨a.symm, b.symm, c.symm, fun x => (d x).symm⟩⟩

theorem SameUpToDepOrder.get {u₁ u₂ : Universe} (h : SameUpToDepOrder u₁ u₂) (k : Nat) (t₁ : TyInfo) (h1 : u₁[k]? = some t₁) :
    ∃ t₂, u₂[k]? = some t₂ := by
  have hk : k < u₁.length := by
    rcases Nat.lt_or_ge k u₁.length with h' | h'
    · exact h'
    · rw [List.getElem?_eq_none h'] at h1; cases h1
  exact ⟨u₂[k]'(h.len ▸ hk), List.getElem?_eq_getElem _⟩

theorem exportable_congr {u₁ u₂ : Universe} (h : SameUpToDepOrder u₁ u₂) (d : Nat) (he : Exportable u₁ d) : Exportable u₂ d := by
  obtain ⟨td, hd, ho⟩ := he
  obtain ⟨t₂, h2⟩ := h.get d td hd
  exact ⟨t₂, h2, by rw [← (h.same d td t₂ hd h2).2.1]; exact ho⟩

theorem isDep_congr {u₁ u₂ : Universe} (h : SameUpToDepOrder u₁ u₂) (n d : Nat) (hd : IsDep u₁ n d) : IsDep u₂ n d := by
  obtain ⟨t, ht, hmem, hex⟩ := hd
  obtain ⟨t₂, h2⟩ := h.get n t ht
  exact ⟨t₂, h2, ((h.same n t t₂ ht h2).2.2.2 d).mp hmem, exportable_congr h d hex⟩

theorem reach_congr {u₁ u₂ : Universe} (h : SameUpToDepOrder u₁ u₂) (i j : Nat) (hr : Reach u₁ i j) : Reach u₂ i j := by
  induction hr with
  | refl => exact Reach.refl
  | step _ hd ih => exact Reach.step ih (isDep_congr h _ _ hd)

theorem tableOK_congr {u₁ u₂ : Universe} (h : SameUpToDepOrder u₁ u₂) (slots : List TSlot) (dir : Str) (gen : Nat → GenT)
    (rel : Nat → Str) (slotOf : Nat → Nat) (j : Nat) (ht : TableOK u₁ slots dir gen rel slotOf j) : TableOK u₂ slots dir gen rel slotOf j := by
  obtain ⟨⟨t, hu, ho, htx, hi⟩, hs⟩ := ht
  obtain ⟨t₂, h2⟩ := h.get j t hu
  obtain ⟨a, b, c, _⟩ := h.same j t t₂ hu h2
  exact ⟨⟨t₂, h2, by rw [← b]; exact ho, by rw [← c]; exact htx, by rw [← a]; exact hi⟩, hs⟩

/-- the walk as a duplicate-free list of exactly the reachable exportable types, run as `export_into` steps -/
theorem exportRec_order (u : Universe) (fuel : Nat) (w w' : World) (dir : Str) (i : Nat) (seen' : List Nat)
    (h : exportRec u fuel w [] dir i = some (w', seen', .ok)) :
    ∃ order : List Nat, order.Nodup ∧ (∀ j, j ∈ order ↔ Reach u i j) ∧ runInto u dir w order = (w', true) := by
  obtain ⟨order, hs, hnd, _, hrun⟩ := exportRec_seq u dir fuel w [] i w' seen' h
  obtain ⟨hinv, hi⟩ := exportRec_inv u (Reach u i) (fun n d hn hd => Reach.step hn hd) fuel w [] dir i w' seen' Reach.refl h
  refine ⟨order, hnd, ?_, hrun⟩
  intro j
  have hmem : j ∈ order ↔ j ∈ seen' := by rw [hs]; simp
  rw [hmem]
  constructor
  · intro hj
    rcases hinv.sound j hj with h0 | h0
    · simp at h0
    · exact h0
  · exact reach_subset u i seen' hi (fun n hn d hd => hinv.closed n hn (by simp) d hd) j

/-- **the visiting order does not matter**: two successful `export_all`s from the same root and the same world, over tables that
differ only in the order of their dependency lists, leave the same regular files with the same contents -/
theorem walk_order_independent (u₁ u₂ : Universe) (hsame : SameUpToDepOrder u₁ u₂) (slots : List TSlot) (dir : Str)
    (gen : Nat → GenT) (rel : Nat → Str) (slotOf : Nat → Nat) (f₁ f₂ : Nat) (w w₁ w₂ : World) (i : Nat) (s₁ s₂ : List Nat)
    (h₁ : exportRec u₁ f₁ w [] dir i = some (w₁, s₁, .ok)) (h₂ : exportRec u₂ f₂ w [] dir i = some (w₂, s₂, .ok))
    (htab : ∀ j, Reach u₁ i j → TableOK u₁ slots dir gen rel slotOf j)
    (hs : TSlotsOK w.fs slots)
    (hsp : ∀ j, Reach u₁ i j → ∀ s, slots[slotOf j]? = some s → Path.absolute (cwdStr w.fs) (Path.join dir (rel j)) = .ok s.path)
    (hgen : ∀ j, Reach u₁ i j → GenOK (gen j))
    (hname : ∀ j j', Reach u₁ i j → Reach u₁ i j' → slotOf j = slotOf j' → (gen j).name = (gen j').name → j = j')
    (hident : ∀ j j', Reach u₁ i j → Reach u₁ i j' → slotOf j = slotOf j' → (gen j).ident = (gen j').ident → j = j')
    (hp : w.poisoned = false) (hreg : ∀ s ∈ slots, regGet w.reg (regKey s.path) = none) :
    ∀ l c, w₁.fs.lookup l = some (.file c) ↔ w₂.fs.lookup l = some (.file c) := by
  obtain ⟨o₁, hn₁, hm₁, hr₁⟩ := exportRec_order u₁ f₁ w w₁ dir i s₁ h₁
  obtain ⟨o₂, hn₂, hm₂, hr₂⟩ := exportRec_order u₂ f₂ w w₂ dir i s₂ h₂
  have hreach : ∀ j, Reach u₂ i j ↔ Reach u₁ i j := fun j => ⟨reach_congr hsame.symm i j, reach_congr hsame i j⟩
  have to1 : ∀ j, j ∈ o₁ → Reach u₁ i j := fun j hj => (hm₁ j).mp hj
  have to2 : ∀ j, j ∈ o₂ → Reach u₁ i j := fun j hj => (hreach j).mp ((hm₂ j).mp hj)
  obtain ⟨v₁, hv₁, i₁⟩ := runInto_files u₁ slots dir gen rel slotOf o₁ hn₁ w (fun j hj => htab j (to1 j hj)) hs
    (fun j hj => hsp j (to1 j hj)) (fun j hj => hgen j (to1 j hj))
    (fun j hj j' hj' => hname j j' (to1 j hj) (to1 j' hj')) (fun j hj j' hj' => hident j j' (to1 j hj) (to1 j' hj')) hp hreg
  obtain ⟨v₂, hv₂, i₂⟩ := runInto_files u₂ slots dir gen rel slotOf o₂ hn₂ w (fun j hj => tableOK_congr hsame _ _ _ _ _ j (htab j (to2 j hj))) hs
    (fun j hj => hsp j (to2 j hj)) (fun j hj => hgen j (to2 j hj))
    (fun j hj j' hj' => hname j j' (to2 j hj) (to2 j' hj')) (fun j hj j' hj' => hident j j' (to2 j hj) (to2 j' hj')) hp hreg
  rw [hr₁] at hv₁; rw [hr₂] at hv₂
  have e₁ : w₁ = v₁ := by injection hv₁ with a _
  have e₂ : w₂ = v₂ := by injection hv₂ with a _
  subst e₁; subst e₂
  have hperm : o₁.Perm o₂ := (List.perm_ext_iff_of_nodup hn₁ hn₂).mpr fun j => by rw [hm₁ j, hm₂ j, hreach j]
  refine tinv_same_files_perm w.fs slots _ _ (hperm.map _) ?_ w₁ w₂ i₁ i₂
  intro k
  exact gensAt_map_nodup o₁ hn₁ slotOf gen (·.name) (fun j hj j' hj' => hname j j' (to1 j hj) (to1 j' hj')) k

end TsRs
