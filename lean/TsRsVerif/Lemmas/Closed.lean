import TsRsVerif.Lemmas.CommentLemmas
/-!
# Lexically closed texts

A text is *closed* when a reader that starts in code is in code again at its end: no comment, no string literal and no pending `/`
is left open. Closed: every text without `/` and quotes (identifiers, punctuation, numbers, white space); every string literal whose
body escapes its quote and the backslash; every concatenation of closed texts. This discharges the context hypothesis of the C15
theorems for renderings built from such pieces.
-/
namespace TsRs
open Text
namespace Comment

def Closed (s : Str) : Prop := endState .code s = .code

theorem Closed.nil : Closed [] := rfl

theorem Closed.append {a b : Str} (ha : Closed a) (hb : Closed b) : Closed (a ++ b) := by
  unfold Closed endState at *
  rw [run_append, ha]; exact hb

theorem Closed.flatten : ∀ (xs : List Str), (∀ x ∈ xs, Closed x) → Closed xs.flatten
  | [], _ => Closed.nil
  | x :: xs, h => by
    rw [List.flatten_cons]
    exact Closed.append (h x (by simp)) (Closed.flatten xs (fun y hy => h y (by simp [hy])))

/-- no `/`, no quote: the reader stays in code -/
theorem closed_plain : ∀ (s : Str), (∀ c ∈ s, c ≠ '/' ∧ isQuote c = false) → Closed s
  | [], _ => rfl
  | c :: s, h => by
    have hc := h c (by simp)
    have ih := closed_plain s (fun d hd => h d (by simp [hd]))
    unfold Closed endState at *
    simp only [run, step, codeStep, hc.1, if_false, hc.2]
    by_cases hw : isWs c = true
    · simp only [hw, if_true]; exact ih
    · simp only [hw, Bool.false_eq_true, if_false]; exact ih

/-- the body of a string literal delimited by `q`: ordinary characters other than `q` and the backslash, and backslash escapes
(the backslash followed by any one character) -/
inductive LitBody (q : Char) : Str → Prop where
  | nil : LitBody q []
  | char {c : Char} {r : Str} : c ≠ q → c ≠ '\\' → LitBody q r → LitBody q (c :: r)
  | esc {c : Char} {r : Str} : LitBody q r → LitBody q ('\\' :: c :: r)

theorem LitBody.append {q : Char} {a b : Str} (ha : LitBody q a) (hb : LitBody q b) : LitBody q (a ++ b) := by
  induction ha with
  | nil => exact hb
  | char h1 h2 _ ih => exact LitBody.char h1 h2 ih
  | esc _ ih => exact LitBody.esc ih

theorem litBodyB_sound (q : Char) : ∀ (s : Str), litBodyB q s = true → LitBody q s
  | [], _ => LitBody.nil
  | [c], h => by
    simp only [litBodyB, Bool.and_eq_true, bne_iff_ne, ne_eq] at h
    exact LitBody.char h.1 h.2 LitBody.nil
  | c :: d :: r, h => by
    simp only [litBodyB] at h
    by_cases hc : c = '\\'
    · subst hc
      simp only [if_true] at h
      exact LitBody.esc (litBodyB_sound q r h)
    · simp only [hc, if_false, Bool.and_eq_true, bne_iff_ne, ne_eq] at h
      exact LitBody.char h.1 hc (litBodyB_sound q (d :: r) h.2)

/-- inside a literal the reader is still inside it after a well-formed body … -/
theorem run_litBody {q : Char} {body : Str} (h : LitBody q body) (rest : Str) :
    (run (.str q) (body ++ rest)).2 = (run (.str q) rest).2 := by
  induction h with
  | nil => rfl
  | char h1 h2 _ ih =>
    simp only [List.cons_append, run, step, h2, if_false, h1]
    exact ih
  | esc _ ih =>
    simp only [List.cons_append, run, step, if_true]
    exact ih

/-- … so the literal `q body q` is closed -/
theorem closed_lit (q : Char) (hq : isQuote q = true) (body : Str) (h : LitBody q body) : Closed (q :: (body ++ [q])) := by
  have hne : q ≠ '/' := by
    intro e; subst e; simp [isQuote] at hq
  have hbs : q ≠ '\\' := by
    intro e; subst e; simp [isQuote] at hq
  unfold Closed endState
  simp only [run, step, codeStep, hne, if_false]
  have hw : isWs q = false := by
    simp only [isQuote, Bool.or_eq_true, decide_eq_true_eq] at hq
    rcases hq with rfl | rfl <;> decide
  simp only [hw, Bool.false_eq_true, if_false, hq, if_true]
  rw [run_litBody h [q]]
  simp [run, step, hbs]

end Comment
end TsRs

/-! ### the string-literal routine writes a literal body -/
namespace TsRs
open Text Case Comment

/-- lexical contract of the escape table: what is written for one character is a literal body (no bare `"`, no dangling backslash) -/
def EscLex (ops : CharOps) : Prop := ∀ c, LitBody '"' (jsEsc (ops.escDebug c))

theorem litBody_plainChars : ∀ (s : Str), (∀ c ∈ s, c ≠ '"' ∧ c ≠ '\\') → LitBody '"' s
  | [], _ => LitBody.nil
  | c :: s, h => LitBody.char (h c (by simp)).1 (h c (by simp)).2 (litBody_plainChars s (fun d hd => h d (by simp [hd])))

theorem LitBody.flatten : ∀ (xs : List Str), (∀ x ∈ xs, LitBody '"' x) → LitBody '"' xs.flatten
  | [], _ => LitBody.nil
  | x :: xs, h => by
    rw [List.flatten_cons]
    exact LitBody.append (h x (by simp)) (LitBody.flatten xs (fun y hy => h y (by simp [hy])))

/-- `string_literal(s)` is one closed literal, for every string -/
theorem quoteStr_litBody (ops : CharOps) (hok : EscLex ops) (s : Str) :
    ∃ body, quoteStr ops s = '"' :: (body ++ ['"']) ∧ LitBody '"' body :=
  ⟨(s.map fun c => jsEsc (ops.escDebug c)).flatten, rfl, LitBody.flatten _ (by
    intro x hx
    obtain ⟨c, _, rfl⟩ := List.mem_map.mp hx
    exact hok c)⟩

theorem hexDigit_plain (n : Nat) (h : n < 16) : hexDigit n ≠ '"' ∧ hexDigit n ≠ '\\' := by
  have : ∀ k, k < 16 → hexDigit k ≠ '"' ∧ hexDigit k ≠ '\\' := by decide
  exact this n h

theorem hexOf_plain : ∀ (f n : Nat), ∀ c ∈ hexOf f n, c ≠ '"' ∧ c ≠ '\\'
  | 0, _, c, hc => by simp [hexOf] at hc
  | f + 1, n, c, hc => by
    simp only [hexOf] at hc
    split at hc
    · rename_i h
      simp only [List.mem_singleton] at hc
      subst hc; exact hexDigit_plain n h
    · rcases List.mem_append.mp hc with h1 | h1
      · exact hexOf_plain f (n / 16) c h1
      · simp only [List.mem_singleton] at h1
        subst h1; exact hexDigit_plain (n % 16) (Nat.mod_lt _ (by decide))

/-- the ASCII escape table satisfies the lexical contract -/
theorem asciiEsc_lex : EscLex asciiOps := by
  intro c
  show LitBody '"' (jsEsc (asciiEscDebug c))
  unfold asciiEscDebug
  split
  · exact litBodyB_sound _ _ (by decide)
  split
  · exact litBodyB_sound _ _ (by decide)
  split
  · exact litBodyB_sound _ _ (by decide)
  split
  · exact litBodyB_sound _ _ (by decide)
  split
  · exact litBodyB_sound _ _ (by decide)
  split
  · exact litBodyB_sound _ _ (by decide)
  split
  · have hj : jsEsc (['\\', 'u', '{'] ++ hexOf 8 c.toNat ++ ['}']) = ['\\', 'u', '{'] ++ hexOf 8 c.toNat ++ ['}'] := by
      simp [jsEsc]
    rw [hj]
    simp only [List.cons_append, List.nil_append]
    refine LitBody.esc (LitBody.char (by decide) (by decide) (LitBody.append (litBody_plainChars _ (hexOf_plain 8 c.toNat)) (LitBody.char (by decide) (by decide) LitBody.nil)))
  · rename_i h1 h2 _ _ _ _ _
    have : jsEsc [c] = [c] := by simp [jsEsc]
    rw [this]
    exact LitBody.char h1 h2 LitBody.nil

end TsRs
