import TsRsVerif.Lemmas.HistoryWorld
/-!
# Histories over several files

Exports into several files, interleaved in any way: every step returns `Ok`, and in the end every location holds the
canonical file of the exports that went to it, everything else is as it was. The final directory therefore depends only
on WHAT was exported where, not on the order (`multi_order_independent`).

Files are given as `slots`: (path, location) pairs — the normalised path every entry point uses for the file
(`C06_key_normal_form`) and the location it resolves to. An operation is (slot index, generated text).
-/
namespace TsRs
open Text Merge Fs Export

namespace Export

theorem regGet_regInsert_ne (r : Registry) (k k' : List Comp) (name : Str) (h : k' ≠ k) :
    regGet (regInsert r k name) k' = regGet r k' := by
  unfold regInsert
  cases hg : regGet r k with
  | none =>
    simp only [regGet, List.find?]
    have : decide (k = k') = false := by simpa using fun e => h e.symm
    simp [this]
  | some names =>
    simp only [regGet, List.find?]
    have : decide (k = k') = false := by simpa using fun e => h e.symm
    simp only [this]
    have hf := Fs.find_filter_ne r k k' h
    simp only [hf]

end Export

/-- one export into a file this process has not written: truncating create -/
theorem step_fresh (w : World) (path : Str) (g : GenT) (loc : Loc)
    (hp : w.poisoned = false) (hreg : regGet w.reg (regKey path) = none)
    (hr : w.fs.resolve path = some loc) (hl : loc ≠ []) (hpar : w.fs.isDir loc.dropLast = true)
    (hnd : w.fs.lookup loc ≠ some .dir) :
    exportGen w path g = ({ w with fs := w.fs.set loc (.file (genText g)), reg := regInsert w.reg (regKey path) g.ident }, .ok) := by
  have hc : w.fs.fileCreate path (genText g) = some (w.fs.set loc (.file (genText g))) := by
    unfold fileCreate
    cases loc with
    | nil => exact absurd rfl hl
    | cons a as =>
      simp only [hr, hpar, Bool.not_true, Bool.false_eq_true, ↓reduceIte]
      try (split <;> first | rfl | (rename_i h; exact absurd h hnd))
  simp [exportGen, exportAndMerge, hp, hreg, hc]

/-- one export into a file that holds the canonical text of earlier exports -/
theorem step_merge (w : World) (path : Str) (g : GenT) (loc : Loc) (gens : List GenT) (names : List Str)
    (hp : w.poisoned = false) (hreg : regGet w.reg (regKey path) = some names) (hnames : ∀ n, n ∈ names ↔ n ∈ gens.map (·.ident))
    (hr : w.fs.resolve path = some loc) (hfile : w.fs.lookup loc = some (.file (fileText (canonSt gens))))
    (hne : gens ≠ []) (hgens : ∀ x ∈ gens, GenOK x) (hg : GenOK g)
    (hfresh : g.name ∉ gens.map (·.name)) (hfreshI : g.ident ∉ gens.map (·.ident)) :
    exportGen w path g = ({ w with fs := w.fs.set loc (.file (fileText (canonSt (gens ++ [g])))),
                                   reg := regInsert w.reg (regKey path) g.ident }, .ok) := by
  have hnotin : g.ident ∉ names := fun h => hfreshI ((hnames _).mp h)
  have hopen : w.fs.openRead path = some (loc, fileText (canonSt gens)) := by
    unfold openRead; simp [hr, hfile]
  have hst : StOK (canonSt gens) := by
    cases gens with
    | nil => exact absurd rfl hne
    | cons g0 gs => exact canonSt_ok gs g0 hgens
  have hfr : ∀ b ∈ (canonSt gens).blocks, b.1 ≠ g.name := by
    intro b hb e
    obtain ⟨g', hg', e'⟩ := canonSt_blocks_names gens b hb
    exact hfresh (List.mem_map.mpr ⟨g', hg', by rw [← e', e]⟩)
  have hmerge := merge_step (canonSt gens) g hst hg hfr
  have hwrite := write_step (canonSt gens) g hst
  rw [canonSt_snoc] at hmerge hwrite
  simp only [exportGen, exportAndMerge, hp, Bool.false_eq_true, ↓reduceIte, hreg, hnotin, hopen, hmerge, hwrite]

/-! ### several files -/

abbrev Slot := Str × Loc
abbrev Op := Nat × GenT

/-- the exports that went to slot `i`, in order -/
def gensAt (i : Nat) (ops : List Op) : List GenT := (ops.filter (·.1 = i)).map (·.2)

theorem gensAt_snoc (i : Nat) (ops : List Op) (op : Op) :
    gensAt i (ops ++ [op]) = if op.1 = i then gensAt i ops ++ [op.2] else gensAt i ops := by
  unfold gensAt
  by_cases h : op.1 = i <;> simp [List.filter_append, List.filter_cons, h]

def runOps (slots : List Slot) : World → List Op → World × Bool
  | w, [] => (w, true)
  | w, op :: ops =>
    match slots[op.1]? with
    | none => (w, false)
    | some s =>
      match exportGen w s.1 op.2 with
      | (w', .ok) => runOps slots w' ops
      | (w', _) => (w', false)

/-- the files: every path resolves (in the initial file system) to its location, the location can hold a file, different
slots are different files with different registry keys -/
structure SlotsOK (fs0 : Fs) (slots : List Slot) : Prop where
  resolves : ∀ s ∈ slots, fs0.resolve s.1 = some s.2
  nonroot : ∀ s ∈ slots, s.2 ≠ []
  parent : ∀ s ∈ slots, fs0.isDir s.2.dropLast = true
  notdir : ∀ s ∈ slots, fs0.lookup s.2 ≠ some .dir
  locs : ∀ (i j : Nat) (a b : Slot), slots[i]? = some a → slots[j]? = some b → a.2 = b.2 → i = j
  keys : ∀ (i j : Nat) (a b : Slot), slots[i]? = some a → slots[j]? = some b → regKey a.1 = regKey b.1 → i = j

structure MInv (fs0 : Fs) (slots : List Slot) (done : List Op) (w : World) : Prop where
  alive : w.poisoned = false
  cwd : w.fs.cwd = fs0.cwd
  dirs : ∀ l, w.fs.isDir l = fs0.isDir l
  untouched : ∀ l, (∀ (i : Nat) s, slots[i]? = some s → s.2 = l → gensAt i done = []) → w.fs.lookup l = fs0.lookup l
  files : ∀ (i : Nat) s, slots[i]? = some s → gensAt i done ≠ [] → w.fs.lookup s.2 = some (.file (fileText (canonSt (gensAt i done))))
  regNone : ∀ (i : Nat) s, slots[i]? = some s → gensAt i done = [] → regGet w.reg (regKey s.1) = none
  regSome : ∀ (i : Nat) s, slots[i]? = some s → gensAt i done ≠ [] →
    ∃ names, regGet w.reg (regKey s.1) = some names ∧ ∀ n, n ∈ names ↔ n ∈ (gensAt i done).map (·.ident)

/-- the operations are well-formed: indices in range, texts in the domain, per file distinct identifiers and declared names -/
structure OpsOK (slots : List Slot) (ops : List Op) : Prop where
  inRange : ∀ op ∈ ops, op.1 < slots.length
  genOK : ∀ op ∈ ops, GenOK op.2
  names : ∀ i, ((gensAt i ops).map (·.name)).Nodup
  idents : ∀ i, ((gensAt i ops).map (·.ident)).Nodup

theorem resolve_congr (a b : Fs) (hc : a.cwd = b.cwd) (hd : ∀ l, a.isDir l = b.isDir l) (p : Str) : a.resolve p = b.resolve p := by
  unfold resolve; rw [hc]; exact walk_congr a b hd _ _

theorem minv_step (fs0 : Fs) (slots : List Slot) (hs : SlotsOK fs0 slots) (done : List Op) (op : Op) (w : World)
    (hinv : MInv fs0 slots done w) (s : Slot) (hsl : slots[op.1]? = some s)
    (hgen : ∀ x ∈ gensAt op.1 (done ++ [op]), GenOK x)
    (hnm : ((gensAt op.1 (done ++ [op])).map (·.name)).Nodup) (hid : ((gensAt op.1 (done ++ [op])).map (·.ident)).Nodup) :
    ∃ w', exportGen w s.1 op.2 = (w', .ok) ∧ MInv fs0 slots (done ++ [op]) w' := by
  have hmem : s ∈ slots := List.mem_of_getElem? hsl
  have hres : w.fs.resolve s.1 = some s.2 := by
    rw [resolve_congr w.fs fs0 hinv.cwd hinv.dirs]; exact hs.resolves s hmem
  have hsnoc : gensAt op.1 (done ++ [op]) = gensAt op.1 done ++ [op.2] := by rw [gensAt_snoc]; simp
  have hother : ∀ i, i ≠ op.1 → gensAt i (done ++ [op]) = gensAt i done := by
    intro i hi
    have hne : ¬ op.1 = i := fun e => hi e.symm
    rw [gensAt_snoc]; simp [hne]
  -- the new file system and registry, in both cases
  have key : ∃ text, exportGen w s.1 op.2 = ({ w with fs := w.fs.set s.2 (.file text), reg := regInsert w.reg (regKey s.1) op.2.ident }, .ok)
      ∧ text = fileText (canonSt (gensAt op.1 (done ++ [op]))) ∧ w.fs.lookup s.2 ≠ some .dir
      ∧ (∀ n, n ∈ ((regGet w.reg (regKey s.1)).getD []) ↔ n ∈ (gensAt op.1 done).map (·.ident)) := by
    by_cases hemp : gensAt op.1 done = []
    · have hlk : w.fs.lookup s.2 = fs0.lookup s.2 := by
        apply hinv.untouched
        intro i s' hs' hl
        have : i = op.1 := hs.locs i op.1 s' s hs' hsl hl
        subst this; exact hemp
      have hnd : w.fs.lookup s.2 ≠ some .dir := by rw [hlk]; exact hs.notdir s hmem
      have hreg := hinv.regNone op.1 s hsl hemp
      refine ⟨genText op.2, step_fresh w s.1 op.2 s.2 hinv.alive hreg hres (hs.nonroot s hmem)
        (by rw [hinv.dirs]; exact hs.parent s hmem) hnd, ?_, hnd, ?_⟩
      · rw [hsnoc, hemp, List.nil_append, genText_eq, canonSt_single op.2 (hgen op.2 (by rw [hsnoc]; simp))]
      · intro n; rw [hreg, hemp]; simp
    · obtain ⟨names, hreg, hnames⟩ := hinv.regSome op.1 s hsl hemp
      have hfile := hinv.files op.1 s hsl hemp
      have hfresh : op.2.name ∉ (gensAt op.1 done).map (·.name) := by
        rw [hsnoc, List.map_append] at hnm
        intro hin
        exact (List.nodup_append.mp hnm).2.2 _ hin _ (by simp) rfl
      have hfreshI : op.2.ident ∉ (gensAt op.1 done).map (·.ident) := by
        rw [hsnoc, List.map_append] at hid
        intro hin
        exact (List.nodup_append.mp hid).2.2 _ hin _ (by simp) rfl
      refine ⟨_, step_merge w s.1 op.2 s.2 (gensAt op.1 done) names hinv.alive hreg hnames hres hfile hemp
        (fun x hx => hgen x (by rw [hsnoc]; simp [hx])) (hgen op.2 (by rw [hsnoc]; simp)) hfresh hfreshI, by rw [hsnoc], ?_, ?_⟩
      · rw [hfile]; simp
      · intro n; rw [hreg]; simpa using hnames n
  obtain ⟨text, hstep, htext, hnd, hregold⟩ := key
  refine ⟨_, hstep, ?_⟩
  have hl := hs.nonroot s hmem
  refine ⟨hinv.alive, by simpa [set_cwd] using hinv.cwd, ?_, ?_, ?_, ?_, ?_⟩
  · intro l; simp only; rw [isDir_set_file w.fs s.2 text hl hnd l]; exact hinv.dirs l
  · intro l hun
    have hne : l ≠ s.2 := by
      intro e
      have := hun op.1 s hsl e.symm
      rw [hsnoc] at this; simp at this
    simp only
    rw [lookup_set]
    by_cases h0 : l = []
    · subst h0; simp [lookup]
    · simp only [h0, if_false, hne, if_false]
      apply hinv.untouched
      intro i s' hs' hl'
      have := hun i s' hs' hl'
      by_cases hi : i = op.1
      · subst hi
        have e : s' = s := by rw [hsl] at hs'; exact (Option.some.inj hs').symm
        exact absurd (e ▸ hl') (fun e' => hne e'.symm)
      · rw [hother i hi] at this; exact this
  · intro i s' hs' hne'
    simp only
    rw [lookup_set]
    have h0 : s'.2 ≠ [] := hs.nonroot s' (List.mem_of_getElem? hs')
    simp only [h0, if_false]
    by_cases hi : i = op.1
    · subst hi
      have e : s' = s := by rw [hsl] at hs'; exact (Option.some.inj hs').symm
      subst e
      simp [htext]
    · have hloc : s'.2 ≠ s.2 := fun e => hi (hs.locs i op.1 s' s hs' hsl e)
      simp only [hloc, if_false]
      rw [hother i hi] at hne' ⊢
      exact hinv.files i s' hs' hne'
  · intro i s' hs' hemp'
    simp only
    by_cases hi : i = op.1
    · subst hi; rw [hsnoc] at hemp'; simp at hemp'
    · have hk : regKey s'.1 ≠ regKey s.1 := fun e => hi (hs.keys i op.1 s' s hs' hsl e)
      rw [regGet_regInsert_ne _ _ _ _ hk]
      rw [hother i hi] at hemp'
      exact hinv.regNone i s' hs' hemp'
  · intro i s' hs' hne'
    simp only
    by_cases hi : i = op.1
    · subst hi
      have e : s' = s := by rw [hsl] at hs'; exact (Option.some.inj hs').symm
      subst e
      obtain ⟨names', hn1, hn2⟩ := regGet_regInsert w.reg (regKey s'.1) op.2.ident
      refine ⟨names', hn1, ?_⟩
      intro n
      rw [hn2 n, hregold n, hsnoc]
      simp only [List.map_append, List.map_cons, List.map_nil, List.mem_append, List.mem_singleton]
      constructor
      · rintro (h | h); exact Or.inr h; exact Or.inl h
      · rintro (h | h); exact Or.inr h; exact Or.inl h
    · have hk : regKey s'.1 ≠ regKey s.1 := fun e => hi (hs.keys i op.1 s' s hs' hsl e)
      rw [regGet_regInsert_ne _ _ _ _ hk]
      rw [hother i hi] at hne' ⊢
      exact hinv.regSome i s' hs' hne'


theorem mem_gensAt (i : Nat) (ops : List Op) (x : GenT) (h : x ∈ gensAt i ops) : ∃ op ∈ ops, op.2 = x := by
  unfold gensAt at h
  obtain ⟨op, hop, rfl⟩ := List.mem_map.mp h
  exact ⟨op, (List.mem_filter.mp hop).1, rfl⟩

theorem gensAt_append (i : Nat) (a b : List Op) : gensAt i (a ++ b) = gensAt i a ++ gensAt i b := by
  simp [gensAt, List.filter_append]

theorem multi_aux (fs0 : Fs) (slots : List Slot) (hs : SlotsOK fs0 slots) : ∀ (ops done : List Op) (w : World),
    MInv fs0 slots done w → OpsOK slots (done ++ ops) →
    ∃ w', runOps slots w ops = (w', true) ∧ MInv fs0 slots (done ++ ops) w'
  | [], done, w, h, _ => ⟨w, rfl, by simpa using h⟩
  | op :: ops, done, w, h, hok => by
    have hr : op.1 < slots.length := hok.inRange op (by simp)
    have hsl : slots[op.1]? = some slots[op.1] := List.getElem?_eq_getElem hr
    have e : done ++ op :: ops = (done ++ [op]) ++ ops := by simp
    have hpre : ∀ i, gensAt i (done ++ op :: ops) = gensAt i (done ++ [op]) ++ gensAt i ops := by
      intro i; rw [e, gensAt_append]
    have hgen : ∀ x ∈ gensAt op.1 (done ++ [op]), GenOK x := by
      intro x hx
      obtain ⟨op', hop', rfl⟩ := mem_gensAt _ _ _ hx
      exact hok.genOK op' (by rw [e]; exact List.mem_append_left _ hop')
    have hnm : ((gensAt op.1 (done ++ [op])).map (·.name)).Nodup := by
      have := hok.names op.1
      rw [hpre, List.map_append] at this
      exact (List.nodup_append.mp this).1
    have hid : ((gensAt op.1 (done ++ [op])).map (·.ident)).Nodup := by
      have := hok.idents op.1
      rw [hpre, List.map_append] at this
      exact (List.nodup_append.mp this).1
    obtain ⟨w1, h1, hinv1⟩ := minv_step fs0 slots hs done op w h slots[op.1] hsl hgen hnm hid
    obtain ⟨w2, h2, hinv2⟩ := multi_aux fs0 slots hs ops (done ++ [op]) w1 hinv1 (by rw [← e]; exact hok)
    refine ⟨w2, ?_, by rw [e]; exact hinv2⟩
    simp only [runOps, hsl, h1, h2]

/-- a process that has not written any of the files yet -/
theorem minv_init (fs0 : Fs) (slots : List Slot) (w : World) (hfs : w.fs = fs0) (hp : w.poisoned = false)
    (hreg : ∀ s ∈ slots, regGet w.reg (regKey s.1) = none) : MInv fs0 slots [] w := by
  refine ⟨hp, by rw [hfs], by intro l; rw [hfs], by intro l _; rw [hfs], ?_, ?_, ?_⟩
  · intro i s _ h; simp [gensAt] at h
  · intro i s hs' _; exact hreg s (List.mem_of_getElem? hs')
  · intro i s _ h; simp [gensAt] at h

/-- **interleaved histories over several files**: every step succeeds and the invariant holds at the end -/
theorem multi_history (slots : List Slot) (w : World) (ops : List Op) (hs : SlotsOK w.fs slots) (hok : OpsOK slots ops)
    (hp : w.poisoned = false) (hreg : ∀ s ∈ slots, regGet w.reg (regKey s.1) = none) :
    ∃ w', runOps slots w ops = (w', true) ∧ MInv w.fs slots ops w' := by
  have := multi_aux w.fs slots hs ops [] w (minv_init w.fs slots w rfl hp hreg) (by simpa using hok)
  simpa using this

theorem gensAt_perm (i : Nat) {a b : List Op} (h : a.Perm b) : (gensAt i a).Perm (gensAt i b) :=
  (h.filter _).map _

theorem opsOK_perm (slots : List Slot) {a b : List Op} (h : a.Perm b) (hok : OpsOK slots a) : OpsOK slots b :=
  ⟨fun op hop => hok.inRange op (h.mem_iff.mpr hop), fun op hop => hok.genOK op (h.mem_iff.mpr hop),
   fun i => ((gensAt_perm i h).map _).nodup_iff.mp (hok.names i), fun i => ((gensAt_perm i h).map _).nodup_iff.mp (hok.idents i)⟩

/-- **the directory depends only on what was exported where**: two interleavings of the same operations end in file
systems that agree at every location -/
theorem multi_order_independent (slots : List Slot) (w : World) (ops₁ ops₂ : List Op) (hperm : ops₁.Perm ops₂)
    (hs : SlotsOK w.fs slots) (hok : OpsOK slots ops₁)
    (hp : w.poisoned = false) (hreg : ∀ s ∈ slots, regGet w.reg (regKey s.1) = none) :
    ∃ w₁ w₂, runOps slots w ops₁ = (w₁, true) ∧ runOps slots w ops₂ = (w₂, true) ∧
      w₁.fs.cwd = w₂.fs.cwd ∧ ∀ l, w₁.fs.lookup l = w₂.fs.lookup l := by
  obtain ⟨w₁, r₁, i₁⟩ := multi_history slots w ops₁ hs hok hp hreg
  obtain ⟨w₂, r₂, i₂⟩ := multi_history slots w ops₂ hs (opsOK_perm slots hperm hok) hp hreg
  refine ⟨w₁, w₂, r₁, r₂, by rw [i₁.cwd, i₂.cwd], ?_⟩
  intro l
  by_cases hex : ∃ (i : Nat) (s : Slot), slots[i]? = some s ∧ s.2 = l ∧ gensAt i ops₁ ≠ []
  · obtain ⟨i, s, hsl, hl, hne⟩ := hex
    have hne₂ : gensAt i ops₂ ≠ [] := by
      intro e
      have := (gensAt_perm i hperm).length_eq
      rw [e] at this
      exact hne (List.eq_nil_of_length_eq_zero (by simpa using this))
    rw [← hl, i₁.files i s hsl hne, i₂.files i s hsl hne₂, canonSt_perm _ _ (gensAt_perm i hperm) (hok.names i)]
  · have hun₁ : ∀ (i : Nat) s, slots[i]? = some s → s.2 = l → gensAt i ops₁ = [] := by
      intro i s hsl hl
      by_cases h : gensAt i ops₁ = []
      · exact h
      · exact absurd ⟨i, s, hsl, hl, h⟩ hex
    have hun₂ : ∀ (i : Nat) s, slots[i]? = some s → s.2 = l → gensAt i ops₂ = [] := by
      intro i s hsl hl
      have := (gensAt_perm i hperm).length_eq
      rw [hun₁ i s hsl hl] at this
      exact List.eq_nil_of_length_eq_zero (by simpa using this.symm)
    rw [i₁.untouched l hun₁, i₂.untouched l hun₂]

end TsRs
