import TsRsVerif.Lemmas.SplitLemmas
/-! `Merge.merge` on the TEXT of a well-formed file = the insertion loop on its blocks. -/
namespace TsRs
open Text Merge

theorem trimStartP_id (p : Char → Bool) : ∀ (s : Str), (∀ c, s.head? = some c → p c = false) → trimStartP p s = s
  | [], _ => rfl
  | c :: cs, h => by simp [trimStartP, h c rfl]

theorem trimNl_id (d : Str) (hs : startsNl d = false) (he : endsNl d = false) : trimNl d = d := by
  unfold trimNl trimP trimEndP
  have h1 : trimStartP (· = '\n') d = d := by
    apply trimStartP_id
    intro c hc
    unfold startsNl at hs
    rw [hc] at hs
    simpa using hs
  rw [h1]
  have h2 : trimStartP (· = '\n') d.reverse = d.reverse := by
    apply trimStartP_id
    intro c hc
    unfold endsNl at he
    rw [List.head?_reverse] at hc
    rw [hc] at he
    simpa using he
  rw [h2, List.reverse_reverse]

theorem trimNl_nl (d : Str) (hs : startsNl d = false) (he : endsNl d = false) (hne : d ≠ []) : trimNl (d ++ ['\n']) = d := by
  unfold trimNl trimP trimEndP
  have h1 : trimStartP (· = '\n') (d ++ ['\n']) = d ++ ['\n'] := by
    apply trimStartP_id
    intro c hc
    cases d with
    | nil => exact absurd rfl hne
    | cons x xs =>
      simp only [List.cons_append, List.head?_cons, Option.some.injEq] at hc
      subst hc
      simpa [startsNl] using hs
  rw [h1]
  simp only [List.reverse_append, List.reverse_cons, List.reverse_nil, List.nil_append, List.singleton_append]
  have h2 : trimStartP (· = '\n') ('\n' :: d.reverse) = d.reverse := by
    simp only [trimStartP, decide_true, ↓reduceIte]
    apply trimStartP_id
    intro c hc
    unfold endsNl at he
    rw [List.head?_reverse] at hc
    rw [hc] at he
    simpa using he
  rw [h2, List.reverse_reverse]

/-- a declaration block as `merge` needs it: no blank line inside, no line break at either end, and the name it is
    sorted under is the one `merge` reads back from the text -/
def BlockOK (n d : Str) : Prop :=
  hasNN d = false ∧ startsNl d = false ∧ endsNl d = false ∧ d ≠ [] ∧ declName d = some n

/-- the declarations part of a file: `D1\n\nD2\n\n…\n\nDk\n` -/
def declsText : List Str → Str
  | [] => []
  | [d] => d ++ ['\n']
  | d :: ds => d ++ '\n' :: '\n' :: declsText ds

theorem declsText_foldr : ∀ (ds : List Str) (dk : Str),
    declsText (ds ++ [dk]) = ds.foldr (fun p acc => p ++ '\n' :: '\n' :: acc) (dk ++ ['\n'])
  | [], dk => rfl
  | d :: ds, dk => by
    cases hds : ds ++ [dk] with
    | nil => simp at hds
    | cons x xs =>
      simp only [List.cons_append, hds, declsText, List.foldr_cons]
      rw [← hds, declsText_foldr ds dk]

theorem hasNN_append_nl : ∀ (d : Str), hasNN d = false → endsNl d = false → hasNN (d ++ ['\n']) = false
  | [], _, _ => by decide
  | [c], hn, he => by
    have hc : c ≠ '\n' := by intro h; subst h; simp [endsNl] at he
    simp only [List.cons_append, List.nil_append]
    rw [hasNN_cons_ne _ _ hc]; decide
  | c :: d :: r, hn, he => by
    have he' : endsNl (d :: r) = false := by simpa [endsNl] using he
    by_cases hc : c = '\n'
    · subst hc
      have hd : d ≠ '\n' := by intro hd; subst hd; rw [hasNN_nn] at hn; cases hn
      rw [hasNN_nl_cons _ _ hd] at hn
      simp only [List.cons_append]
      rw [hasNN_nl_cons _ _ hd]
      exact hasNN_append_nl (d :: r) hn he'
    · rw [hasNN_cons_ne _ _ hc] at hn
      simp only [List.cons_append]
      rw [hasNN_cons_ne _ _ hc]
      exact hasNN_append_nl (d :: r) hn he'

theorem map_eq_self {α : Type} (f : α → α) : ∀ (l : List α), (∀ x ∈ l, f x = x) → l.map f = l
  | [], _ => rfl
  | x :: xs, h => by simp [h x (by simp), map_eq_self f xs (fun y hy => h y (by simp [hy]))]

/-- `split "\n\n"` of the declarations part, each piece trimmed, gives back the blocks -/
theorem split_declsText (ds : List Str) (hne : ds ≠ [])
    (h : ∀ d ∈ ds, hasNN d = false ∧ startsNl d = false ∧ endsNl d = false ∧ d ≠ []) :
    (split nn (declsText ds)).map trimNl = ds := by
  obtain ⟨init, dk, rfl⟩ : ∃ init dk, ds = init ++ [dk] := by
    rcases List.eq_nil_or_concat ds with h0 | ⟨init, dk, rfl⟩
    · exact absurd h0 hne
    · exact ⟨init, dk, by simp⟩
  rw [declsText_foldr]
  have hk := h dk (by simp)
  have hsplit := split_nn_pieces init (dk ++ ['\n'])
    (fun p hp => ⟨(h p (by simp [hp])).1, (h p (by simp [hp])).2.2.1⟩) (hasNN_append_nl dk hk.1 hk.2.2.1)
  rw [hsplit, List.map_append]
  have hinit : init.map trimNl = init :=
    map_eq_self trimNl init (fun p hp => trimNl_id p (h p (by simp [hp])).2.1 (h p (by simp [hp])).2.2.1)
  rw [hinit]
  simp [trimNl_nl dk hk.2.1 hk.2.2.1 hk.2.2.2]

theorem mapM_declName : ∀ (blocks : List (Str × Str)), (∀ b ∈ blocks, declName b.2 = some b.1) →
    (blocks.map (·.2)).mapM (fun d => (declName d).map fun n => (n, d)) = some blocks
  | [], _ => by simp
  | (n, d) :: bs, h => by
    have h1 : declName d = some n := h (n, d) (by simp)
    have ih := mapM_declName bs (fun b hb => h b (by simp [hb]))
    simp only [List.map_cons, List.mapM_cons, h1, Option.map_some, ih, bind, Option.bind, pure]

/-- **the text-level merge is the block-level insertion**: for a file whose header has no blank line and whose
declaration blocks are well-formed, and a new generated text of the same shape,
`merge(file, new)` = imports ++ the blocks with the new one inserted by the loop (which is sorted insertion by
`C05_loop_is_sorted_insert`) -/
theorem merge_text (hdrO hdrN : Str) (blocks : List (Str × Str)) (n d : Str) (parsed : List (Str × List Str))
    (hO : hasNN hdrO = false ∧ endsNl hdrO = false) (hN : hasNN hdrN = false ∧ endsNl hdrN = false)
    (hne : blocks ≠ []) (hb : ∀ b ∈ blocks, BlockOK b.1 b.2) (hnew : BlockOK n d)
    (himp : ((lines hdrO).drop 1 ++ (lines hdrN).drop 1).mapM parseImportLine = some parsed) :
    merge (hdrO ++ '\n' :: '\n' :: declsText (blocks.map (·.2))) (hdrN ++ '\n' :: '\n' :: (d ++ ['\n']))
      = .ok (renderImports (parsed.foldl addLine []) ++ renderDecls (insertLoop n d false blocks)) := by
  unfold merge
  rw [splitOnce_nn hdrO _ hO.1 hO.2, splitOnce_nn hdrN _ hN.1 hN.2]
  simp only [himp]
  obtain ⟨hn1, hn2, hn3, hn4, hn5⟩ := hnew
  rw [trimNl_nl d hn2 hn3 hn4, hn5]
  simp only
  have hds : (split nn (declsText (blocks.map (·.2)))).map trimNl = blocks.map (·.2) :=
    split_declsText (blocks.map (·.2)) (by simpa using hne) (by
      intro x hx
      obtain ⟨b, hbm, rfl⟩ := List.mem_map.mp hx
      obtain ⟨a1, a2, a3, a4, _⟩ := hb b hbm
      exact ⟨a1, a2, a3, a4⟩)
  rw [hds, mapM_declName blocks (fun b hbm => (hb b hbm).2.2.2.2)]

end TsRs
