import TsRsVerif.Lemmas.DeInst
import Std.Data.String.ToInt
/-! The completeness theorem proper: one block of mutually recursive theorems over the derivation of membership. -/
namespace TsRs
open Ts Tree Builtin De

/-- the key types of maps the acceptance model reads -/
def keyOk : RTy → Bool
  | .prim r => (match primClass r with
    | some (.int _ _ _) | some .string | some .char => true
    | _ => false)
  | _ => false

theorem tyOk_map {limit : Nat} {k v : RTy} (h : tyOk limit (.map k v) = true) : keyOk k = true ∧ tyOk limit v = true := by
  simp only [tyOk, Bool.and_eq_true] at h
  exact ⟨by unfold keyOk; exact h.1, h.2⟩

/-- a key that encodes a member of the key's TypeScript type is read back (or fails for its range only) -/
theorem accKey_member (D : Decls) (htab : TableOK) (k : RTy) (K : Ts) (key : Str) (limit : Nat) (nameN : Str → List Ts → Option Ts)
    (hk : keyOk k = true) (hK : nameTyB limit nameN k = some K)
    (h : Member D K (.str key) ∨ ∃ i : Int, (toString i).toList = key ∧ Member D K (.int i)) : accKey k key ≤ 1 := by
  cases k with
  | prim r =>
    simp only [keyOk] at hk
    simp only [nameTyB] at hK
    cases hcl : primClass r with
    | none => simp [hcl] at hk
    | some c =>
      simp only [hcl] at hk
      cases c with
      | int lo hi nz =>
        simp only [accKey, hcl]
        rcases h with h | ⟨i, hi1, hi2⟩
        · have := accPrim_member D htab r _ K _ hcl hK h
          simp [accPrim] at this
        · have hp : (String.ofList key).toInt? = some i := by
            rw [← hi1]; simp
          simp only [hp, hi1, if_true]
          split <;> omega
      | string => simp [accKey, hcl]
      | char =>
        simp only [accKey, hcl]
        split <;> omega
      | float => simp at hk
      | bool => simp at hk
      | unit => simp at hk
  | _ => simp [keyOk] at hk

end TsRs

namespace TsRs
open Ts Tree Builtin De

abbrev accNf (cfg : Cfg) (env : Env) (f : Nat) : Str → List RTy → JVal → Nat := fun id args j => De.accItem cfg env f id args j

theorem nameTyB_map_some {α} {o : Option α} {g : α → Ts} {T : Ts} (h : o.map g = some T) : ∃ x, o = some x ∧ T = g x := by
  cases o with
  | none => simp at h
  | some x => exact ⟨x, rfl, by simpa using h.symm⟩

/-! ### which Rust type expressions have a TypeScript type of a given shape -/

/-- strip the wrappers; the acceptance verdict and the TypeScript type do not change -/
theorem prep (cfg : Cfg) (env : Env) (j : JVal) (t : RTy) (T : Ts) (hT : tyTs cfg env t = some T) (hok : tyOk cfg.limit t = true) :
    ∃ t0, nameTyB cfg.limit (nameN env) t0 = some T ∧ tyOk cfg.limit t0 = true ∧ (∀ w u, t0 ≠ .wrap w u) ∧
      ∀ f, accB (accNf cfg env f) t j = accB (accNf cfg env f) t0 j := by
  have spec := fun f => unwrapTy_spec cfg.limit (nameN env) (accNf cfg env f) j t hok
  exact ⟨unwrapTy t, by rw [(spec 0).1]; exact hT, (spec 0).2.2.1, (spec 0).2.2.2, fun f => ((spec f).2.1).symm⟩

section
variable {limit : Nat} {nameN : Str → List Ts → Option Ts}

theorem nameTyB_named_shape {id : Str} {args : List RTy} {T : Ts} (hN : ∀ id xs T, nameN id xs = some T → ∃ n, T = .ref n xs)
    (h : nameTyB limit nameN (.named id args) = some T) : ∃ n xs, T = .ref n xs := by
  simp only [nameTyB] at h
  cases ha : nameTyBL limit nameN args with
  | none => simp [ha] at h
  | some xs =>
    simp only [ha, Option.bind_some] at h
    obtain ⟨n, e⟩ := hN id xs T h
    exact ⟨n, xs, e⟩

theorem inv_prim (hN : ∀ id xs T, nameN id xs = some T → ∃ n, T = .ref n xs) {t0 : RTy} {T : Ts}
    (h : nameTyB limit nameN t0 = some T) (hnw : ∀ w u, t0 ≠ .wrap w u) (hok : tyOk limit t0 = true)
    (hT : T = .number ∨ T = .bigint ∨ T = .string ∨ T = .boolean ∨ T = .null) : ∃ r, t0 = .prim r ∧ primTs r = some T := by
  cases t0 with
  | prim r => exact ⟨r, rfl, by simpa [nameTyB] using h⟩
  | wrap w u => exact absurd rfl (hnw w u)
  | param n => simp [tyOk] at hok
  | named id args =>
    obtain ⟨n, xs, e⟩ := nameTyB_named_shape hN h
    subst e; simp at hT
  | option u => obtain ⟨x, _, e⟩ := nameTyB_map_some (by simpa [nameTyB] using h); subst e; simp at hT
  | vec u => obtain ⟨x, _, e⟩ := nameTyB_map_some (by simpa [nameTyB] using h); subst e; simp at hT
  | slice u => obtain ⟨x, _, e⟩ := nameTyB_map_some (by simpa [nameTyB] using h); subst e; simp at hT
  | set u => obtain ⟨x, _, e⟩ := nameTyB_map_some (by simpa [nameTyB] using h); subst e; simp at hT
  | arr u n =>
    obtain ⟨x, _, e⟩ := nameTyB_map_some (by simpa [nameTyB] using h)
    subst e; split at hT <;> simp at hT
  | tuple ts => obtain ⟨x, _, e⟩ := nameTyB_map_some (by simpa [nameTyB] using h); subst e; simp at hT
  | range u => obtain ⟨x, _, e⟩ := nameTyB_map_some (by simpa [nameTyB] using h); subst e; simp at hT
  | map k v =>
    simp only [nameTyB, bind, Option.bind, pure] at h
    cases hk : nameTyB limit nameN k <;> simp [hk] at h
    cases hv : nameTyB limit nameN v <;> simp [hv] at h
    subst h; simp at hT
  | result a b =>
    simp only [nameTyB, bind, Option.bind, pure] at h
    cases ha : nameTyB limit nameN a <;> simp [ha] at h
    cases hb : nameTyB limit nameN b <;> simp [hb] at h
    subst h; simp at hT


theorem inv_union (hN : ∀ id xs T, nameN id xs = some T → ∃ n, T = .ref n xs) {t0 : RTy} {xs : List Ts}
    (h : nameTyB limit nameN t0 = some (.union xs)) (hnw : ∀ w u, t0 ≠ .wrap w u) (hok : tyOk limit t0 = true) :
    (∃ u X, t0 = .option u ∧ nameTyB limit nameN u = some X ∧ tyOk limit u = true ∧ xs = [X, .null]) ∨
    (∃ a b A B, t0 = .result a b ∧ nameTyB limit nameN a = some A ∧ nameTyB limit nameN b = some B ∧ tyOk limit a = true ∧ tyOk limit b = true ∧
      xs = [.obj [({ name := "Ok".toList }, A)], .obj [({ name := "Err".toList }, B)]]) := by
  cases t0 with
  | prim r =>
    simp only [nameTyB, primTs] at h
    cases hn : primTsName r with
    | none => simp [hn] at h
    | some n =>
      simp only [hn, Option.bind_some] at h
      unfold tsOfPrimName at h
      split at h <;> simp at h
  | wrap w u => exact absurd rfl (hnw w u)
  | param n => simp [tyOk] at hok
  | named id args => obtain ⟨n, ys, e⟩ := nameTyB_named_shape hN h; cases e
  | option u =>
    simp only [nameTyB] at h
    obtain ⟨x, hx, e⟩ := nameTyB_map_some h
    simp only [Ts.union.injEq] at e
    exact Or.inl ⟨u, x, rfl, hx, by simpa [tyOk] using hok, e⟩
  | vec u =>
    simp only [nameTyB] at h
    obtain ⟨x, _, e⟩ := nameTyB_map_some h
    cases e
  | slice u =>
    simp only [nameTyB] at h
    obtain ⟨x, _, e⟩ := nameTyB_map_some h
    cases e
  | set u =>
    simp only [nameTyB] at h
    obtain ⟨x, _, e⟩ := nameTyB_map_some h
    cases e
  | arr u n =>
    simp only [nameTyB] at h
    obtain ⟨x, _, e⟩ := nameTyB_map_some h
    split at e <;> cases e
  | tuple ts =>
    simp only [nameTyB] at h
    obtain ⟨x, _, e⟩ := nameTyB_map_some h
    cases e
  | range u =>
    simp only [nameTyB] at h
    obtain ⟨x, _, e⟩ := nameTyB_map_some h
    cases e
  | map k v =>
    simp only [nameTyB, bind, Option.bind, pure] at h
    cases h1 : nameTyB limit nameN k with
    | none => simp [h1] at h
    | some X1 =>
      cases h2 : nameTyB limit nameN v with
      | none => simp [h1, h2] at h
      | some X2 => simp only [h1, h2, Option.some.injEq] at h; cases h
  | result a b =>
    simp only [nameTyB, bind, Option.bind, pure] at h
    cases h1 : nameTyB limit nameN a with
    | none => simp [h1] at h
    | some A =>
      cases h2 : nameTyB limit nameN b with
      | none => simp [h1, h2] at h
      | some B =>
        simp only [h1, h2, Option.some.injEq, Ts.union.injEq] at h
        simp only [tyOk, Bool.and_eq_true] at hok
        exact Or.inr ⟨a, b, A, B, rfl, h1, h2, hok.1, hok.2, h.symm⟩

theorem inv_array (hN : ∀ id xs T, nameN id xs = some T → ∃ n, T = .ref n xs) {t0 : RTy} {X : Ts}
    (h : nameTyB limit nameN t0 = some (.array X)) (hnw : ∀ w u, t0 ≠ .wrap w u) (hok : tyOk limit t0 = true) :
    ∃ u, (t0 = .vec u ∨ t0 = .slice u ∨ t0 = .set u) ∧ nameTyB limit nameN u = some X ∧ tyOk limit u = true := by
  cases t0 with
  | prim r =>
    simp only [nameTyB, primTs] at h
    cases hn : primTsName r with
    | none => simp [hn] at h
    | some n =>
      simp only [hn, Option.bind_some] at h
      unfold tsOfPrimName at h
      split at h <;> simp at h
  | wrap w u => exact absurd rfl (hnw w u)
  | param n => simp [tyOk] at hok
  | named id args => obtain ⟨n, ys, e⟩ := nameTyB_named_shape hN h; cases e
  | option u =>
    simp only [nameTyB] at h
    obtain ⟨x, _, e⟩ := nameTyB_map_some h
    cases e
  | vec u =>
    simp only [nameTyB] at h
    obtain ⟨x, hx, e⟩ := nameTyB_map_some h
    simp only [Ts.array.injEq] at e; subst e
    exact ⟨u, Or.inl rfl, hx, by simpa [tyOk] using hok⟩
  | slice u =>
    simp only [nameTyB] at h
    obtain ⟨x, hx, e⟩ := nameTyB_map_some h
    simp only [Ts.array.injEq] at e; subst e
    exact ⟨u, Or.inr (Or.inl rfl), hx, by simpa [tyOk] using hok⟩
  | set u =>
    simp only [nameTyB] at h
    obtain ⟨x, hx, e⟩ := nameTyB_map_some h
    simp only [Ts.array.injEq] at e; subst e
    exact ⟨u, Or.inr (Or.inr rfl), hx, by simpa [tyOk] using hok⟩
  | arr u n =>
    simp only [nameTyB] at h
    obtain ⟨x, _, e⟩ := nameTyB_map_some h
    simp only [tyOk, Bool.and_eq_true, decide_eq_true_eq] at hok
    have : ¬ n > limit := by omega
    simp only [this, if_false] at e
    cases e
  | tuple ts =>
    simp only [nameTyB] at h
    obtain ⟨x, _, e⟩ := nameTyB_map_some h
    cases e
  | range u =>
    simp only [nameTyB] at h
    obtain ⟨x, _, e⟩ := nameTyB_map_some h
    cases e
  | map k v =>
    simp only [nameTyB, bind, Option.bind, pure] at h
    cases h1 : nameTyB limit nameN k with
    | none => simp [h1] at h
    | some X1 =>
      cases h2 : nameTyB limit nameN v with
      | none => simp [h1, h2] at h
      | some X2 => simp only [h1, h2, Option.some.injEq] at h; cases h
  | result a b =>
    simp only [nameTyB, bind, Option.bind, pure] at h
    cases h1 : nameTyB limit nameN a with
    | none => simp [h1] at h
    | some X1 =>
      cases h2 : nameTyB limit nameN b with
      | none => simp [h1, h2] at h
      | some X2 => simp only [h1, h2, Option.some.injEq] at h; cases h

theorem inv_tuple (hN : ∀ id xs T, nameN id xs = some T → ∃ n, T = .ref n xs) {t0 : RTy} {Xs : List Ts}
    (h : nameTyB limit nameN t0 = some (.tuple Xs)) (hnw : ∀ w u, t0 ≠ .wrap w u) (hok : tyOk limit t0 = true) :
    (∃ u n X, t0 = .arr u n ∧ nameTyB limit nameN u = some X ∧ Xs = List.replicate n X ∧ tyOk limit u = true) ∨
    (∃ ts, t0 = .tuple ts ∧ nameTyBL limit nameN ts = some Xs ∧ tyOkL limit ts = true) := by
  cases t0 with
  | prim r =>
    simp only [nameTyB, primTs] at h
    cases hn : primTsName r with
    | none => simp [hn] at h
    | some n =>
      simp only [hn, Option.bind_some] at h
      unfold tsOfPrimName at h
      split at h <;> simp at h
  | wrap w u => exact absurd rfl (hnw w u)
  | param n => simp [tyOk] at hok
  | named id args => obtain ⟨n, ys, e⟩ := nameTyB_named_shape hN h; cases e
  | option u =>
    simp only [nameTyB] at h
    obtain ⟨x, _, e⟩ := nameTyB_map_some h
    cases e
  | vec u =>
    simp only [nameTyB] at h
    obtain ⟨x, _, e⟩ := nameTyB_map_some h
    cases e
  | slice u =>
    simp only [nameTyB] at h
    obtain ⟨x, _, e⟩ := nameTyB_map_some h
    cases e
  | set u =>
    simp only [nameTyB] at h
    obtain ⟨x, _, e⟩ := nameTyB_map_some h
    cases e
  | arr u n =>
    simp only [nameTyB] at h
    obtain ⟨x, hx, e⟩ := nameTyB_map_some h
    simp only [tyOk, Bool.and_eq_true, decide_eq_true_eq] at hok
    have : ¬ n > limit := by omega
    simp only [this, if_false, Ts.tuple.injEq] at e
    exact Or.inl ⟨u, n, x, rfl, hx, e, hok.2⟩
  | tuple ts =>
    simp only [nameTyB] at h
    obtain ⟨x, hx, e⟩ := nameTyB_map_some h
    simp only [Ts.tuple.injEq] at e; subst e
    exact Or.inr ⟨ts, rfl, hx, by simpa [tyOk] using hok⟩
  | range u =>
    simp only [nameTyB] at h
    obtain ⟨x, _, e⟩ := nameTyB_map_some h
    cases e
  | map k v =>
    simp only [nameTyB, bind, Option.bind, pure] at h
    cases h1 : nameTyB limit nameN k with
    | none => simp [h1] at h
    | some X1 =>
      cases h2 : nameTyB limit nameN v with
      | none => simp [h1, h2] at h
      | some X2 => simp only [h1, h2, Option.some.injEq] at h; cases h
  | result a b =>
    simp only [nameTyB, bind, Option.bind, pure] at h
    cases h1 : nameTyB limit nameN a with
    | none => simp [h1] at h
    | some X1 =>
      cases h2 : nameTyB limit nameN b with
      | none => simp [h1, h2] at h
      | some X2 => simp only [h1, h2, Option.some.injEq] at h; cases h

theorem inv_mapped (hN : ∀ id xs T, nameN id xs = some T → ∃ n, T = .ref n xs) {t0 : RTy} {K V : Ts}
    (h : nameTyB limit nameN t0 = some (.mapped K V)) (hnw : ∀ w u, t0 ≠ .wrap w u) (hok : tyOk limit t0 = true) :
    ∃ k v, t0 = .map k v ∧ nameTyB limit nameN k = some K ∧ nameTyB limit nameN v = some V ∧ keyOk k = true ∧ tyOk limit v = true := by
  cases t0 with
  | prim r =>
    simp only [nameTyB, primTs] at h
    cases hn : primTsName r with
    | none => simp [hn] at h
    | some n =>
      simp only [hn, Option.bind_some] at h
      unfold tsOfPrimName at h
      split at h <;> simp at h
  | wrap w u => exact absurd rfl (hnw w u)
  | param n => simp [tyOk] at hok
  | named id args => obtain ⟨n, ys, e⟩ := nameTyB_named_shape hN h; cases e
  | option u =>
    simp only [nameTyB] at h
    obtain ⟨x, _, e⟩ := nameTyB_map_some h
    cases e
  | vec u =>
    simp only [nameTyB] at h
    obtain ⟨x, _, e⟩ := nameTyB_map_some h
    cases e
  | slice u =>
    simp only [nameTyB] at h
    obtain ⟨x, _, e⟩ := nameTyB_map_some h
    cases e
  | set u =>
    simp only [nameTyB] at h
    obtain ⟨x, _, e⟩ := nameTyB_map_some h
    cases e
  | arr u n =>
    simp only [nameTyB] at h
    obtain ⟨x, _, e⟩ := nameTyB_map_some h
    split at e <;> cases e
  | tuple ts =>
    simp only [nameTyB] at h
    obtain ⟨x, _, e⟩ := nameTyB_map_some h
    cases e
  | range u =>
    simp only [nameTyB] at h
    obtain ⟨x, _, e⟩ := nameTyB_map_some h
    cases e
  | map k v =>
    simp only [nameTyB, bind, Option.bind, pure] at h
    cases hk : nameTyB limit nameN k with
    | none => simp [hk] at h
    | some K' =>
      cases hv : nameTyB limit nameN v with
      | none => simp [hk, hv] at h
      | some V' =>
        simp only [hk, hv, Option.some.injEq, Ts.mapped.injEq] at h
        obtain ⟨rfl, rfl⟩ := h
        obtain ⟨h1, h2⟩ := tyOk_map hok
        exact ⟨k, v, rfl, hk, hv, h1, h2⟩
  | result a b =>
    simp only [nameTyB, bind, Option.bind, pure] at h
    cases h1 : nameTyB limit nameN a with
    | none => simp [h1] at h
    | some X1 =>
      cases h2 : nameTyB limit nameN b with
      | none => simp [h1, h2] at h
      | some X2 => simp only [h1, h2, Option.some.injEq] at h; cases h

theorem inv_obj (hN : ∀ id xs T, nameN id xs = some T → ∃ n, T = .ref n xs) {t0 : RTy} {fs : List (TsKey × Ts)}
    (h : nameTyB limit nameN t0 = some (.obj fs)) (hnw : ∀ w u, t0 ≠ .wrap w u) (hok : tyOk limit t0 = true) :
    ∃ u X, t0 = .range u ∧ nameTyB limit nameN u = some X ∧ tyOk limit u = true ∧
      fs = [({ name := "start".toList }, X), ({ name := "end".toList }, X)] := by
  cases t0 with
  | prim r =>
    simp only [nameTyB, primTs] at h
    cases hn : primTsName r with
    | none => simp [hn] at h
    | some n =>
      simp only [hn, Option.bind_some] at h
      unfold tsOfPrimName at h
      split at h <;> simp at h
  | wrap w u => exact absurd rfl (hnw w u)
  | param n => simp [tyOk] at hok
  | named id args => obtain ⟨n, ys, e⟩ := nameTyB_named_shape hN h; cases e
  | option u =>
    simp only [nameTyB] at h
    obtain ⟨x, _, e⟩ := nameTyB_map_some h
    cases e
  | vec u =>
    simp only [nameTyB] at h
    obtain ⟨x, _, e⟩ := nameTyB_map_some h
    cases e
  | slice u =>
    simp only [nameTyB] at h
    obtain ⟨x, _, e⟩ := nameTyB_map_some h
    cases e
  | set u =>
    simp only [nameTyB] at h
    obtain ⟨x, _, e⟩ := nameTyB_map_some h
    cases e
  | arr u n =>
    simp only [nameTyB] at h
    obtain ⟨x, _, e⟩ := nameTyB_map_some h
    split at e <;> cases e
  | tuple ts =>
    simp only [nameTyB] at h
    obtain ⟨x, _, e⟩ := nameTyB_map_some h
    cases e
  | range u =>
    simp only [nameTyB] at h
    obtain ⟨x, hx, e⟩ := nameTyB_map_some h
    simp only [Ts.obj.injEq] at e
    exact ⟨u, x, rfl, hx, by simpa [tyOk] using hok, e⟩
  | map k v =>
    simp only [nameTyB, bind, Option.bind, pure] at h
    cases h1 : nameTyB limit nameN k with
    | none => simp [h1] at h
    | some X1 =>
      cases h2 : nameTyB limit nameN v with
      | none => simp [h1, h2] at h
      | some X2 => simp only [h1, h2, Option.some.injEq] at h; cases h
  | result a b =>
    simp only [nameTyB, bind, Option.bind, pure] at h
    cases h1 : nameTyB limit nameN a with
    | none => simp [h1] at h
    | some X1 =>
      cases h2 : nameTyB limit nameN b with
      | none => simp [h1, h2] at h
      | some X2 => simp only [h1, h2, Option.some.injEq] at h; cases h

theorem inv_ref (hN : ∀ id xs T, nameN id xs = some T → ∃ n, T = .ref n xs) {t0 : RTy} {n : Str} {xs : List Ts}
    (h : nameTyB limit nameN t0 = some (.ref n xs)) (hnw : ∀ w u, t0 ≠ .wrap w u) (hok : tyOk limit t0 = true) :
    ∃ id args targs, t0 = .named id args ∧ tyOkL limit args = true ∧ nameTyBL limit nameN args = some targs ∧ nameN id targs = some (.ref n xs) := by
  cases t0 with
  | prim r =>
    simp only [nameTyB, primTs] at h
    cases hn : primTsName r with
    | none => simp [hn] at h
    | some n =>
      simp only [hn, Option.bind_some] at h
      unfold tsOfPrimName at h
      split at h <;> simp at h
  | wrap w u => exact absurd rfl (hnw w u)
  | param n => simp [tyOk] at hok
  | named id args =>
    simp only [tyOk] at hok
    simp only [nameTyB] at h
    cases ha : nameTyBL limit nameN args with
    | none => simp [ha] at h
    | some targs =>
      simp only [ha, Option.bind_some] at h
      exact ⟨id, args, targs, rfl, hok, ha, h⟩
  | option u =>
    simp only [nameTyB] at h
    obtain ⟨x, _, e⟩ := nameTyB_map_some h
    cases e
  | vec u =>
    simp only [nameTyB] at h
    obtain ⟨x, _, e⟩ := nameTyB_map_some h
    cases e
  | slice u =>
    simp only [nameTyB] at h
    obtain ⟨x, _, e⟩ := nameTyB_map_some h
    cases e
  | set u =>
    simp only [nameTyB] at h
    obtain ⟨x, _, e⟩ := nameTyB_map_some h
    cases e
  | arr u n =>
    simp only [nameTyB] at h
    obtain ⟨x, _, e⟩ := nameTyB_map_some h
    split at e <;> cases e
  | tuple ts =>
    simp only [nameTyB] at h
    obtain ⟨x, _, e⟩ := nameTyB_map_some h
    cases e
  | range u =>
    simp only [nameTyB] at h
    obtain ⟨x, _, e⟩ := nameTyB_map_some h
    cases e
  | map k v =>
    simp only [nameTyB, bind, Option.bind, pure] at h
    cases h1 : nameTyB limit nameN k with
    | none => simp [h1] at h
    | some X1 =>
      cases h2 : nameTyB limit nameN v with
      | none => simp [h1, h2] at h
      | some X2 => simp only [h1, h2, Option.some.injEq] at h; cases h
  | result a b =>
    simp only [nameTyB, bind, Option.bind, pure] at h
    cases h1 : nameTyB limit nameN a with
    | none => simp [h1] at h
    | some X1 =>
      cases h2 : nameTyB limit nameN b with
      | none => simp [h1, h2] at h
      | some X2 => simp only [h1, h2, Option.some.injEq] at h; cases h

/-- shapes no library type has -/
theorem inv_none (hN : ∀ id xs T, nameN id xs = some T → ∃ n, T = .ref n xs) {t0 : RTy} {T : Ts}
    (h : nameTyB limit nameN t0 = some T) (hnw : ∀ w u, t0 ≠ .wrap w u) (hok : tyOk limit t0 = true)
    (hT : (∃ s, T = .lit s) ∨ T = .neverArray ∨ T = .emptyRecord ∨ (∃ ts, T = .inter ts) ∨ (∃ x, T = .paren x)) : False := by
  cases t0 with
  | prim r =>
    simp only [nameTyB, primTs] at h
    cases hn : primTsName r with
    | none => simp [hn] at h
    | some n =>
      simp only [hn, Option.bind_some] at h
      unfold tsOfPrimName at h
      split at h <;> simp at h <;> subst h <;> simp at hT
  | wrap w u => exact absurd rfl (hnw w u)
  | param n => simp [tyOk] at hok
  | named id args => obtain ⟨n, ys, e⟩ := nameTyB_named_shape hN h; subst e; simp at hT
  | option u => obtain ⟨x, _, e⟩ := nameTyB_map_some (by simpa [nameTyB] using h); subst e; simp at hT
  | vec u => obtain ⟨x, _, e⟩ := nameTyB_map_some (by simpa [nameTyB] using h); subst e; simp at hT
  | slice u => obtain ⟨x, _, e⟩ := nameTyB_map_some (by simpa [nameTyB] using h); subst e; simp at hT
  | set u => obtain ⟨x, _, e⟩ := nameTyB_map_some (by simpa [nameTyB] using h); subst e; simp at hT
  | arr u n => obtain ⟨x, _, e⟩ := nameTyB_map_some (by simpa [nameTyB] using h); subst e; split at hT <;> simp at hT
  | tuple ts => obtain ⟨x, _, e⟩ := nameTyB_map_some (by simpa [nameTyB] using h); subst e; simp at hT
  | range u => obtain ⟨x, _, e⟩ := nameTyB_map_some (by simpa [nameTyB] using h); subst e; simp at hT
  | map k v =>
    simp only [nameTyB, bind, Option.bind, pure] at h
    cases hk : nameTyB limit nameN k <;> simp [hk] at h
    cases hv : nameTyB limit nameN v <;> simp [hv] at h
    subst h; simp at hT
  | result a b =>
    simp only [nameTyB, bind, Option.bind, pure] at h
    cases ha : nameTyB limit nameN a <;> simp [ha] at h
    cases hb : nameTyB limit nameN b <;> simp [hb] at h
    subst h; simp at hT

end

/-- the references the tree-level derive writes -/
theorem nameN_ref (env : Env) : ∀ id xs T, nameN env id xs = some T → ∃ n, T = .ref n xs := by
  intro id xs T h
  unfold nameN at h
  cases hf : env.find id with
  | none => simp [hf] at h
  | some it =>
    simp only [hf, Option.bind_some] at h
    split at h
    · simp only [Option.some.injEq] at h; exact ⟨_, h.symm⟩
    · cases h

/-! ### the Rust field lists behind a list of TypeScript properties -/

/-- all fields skipped -/
theorem fieldsTs_nil_inv (cfg : Cfg) (env : Env) (ra : Option Rule) (of : Opt) : ∀ (fields : List Field),
    fieldsTs cfg env ra of fields = some [] → ∀ f ∈ fields, f.attr.skip = true
  | [], _, _, h => by simp at h
  | fld :: rest, hfs, f, hf => by
    simp only [fieldsTs, bind, Option.bind] at hfs
    cases hr : fieldsTs cfg env ra of rest with
    | none => simp [hr] at hfs
    | some r =>
      simp only [hr] at hfs
      by_cases hsk : fld.attr.skip = true
      · simp only [hsk, if_true, pure, Option.some.injEq] at hfs
        subst hfs
        rcases List.mem_cons.mp hf with rfl | h'
        · exact hsk
        · exact fieldsTs_nil_inv cfg env ra of rest hr f h'
      · simp only [hsk, Bool.false_eq_true, if_false] at hfs
        cases ht : tyTs cfg env (if (optMode of fld).2 then fld.ty else Derive.optionInner fld.ty) <;> simp [ht, pure] at hfs

/-- the first property belongs to the first non-skipped field -/
theorem fieldsTs_cons_inv (cfg : Cfg) (env : Env) (ra : Option Rule) (of : Opt) : ∀ (fields : List Field) (K : TsKey) (T : Ts) (rest : List (TsKey × Ts)),
    fieldsTs cfg env ra of fields = some ((K, T) :: rest) →
    ∃ pre fld more, fields = pre ++ fld :: more ∧ (∀ f ∈ pre, f.attr.skip = true) ∧ fld.attr.skip = false ∧
      K = { name := fieldKey cfg ra fld, optional := (optMode of fld).1 } ∧
      tyTs cfg env (if (optMode of fld).2 then fld.ty else Derive.optionInner fld.ty) = some T ∧ fieldsTs cfg env ra of more = some rest
  | [], _, _, _, h => by simp [fieldsTs] at h
  | fld :: fs, K, T, rest, hfs => by
    simp only [fieldsTs, bind, Option.bind] at hfs
    cases hr : fieldsTs cfg env ra of fs with
    | none => simp [hr] at hfs
    | some r =>
      simp only [hr] at hfs
      by_cases hsk : fld.attr.skip = true
      · simp only [hsk, if_true, pure, Option.some.injEq] at hfs
        subst hfs
        obtain ⟨pre, f0, more, e, hpre, h0, hK, hT, hm⟩ := fieldsTs_cons_inv cfg env ra of fs K T rest hr
        exact ⟨fld :: pre, f0, more, by rw [e]; rfl, by
          intro f hf
          rcases List.mem_cons.mp hf with rfl | h'
          · exact hsk
          · exact hpre f h', h0, hK, hT, hm⟩
      · have hsk' : fld.attr.skip = false := by simpa using hsk
        simp only [hsk', Bool.false_eq_true, if_false] at hfs
        cases ht : tyTs cfg env (if (optMode of fld).2 then fld.ty else Derive.optionInner fld.ty) with
        | none => simp [ht] at hfs
        | some T' =>
          simp only [ht, pure, Option.some.injEq, List.cons.injEq, Prod.mk.injEq] at hfs
          obtain ⟨⟨hK, hT⟩, hrest⟩ := hfs
          exact ⟨[], fld, fs, rfl, by simp, hsk', hK.symm, by rw [← hT]; exact ht, by rw [← hrest]; exact hr⟩

theorem tupleTs_nil_inv (cfg : Cfg) (env : Env) : ∀ (fields : List Field), tupleTs cfg env fields = some [] → ∀ f ∈ fields, f.attr.skip = true
  | [], _, _, h => by simp at h
  | fld :: rest, hfs, f, hf => by
    simp only [tupleTs, bind, Option.bind] at hfs
    cases hr : tupleTs cfg env rest with
    | none => simp [hr] at hfs
    | some r =>
      simp only [hr] at hfs
      by_cases hsk : fld.attr.skip = true
      · simp only [hsk, if_true, pure, Option.some.injEq] at hfs
        subst hfs
        rcases List.mem_cons.mp hf with rfl | h'
        · exact hsk
        · exact tupleTs_nil_inv cfg env rest hr f h'
      · simp only [hsk, Bool.false_eq_true, if_false] at hfs
        cases ht : tyTs cfg env fld.ty <;> simp [ht, pure] at hfs

theorem tupleTs_cons_inv (cfg : Cfg) (env : Env) : ∀ (fields : List Field) (T : Ts) (rest : List Ts),
    tupleTs cfg env fields = some (T :: rest) →
    ∃ pre fld more, fields = pre ++ fld :: more ∧ (∀ f ∈ pre, f.attr.skip = true) ∧ fld.attr.skip = false ∧
      tyTs cfg env fld.ty = some T ∧ tupleTs cfg env more = some rest
  | [], _, _, h => by simp [tupleTs] at h
  | fld :: fs, T, rest, hfs => by
    simp only [tupleTs, bind, Option.bind] at hfs
    cases hr : tupleTs cfg env fs with
    | none => simp [hr] at hfs
    | some r =>
      simp only [hr] at hfs
      by_cases hsk : fld.attr.skip = true
      · simp only [hsk, if_true, pure, Option.some.injEq] at hfs
        subst hfs
        obtain ⟨pre, f0, more, e, hpre, h0, hT, hm⟩ := tupleTs_cons_inv cfg env fs T rest hr
        exact ⟨fld :: pre, f0, more, by rw [e]; rfl, by
          intro f hf
          rcases List.mem_cons.mp hf with rfl | h'
          · exact hsk
          · exact hpre f h', h0, hT, hm⟩
      · have hsk' : fld.attr.skip = false := by simpa using hsk
        simp only [hsk', Bool.false_eq_true, if_false] at hfs
        cases ht : tyTs cfg env fld.ty with
        | none => simp [ht] at hfs
        | some T' =>
          simp only [ht, pure, Option.some.injEq, List.cons.injEq] at hfs
          obtain ⟨hT, hrest⟩ := hfs
          exact ⟨[], fld, fs, rfl, by simp, hsk', by rw [← hT]; exact ht, by rw [← hrest]; exact hr⟩

/-- an arm of the union belongs to a variant that is not skipped -/
theorem variantsTs_arm_inv (cfg : Cfg) (env : Env) (it : Item) : ∀ (vs : List Variant) (arms : List Ts) (arm : Ts),
    variantsTs cfg env it vs = some arms → arm ∈ arms → ∃ var, var ∈ vs ∧ var.attr.skip = false ∧ variantTs cfg env it var = some arm
  | [], _, _, h, hm => by simp [variantsTs] at h; subst h; simp at hm
  | v :: vs, arms, arm, ha, hm => by
    simp only [variantsTs, bind, Option.bind] at ha
    cases hr : variantsTs cfg env it vs with
    | none => simp [hr] at ha
    | some rest =>
      simp only [hr] at ha
      by_cases hsk : v.attr.skip = true
      · simp only [hsk, if_true, pure, Option.some.injEq] at ha
        subst ha
        obtain ⟨var, h1, h2, h3⟩ := variantsTs_arm_inv cfg env it vs rest arm hr hm
        exact ⟨var, by simp [h1], h2, h3⟩
      · have hsk' : v.attr.skip = false := by simpa using hsk
        simp only [hsk', Bool.false_eq_true, if_false] at ha
        cases hv : variantTs cfg env it v with
        | none => simp [hv] at ha
        | some Tv =>
          simp only [hv, pure, Option.some.injEq] at ha
          subst ha
          rcases List.mem_cons.mp hm with rfl | h'
          · exact ⟨v, by simp, hsk', hv⟩
          · obtain ⟨var, h1, h2, h3⟩ := variantsTs_arm_inv cfg env it vs rest arm hr h'
            exact ⟨var, by simp [h1], h2, h3⟩

/-! ### skipped fields in front do not matter to the acceptance model -/

theorem accNamed_skip_prefix (cfg : Cfg) (env : Env) (ra : Option Rule) (kvs : List (Str × JVal)) (l : List Field) : ∀ (pre : List Field),
    (∀ f ∈ pre, f.attr.skip = true) → Good (fun f => accNamed cfg env f [] ra l kvs) → Good (fun f => accNamed cfg env f [] ra (pre ++ l) kvs)
  | [], _, h => h
  | p :: pre, hp, h => by
    have ih := accNamed_skip_prefix cfg env ra kvs l pre (fun f hf => hp f (by simp [hf])) h
    refine Good.congr (Good.shift ih) (fun f => ?_)
    cases f with
    | zero => simp [accNamed]
    | succ f' => simp [accNamed, hp p (by simp)]

theorem accTuple_skip_prefix (cfg : Cfg) (env : Env) (js : List JVal) (l : List Field) : ∀ (pre : List Field),
    (∀ f ∈ pre, f.attr.skip = true) → Good (fun f => accTuple cfg env f [] l js) → Good (fun f => accTuple cfg env f [] (pre ++ l) js)
  | [], _, h => h
  | p :: pre, hp, h => by
    have ih := accTuple_skip_prefix cfg env js l pre (fun f hf => hp f (by simp [hf])) h
    refine Good.congr (Good.shift ih) (fun f => ?_)
    cases f with
    | zero => simp [accTuple]
    | succ f' => simp [accTuple, hp p (by simp)]

theorem accNamed_all_skipped (cfg : Cfg) (env : Env) (ra : Option Rule) (kvs : List (Str × JVal)) (fields : List Field)
    (h : ∀ f ∈ fields, f.attr.skip = true) : Good (fun f => accNamed cfg env f [] ra fields kvs) := by
  have := accNamed_skip_prefix cfg env ra kvs [] fields h ⟨1, fun f hf => by
    cases f with
    | zero => omega
    | succ f' => simp [accNamed]⟩
  simpa using this

theorem accTuple_all_skipped (cfg : Cfg) (env : Env) (fields : List Field)
    (h : ∀ f ∈ fields, f.attr.skip = true) : Good (fun f => accTuple cfg env f [] fields []) := by
  have := accTuple_skip_prefix cfg env [] [] fields h ⟨1, fun f hf => by
    cases f with
    | zero => omega
    | succ f' => simp [accTuple]⟩
  simpa using this

/-- what `structBody` can be (a newtype is handled by the caller) -/
theorem structBody_cases (cfg : Cfg) (env : Env) (ra : Option Rule) (of : Opt) (tag : Option (Str × Str)) (shape : Shape) (fields : List Field) (T : Ts)
    (h : structBody cfg env ra of tag shape fields = some T) (hnt : shape = .tuple → fields.length ≠ 1) :
    (shape = .unit ∧ T = .null) ∨
    (shape = .named ∧ fields = [] ∧ tag = none ∧ T = .emptyRecord) ∨
    (shape = .named ∧ ∃ fs, fieldsTs cfg env ra of fields = some fs ∧
        ((tag = none ∧ T = .obj fs) ∨ ∃ t n, tag = some (t, n) ∧ T = .obj ((({ name := t } : TsKey), Ts.lit n) :: fs))) ∨
    (shape = .tuple ∧ fields = [] ∧ T = .neverArray) ∨
    (shape = .tuple ∧ ∃ Xs, tupleTs cfg env fields = some Xs ∧ T = .tuple Xs) := by
  cases shape with
  | unit => simp only [structBody, Option.some.injEq] at h; exact Or.inl ⟨rfl, h.symm⟩
  | named =>
    simp only [structBody] at h
    by_cases hemp : (fields.isEmpty && tag.isNone) = true
    · simp only [hemp, if_true, Option.some.injEq] at h
      simp only [Bool.and_eq_true, List.isEmpty_iff, Option.isNone_iff_eq_none] at hemp
      exact Or.inr (Or.inl ⟨rfl, hemp.1, hemp.2, h.symm⟩)
    · simp only [hemp, Bool.false_eq_true, if_false, bind, Option.bind] at h
      cases hfs : fieldsTs cfg env ra of fields with
      | none => simp [hfs] at h
      | some fs =>
        simp only [hfs, pure, Option.some.injEq] at h
        refine Or.inr (Or.inr (Or.inl ⟨rfl, fs, rfl, ?_⟩))
        cases tag with
        | none => exact Or.inl ⟨rfl, by simpa using h.symm⟩
        | some tn => obtain ⟨t, n⟩ := tn; exact Or.inr ⟨t, n, rfl, by simpa using h.symm⟩
  | tuple =>
    simp only [structBody] at h
    match fields, h, hnt with
    | [], h, _ => simp only [Option.some.injEq] at h; exact Or.inr (Or.inr (Or.inr (Or.inl ⟨rfl, rfl, h.symm⟩)))
    | [f], _, hnt => exact absurd rfl (hnt rfl)
    | f1 :: f2 :: rest, h, _ =>
      obtain ⟨Xs, hXs, e⟩ := nameTyB_map_some h
      exact Or.inr (Or.inr (Or.inr (Or.inr ⟨rfl, Xs, hXs, e⟩)))

/-- the variant found under its own key (variant keys are distinct) -/
theorem find_by_key {α} (key : α → Str) : ∀ (l : List α) (x : α), (l.map key).Nodup → x ∈ l → l.find? (fun v => key v = key x) = some x
  | [], _, _, h => by cases h
  | y :: ys, x, hnd, hm => by
    simp only [List.map_cons, List.nodup_cons] at hnd
    rcases List.mem_cons.mp hm with rfl | h'
    · simp
    · have hne : key y ≠ key x := fun e => hnd.1 (by rw [e]; exact List.mem_map.mpr ⟨x, h', rfl⟩)
      simp only [List.find?_cons, hne, decide_false]
      exact find_by_key key ys x hnd.2 h'

/-- what `variantTs` can be for a variant that is tagged (no `untagged` on the enum or the variant) -/
theorem variantTs_cases (cfg : Cfg) (env : Env) (it : Item) (var : Variant) (A : Ts)
    (h : variantTs cfg env it var = some A) (hvu : var.attr.untagged = false) (hiu : it.attr.untagged = false) :
    (it.attr.tag = none ∧ var.unitLike = true ∧ A = .lit (Derive.variantTsName cfg it.attr.renameAll var)) ∨
    (it.attr.tag = none ∧ var.unitLike = false ∧ ∃ C, structBody cfg env (renameAllT it var) .no none var.shape var.fields = some C ∧
        A = .obj [(({ name := Derive.variantTsName cfg it.attr.renameAll var } : TsKey), C)]) ∨
    (∃ t c, it.attr.tag = some t ∧ it.attr.content = some c ∧ var.unitLike = true ∧
        A = .obj [(({ name := t } : TsKey), .lit (Derive.variantTsName cfg it.attr.renameAll var))]) ∨
    (∃ t c, it.attr.tag = some t ∧ it.attr.content = some c ∧ var.unitLike = false ∧
        ∃ C, structBody cfg env (renameAllT it var) .no none var.shape var.fields = some C ∧
        A = .obj [(({ name := t } : TsKey), .lit (Derive.variantTsName cfg it.attr.renameAll var)), (({ name := c } : TsKey), C)]) ∨
    (∃ t, it.attr.tag = some t ∧ it.attr.content = none ∧ var.unitLike = true ∧
        A = .obj [(({ name := t } : TsKey), .lit (Derive.variantTsName cfg it.attr.renameAll var))]) ∨
    (∃ t, it.attr.tag = some t ∧ it.attr.content = none ∧ var.unitLike = false ∧ var.shape = .named ∧
        structBody cfg env (renameAllT it var) .no (some (t, Derive.variantTsName cfg it.attr.renameAll var)) var.shape var.fields = some A) := by
  unfold variantTs at h
  simp only [hvu, Bool.false_eq_true, if_false] at h
  unfold Derive.tagged at h
  rw [hiu] at h
  cases htag : it.attr.tag with
  | none =>
    simp only [htag] at h
    by_cases hu : var.unitLike = true
    · simp only [hu, if_true, Option.some.injEq] at h
      exact Or.inl ⟨rfl, hu, h.symm⟩
    · have hu' : var.unitLike = false := by simpa using hu
      simp only [hu', Bool.false_eq_true, if_false] at h
      obtain ⟨C, hC, e⟩ := nameTyB_map_some h
      exact Or.inr (Or.inl ⟨rfl, hu', C, hC, e⟩)
  | some t =>
    cases hcon : it.attr.content with
    | none =>
      simp only [htag, hcon] at h
      by_cases hu : var.unitLike = true
      · simp only [hu, if_true, Option.some.injEq] at h
        exact Or.inr (Or.inr (Or.inr (Or.inr (Or.inl ⟨t, rfl, rfl, hu, h.symm⟩))))
      · have hu' : var.unitLike = false := by simpa using hu
        simp only [hu', Bool.false_eq_true, if_false] at h
        cases hsh : var.shape with
        | named => rw [hsh] at h; exact Or.inr (Or.inr (Or.inr (Or.inr (Or.inr ⟨t, rfl, rfl, hu', rfl, by simpa using h⟩))))
        | unit => simp [hsh] at h
        | tuple => simp [hsh] at h
    | some c =>
      simp only [htag, hcon] at h
      by_cases hu : var.unitLike = true
      · simp only [hu, if_true, Option.some.injEq] at h
        exact Or.inr (Or.inr (Or.inl ⟨t, c, rfl, rfl, hu, h.symm⟩))
      · have hu' : var.unitLike = false := by simpa using hu
        simp only [hu', Bool.false_eq_true, if_false] at h
        obtain ⟨C, hC, e⟩ := nameTyB_map_some h
        exact Or.inr (Or.inr (Or.inr (Or.inl ⟨t, c, rfl, rfl, hu', C, hC, e⟩)))

/-! ### the acceptance model on a tagged enum, variant by variant -/

section
variable (cfg : Cfg) (env : Env) (it : Item) (var : Variant)
  (hiu : it.attr.untagged = false) (hvu : ∀ v ∈ it.variants, v.attr.untagged = false)
  (hnd : ((it.variants.filter fun v => !v.attr.skip).map (Serde.variantKey cfg it.attr.renameAll)).Nodup)
  (hmem : var ∈ it.variants) (hsk : var.attr.skip = false)

include hiu hvu in
theorem live_untagged_nil :
    ((it.variants.filter fun v => !v.attr.skip).filter fun v => v.attr.untagged || it.attr.untagged) = [] := by
  rw [List.filter_eq_nil_iff]
  intro v hv
  have := hvu v (List.mem_filter.mp hv).1
  simp [this, hiu]

include hiu hvu in
theorem live_tagged_all :
    ((it.variants.filter fun v => !v.attr.skip).filter fun v => !(v.attr.untagged || it.attr.untagged)) = (it.variants.filter fun v => !v.attr.skip) := by
  rw [List.filter_eq_self]
  intro v hv
  have := hvu v (List.mem_filter.mp hv).1
  simp [this, hiu]

include hnd hmem hsk in
theorem live_find :
    (it.variants.filter fun v => !v.attr.skip).find? (fun v => Serde.variantKey cfg it.attr.renameAll v = Serde.variantKey cfg it.attr.renameAll var) = some var :=
  find_by_key (Serde.variantKey cfg it.attr.renameAll) _ var hnd (List.mem_filter.mpr ⟨hmem, by simp [hsk]⟩)

include hiu hvu hnd hmem hsk in
theorem accEnum_ext_unit (f : Nat) (htag : it.attr.tag = none) (hu : var.unitLike = true) :
    accEnum cfg env (f + 1) it [] (.str (Serde.variantKey cfg it.attr.renameAll var)) = 0 := by
  simp only [accEnum]
  rw [live_untagged_nil it hiu hvu, live_tagged_all it hiu hvu]
  simp only [List.foldl_nil, Derive.tagged, hiu, htag, live_find cfg it var hnd hmem hsk, hu, if_true]

include hiu hvu hnd hmem hsk in
theorem accEnum_ext (f : Nat) (htag : it.attr.tag = none) (c : JVal) :
    accEnum cfg env (f + 1) it [] (.obj [(Serde.variantKey cfg it.attr.renameAll var, c)]) = accVariantContent cfg env f it [] var (some c) := by
  simp only [accEnum]
  rw [live_untagged_nil it hiu hvu, live_tagged_all it hiu hvu]
  simp only [List.foldl_nil, Derive.tagged, hiu, htag, live_find cfg it var hnd hmem hsk]

include hiu hvu hnd hmem hsk in
theorem accEnum_adj (f : Nat) (t c : Str) (htag : it.attr.tag = some t) (hcon : it.attr.content = some c) (kvs : List (Str × JVal))
    (hl : JVal.lookup t kvs = some (.str (Serde.variantKey cfg it.attr.renameAll var))) :
    accEnum cfg env (f + 1) it [] (.obj kvs) = accVariantContent cfg env f it [] var (JVal.lookup c kvs) := by
  simp only [accEnum]
  rw [live_untagged_nil it hiu hvu, live_tagged_all it hiu hvu]
  simp only [List.foldl_nil, Derive.tagged, hiu, htag, hcon, hl, live_find cfg it var hnd hmem hsk]

include hiu hvu hnd hmem hsk in
theorem accEnum_int (f : Nat) (t : Str) (htag : it.attr.tag = some t) (hcon : it.attr.content = none) (kvs : List (Str × JVal))
    (hl : JVal.lookup t kvs = some (.str (Serde.variantKey cfg it.attr.renameAll var))) (hsh : var.unitLike = true ∨ var.shape = .named) :
    accEnum cfg env (f + 1) it [] (.obj kvs) =
      (if var.unitLike then 0 else accNamed cfg env f [] (Serde.renameAllS it var) var.fields kvs) := by
  simp only [accEnum]
  rw [live_untagged_nil it hiu hvu, live_tagged_all it hiu hvu]
  simp only [List.foldl_nil, Derive.tagged, hiu, htag, hcon, hl, live_find cfg it var hnd hmem hsk]
  rcases hsh with h | h
  · simp [h]
  · simp [h]

end

/-! ### enums with `untagged` variants: the tagged part, and the fold over the untagged ones -/

/-- the enum without its `untagged` variants (same attributes) -/
def Item.taggedPart (it : Item) : Item := { it with variants := it.variants.filter fun v => !v.attr.untagged }

@[simp] theorem Item.taggedPart_attr (it : Item) : (Item.taggedPart it).attr = it.attr := rfl
@[simp] theorem Item.taggedPart_isEnum (it : Item) : (Item.taggedPart it).isEnum = it.isEnum := rfl

theorem foldl_min_le_init {α} (g : α → Nat) : ∀ (l : List α) (a : Nat), l.foldl (fun acc v => min acc (g v)) a ≤ a
  | [], a => Nat.le_refl a
  | x :: xs, a => Nat.le_trans (foldl_min_le_init g xs (min a (g x))) (Nat.min_le_left a (g x))

theorem foldl_min_le_mem {α} (g : α → Nat) : ∀ (l : List α) (a : Nat) (v : α), v ∈ l → l.foldl (fun acc v => min acc (g v)) a ≤ g v
  | x :: xs, a, v, hv => by
    rcases List.mem_cons.mp hv with rfl | hv
    · exact Nat.le_trans (foldl_min_le_init g xs (min a (g v))) (Nat.min_le_right a (g v))
    · exact foldl_min_le_mem g xs (min a (g x)) v hv

theorem Good.le {X Y : Nat → Nat} (h : Good X) (e : ∀ f, Y f ≤ X f) : Good Y := by
  obtain ⟨a, ha⟩ := h
  exact ⟨a, fun f hf => Nat.le_trans (e f) (ha f hf)⟩

/-- reading a value as the enum is at least as permissive as reading it as its tagged part -/
theorem accEnum_le_tagged (cfg : Cfg) (env : Env) (it : Item) (hiu : it.attr.untagged = false) (j : JVal) :
    ∀ f, accEnum cfg env f it [] j ≤ accEnum cfg env f (Item.taggedPart it) [] j
  | 0 => by simp [accEnum]
  | f + 1 => by
    have h1 : ((Item.taggedPart it).variants.filter fun v => !v.attr.skip).filter (fun v => v.attr.untagged || (Item.taggedPart it).attr.untagged) = [] := by
      rw [List.filter_eq_nil_iff]
      intro v hv
      have := (List.mem_filter.mp (List.mem_filter.mp hv).1).2
      simp only [Item.taggedPart] at this ⊢
      simp only [Bool.not_eq_true'] at this
      simp [this, hiu]
    have h2 : ((Item.taggedPart it).variants.filter fun v => !v.attr.skip).filter (fun v => !(v.attr.untagged || (Item.taggedPart it).attr.untagged))
        = (it.variants.filter fun v => !v.attr.skip).filter (fun v => !(v.attr.untagged || it.attr.untagged)) := by
      simp only [Item.taggedPart, List.filter_filter, hiu, Bool.or_false]
      congr 1
      funext v
      cases v.attr.untagged <;> cases v.attr.skip <;> rfl
    simp only [accEnum]
    rw [h1, h2]
    dsimp +instances only [Item.taggedPart_attr]
    simp only [List.foldl_nil]
    refine Nat.le_trans (foldl_min_le_init _ _ _) ?_
    have hvc : ∀ var c, accVariantContent cfg env f (Item.taggedPart it) [] var c = accVariantContent cfg env f it [] var c := by
      intro var c
      cases f <;> simp [accVariantContent, Serde.renameAllS, Item.taggedPart]
    have hrs : ∀ var, Serde.renameAllS (Item.taggedPart it) var = Serde.renameAllS it var := fun _ => rfl
    simp only [hvc, hrs, Nat.le_refl]

/-- … and as permissive as any of its `untagged` variants -/
theorem accEnum_le_untagged (cfg : Cfg) (env : Env) (it : Item) (var : Variant) (hvm : var ∈ it.variants) (hsk : var.attr.skip = false)
    (hun : (var.attr.untagged || it.attr.untagged) = true) (j : JVal) (f : Nat) :
    accEnum cfg env (f + 1) it [] j ≤
      (if var.unitLike then (if isNull j then 0 else 3) else accVariantContent cfg env f it [] var (some j)) := by
  simp only [accEnum]
  have hmem : var ∈ (it.variants.filter fun v => !v.attr.skip).filter (fun v => v.attr.untagged || it.attr.untagged) :=
    List.mem_filter.mpr ⟨List.mem_filter.mpr ⟨hvm, by simp [hsk]⟩, hun⟩
  refine Nat.le_trans (foldl_min_le_mem _ _ _ var hmem) ?_
  by_cases hu : var.unitLike = true
  · simp [hu]
  · simp [hu]

theorem bodyOk_named {cfg : Cfg} {ra : Option Rule} {of : Opt} {tag : Option Str} {fields : List Field}
    (h : bodyOk cfg ra of tag .named fields = true) : fields.all (fieldOkN cfg ra of) = true := by
  simp only [bodyOk, beq_self_eq_true, if_true, Bool.and_eq_true] at h
  exact h.1

/-- what the fragment says about a variant -/
theorem variantOk_facts (cfg : Cfg) (it : Item) (var : Variant) (h : variantOk cfg it var = true)
    (hvu : var.attr.untagged = false) (hiu : it.attr.untagged = false) :
    Derive.variantTsName cfg it.attr.renameAll var = Serde.variantKey cfg it.attr.renameAll var ∧
    (var.shape = .named → renameAllT it var = Serde.renameAllS it var) ∧
    (var.shape = .named → var.fields.all (fieldOkN cfg (renameAllT it var) .no) = true) ∧
    (∀ t c, it.attr.tag = some t → it.attr.content = some c → t ≠ c) := by
  simp only [variantOk, Bool.and_eq_true, beq_iff_eq, Bool.or_eq_true, bne_iff_ne, ne_eq, hvu, Bool.false_eq_true, if_false] at h
  obtain ⟨⟨_, hname⟩, hra, hbody⟩ := h
  refine ⟨hname, ?_, ?_, ?_⟩
  · intro hs
    rcases hra with h1 | h1
    · exact absurd hs h1
    · exact h1
  · intro hs
    unfold Derive.tagged at hbody
    rw [hiu] at hbody
    cases htag : it.attr.tag with
    | none =>
      simp only [htag] at hbody
      rw [hs] at hbody
      exact bodyOk_named hbody
    | some t =>
      cases hcon : it.attr.content with
      | none =>
        simp only [htag, hcon, Bool.and_eq_true] at hbody
        rw [hs] at hbody
        exact bodyOk_named hbody.2
      | some c =>
        simp only [htag, hcon, Bool.and_eq_true] at hbody
        rw [hs] at hbody
        exact bodyOk_named hbody.2
  · intro t c htag hcon
    unfold Derive.tagged at hbody
    rw [hiu] at hbody
    simp only [htag, hcon, Bool.and_eq_true, bne_iff_ne, ne_eq] at hbody
    exact hbody.1

/-- the acceptance of one named field, from the acceptance of its value (or of the value below `Option`) -/
theorem field_value_good (cfg : Cfg) (env : Env) (of : Opt) (fld : Field) (v : JVal)
    (hA : (optMode of fld).2 = true ∨ Derive.isOption fld.ty = false → Good (fun f => accB (accNf cfg env f) fld.ty v))
    (hB : ∀ u, fld.ty = .option u → (optMode of fld).2 = false → Good (fun f => accB (accNf cfg env f) u v)) :
    Good (fun f => accB (accNf cfg env f) fld.ty v) := by
  by_cases h2 : (optMode of fld).2 = true
  · exact hA (Or.inl h2)
  · by_cases ho : Derive.isOption fld.ty = true
    · obtain ⟨u, hu⟩ := isOption_cases fld.ty ho
      have g := hB u hu (by simpa using h2)
      rw [hu]
      by_cases hn : isNull v = true
      · exact Good.congr (Good.const (Nat.zero_le 1)) (fun f => by simp [accB, hn])
      · exact Good.congr g (fun f => by simp [accB, hn])
    · exact hA (Or.inr (by simpa using ho))

theorem accTy_good (cfg : Cfg) (env : Env) (t : RTy) (v : JVal) (h : Good (fun f => accB (accNf cfg env f) t v)) :
    Good (fun f => accTy cfg env f t v) := by
  refine Good.congr (Good.shift h) (fun f => ?_)
  cases f <;> simp [accTy, accNf]

/-- the content of a variant that is not unit-like: a newtype is its field, everything else a struct body -/
theorem content_good (cfg : Cfg) (env : Env) (it : Item) (var : Variant) (c : JVal) (hu : var.unitLike = false)
    (hN : ∀ fld, var.shape = .tuple → var.fields = [fld] → Good (fun f => accB (accNf cfg env f) fld.ty c))
    (hS : (var.shape = .tuple → var.fields.length ≠ 1) →
      Good (fun f => accBody cfg env f [] (Serde.renameAllS it var) none var.shape var.fields c)) :
    Good (fun f => accVariantContent cfg env f it [] var (some c)) := by
  by_cases hnt : var.shape = .tuple ∧ var.fields.length = 1
  · obtain ⟨hs, hl⟩ := hnt
    match hfs : var.fields, hl with
    | [fld], _ =>
      have g := hN fld hs hfs
      refine Good.congr (Good.shift (Good.shift (accTy_good cfg env fld.ty c g))) (fun f => ?_)
      cases f with
      | zero => simp [accVariantContent]
      | succ f' =>
        cases f' with
        | zero => simp [accVariantContent, hu, accBody]
        | succ f'' => simp [accVariantContent, hu, accBody, hs, hfs, rsubst_nil]
  · have g := hS (fun hs hl => hnt ⟨hs, hl⟩)
    refine Good.congr (Good.shift g) (fun f => ?_)
    cases f <;> simp [accVariantContent, hu]

/-- the content of an internally tagged struct variant: the tag, then the fields -/
theorem int_named_obj (cfg : Cfg) (env : Env) (ra : Option Rule) (t n : Str) (fields : List Field) (A : Ts)
    (h : structBody cfg env ra .no (some (t, n)) .named fields = some A) :
    ∃ fs, fieldsTs cfg env ra .no fields = some fs ∧ A = .obj ((({ name := t } : TsKey), Ts.lit n) :: fs) := by
  rcases structBody_cases cfg env ra .no (some (t, n)) .named fields A h (fun e => by cases e) with
    ⟨h1, _⟩ | ⟨_, _, h1, _⟩ | ⟨_, fs, hfs, ⟨h1, _⟩ | ⟨t', n', htn, hA⟩⟩ | ⟨h1, _⟩ | ⟨h1, _⟩
  · cases h1
  · cases h1
  · cases h1
  · simp only [Option.some.injEq, Prod.mk.injEq] at htn
    obtain ⟨rfl, rfl⟩ := htn
    exact ⟨fs, hfs, hA⟩
  · cases h1
  · cases h1

/-- what the proof needs of an enum (an item of the program, or the instance of a generic one) -/
def ItemF (cfg : Cfg) (it : Item) : Prop :=
  it.attr.untagged = false ∧
  (∀ v ∈ it.variants, v.attr.untagged = false ∧ v.fields.all (fieldTyOk cfg) = true) ∧
  ((it.variants.filter fun v => !v.attr.skip).map (Serde.variantKey cfg it.attr.renameAll)).Nodup ∧
  (it.isEnum = true → ∀ v ∈ it.variants, variantOk cfg it v = true)

/-- the same without any demand on `untagged` (what `gEnum` needs; the tagged part of such an enum satisfies `ItemF`) -/
def ItemG (cfg : Cfg) (it : Item) : Prop :=
  (∀ v ∈ it.variants, v.fields.all (fieldTyOk cfg) = true) ∧
  ((it.variants.filter fun v => !v.attr.skip).map (Serde.variantKey cfg it.attr.renameAll)).Nodup ∧
  (it.isEnum = true → ∀ v ∈ it.variants, variantOk cfg it v = true)

/-- named fields of a variant of the fragment, whatever its tagging -/
theorem variantOk_named (cfg : Cfg) (it : Item) (var : Variant) (h : variantOk cfg it var = true) (hs : var.shape = .named) :
    renameAllT it var = Serde.renameAllS it var ∧ var.fields.all (fieldOkN cfg (renameAllT it var) .no) = true := by
  simp only [variantOk, Bool.and_eq_true, beq_iff_eq, Bool.or_eq_true, bne_iff_ne, ne_eq] at h
  obtain ⟨_, hra, hbody⟩ := h
  refine ⟨?_, ?_⟩
  · rcases hra with h1 | h1
    · exact absurd hs h1
    · exact h1
  · cases htg : (if var.attr.untagged = true then Derive.Tagged.untagged else Derive.tagged it.attr) with
    | untagged => simp only [htg] at hbody; rw [hs] at hbody; exact bodyOk_named hbody
    | externally => simp only [htg] at hbody; rw [hs] at hbody; exact bodyOk_named hbody
    | adjacently t c => simp only [htg, Bool.and_eq_true] at hbody; rw [hs] at hbody; exact bodyOk_named hbody.2
    | internally t => simp only [htg, Bool.and_eq_true] at hbody; rw [hs] at hbody; exact bodyOk_named hbody.2

/-- what the fragment says about an item -/
theorem frag_item (cfg : Cfg) (env : Env) (hF : deFragB cfg env = true) (it : Item) (hmem : it ∈ env) :
    it.fields.all (fieldTyOkP cfg (it.generics.map (·.name))) = true ∧
    (∀ v ∈ it.variants, v.fields.all (fieldTyOkP cfg (it.generics.map (·.name))) = true) ∧
    ((it.variants.filter fun v => !v.attr.skip).map (Serde.variantKey cfg it.attr.renameAll)).Nodup ∧
    (it.isEnum = true → ∀ v ∈ it.variants, variantOk cfg it v = true) ∧
    (it.isEnum = false → bodyOk cfg it.attr.renameAll it.attr.optionalFields it.attr.tag it.shape it.fields = true ∧
      (it.shape = .tuple → ∀ fld, it.fields = [fld] → fld.attr.skip = false)) ∧
    (env.map Derive.tsName).Nodup ∧ ∃ b, itemBody cfg env it = some b := by
  simp only [deFragB, Bool.and_eq_true, List.all_eq_true] at hF
  obtain ⟨hfrag, hde⟩ := hF
  simp only [fragB, Bool.and_eq_true, List.all_eq_true, decide_eq_true_eq] at hfrag
  obtain ⟨⟨⟨hitems, _⟩, hts⟩, hbodies⟩ := hfrag
  have hde' := hde it hmem
  simp only [itemDeOk, Bool.and_eq_true, List.all_eq_true, decide_eq_true_eq] at hde'
  obtain ⟨⟨hf, hv⟩, hk⟩ := hde'
  have hok := hitems it hmem
  simp only [itemOk, Bool.and_eq_true] at hok
  obtain ⟨_, hrest⟩ := hok
  refine ⟨by simpa [List.all_eq_true] using hf, ?_, hk, ?_, ?_, hts, Option.isSome_iff_exists.mp (hbodies it hmem)⟩
  · intro v hvm
    have := hv v hvm
    simpa [List.all_eq_true] using this
  · intro hen v hvm
    simp only [hen, if_true, Bool.and_eq_true, List.all_eq_true] at hrest
    exact hrest.2 v hvm
  · intro hen
    simp only [hen, Bool.false_eq_true, if_false, Bool.and_eq_true, Bool.not_eq_true'] at hrest
    refine ⟨hrest.1, ?_⟩
    intro hs fld hfl
    have := hrest.2
    simpa [hs, hfl] using this

theorem nameTyBL_length {limit : Nat} {nameN : Str → List Ts → Option Ts} : ∀ {args : List RTy} {targs : List Ts},
    nameTyBL limit nameN args = some targs → targs.length = args.length
  | [], targs, h => by simp only [nameTyBL, Option.some.injEq] at h; subst h; rfl
  | a :: as, targs, h => by
    simp only [nameTyBL, bind, Option.bind] at h
    cases ha : nameTyB limit nameN a with
    | none => simp [ha] at h
    | some x =>
      cases hr : nameTyBL limit nameN as with
      | none => simp [ha, hr] at h
      | some xs =>
        simp only [ha, hr, pure, Option.some.injEq] at h
        subst h
        simp [nameTyBL_length hr]

/-- the instance of an item of the fragment (closed, readable arguments, one per parameter) has what the proof needs -/
theorem frag_inst (cfg : Cfg) (it : Item) (args : List RTy) (hlen : (it.generics.map (·.name)).length ≤ args.length)
    (hargs : tyOkL cfg.limit args = true)
    (hfty : it.fields.all (fieldTyOkP cfg (it.generics.map (·.name))) = true)
    (hvs : ∀ v ∈ it.variants, v.fields.all (fieldTyOkP cfg (it.generics.map (·.name))) = true)
    (hnd : ((it.variants.filter fun v => !v.attr.skip).map (Serde.variantKey cfg it.attr.renameAll)).Nodup)
    (hvok : it.isEnum = true → ∀ v ∈ it.variants, variantOk cfg it v = true)
    (hst : it.isEnum = false → bodyOk cfg it.attr.renameAll it.attr.optionalFields it.attr.tag it.shape it.fields = true ∧
      (it.shape = .tuple → ∀ fld, it.fields = [fld] → fld.attr.skip = false)) :
    ItemG cfg (Item.inst ((it.generics.map (·.name)).zip args) it) ∧
    (Item.inst ((it.generics.map (·.name)).zip args) it).fields.all (fieldTyOk cfg) = true ∧
    (it.isEnum = false → bodyOk cfg it.attr.renameAll it.attr.optionalFields it.attr.tag it.shape
        (Item.inst ((it.generics.map (·.name)).zip args) it).fields = true ∧
      (it.shape = .tuple → ∀ fld, (Item.inst ((it.generics.map (·.name)).zip args) it).fields = [fld] → fld.attr.skip = false)) := by
  refine ⟨⟨?_, ?_, ?_⟩, fieldsTyOk_inst cfg _ args hlen hargs it.fields hfty, ?_⟩
  · intro v hv
    simp only [Item.inst_variants, List.mem_map] at hv
    obtain ⟨v0, hv0, rfl⟩ := hv
    exact fieldsTyOk_inst cfg _ args hlen hargs v0.fields (hvs v0 hv0)
  · have := filter_inst ((it.generics.map (·.name)).zip args) (fun a => !a.skip) it.variants
    simp only [Item.inst_variants, Item.inst_attr]
    rw [this, List.map_map]
    exact hnd
  · intro hen v hv
    simp only [Item.inst_variants, List.mem_map] at hv
    obtain ⟨v0, hv0, rfl⟩ := hv
    exact variantOk_inst _ cfg it v0 (hvok hen v0 hv0)
  · intro hen
    obtain ⟨hb, hsk⟩ := hst hen
    refine ⟨bodyOk_inst _ cfg _ _ _ _ _ hb, ?_⟩
    intro hs fld hfl
    simp only [Item.inst_fields] at hfl
    match hf : it.fields, hfl with
    | [f0], hfl =>
      simp only [List.map_cons, List.map_nil, List.cons.injEq, and_true] at hfl
      subst hfl
      exact hsk hs f0 hf

/-- a value of the literal type is that string -/
theorem member_lit_eq {D : Decls} {T : Ts} {v : JVal} {s : Str} (m : Member D T v) (h : T = .lit s) : v = .str s := by
  subst h; cases m; rfl

/-- keys of an exact object with one declared property -/
theorem keys_single {fs : List (TsKey × Ts)} {kvs : List (Str × JVal)} {K : TsKey} {T : Ts}
    (hk : ∀ k ∈ JVal.keys kvs, ∃ f ∈ fs, f.1.name = k) (hfs : fs = [(K, T)]) : ∀ k ∈ kvs.map (·.1), k = K.name := by
  intro k hkm
  obtain ⟨f, hf, hn⟩ := hk k hkm
  rw [hfs] at hf
  simp only [List.mem_singleton] at hf
  rw [← hn, hf]

theorem lookup_none_of_keys {kvs : List (Str × JVal)} {n c : Str} (hk : ∀ k ∈ kvs.map (·.1), k = n) (hne : n ≠ c) : JVal.lookup c kvs = none := by
  cases h : JVal.lookup c kvs with
  | none => rfl
  | some v => exact absurd (hk c (lookup_mem_keys h)).symm hne

/-- leaves: a member of `number` / `bigint` / `string` / `boolean` / `null` -/
theorem leaf_good (cfg : Cfg) (env : Env) {T : Ts} {j : JVal} (m : Member (declsOf cfg env) T j)
    (hT' : T = .number ∨ T = .bigint ∨ T = .string ∨ T = .boolean ∨ T = .null)
    (t : RTy) (hT : tyTs cfg env t = some T) (hok : tyOk cfg.limit t = true) : Good (fun f => accB (accNf cfg env f) t j) := by
  obtain ⟨t0, hT0, hok0, hnw, he⟩ := prep cfg env j t T hT hok
  obtain ⟨r, rfl, hr⟩ := inv_prim (nameN_ref env) hT0 hnw hok0 hT'
  simp only [tyOk] at hok0
  cases hcl : primClass r with
  | none => simp [hcl] at hok0
  | some c =>
    have := accPrim_member (declsOf cfg env) C12_tableOK r c _ _ hcl hr m
    exact Good.congr (Good.const this) (fun f => by rw [he f]; simp [accB, hcl])

theorem wfJ_arr {js : List JVal} (h : wfJ (.arr js) = true) : wfJL js = true := by simpa [wfJ] using h

mutual
theorem gTy (cfg : Cfg) (env : Env) (hF : deFragB cfg env = true) : ∀ {T : Ts} {j : JVal}, Member (declsOf cfg env) T j →
    ∀ (t : RTy), tyTs cfg env t = some T → tyOk cfg.limit t = true → wfJ j = true → Good (fun f => accB (accNf cfg env f) t j)
  | _, _, .numberInt i, t, hT, hok, _ => leaf_good cfg env (.numberInt i) (Or.inl rfl) t hT hok
  | _, _, .numberFloat r, t, hT, hok, _ => leaf_good cfg env (.numberFloat r) (Or.inl rfl) t hT hok
  | _, _, .bigint i, t, hT, hok, _ => leaf_good cfg env (.bigint i) (Or.inr (Or.inl rfl)) t hT hok
  | _, _, .string s, t, hT, hok, _ => leaf_good cfg env (.string s) (Or.inr (Or.inr (Or.inl rfl))) t hT hok
  | _, _, .boolean b, t, hT, hok, _ => leaf_good cfg env (.boolean b) (Or.inr (Or.inr (Or.inr (Or.inl rfl)))) t hT hok
  | _, _, .null, t, hT, hok, _ => leaf_good cfg env .null (Or.inr (Or.inr (Or.inr (Or.inr rfl)))) t hT hok
  | _, _, .lit s, t, hT, hok, _ => by
    obtain ⟨t0, hT0, hok0, hnw, _⟩ := prep cfg env (.str s) t _ hT hok
    exact (inv_none (nameN_ref env) hT0 hnw hok0 (Or.inl ⟨s, rfl⟩)).elim
  | _, _, .neverArray, t, hT, hok, _ => by
    obtain ⟨t0, hT0, hok0, hnw, _⟩ := prep cfg env (.arr []) t _ hT hok
    exact (inv_none (nameN_ref env) hT0 hnw hok0 (Or.inr (Or.inl rfl))).elim
  | _, _, .emptyRecord, t, hT, hok, _ => by
    obtain ⟨t0, hT0, hok0, hnw, _⟩ := prep cfg env (.obj []) t _ hT hok
    exact (inv_none (nameN_ref env) hT0 hnw hok0 (Or.inr (Or.inr (Or.inl rfl)))).elim
  | _, j, .interNil, t, hT, hok, _ => by
    obtain ⟨t0, hT0, hok0, hnw, _⟩ := prep cfg env j t _ hT hok
    exact (inv_none (nameN_ref env) hT0 hnw hok0 (Or.inr (Or.inr (Or.inr (Or.inl ⟨_, rfl⟩))))).elim
  | _, _, .interObj (kvs := kvs) _ _ _ _, t, hT, hok, _ => by
    obtain ⟨t0, hT0, hok0, hnw, _⟩ := prep cfg env (.obj kvs) t _ hT hok
    exact (inv_none (nameN_ref env) hT0 hnw hok0 (Or.inr (Or.inr (Or.inr (Or.inl ⟨_, rfl⟩))))).elim
  | _, j, .interOne _, t, hT, hok, _ => by
    obtain ⟨t0, hT0, hok0, hnw, _⟩ := prep cfg env j t _ hT hok
    exact (inv_none (nameN_ref env) hT0 hnw hok0 (Or.inr (Or.inr (Or.inr (Or.inl ⟨_, rfl⟩))))).elim
  | _, j, .interVal _ _ _, t, hT, hok, _ => by
    obtain ⟨t0, hT0, hok0, hnw, _⟩ := prep cfg env j t _ hT hok
    exact (inv_none (nameN_ref env) hT0 hnw hok0 (Or.inr (Or.inr (Or.inr (Or.inl ⟨_, rfl⟩))))).elim
  | _, j, .paren _, t, hT, hok, _ => by
    obtain ⟨t0, hT0, hok0, hnw, _⟩ := prep cfg env j t _ hT hok
    exact (inv_none (nameN_ref env) hT0 hnw hok0 (Or.inr (Or.inr (Or.inr (Or.inr ⟨_, rfl⟩))))).elim
  | _, j, .union (ts := xs) (t := arm) hmem m', t, hT, hok, hw => by
    obtain ⟨t0, hT0, hok0, hnw, he⟩ := prep cfg env j t _ hT hok
    rcases inv_union (nameN_ref env) hT0 hnw hok0 with ⟨u, X, rfl, hX, hoku, rfl⟩ | ⟨a, b, A, B, rfl, hA, hB, hoka, hokb, rfl⟩
    · -- Option<u>
      refine Good.congr ?_ he
      by_cases hn : isNull j = true
      · exact Good.congr (Good.const (Nat.zero_le 1)) (fun f => by simp [accB, hn])
      · have hn' : isNull j = false := by simpa using hn
        simp only [List.mem_cons, List.not_mem_nil, or_false] at hmem
        rcases hmem with h1 | h1
        · exact Good.congr (gTy cfg env hF m' u (by rw [h1]; exact hX) hoku hw) (fun f => by simp [accB, hn'])
        · exfalso
          have hjn : j = .null := by
            rw [h1] at m'
            cases m'; rfl
          rw [hjn] at hn'; simp [isNull] at hn'
    · -- Result<a, b>
      refine Good.congr ?_ he
      simp only [List.mem_cons, List.not_mem_nil, or_false] at hmem
      rcases hmem with h1 | h1
      · obtain ⟨v, hj, hg⟩ := gObj1 cfg env hF m' _ A a h1 rfl hA hoka hw
        subst hj
        exact Good.congr hg (fun f => by simp [accB])
      · obtain ⟨v, hj, hg⟩ := gObj1 cfg env hF m' _ B b h1 rfl hB hokb hw
        subst hj
        exact Good.congr hg (fun f => by
          have : ("Err".toList = "Ok".toList) = False := by decide
          simp [accB, this])
  | _, _, .array (js := js) mAll, t, hT, hok, hw => by
    obtain ⟨t0, hT0, hok0, hnw, he⟩ := prep cfg env (.arr js) t _ hT hok
    obtain ⟨u, hu, hX, hoku⟩ := inv_array (nameN_ref env) hT0 hnw hok0
    refine Good.congr (gAll cfg env hF mAll u hX hoku (wfJ_arr hw)) (fun f => ?_)
    rw [he f]
    rcases hu with rfl | rfl | rfl <;> simp [accB]
  | _, _, .tuple (js := js) mZ, t, hT, hok, hw => by
    obtain ⟨t0, hT0, hok0, hnw, he⟩ := prep cfg env (.arr js) t _ hT hok
    rcases inv_tuple (nameN_ref env) hT0 hnw hok0 with ⟨u, n, X, rfl, hX, hrep, hoku⟩ | ⟨ts, rfl, hXs, hokts⟩
    · obtain ⟨hlen, hg⟩ := gRep cfg env hF mZ n X u hrep hX hoku (wfJ_arr hw)
      exact Good.congr hg (fun f => by rw [he f]; simp [accB, hlen])
    · exact Good.congr (gZip cfg env hF mZ ts hXs hokts (wfJ_arr hw)) (fun f => by rw [he f]; simp [accB])
  | _, _, .mapped (kvs := kvs) mM, t, hT, hok, hw => by
    obtain ⟨t0, hT0, hok0, hnw, he⟩ := prep cfg env (.obj kvs) t _ hT hok
    obtain ⟨k, v, rfl, hK, hV, hkk, hokv⟩ := inv_mapped (nameN_ref env) hT0 hnw hok0
    exact Good.congr (gMap cfg env hF mM k v hK hkk hV hokv (wfJ_obj hw).2) (fun f => by rw [he f]; simp [accB])
  | _, _, .obj (kvs := kvs) mf hk, t, hT, hok, hw => by
    obtain ⟨t0, hT0, hok0, hnw, he⟩ := prep cfg env (.obj kvs) t _ hT hok
    obtain ⟨u, X, rfl, hX, hoku, hfs⟩ := inv_obj (nameN_ref env) hT0 hnw hok0
    obtain ⟨v1, v2, hl1, hl2, hg⟩ := gRange cfg env hF mf _ _ X u hfs rfl rfl hX hoku (wfJ_obj hw).2
    refine Good.congr hg (fun f => ?_)
    rw [he f]
    simp only [accB, hl1, hl2]
  | _, j, .ref (n := n) (args := xs) (ps := ps) (body := body) hl m', t, hT, hok, hw => by
    obtain ⟨t0, hT0, hok0, hnw, he⟩ := prep cfg env j t _ hT hok
    obtain ⟨id, args, targs, ht0, hokargs, hargs, hN⟩ := inv_ref (nameN_ref env) hT0 hnw hok0
    unfold nameN at hN
    cases hfind : env.find id with
    | none => simp [hfind] at hN
    | some it =>
      simp only [hfind, Option.bind_some] at hN
      have hN' : targs.length = it.generics.length ∧ Ts.ref (Derive.tsName it) targs = Ts.ref n xs := by
        split at hN
        · rename_i hlen; exact ⟨hlen, by simpa using hN⟩
        · cases hN
      obtain ⟨hlen, hN⟩ := hN'
      simp only [Ts.ref.injEq] at hN
      obtain ⟨hn, hxs⟩ := hN
      have hmem : it ∈ env := List.mem_of_find?_eq_some hfind
      obtain ⟨hfty, hvs, hnd, hvok, hst, hts, b, hb⟩ := frag_item cfg env hF it hmem
      have hlook := lookup_decl_in cfg env env it b hts hmem hb
      rw [hn] at hlook
      have hlook' : lookupDecl (declsOf cfg env) n = some (it.generics.map (·.name), b) := hlook
      rw [hl] at hlook'
      simp only [Option.some.injEq, Prod.mk.injEq] at hlook'
      obtain ⟨hps, hbody⟩ := hlook'
      have hlen' : (it.generics.map (·.name)).length ≤ args.length := by
        have := nameTyBL_length hargs
        simp only [List.length_map]; omega
      obtain ⟨hI, hfty', hst'⟩ := frag_inst cfg it args hlen' hokargs hfty hvs hnd hvok hst
      have hb' := itemBody_inst cfg env (it.generics.map (·.name)) args targs hargs it b hb
        (fun hen hs => by have := (hst hen).1; rw [hs] at this; exact bodyOk_named this)
        (fun hen v hv hs => (variantOk_named cfg it v (hvok hen v hv) hs).2)
      have hT' : subst (ps.zip xs) body = subst ((it.generics.map (·.name)).zip targs) b := by rw [hps, hbody, hxs]
      refine Good.congr ?_ he
      rw [ht0]
      -- accItem at fuel f+1: reading the value as the instance
      have hitem : ∀ f, accB (accNf cfg env f) (.named id args) j =
          (match f with
           | 0 => 2
           | f' + 1 => if it.isEnum then accEnum cfg env f' (Item.inst ((it.generics.map (·.name)).zip args) it) [] j
                       else accBody cfg env f' [] it.attr.renameAll it.attr.tag it.shape
                         (Item.inst ((it.generics.map (·.name)).zip args) it).fields j) := by
        intro f
        cases f with
        | zero => simp [accB, accNf, accItem]
        | succ f' =>
          simp only [accB, accNf, accItem, hfind, zip_map_names, Item.inst_fields]
          rw [accEnum_inst cfg env _ it j f', accBody_inst cfg env _ it.attr.renameAll it.attr.tag it.shape it.fields j f']
      have e1 : (Item.inst ((it.generics.map (·.name)).zip args) it).isEnum = it.isEnum := rfl
      have e2 : (Item.inst ((it.generics.map (·.name)).zip args) it).attr = it.attr := rfl
      have e3 : (Item.inst ((it.generics.map (·.name)).zip args) it).shape = it.shape := rfl
      have e4 : Derive.tsName (Item.inst ((it.generics.map (·.name)).zip args) it) = Derive.tsName it := rfl
      generalize Item.inst ((it.generics.map (·.name)).zip args) it = it' at hI hfty' hst' hb' hitem e1 e2 e3 e4
      refine Good.congr (Good.shift ?_) hitem
      by_cases hen : it.isEnum = true
      · simp only [hen, if_true]
        simp only [itemBody, e1, hen, if_true] at hb'
        by_cases hemp : it'.variants.isEmpty = true
        · simp only [hemp, if_true, Option.some.injEq] at hb'
          rw [← hb'] at hT'
          exact absurd m' (by rw [hT']; intro m; cases m)
        · simp only [hemp, Bool.false_eq_true, if_false, bind, Option.bind] at hb'
          cases harms : variantsTs cfg env it' it'.variants with
          | none => simp [harms] at hb'
          | some arms =>
            simp only [harms] at hb'
            by_cases hae : arms.isEmpty = true
            · simp only [hae, if_true, Option.some.injEq] at hb'
              rw [← hb'] at hT'
              exact absurd m' (by rw [hT']; intro m; cases m)
            · simp only [hae, Bool.false_eq_true, if_false, pure, Option.some.injEq] at hb'
              exact gEnum cfg env hF m' it' arms (by rw [hT', hb']) harms hI (by rw [e1]; exact hen) hw
      · have hen' : it.isEnum = false := by simpa using hen
        simp only [hen', Bool.false_eq_true, if_false]
        obtain ⟨hbok, hnsk⟩ := hst' hen'
        simp only [itemBody, e1, hen', Bool.false_eq_true, if_false, e2, e3, e4] at hb'
        by_cases hnt : it.shape = .tuple ∧ it'.fields.length = 1
        · obtain ⟨hs, hlen1⟩ := hnt
          match hfs : it'.fields, hlen1 with
          | [fld], _ =>
            have hsk := hnsk hs fld hfs
            rw [hs, hfs] at hb'
            have hC : tyTs cfg env fld.ty = some (subst ((it.generics.map (·.name)).zip targs) b) := by simpa [structBody, hsk] using hb'
            have hty : tyOk cfg.limit fld.ty = true := by
              rw [hfs] at hfty'
              simpa [fieldTyOk, hsk] using hfty'
            have g := gTy cfg env hF m' fld.ty (by rw [hT']; exact hC) hty hw
            refine Good.congr (Good.shift (accTy_good cfg env fld.ty j g)) (fun f => ?_)
            cases f with
            | zero => simp [accBody]
            | succ f' => simp [accBody, hs, rsubst_nil]
        · exact gStruct cfg env hF m' it.attr.renameAll it.attr.renameAll it.attr.optionalFields
            (it.attr.tag.map fun t => (t, Derive.tsName it)) it.attr.tag it.shape it'.fields
            (by rw [hT']; exact hb') (fun _ => rfl)
            (fun hs hl => hnt ⟨hs, hl⟩) (fun hs => by rw [hs] at hbok; exact bodyOk_named hbok) hfty' hw
/-- an object type with one required property -/
theorem gObj1 (cfg : Cfg) (env : Env) (hF : deFragB cfg env = true) : ∀ {T : Ts} {j : JVal}, Member (declsOf cfg env) T j →
    ∀ (K : TsKey) (A : Ts) (a : RTy), T = .obj [(K, A)] → K.optional = false → tyTs cfg env a = some A → tyOk cfg.limit a = true → wfJ j = true →
      ∃ v, j = .obj [(K.name, v)] ∧ Good (fun f => accB (accNf cfg env f) a v)
  | _, _, .obj (kvs := kvs) (.present (k := k) (t := tA) (v := v) hl mA _) hk, K, A, a, hT, _, hA, hoka, hw => by
    simp only [Ts.obj.injEq, List.cons.injEq, Prod.mk.injEq, and_true] at hT
    obtain ⟨⟨hk1, ht1⟩, hrest⟩ := hT
    obtain ⟨hnd, hwf⟩ := wfJ_obj hw
    have hkvs := single_key (n := k.name) (c := v)
      (fun k' hk' => by
        obtain ⟨f, hf, hn⟩ := hk k' hk'
        rw [hrest] at hf
        simp only [List.mem_singleton] at hf; subst hf; exact hn.symm) hnd hl
    subst hkvs
    have hwv : wfJ v = true := by simpa [wfJF] using hwf
    rw [← hk1]
    exact ⟨v, rfl, gTy cfg env hF mA a (by rw [ht1]; exact hA) hoka hwv⟩
  | _, _, .obj (.absent (k := k) _ ho _) _, K, A, a, hT, hopt, _, _, _ => by
    simp only [Ts.obj.injEq, List.cons.injEq, Prod.mk.injEq, and_true] at hT
    obtain ⟨⟨hk1, _⟩, _⟩ := hT
    rw [hk1, hopt] at ho; cases ho
  | _, _, .obj .nil _, _, _, _, hT, _, _, _, _ => by simp at hT
  | _, _, .numberInt _, _, _, _, hT, _, _, _, _ => by cases hT
  | _, _, .numberFloat _, _, _, _, hT, _, _, _, _ => by cases hT
  | _, _, .bigint _, _, _, _, hT, _, _, _, _ => by cases hT
  | _, _, .string _, _, _, _, hT, _, _, _, _ => by cases hT
  | _, _, .boolean _, _, _, _, hT, _, _, _, _ => by cases hT
  | _, _, .null, _, _, _, hT, _, _, _, _ => by cases hT
  | _, _, .lit _, _, _, _, hT, _, _, _, _ => by cases hT
  | _, _, .neverArray, _, _, _, hT, _, _, _, _ => by cases hT
  | _, _, .emptyRecord, _, _, _, hT, _, _, _, _ => by cases hT
  | _, _, .interNil, _, _, _, hT, _, _, _, _ => by cases hT
  | _, _, .interObj _ _ _ _, _, _, _, hT, _, _, _, _ => by cases hT
  | _, _, .interOne _, _, _, _, hT, _, _, _, _ => by cases hT
  | _, _, .interVal _ _ _, _, _, _, hT, _, _, _, _ => by cases hT
  | _, _, .paren _, _, _, _, hT, _, _, _, _ => by cases hT
  | _, _, .union _ _, _, _, _, hT, _, _, _, _ => by cases hT
  | _, _, .array _, _, _, _, hT, _, _, _, _ => by cases hT
  | _, _, .tuple _, _, _, _, hT, _, _, _, _ => by cases hT
  | _, _, .mapped _, _, _, _, hT, _, _, _, _ => by cases hT
  | _, _, .ref _ _, _, _, _, hT, _, _, _, _ => by cases hT
/-- `{ start: X, end: X }` -/
theorem gRange (cfg : Cfg) (env : Env) (hF : deFragB cfg env = true) : ∀ {fs : List (TsKey × Ts)} {kvs : List (Str × JVal)},
    MemberFields (declsOf cfg env) fs kvs → ∀ (K1 K2 : TsKey) (X : Ts) (u : RTy), fs = [(K1, X), (K2, X)] → K1.optional = false → K2.optional = false →
      tyTs cfg env u = some X → tyOk cfg.limit u = true → wfJF kvs = true →
      ∃ v1 v2, JVal.lookup K1.name kvs = some v1 ∧ JVal.lookup K2.name kvs = some v2 ∧
        Good (fun f => Nat.max (accB (accNf cfg env f) u v1) (accB (accNf cfg env f) u v2))
  | _, _, .present (k := k1) (v := v1) hl1 m1 (.present (k := k2) (v := v2) hl2 m2 _), K1, K2, X, u, hfs, _, _, hX, hoku, hwf => by
    simp only [List.cons.injEq, Prod.mk.injEq, and_true] at hfs
    obtain ⟨⟨hk1, ht1⟩, ⟨hk2, ht2⟩, _⟩ := hfs
    refine ⟨v1, v2, by rw [← hk1]; exact hl1, by rw [← hk2]; exact hl2, ?_⟩
    exact Good.max (gTy cfg env hF m1 u (by rw [ht1]; exact hX) hoku (wfJF_lookup hwf hl1))
      (gTy cfg env hF m2 u (by rw [ht2]; exact hX) hoku (wfJF_lookup hwf hl2))
  | _, _, .present _ _ (.absent (k := k2) _ ho _), K1, K2, X, u, hfs, _, h2, _, _, _ => by
    simp only [List.cons.injEq, Prod.mk.injEq, and_true] at hfs
    obtain ⟨_, ⟨hk2, _⟩, _⟩ := hfs
    rw [hk2, h2] at ho; cases ho
  | _, _, .present _ _ .nil, _, _, _, _, hfs, _, _, _, _, _ => by simp at hfs
  | _, _, .absent (k := k1) _ ho _, K1, K2, X, u, hfs, h1, _, _, _, _ => by
    simp only [List.cons.injEq, Prod.mk.injEq, and_true] at hfs
    obtain ⟨⟨hk1, _⟩, _⟩ := hfs
    rw [hk1, h1] at ho; cases ho
  | _, _, .nil, _, _, _, _, hfs, _, _, _, _, _ => by simp at hfs
/-- the body of a struct or the content of a variant (newtypes are dispatched by the caller) -/
theorem gStruct (cfg : Cfg) (env : Env) (hF : deFragB cfg env = true) : ∀ {T : Ts} {j : JVal}, Member (declsOf cfg env) T j →
    ∀ (ra raS : Option Rule) (of : Opt) (tag : Option (Str × Str)) (tagS : Option Str) (shape : Shape) (fields : List Field),
      structBody cfg env ra of tag shape fields = some T → (shape = .named → raS = ra) → (shape = .tuple → fields.length ≠ 1) →
      (shape = .named → fields.all (fieldOkN cfg ra of) = true) → fields.all (fieldTyOk cfg) = true → wfJ j = true →
      Good (fun f => accBody cfg env f [] raS tagS shape fields j)
  | _, _, .null, ra, raS, of, tag, tagS, shape, fields, hB, _, hnt, _, _, _ => by
    rcases structBody_cases cfg env ra of tag shape fields _ hB hnt with ⟨rfl, _⟩ | ⟨_, _, _, h⟩ | ⟨_, fs, _, ⟨_, h⟩ | ⟨t, n, _, h⟩⟩ | ⟨_, _, h⟩ | ⟨_, Xs, _, h⟩
    · refine Good.congr (Good.shift (Good.const (Nat.zero_le 1))) (fun f => ?_)
      cases f <;> simp [accBody, isNull]
    all_goals cases h
  | _, _, .emptyRecord, ra, raS, of, tag, tagS, shape, fields, hB, _, hnt, _, _, _ => by
    rcases structBody_cases cfg env ra of tag shape fields _ hB hnt with ⟨_, h⟩ | ⟨rfl, rfl, _, _⟩ | ⟨_, fs, _, ⟨_, h⟩ | ⟨t, n, _, h⟩⟩ | ⟨_, _, h⟩ | ⟨_, Xs, _, h⟩
    · cases h
    · refine Good.congr (Good.shift (Good.shift (Good.const (Nat.zero_le 1)))) (fun f => ?_)
      cases f with
      | zero => simp [accBody]
      | succ f' => cases f' <;> simp [accBody, accNamed]
    all_goals cases h
  | _, _, .neverArray, ra, raS, of, tag, tagS, shape, fields, hB, _, hnt, _, _, _ => by
    rcases structBody_cases cfg env ra of tag shape fields _ hB hnt with ⟨_, h⟩ | ⟨_, _, _, h⟩ | ⟨_, fs, _, ⟨_, h⟩ | ⟨t, n, _, h⟩⟩ | ⟨rfl, rfl, _⟩ | ⟨_, Xs, _, h⟩
    · cases h
    · cases h
    · cases h
    · cases h
    · refine Good.congr (Good.shift (Good.shift (Good.const (Nat.zero_le 1)))) (fun f => ?_)
      cases f with
      | zero => simp [accBody]
      | succ f' => cases f' <;> simp [accBody, accTuple]
    · cases h
  | _, _, .tuple (js := js) mz, ra, raS, of, tag, tagS, shape, fields, hB, _, hnt, _, hty, hw => by
    rcases structBody_cases cfg env ra of tag shape fields _ hB hnt with ⟨_, h⟩ | ⟨_, _, _, h⟩ | ⟨_, fs, _, ⟨_, h⟩ | ⟨t, n, _, h⟩⟩ | ⟨_, _, h⟩ | ⟨rfl, Xs, hXs, h⟩
    · cases h
    · cases h
    · cases h
    · cases h
    · cases h
    · simp only [Ts.tuple.injEq] at h
      have g := gTupleF cfg env hF mz fields (by rw [h]; exact hXs) hty (wfJ_arr hw)
      refine Good.congr (Good.shift g) (fun f => ?_)
      cases f with
      | zero => simp [accBody]
      | succ f' =>
        simp only [accBody]
        match fields, hnt with
        | [], _ => rfl
        | [_], hnt => exact absurd rfl (hnt rfl)
        | _ :: _ :: _, _ => rfl
  | _, _, .obj (kvs := kvs) mf hk, ra, raS, of, tag, tagS, shape, fields, hB, hra, hnt, hok, hty, hw => by
    rcases structBody_cases cfg env ra of tag shape fields _ hB hnt with ⟨_, h⟩ | ⟨_, _, _, h⟩ | ⟨rfl, fs, hfs, ⟨rfl, h⟩ | ⟨t, n, rfl, h⟩⟩ | ⟨_, _, h⟩ | ⟨_, Xs, _, h⟩
    · cases h
    · cases h
    · simp only [Ts.obj.injEq] at h
      have g := gFields cfg env hF mf ra of fields (by rw [h]; exact hfs) (hok rfl) hty (wfJ_obj hw).2
      rw [hra rfl]
      refine Good.congr (Good.shift g) (fun f => ?_)
      cases f <;> simp [accBody]
    · simp only [Ts.obj.injEq] at h
      have g := gTagged cfg env hF mf { name := t } n fs ra of fields h rfl hfs (hok rfl) hty (wfJ_obj hw).2
      rw [hra rfl]
      refine Good.congr (Good.shift g) (fun f => ?_)
      cases f <;> simp [accBody]
    · cases h
    · cases h
  | _, _, .numberInt _, ra, raS, of, tag, tagS, shape, fields, hB, _, hnt, _, _, _ => by
    rcases structBody_cases cfg env ra of tag shape fields _ hB hnt with ⟨_, h⟩ | ⟨_, _, _, h⟩ | ⟨_, fs, _, ⟨_, h⟩ | ⟨t, n, _, h⟩⟩ | ⟨_, _, h⟩ | ⟨_, Xs, _, h⟩ <;> cases h
  | _, _, .numberFloat _, ra, raS, of, tag, tagS, shape, fields, hB, _, hnt, _, _, _ => by
    rcases structBody_cases cfg env ra of tag shape fields _ hB hnt with ⟨_, h⟩ | ⟨_, _, _, h⟩ | ⟨_, fs, _, ⟨_, h⟩ | ⟨t, n, _, h⟩⟩ | ⟨_, _, h⟩ | ⟨_, Xs, _, h⟩ <;> cases h
  | _, _, .bigint _, ra, raS, of, tag, tagS, shape, fields, hB, _, hnt, _, _, _ => by
    rcases structBody_cases cfg env ra of tag shape fields _ hB hnt with ⟨_, h⟩ | ⟨_, _, _, h⟩ | ⟨_, fs, _, ⟨_, h⟩ | ⟨t, n, _, h⟩⟩ | ⟨_, _, h⟩ | ⟨_, Xs, _, h⟩ <;> cases h
  | _, _, .string _, ra, raS, of, tag, tagS, shape, fields, hB, _, hnt, _, _, _ => by
    rcases structBody_cases cfg env ra of tag shape fields _ hB hnt with ⟨_, h⟩ | ⟨_, _, _, h⟩ | ⟨_, fs, _, ⟨_, h⟩ | ⟨t, n, _, h⟩⟩ | ⟨_, _, h⟩ | ⟨_, Xs, _, h⟩ <;> cases h
  | _, _, .boolean _, ra, raS, of, tag, tagS, shape, fields, hB, _, hnt, _, _, _ => by
    rcases structBody_cases cfg env ra of tag shape fields _ hB hnt with ⟨_, h⟩ | ⟨_, _, _, h⟩ | ⟨_, fs, _, ⟨_, h⟩ | ⟨t, n, _, h⟩⟩ | ⟨_, _, h⟩ | ⟨_, Xs, _, h⟩ <;> cases h
  | _, _, .lit _, ra, raS, of, tag, tagS, shape, fields, hB, _, hnt, _, _, _ => by
    rcases structBody_cases cfg env ra of tag shape fields _ hB hnt with ⟨_, h⟩ | ⟨_, _, _, h⟩ | ⟨_, fs, _, ⟨_, h⟩ | ⟨t, n, _, h⟩⟩ | ⟨_, _, h⟩ | ⟨_, Xs, _, h⟩ <;> cases h
  | _, _, .ref _ _, ra, raS, of, tag, tagS, shape, fields, hB, _, hnt, _, _, _ => by
    rcases structBody_cases cfg env ra of tag shape fields _ hB hnt with ⟨_, h⟩ | ⟨_, _, _, h⟩ | ⟨_, fs, _, ⟨_, h⟩ | ⟨t, n, _, h⟩⟩ | ⟨_, _, h⟩ | ⟨_, Xs, _, h⟩ <;> cases h
  | _, _, .array _, ra, raS, of, tag, tagS, shape, fields, hB, _, hnt, _, _, _ => by
    rcases structBody_cases cfg env ra of tag shape fields _ hB hnt with ⟨_, h⟩ | ⟨_, _, _, h⟩ | ⟨_, fs, _, ⟨_, h⟩ | ⟨t, n, _, h⟩⟩ | ⟨_, _, h⟩ | ⟨_, Xs, _, h⟩ <;> cases h
  | _, _, .mapped _, ra, raS, of, tag, tagS, shape, fields, hB, _, hnt, _, _, _ => by
    rcases structBody_cases cfg env ra of tag shape fields _ hB hnt with ⟨_, h⟩ | ⟨_, _, _, h⟩ | ⟨_, fs, _, ⟨_, h⟩ | ⟨t, n, _, h⟩⟩ | ⟨_, _, h⟩ | ⟨_, Xs, _, h⟩ <;> cases h
  | _, _, .union _ _, ra, raS, of, tag, tagS, shape, fields, hB, _, hnt, _, _, _ => by
    rcases structBody_cases cfg env ra of tag shape fields _ hB hnt with ⟨_, h⟩ | ⟨_, _, _, h⟩ | ⟨_, fs, _, ⟨_, h⟩ | ⟨t, n, _, h⟩⟩ | ⟨_, _, h⟩ | ⟨_, Xs, _, h⟩ <;> cases h
  | _, _, .interNil, ra, raS, of, tag, tagS, shape, fields, hB, _, hnt, _, _, _ => by
    rcases structBody_cases cfg env ra of tag shape fields _ hB hnt with ⟨_, h⟩ | ⟨_, _, _, h⟩ | ⟨_, fs, _, ⟨_, h⟩ | ⟨t, n, _, h⟩⟩ | ⟨_, _, h⟩ | ⟨_, Xs, _, h⟩ <;> cases h
  | _, _, .interObj _ _ _ _, ra, raS, of, tag, tagS, shape, fields, hB, _, hnt, _, _, _ => by
    rcases structBody_cases cfg env ra of tag shape fields _ hB hnt with ⟨_, h⟩ | ⟨_, _, _, h⟩ | ⟨_, fs, _, ⟨_, h⟩ | ⟨t, n, _, h⟩⟩ | ⟨_, _, h⟩ | ⟨_, Xs, _, h⟩ <;> cases h
  | _, _, .interOne _, ra, raS, of, tag, tagS, shape, fields, hB, _, hnt, _, _, _ => by
    rcases structBody_cases cfg env ra of tag shape fields _ hB hnt with ⟨_, h⟩ | ⟨_, _, _, h⟩ | ⟨_, fs, _, ⟨_, h⟩ | ⟨t, n, _, h⟩⟩ | ⟨_, _, h⟩ | ⟨_, Xs, _, h⟩ <;> cases h
  | _, _, .interVal _ _ _, ra, raS, of, tag, tagS, shape, fields, hB, _, hnt, _, _, _ => by
    rcases structBody_cases cfg env ra of tag shape fields _ hB hnt with ⟨_, h⟩ | ⟨_, _, _, h⟩ | ⟨_, fs, _, ⟨_, h⟩ | ⟨t, n, _, h⟩⟩ | ⟨_, _, h⟩ | ⟨_, Xs, _, h⟩ <;> cases h
  | _, _, .paren _, ra, raS, of, tag, tagS, shape, fields, hB, _, hnt, _, _, _ => by
    rcases structBody_cases cfg env ra of tag shape fields _ hB hnt with ⟨_, h⟩ | ⟨_, _, _, h⟩ | ⟨_, fs, _, ⟨_, h⟩ | ⟨t, n, _, h⟩⟩ | ⟨_, _, h⟩ | ⟨_, Xs, _, h⟩ <;> cases h
/-- the properties of a tagged struct: the tag first, then the fields -/
theorem gTagged (cfg : Cfg) (env : Env) (hF : deFragB cfg env = true) : ∀ {fsT : List (TsKey × Ts)} {kvs : List (Str × JVal)},
    MemberFields (declsOf cfg env) fsT kvs → ∀ (tk : TsKey) (tn : Str) (fs : List (TsKey × Ts)) (ra : Option Rule) (of : Opt) (fields : List Field),
      fsT = (tk, .lit tn) :: fs → tk.optional = false → fieldsTs cfg env ra of fields = some fs →
      fields.all (fieldOkN cfg ra of) = true → fields.all (fieldTyOk cfg) = true → wfJF kvs = true →
      Good (fun f => accNamed cfg env f [] ra fields kvs)
  | _, _, .present _ _ ms, tk, tn, fs, ra, of, fields, he, _, hfs, hok, hty, hw => by
    simp only [List.cons.injEq] at he
    exact gFields cfg env hF ms ra of fields (by rw [he.2]; exact hfs) hok hty hw
  | _, _, .absent (k := k) _ ho _, tk, tn, fs, ra, of, fields, he, hopt, _, _, _, _ => by
    simp only [List.cons.injEq, Prod.mk.injEq] at he
    rw [he.1.1, hopt] at ho; cases ho
  | _, _, .nil, _, _, _, _, _, _, he, _, _, _, _, _ => by cases he
/-- one arm of the union of an enum -/
theorem gVariant (cfg : Cfg) (env : Env) (hF : deFragB cfg env = true) : ∀ {A : Ts} {j : JVal}, Member (declsOf cfg env) A j →
    ∀ (it : Item) (var : Variant), variantTs cfg env it var = some A → ItemF cfg it → var ∈ it.variants → var.attr.skip = false → it.isEnum = true →
      wfJ j = true → Good (fun f => accEnum cfg env f it [] j)
  | _, _, .lit s, it, var, hA, hmem, hvm, hsk, hen, _ => by
    obtain ⟨hiu, hvs, hnd, hvok⟩ := id hmem
    have hvu := fun v hv => (hvs v hv).1
    obtain ⟨hname, _, _, _⟩ := variantOk_facts cfg it var (hvok hen var hvm) (hvu var hvm) hiu
    rcases variantTs_cases cfg env it var _ hA (hvu var hvm) hiu with ⟨htag, hu, h⟩ | ⟨_, _, C, _, h⟩ | ⟨t, c, _, _, _, h⟩ | ⟨t, c, _, _, _, C, _, h⟩ | ⟨t, _, _, _, h⟩ | ⟨t, _, _, _, hs, hB⟩
    · simp only [Ts.lit.injEq] at h
      rw [h, hname]
      refine Good.congr (Good.shift (Good.const (Nat.zero_le 1))) (fun f => ?_)
      cases f with
      | zero => simp [accEnum]
      | succ f' => simp [accEnum_ext_unit cfg env it var hiu hvu hnd hvm hsk f' htag hu]
    · cases h
    · cases h
    · cases h
    · cases h
    · rw [hs] at hB
      obtain ⟨fs, _, h⟩ := int_named_obj cfg env _ t _ _ _ hB
      cases h
  | _, _, .obj (kvs := kvs) (.present (k := k1) (t := T1) (fs := rest) (v := v1) hl1 m1 ms) hk, it, var, hA, hmem, hvm, hsk, hen, hw => by
    obtain ⟨hiu, hvs, hnd, hvok⟩ := id hmem
    have hvu := fun v hv => (hvs v hv).1
    have hvty := (hvs var hvm).2
    obtain ⟨hname, hra, hfok, htc⟩ := variantOk_facts cfg it var (hvok hen var hvm) (hvu var hvm) hiu
    obtain ⟨hkn, hwf⟩ := wfJ_obj hw
    have hwv1 : wfJ v1 = true := wfJF_lookup hwf hl1
    rcases variantTs_cases cfg env it var _ hA (hvu var hvm) hiu with ⟨_, _, h⟩ | ⟨htag, hu, C, hC, h⟩ | ⟨t, c, htag, hcon, hu, h⟩ | ⟨t, c, htag, hcon, hu, C, hC, h⟩ | ⟨t, htag, hcon, hu, h⟩ | ⟨t, htag, hcon, hu, hs, hB⟩
    · cases h
    · -- externally tagged, with content
      simp only [Ts.obj.injEq, List.cons.injEq, Prod.mk.injEq] at h
      obtain ⟨⟨hk1, hT1⟩, hrest⟩ := h
      have hfsT : (k1, T1) :: rest = [(k1, T1)] := by rw [hrest]
      have hkeys := keys_single hk hfsT
      have hkvs := single_key hkeys hkn hl1
      have hk1n : k1.name = Serde.variantKey cfg it.attr.renameAll var := by rw [hk1, ← hname]
      rw [hkvs, hk1n]
      have g := content_good cfg env it var v1 hu
        (fun fld hs hfs => by
          have hC' : tyTs cfg env fld.ty = some C := by
            have hsk : fld.attr.skip = false := by
              by_cases h : fld.attr.skip = true
              · simp [Variant.unitLike, hs, hfs, h] at hu
              · simpa using h
            rw [hs, hfs] at hC
            simpa [structBody, hsk] using hC
          have hty : tyOk cfg.limit fld.ty = true := by
            have hsk : fld.attr.skip = false := by
              by_cases h : fld.attr.skip = true
              · simp [Variant.unitLike, hs, hfs, h] at hu
              · simpa using h
            have := hvty
            rw [hfs] at this
            simpa [fieldTyOk, hsk] using this
          exact gTy cfg env hF m1 fld.ty (by rw [hT1]; exact hC') hty hwv1)
        (fun hnt => gStruct cfg env hF m1 (renameAllT it var) (Serde.renameAllS it var) .no none none var.shape var.fields
          (by rw [hT1]; exact hC) (fun hs => (hra hs).symm) hnt hfok hvty hwv1)
      refine Good.congr (Good.shift g) (fun f => ?_)
      cases f with
      | zero => simp [accEnum]
      | succ f' => rw [accEnum_ext cfg env it var hiu hvu hnd hvm hsk f' htag]
    · -- adjacently tagged, unit-like
      simp only [Ts.obj.injEq, List.cons.injEq, Prod.mk.injEq] at h
      obtain ⟨⟨hk1, hT1⟩, hrest⟩ := h
      have hv1 := member_lit_eq m1 hT1
      have hfsT : (k1, T1) :: rest = [(k1, T1)] := by rw [hrest]
      have hkeys := keys_single hk hfsT
      have hl : JVal.lookup t kvs = some (.str (Serde.variantKey cfg it.attr.renameAll var)) := by
        rw [← hname, ← hv1, ← show k1.name = t from by rw [hk1]]; exact hl1
      have hlc : JVal.lookup c kvs = none := lookup_none_of_keys hkeys (by rw [hk1]; exact htc t c htag hcon)
      refine Good.congr (Good.shift (Good.shift (Good.const (Nat.zero_le 1)))) (fun f => ?_)
      cases f with
      | zero => simp [accEnum]
      | succ f' =>
        rw [accEnum_adj cfg env it var hiu hvu hnd hvm hsk f' t c htag hcon kvs hl, hlc]
        cases f' <;> simp [accVariantContent, hu]
    · -- adjacently tagged, with content
      simp only [Ts.obj.injEq, List.cons.injEq, Prod.mk.injEq] at h
      obtain ⟨⟨hk1, hT1⟩, hrest⟩ := h
      have hv1 := member_lit_eq m1 hT1
      have hl : JVal.lookup t kvs = some (.str (Serde.variantKey cfg it.attr.renameAll var)) := by
        rw [← hname, ← hv1, ← show k1.name = t from by rw [hk1]]; exact hl1
      obtain ⟨v2, hl2, g⟩ := gAdj2 cfg env hF ms it var { name := c } C hrest rfl hC hmem hvm hen hwf hu
      refine Good.congr (Good.shift g) (fun f => ?_)
      cases f with
      | zero => simp [accEnum]
      | succ f' => rw [accEnum_adj cfg env it var hiu hvu hnd hvm hsk f' t c htag hcon kvs hl, hl2]
    · -- internally tagged, unit-like
      simp only [Ts.obj.injEq, List.cons.injEq, Prod.mk.injEq] at h
      obtain ⟨⟨hk1, hT1⟩, hrest⟩ := h
      have hv1 := member_lit_eq m1 hT1
      have hl : JVal.lookup t kvs = some (.str (Serde.variantKey cfg it.attr.renameAll var)) := by
        rw [← hname, ← hv1, ← show k1.name = t from by rw [hk1]]; exact hl1
      refine Good.congr (Good.shift (Good.const (Nat.zero_le 1))) (fun f => ?_)
      cases f with
      | zero => simp [accEnum]
      | succ f' => rw [accEnum_int cfg env it var hiu hvu hnd hvm hsk f' t htag hcon kvs hl (Or.inl hu)]; simp [hu]
    · -- internally tagged struct variant
      have hB' := hB
      rw [hs] at hB'
      obtain ⟨fs, hfs, h⟩ := int_named_obj cfg env _ t _ _ _ hB'
      simp only [Ts.obj.injEq, List.cons.injEq, Prod.mk.injEq] at h
      obtain ⟨⟨hk1, hT1⟩, hrest⟩ := h
      have hv1 := member_lit_eq m1 hT1
      have hl : JVal.lookup t kvs = some (.str (Serde.variantKey cfg it.attr.renameAll var)) := by
        rw [← hname, ← hv1, ← show k1.name = t from by rw [hk1]]; exact hl1
      have g := gFields cfg env hF ms (renameAllT it var) .no var.fields (by rw [hrest]; exact hfs) (hfok hs) hvty hwf
      refine Good.congr (Good.shift g) (fun f => ?_)
      cases f with
      | zero => simp [accEnum]
      | succ f' =>
        rw [accEnum_int cfg env it var hiu hvu hnd hvm hsk f' t htag hcon kvs hl (Or.inr hs), ← hra hs]
        simp [hu]
  | _, _, .obj (.absent (k := k1) _ ho _) _, it, var, hA, hmem, hvm, _, _, _ => by
    obtain ⟨hiu, hvs, _, _⟩ := id hmem
    rcases variantTs_cases cfg env it var _ hA (hvs var hvm).1 hiu with ⟨_, _, h⟩ | ⟨_, _, C, _, h⟩ | ⟨t, c, _, _, _, h⟩ | ⟨t, c, _, _, _, C, _, h⟩ | ⟨t, _, _, _, h⟩ | ⟨t, _, _, _, hs, hB⟩
    · cases h
    · simp only [Ts.obj.injEq, List.cons.injEq, Prod.mk.injEq] at h; rw [h.1.1] at ho; simp at ho
    · simp only [Ts.obj.injEq, List.cons.injEq, Prod.mk.injEq] at h; rw [h.1.1] at ho; simp at ho
    · simp only [Ts.obj.injEq, List.cons.injEq, Prod.mk.injEq] at h; rw [h.1.1] at ho; simp at ho
    · simp only [Ts.obj.injEq, List.cons.injEq, Prod.mk.injEq] at h; rw [h.1.1] at ho; simp at ho
    · rw [hs] at hB
      obtain ⟨fs, _, h⟩ := int_named_obj cfg env _ t _ _ _ hB
      simp only [Ts.obj.injEq, List.cons.injEq, Prod.mk.injEq] at h; rw [h.1.1] at ho; simp at ho
  | _, _, .obj .nil _, it, var, hA, hmem, hvm, _, _, _ => by
    obtain ⟨hiu, hvs, _, _⟩ := id hmem
    rcases variantTs_cases cfg env it var _ hA (hvs var hvm).1 hiu with ⟨_, _, h⟩ | ⟨_, _, C, _, h⟩ | ⟨t, c, _, _, _, h⟩ | ⟨t, c, _, _, _, C, _, h⟩ | ⟨t, _, _, _, h⟩ | ⟨t, _, _, _, hs, hB⟩
    · cases h
    · simp at h
    · simp at h
    · simp at h
    · simp at h
    · rw [hs] at hB
      obtain ⟨fs, _, h⟩ := int_named_obj cfg env _ t _ _ _ hB
      simp at h
  | _, _, .numberInt _, it, var, hA, hmem, hvm, _, _, _ => by
    obtain ⟨hiu, hvs, _, _⟩ := id hmem
    rcases variantTs_cases cfg env it var _ hA (hvs var hvm).1 hiu with ⟨_, _, h⟩ | ⟨_, _, C, _, h⟩ | ⟨t, c, _, _, _, h⟩ | ⟨t, c, _, _, _, C, _, h⟩ | ⟨t, _, _, _, h⟩ | ⟨t, _, _, _, hs, hB⟩
    · cases h
    · cases h
    · cases h
    · cases h
    · cases h
    · rw [hs] at hB
      obtain ⟨fs, _, h⟩ := int_named_obj cfg env _ t _ _ _ hB
      cases h
  | _, _, .numberFloat _, it, var, hA, hmem, hvm, _, _, _ => by
    obtain ⟨hiu, hvs, _, _⟩ := id hmem
    rcases variantTs_cases cfg env it var _ hA (hvs var hvm).1 hiu with ⟨_, _, h⟩ | ⟨_, _, C, _, h⟩ | ⟨t, c, _, _, _, h⟩ | ⟨t, c, _, _, _, C, _, h⟩ | ⟨t, _, _, _, h⟩ | ⟨t, _, _, _, hs, hB⟩
    · cases h
    · cases h
    · cases h
    · cases h
    · cases h
    · rw [hs] at hB
      obtain ⟨fs, _, h⟩ := int_named_obj cfg env _ t _ _ _ hB
      cases h
  | _, _, .bigint _, it, var, hA, hmem, hvm, _, _, _ => by
    obtain ⟨hiu, hvs, _, _⟩ := id hmem
    rcases variantTs_cases cfg env it var _ hA (hvs var hvm).1 hiu with ⟨_, _, h⟩ | ⟨_, _, C, _, h⟩ | ⟨t, c, _, _, _, h⟩ | ⟨t, c, _, _, _, C, _, h⟩ | ⟨t, _, _, _, h⟩ | ⟨t, _, _, _, hs, hB⟩
    · cases h
    · cases h
    · cases h
    · cases h
    · cases h
    · rw [hs] at hB
      obtain ⟨fs, _, h⟩ := int_named_obj cfg env _ t _ _ _ hB
      cases h
  | _, _, .string _, it, var, hA, hmem, hvm, _, _, _ => by
    obtain ⟨hiu, hvs, _, _⟩ := id hmem
    rcases variantTs_cases cfg env it var _ hA (hvs var hvm).1 hiu with ⟨_, _, h⟩ | ⟨_, _, C, _, h⟩ | ⟨t, c, _, _, _, h⟩ | ⟨t, c, _, _, _, C, _, h⟩ | ⟨t, _, _, _, h⟩ | ⟨t, _, _, _, hs, hB⟩
    · cases h
    · cases h
    · cases h
    · cases h
    · cases h
    · rw [hs] at hB
      obtain ⟨fs, _, h⟩ := int_named_obj cfg env _ t _ _ _ hB
      cases h
  | _, _, .boolean _, it, var, hA, hmem, hvm, _, _, _ => by
    obtain ⟨hiu, hvs, _, _⟩ := id hmem
    rcases variantTs_cases cfg env it var _ hA (hvs var hvm).1 hiu with ⟨_, _, h⟩ | ⟨_, _, C, _, h⟩ | ⟨t, c, _, _, _, h⟩ | ⟨t, c, _, _, _, C, _, h⟩ | ⟨t, _, _, _, h⟩ | ⟨t, _, _, _, hs, hB⟩
    · cases h
    · cases h
    · cases h
    · cases h
    · cases h
    · rw [hs] at hB
      obtain ⟨fs, _, h⟩ := int_named_obj cfg env _ t _ _ _ hB
      cases h
  | _, _, .null, it, var, hA, hmem, hvm, _, _, _ => by
    obtain ⟨hiu, hvs, _, _⟩ := id hmem
    rcases variantTs_cases cfg env it var _ hA (hvs var hvm).1 hiu with ⟨_, _, h⟩ | ⟨_, _, C, _, h⟩ | ⟨t, c, _, _, _, h⟩ | ⟨t, c, _, _, _, C, _, h⟩ | ⟨t, _, _, _, h⟩ | ⟨t, _, _, _, hs, hB⟩
    · cases h
    · cases h
    · cases h
    · cases h
    · cases h
    · rw [hs] at hB
      obtain ⟨fs, _, h⟩ := int_named_obj cfg env _ t _ _ _ hB
      cases h
  | _, _, .ref _ _, it, var, hA, hmem, hvm, _, _, _ => by
    obtain ⟨hiu, hvs, _, _⟩ := id hmem
    rcases variantTs_cases cfg env it var _ hA (hvs var hvm).1 hiu with ⟨_, _, h⟩ | ⟨_, _, C, _, h⟩ | ⟨t, c, _, _, _, h⟩ | ⟨t, c, _, _, _, C, _, h⟩ | ⟨t, _, _, _, h⟩ | ⟨t, _, _, _, hs, hB⟩
    · cases h
    · cases h
    · cases h
    · cases h
    · cases h
    · rw [hs] at hB
      obtain ⟨fs, _, h⟩ := int_named_obj cfg env _ t _ _ _ hB
      cases h
  | _, _, .array _, it, var, hA, hmem, hvm, _, _, _ => by
    obtain ⟨hiu, hvs, _, _⟩ := id hmem
    rcases variantTs_cases cfg env it var _ hA (hvs var hvm).1 hiu with ⟨_, _, h⟩ | ⟨_, _, C, _, h⟩ | ⟨t, c, _, _, _, h⟩ | ⟨t, c, _, _, _, C, _, h⟩ | ⟨t, _, _, _, h⟩ | ⟨t, _, _, _, hs, hB⟩
    · cases h
    · cases h
    · cases h
    · cases h
    · cases h
    · rw [hs] at hB
      obtain ⟨fs, _, h⟩ := int_named_obj cfg env _ t _ _ _ hB
      cases h
  | _, _, .tuple _, it, var, hA, hmem, hvm, _, _, _ => by
    obtain ⟨hiu, hvs, _, _⟩ := id hmem
    rcases variantTs_cases cfg env it var _ hA (hvs var hvm).1 hiu with ⟨_, _, h⟩ | ⟨_, _, C, _, h⟩ | ⟨t, c, _, _, _, h⟩ | ⟨t, c, _, _, _, C, _, h⟩ | ⟨t, _, _, _, h⟩ | ⟨t, _, _, _, hs, hB⟩
    · cases h
    · cases h
    · cases h
    · cases h
    · cases h
    · rw [hs] at hB
      obtain ⟨fs, _, h⟩ := int_named_obj cfg env _ t _ _ _ hB
      cases h
  | _, _, .neverArray, it, var, hA, hmem, hvm, _, _, _ => by
    obtain ⟨hiu, hvs, _, _⟩ := id hmem
    rcases variantTs_cases cfg env it var _ hA (hvs var hvm).1 hiu with ⟨_, _, h⟩ | ⟨_, _, C, _, h⟩ | ⟨t, c, _, _, _, h⟩ | ⟨t, c, _, _, _, C, _, h⟩ | ⟨t, _, _, _, h⟩ | ⟨t, _, _, _, hs, hB⟩
    · cases h
    · cases h
    · cases h
    · cases h
    · cases h
    · rw [hs] at hB
      obtain ⟨fs, _, h⟩ := int_named_obj cfg env _ t _ _ _ hB
      cases h
  | _, _, .emptyRecord, it, var, hA, hmem, hvm, _, _, _ => by
    obtain ⟨hiu, hvs, _, _⟩ := id hmem
    rcases variantTs_cases cfg env it var _ hA (hvs var hvm).1 hiu with ⟨_, _, h⟩ | ⟨_, _, C, _, h⟩ | ⟨t, c, _, _, _, h⟩ | ⟨t, c, _, _, _, C, _, h⟩ | ⟨t, _, _, _, h⟩ | ⟨t, _, _, _, hs, hB⟩
    · cases h
    · cases h
    · cases h
    · cases h
    · cases h
    · rw [hs] at hB
      obtain ⟨fs, _, h⟩ := int_named_obj cfg env _ t _ _ _ hB
      cases h
  | _, _, .mapped _, it, var, hA, hmem, hvm, _, _, _ => by
    obtain ⟨hiu, hvs, _, _⟩ := id hmem
    rcases variantTs_cases cfg env it var _ hA (hvs var hvm).1 hiu with ⟨_, _, h⟩ | ⟨_, _, C, _, h⟩ | ⟨t, c, _, _, _, h⟩ | ⟨t, c, _, _, _, C, _, h⟩ | ⟨t, _, _, _, h⟩ | ⟨t, _, _, _, hs, hB⟩
    · cases h
    · cases h
    · cases h
    · cases h
    · cases h
    · rw [hs] at hB
      obtain ⟨fs, _, h⟩ := int_named_obj cfg env _ t _ _ _ hB
      cases h
  | _, _, .union _ _, it, var, hA, hmem, hvm, _, _, _ => by
    obtain ⟨hiu, hvs, _, _⟩ := id hmem
    rcases variantTs_cases cfg env it var _ hA (hvs var hvm).1 hiu with ⟨_, _, h⟩ | ⟨_, _, C, _, h⟩ | ⟨t, c, _, _, _, h⟩ | ⟨t, c, _, _, _, C, _, h⟩ | ⟨t, _, _, _, h⟩ | ⟨t, _, _, _, hs, hB⟩
    · cases h
    · cases h
    · cases h
    · cases h
    · cases h
    · rw [hs] at hB
      obtain ⟨fs, _, h⟩ := int_named_obj cfg env _ t _ _ _ hB
      cases h
  | _, _, .interNil, it, var, hA, hmem, hvm, _, _, _ => by
    obtain ⟨hiu, hvs, _, _⟩ := id hmem
    rcases variantTs_cases cfg env it var _ hA (hvs var hvm).1 hiu with ⟨_, _, h⟩ | ⟨_, _, C, _, h⟩ | ⟨t, c, _, _, _, h⟩ | ⟨t, c, _, _, _, C, _, h⟩ | ⟨t, _, _, _, h⟩ | ⟨t, _, _, _, hs, hB⟩
    · cases h
    · cases h
    · cases h
    · cases h
    · cases h
    · rw [hs] at hB
      obtain ⟨fs, _, h⟩ := int_named_obj cfg env _ t _ _ _ hB
      cases h
  | _, _, .interObj _ _ _ _, it, var, hA, hmem, hvm, _, _, _ => by
    obtain ⟨hiu, hvs, _, _⟩ := id hmem
    rcases variantTs_cases cfg env it var _ hA (hvs var hvm).1 hiu with ⟨_, _, h⟩ | ⟨_, _, C, _, h⟩ | ⟨t, c, _, _, _, h⟩ | ⟨t, c, _, _, _, C, _, h⟩ | ⟨t, _, _, _, h⟩ | ⟨t, _, _, _, hs, hB⟩
    · cases h
    · cases h
    · cases h
    · cases h
    · cases h
    · rw [hs] at hB
      obtain ⟨fs, _, h⟩ := int_named_obj cfg env _ t _ _ _ hB
      cases h
  | _, _, .interOne _, it, var, hA, hmem, hvm, _, _, _ => by
    obtain ⟨hiu, hvs, _, _⟩ := id hmem
    rcases variantTs_cases cfg env it var _ hA (hvs var hvm).1 hiu with ⟨_, _, h⟩ | ⟨_, _, C, _, h⟩ | ⟨t, c, _, _, _, h⟩ | ⟨t, c, _, _, _, C, _, h⟩ | ⟨t, _, _, _, h⟩ | ⟨t, _, _, _, hs, hB⟩
    · cases h
    · cases h
    · cases h
    · cases h
    · cases h
    · rw [hs] at hB
      obtain ⟨fs, _, h⟩ := int_named_obj cfg env _ t _ _ _ hB
      cases h
  | _, _, .interVal _ _ _, it, var, hA, hmem, hvm, _, _, _ => by
    obtain ⟨hiu, hvs, _, _⟩ := id hmem
    rcases variantTs_cases cfg env it var _ hA (hvs var hvm).1 hiu with ⟨_, _, h⟩ | ⟨_, _, C, _, h⟩ | ⟨t, c, _, _, _, h⟩ | ⟨t, c, _, _, _, C, _, h⟩ | ⟨t, _, _, _, h⟩ | ⟨t, _, _, _, hs, hB⟩
    · cases h
    · cases h
    · cases h
    · cases h
    · cases h
    · rw [hs] at hB
      obtain ⟨fs, _, h⟩ := int_named_obj cfg env _ t _ _ _ hB
      cases h
  | _, _, .paren _, it, var, hA, hmem, hvm, _, _, _ => by
    obtain ⟨hiu, hvs, _, _⟩ := id hmem
    rcases variantTs_cases cfg env it var _ hA (hvs var hvm).1 hiu with ⟨_, _, h⟩ | ⟨_, _, C, _, h⟩ | ⟨t, c, _, _, _, h⟩ | ⟨t, c, _, _, _, C, _, h⟩ | ⟨t, _, _, _, h⟩ | ⟨t, _, _, _, hs, hB⟩
    · cases h
    · cases h
    · cases h
    · cases h
    · cases h
    · rw [hs] at hB
      obtain ⟨fs, _, h⟩ := int_named_obj cfg env _ t _ _ _ hB
      cases h
/-- the content property of an adjacently tagged variant -/
theorem gAdj2 (cfg : Cfg) (env : Env) (hF : deFragB cfg env = true) : ∀ {fsT : List (TsKey × Ts)} {kvs : List (Str × JVal)},
    MemberFields (declsOf cfg env) fsT kvs → ∀ (it : Item) (var : Variant) (ck : TsKey) (C : Ts), fsT = [(ck, C)] → ck.optional = false →
      structBody cfg env (renameAllT it var) .no none var.shape var.fields = some C → ItemF cfg it → var ∈ it.variants → it.isEnum = true → wfJF kvs = true →
      (var.unitLike = false → ∃ v2, JVal.lookup ck.name kvs = some v2 ∧ Good (fun f => accVariantContent cfg env f it [] var (some v2)))
  | _, kvs, .present (k := k) (t := T) (v := v2) hl mC _, it, var, ck, C, he, _, hC, hmem, hvm, hen, hwf => by
    intro hu
    obtain ⟨hiu, hvs, _, hvok⟩ := id hmem
    have hvty := (hvs var hvm).2
    obtain ⟨_, hra, hfok, _⟩ := variantOk_facts cfg it var (hvok hen var hvm) (hvs var hvm).1 hiu
    simp only [List.cons.injEq, Prod.mk.injEq] at he
    obtain ⟨⟨hk, hT⟩, _⟩ := he
    have hwv : wfJ v2 = true := wfJF_lookup hwf hl
    refine ⟨v2, by rw [← hk]; exact hl, ?_⟩
    exact content_good cfg env it var v2 hu
        (fun fld hs hfs => by
          have hC' : tyTs cfg env fld.ty = some C := by
            have hsk : fld.attr.skip = false := by
              by_cases h : fld.attr.skip = true
              · simp [Variant.unitLike, hs, hfs, h] at hu
              · simpa using h
            rw [hs, hfs] at hC
            simpa [structBody, hsk] using hC
          have hty : tyOk cfg.limit fld.ty = true := by
            have hsk : fld.attr.skip = false := by
              by_cases h : fld.attr.skip = true
              · simp [Variant.unitLike, hs, hfs, h] at hu
              · simpa using h
            have := hvty
            rw [hfs] at this
            simpa [fieldTyOk, hsk] using this
          exact gTy cfg env hF mC fld.ty (by rw [hT]; exact hC') hty hwv)
        (fun hnt => gStruct cfg env hF mC (renameAllT it var) (Serde.renameAllS it var) .no none none var.shape var.fields
          (by rw [hT]; exact hC) (fun hs => (hra hs).symm) hnt hfok hvty hwv)
  | _, _, .absent (k := k) _ ho _, it, var, ck, C, he, hopt, _, _, _, _, _ => by
    simp only [List.cons.injEq, Prod.mk.injEq] at he
    rw [he.1.1, hopt] at ho; cases ho
  | _, _, .nil, _, _, _, _, he, _, _, _, _, _, _ => by cases he
/-- the union of an enum -/
theorem gEnum (cfg : Cfg) (env : Env) (hF : deFragB cfg env = true) : ∀ {T : Ts} {j : JVal}, Member (declsOf cfg env) T j →
    ∀ (it : Item) (arms : List Ts), T = .union arms → variantsTs cfg env it it.variants = some arms → ItemG cfg it → it.isEnum = true → wfJ j = true →
      Good (fun f => accEnum cfg env f it [] j)
  | _, j, .union (ts := ts) (t := arm) hmem' m', it, arms, hT, harms, hG, hen, hw => by
    simp only [Ts.union.injEq] at hT
    obtain ⟨var, hvm, hsk, hv⟩ := variantsTs_arm_inv cfg env it it.variants arms _ harms (by rw [← hT]; exact hmem')
    obtain ⟨hvty, hnd, hvok⟩ := id hG
    by_cases hun : (var.attr.untagged || it.attr.untagged) = true
    · -- an `untagged` variant (or enum): the arm is the content itself; serde tries the untagged variants in turn
      have htg : (if var.attr.untagged = true then Derive.Tagged.untagged else Derive.tagged it.attr) = Derive.Tagged.untagged := by
        by_cases h1 : var.attr.untagged = true
        · simp [h1]
        · have h2 : it.attr.untagged = true := by simpa [h1] using hun
          simp [h1, Derive.tagged, h2]
      have hC : structBody cfg env (renameAllT it var) .no none var.shape var.fields = some arm := by
        have := hv
        unfold variantTs at this
        simp only [htg] at this
        exact this
      by_cases hu : var.unitLike = true
      · -- `null`
        have hnull := structBody_unitLike cfg env (renameAllT it var) var hu
        rw [hnull] at hC
        have hj : isNull j = true := by
          have e := Option.some.inj hC
          have m0 := m'
          rw [← e] at m0
          cases m0; rfl
        refine Good.le (Good.shift (Good.const (Nat.zero_le 1))) (fun f => ?_)
        cases f with
        | zero => simp [accEnum]
        | succ f' =>
          refine Nat.le_trans (accEnum_le_untagged cfg env it var hvm hsk hun j f') ?_
          simp [hu, hj]
      · have hu' : var.unitLike = false := by simpa using hu
        have hvt := hvty var hvm
        have hg : Good (fun f => accVariantContent cfg env f it [] var (some j)) :=
          content_good cfg env it var j hu'
            (fun fld hs hfs => by
              have hskf : fld.attr.skip = false := by
                by_cases h : fld.attr.skip = true
                · simp [Variant.unitLike, hs, hfs, h] at hu'
                · simpa using h
              have hC' : tyTs cfg env fld.ty = some arm := by
                rw [hs, hfs] at hC
                simpa [structBody, hskf] using hC
              have hty : tyOk cfg.limit fld.ty = true := by
                have := hvt
                rw [hfs] at this
                simpa [fieldTyOk, hskf] using this
              exact gTy cfg env hF m' fld.ty hC' hty hw)
            (fun hnt => gStruct cfg env hF m' (renameAllT it var) (Serde.renameAllS it var) .no none none var.shape var.fields
              hC (fun hs => ((variantOk_named cfg it var (hvok hen var hvm) hs).1).symm) hnt
              (fun hs => (variantOk_named cfg it var (hvok hen var hvm) hs).2) hvt hw)
        refine Good.le (Good.shift hg) (fun f => ?_)
        cases f with
        | zero => simp [accEnum]
        | succ f' =>
          refine Nat.le_trans (accEnum_le_untagged cfg env it var hvm hsk hun j f') ?_
          simp [hu']
    · -- a tagged variant of an enum that is not `untagged`: read it as a variant of the tagged part
      have hvu : var.attr.untagged = false := by
        cases h : var.attr.untagged with
        | false => rfl
        | true => simp [h] at hun
      have hiu : it.attr.untagged = false := by
        cases h : it.attr.untagged with
        | false => rfl
        | true => simp [h] at hun
      have hsub : ((Item.taggedPart it).variants.filter fun v => !v.attr.skip)
          = ((it.variants.filter fun v => !v.attr.skip).filter fun v => !v.attr.untagged) := by
        simp only [Item.taggedPart, List.filter_filter]
        congr 1
        funext v
        exact Bool.and_comm _ _
      have hF' : ItemF cfg (Item.taggedPart it) := by
        refine ⟨hiu, ?_, ?_, ?_⟩
        · intro v hv'
          have hv2 := List.mem_filter.mp hv'
          exact ⟨by simpa using hv2.2, hvty v hv2.1⟩
        · rw [hsub]
          exact List.Nodup.sublist ((List.filter_sublist).map _) hnd
        · intro _ v hv'
          exact hvok hen v (List.mem_filter.mp hv').1
      have hvm' : var ∈ (Item.taggedPart it).variants := List.mem_filter.mpr ⟨hvm, by simp [hvu]⟩
      have g := gVariant cfg env hF m' (Item.taggedPart it) var hv hF' hvm' hsk hen hw
      exact Good.le g (accEnum_le_tagged cfg env it hiu j)
  | _, _, .numberInt _, _, _, hT, _, _, _, _ => by cases hT
  | _, _, .numberFloat _, _, _, hT, _, _, _, _ => by cases hT
  | _, _, .bigint _, _, _, hT, _, _, _, _ => by cases hT
  | _, _, .string _, _, _, hT, _, _, _, _ => by cases hT
  | _, _, .boolean _, _, _, hT, _, _, _, _ => by cases hT
  | _, _, .null, _, _, hT, _, _, _, _ => by cases hT
  | _, _, .lit _, _, _, hT, _, _, _, _ => by cases hT
  | _, _, .ref _ _, _, _, hT, _, _, _, _ => by cases hT
  | _, _, .array _, _, _, hT, _, _, _, _ => by cases hT
  | _, _, .tuple _, _, _, hT, _, _, _, _ => by cases hT
  | _, _, .neverArray, _, _, hT, _, _, _, _ => by cases hT
  | _, _, .emptyRecord, _, _, hT, _, _, _, _ => by cases hT
  | _, _, .obj _ _, _, _, hT, _, _, _, _ => by cases hT
  | _, _, .mapped _, _, _, hT, _, _, _, _ => by cases hT
  | _, _, .interNil, _, _, hT, _, _, _, _ => by cases hT
  | _, _, .interObj _ _ _ _, _, _, hT, _, _, _, _ => by cases hT
  | _, _, .interOne _, _, _, hT, _, _, _, _ => by cases hT
  | _, _, .interVal _ _ _, _, _, hT, _, _, _, _ => by cases hT
  | _, _, .paren _, _, _, hT, _, _, _, _ => by cases hT
/-- the named fields of a struct / struct variant -/
theorem gFields (cfg : Cfg) (env : Env) (hF : deFragB cfg env = true) : ∀ {fsT : List (TsKey × Ts)} {kvs : List (Str × JVal)},
    MemberFields (declsOf cfg env) fsT kvs → ∀ (ra : Option Rule) (of : Opt) (fields : List Field), fieldsTs cfg env ra of fields = some fsT →
      fields.all (fieldOkN cfg ra of) = true → fields.all (fieldTyOk cfg) = true → wfJF kvs = true →
      Good (fun f => accNamed cfg env f [] ra fields kvs)
  | _, kvs, .nil, ra, of, fields, hfs, _, _, _ =>
    accNamed_all_skipped cfg env ra kvs fields (fieldsTs_nil_inv cfg env ra of fields hfs)
  | _, kvs, .present (k := k) (t := T) (fs := rest) (v := v) hl mv ms, ra, of, fields, hfs, hok, hty, hw => by
    obtain ⟨pre, fld, more, rfl, hpre, hsk, hK, hT, hmore⟩ := fieldsTs_cons_inv cfg env ra of fields k T rest hfs
    apply accNamed_skip_prefix cfg env ra kvs _ pre hpre
    simp only [List.all_append, List.all_cons, Bool.and_eq_true] at hok hty
    obtain ⟨_, hokf, hokm⟩ := hok
    obtain ⟨_, htyf, htym⟩ := hty
    simp only [fieldOkN, hsk, Bool.false_or, Bool.and_eq_true, Bool.not_eq_true', beq_iff_eq, Bool.or_eq_true, Option.isNone_iff_eq_none] at hokf
    obtain ⟨⟨⟨⟨_, hnfl⟩, _⟩, _⟩, ⟨⟨⟨⟨hkey, _⟩, hopt⟩, _⟩, _⟩⟩ := hokf
    have htyf' : tyOk cfg.limit fld.ty = true := by simpa [fieldTyOk, hsk] using htyf
    have hwv : wfJ v = true := wfJF_lookup hw hl
    have hlk : JVal.lookup (Serde.fieldKey cfg ra fld) kvs = some v := by rw [← hkey, ← show k.name = fieldKey cfg ra fld from by rw [hK]]; exact hl
    have gv : Good (fun f => accB (accNf cfg env f) fld.ty v) :=
      field_value_good cfg env of fld v
        (fun hc => by
          have e : (if (optMode of fld).2 = true then fld.ty else Derive.optionInner fld.ty) = fld.ty := by
            rcases hc with hc | hc
            · simp [hc]
            · split
              · rfl
              · exact optionInner_id _ hc
          exact gTy cfg env hF mv fld.ty (by rw [← e]; exact hT) htyf' hwv)
        (fun u hu h2 => by
          have e : (if (optMode of fld).2 = true then fld.ty else Derive.optionInner fld.ty) = u := by
            simp [h2, hu, Derive.optionInner]
          exact gTy cfg env hF mv u (by rw [← e]; exact hT) (by rw [hu] at htyf'; simpa [tyOk] using htyf') hwv)
    have gm := gFields cfg env hF ms ra of more hmore hokm htym hw
    refine Good.congr (Good.shift (Good.max (accTy_good cfg env fld.ty v gv) gm)) (fun f => ?_)
    cases f with
    | zero => simp [accNamed]
    | succ f' => simp [accNamed, hsk, hnfl, hlk, rsubst_nil]
  | _, kvs, .absent (k := k) (t := T) (fs := rest) hl ho ms, ra, of, fields, hfs, hok, hty, hw => by
    obtain ⟨pre, fld, more, rfl, hpre, hsk, hK, hT, hmore⟩ := fieldsTs_cons_inv cfg env ra of fields k T rest hfs
    apply accNamed_skip_prefix cfg env ra kvs _ pre hpre
    simp only [List.all_append, List.all_cons, Bool.and_eq_true] at hok hty
    obtain ⟨_, hokf, hokm⟩ := hok
    obtain ⟨_, _, htym⟩ := hty
    simp only [fieldOkN, hsk, Bool.false_or, Bool.and_eq_true, Bool.not_eq_true', beq_iff_eq, Bool.or_eq_true, Option.isNone_iff_eq_none] at hokf
    obtain ⟨⟨⟨⟨_, hnfl⟩, _⟩, _⟩, ⟨⟨⟨⟨hkey, _⟩, hopt⟩, _⟩, _⟩⟩ := hokf
    have h1 : (optMode of fld).1 = true := by rw [hK] at ho; exact ho
    have hisopt : Derive.isOption fld.ty = true := by
      rcases hopt with h | h
      · rw [h1] at h; cases h
      · exact h
    obtain ⟨u, hu⟩ := isOption_cases fld.ty hisopt
    have hlk : JVal.lookup (Serde.fieldKey cfg ra fld) kvs = none := by rw [← hkey, ← show k.name = fieldKey cfg ra fld from by rw [hK]]; exact hl
    have gm := gFields cfg env hF ms ra of more hmore hokm htym hw
    refine Good.congr (Good.shift gm) (fun f => ?_)
    cases f with
    | zero => simp [accNamed]
    | succ f' => simp [accNamed, hsk, hnfl, hlk, rsubst_nil, missingOk, hu]
/-- the fields of a tuple struct / tuple variant -/
theorem gTupleF (cfg : Cfg) (env : Env) (hF : deFragB cfg env = true) : ∀ {Xs : List Ts} {js : List JVal},
    MemberZip (declsOf cfg env) Xs js → ∀ (fields : List Field), tupleTs cfg env fields = some Xs → fields.all (fieldTyOk cfg) = true → wfJL js = true →
      Good (fun f => accTuple cfg env f [] fields js)
  | _, _, .nil, fields, hfs, _, _ => accTuple_all_skipped cfg env fields (tupleTs_nil_inv cfg env fields hfs)
  | _, _, .cons (t := T) (ts := rest) (j := v) (js := js') mv ms, fields, hfs, hty, hw => by
    obtain ⟨pre, fld, more, rfl, hpre, hsk, hT, hmore⟩ := tupleTs_cons_inv cfg env fields T rest hfs
    apply accTuple_skip_prefix cfg env _ _ pre hpre
    simp only [List.all_append, List.all_cons, Bool.and_eq_true] at hty
    obtain ⟨_, htyf, htym⟩ := hty
    have htyf' : tyOk cfg.limit fld.ty = true := by simpa [fieldTyOk, hsk] using htyf
    simp only [wfJL, Bool.and_eq_true] at hw
    have gv := gTy cfg env hF mv fld.ty hT htyf' hw.1
    have gm := gTupleF cfg env hF ms more hmore htym hw.2
    refine Good.congr (Good.shift (Good.max (accTy_good cfg env fld.ty v gv) gm)) (fun f => ?_)
    cases f with
    | zero => simp [accTuple]
    | succ f' => simp [accTuple, hsk, rsubst_nil]
theorem gAll (cfg : Cfg) (env : Env) (hF : deFragB cfg env = true) : ∀ {X : Ts} {js : List JVal}, MemberAll (declsOf cfg env) X js →
    ∀ (u : RTy), tyTs cfg env u = some X → tyOk cfg.limit u = true → wfJL js = true → Good (fun f => accAllB (accNf cfg env f) u js)
  | _, _, .nil, _, _, _, _ => Good.congr (Good.const (Nat.zero_le 1)) (fun f => by simp [accAllB])
  | _, _, .cons m ms, u, hX, hok, hw => by
    simp only [wfJL, Bool.and_eq_true] at hw
    exact Good.congr (Good.max (gTy cfg env hF m u hX hok hw.1) (gAll cfg env hF ms u hX hok hw.2)) (fun f => by simp [accAllB])
theorem gRep (cfg : Cfg) (env : Env) (hF : deFragB cfg env = true) : ∀ {Xs : List Ts} {js : List JVal}, MemberZip (declsOf cfg env) Xs js →
    ∀ (n : Nat) (X : Ts) (u : RTy), Xs = List.replicate n X → tyTs cfg env u = some X → tyOk cfg.limit u = true → wfJL js = true →
      js.length = n ∧ Good (fun f => accAllB (accNf cfg env f) u js)
  | _, _, .nil, n, _, _, hr, _, _, _ => by
    cases n with
    | zero => exact ⟨rfl, Good.congr (Good.const (Nat.zero_le 1)) (fun f => by simp [accAllB])⟩
    | succ n => simp [List.replicate] at hr
  | _, _, .cons m ms, n, X, u, hr, hX, hok, hw => by
    cases n with
    | zero => simp [List.replicate] at hr
    | succ n =>
      simp only [List.replicate, List.cons.injEq] at hr
      obtain ⟨hr1, hr'⟩ := hr
      simp only [wfJL, Bool.and_eq_true] at hw
      obtain ⟨hlen, hg⟩ := gRep cfg env hF ms n X u hr' hX hok hw.2
      exact ⟨by simp [hlen], Good.congr (Good.max (gTy cfg env hF m u (by rw [hr1]; exact hX) hok hw.1) hg) (fun f => by simp [accAllB])⟩
theorem gZip (cfg : Cfg) (env : Env) (hF : deFragB cfg env = true) : ∀ {Xs : List Ts} {js : List JVal}, MemberZip (declsOf cfg env) Xs js →
    ∀ (ts : List RTy), nameTyBL cfg.limit (nameN env) ts = some Xs → tyOkL cfg.limit ts = true → wfJL js = true →
      Good (fun f => accZipB (accNf cfg env f) ts js)
  | _, _, .nil, ts, hXs, _, _ => by
    cases ts with
    | nil => exact Good.congr (Good.const (Nat.zero_le 1)) (fun f => by simp [accZipB])
    | cons t ts =>
      simp only [nameTyBL, bind, Option.bind, pure] at hXs
      cases h1 : nameTyB cfg.limit (nameN env) t <;> simp [h1] at hXs
      cases h2 : nameTyBL cfg.limit (nameN env) ts <;> simp [h2] at hXs
  | _, _, .cons m ms, ts, hXs, hok, hw => by
    cases ts with
    | nil => simp [nameTyBL] at hXs
    | cons t ts =>
      simp only [nameTyBL, bind, Option.bind, pure] at hXs
      cases h1 : nameTyB cfg.limit (nameN env) t with
      | none => simp [h1] at hXs
      | some X =>
        cases h2 : nameTyBL cfg.limit (nameN env) ts with
        | none => simp [h1, h2] at hXs
        | some Xr =>
          simp only [h1, h2, Option.some.injEq, List.cons.injEq] at hXs
          obtain ⟨e1, e2⟩ := hXs
          simp only [tyOkL, Bool.and_eq_true] at hok
          simp only [wfJL, Bool.and_eq_true] at hw
          exact Good.congr (Good.max (gTy cfg env hF m t (by rw [← e1]; exact h1) hok.1 hw.1) (gZip cfg env hF ms ts (by rw [← e2]; exact h2) hok.2 hw.2))
            (fun f => by simp [accZipB])
theorem gMap (cfg : Cfg) (env : Env) (hF : deFragB cfg env = true) : ∀ {K V : Ts} {kvs : List (Str × JVal)}, MemberMap (declsOf cfg env) K V kvs →
    ∀ (k v : RTy), tyTs cfg env k = some K → keyOk k = true → tyTs cfg env v = some V → tyOk cfg.limit v = true → wfJF kvs = true →
      Good (fun f => accMapB (accNf cfg env f) k v kvs)
  | _, _, _, .nil, _, _, _, _, _, _, _ => Good.congr (Good.const (Nat.zero_le 1)) (fun f => by simp [accMapB])
  | _, _, _, .consStr mk mv ms, k, v, hK, hkk, hV, hokv, hw => by
    simp only [wfJF, Bool.and_eq_true] at hw
    have hkey := accKey_member (declsOf cfg env) C12_tableOK k _ _ cfg.limit (nameN env) hkk hK (Or.inl mk)
    exact Good.congr (Good.max (Good.max (Good.const hkey) (gTy cfg env hF mv v hV hokv hw.1)) (gMap cfg env hF ms k v hK hkk hV hokv hw.2))
      (fun f => by simp [accMapB])
  | _, _, _, .consInt i he mk mv ms, k, v, hK, hkk, hV, hokv, hw => by
    simp only [wfJF, Bool.and_eq_true] at hw
    have hkey := accKey_member (declsOf cfg env) C12_tableOK k _ _ cfg.limit (nameN env) hkk hK (Or.inr ⟨i, he, mk⟩)
    exact Good.congr (Good.max (Good.max (Good.const hkey) (gTy cfg env hF mv v hV hokv hw.1)) (gMap cfg env hF ms k v hK hkk hV hokv hw.2))
      (fun f => by simp [accMapB])
end

end TsRs
