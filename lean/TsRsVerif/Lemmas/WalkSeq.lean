import TsRsVerif.Lemmas.DfsLemmas
/-!
# `export_all` is a sequence of `export_into` steps

A successful walk `export_recursive` has exactly the effect of calling `export_into` for the types it adds to `seen`, one after
the other, in the order of the walk: nothing else touches the world. Together with `C11_visits_exactly_reachable` (which types)
and the history theorems of C05 / C06 (what a sequence of exports leaves in each file) this composes the entry point `export_all`.
-/
namespace TsRs.Export
open Text

/-- `export_into` for the types `order` (indices into the table), one after the other; `true` = every one returned `Ok` -/
def runInto (u : Universe) (dir : Str) : World → List Nat → World × Bool
  | w, [] => (w, true)
  | w, i :: rest =>
    match u[i]? with
    | none => (w, false)
    | some t =>
      match exportInto w t dir with
      | (w', .ok) => runInto u dir w' rest
      | (w', _) => (w', false)

theorem runInto_append (u : Universe) (dir : Str) : ∀ (a b : List Nat) (w w1 : World),
    runInto u dir w a = (w1, true) → runInto u dir w (a ++ b) = runInto u dir w1 b
  | [], b, w, w1, h => by simp [runInto] at h; subst h; rfl
  | i :: a, b, w, w1, h => by
    simp only [runInto, List.cons_append] at h ⊢
    cases hu : u[i]? with
    | none => simp [hu] at h
    | some t =>
      simp only [hu] at h ⊢
      cases hex : exportInto w t dir with
      | mk w' o =>
        simp only [hex] at h ⊢
        cases o with
        | ok => exact runInto_append u dir a b w' w1 h
        | err e => simp at h
        | panic => simp at h

/-- the walk over a list of dependencies, given that each recursive call is a sequence of exports -/
theorem visitDeps_seq (u : Universe) (dir : Str) (recur : World → List Nat → Nat → Option WalkRes)
    (hrec : ∀ w s d w' s', recur w s d = some (w', s', .ok) →
      ∃ order, s' = order.reverse ++ s ∧ order.Nodup ∧ (∀ x ∈ order, x ∉ s) ∧ runInto u dir w order = (w', true)) :
    ∀ (ds : List Nat) (w : World) (seen : List Nat) (w' : World) (seen' : List Nat),
      visitDeps u recur ds w seen = some (w', seen', .ok) →
      ∃ order, seen' = order.reverse ++ seen ∧ order.Nodup ∧ (∀ x ∈ order, x ∉ seen) ∧ runInto u dir w order = (w', true)
  | [], w, seen, w', seen', h => by
    simp only [visitDeps, Option.some.injEq, Prod.mk.injEq] at h
    obtain ⟨rfl, rfl, _⟩ := h
    exact ⟨[], by simp, by simp, by simp, rfl⟩
  | d :: ds, w, seen, w', seen', h => by
    simp only [visitDeps] at h
    cases hu : u[d]? with
    | none => simp [hu] at h
    | some td =>
      simp only [hu] at h
      by_cases hn : td.outputPath.isNone = true
      · simp only [hn, if_true] at h
        exact visitDeps_seq u dir recur hrec ds w seen w' seen' h
      · simp only [hn, Bool.false_eq_true, if_false] at h
        cases hr : recur w seen d with
        | none => simp [hr] at h
        | some r =>
          obtain ⟨w2, seen2, o⟩ := r
          simp only [hr] at h
          cases o with
          | ok =>
            simp only at h
            obtain ⟨o1, hs1, hn1, hd1, hr1⟩ := hrec w seen d w2 seen2 hr
            obtain ⟨o2, hs2, hn2, hd2, hr2⟩ := visitDeps_seq u dir recur hrec ds w2 seen2 w' seen' h
            refine ⟨o1 ++ o2, ?_, ?_, ?_, ?_⟩
            · rw [hs2, hs1]; simp
            · refine List.nodup_append.mpr ⟨hn1, hn2, ?_⟩
              intro a ha b hb e
              subst e
              exact hd2 a hb (by rw [hs1]; simp [ha])
            · intro x hx
              rcases List.mem_append.mp hx with hx | hx
              · exact hd1 x hx
              · intro hxs; exact hd2 x hx (by rw [hs1]; simp [hxs])
            · rw [runInto_append u dir o1 o2 w w2 hr1]; exact hr2
          | err e => simp at h
          | panic => simp at h

/-- **the walk is a sequence of `export_into` steps**: the types it adds to `seen` (in the order of the walk), and nothing else -/
theorem exportRec_seq (u : Universe) (dir : Str) : ∀ (fuel : Nat) (w : World) (seen : List Nat) (i : Nat) (w' : World) (seen' : List Nat),
    exportRec u fuel w seen dir i = some (w', seen', .ok) →
    ∃ order, seen' = order.reverse ++ seen ∧ order.Nodup ∧ (∀ x ∈ order, x ∉ seen) ∧ runInto u dir w order = (w', true)
  | 0, w, seen, i, w', seen', h => by simp [exportRec] at h
  | fuel + 1, w, seen, i, w', seen', h => by
    simp only [exportRec] at h
    by_cases hin : i ∈ seen
    · simp only [hin, if_true, Option.some.injEq, Prod.mk.injEq] at h
      obtain ⟨rfl, rfl, _⟩ := h
      exact ⟨[], by simp, by simp, by simp, rfl⟩
    · simp only [hin, if_false] at h
      cases hui : u[i]? with
      | none => simp [hui] at h
      | some t =>
        simp only [hui] at h
        cases hex : exportInto w t dir with
        | mk w1 o =>
          simp only [hex] at h
          cases o with
          | ok =>
            simp only at h
            obtain ⟨o2, hs2, hn2, hd2, hr2⟩ := visitDeps_seq u dir (fun w' s' d => exportRec u fuel w' s' dir d)
              (fun w2 s2 d w3 s3 hr => exportRec_seq u dir fuel w2 s2 d w3 s3 hr) t.deps w1 (i :: seen) w' seen' h
            refine ⟨i :: o2, ?_, ?_, ?_, ?_⟩
            · rw [hs2]; simp
            · refine List.nodup_cons.mpr ⟨?_, hn2⟩
              intro hi2; exact hd2 i hi2 (by simp)
            · intro x hx
              rcases List.mem_cons.mp hx with rfl | hx
              · exact hin
              · intro hxs; exact hd2 x hx (by simp [hxs])
            · simp only [runInto, hui, hex]; exact hr2
          | err e => simp at h
          | panic => simp at h

end TsRs.Export
