import TsRsVerif.Model.Export
/-! Frame lemmas for the file-system model. -/
namespace TsRs.Fs

theorem find_filter_ne {α β} [DecidableEq α] (l : List (α × β)) (k k' : α) (h : k' ≠ k) :
    (l.filter (fun x => decide (x.1 ≠ k))).find? (fun x => decide (x.1 = k')) = l.find? (fun x => decide (x.1 = k')) := by
  rw [List.find?_filter]
  congr 1
  funext x
  by_cases hx : x.1 = k'
  · simp [hx, h]
  · simp [hx]

theorem lookup_set (fs : Fs) (l : Loc) (n : Node) (l' : Loc) :
    (fs.set l n).lookup l' = if l' = [] then some .dir else if l' = l then some n else fs.lookup l' := by
  unfold lookup set
  by_cases h0 : l' = []
  · simp [h0]
  · simp only [h0, if_false]
    by_cases h1 : l' = l
    · subst h1; simp [List.find?]
    · have h2 : ¬ l = l' := fun e => h1 e.symm
      simp only [h1, if_false, List.find?, h2, decide_false]
      have := find_filter_ne fs.nodes l l' h1
      simp only [this]

/-- same regular files (directories may have been added) -/
def FilesEq (a b : Fs) : Prop := ∀ l c, a.lookup l = some (.file c) ↔ b.lookup l = some (.file c)

theorem FilesEq.refl (a : Fs) : FilesEq a a := fun _ _ => Iff.rfl
theorem FilesEq.trans {a b c : Fs} (h1 : FilesEq a b) (h2 : FilesEq b c) : FilesEq a c :=
  fun l x => (h1 l x).trans (h2 l x)

theorem filesEq_set_dir (fs : Fs) (l : Loc) (h : fs.lookup l = none) : FilesEq fs (fs.set l .dir) := by
  intro l' c
  rw [lookup_set]
  by_cases h0 : l' = []
  · subst h0; simp [lookup]
  · by_cases h1 : l' = l
    · subst h1; simp [h0, h]
    · simp [h0, h1]

theorem createDirAllAux_frame (cs : List Comp) : ∀ (fs : Fs) (cur : Loc) (fs' : Fs),
    createDirAllAux fs cur cs = some fs' → FilesEq fs fs' ∧ fs'.cwd = fs.cwd := by
  induction cs with
  | nil => intro fs cur fs' h; simp [createDirAllAux] at h; subst h; exact ⟨FilesEq.refl _, rfl⟩
  | cons c cs ih =>
    intro fs cur fs' h
    cases c with
    | root => exact ih fs [] fs' (by simpa [createDirAllAux] using h)
    | cur => exact ih fs cur fs' (by simpa [createDirAllAux] using h)
    | parent => exact ih fs cur.dropLast fs' (by simpa [createDirAllAux] using h)
    | normal n =>
      simp only [createDirAllAux] at h
      cases hl : fs.lookup (cur ++ [n]) with
      | none =>
        simp only [hl] at h
        obtain ⟨h1, h2⟩ := ih _ _ _ h
        exact ⟨(filesEq_set_dir fs _ hl).trans h1, by rw [h2]; rfl⟩
      | some nd =>
        cases nd with
        | dir => simp only [hl] at h; exact ih _ _ _ h
        | file c => simp [hl] at h

theorem createDirAll_frame (fs : Fs) (p : Str) (fs' : Fs) (h : fs.createDirAll p = some fs') :
    FilesEq fs fs' ∧ fs'.cwd = fs.cwd := by
  unfold createDirAll at h
  split at h
  · simp at h; subst h; exact ⟨FilesEq.refl _, rfl⟩
  · exact createDirAllAux_frame _ _ _ _ h

end TsRs.Fs
