import TsRsVerif.Lemmas.WalkOrder
import TsRsVerif.Lemmas.HistoryRepeat
/-!
# Several `export_all` calls in one process

Each call walks from its root with a fresh `seen` set, so a type reachable from two roots is exported twice; the second time the
registry knows it. The calls together are one sequence of `export_into` steps with repeats (`HistoryRepeat`), which ends in the
invariant of the first occurrences: every file holds the canonical text of the types reachable from ANY of the roots that belong there.
-/
namespace TsRs
open Text Export Fs

/-- successful `export_all` calls from the roots, one after the other -/
inductive Walks (u : Universe) (dir : Str) (fuel : Nat) : World → List Nat → World → Prop where
  | nil {w : World} : Walks u dir fuel w [] w
  | cons {w w1 w' : World} {r : Nat} {rs s : List Nat} :
      exportRec u fuel w [] dir r = some (w1, s, .ok) → Walks u dir fuel w1 rs w' → Walks u dir fuel w (r :: rs) w'

/-- the calls are one sequence of `export_into` steps (with repeats), over exactly the types reachable from some root -/
theorem walks_seq (u : Universe) (dir : Str) (fuel : Nat) {w w' : World} {roots : List Nat} (h : Walks u dir fuel w roots w') :
    ∃ os : List Nat, runInto u dir w os = (w', true) ∧ ∀ j, j ∈ os ↔ ∃ r ∈ roots, Reach u r j := by
  induction h with
  | nil => exact ⟨[], rfl, by simp⟩
  | @cons w0 w1 w2 r rs s hw _ ih =>
    obtain ⟨o1, _, hm1, hr1⟩ := exportRec_order u fuel w0 w1 dir r s hw
    obtain ⟨o2, hr2, hm2⟩ := ih
    refine ⟨o1 ++ o2, by rw [runInto_append u dir o1 o2 w0 w1 hr1]; exact hr2, ?_⟩
    intro j
    simp only [List.mem_append, hm1, hm2, List.mem_cons, exists_eq_or_imp]

/-- the first occurrences of `os` that are not in `seen`, in order -/
def firstNew : List Nat → List Nat → List Nat
  | _, [] => []
  | seen, j :: os => if j ∈ seen then firstNew seen os else j :: firstNew (seen ++ [j]) os

theorem firstNew_mem : ∀ (os seen : List Nat) (j : Nat), j ∈ firstNew seen os ↔ j ∈ os ∧ j ∉ seen
  | [], seen, j => by simp [firstNew]
  | k :: os, seen, j => by
    simp only [firstNew]
    by_cases hk : k ∈ seen
    · simp only [hk, if_true, firstNew_mem os seen j, List.mem_cons]
      constructor
      · rintro ⟨h1, h2⟩; exact ⟨Or.inr h1, h2⟩
      · rintro ⟨h1 | h1, h2⟩
        · subst h1; exact absurd hk h2
        · exact ⟨h1, h2⟩
    · simp only [hk, if_false, List.mem_cons, firstNew_mem os (seen ++ [k]) j, List.mem_append, List.mem_singleton]
      constructor
      · rintro (h | ⟨h1, h2⟩)
        · subst h; exact ⟨Or.inl rfl, hk⟩
        · exact ⟨Or.inr h1, fun h => h2 (Or.inl h)⟩
      · rintro ⟨h1 | h1, h2⟩
        · exact Or.inl h1
        · by_cases e : j = k
          · exact Or.inl e
          · exact Or.inr ⟨h1, fun h => h.elim h2 (fun h' => e (by simpa using h'))⟩

theorem firstNew_nodup : ∀ (os seen : List Nat), (firstNew seen os).Nodup
  | [], _ => by simp [firstNew]
  | k :: os, seen => by
    simp only [firstNew]
    by_cases hk : k ∈ seen
    · simp only [hk, if_true]; exact firstNew_nodup os seen
    · simp only [hk, if_false]
      refine List.nodup_cons.mpr ⟨?_, firstNew_nodup os (seen ++ [k])⟩
      intro h
      exact ((firstNew_mem os (seen ++ [k]) k).mp h).2 (by simp)

/-- the repeats of a sequence of table steps -/
theorem dedup_table (dir : Str) (gen : Nat → GenT) (rel : Nat → Str) (slotOf : Nat → Nat) : ∀ (os seen : List Nat),
    Dedup (seen.map fun j => (slotOf j, gen j)) (os.map (opOf dir gen rel slotOf)) ((firstNew seen os).map fun j => (slotOf j, gen j))
  | [], seen => by simp [firstNew]; exact Dedup.nil
  | k :: os, seen => by
    simp only [firstNew, List.map_cons]
    by_cases hk : k ∈ seen
    · simp only [hk, if_true]
      refine Dedup.rep ?_ (dedup_table dir gen rel slotOf os seen)
      show gen k ∈ gensAt (slotOf k) (seen.map fun j => (slotOf j, gen j))
      rw [gensAt_map]
      exact List.mem_map.mpr ⟨k, List.mem_filter.mpr ⟨hk, by simp⟩, rfl⟩
    · simp only [hk, if_false, List.map_cons]
      refine Dedup.new ?_
      have := dedup_table dir gen rel slotOf os (seen ++ [k])
      simpa [opOf] using this

/-- **several `export_all` calls**: every file holds the canonical text of the types reachable from any of the roots that belong there -/
theorem walks_files (u : Universe) (slots : List TSlot) (dir : Str) (gen : Nat → GenT) (rel : Nat → Str) (slotOf : Nat → Nat)
    (fuel : Nat) (w w' : World) (roots : List Nat) (h : Walks u dir fuel w roots w')
    (htab : ∀ j, (∃ r ∈ roots, Reach u r j) → TableOK u slots dir gen rel slotOf j)
    (hs : TSlotsOK w.fs slots)
    (hsp : ∀ j, (∃ r ∈ roots, Reach u r j) → ∀ s, slots[slotOf j]? = some s → Path.absolute (cwdStr w.fs) (Path.join dir (rel j)) = .ok s.path)
    (hgen : ∀ j, (∃ r ∈ roots, Reach u r j) → GenOK (gen j))
    (hname : ∀ j j', (∃ r ∈ roots, Reach u r j) → (∃ r ∈ roots, Reach u r j') → slotOf j = slotOf j' → (gen j).name = (gen j').name → j = j')
    (hident : ∀ j j', (∃ r ∈ roots, Reach u r j) → (∃ r ∈ roots, Reach u r j') → slotOf j = slotOf j' → (gen j).ident = (gen j').ident → j = j')
    (hp : w.poisoned = false) (hreg : ∀ s ∈ slots, regGet w.reg (regKey s.path) = none) :
    ∃ news : List Nat, news.Nodup ∧ (∀ j, j ∈ news ↔ ∃ r ∈ roots, Reach u r j) ∧
      TInv w.fs slots (news.map fun j => (slotOf j, gen j)) w' := by
  obtain ⟨os, hrun, hmem⟩ := walks_seq u dir fuel h
  have hmemN : ∀ j, j ∈ firstNew [] os ↔ ∃ r ∈ roots, Reach u r j := by
    intro j; rw [firstNew_mem]; simp [hmem j]
  have hnd := firstNew_nodup os []
  refine ⟨firstNew [] os, hnd, hmemN, ?_⟩
  rw [runInto_eq_runOpsTo u slots dir gen rel slotOf os w (fun j hj => htab j ((hmem j).mp hj))] at hrun
  have hd := dedup_table dir gen rel slotOf os []
  simp only [List.map_nil] at hd
  obtain ⟨w'', hrun', hinv⟩ := tmulti_repeats w.fs slots hs (os.map (opOf dir gen rel slotOf)) [] _ w hd (tinv_init slots w hs hp hreg)
    (by
      intro op hop
      obtain ⟨j, hj, rfl⟩ := List.mem_map.mp hop
      exact (htab j ((hmem j).mp hj)).slot)
    (by
      intro op hop s hs'
      obtain ⟨j, hj, rfl⟩ := List.mem_map.mp hop
      exact hsp j ((hmem j).mp hj) s hs')
    (by
      intro x hx
      rcases hx with ⟨o, ho, rfl⟩ | ⟨o, ho, _⟩
      · obtain ⟨j, hj, rfl⟩ := List.mem_map.mp ho
        exact hgen j ((hmemN j).mp hj)
      · cases ho)
    (by
      intro i
      simp only [List.nil_append]
      exact gensAt_map_nodup _ hnd slotOf gen (·.name) (fun j hj j' hj' => hname j j' ((hmemN j).mp hj) ((hmemN j').mp hj')) i)
    (by
      intro i
      simp only [List.nil_append]
      exact gensAt_map_nodup _ hnd slotOf gen (·.ident) (fun j hj j' hj' => hident j j' ((hmemN j).mp hj) ((hmemN j').mp hj')) i)
  rw [hrun] at hrun'
  have e : w' = w'' := by injection hrun' with a _
  subst e
  simpa using hinv

end TsRs
