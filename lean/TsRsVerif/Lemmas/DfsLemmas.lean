import TsRsVerif.Model.Export
/-! The depth-first walk of `export_recursive` visits exactly the reachable exportable types. -/
namespace TsRs.Export

def Exportable (u : Universe) (d : Nat) : Prop := ∃ td, u[d]? = some td ∧ td.outputPath.isNone = false

/-- `d` is an exportable type that `visit_dependencies` of `n` visits -/
def IsDep (u : Universe) (n d : Nat) : Prop :=
  ∃ t, u[n]? = some t ∧ d ∈ t.deps ∧ Exportable u d

/-- reachability through exportable dependencies (the property's `reach`) -/
inductive Reach (u : Universe) (i : Nat) : Nat → Prop where
  | refl : Reach u i i
  | step {j d : Nat} : Reach u i j → IsDep u j d → Reach u i d

/-- invariant of a successful (sub)walk from `seen` to `seen'` -/
structure Inv (u : Universe) (R : Nat → Prop) (seen seen' : List Nat) : Prop where
  mono : ∀ n ∈ seen, n ∈ seen'
  sound : ∀ n ∈ seen', n ∈ seen ∨ R n
  closed : ∀ n ∈ seen', n ∉ seen → ∀ d, IsDep u n d → d ∈ seen'

theorem Inv.refl (u : Universe) (R : Nat → Prop) (s : List Nat) : Inv u R s s :=
  ⟨fun _ h => h, fun _ h => Or.inl h, fun _ h hn => absurd h hn⟩

theorem Inv.trans {u : Universe} {R : Nat → Prop} {s s1 s2 : List Nat}
    (h1 : Inv u R s s1) (h2 : Inv u R s1 s2) : Inv u R s s2 := by
  refine ⟨fun n h => h2.mono n (h1.mono n h), ?_, ?_⟩
  · intro n hn
    rcases h2.sound n hn with h | h
    · exact h1.sound n h
    · exact Or.inr h
  · intro n hn hns d hd
    by_cases h : n ∈ s1
    · exact h2.mono d (h1.closed n h hns d hd)
    · exact h2.closed n hn h d hd

theorem visitDeps_inv (u : Universe) (R : Nat → Prop)
    (recur : World → List Nat → Nat → Option WalkRes)
    (hrec : ∀ w s d w' s', R d → recur w s d = some (w', s', .ok) → Inv u R s s' ∧ d ∈ s') :
    ∀ (deps : List Nat) (w : World) (seen : List Nat) (w' : World) (seen' : List Nat),
      (∀ d ∈ deps, Exportable u d → R d) →
      visitDeps u recur deps w seen = some (w', seen', .ok) →
      Inv u R seen seen' ∧ (∀ d ∈ deps, Exportable u d → d ∈ seen') := by
  intro deps
  induction deps with
  | nil =>
    intro w seen w' seen' _ h
    simp only [visitDeps, Option.some.injEq, Prod.mk.injEq] at h
    obtain ⟨_, hs, _⟩ := h
    subst hs
    exact ⟨Inv.refl u R _, fun d hd => by simp at hd⟩
  | cons d ds ih =>
    intro w seen w' seen' hR h
    simp only [visitDeps] at h
    cases hud : u[d]? with
    | none => simp [hud] at h
    | some td =>
      simp only [hud] at h
      by_cases hne : td.outputPath.isNone = true
      · simp only [hne, if_true] at h
        obtain ⟨hi, hc⟩ := ih w seen w' seen' (fun x hx => hR x (by simp [hx])) h
        refine ⟨hi, ?_⟩
        intro x hx hex
        simp at hx
        rcases hx with hx | hx
        · subst hx
          obtain ⟨td', h1, h2⟩ := hex
          rw [hud] at h1; cases h1; simp [hne] at h2
        · exact hc x hx hex
      · simp only [hne] at h
        have hexd : Exportable u d := ⟨td, hud, by cases h' : td.outputPath.isNone <;> simp_all⟩
        cases hr : recur w seen d with
        | none => simp [hr] at h
        | some r =>
          obtain ⟨w2, seen2, o⟩ := r
          simp only [hr] at h
          cases o with
          | ok =>
            simp only at h
            obtain ⟨hi1, hd1⟩ := hrec w seen d w2 seen2 (hR d (by simp) hexd) hr
            obtain ⟨hi2, hc2⟩ := ih w2 seen2 w' seen' (fun x hx => hR x (by simp [hx])) h
            refine ⟨hi1.trans hi2, ?_⟩
            intro x hx hex
            simp at hx
            rcases hx with hx | hx
            · subst hx; exact hi2.mono _ hd1
            · exact hc2 x hx hex
          | err e => simp at h
          | panic => simp at h

/-- **DFS invariant**: a successful `export_recursive` from `i` keeps what was seen, adds only types
    satisfying `R` (any predicate closed under dependencies and true of `i`), adds `i`, and every
    exportable dependency of every added type has been added as well. -/
theorem exportRec_inv (u : Universe) (R : Nat → Prop) (hR : ∀ n d, R n → IsDep u n d → R d) :
    ∀ (fuel : Nat) (w : World) (seen : List Nat) (outDir : Str) (i : Nat) (w' : World) (seen' : List Nat),
      R i → exportRec u fuel w seen outDir i = some (w', seen', .ok) →
      Inv u R seen seen' ∧ i ∈ seen' := by
  intro fuel
  induction fuel with
  | zero => intro w seen outDir i w' seen' _ h; simp [exportRec] at h
  | succ fuel ih =>
    intro w seen outDir i w' seen' hRi h
    simp only [exportRec] at h
    by_cases hin : i ∈ seen
    · simp only [hin, if_true, Option.some.injEq, Prod.mk.injEq] at h
      obtain ⟨_, hs, _⟩ := h
      subst hs
      exact ⟨Inv.refl u R _, hin⟩
    · simp only [hin, if_false] at h
      cases hui : u[i]? with
      | none => simp [hui] at h
      | some t =>
        simp only [hui] at h
        cases hex : exportInto w t outDir with
        | mk w1 o =>
          simp only [hex] at h
          cases o with
          | ok =>
            simp only at h
            have hdeps : ∀ d ∈ t.deps, Exportable u d → R d :=
              fun d hd he => hR i d hRi ⟨t, hui, hd, he⟩
            obtain ⟨hinv, hcov⟩ := visitDeps_inv u R _
              (fun w2 s2 d w3 s3 hRd hr => ih w2 s2 outDir d w3 s3 hRd hr) t.deps w1 (i :: seen) w' seen' hdeps h
            have hi' : i ∈ seen' := hinv.mono i (by simp)
            refine ⟨⟨fun n hn => hinv.mono n (by simp [hn]), ?_, ?_⟩, hi'⟩
            · intro n hn
              rcases hinv.sound n hn with h1 | h1
              · simp at h1
                rcases h1 with h1 | h1
                · subst h1; exact Or.inr hRi
                · exact Or.inl h1
              · exact Or.inr h1
            · intro n hn hns d hd
              by_cases hni : n = i
              · subst hni
                obtain ⟨t', ht', hdm, hde⟩ := hd
                rw [hui] at ht'; cases ht'
                exact hcov d hdm hde
              · exact hinv.closed n hn (by simp [hni, hns]) d hd
          | err e => simp at h
          | panic => simp at h

/-- a set that contains `i` and is closed under dependencies contains everything reachable from `i` -/
theorem reach_subset (u : Universe) (i : Nat) (s : List Nat) (hi : i ∈ s)
    (hc : ∀ n ∈ s, ∀ d, IsDep u n d → d ∈ s) : ∀ j, Reach u i j → j ∈ s := by
  intro j hj
  induction hj with
  | refl => exact hi
  | step _ hd ih => exact hc _ ih _ hd

end TsRs.Export
