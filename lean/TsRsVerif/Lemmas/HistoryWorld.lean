import TsRsVerif.Lemmas.History
import TsRsVerif.Lemmas.ExportLemmas
/-!
# A shared file as a function of the set of exports written into it (file system + registry level)

`exportAndMerge` over the file-system / registry model refines the abstract content `canonSt`: after any sequence of
exports of well-formed generated texts into one path, starting from a process that has not touched the path, the file
holds exactly `fileText (canonSt exports)`, the registry lists exactly the exported names, nothing else in the file
system changed, and every step returned `Ok`.
-/
namespace TsRs
open Text Merge Fs Export

namespace Fs

theorem set_cwd (fs : Fs) (l : Loc) (n : Node) : (fs.set l n).cwd = fs.cwd := rfl

theorem isDir_set_file (fs : Fs) (l : Loc) (c : Str) (hl : l ≠ []) (hnd : fs.lookup l ≠ some .dir) (l' : Loc) :
    (fs.set l (.file c)).isDir l' = fs.isDir l' := by
  unfold isDir
  rw [lookup_set]
  by_cases h0 : l' = []
  · subst h0; simp [lookup]
  · simp only [h0, if_false]
    by_cases h1 : l' = l
    · subst h1
      simp only [if_true]
      have : decide (fs.lookup l' = some Node.dir) = false := by simpa using hnd
      rw [this]; simp
    · simp [h1]

theorem walk_congr (a b : Fs) (h : ∀ l, a.isDir l = b.isDir l) : ∀ (cs : List Comp) (cur : Loc), walk a cur cs = walk b cur cs
  | [], _ => rfl
  | Comp.root :: cs, cur => by simp only [walk]; exact walk_congr a b h cs []
  | Comp.cur :: cs, cur => by
    simp only [walk, h cur]; split
    · exact walk_congr a b h cs cur
    · rfl
  | Comp.parent :: cs, cur => by
    simp only [walk, h cur]; split
    · exact walk_congr a b h cs _
    · rfl
  | Comp.normal n :: cs, cur => by
    simp only [walk, h cur]; split
    · exact walk_congr a b h cs _
    · rfl

theorem resolve_set_file (fs : Fs) (l : Loc) (c : Str) (hl : l ≠ []) (hnd : fs.lookup l ≠ some .dir) (p : Str) :
    (fs.set l (.file c)).resolve p = fs.resolve p := by
  unfold resolve
  rw [set_cwd]
  exact walk_congr _ _ (isDir_set_file fs l c hl hnd) _ _

theorem set_set (fs : Fs) (l : Loc) (a b : Node) : (fs.set l a).set l b = fs.set l b := by
  unfold set
  simp only [List.filter_cons, ne_eq, not_true_eq_false, decide_false, Bool.false_eq_true, ↓reduceIte, List.filter_filter]
  congr 2
  apply List.filter_congr
  intro x _
  simp

/-- a successful truncating create: the file is at a location below the root that did not hold a directory -/
theorem fileCreate_spec (fs : Fs) (p text : Str) (fs' : Fs) (h : fs.fileCreate p text = some fs') :
    ∃ l, l ≠ [] ∧ fs.resolve p = some l ∧ fs.lookup l ≠ some .dir ∧ fs' = fs.set l (.file text) := by
  unfold fileCreate at h
  cases hr : fs.resolve p with
  | none => simp [hr] at h
  | some l =>
    cases l with
    | nil => simp [hr] at h
    | cons a as =>
      simp only [hr] at h
      split at h
      · simp at h
      · cases hl : fs.lookup (a :: as) with
        | none => simp only [hl, Option.some.injEq] at h; exact ⟨a :: as, by simp, rfl, by simp [hl], h.symm⟩
        | some nd =>
          cases nd with
          | dir => simp [hl] at h
          | file c0 => simp only [hl, Option.some.injEq] at h; exact ⟨a :: as, by simp, rfl, by simp [hl], h.symm⟩

theorem openRead_set_file (fs : Fs) (l : Loc) (c : Str) (hl : l ≠ []) (hnd : fs.lookup l ≠ some .dir) (p : Str)
    (hr : fs.resolve p = some l) : (fs.set l (.file c)).openRead p = some (l, c) := by
  unfold openRead
  rw [resolve_set_file fs l c hl hnd, hr]
  simp only
  rw [lookup_set]
  simp [hl]

theorem openRead_spec (fs : Fs) (p : Str) (l : Loc) (c : Str) (h : fs.openRead p = some (l, c)) :
    l ≠ [] ∧ fs.resolve p = some l ∧ fs.lookup l = some (.file c) := by
  unfold openRead at h
  cases hr : fs.resolve p with
  | none => simp [hr] at h
  | some l' =>
    simp only [hr] at h
    cases hl : fs.lookup l' with
    | none => simp [hl] at h
    | some nd =>
      cases nd with
      | dir => simp [hl] at h
      | file c' =>
        simp only [hl, Option.some.injEq, Prod.mk.injEq] at h
        obtain ⟨h1, h2⟩ := h
        subst h1; subst h2
        refine ⟨?_, rfl, hl⟩
        intro e; subst e; simp [lookup] at hl

end Fs

namespace Export

theorem regGet_regInsert (r : Registry) (k : List Comp) (name : Str) :
    ∃ names, regGet (regInsert r k name) k = some names ∧
      ∀ n, n ∈ names ↔ n = name ∨ n ∈ (regGet r k).getD [] := by
  unfold regInsert
  cases h : regGet r k with
  | none =>
    refine ⟨[name], by simp [regGet, List.find?], by simp⟩
  | some names =>
    refine ⟨if name ∈ names then names else name :: names, by simp [regGet, List.find?], ?_⟩
    intro n
    by_cases hm : name ∈ names
    · simp only [hm, if_true, Option.getD_some]
      constructor
      · intro h'; exact Or.inr h'
      · rintro (h' | h'); subst h'; exact hm; exact h'
    · simp [hm]

end Export

/-- export the generated text of `g` into `path` -/
def exportGen (w : World) (path : Str) (g : GenT) : World × Outcome := exportAndMerge w path g.ident (genText g)

/-- all exports in order; `true` = every one returned `Ok` -/
def runAll (path : Str) : World → List GenT → World × Bool
  | w, [] => (w, true)
  | w, g :: gs =>
    match exportGen w path g with
    | (w', .ok) => runAll path w' gs
    | (w', _) => (w', false)

/-- the file at `path` (location `loc`) holds exactly the canonical text of `gens`, on top of the file system `fs0`;
the registry lists exactly their names -/
def HInv (fs0 : Fs) (path : Str) (loc : Loc) (gens : List GenT) (w : World) : Prop :=
  w.poisoned = false ∧ loc ≠ [] ∧ fs0.resolve path = some loc ∧ fs0.lookup loc ≠ some .dir ∧
  w.fs = fs0.set loc (.file (fileText (canonSt gens))) ∧
  ∃ names, regGet w.reg (regKey path) = some names ∧ ∀ n, n ∈ names ↔ n ∈ gens.map (·.ident)

theorem first_export (w : World) (path : Str) (g : GenT) (fs' : Fs) (hg : GenOK g)
    (hp : w.poisoned = false) (hreg : regGet w.reg (regKey path) = none)
    (hc : w.fs.fileCreate path (genText g) = some fs') :
    ∃ w' loc, exportGen w path g = (w', .ok) ∧ HInv w.fs path loc [g] w' := by
  obtain ⟨l, hl, hr, hnd, hfs⟩ := Fs.fileCreate_spec _ _ _ _ hc
  refine ⟨{ w with fs := fs', reg := regInsert w.reg (regKey path) g.ident }, l, ?_, ?_⟩
  · simp [exportGen, exportAndMerge, hp, hreg, hc]
  · obtain ⟨names, hn1, hn2⟩ := regGet_regInsert w.reg (regKey path) g.ident
    refine ⟨hp, hl, hr, hnd, ?_, names, hn1, ?_⟩
    · simp only [hfs, genText_eq, canonSt_single g hg]
    · intro n; rw [hn2 n, hreg]; simp

theorem next_export (fs0 : Fs) (w : World) (path : Str) (loc : Loc) (gens : List GenT) (g : GenT)
    (hne : gens ≠ []) (hgens : ∀ x ∈ gens, GenOK x) (hg : GenOK g) (hfresh : g.name ∉ gens.map (·.name))
    (hfreshI : g.ident ∉ gens.map (·.ident)) (hinv : HInv fs0 path loc gens w) :
    ∃ w', exportGen w path g = (w', .ok) ∧ HInv fs0 path loc (gens ++ [g]) w' := by
  obtain ⟨hp, hl, hr, hnd, hfs, names, hn1, hn2⟩ := hinv
  have hnotin : g.ident ∉ names := fun h => hfreshI ((hn2 _).mp h)
  have hopen : w.fs.openRead path = some (loc, fileText (canonSt gens)) := by
    rw [hfs]; exact Fs.openRead_set_file fs0 loc _ hl hnd path hr
  have hst : StOK (canonSt gens) := by
    cases gens with
    | nil => exact absurd rfl hne
    | cons g0 gs => exact canonSt_ok gs g0 hgens
  have hfr : ∀ b ∈ (canonSt gens).blocks, b.1 ≠ g.name := by
    intro b hb e
    obtain ⟨g', hg', e'⟩ := canonSt_blocks_names gens b hb
    exact hfresh (List.mem_map.mpr ⟨g', hg', by rw [← e', e]⟩)
  have hmerge := merge_step (canonSt gens) g hst hg hfr
  have hwrite := write_step (canonSt gens) g hst
  rw [canonSt_snoc] at hmerge hwrite
  refine ⟨{ w with fs := w.fs.set loc (.file (fileText (canonSt (gens ++ [g])))), reg := regInsert w.reg (regKey path) g.ident }, ?_, ?_⟩
  · simp only [exportGen, exportAndMerge, hp, Bool.false_eq_true, ↓reduceIte, hn1, hnotin, hopen, hmerge, hwrite]
  · obtain ⟨names', hn1', hn2'⟩ := regGet_regInsert w.reg (regKey path) g.ident
    refine ⟨hp, hl, hr, hnd, ?_, names', hn1', ?_⟩
    · simp only [hfs, Fs.set_set]
    · intro n
      rw [hn2' n, hn1]
      simp only [Option.getD_some, List.map_append, List.map_cons, List.map_nil, List.mem_append, List.mem_singleton, hn2 n]
      constructor
      · rintro (h | h); exact Or.inr h; exact Or.inl h
      · rintro (h | h); exact Or.inr h; exact Or.inl h

theorem history_aux (fs0 : Fs) (path : Str) (loc : Loc) : ∀ (gs pre : List GenT) (w : World),
    pre ≠ [] → (∀ x ∈ pre ++ gs, GenOK x) → ((pre ++ gs).map (·.name)).Nodup → ((pre ++ gs).map (·.ident)).Nodup →
    HInv fs0 path loc pre w →
    ∃ w', runAll path w gs = (w', true) ∧ HInv fs0 path loc (pre ++ gs) w'
  | [], pre, w, _, _, _, _, h => ⟨w, rfl, by simpa using h⟩
  | g :: gs, pre, w, hne, hok, hnd, hndI, h => by
    have hfresh : g.name ∉ pre.map (·.name) := by
      rw [List.map_append, List.map_cons] at hnd
      have := (List.nodup_append.mp hnd).2.2
      intro hin
      exact this _ hin _ (by simp) rfl
    have hfreshI : g.ident ∉ pre.map (·.ident) := by
      rw [List.map_append, List.map_cons] at hndI
      have := (List.nodup_append.mp hndI).2.2
      intro hin
      exact this _ hin _ (by simp) rfl
    obtain ⟨w1, h1, hinv1⟩ := next_export fs0 w path loc pre g hne (fun x hx => hok x (by simp [hx])) (hok g (by simp)) hfresh hfreshI h
    have e : pre ++ g :: gs = (pre ++ [g]) ++ gs := by simp
    obtain ⟨w2, h2, hinv2⟩ := history_aux fs0 path loc gs (pre ++ [g]) w1 (by simp) (by rw [← e]; exact hok) (by rw [← e]; exact hnd)
      (by rw [← e]; exact hndI) hinv1
    refine ⟨w2, ?_, by rw [e]; exact hinv2⟩
    simp only [runAll, h1, h2]

end TsRs

namespace TsRs
open Text Merge Fs Export

theorem fileCreate_text_irrel (fs : Fs) (p t t' : Str) (h : (fs.fileCreate p t).isSome) : (fs.fileCreate p t').isSome := by
  unfold fileCreate at h ⊢
  cases hr : fs.resolve p with
  | none => simp [hr] at h
  | some l =>
    cases l with
    | nil => simp [hr] at h
    | cons a as =>
      simp only [hr] at h ⊢
      split
      · rename_i hd; simp [hd] at h
      · rename_i hd
        simp only [hd] at h
        cases hl : fs.lookup (a :: as) with
        | none => simp
        | some nd => cases nd with
          | dir => simp [hl] at h
          | file c => simp

/-- **a whole history**: from a process that has not written `path` yet, any sequence of exports of well-formed texts with
distinct names succeeds, and ends in exactly the canonical file of the sequence on top of the untouched rest -/
theorem history_canonical (w : World) (path : Str) (g : GenT) (gs : List GenT)
    (hok : ∀ x ∈ g :: gs, GenOK x) (hnd : ((g :: gs).map (·.name)).Nodup) (hndI : ((g :: gs).map (·.ident)).Nodup)
    (hp : w.poisoned = false) (hreg : regGet w.reg (regKey path) = none)
    (hc : (w.fs.fileCreate path (genText g)).isSome) :
    ∃ w' loc, runAll path w (g :: gs) = (w', true) ∧ HInv w.fs path loc (g :: gs) w' := by
  obtain ⟨fs', hfs'⟩ := Option.isSome_iff_exists.mp hc
  obtain ⟨w1, loc, h1, hinv1⟩ := first_export w path g fs' (hok g (by simp)) hp hreg hfs'
  obtain ⟨w2, h2, hinv2⟩ := history_aux w.fs path loc gs [g] w1 (by simp) (by simpa using hok) (by simpa using hnd) (by simpa using hndI) hinv1
  refine ⟨w2, loc, ?_, by simpa using hinv2⟩
  simp only [runAll, h1, h2]

/-- **order independence on the bytes**: two histories exporting the same set end in the same file system -/
theorem history_order_independent (w : World) (path : Str) (h₁ h₂ : List GenT) (hperm : h₁.Perm h₂) (hne : h₁ ≠ [])
    (hok : ∀ x ∈ h₁, GenOK x) (hnd : (h₁.map (·.name)).Nodup) (hndI : (h₁.map (·.ident)).Nodup)
    (hp : w.poisoned = false) (hreg : regGet w.reg (regKey path) = none)
    (hc : ∃ text, (w.fs.fileCreate path text).isSome) :
    ∃ w₁ w₂, runAll path w h₁ = (w₁, true) ∧ runAll path w h₂ = (w₂, true) ∧ w₁.fs = w₂.fs ∧
      ∀ n, (∃ names, regGet w₁.reg (regKey path) = some names ∧ n ∈ names) ↔ (∃ names, regGet w₂.reg (regKey path) = some names ∧ n ∈ names) := by
  obtain ⟨t0, ht0⟩ := hc
  cases h₁ with
  | nil => exact absurd rfl hne
  | cons a as =>
    cases h₂ with
    | nil => exact absurd hperm.length_eq (by simp)
    | cons b bs =>
      have hok₂ : ∀ x ∈ b :: bs, GenOK x := fun x hx => hok x (hperm.mem_iff.mpr hx)
      have hnd₂ : ((b :: bs).map (·.name)).Nodup := (hperm.map _).nodup_iff.mp hnd
      have hndI₂ : ((b :: bs).map (·.ident)).Nodup := (hperm.map _).nodup_iff.mp hndI
      obtain ⟨w₁, l₁, r₁, i₁⟩ := history_canonical w path a as hok hnd hndI hp hreg (fileCreate_text_irrel _ _ _ _ ht0)
      obtain ⟨w₂, l₂, r₂, i₂⟩ := history_canonical w path b bs hok₂ hnd₂ hndI₂ hp hreg (fileCreate_text_irrel _ _ _ _ ht0)
      refine ⟨w₁, w₂, r₁, r₂, ?_, ?_⟩
      · obtain ⟨_, _, hr₁, _, hf₁, _⟩ := i₁
        obtain ⟨_, _, hr₂, _, hf₂, _⟩ := i₂
        have : l₁ = l₂ := by rw [hr₁] at hr₂; exact Option.some.inj hr₂
        subst this
        rw [hf₁, hf₂, canonSt_perm _ _ hperm hnd]
      · obtain ⟨_, _, _, _, _, n₁, hn₁, hm₁⟩ := i₁
        obtain ⟨_, _, _, _, _, n₂, hn₂, hm₂⟩ := i₂
        intro n
        constructor
        · rintro ⟨names, h, hin⟩
          rw [hn₁] at h; cases h
          exact ⟨n₂, hn₂, (hm₂ n).mpr ((hperm.map _).mem_iff.mp ((hm₁ n).mp hin))⟩
        · rintro ⟨names, h, hin⟩
          rw [hn₂] at h; cases h
          exact ⟨n₁, hn₁, (hm₁ n).mpr ((hperm.map _).mem_iff.mpr ((hm₂ n).mp hin))⟩

/-! ### the oracle the check runs on the real file is this canonical file -/

theorem genParts_genText (g : GenT) (hg : GenOK g) : genParts (genText g) = some (g.imps, g.decl) := by
  obtain ⟨⟨_, he⟩, hb⟩ := hg
  have hl : ∀ l ∈ g.imps.map lineOf, LineOK l := by
    intro l hl; obtain ⟨x, hx, rfl⟩ := List.mem_map.mp hl; exact lineOK_of_entry x (he x hx)
  have hp := header_props noteLine _ noteLine_ok hl
  unfold genParts genText
  rw [splitOnce_nn _ _ hp.1 hp.2.1]
  simp only
  rw [lines_header noteLine _ noteLine_ok hl]
  simp only [List.drop_succ_cons, List.drop_zero]
  have := mapM_parse_lines' g.imps (fun x hx => entry_parse_ok x (he x hx))
  have e : (fun x : Str × List Str => renderLine x.1 x.2) = lineOf := rfl
  rw [e] at this
  rw [this]
  obtain ⟨_, b2, b3, b4, _⟩ := hb
  simp only [trimNl_nl g.decl b2 b3 b4]

theorem foldl_flatMap_addLine (gens : List GenT) : ∀ (m : Imports),
    (gens.map fun g => (g.name, (g.imps, g.decl))).foldl (fun m p => p.2.1.foldl addLine m) m
      = (gens.flatMap (·.imps)).foldl addLine m := by
  induction gens with
  | nil => intro m; rfl
  | cons g gs ih => intro m; simp only [List.map_cons, List.foldl_cons, List.flatMap_cons, List.foldl_append]; exact ih _

/-- `canonFile` (the driver's oracle for the real file, computed from the generated TEXTS) is the rendering of `canonSt` -/
theorem canonFile_eq (gens : List GenT) (hne : gens ≠ []) (hok : ∀ x ∈ gens, GenOK x) :
    canonFile (gens.map fun g => (g.name, genText g)) = some (fileText (canonSt gens)) := by
  unfold canonFile
  have hm : (gens.map fun g => (g.name, genText g)).mapM (fun g => (genParts g.2).map fun p => (g.1, p))
      = some (gens.map fun g => (g.name, (g.imps, g.decl))) := by
    induction gens with
    | nil => rfl
    | cons g gs ih =>
      have hg := genParts_genText g (hok g (by simp))
      cases gs with
      | nil => simp [hg]
      | cons g' gs' =>
        have := ih (by simp) (fun x hx => hok x (by simp [hx]))
        simp only [List.map_cons, List.mapM_cons, hg, Option.map_some, bind, Option.bind, pure] at this ⊢
        rw [this]
  rw [hm]
  simp only
  have hb : canonSt gens ≠ ⟨[], []⟩ → True := fun _ => trivial
  have hblocks : ((gens.map fun g => (g.name, (g.imps, g.decl))).foldl (fun bs p => insertByName p.1 p.2.2 bs) [])
      = (canonSt gens).blocks := by
    simp only [canonSt, List.foldl_map]
  have hne' : (canonSt gens).blocks ≠ [] := by
    cases gens with
    | nil => exact absurd rfl hne
    | cons g gs => exact (canonSt_ok gs g hok).2.1
  rw [fileText_eq _ hne', hblocks, foldl_flatMap_addLine]
  simp [canonSt]

end TsRs
