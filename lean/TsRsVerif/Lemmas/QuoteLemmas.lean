import TsRsVerif.Model.TsParse
import TsRsVerif.Model.Case
/-! `quoteStr` (Rust's `{:?}` of a `str`) read back by the string-literal reader: the literal is closed
    exactly where the generator closed it and decodes to the original text. -/
namespace TsRs
open Text Case TsParse

/-- the per-character contract between a `CharOps.escDebug` table and the literal reader: what is
written for `c` is read back as `c`, whatever precedes and follows. `asciiOps` satisfies it
(`asciiEsc_ok`); for a table taken from Rust at run time the check evaluates it on every row. -/
def EscOk (ops : CharOps) : Prop :=
  ∀ (c : Char) (acc t : Str), litBody .normal acc (jsEsc (ops.escDebug c) ++ t) = litBody .normal (c :: acc) t

theorem hexVal_hexDigit : ∀ d : Fin 16, hexVal (hexDigit d.val) = some d.val := by decide

theorem hexVal_hexDigit' (d : Nat) (h : d < 16) : hexVal (hexDigit d) = some d := hexVal_hexDigit ⟨d, h⟩

theorem hexDigit_ne_close : ∀ d : Fin 16, hexDigit d.val ≠ '}' := by decide

theorem litBody_hex_digit (n d : Nat) (h : d < 16) (acc t : Str) :
    litBody (.hex n) acc (hexDigit d :: t) = litBody (.hex (n * 16 + d)) acc t := by
  have hne := hexDigit_ne_close ⟨d, h⟩
  simp only at hne
  rw [litBody.eq_7 _ _ _ _ (fun heq => hne heq)]
  simp [hexVal_hexDigit' d h]

/-- a code point below 256 written by `hexOf` and closed by `}` is read back -/
theorem litBody_hexOf (k : Nat) (hk : k < 256) (acc t : Str) :
    litBody (.hex 0) acc (hexOf 8 k ++ '}' :: t) = litBody .normal (Char.ofNat k :: acc) t := by
  by_cases h16 : k < 16
  · have : hexOf 8 k = [hexDigit k] := by simp [hexOf, h16]
    rw [this]
    simp only [List.cons_append, List.nil_append]
    rw [litBody_hex_digit 0 k h16, litBody.eq_6]
    simp
  · have hq : k / 16 < 16 := by omega
    have hr : k % 16 < 16 := by omega
    have : hexOf 8 k = [hexDigit (k / 16), hexDigit (k % 16)] := by
      simp [hexOf, h16, hq]
    rw [this]
    simp only [List.cons_append, List.nil_append]
    rw [litBody_hex_digit 0 _ hq, litBody_hex_digit _ _ hr]
    have : 0 * 16 + k / 16 = k / 16 := by omega
    rw [this]
    have : k / 16 * 16 + k % 16 = k := by omega
    rw [this, litBody.eq_6]

theorem litBody_plain (c : Char) (acc t : Str) (h1 : c ≠ '"') (h2 : c ≠ '\\') :
    litBody .normal acc (c :: t) = litBody .normal (c :: acc) t := by
  exact litBody.eq_5 acc c t (fun h => h1 h) (fun _ h _ => h2 h) (fun _ _ _ h _ => h2 h) (fun _ _ h _ => h2 h)

theorem litBody_esc (c : Char) (acc t : Str) (hu : c ≠ 'u') (hx : c ≠ 'x') :
    litBody .normal acc ('\\' :: c :: t) = litBody .normal (unescChar c :: acc) t := by
  exact litBody.eq_4 acc c t (fun _ h _ => hu h) (fun _ _ _ h _ => hx h)

theorem litBody_u (acc t : Str) :
    litBody .normal acc ('\\' :: 'u' :: '{' :: t) = litBody (.hex 0) acc t := by
  exact litBody.eq_2 acc t

/-- **the ASCII escape table satisfies the contract** -/
theorem jsEsc_q : jsEsc ['\\', '"'] = ['\\', '"'] := by decide
theorem jsEsc_b : jsEsc ['\\', '\\'] = ['\\', '\\'] := by decide
theorem jsEsc_n : jsEsc ['\\', 'n'] = ['\\', 'n'] := by decide
theorem jsEsc_r : jsEsc ['\\', 'r'] = ['\\', 'r'] := by decide
theorem jsEsc_t : jsEsc ['\\', 't'] = ['\\', 't'] := by decide
theorem jsEsc_0 : jsEsc ['\\', '0'] = ['\\', 'x', '0', '0'] := by decide
theorem jsEsc_one (c : Char) : jsEsc [c] = [c] := by simp [jsEsc]

theorem asciiEsc_ok : EscOk asciiOps := by
  intro c acc t
  show litBody .normal acc (jsEsc (asciiEscDebug c) ++ t) = _
  unfold asciiEscDebug
  split
  · rename_i h; subst h; simp only [jsEsc_q, jsEsc_b, jsEsc_n, jsEsc_r, jsEsc_t, List.cons_append, List.nil_append]; rw [litBody_esc _ _ _ (by decide) (by decide)]; rfl
  split
  · rename_i h; subst h; simp only [jsEsc_q, jsEsc_b, jsEsc_n, jsEsc_r, jsEsc_t, List.cons_append, List.nil_append]; rw [litBody_esc _ _ _ (by decide) (by decide)]; rfl
  split
  · rename_i h; subst h; simp only [jsEsc_q, jsEsc_b, jsEsc_n, jsEsc_r, jsEsc_t, List.cons_append, List.nil_append]; rw [litBody_esc _ _ _ (by decide) (by decide)]; rfl
  split
  · rename_i h; subst h; simp only [jsEsc_q, jsEsc_b, jsEsc_n, jsEsc_r, jsEsc_t, List.cons_append, List.nil_append]; rw [litBody_esc _ _ _ (by decide) (by decide)]; rfl
  split
  · rename_i h; subst h; simp only [jsEsc_q, jsEsc_b, jsEsc_n, jsEsc_r, jsEsc_t, List.cons_append, List.nil_append]; rw [litBody_esc _ _ _ (by decide) (by decide)]; rfl
  split
  · rename_i h
    have : c = Char.ofNat 0 := by
      have e := Char.ofNat_toNat c
      rw [h] at e; exact e.symm
    simp only [jsEsc_0, List.cons_append, List.nil_append]
    rw [litBody.eq_3, this]
    rfl
  split
  · rename_i _ _ _ _ _ _ h
    have hk : c.toNat < 256 := by
      simp only [Bool.or_eq_true, decide_eq_true_eq] at h; omega
    have hj : jsEsc (['\\', 'u', '{'] ++ hexOf 8 c.toNat ++ ['}']) = ['\\', 'u', '{'] ++ hexOf 8 c.toNat ++ ['}'] := by
      simp [jsEsc]
    rw [hj]
    simp only [List.cons_append, List.nil_append, List.append_assoc]
    rw [litBody_u, litBody_hexOf _ hk]
    rw [Char.ofNat_toNat c]
  · rename_i h1 h2 _ _ _ _ _
    simp only [jsEsc_one, List.cons_append, List.nil_append]
    exact litBody_plain c acc t h1 h2

/-- **round trip**: the literal written for `s` reads back as `s` and ends where it was ended -/
theorem litBody_quote (ops : CharOps) (hok : EscOk ops) : ∀ (s acc rest : Str),
    litBody .normal acc ((s.map fun c => jsEsc (ops.escDebug c)).flatten ++ '"' :: rest) = some ((s.reverse ++ acc).reverse, rest)
  | [], acc, rest => by simp [litBody.eq_1]
  | c :: s, acc, rest => by
    simp only [List.map_cons, List.flatten_cons, List.append_assoc]
    rw [hok c acc, litBody_quote ops hok s (c :: acc) rest]
    simp

theorem strLit_quoteStr (ops : CharOps) (hok : EscOk ops) (s rest : Str) :
    strLit (quoteStr ops s ++ rest) = some (s, rest) := by
  simp only [quoteStr, List.cons_append, List.append_assoc, strLit]
  have := litBody_quote ops hok s [] rest
  simp only [List.append_nil, List.reverse_reverse] at this
  exact this

end TsRs
