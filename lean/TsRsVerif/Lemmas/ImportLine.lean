import TsRsVerif.Lemmas.SplitLemmas
import TsRsVerif.Lemmas.TextLemmas
/-! An import line as `generate_imports` / `merge` print it is read back by `parseImportLine`
    (after fix: the line is cut at ` } from `, which no list of identifiers can contain). -/
namespace TsRs
open Text Merge

/-- the separator `merge` cuts an import line at -/
def SEP : Str := " } from ".toList

theorem stripPrefix_append (pat rest : Str) : stripPrefix pat (pat ++ rest) = some rest := by
  induction pat with
  | nil => rfl
  | cons p ps ih => simp [stripPrefix, ih]

/-- `split_once` cuts at the separator when the text before it contains no `}` -/
theorem splitOnce_sep : ∀ (a b : Str), '}' ∉ a → splitOnce SEP (a ++ SEP ++ b) = some (a, b)
  | [], b, _ => by
    show splitOnce SEP (SEP ++ b) = some ([], b)
    have : SEP ++ b = ' ' :: ('}' :: ' ' :: 'f' :: 'r' :: 'o' :: 'm' :: ' ' :: b) := rfl
    rw [this]
    simp only [splitOnce]
    have h2 := stripPrefix_append SEP b
    rw [this] at h2
    rw [h2]
  | c :: a', b, h => by
    have hc : c ≠ '}' := fun e => h (by simp [e])
    have ha' : '}' ∉ a' := fun e => h (by simp [e])
    have hsp : stripPrefix SEP (c :: (a' ++ SEP ++ b)) = none := by
      unfold SEP
      show stripPrefix (' ' :: '}' :: " from ".toList) (c :: (a' ++ SEP ++ b)) = none
      simp only [stripPrefix]
      split
      · cases a' with
        | nil =>
          show stripPrefix ('}' :: " from ".toList) (SEP ++ b) = none
          have : SEP ++ b = ' ' :: ('}' :: ' ' :: 'f' :: 'r' :: 'o' :: 'm' :: ' ' :: b) := rfl
          rw [this]; simp [stripPrefix]
        | cons d a'' =>
          have hd : d ≠ '}' := fun e => ha' (by simp [e])
          simp only [List.cons_append, stripPrefix]
          simp [Ne.symm hd]
      · rfl
    have ih := splitOnce_sep a' b ha'
    simp only [List.cons_append, List.append_assoc] at ih ⊢
    simp only [splitOnce]
    rw [List.append_assoc] at hsp
    simp only [hsp]
    simp [ih]

theorem stripPrefix_some : ∀ (pat s r : Str), stripPrefix pat s = some r → s = pat ++ r
  | [], s, r, h => by simp [stripPrefix] at h; simp [h]
  | _ :: _, [], r, h => by simp [stripPrefix] at h
  | p :: ps, c :: cs, r, h => by
    simp only [stripPrefix] at h
    split at h
    · rename_i hpc; subst hpc; simp [stripPrefix_some ps cs r h]
    · cases h

/-- a pattern containing a character the text lacks is not a prefix of it -/
theorem stripPrefix_none_of_guard (pat s : Str) (g : Char) (hg : g ∈ pat) (hs : g ∉ s) : stripPrefix pat s = none := by
  cases h : stripPrefix pat s with
  | none => rfl
  | some r =>
    have := stripPrefix_some pat s r h
    exact absurd (by rw [this]; simp [hg]) hs

theorem trimStartMatches_once (pat x : Str) (g : Char) (hne : pat ≠ []) (hg : g ∈ pat) (hx : g ∉ x) :
    trimStartMatches pat (pat ++ x) = x := by
  unfold trimStartMatches
  have hlen : (pat ++ x).length = (pat.length - 1 + x.length) + 1 := by
    cases pat with
    | nil => exact absurd rfl hne
    | cons _ _ => simp only [List.cons_append, List.length_cons, List.length_append]; omega
  rw [hlen]
  simp only [trimStartMatchesAux, stripPrefix_append]
  have hemp : pat.isEmpty = false := by cases pat <;> simp_all
  simp only [hemp, Bool.false_eq_true, ↓reduceIte]
  cases hn : pat.length - 1 + x.length with
  | zero => rfl
  | succ k => simp [trimStartMatchesAux, stripPrefix_none_of_guard pat x g hg hx]

/-- splitting at a two-character separator whose first character occurs in no piece -/
theorem splitAux2_piece (x y : Char) (rest : Str) : ∀ (p cur : Str), x ∉ p →
    splitAux [x, y] 0 cur (p ++ x :: y :: rest) = (cur.reverse ++ p) :: splitAux [x, y] 0 [] rest
  | [], cur, _ => by
    have hs : startsWith [x, y] (x :: y :: rest) = true := by simp [startsWith, stripPrefix]
    simp only [List.nil_append, splitAux, hs, ↓reduceIte, List.append_nil]
    simp [splitAux]
  | c :: p', cur, h => by
    have hc : c ≠ x := fun e => h (by simp [e])
    have hns : startsWith [x, y] (c :: (p' ++ x :: y :: rest)) = false := by
      simp [startsWith, stripPrefix, Ne.symm hc]
    have ih := splitAux2_piece x y rest p' (c :: cur) (fun e => h (by simp [e]))
    simp only [List.cons_append, splitAux, hns, Bool.false_eq_true, ↓reduceIte]
    simpa using ih

theorem splitAux2_last (x y : Char) : ∀ (p cur : Str), x ∉ p → splitAux [x, y] 0 cur p = [cur.reverse ++ p]
  | [], cur, _ => by simp [splitAux]
  | c :: p', cur, h => by
    have hc : c ≠ x := fun e => h (by simp [e])
    have hns : startsWith [x, y] (c :: p') = false := by simp [startsWith, stripPrefix, Ne.symm hc]
    have ih := splitAux2_last x y p' (c :: cur) (fun e => h (by simp [e]))
    simp only [splitAux, hns, Bool.false_eq_true, ↓reduceIte]
    simpa using ih

theorem split2_intercalate (x y : Char) : ∀ (ps : List Str), ps ≠ [] → (∀ p ∈ ps, x ∉ p) →
    split [x, y] (intercalate [x, y] ps) = ps
  | [], h, _ => absurd rfl h
  | [p], _, hp => by simp [intercalate, split, splitAux2_last x y p [] (hp p (by simp))]
  | p :: q :: r, _, hp => by
    have ih := split2_intercalate x y (q :: r) (by simp) (fun t ht => hp t (by simp [ht]))
    simp only [intercalate, split] at ih ⊢
    rw [List.append_assoc]
    show splitAux [x, y] 0 [] (p ++ x :: y :: intercalate [x, y] (q :: r)) = _
    rw [splitAux2_piece x y _ p [] (hp p (by simp)), ih]
    simp

theorem not_mem_intercalate (g : Char) (sep : Str) (hsep : g ∉ sep) : ∀ (ps : List Str), (∀ p ∈ ps, g ∉ p) → g ∉ intercalate sep ps
  | [], _ => by simp [intercalate]
  | [p], h => by simpa [intercalate] using h p (by simp)
  | p :: q :: r, h => by
    have ih := not_mem_intercalate g sep hsep (q :: r) (fun t ht => h t (by simp [ht]))
    simp only [intercalate, List.mem_append, not_or]
    exact ⟨⟨h p (by simp), hsep⟩, ih⟩

/-- names as they can stand in an import list: no `}`, `{`, `,` -/
def NameOK (t : Str) : Prop := '}' ∉ t ∧ '{' ∉ t ∧ ',' ∉ t

/-- a path as it can stand between the quotes: not empty, it neither starts with `"` nor ends with `"` or `;` -/
def PathOK (p : Str) : Prop := p ≠ [] ∧ p.head? ≠ some '"' ∧ p.getLast? ≠ some '"' ∧ p.getLast? ≠ some ';'

def PRE : Str := "import type { ".toList
def CS : Str := ", ".toList
def QEND : Str := "\";".toList

/-- the line `generate_imports` / `merge` print for one specifier -/
def renderLine (path : Str) (tys : List Str) : Str := PRE ++ intercalate CS tys ++ (SEP ++ ['"']) ++ path ++ QEND

/-- **an import line is read back** -/
theorem parse_render_line (path : Str) (tys : List Str) (hp : PathOK path) (hne : tys ≠ []) (ht : ∀ t ∈ tys, NameOK t) :
    parseImportLine (renderLine path tys) = some (path, tys) := by
  have hshape : renderLine path tys = (PRE ++ intercalate CS tys) ++ SEP ++ ('"' :: (path ++ QEND)) := by
    unfold renderLine
    simp only [List.append_assoc, List.cons_append, List.nil_append]
  have hno : '}' ∉ PRE ++ intercalate CS tys := by
    simp only [List.mem_append, not_or]
    exact ⟨by decide, not_mem_intercalate '}' _ (by decide) tys (fun t h => (ht t h).1)⟩
  unfold parseImportLine
  rw [hshape]
  have hsep : " } from ".toList = SEP := rfl
  have hpre : "import type { ".toList = PRE := rfl
  have hcs : ", ".toList = CS := rfl
  rw [hsep, hpre, hcs, splitOnce_sep _ _ hno]
  simp only
  have hx : '{' ∉ intercalate CS tys := not_mem_intercalate '{' _ (by decide) tys (fun t h => (ht t h).2.1)
  rw [trimStartMatches_once PRE _ '{' (by decide) (by decide) hx]
  have hsplit : split CS (intercalate CS tys) = tys :=
    split2_intercalate ',' ' ' tys hne (fun t h => (ht t h).2.2)
  rw [hsplit]
  obtain ⟨hpne, hp1, hp2, hp3⟩ := hp
  -- the path between the quotes
  have h1 : trimStartP (fun c => c = '"') ('"' :: (path ++ QEND)) = path ++ QEND := by
    simp only [trimStartP, decide_true, ↓reduceIte]
    cases path with
    | nil => exact absurd rfl hpne
    | cons c cs =>
      have : c ≠ '"' := by
        intro e; apply hp1; simp [e]
      simp [trimStartP, this]
  rw [h1]
  have h2 : trimEndP (fun c => c = '"' || c = ';') (path ++ QEND) = path := by
    unfold trimEndP
    have : (path ++ QEND).reverse = ';' :: '"' :: path.reverse := by simp [QEND]
    rw [this]
    simp only [trimStartP, decide_true, Bool.or_true, Bool.true_or, ↓reduceIte]
    cases hr : path.reverse with
    | nil => exact absurd (by simpa using hr) hpne
    | cons c cs =>
      have hl : path.getLast? = some c := by
        rw [← List.head?_reverse, hr]; rfl
      have hc1 : c ≠ '"' := by intro e; apply hp2; rw [hl, e]
      have hc2 : c ≠ ';' := by intro e; apply hp3; rw [hl, e]
      simp only [trimStartP, hc1, hc2, decide_false, Bool.or_self, Bool.false_eq_true, ↓reduceIte]
      rw [← hr, List.reverse_reverse]
  rw [h2]

theorem map_eq_self' {α : Type} (f : α → α) : ∀ (l : List α), (∀ x ∈ l, f x = x) → l.map f = l
  | [], _ => rfl
  | x :: xs, h => by simp [h x (by simp), map_eq_self' f xs (fun y hy => h y (by simp [hy]))]

/-! ### the header: the notice line and the import lines, one per line -/

/-- a line of the header: not empty, no line break inside, no `\r` at its end -/
def LineOK (l : Str) : Prop := l ≠ [] ∧ '\n' ∉ l ∧ l.getLast? ≠ some '\r'

def header (note : Str) (ls : List Str) : Str := intercalate ['\n'] (note :: ls)

theorem hasNN_of_no_nl : ∀ (l : Str), '\n' ∉ l → hasNN l = false
  | [], _ => rfl
  | c :: r, h => by
    have hc : c ≠ '\n' := fun e => h (by simp [e])
    rw [hasNN_cons_ne _ _ hc]
    exact hasNN_of_no_nl r (fun e => h (by simp [e]))

theorem hasNN_line_append (l rest : Str) (hl : '\n' ∉ l) (hne : l ≠ []) (hr : hasNN rest = false) (hrs : startsNl rest = false) :
    hasNN (l ++ '\n' :: rest) = false := by
  induction l with
  | nil => exact absurd rfl hne
  | cons c r ih =>
    have hc : c ≠ '\n' := fun e => hl (by simp [e])
    rw [List.cons_append, hasNN_cons_ne _ _ hc]
    cases r with
    | nil =>
      simp only [List.nil_append]
      cases rest with
      | nil => decide
      | cons d rs =>
        have hd : d ≠ '\n' := by simpa [startsNl] using hrs
        rw [hasNN_nl_cons _ _ hd]; exact hr
    | cons d r' => exact ih (fun e => hl (by simp [e])) (by simp)

theorem header_props (note : Str) : ∀ (ls : List Str), LineOK note → (∀ l ∈ ls, LineOK l) →
    hasNN (header note ls) = false ∧ endsNl (header note ls) = false ∧ startsNl (header note ls) = false
  | [], hn, _ => by
    obtain ⟨h1, h2, _⟩ := hn
    refine ⟨by simpa [header, intercalate] using hasNN_of_no_nl note h2, ?_, ?_⟩
    · simp only [header, intercalate, endsNl]
      apply decide_eq_false
      intro h
      exact h2 (List.mem_of_getLast? h)
    · simp only [header, intercalate, startsNl]
      cases note with
      | nil => exact absurd rfl h1
      | cons c r => simp; intro e; exact h2 (by simp [e])
  | l :: ls, hn, hl => by
    have ih := header_props l ls (hl l (by simp)) (fun x hx => hl x (by simp [hx]))
    obtain ⟨h1, h2, _⟩ := hn
    have e : header note (l :: ls) = note ++ '\n' :: header l ls := by simp [header, intercalate]
    rw [e]
    refine ⟨hasNN_line_append note _ h2 h1 ih.1 ih.2.2, ?_, ?_⟩
    · have := ih.2.1
      unfold endsNl at this ⊢
      rw [List.getLast?_append]
      have hne : header l ls ≠ [] := by
        simp only [header]
        cases ls <;> simp [intercalate, (hl l (by simp)).1]
      cases hh : header l ls with
      | nil => exact absurd hh hne
      | cons c r => rw [hh] at this; simpa using this
    · simp only [startsNl]
      cases note with
      | nil => exact absurd rfl h1
      | cons c r => simp; intro e; exact h2 (by simp [e])

theorem lines_header (note : Str) (ls : List Str) (hn : LineOK note) (hl : ∀ l ∈ ls, LineOK l) :
    lines (header note ls) = note :: ls := by
  unfold lines header
  have hsplit : splitChar '\n' (intercalate ['\n'] (note :: ls)) = note :: ls :=
    splitChar_intercalate '\n' (note :: ls) (by simp) (by
      intro p hp
      rcases List.mem_cons.mp hp with rfl | hp'
      · exact hn.2.1
      · exact (hl p hp').2.1)
  simp only [hsplit]
  have hlast : (note :: ls).getLast? ≠ some [] := by
    intro h
    have := List.mem_of_getLast? h
    rcases List.mem_cons.mp this with e | e
    · exact hn.1 e.symm
    · exact (hl [] e).1 rfl
  simp only [hlast, ↓reduceIte]
  apply map_eq_self'
  intro l hlm
  have hok : l.getLast? ≠ some '\r' := by
    rcases List.mem_cons.mp hlm with rfl | h'
    · exact hn.2.2
    · exact (hl l h').2.2
  simp only [stripSuffix]
  cases hsp : stripPrefix ['\r'].reverse l.reverse with
  | none => rfl
  | some r =>
    exfalso
    have := stripPrefix_some _ _ _ hsp
    apply hok
    rw [← List.head?_reverse, this]; rfl

end TsRs
