import TsRsVerif.Model.Builtin
/-! Soundness of the built-in `impl TS` tree model w.r.t. the serde model. -/
namespace TsRs.Builtin
open TsRs.Ts

mutual
/-- no non-finite float, no `PhantomData`, no dangling `Weak` anywhere in the value -/
def cleanV : RVal → Bool
  | .nonFinite | .phantom | .weakDead => false
  | .some v | .ok v | .err v => cleanV v
  | .seq vs | .strukt vs | .variant _ vs => cleanVL vs
  | .map kvs => cleanVM kvs
  | .range a b => cleanV a && cleanV b
  | _ => true
def cleanVL : List RVal → Bool
  | [] => true
  | v :: vs => cleanV v && cleanVL vs
def cleanVM : List (RVal × RVal) → Bool
  | [] => true
  | (a, b) :: rest => cleanV a && cleanV b && cleanVM rest
end

theorem memberAll_replicate_zip {D : Decls} {t : Ts} : ∀ {js : List JVal}, MemberAll D t js →
    MemberZip D (List.replicate js.length t) js
  | [], _ => MemberZip.nil
  | _ :: _, .cons hj hs => MemberZip.cons hj (memberAll_replicate_zip hs)

theorem serAllB_length (serN : Str → List RTy → RVal → Option JVal) (t : RTy) :
    ∀ (vs : List RVal) (js : List JVal), serAllB serN t vs = some js → js.length = vs.length := by
  intro vs
  induction vs with
  | nil => intro js h; simp [serAllB] at h; subst h; rfl
  | cons v vs ih =>
    intro js h
    simp only [serAllB, bind, Option.bind] at h
    cases h1 : serB serN t v with
    | none => simp [h1] at h
    | some j =>
      simp only [h1] at h
      cases h2 : serAllB serN t vs with
      | none => simp [h2] at h
      | some js' =>
        simp only [h2, pure, Option.some.injEq] at h
        subst h; simp [ih js' h2]

end TsRs.Builtin

namespace TsRs.Builtin
open TsRs.Ts

/-- every row of the GENERATED primitive table that the serde model knows maps to the TypeScript
    name the specification (`specTs`) demands -/
def TableOK : Prop :=
  ∀ row ∈ Gen.primitives, (primClass row.1).isSome = true → specTs row.1 = some row.2.1

theorem primTsName_row {r n : String} (h : primTsName r = some n) :
    ∃ row ∈ Gen.primitives, row.1 = r ∧ row.2.1 = n := by
  unfold primTsName at h
  cases hf : Gen.primitives.find? (·.1 = r) with
  | none => simp [hf] at h
  | some row =>
    simp only [hf, Option.map_some, Option.some.injEq] at h
    refine ⟨row, List.mem_of_find?_eq_some hf, ?_, h⟩
    have := List.find?_some hf
    simpa using this

theorem prim_sound (D : Decls) (htab : TableOK) (r : String) (v : RVal) (T : Ts) (j : JVal)
    (hT : primTs r = some T) (hs : (primClass r).bind (fun c => serPrim c v) = some j)
    (hc : cleanV v = true) : Member D T j := by
  unfold primTs at hT
  cases hn : primTsName r with
  | none => simp [hn] at hT
  | some n =>
    simp only [hn, Option.bind_some] at hT
    obtain ⟨row, hmem, hr1, hr2⟩ := primTsName_row hn
    cases hcl : primClass r with
    | none => simp [hcl] at hs
    | some c =>
      simp only [hcl, Option.bind_some] at hs
      have hspec : specTs r = some n := by
        have := htab row hmem (by rw [hr1, hcl]; rfl)
        rw [hr1, hr2] at this; exact this
      unfold specTs at hspec
      rw [hcl] at hspec
      cases c with
      | int lo hi nz =>
        cases v <;> simp [serPrim] at hs
        rename_i i
        obtain ⟨_, hj⟩ := hs
        subst hj
        simp only at hspec
        split at hspec
        · simp at hspec; subst hspec; simp [tsOfPrimName] at hT; subst hT; exact Member.numberInt i
        · split at hspec
          · simp at hspec; subst hspec; simp [tsOfPrimName] at hT; subst hT; exact Member.numberInt i
          · simp at hspec; subst hspec; simp [tsOfPrimName] at hT; subst hT; exact Member.bigint i
      | float =>
        simp at hspec; subst hspec; simp [tsOfPrimName] at hT; subst hT
        cases v <;> simp [serPrim] at hs
        · subst hs; exact Member.numberFloat _
        · subst hs; exact Member.numberFloat _
        · simp [cleanV] at hc
      | bool =>
        simp at hspec; subst hspec; simp [tsOfPrimName] at hT; subst hT
        cases v <;> simp [serPrim] at hs
        subst hs; exact Member.boolean _
      | char =>
        simp at hspec; subst hspec; simp [tsOfPrimName] at hT; subst hT
        cases v <;> simp [serPrim] at hs
        subst hs; exact Member.string _
      | string =>
        simp at hspec; subst hspec; simp [tsOfPrimName] at hT; subst hT
        cases v <;> simp [serPrim] at hs
        subst hs; exact Member.string _
      | unit =>
        simp at hspec; subst hspec; simp [tsOfPrimName] at hT; subst hT
        cases v <;> simp [serPrim] at hs
        subst hs; exact Member.null

end TsRs.Builtin

namespace TsRs.Builtin
open TsRs.Ts

section
variable (D : Decls) (limit : Nat) (nameN : Str → List Ts → Option Ts)
  (serN : Str → List RTy → RVal → Option JVal)

/-- the callback for user types is sound -/
def NamedSound : Prop :=
  ∀ id args targs v j T, nameTyBL limit nameN args = some targs → nameN id targs = some T →
      serN id args v = some j → cleanV v = true → Member D T j

theorem keyOfJson_cases {kj : JVal} {key : Str} (h : keyOfJson kj = some key) :
    kj = .str key ∨ ∃ i : Int, kj = .int i ∧ (toString i).toList = key := by
  cases kj <;> simp [keyOfJson] at h
  · right; exact ⟨_, rfl, h⟩
  · left; rw [h]

theorem serB_wrap (k : WrapKind) (t : RTy) (v : RVal) (j : JVal)
    (hs : serB serN (.wrap k t) v = some j) (hc : cleanV v = true) : serB serN t v = some j := by
  cases k <;> cases v <;> simp_all [serB, cleanV]

mutual
theorem serB_sound (htab : TableOK) (hN : NamedSound D limit nameN serN) (t : RTy) (v : RVal) (T : Ts) (j : JVal)
    (hT : nameTyB limit nameN t = some T) (hs : serB serN t v = some j) (hc : cleanV v = true) :
    Member D T j := by
  cases t with
  | prim r => exact prim_sound D htab r v T j (by simpa [nameTyB] using hT) (by simpa [serB] using hs) hc
  | option t' =>
    simp only [nameTyB, Option.map_eq_some_iff] at hT
    obtain ⟨X, hX, rfl⟩ := hT
    cases v <;> simp [serB] at hs
    · subst hs; exact Member.union (t := .null) (by simp) Member.null
    · rename_i v'
      exact Member.union (t := X) (by simp) (serB_sound htab hN t' v' X j hX hs (by simpa [cleanV] using hc))
  | vec t' =>
    simp only [nameTyB, Option.map_eq_some_iff] at hT
    obtain ⟨X, hX, rfl⟩ := hT
    cases v <;> simp [serB] at hs
    rename_i vs
    obtain ⟨js, hjs, rfl⟩ := hs
    exact Member.array (serAllB_sound htab hN t' vs X js hX hjs (by simpa [cleanV] using hc))
  | slice t' =>
    simp only [nameTyB, Option.map_eq_some_iff] at hT
    obtain ⟨X, hX, rfl⟩ := hT
    cases v <;> simp [serB] at hs
    rename_i vs
    obtain ⟨js, hjs, rfl⟩ := hs
    exact Member.array (serAllB_sound htab hN t' vs X js hX hjs (by simpa [cleanV] using hc))
  | set t' =>
    simp only [nameTyB, Option.map_eq_some_iff] at hT
    obtain ⟨X, hX, rfl⟩ := hT
    cases v <;> simp [serB] at hs
    rename_i vs
    obtain ⟨js, hjs, rfl⟩ := hs
    exact Member.array (serAllB_sound htab hN t' vs X js hX hjs (by simpa [cleanV] using hc))
  | arr t' n =>
    simp only [nameTyB, Option.map_eq_some_iff] at hT
    obtain ⟨X, hX, rfl⟩ := hT
    cases v <;> simp [serB] at hs
    rename_i vs
    obtain ⟨hlen, js, hjs, rfl⟩ := hs
    have hall := serAllB_sound htab hN t' vs X js hX hjs (by simpa [cleanV] using hc)
    by_cases hn : n > limit
    · simp only [hn, if_true]; exact Member.array hall
    · simp only [hn, if_false]
      have hl : js.length = n := by rw [serAllB_length serN t' vs js hjs, hlen]
      rw [← hl]
      exact Member.tuple (memberAll_replicate_zip hall)
  | tuple ts =>
    simp only [nameTyB, Option.map_eq_some_iff] at hT
    obtain ⟨Xs, hXs, rfl⟩ := hT
    cases v <;> simp [serB] at hs
    rename_i vs
    obtain ⟨js, hjs, rfl⟩ := hs
    exact Member.tuple (serZipB_sound htab hN ts vs Xs js hXs hjs (by simpa [cleanV] using hc))
  | map k v' =>
    simp only [nameTyB, bind, Option.bind] at hT
    cases hk : nameTyB limit nameN k with
    | none => simp [hk] at hT
    | some K =>
      cases hv : nameTyB limit nameN v' with
      | none => simp [hk, hv] at hT
      | some V =>
        simp only [hk, hv, pure, Option.some.injEq] at hT
        subst hT
        cases v <;> simp [serB] at hs
        rename_i kvs
        obtain ⟨js, hjs, rfl⟩ := hs
        exact Member.mapped (serMapB_sound htab hN k v' kvs K V js hk hv hjs (by simpa [cleanV] using hc))
  | result t' e =>
    simp only [nameTyB, bind, Option.bind] at hT
    cases ht : nameTyB limit nameN t' with
    | none => simp [ht] at hT
    | some X =>
      cases he : nameTyB limit nameN e with
      | none => simp [ht, he] at hT
      | some E =>
        simp only [ht, he, pure, Option.some.injEq] at hT
        subst hT
        cases v <;> simp [serB] at hs
        · rename_i v0
          obtain ⟨j0, hj0, rfl⟩ := hs
          have hm := serB_sound htab hN t' v0 X j0 ht hj0 (by simpa [cleanV] using hc)
          refine Member.union (t := .obj [({ name := "Ok".toList }, X)]) (by simp) ?_
          refine Member.obj (MemberFields.present (v := j0) (by simp [JVal.lookup]) hm MemberFields.nil) ?_
          intro k hk; simp [JVal.keys] at hk; subst hk; exact ⟨({ name := "Ok".toList }, X), by simp, rfl⟩
        · rename_i v0
          obtain ⟨j0, hj0, rfl⟩ := hs
          have hm := serB_sound htab hN e v0 E j0 he hj0 (by simpa [cleanV] using hc)
          refine Member.union (t := .obj [({ name := "Err".toList }, E)]) (by simp) ?_
          refine Member.obj (MemberFields.present (v := j0) (by simp [JVal.lookup]) hm MemberFields.nil) ?_
          intro k hk; simp [JVal.keys] at hk; subst hk; exact ⟨({ name := "Err".toList }, E), by simp, rfl⟩
  | range t' =>
    simp only [nameTyB, Option.map_eq_some_iff] at hT
    obtain ⟨X, hX, rfl⟩ := hT
    cases v <;> simp [serB, bind, Option.bind] at hs
    rename_i a b
    cases ha : serB serN t' a with
    | none => simp [ha] at hs
    | some ja =>
      cases hb : serB serN t' b with
      | none => simp [ha, hb] at hs
      | some jb =>
        simp only [ha, hb, pure, Option.some.injEq] at hs
        subst hs
        have hca : cleanV a = true ∧ cleanV b = true := by simpa [cleanV] using hc
        have hma := serB_sound htab hN t' a X ja hX ha hca.1
        have hmb := serB_sound htab hN t' b X jb hX hb hca.2
        refine Member.obj (MemberFields.present (v := ja) (by simp [JVal.lookup]) hma
          (MemberFields.present (v := jb) (by simp [JVal.lookup]) hmb MemberFields.nil)) ?_
        intro k hk; simp [JVal.keys] at hk
        rcases hk with hk | hk
        · subst hk; exact ⟨({ name := "start".toList }, X), by simp, rfl⟩
        · subst hk; exact ⟨({ name := "end".toList }, X), by simp, rfl⟩
  | wrap k t' =>
    simp only [nameTyB] at hT
    exact serB_sound htab hN t' v T j hT (serB_wrap serN k t' v j hs hc) hc
  | named id args =>
    simp only [nameTyB, Option.bind_eq_some_iff] at hT
    obtain ⟨targs, h1, h2⟩ := hT
    exact hN id args targs v j T h1 h2 (by simpa [serB] using hs) hc
  | param n => simp [serB] at hs
termination_by (sizeOf t, sizeOf v)
theorem serAllB_sound (htab : TableOK) (hN : NamedSound D limit nameN serN) (t : RTy) (vs : List RVal) (T : Ts) (js : List JVal)
    (hT : nameTyB limit nameN t = some T) (hs : serAllB serN t vs = some js) (hc : cleanVL vs = true) :
    MemberAll D T js := by
  cases vs with
  | nil => simp [serAllB] at hs; subst hs; exact MemberAll.nil
  | cons v vs' =>
    simp only [serAllB, bind, Option.bind] at hs
    cases h1 : serB serN t v with
    | none => simp [h1] at hs
    | some j =>
      cases h2 : serAllB serN t vs' with
      | none => simp [h1, h2] at hs
      | some js' =>
        simp only [h1, h2, pure, Option.some.injEq] at hs
        subst hs
        have hcc : cleanV v = true ∧ cleanVL vs' = true := by simpa [cleanVL] using hc
        exact MemberAll.cons (serB_sound htab hN t v T j hT h1 hcc.1) (serAllB_sound htab hN t vs' T js' hT h2 hcc.2)
termination_by (sizeOf t, sizeOf vs)
theorem serZipB_sound (htab : TableOK) (hN : NamedSound D limit nameN serN) (ts : List RTy) (vs : List RVal) (Ts' : List Ts) (js : List JVal)
    (hT : nameTyBL limit nameN ts = some Ts') (hs : serZipB serN ts vs = some js) (hc : cleanVL vs = true) :
    MemberZip D Ts' js := by
  cases ts with
  | nil =>
    cases vs <;> simp [serZipB] at hs
    subst hs; simp [nameTyBL] at hT; subst hT; exact MemberZip.nil
  | cons t ts' =>
    cases vs with
    | nil => simp [serZipB] at hs
    | cons v vs' =>
      simp only [serZipB, bind, Option.bind] at hs
      simp only [nameTyBL, bind, Option.bind] at hT
      cases h1 : serB serN t v with
      | none => simp [h1] at hs
      | some j =>
        cases h2 : serZipB serN ts' vs' with
        | none => simp [h1, h2] at hs
        | some js' =>
          cases h3 : nameTyB limit nameN t with
          | none => simp [h3] at hT
          | some X =>
            cases h4 : nameTyBL limit nameN ts' with
            | none => simp [h3, h4] at hT
            | some Xs =>
              simp only [h1, h2, pure, Option.some.injEq] at hs
              simp only [h3, h4, pure, Option.some.injEq] at hT
              subst hs; subst hT
              have hcc : cleanV v = true ∧ cleanVL vs' = true := by simpa [cleanVL] using hc
              exact MemberZip.cons (serB_sound htab hN t v X j h3 h1 hcc.1) (serZipB_sound htab hN ts' vs' Xs js' h4 h2 hcc.2)
termination_by (sizeOf ts, sizeOf vs)
theorem serMapB_sound (htab : TableOK) (hN : NamedSound D limit nameN serN) (k v : RTy) (kvs : List (RVal × RVal)) (K V : Ts) (js : List (Str × JVal))
    (hK : nameTyB limit nameN k = some K) (hV : nameTyB limit nameN v = some V)
    (hs : serMapB serN k v kvs = some js) (hc : cleanVM kvs = true) : MemberMap D K V js := by
  have hposv : 0 < sizeOf v := by cases v <;> simp <;> omega
  have hposk : 0 < sizeOf k := by cases k <;> simp <;> omega
  cases kvs with
  | nil => simp [serMapB] at hs; subst hs; exact MemberMap.nil
  | cons kv rest =>
    obtain ⟨a, b⟩ := kv
    simp only [serMapB, bind, Option.bind] at hs
    cases h1 : serB serN k a with
    | none => simp [h1] at hs
    | some kj =>
      cases h2 : keyOfJson kj with
      | none => simp [h1, h2] at hs
      | some key =>
        cases h3 : serB serN v b with
        | none => simp [h1, h2, h3] at hs
        | some vj =>
          cases h4 : serMapB serN k v rest with
          | none => simp [h1, h2, h3, h4] at hs
          | some more =>
            simp only [h1, h2, h3, h4, pure, Option.some.injEq] at hs
            subst hs
            have hcc : (cleanV a = true ∧ cleanV b = true) ∧ cleanVM rest = true := by simpa [cleanVM] using hc
            have hk := serB_sound htab hN k a K kj hK h1 hcc.1.1
            have hv := serB_sound htab hN v b V vj hV h3 hcc.1.2
            have hr := serMapB_sound htab hN k v rest K V more hK hV h4 hcc.2
            rcases keyOfJson_cases h2 with h | ⟨i, h, hi⟩
            · subst h; exact MemberMap.consStr hk hv hr
            · subst h; exact MemberMap.consInt i hi hk hv hr
termination_by (sizeOf k + sizeOf v, sizeOf kvs)
end
end

end TsRs.Builtin
