import TsRsVerif.Lemmas.WalkSeq
/-!
# A walk that does not return `Ok`

`export_recursive` stops at the first step that does not return `Ok`: its effect is a sequence of successful `export_into`
steps (duplicate-free, types not seen before) followed by exactly one `export_into` step with that outcome — nothing is exported
after it, and the outcome of the walk is the outcome of that step (an error is never replaced by a later success).
-/
namespace TsRs.Export
open Text

/-- the effect of a walk with outcome `o ≠ ok`: the successful steps `order`, then the step for `j` with outcome `o` -/
def FailsAt (u : Universe) (dir : Str) (w : World) (seen : List Nat) (w' : World) (o : Outcome) : Prop :=
  ∃ (order : List Nat) (j : Nat) (t : TyInfo) (w1 : World),
    order.Nodup ∧ (∀ x ∈ order, x ∉ seen) ∧ j ∉ order ∧ j ∉ seen ∧
    runInto u dir w order = (w1, true) ∧ u[j]? = some t ∧ exportInto w1 t dir = (w', o)

theorem FailsAt.prepend (u : Universe) (dir : Str) (w w2 : World) (seen seen2 : List Nat) (w' : World) (o : Outcome)
    (o1 : List Nat) (hs : seen2 = o1.reverse ++ seen) (hn1 : o1.Nodup) (hd1 : ∀ x ∈ o1, x ∉ seen)
    (hr1 : runInto u dir w o1 = (w2, true)) (h : FailsAt u dir w2 seen2 w' o) : FailsAt u dir w seen w' o := by
  obtain ⟨order, j, t, w1, hn, hd, hj, hjs, hr, hu, he⟩ := h
  refine ⟨o1 ++ order, j, t, w1, ?_, ?_, ?_, ?_, ?_, hu, he⟩
  · refine List.nodup_append.mpr ⟨hn1, hn, ?_⟩
    intro a ha b hb e
    subst e
    exact hd a hb (by rw [hs]; simp [ha])
  · intro x hx
    rcases List.mem_append.mp hx with hx | hx
    · exact hd1 x hx
    · intro hxs; exact hd x hx (by rw [hs]; simp [hxs])
  · intro hx
    rcases List.mem_append.mp hx with hx | hx
    · exact hjs (by rw [hs]; simp [hx])
    · exact hj hx
  · intro hx; exact hjs (by rw [hs]; simp [hx])
  · rw [runInto_append u dir o1 order w w2 hr1]; exact hr

theorem visitDeps_fail (u : Universe) (dir : Str) (recur : World → List Nat → Nat → Option WalkRes)
    (hok : ∀ w s d w' s', recur w s d = some (w', s', .ok) →
      ∃ order, s' = order.reverse ++ s ∧ order.Nodup ∧ (∀ x ∈ order, x ∉ s) ∧ runInto u dir w order = (w', true))
    (hfail : ∀ w s d w' s' o, recur w s d = some (w', s', o) → o ≠ .ok → FailsAt u dir w s w' o) :
    ∀ (ds : List Nat) (w : World) (seen : List Nat) (w' : World) (seen' : List Nat) (o : Outcome),
      visitDeps u recur ds w seen = some (w', seen', o) → o ≠ .ok → FailsAt u dir w seen w' o
  | [], w, seen, w', seen', o, h, ho => by
    simp only [visitDeps, Option.some.injEq, Prod.mk.injEq] at h
    exact absurd h.2.2.symm ho
  | d :: ds, w, seen, w', seen', o, h, ho => by
    simp only [visitDeps] at h
    cases hu : u[d]? with
    | none => simp [hu] at h
    | some td =>
      simp only [hu] at h
      by_cases hn : td.outputPath.isNone = true
      · simp only [hn, if_true] at h
        exact visitDeps_fail u dir recur hok hfail ds w seen w' seen' o h ho
      · simp only [hn, Bool.false_eq_true, if_false] at h
        cases hr : recur w seen d with
        | none => simp [hr] at h
        | some r =>
          obtain ⟨w2, seen2, o2⟩ := r
          simp only [hr] at h
          cases o2 with
          | ok =>
            simp only at h
            obtain ⟨o1, hs1, hn1, hd1, hr1⟩ := hok w seen d w2 seen2 hr
            exact FailsAt.prepend u dir w w2 seen seen2 w' o o1 hs1 hn1 hd1 hr1
              (visitDeps_fail u dir recur hok hfail ds w2 seen2 w' seen' o h ho)
          | err e =>
            simp only [Option.some.injEq, Prod.mk.injEq] at h
            obtain ⟨rfl, _, rfl⟩ := h
            exact hfail w seen d w2 seen2 (.err e) hr ho
          | panic =>
            simp only [Option.some.injEq, Prod.mk.injEq] at h
            obtain ⟨rfl, _, rfl⟩ := h
            exact hfail w seen d w2 seen2 .panic hr ho

/-- **a walk that does not return `Ok` is a sequence of successful `export_into` steps followed by the one step that failed;
its outcome is that step's outcome** -/
theorem exportRec_fail (u : Universe) (dir : Str) : ∀ (fuel : Nat) (w : World) (seen : List Nat) (i : Nat) (w' : World) (seen' : List Nat) (o : Outcome),
    exportRec u fuel w seen dir i = some (w', seen', o) → o ≠ .ok → FailsAt u dir w seen w' o
  | 0, w, seen, i, w', seen', o, h, _ => by simp [exportRec] at h
  | fuel + 1, w, seen, i, w', seen', o, h, ho => by
    simp only [exportRec] at h
    by_cases hin : i ∈ seen
    · simp only [hin, if_true, Option.some.injEq, Prod.mk.injEq] at h
      exact absurd h.2.2.symm ho
    · simp only [hin, if_false] at h
      cases hui : u[i]? with
      | none => simp [hui] at h
      | some t =>
        simp only [hui] at h
        cases hex : exportInto w t dir with
        | mk w1 o1 =>
          simp only [hex] at h
          cases o1 with
          | ok =>
            simp only at h
            have hrest := visitDeps_fail u dir (fun w' s' d => exportRec u fuel w' s' dir d)
              (fun w2 s2 d w3 s3 hr => exportRec_seq u dir fuel w2 s2 d w3 s3 hr)
              (fun w2 s2 d w3 s3 o3 hr ho3 => exportRec_fail u dir fuel w2 s2 d w3 s3 o3 hr ho3) t.deps w1 (i :: seen) w' seen' o h ho
            refine FailsAt.prepend u dir w w1 seen (i :: seen) w' o [i] (by simp) (by simp) (by simpa using hin) ?_ hrest
            simp [runInto, hui, hex]
          | err e =>
            simp only [Option.some.injEq, Prod.mk.injEq] at h
            obtain ⟨rfl, _, rfl⟩ := h
            exact ⟨[], i, t, w, by simp, by simp, by simp, hin, rfl, hui, hex⟩
          | panic =>
            simp only [Option.some.injEq, Prod.mk.injEq] at h
            obtain ⟨rfl, _, rfl⟩ := h
            exact ⟨[], i, t, w, by simp, by simp, by simp, hin, rfl, hui, hex⟩

end TsRs.Export
