import TsRsVerif.Model.Path
import TsRsVerif.Lemmas.TextLemmas
import TsRsVerif.Lemmas.PathLemmas
/-! The `is_same_file` test of `generate_imports` (export.rs) against the specification side of C08:
a specifier that satisfies C08's clauses is dropped as "same file" only when it resolves to the
importing file itself. -/
namespace TsRs.Path
open TsRs.Text

theorem endsWith_false_strip (pat s : Str) (h : endsWith pat s = false) :
    stripPrefix pat.reverse s.reverse = none := by
  simpa [endsWith, startsWith] using h

theorem splitChar_single (d : Char) (s : Str) (h : d ∉ s) : splitChar d s = [s] := by
  have := splitChar_intercalate d [s] (by simp) (fun p hp => by simp at hp; subst hp; exact h)
  simpa [intercalate] using this

/-- the specifier `./<stem>` (no ES-module imports) resolves, from any directory, to `<stem>.ts` in it -/
theorem resolve_dot_slash (fd : List Str) (ff : Str) (hffs : '/' ∉ ff) :
    resolve false fd (['.', '/'] ++ ff) = some (fd ++ [ff ++ dotTs]) := by
  have hs : '/' ∉ ff ++ dotTs := by simp [dotTs, hffs]
  have h1 : splitChar '/' (['.', '/'] ++ ff ++ dotTs) = [['.'], ff ++ dotTs] := by
    have := splitChar_single '/' (ff ++ dotTs) hs
    simp only [List.cons_append, List.nil_append, splitChar, List.append_assoc] at this ⊢
    simp [this]
  have hne1 : ff ++ dotTs ≠ ['.'] := by
    intro h; have := congrArg List.length h; simp [dotTs] at this
  have hne2 : ff ++ dotTs ≠ ['.', '.'] := by
    intro h; have := congrArg List.length h; simp [dotTs] at this
  simp only [resolve, Bool.false_eq_true, if_false, h1]
  simp [resolveLoop, hne1, hne2]

/-- **`is_same_file` never drops a foreign import (no ES-module imports).** If the importing file is
`…/ff.ts` (stem not itself ending in `.ts`) and a specifier meeting C08's clauses for target `A`
passes the `is_same_file` test, then `A` is the importing file. -/
theorem same_file_only_self (fd A : List Str) (frm spec ff : Str)
    (hfn : fileName frm = some (ff ++ dotTs))
    (hffs : '/' ∉ ff) (hts : endsWith dotTs ff = false)
    (hgood : specGood false fd A spec = true)
    (hsame : isSameFile frm spec = true) :
    A = fd ++ [ff ++ dotTs] := by
  simp only [specGood, Bool.and_eq_true] at hgood
  obtain ⟨⟨⟨⟨_, _⟩, _⟩, hjs⟩, hres⟩ := hgood
  have hjs' : endsWith dotJs spec = false := by simpa using hjs
  have ht1 : trimEndMatches dotTs (ff ++ dotTs) = ff :=
    trimEndMatches_once dotTs ff (by decide) (endsWith_false_strip _ _ hts)
  have ht2 : trimEndMatches dotJs spec = spec :=
    trimEndMatches_none dotJs spec (endsWith_false_strip _ _ hjs')
  simp only [isSameFile, hfn, ht1, ht2] at hsame
  have hspec : spec = ['.', '/'] ++ ff := by
    have : ['.', '/'] ++ ff = spec := by simpa using hsame
    exact this.symm
  subst hspec
  rw [resolve_dot_slash fd ff hffs] at hres
  have : fd ++ [ff ++ dotTs] = A := by simpa using hres
  exact this.symm

/-- and conversely: the specifier `./<stem>` of the importing file itself passes the test -/
theorem same_file_detects_self (frm ff : Str) (hfn : fileName frm = some (ff ++ dotTs))
    (hts : endsWith dotTs ff = false) (hjs : endsWith dotJs ff = false) :
    isSameFile frm (['.', '/'] ++ ff) = true := by
  have ht1 : trimEndMatches dotTs (ff ++ dotTs) = ff :=
    trimEndMatches_once dotTs ff (by decide) (endsWith_false_strip _ _ hts)
  have hjs2 : stripPrefix dotJs.reverse (['.', '/'] ++ ff).reverse = none := by
    have h0 := endsWith_false_strip _ _ hjs
    have hrev : (['.', '/'] ++ ff).reverse = ff.reverse ++ ['/', '.'] := by simp
    rw [hrev]
    generalize ff.reverse = r at *
    match r with
    | [] => simp [dotJs, stripPrefix]
    | [a] => simp [dotJs, stripPrefix]
    | [a, b] => simp [dotJs, stripPrefix]
    | a :: b :: c :: r' =>
      simp only [dotJs, List.reverse_cons, List.reverse_nil, List.nil_append, List.cons_append, stripPrefix] at h0 ⊢
      split
      · split
        · split
          · rename_i h1 h2 h3; simp only [h1, h2, h3, if_true] at h0; exact absurd h0 (by simp)
          · rfl
        · rfl
      · rfl
  have ht2 := trimEndMatches_none dotJs (['.', '/'] ++ ff) hjs2
  simp only [isSameFile, hfn, ht1, ht2]
  simp


theorem resolveLoop_dot_slash (fd : List Str) (ff : Str) (hffs : '/' ∉ ff) :
    resolveLoop fd (splitChar '/' (['.', '/'] ++ ff ++ dotTs)) = some (fd ++ [ff ++ dotTs]) := by
  have hs : '/' ∉ ff ++ dotTs := by simp [dotTs, hffs]
  have h1 : splitChar '/' (['.', '/'] ++ ff ++ dotTs) = [['.'], ff ++ dotTs] := by
    have := splitChar_single '/' (ff ++ dotTs) hs
    simp only [List.cons_append, List.nil_append, splitChar, List.append_assoc] at this ⊢
    simp [this]
  have hne1 : ff ++ dotTs ≠ ['.'] := by
    intro h; have := congrArg List.length h; simp [dotTs] at this
  have hne2 : ff ++ dotTs ≠ ['.', '.'] := by
    intro h; have := congrArg List.length h; simp [dotTs] at this
  rw [h1]
  simp [resolveLoop, hne1, hne2]

/-- **the same with ES-module imports**: the specifier is `s'.js`; the test strips `.js` (repeatedly), so
`s'` itself must not end in `.js` — for `import_path`'s result that is "the target's stem does not end in `.js`". -/
theorem same_file_only_self_esm (fd A : List Str) (frm spec s' ff : Str)
    (hfn : fileName frm = some (ff ++ dotTs))
    (hffs : '/' ∉ ff) (hts : endsWith dotTs ff = false)
    (hs : spec = s' ++ dotJs) (hs' : endsWith dotJs s' = false)
    (hgood : specGood true fd A spec = true)
    (hsame : isSameFile frm spec = true) :
    A = fd ++ [ff ++ dotTs] := by
  subst hs
  simp only [specGood, Bool.and_eq_true] at hgood
  obtain ⟨_, hres⟩ := hgood
  have ht1 : trimEndMatches dotTs (ff ++ dotTs) = ff :=
    trimEndMatches_once dotTs ff (by decide) (endsWith_false_strip _ _ hts)
  have ht2 : trimEndMatches dotJs (s' ++ dotJs) = s' :=
    trimEndMatches_once dotJs s' (by decide) (endsWith_false_strip _ _ hs')
  simp only [isSameFile, hfn, ht1, ht2] at hsame
  have hspec : s' = ['.', '/'] ++ ff := by
    have : ['.', '/'] ++ ff = s' := by simpa using hsame
    exact this.symm
  subst hspec
  have hss : stripSuffix dotJs (['.', '/'] ++ ff ++ dotJs) = some (['.', '/'] ++ ff) := by
    simp [stripSuffix, List.reverse_append, stripPrefix_append]
  simp only [resolve, if_true, hss, Option.map_some] at hres
  rw [resolveLoop_dot_slash fd ff hffs] at hres
  have : fd ++ [ff ++ dotTs] = A := by simpa using hres
  exact this.symm


/-- `diff_paths` strips the common prefix: below the base directory only the rest remains -/
theorem diffLoop_prefix (fd : List Str) (rest : List Comp) (hr : rest ≠ []) :
    diffLoop false (N fd ++ rest) (N fd) = rest := by
  induction fd with
  | nil =>
    cases rest with
    | nil => exact absurd rfl hr
    | cons a as => simp [N, diffLoop]
  | cons a as ih =>
    simp only [N, List.map_cons, List.cons_append, diffLoop]
    simp only [N] at ih
    simp [ih]

theorem components_name (f : Str) (h1 : f ≠ []) (h2 : '/' ∉ f) (h3 : f ≠ ['.']) (h4 : f ≠ ['.', '.']) :
    components f = [Comp.normal f] := by
  have hs := splitChar_single '/' f h2
  unfold components
  split
  · simp at h2
  · rw [hs]; simp [pieceComps, h1, h3, h4]

/-- **a file never imports from itself, under any spelling of its own path** (no ES-module imports): when the
dependency's normalised path is the importing directory's followed by `ff.ts`, `import_path` returns
`./ff` and the `is_same_file` test recognises it. -/
theorem self_import_skipped (cwd frm imp dir p b ff : Str) (fd : List Str)
    (hdir : parent frm = some dir) (hfn : fileName frm = some (ff ++ dotTs))
    (hp : absolute cwd imp = .ok p) (hb : absolute cwd dir = .ok b)
    (hpc : components p = Comp.root :: N (fd ++ [ff ++ dotTs]))
    (hbc : components b = Comp.root :: N fd)
    (hff : ff ≠ []) (hffs : '/' ∉ ff)
    (hts : endsWith dotTs ff = false) (hjs : endsWith dotJs ff = false) :
    importPath false cwd frm imp = some (.ok (['.', '/'] ++ ff)) ∧
    isSameFile frm (['.', '/'] ++ ff) = true := by
  refine ⟨?_, same_file_detects_self frm ff hfn hts hjs⟩
  have hN : N (fd ++ [ff ++ dotTs]) = N fd ++ [Comp.normal (ff ++ dotTs)] := by simp [N]
  have hdiff : diffLoop false (N (fd ++ [ff ++ dotTs])) (N fd) = [Comp.normal (ff ++ dotTs)] := by
    rw [hN]; exact diffLoop_prefix fd _ (by simp)
  have himp : importPath false cwd frm imp = some (.ok (specOfRel false
      (ofComps (diffLoop false (N (fd ++ [ff ++ dotTs])) (N fd))))) := by
    simp only [importPath, hdir, diffPaths, hp, hb, hpc, hbc, bind, Except.bind, pure, Except.pure]
    simp [diffLoop]
  rw [himp, hdiff]
  have hrel : ofComps [Comp.normal (ff ++ dotTs)] = ff ++ dotTs := by simp [ofComps, compStr, intercalate]
  have hne1 : ff ++ dotTs ≠ [] := by simp [dotTs]
  have hs : '/' ∉ ff ++ dotTs := by simp [dotTs, hffs]
  have hne2 : ff ++ dotTs ≠ ['.'] := by
    intro h; have := congrArg List.length h; simp [dotTs] at this
  have hne3 : ff ++ dotTs ≠ ['.', '.'] := by
    intro h; have := congrArg List.length h; simp [dotTs] at this
  have hstr : strPathOf (ff ++ dotTs) = ['.', '/'] ++ (ff ++ dotTs) := by
    unfold strPathOf
    rw [components_name _ hne1 hs hne2 hne3]
    rfl
  have hx := ext_none '.' 't' 's' (by decide) (by decide) (by decide) ff ['.'] hff hffs hts
  have htrim : trimEndMatches dotTs ((['.'] ++ ['/'] ++ ff) ++ dotTs) = ['.'] ++ ['/'] ++ ff :=
    trimEndMatches_once dotTs _ (by decide) hx
  have e : ['.', '/'] ++ (ff ++ dotTs) = (['.'] ++ ['/'] ++ ff) ++ dotTs := by simp
  simp only [specOfRel, hrel, hstr, Bool.false_eq_true, if_false]
  rw [e, htrim]
  simp


/-- the ES-module flavour: `import_path` returns `./ff.js`, the test strips `.js` once and recognises the file -/
theorem self_import_skipped_esm (cwd frm imp dir p b ff : Str) (fd : List Str)
    (hdir : parent frm = some dir) (hfn : fileName frm = some (ff ++ dotTs))
    (hp : absolute cwd imp = .ok p) (hb : absolute cwd dir = .ok b)
    (hpc : components p = Comp.root :: N (fd ++ [ff ++ dotTs]))
    (hbc : components b = Comp.root :: N fd)
    (hff : ff ≠ []) (hffs : '/' ∉ ff)
    (hts : endsWith dotTs ff = false) (hjs : endsWith dotJs ff = false) :
    importPath true cwd frm imp = some (.ok (['.', '/'] ++ ff ++ dotJs)) ∧
    isSameFile frm (['.', '/'] ++ ff ++ dotJs) = true := by
  have hN : N (fd ++ [ff ++ dotTs]) = N fd ++ [Comp.normal (ff ++ dotTs)] := by simp [N]
  have hdiff : diffLoop false (N (fd ++ [ff ++ dotTs])) (N fd) = [Comp.normal (ff ++ dotTs)] := by
    rw [hN]; exact diffLoop_prefix fd _ (by simp)
  have himp : importPath true cwd frm imp = some (.ok (specOfRel true
      (ofComps (diffLoop false (N (fd ++ [ff ++ dotTs])) (N fd))))) := by
    simp only [importPath, hdir, diffPaths, hp, hb, hpc, hbc, bind, Except.bind, pure, Except.pure]
    simp [diffLoop]
  have hrel : ofComps [Comp.normal (ff ++ dotTs)] = ff ++ dotTs := by simp [ofComps, compStr, intercalate]
  have hne1 : ff ++ dotTs ≠ [] := by simp [dotTs]
  have hs : '/' ∉ ff ++ dotTs := by simp [dotTs, hffs]
  have hne2 : ff ++ dotTs ≠ ['.'] := by
    intro h; have := congrArg List.length h; simp [dotTs] at this
  have hne3 : ff ++ dotTs ≠ ['.', '.'] := by
    intro h; have := congrArg List.length h; simp [dotTs] at this
  have hstr : strPathOf (ff ++ dotTs) = ['.', '/'] ++ (ff ++ dotTs) := by
    unfold strPathOf
    rw [components_name _ hne1 hs hne2 hne3]
    rfl
  have hx := ext_none '.' 't' 's' (by decide) (by decide) (by decide) ff ['.'] hff hffs hts
  have htrim : trimEndMatches dotTs ((['.'] ++ ['/'] ++ ff) ++ dotTs) = ['.'] ++ ['/'] ++ ff :=
    trimEndMatches_once dotTs _ (by decide) hx
  have e : ['.', '/'] ++ (ff ++ dotTs) = (['.'] ++ ['/'] ++ ff) ++ dotTs := by simp
  have hspec : specOfRel true (ofComps [Comp.normal (ff ++ dotTs)]) = ['.', '/'] ++ ff ++ dotJs := by
    simp only [specOfRel, hrel, hstr, if_true]
    rw [e, htrim]
    simp
  refine ⟨by rw [himp, hdiff, hspec], ?_⟩
  have ht1 : trimEndMatches dotTs (ff ++ dotTs) = ff :=
    trimEndMatches_once dotTs ff (by decide) (endsWith_false_strip _ _ hts)
  have hy := ext_none '.' 'j' 's' (by decide) (by decide) (by decide) ff ['.'] hff hffs hjs
  have ht2 : trimEndMatches dotJs ((['.'] ++ ['/'] ++ ff) ++ dotJs) = ['.'] ++ ['/'] ++ ff :=
    trimEndMatches_once dotJs _ (by decide) hy
  have e2 : ['.', '/'] ++ ff ++ dotJs = (['.'] ++ ['/'] ++ ff) ++ dotJs := by simp
  simp only [isSameFile, hfn, ht1]
  rw [e2, ht2]
  simp


theorem trimStartMatchesAux_suffix (pat : Str) : ∀ (n : Nat) (s : Str), ∃ t, s = t ++ trimStartMatchesAux pat n s := by
  intro n
  induction n with
  | zero => intro s; exact ⟨[], by simp [trimStartMatchesAux]⟩
  | succ n ih =>
    intro s
    unfold trimStartMatchesAux
    cases h : stripPrefix pat s with
    | none => exact ⟨[], by simp⟩
    | some r =>
      by_cases he : pat.isEmpty
      · simp only [he, if_true]; exact ⟨[], by simp⟩
      · simp only [he]
        obtain ⟨t, ht⟩ := ih r
        refine ⟨pat ++ t, ?_⟩
        have := stripPrefix_eq_some h
        rw [this, List.append_assoc]
        simp only [Bool.false_eq_true, if_false]
        rw [← ht]

/-- `trim_end_matches` returns a prefix of its argument -/
theorem trimEndMatches_prefix (pat s : Str) : ∃ t, s = trimEndMatches pat s ++ t := by
  unfold trimEndMatches trimStartMatches
  obtain ⟨t, ht⟩ := trimStartMatchesAux_suffix pat.reverse s.reverse.length s.reverse
  refine ⟨t.reverse, ?_⟩
  have := congrArg List.reverse ht
  simpa using this

/-- **only a specifier that starts with `./` can pass the `is_same_file` test** — nothing reached through
`../` (a parent or sibling directory) is ever taken for the importing file, whatever the file names -/
theorem same_file_starts_dot_slash (frm spec : Str) (h : isSameFile frm spec = true) :
    startsWith ['.', '/'] spec = true := by
  unfold isSameFile at h
  cases hf : fileName frm with
  | none => simp [hf] at h
  | some f =>
    simp only [hf] at h
    have heq : ['.', '/'] ++ trimEndMatches dotTs f = trimEndMatches dotJs spec := by simpa using h
    obtain ⟨t, ht⟩ := trimEndMatches_prefix dotJs spec
    rw [← heq] at ht
    rw [ht]
    simp [startsWith, stripPrefix]

end TsRs.Path
