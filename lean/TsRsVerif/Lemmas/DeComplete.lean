import TsRsVerif.Model.De
import TsRsVerif.Model.DeFrag
import TsRsVerif.Lemmas.TreeSound
/-!
# Every inhabitant of the generated type is accepted by the Deserialize model (up to leaves)

For a program of the (monomorphic, tagged) fragment: a JSON value with distinct keys that inhabits the tree-level type of a Rust
type is never rejected for its SHAPE by the acceptance model `De.accTy` — rank 0 (accepted) or 1 (a number out of the leaf's
range, a string that is not one character for `char`), for all sufficient fuel. Structural recursion on the membership derivation.
-/
namespace TsRs
open Ts Tree Builtin De

theorem wfJF_lookup : ∀ {kvs : List (Str × JVal)} {k : Str} {v : JVal}, wfJF kvs = true → JVal.lookup k kvs = some v → wfJ v = true
  | [], _, _, _, h => by simp [JVal.lookup] at h
  | (k', v') :: kvs, k, v, hw, h => by
    simp only [wfJF, Bool.and_eq_true] at hw
    simp only [JVal.lookup] at h
    split at h
    · simp only [Option.some.injEq] at h; subst h; exact hw.1
    · exact wfJF_lookup hw.2 h

/-! ### the types the acceptance model covers -/
mutual
/-- a type without parameters is in particular one with -/
theorem tyOkP_of_tyOk (limit : Nat) (ps : List Str) : ∀ (t : RTy), tyOk limit t = true → tyOkP limit ps t = true
  | .prim r, h => by simpa [tyOk, tyOkP] using h
  | .option t, h | .vec t, h | .slice t, h | .set t, h | .range t, h => by
    simp only [tyOk] at h; simp only [tyOkP]; exact tyOkP_of_tyOk limit ps t h
  | .arr t n, h => by
    simp only [tyOk, Bool.and_eq_true] at h; simp only [tyOkP, Bool.and_eq_true]; exact ⟨h.1, tyOkP_of_tyOk limit ps t h.2⟩
  | .tuple ts, h => by simp only [tyOk] at h; simp only [tyOkP]; exact tyOkPL_of_tyOkL limit ps ts h
  | .map k v, h => by
    simp only [tyOk, Bool.and_eq_true] at h; simp only [tyOkP, Bool.and_eq_true]; exact ⟨h.1, tyOkP_of_tyOk limit ps v h.2⟩
  | .result t e, h => by
    simp only [tyOk, Bool.and_eq_true] at h; simp only [tyOkP, Bool.and_eq_true]
    exact ⟨tyOkP_of_tyOk limit ps t h.1, tyOkP_of_tyOk limit ps e h.2⟩
  | .wrap w t, h => by
    simp only [tyOk, Bool.and_eq_true] at h; simp only [tyOkP, Bool.and_eq_true]; exact ⟨h.1, tyOkP_of_tyOk limit ps t h.2⟩
  | .named _ args, h => by simp only [tyOk] at h; simp only [tyOkP]; exact tyOkPL_of_tyOkL limit ps args h
  | .param _, h => by simp [tyOk] at h
theorem tyOkPL_of_tyOkL (limit : Nat) (ps : List Str) : ∀ (ts : List RTy), tyOkL limit ts = true → tyOkPL limit ps ts = true
  | [], _ => by simp [tyOkPL]
  | t :: ts, h => by
    simp only [tyOkL, Bool.and_eq_true] at h; simp only [tyOkPL, Bool.and_eq_true]
    exact ⟨tyOkP_of_tyOk limit ps t h.1, tyOkPL_of_tyOkL limit ps ts h.2⟩
end

theorem tyOkL_mem {limit : Nat} : ∀ {ts : List RTy}, tyOkL limit ts = true → ∀ t ∈ ts, tyOk limit t = true
  | [], _, t, hm => by cases hm
  | x :: xs, h, t, hm => by
    simp only [tyOkL, Bool.and_eq_true] at h
    rcases List.mem_cons.mp hm with rfl | hm
    · exact h.1
    · exact tyOkL_mem h.2 t hm

mutual
/-- replacing the parameters by closed types closes the type -/
theorem tyOk_subst (limit : Nat) (σ : List (Str × RTy)) (hσ : ∀ p ∈ σ, tyOk limit p.2 = true) (ps : List Str) (hcl : ∀ n ∈ ps, (σ.find? (·.1 = n)).isSome) :
    ∀ (t : RTy), tyOkP limit ps t = true → tyOk limit (RTy.subst σ t) = true
  | .prim r, h => by simpa [tyOk, tyOkP, RTy.subst] using h
  | .option t, h | .vec t, h | .slice t, h | .set t, h | .range t, h => by
    simp only [tyOkP] at h; simp only [RTy.subst, tyOk]; exact tyOk_subst limit σ hσ ps hcl t h
  | .arr t n, h => by
    simp only [tyOkP, Bool.and_eq_true] at h; simp only [RTy.subst, tyOk, Bool.and_eq_true]; exact ⟨h.1, tyOk_subst limit σ hσ ps hcl t h.2⟩
  | .tuple ts, h => by simp only [tyOkP] at h; simp only [RTy.subst, tyOk]; exact tyOkL_subst limit σ hσ ps hcl ts h
  | .map k v, h => by
    simp only [tyOkP, Bool.and_eq_true] at h
    obtain ⟨hk, hv⟩ := h
    cases k <;> simp at hk
    simp only [RTy.subst, tyOk, Bool.and_eq_true]
    exact ⟨hk, tyOk_subst limit σ hσ ps hcl v hv⟩
  | .result t e, h => by
    simp only [tyOkP, Bool.and_eq_true] at h; simp only [RTy.subst, tyOk, Bool.and_eq_true]
    exact ⟨tyOk_subst limit σ hσ ps hcl t h.1, tyOk_subst limit σ hσ ps hcl e h.2⟩
  | .wrap w t, h => by
    simp only [tyOkP, Bool.and_eq_true] at h; simp only [RTy.subst, tyOk, Bool.and_eq_true]; exact ⟨h.1, tyOk_subst limit σ hσ ps hcl t h.2⟩
  | .named _ args, h => by simp only [tyOkP] at h; simp only [RTy.subst, tyOk]; exact tyOkL_subst limit σ hσ ps hcl args h
  | .param n, h => by
    simp only [tyOkP, List.contains_iff_mem] at h
    simp only [RTy.subst]
    cases hf : σ.find? (·.1 = n) with
    | none => have := hcl n h; simp [hf] at this
    | some p => simpa using hσ p (List.mem_of_find?_eq_some hf)
theorem tyOkL_subst (limit : Nat) (σ : List (Str × RTy)) (hσ : ∀ p ∈ σ, tyOk limit p.2 = true) (ps : List Str) (hcl : ∀ n ∈ ps, (σ.find? (·.1 = n)).isSome) :
    ∀ (ts : List RTy), tyOkPL limit ps ts = true → tyOkL limit (RTy.substL σ ts) = true
  | [], _ => by simp [RTy.substL, tyOkL]
  | t :: ts, h => by
    simp only [tyOkPL, Bool.and_eq_true] at h; simp only [RTy.substL, tyOkL, Bool.and_eq_true]
    exact ⟨tyOk_subst limit σ hσ ps hcl t h.1, tyOkL_subst limit σ hσ ps hcl ts h.2⟩
end

/-- strip the transparent wrappers at the head -/
def unwrapTy : RTy → RTy
  | .wrap _ t => unwrapTy t
  | t => t

theorem unwrapTy_spec (limit : Nat) (nameN : Str → List Ts → Option Ts) (accN : Str → List RTy → JVal → Nat) (j : JVal) :
    ∀ (t : RTy), tyOk limit t = true →
      nameTyB limit nameN (unwrapTy t) = nameTyB limit nameN t ∧ accB accN (unwrapTy t) j = accB accN t j ∧ tyOk limit (unwrapTy t) = true
        ∧ (∀ w u, unwrapTy t ≠ .wrap w u)
  | .wrap w t, h => by
    simp only [tyOk, Bool.and_eq_true, bne_iff_ne, ne_eq] at h
    obtain ⟨⟨h1, h2⟩, h3⟩ := h
    have ih := unwrapTy_spec limit nameN accN j t h3
    refine ⟨by simp only [unwrapTy, nameTyB]; exact ih.1, ?_, by simp only [unwrapTy]; exact ih.2.2.1, by simp only [unwrapTy]; exact ih.2.2.2⟩
    simp only [unwrapTy, accB]
    have : (w = WrapKind.phantom || w = WrapKind.weak) = false := by simp [h1, h2]
    simp only [this, decide_false, Bool.false_eq_true, if_false]
    exact ih.2.1
  | .prim _, h => ⟨rfl, rfl, h, by intro w u e; cases e⟩
  | .option _, h => ⟨rfl, rfl, h, by intro w u e; cases e⟩
  | .vec _, h => ⟨rfl, rfl, h, by intro w u e; cases e⟩
  | .slice _, h => ⟨rfl, rfl, h, by intro w u e; cases e⟩
  | .set _, h => ⟨rfl, rfl, h, by intro w u e; cases e⟩
  | .arr _ _, h => ⟨rfl, rfl, h, by intro w u e; cases e⟩
  | .tuple _, h => ⟨rfl, rfl, h, by intro w u e; cases e⟩
  | .map _ _, h => ⟨rfl, rfl, h, by intro w u e; cases e⟩
  | .result _ _, h => ⟨rfl, rfl, h, by intro w u e; cases e⟩
  | .range _, h => ⟨rfl, rfl, h, by intro w u e; cases e⟩
  | .named _ _, h => ⟨rfl, rfl, h, by intro w u e; cases e⟩
  | .param _, h => ⟨rfl, rfl, h, by intro w u e; cases e⟩

/-- "for all sufficient fuel the rank is at most 1" -/
def Good (X : Nat → Nat) : Prop := ∃ f0, ∀ f, f0 ≤ f → X f ≤ 1

theorem Good.const {n : Nat} (h : n ≤ 1) : Good (fun _ => n) := ⟨0, fun _ _ => h⟩

theorem Good.max {X Y : Nat → Nat} (hx : Good X) (hy : Good Y) : Good (fun f => Nat.max (X f) (Y f)) := by
  obtain ⟨a, ha⟩ := hx
  obtain ⟨b, hb⟩ := hy
  refine ⟨Nat.max a b, fun f hf => ?_⟩
  have h1 := ha f (Nat.le_trans (Nat.le_max_left a b) hf)
  have h2 := hb f (Nat.le_trans (Nat.le_max_right a b) hf)
  exact Nat.max_le.mpr ⟨h1, h2⟩

theorem Good.shift {X : Nat → Nat} (h : Good X) : Good (fun f => match f with | 0 => 2 | f' + 1 => X f') := by
  obtain ⟨a, ha⟩ := h
  refine ⟨a + 1, fun f hf => ?_⟩
  cases f with
  | zero => omega
  | succ f' => exact ha f' (by omega)

theorem Good.congr {X Y : Nat → Nat} (h : Good X) (e : ∀ f, Y f = X f) : Good Y := by
  obtain ⟨a, ha⟩ := h
  exact ⟨a, fun f hf => by rw [e f]; exact ha f hf⟩

/-! ### leaves -/

theorem accPrim_member (D : Decls) (htab : TableOK) (r : String) (c : PrimClass) (T : Ts) (j : JVal)
    (hcl : primClass r = some c) (hT : primTs r = some T) (m : Member D T j) : accPrim c j ≤ 1 := by
  unfold primTs at hT
  cases hn : primTsName r with
  | none => simp [hn] at hT
  | some n =>
    simp only [hn, Option.bind_some] at hT
    obtain ⟨row, hmem, hr1, hr2⟩ := primTsName_row hn
    have hspec : specTs r = some n := by
      have := htab row hmem (by rw [hr1, hcl]; rfl)
      rw [hr1, hr2] at this; exact this
    unfold specTs at hspec
    rw [hcl] at hspec
    cases c with
    | int lo hi nz =>
      simp only at hspec
      have hnum : T = .number ∨ T = .bigint := by
        split at hspec
        · simp at hspec; subst hspec; simp [tsOfPrimName] at hT; exact Or.inl hT.symm
        · split at hspec
          · simp at hspec; subst hspec; simp [tsOfPrimName] at hT; exact Or.inl hT.symm
          · simp at hspec; subst hspec; simp [tsOfPrimName] at hT; exact Or.inr hT.symm
      rcases hnum with rfl | rfl
      · cases m with
        | numberInt i => simp only [accPrim]; split <;> omega
        | numberFloat _ => simp [accPrim]
      · cases m with
        | bigint i => simp only [accPrim]; split <;> omega
    | float =>
      simp at hspec; subst hspec; simp [tsOfPrimName] at hT; subst hT
      cases m <;> simp [accPrim]
    | bool =>
      simp at hspec; subst hspec; simp [tsOfPrimName] at hT; subst hT
      cases m; simp [accPrim]
    | char =>
      simp at hspec; subst hspec; simp [tsOfPrimName] at hT; subst hT
      cases m; simp only [accPrim]; split <;> omega
    | string =>
      simp at hspec; subst hspec; simp [tsOfPrimName] at hT; subst hT
      cases m; simp [accPrim]
    | unit =>
      simp at hspec; subst hspec; simp [tsOfPrimName] at hT; subst hT
      cases m; simp [accPrim]


/-! ### small facts about objects with distinct keys -/

theorem lookup_mem_keys {k : Str} {v : JVal} : ∀ {kvs : List (Str × JVal)}, JVal.lookup k kvs = some v → k ∈ kvs.map (·.1)
  | [], h => by simp [JVal.lookup] at h
  | (k', v') :: kvs, h => by
    simp only [JVal.lookup] at h
    split at h
    · rename_i e; simp [e]
    · simp [lookup_mem_keys h]

/-- an object all of whose keys are `n`, with distinct keys, holding `n ↦ c`, is `{ n: c }` -/
theorem single_key {n : Str} {c : JVal} : ∀ {kvs : List (Str × JVal)}, (∀ k ∈ kvs.map (·.1), k = n) → (kvs.map (·.1)).Nodup →
    JVal.lookup n kvs = some c → kvs = [(n, c)]
  | [], _, _, h => by simp [JVal.lookup] at h
  | (k', v') :: rest, hall, hnd, h => by
    have hk : k' = n := hall k' (by simp)
    subst hk
    simp only [JVal.lookup, if_true, Option.some.injEq] at h
    subst h
    cases rest with
    | nil => rfl
    | cons e r =>
      exfalso
      have he : e.1 = k' := hall e.1 (by simp)
      simp only [List.map_cons, List.nodup_cons, List.mem_cons, not_or] at hnd
      exact hnd.1.1 he.symm

theorem wfJ_obj {kvs : List (Str × JVal)} (h : wfJ (.obj kvs) = true) : (kvs.map (·.1)).Nodup ∧ wfJF kvs = true := by
  simpa [wfJ] using h

theorem isNull_iff (j : JVal) : isNull j = true ↔ j = .null := by cases j <;> simp [isNull]

theorem some_map_inj {α β} {f : α → β} {o : Option α} {b : β} (h : o.map f = some b) : ∃ a, o = some a ∧ f a = b := by
  cases o with
  | none => simp at h
  | some a => exact ⟨a, rfl, by simpa using h⟩

end TsRs
