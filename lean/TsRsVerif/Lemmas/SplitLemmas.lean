import TsRsVerif.Model.Merge
/-! `split "\n\n"` / `split_once "\n\n"` against texts assembled from blank-line-free pieces: the bridge
    between `Merge.merge` (which works on the TEXT of a file) and the block-level theorems of C05. -/
namespace TsRs
open Text Merge

/-- the text contains two consecutive line breaks -/
def hasNN : Str → Bool
  | '\n' :: '\n' :: _ => true
  | _ :: r => hasNN r
  | [] => false

def endsNl (s : Str) : Bool := s.getLast? = some '\n'
def startsNl (s : Str) : Bool := s.head? = some '\n'

theorem hasNN_cons_ne (c : Char) (s : Str) (h : c ≠ '\n') : hasNN (c :: s) = hasNN s := by
  conv => lhs; unfold hasNN
  split
  · rename_i heq; simp at heq; exact absurd heq.1 h
  · rename_i heq; simp at heq; obtain ⟨rfl, rfl⟩ := heq; rfl
  · rename_i heq; simp at heq

theorem hasNN_nl_cons (d : Char) (s : Str) (h : d ≠ '\n') : hasNN ('\n' :: d :: s) = hasNN (d :: s) := by
  conv => lhs; unfold hasNN
  split
  · rename_i heq; simp at heq; exact absurd heq.1 h
  · rename_i heq; simp at heq; obtain ⟨rfl, rfl⟩ := heq; rfl
  · rename_i heq; simp at heq

theorem hasNN_nn (s : Str) : hasNN ('\n' :: '\n' :: s) = true := by unfold hasNN; rfl

theorem startsWith_nn (s : Str) : startsWith nn s = true ↔ ∃ r, s = '\n' :: '\n' :: r := by
  unfold startsWith nn
  constructor
  · intro h
    match s, h with
    | '\n' :: '\n' :: r, _ => exact ⟨r, rfl⟩
    | [], h => simp [stripPrefix] at h
    | [c], h =>
      simp only [stripPrefix] at h
      split at h <;> simp [stripPrefix] at h
    | c :: d :: r, h =>
      simp only [stripPrefix] at h
      by_cases hc : '\n' = c
      · subst hc
        simp only [↓reduceIte] at h
        by_cases hd : '\n' = d
        · subst hd; exact ⟨r, rfl⟩
        · simp [hd] at h
      · simp [hc] at h
  · rintro ⟨r, rfl⟩; simp [stripPrefix]

/-- a piece without a blank line that does not end in a line break is cut off exactly at the `\n\n` that follows it -/
theorem splitAux_piece (rest : Str) : ∀ (p cur : Str), hasNN p = false → endsNl p = false →
    splitAux nn 0 cur (p ++ '\n' :: '\n' :: rest) = (cur.reverse ++ p) :: splitAux nn 0 [] rest
  | [], cur, _, _ => by
    have hs : startsWith nn ('\n' :: '\n' :: rest) = true := (startsWith_nn _).mpr ⟨rest, rfl⟩
    simp only [List.nil_append, splitAux, hs, ↓reduceIte, List.append_nil]
    simp [nn, splitAux]
  | c :: p', cur, hn, he => by
    have hns : startsWith nn (c :: p' ++ '\n' :: '\n' :: rest) = false := by
      cases hsw : startsWith nn (c :: p' ++ '\n' :: '\n' :: rest) with
      | false => rfl
      | true =>
        obtain ⟨r, hr⟩ := (startsWith_nn _).mp hsw
        cases p' with
        | nil =>
          simp only [List.cons_append, List.nil_append, List.cons.injEq] at hr
          obtain ⟨rfl, _⟩ := hr
          simp [endsNl] at he
        | cons d p'' =>
          simp only [List.cons_append, List.cons.injEq] at hr
          obtain ⟨rfl, rfl, _⟩ := hr
          rw [hasNN_nn] at hn; cases hn
    have hn' : hasNN p' = false := by
      by_cases hc : c = '\n'
      · subst hc
        cases p' with
        | nil => rfl
        | cons d p'' =>
          have hd : d ≠ '\n' := by
            intro hd; subst hd; rw [hasNN_nn] at hn; cases hn
          rw [hasNN_nl_cons _ _ hd] at hn; exact hn
      · rw [hasNN_cons_ne _ _ hc] at hn; exact hn
    have he' : endsNl p' = false := by
      cases p' with
      | nil => simp [endsNl]
      | cons d p'' => simpa [endsNl] using he
    have ih := splitAux_piece rest p' (c :: cur) hn' he'
    rw [List.cons_append] at hns
    simp only [List.cons_append, splitAux, hns, Bool.false_eq_true, ↓reduceIte]
    simpa using ih

/-- the last piece (it may end in a line break) -/
theorem splitAux_last : ∀ (p cur : Str), hasNN p = false → splitAux nn 0 cur p = [cur.reverse ++ p]
  | [], cur, _ => by simp [splitAux]
  | c :: p', cur, hn => by
    have hns : startsWith nn (c :: p') = false := by
      cases hsw : startsWith nn (c :: p') with
      | false => rfl
      | true =>
        obtain ⟨r, hr⟩ := (startsWith_nn _).mp hsw
        rw [hr, hasNN_nn] at hn; cases hn
    have hn' : hasNN p' = false := by
      by_cases hc : c = '\n'
      · subst hc
        cases p' with
        | nil => rfl
        | cons d p'' =>
          have hd : d ≠ '\n' := by
            intro hd; subst hd; rw [hasNN_nn] at hn; cases hn
          rw [hasNN_nl_cons _ _ hd] at hn; exact hn
      · rw [hasNN_cons_ne _ _ hc] at hn; exact hn
    have ih := splitAux_last p' (c :: cur) hn'
    simp only [splitAux, hns, Bool.false_eq_true, ↓reduceIte]
    simpa using ih

/-- **`split "\n\n"` gives back the pieces**: every piece but the last free of blank lines and not ending in a
line break, the last free of blank lines -/
theorem split_nn_pieces : ∀ (ps : List Str) (last : Str), (∀ p ∈ ps, hasNN p = false ∧ endsNl p = false) → hasNN last = false →
    split nn (ps.foldr (fun p acc => p ++ '\n' :: '\n' :: acc) last) = ps ++ [last]
  | [], last, _, hl => by simp [split, splitAux_last last [] hl]
  | p :: ps, last, hp, hl => by
    have h1 := hp p (by simp)
    have ih := split_nn_pieces ps last (fun q hq => hp q (by simp [hq])) hl
    simp only [List.foldr_cons, split] at ih ⊢
    rw [splitAux_piece _ p [] h1.1 h1.2, ih]
    simp

/-- `split_once "\n\n"` cuts a header without blank lines off at the first blank line -/
theorem splitOnce_nn : ∀ (h rest : Str), hasNN h = false → endsNl h = false →
    splitOnce nn (h ++ '\n' :: '\n' :: rest) = some (h, rest)
  | [], rest, _, _ => by simp [splitOnce, nn, stripPrefix]
  | c :: h', rest, hn, he => by
    have hsp : stripPrefix nn (c :: h' ++ '\n' :: '\n' :: rest) = none := by
      cases hsw : stripPrefix nn (c :: h' ++ '\n' :: '\n' :: rest) with
      | none => rfl
      | some x =>
        have : startsWith nn (c :: h' ++ '\n' :: '\n' :: rest) = true := by unfold startsWith; rw [hsw]; rfl
        obtain ⟨r, hr⟩ := (startsWith_nn _).mp this
        cases h' with
        | nil =>
          simp only [List.cons_append, List.nil_append, List.cons.injEq] at hr
          obtain ⟨rfl, _⟩ := hr
          simp [endsNl] at he
        | cons d h'' =>
          simp only [List.cons_append, List.cons.injEq] at hr
          obtain ⟨rfl, rfl, _⟩ := hr
          rw [hasNN_nn] at hn; cases hn
    have hn' : hasNN h' = false := by
      by_cases hc : c = '\n'
      · subst hc
        cases h' with
        | nil => rfl
        | cons d h'' =>
          have hd : d ≠ '\n' := by
            intro hd; subst hd; rw [hasNN_nn] at hn; cases hn
          rw [hasNN_nl_cons _ _ hd] at hn; exact hn
      · rw [hasNN_cons_ne _ _ hc] at hn; exact hn
    have he' : endsNl h' = false := by
      cases h' with
      | nil => simp [endsNl]
      | cons d h'' => simpa [endsNl] using he
    have ih := splitOnce_nn h' rest hn' he'
    simp only [List.cons_append] at hsp ⊢
    simp only [splitOnce, hsp]
    simp [ih]

end TsRs
