import TsRsVerif.Lemmas.DenotLemmas
/-!
# Unfolding references never changes the meaning of a set of declarations

`Unf D t t'`: `t'` is `t` with some references replaced by the bodies of their declarations in `D` (type arguments
substituted), at any depth, any number of them, possibly parenthesised, a union reached by unfolding an arm of a union spliced
into it — everything `#[ts(inline)]` does to a declaration. `DeclsUnf D D'`: every body of `D'` is such an unfolding of the body
`D` has for the same name. Then `D` and `D'` give every type the same JSON values (`unfold_same_values`).
-/
namespace TsRs
open Ts

/-! ### well-scoped declarations -/
mutual
def closedIn (ps : List Str) : Ts → Bool
  | .param n => ps.contains n
  | .ref _ args => closedInL ps args
  | .array t => closedIn ps t
  | .tuple ts => closedInL ps ts
  | .obj fs => closedInF ps fs
  | .mapped k v => closedIn ps k && closedIn ps v
  | .union ts => closedInL ps ts
  | .inter ts => closedInL ps ts
  | .paren t => closedIn ps t
  | _ => true
def closedInL (ps : List Str) : List Ts → Bool
  | [] => true
  | t :: ts => closedIn ps t && closedInL ps ts
def closedInF (ps : List Str) : List (TsKey × Ts) → Bool
  | [] => true
  | (_, t) :: fs => closedIn ps t && closedInF ps fs
end

/-- every declaration mentions only its own type parameters (C07) -/
def WSD (D : Decls) : Prop := ∀ e ∈ D, closedIn e.2.1 e.2.2 = true

theorem lookupDecl_mem {D : Decls} {n : Str} {ps : List Str} {b : Ts} (h : lookupDecl D n = some (ps, b)) : (n, ps, b) ∈ D := by
  unfold lookupDecl at h
  cases hf : D.find? (·.1 = n) with
  | none => simp [hf] at h
  | some e =>
    simp only [hf, Option.map_some, Option.some.injEq] at h
    have hm := List.mem_of_find?_eq_some hf
    have hn := List.find?_some hf
    simp only [decide_eq_true_eq] at hn
    obtain ⟨n', ps', b'⟩ := e
    simp only at hn h
    subst hn
    simp only [Prod.mk.injEq] at h
    obtain ⟨rfl, rfl⟩ := h
    exact hm

theorem wsd_lookup {D : Decls} (hw : WSD D) {n : Str} {ps : List Str} {b : Ts} (h : lookupDecl D n = some (ps, b)) :
    closedIn ps b = true := hw _ (lookupDecl_mem h)

/-! ### substitution -/

theorem substList_eq_map (σ : List (Str × Ts)) : ∀ (ts : List Ts), substList σ ts = ts.map (subst σ)
  | [] => by simp [substList]
  | t :: ts => by simp [substList, substList_eq_map σ ts]

theorem lookupSub_zip_map (f : Ts → Ts) (p : Str) : ∀ (ps : List Str) (args : List Ts),
    lookupSub (ps.zip (args.map f)) p = (lookupSub (ps.zip args) p).map f
  | [], _ => by simp [lookupSub]
  | _ :: _, [] => by simp [lookupSub]
  | q :: ps, a :: args => by
    simp only [List.map_cons, List.zip_cons_cons, lookupSub, List.find?]
    by_cases h : q = p
    · simp [h]
    · simp only [h, decide_false]
      exact lookupSub_zip_map f p ps args

theorem lookupSub_zip_some (p : Str) : ∀ (ps : List Str) (args : List Ts), ps.length = args.length → p ∈ ps →
    ∃ a, lookupSub (ps.zip args) p = some a
  | [], _, _, h => by simp at h
  | _ :: _, [], hl, _ => by simp at hl
  | q :: ps, a :: args, hl, hm => by
    simp only [List.zip_cons_cons, lookupSub, List.find?]
    by_cases h : q = p
    · exact ⟨a, by simp [h]⟩
    · simp only [h, decide_false]
      have hm' : p ∈ ps := by
        rcases List.mem_cons.mp hm with e | e
        · exact absurd e.symm h
        · exact e
      exact lookupSub_zip_some p ps args (by simpa using hl) hm'

mutual
/-- substituting into an instantiated body = instantiating at the substituted arguments (the body is closed) -/
theorem subst_comp (σ : List (Str × Ts)) (ps : List Str) (args : List Ts) (hl : ps.length = args.length) :
    ∀ (b : Ts), closedIn ps b = true → subst σ (subst (ps.zip args) b) = subst (ps.zip (substList σ args)) b
  | .param p, h => by
    have hp : p ∈ ps := by simpa [closedIn] using h
    obtain ⟨a, ha⟩ := lookupSub_zip_some p ps args hl hp
    have h2 := lookupSub_zip_map (subst σ) p ps args
    rw [← substList_eq_map] at h2
    simp only [subst, ha, h2, Option.map_some]
  | .ref n as, h => by
    simp only [subst]; rw [substL_comp σ ps args hl as (by simpa [closedIn] using h)]
  | .array t, h => by simp only [subst]; rw [subst_comp σ ps args hl t (by simpa [closedIn] using h)]
  | .tuple ts, h => by simp only [subst]; rw [substL_comp σ ps args hl ts (by simpa [closedIn] using h)]
  | .obj fs, h => by simp only [subst]; rw [substF_comp σ ps args hl fs (by simpa [closedIn] using h)]
  | .mapped k v, h => by
    have h' : closedIn ps k = true ∧ closedIn ps v = true := by simpa [closedIn] using h
    simp only [subst]; rw [subst_comp σ ps args hl k h'.1, subst_comp σ ps args hl v h'.2]
  | .union ts, h => by simp only [subst]; rw [substL_comp σ ps args hl ts (by simpa [closedIn] using h)]
  | .inter ts, h => by simp only [subst]; rw [substL_comp σ ps args hl ts (by simpa [closedIn] using h)]
  | .paren t, h => by simp only [subst]; rw [subst_comp σ ps args hl t (by simpa [closedIn] using h)]
  | .number, _ => rfl | .bigint, _ => rfl | .string, _ => rfl | .boolean, _ => rfl | .null, _ => rfl | .never, _ => rfl
  | .lit _, _ => rfl | .neverArray, _ => rfl | .emptyRecord, _ => rfl | .raw _, _ => rfl
theorem substL_comp (σ : List (Str × Ts)) (ps : List Str) (args : List Ts) (hl : ps.length = args.length) :
    ∀ (ts : List Ts), closedInL ps ts = true → substList σ (substList (ps.zip args) ts) = substList (ps.zip (substList σ args)) ts
  | [], _ => rfl
  | t :: ts, h => by
    have h' : closedIn ps t = true ∧ closedInL ps ts = true := by simpa [closedInL] using h
    simp only [substList]; rw [subst_comp σ ps args hl t h'.1, substL_comp σ ps args hl ts h'.2]
theorem substF_comp (σ : List (Str × Ts)) (ps : List Str) (args : List Ts) (hl : ps.length = args.length) :
    ∀ (fs : List (TsKey × Ts)), closedInF ps fs = true → substFields σ (substFields (ps.zip args) fs) = substFields (ps.zip (substList σ args)) fs
  | [], _ => rfl
  | (k, t) :: fs, h => by
    have h' : closedIn ps t = true ∧ closedInF ps fs = true := by simpa [closedInF] using h
    simp only [substFields]; rw [subst_comp σ ps args hl t h'.1, substF_comp σ ps args hl fs h'.2]
end

theorem substList_length (σ : List (Str × Ts)) (ts : List Ts) : (substList σ ts).length = ts.length := by
  rw [substList_eq_map]; simp

/-! ### the relations -/

/-- zero or more unfoldings of the reference at the head of a type -/
inductive HeadUnf (D : Decls) : Ts → Ts → Prop where
  | refl (t : Ts) : HeadUnf D t t
  | step {n : Str} {args : List Ts} {ps : List Str} {b s : Ts} :
      lookupDecl D n = some (ps, b) → ps.length = args.length → HeadUnf D (subst (ps.zip args) b) s → HeadUnf D (.ref n args) s
  /-- a union of one arm is that arm (an enum with one variant is declared as `.union [arm]`, written as the arm) -/
  | single {t s : Ts} : HeadUnf D t s → HeadUnf D (.union [t]) s

def isLeaf : Ts → Bool
  | .number | .bigint | .string | .boolean | .null | .never | .lit _ | .neverArray | .emptyRecord | .raw _ | .param _ => true
  | _ => false

mutual
inductive Unf (D : Decls) : Ts → Ts → Prop where
  | mk {t s t' : Ts} : HeadUnf D t s → UnfP D s t' → Unf D t t'
/-- congruence, the result possibly parenthesised -/
inductive UnfP (D : Decls) : Ts → Ts → Prop where
  | plain {s t' : Ts} : UnfC D s t' → UnfP D s t'
  | paren {s t' : Ts} : UnfC D s t' → UnfP D s (.paren t')
inductive UnfC (D : Decls) : Ts → Ts → Prop where
  | leaf {t : Ts} : isLeaf t = true → UnfC D t t
  | refSame (n : Str) (args : List Ts) : UnfC D (.ref n args) (.ref n args)
  | array {t t' : Ts} : Unf D t t' → UnfC D (.array t) (.array t')
  | tuple {ts ts' : List Ts} : UnfL D ts ts' → UnfC D (.tuple ts) (.tuple ts')
  | obj {fs fs' : List (TsKey × Ts)} : UnfF D fs fs' → UnfC D (.obj fs) (.obj fs')
  | mapped {k k' v v' : Ts} : Unf D k k' → Unf D v v' → UnfC D (.mapped k v) (.mapped k' v')
  | union {ts ts' : List Ts} : UnfArms D ts ts' → UnfC D (.union ts) (.union ts')
  | inter {ts ts' : List Ts} : UnfL D ts ts' → UnfC D (.inter ts) (.inter ts')
  | parenC {t t' : Ts} : Unf D t t' → UnfC D (.paren t) (.paren t')
inductive UnfL (D : Decls) : List Ts → List Ts → Prop where
  | nil : UnfL D [] []
  | cons {t t' : Ts} {ts ts' : List Ts} : Unf D t t' → UnfL D ts ts' → UnfL D (t :: ts) (t' :: ts')
inductive UnfF (D : Decls) : List (TsKey × Ts) → List (TsKey × Ts) → Prop where
  | nil : UnfF D [] []
  | cons {k : TsKey} {t t' : Ts} {fs fs' : List (TsKey × Ts)} : Unf D t t' → UnfF D fs fs' → UnfF D ((k, t) :: fs) ((k, t') :: fs')
/-- the arms of a union: each arm unfolded on its own, or unfolded at the head to a union whose arms are spliced in -/
inductive UnfArms (D : Decls) : List Ts → List Ts → Prop where
  | nil : UnfArms D [] []
  | one {t t' : Ts} {ts out : List Ts} : Unf D t t' → UnfArms D ts out → UnfArms D (t :: ts) (t' :: out)
  | splice {t : Ts} {xs xs' ts out : List Ts} : HeadUnf D t (.union xs) → UnfArms D xs xs' → UnfArms D ts out → UnfArms D (t :: ts) (xs' ++ out)
end

/-- every body of `D'` is an unfolding of the body `D` has under the same name and parameters, and vice versa -/
structure DeclsUnf (D D' : Decls) : Prop where
  fwd : ∀ n ps b, lookupDecl D n = some (ps, b) → ∃ b', lookupDecl D' n = some (ps, b') ∧ Unf D b b'
  bwd : ∀ n ps b', lookupDecl D' n = some (ps, b') → ∃ b, lookupDecl D n = some (ps, b) ∧ Unf D b b'

/-! ### reflexivity -/
mutual
theorem unfC_refl (D : Decls) : ∀ (t : Ts), UnfC D t t
  | .ref n args => .refSame n args
  | .array t => .array (.mk (.refl _) (.plain (unfC_refl D t)))
  | .tuple ts => .tuple (unfL_refl D ts)
  | .obj fs => .obj (unfF_refl D fs)
  | .mapped k v => .mapped (.mk (.refl _) (.plain (unfC_refl D k))) (.mk (.refl _) (.plain (unfC_refl D v)))
  | .union ts => .union (unfArms_refl D ts)
  | .inter ts => .inter (unfL_refl D ts)
  | .paren t => .parenC (.mk (.refl _) (.plain (unfC_refl D t)))
  | .number => .leaf rfl | .bigint => .leaf rfl | .string => .leaf rfl | .boolean => .leaf rfl | .null => .leaf rfl
  | .never => .leaf rfl | .lit _ => .leaf rfl | .neverArray => .leaf rfl | .emptyRecord => .leaf rfl | .raw _ => .leaf rfl
  | .param _ => .leaf rfl
theorem unfL_refl (D : Decls) : ∀ (ts : List Ts), UnfL D ts ts
  | [] => .nil
  | t :: ts => .cons (.mk (.refl _) (.plain (unfC_refl D t))) (unfL_refl D ts)
theorem unfF_refl (D : Decls) : ∀ (fs : List (TsKey × Ts)), UnfF D fs fs
  | [] => .nil
  | (_, t) :: fs => .cons (.mk (.refl _) (.plain (unfC_refl D t))) (unfF_refl D fs)
theorem unfArms_refl (D : Decls) : ∀ (ts : List Ts), UnfArms D ts ts
  | [] => .nil
  | t :: ts => .one (.mk (.refl _) (.plain (unfC_refl D t))) (unfArms_refl D ts)
end

theorem unf_refl (D : Decls) (t : Ts) : Unf D t t := .mk (.refl _) (.plain (unfC_refl D t))

/-! ### stability under substitution -/

theorem substList_append (σ : List (Str × Ts)) (a b : List Ts) : substList σ (a ++ b) = substList σ a ++ substList σ b := by
  simp [substList_eq_map]

theorem headUnf_subst {D : Decls} (hw : WSD D) (σ : List (Str × Ts)) : ∀ {t s : Ts}, HeadUnf D t s → HeadUnf D (subst σ t) (subst σ s)
  | _, _, .refl _ => .refl _
  | _, _, .step (n := n) (args := args) (ps := ps) (b := b) hl hlen h => by
    have ih := headUnf_subst hw σ h
    rw [subst_comp σ ps args hlen b (wsd_lookup hw hl)] at ih
    simp only [subst]
    exact .step hl (by rw [substList_length]; exact hlen) ih
  | _, _, .single h => by
    simp only [subst, substList]
    exact .single (headUnf_subst hw σ h)

mutual
theorem unf_subst {D : Decls} (hw : WSD D) (σ : List (Str × Ts)) : ∀ {t t' : Ts}, Unf D t t' → Unf D (subst σ t) (subst σ t')
  | _, _, .mk h p => .mk (headUnf_subst hw σ h) (unfP_subst hw σ p)
theorem unfP_subst {D : Decls} (hw : WSD D) (σ : List (Str × Ts)) : ∀ {s t' : Ts}, UnfP D s t' → UnfP D (subst σ s) (subst σ t')
  | _, _, .plain c => .plain (unfC_subst hw σ c)
  | _, _, .paren c => by simp only [subst]; exact .paren (unfC_subst hw σ c)
theorem unfC_subst {D : Decls} (hw : WSD D) (σ : List (Str × Ts)) : ∀ {s t' : Ts}, UnfC D s t' → UnfC D (subst σ s) (subst σ t')
  | _, _, .leaf _ => unfC_refl D _
  | _, _, .refSame _ _ => unfC_refl D _
  | _, _, .array u => by simp only [subst]; exact .array (unf_subst hw σ u)
  | _, _, .tuple u => by simp only [subst]; exact .tuple (unfL_subst hw σ u)
  | _, _, .obj u => by simp only [subst]; exact .obj (unfF_subst hw σ u)
  | _, _, .mapped u v => by simp only [subst]; exact .mapped (unf_subst hw σ u) (unf_subst hw σ v)
  | _, _, .union u => by simp only [subst]; exact .union (unfArms_subst hw σ u)
  | _, _, .inter u => by simp only [subst]; exact .inter (unfL_subst hw σ u)
  | _, _, .parenC u => by simp only [subst]; exact .parenC (unf_subst hw σ u)
theorem unfL_subst {D : Decls} (hw : WSD D) (σ : List (Str × Ts)) : ∀ {ts ts' : List Ts}, UnfL D ts ts' → UnfL D (substList σ ts) (substList σ ts')
  | _, _, .nil => .nil
  | _, _, .cons u us => by simp only [substList]; exact .cons (unf_subst hw σ u) (unfL_subst hw σ us)
theorem unfF_subst {D : Decls} (hw : WSD D) (σ : List (Str × Ts)) : ∀ {fs fs' : List (TsKey × Ts)}, UnfF D fs fs' → UnfF D (substFields σ fs) (substFields σ fs')
  | _, _, .nil => .nil
  | _, _, .cons u us => by simp only [substFields]; exact .cons (unf_subst hw σ u) (unfF_subst hw σ us)
theorem unfArms_subst {D : Decls} (hw : WSD D) (σ : List (Str × Ts)) : ∀ {ts out : List Ts}, UnfArms D ts out → UnfArms D (substList σ ts) (substList σ out)
  | _, _, .nil => .nil
  | _, _, .one u us => by simp only [substList]; exact .one (unf_subst hw σ u) (unfArms_subst hw σ us)
  | _, _, .splice h ul us => by
    simp only [substList, substList_append]
    have h' := headUnf_subst hw σ h
    simp only [subst] at h'
    exact .splice h' (unfArms_subst hw σ ul) (unfArms_subst hw σ us)
end

/-- head unfolding does not change the values -/
theorem headUnf_member {D : Decls} : ∀ {t s : Ts}, HeadUnf D t s → ∀ j, Member D t j ↔ Member D s j
  | _, _, .refl _, _ => Iff.rfl
  | _, _, .step hl _ h, j => (member_ref_iff D _ _ _ _ j hl).trans (headUnf_member h j)
  | _, _, .single (t := t) h, j => by
    refine Iff.trans ?_ (headUnf_member h j)
    constructor
    · intro m
      cases m with
      | union hmem m' =>
        simp only [List.mem_singleton] at hmem
        subst hmem; exact m'
    · intro m; exact .union (by simp) m

end TsRs
