import TsRsVerif.Lemmas.WalkSeq
import TsRsVerif.Lemmas.HistoryToMulti
/-!
# `export_all`, end to end: which files hold what afterwards

`export_recursive` is a sequence of `export_into` steps (`WalkSeq`); an `export_into` step is an `export_to` step with the spelling
`dir / output_path()`; a sequence of `export_to` steps into several files leaves in each file the canonical text of what went there
(`HistoryToMulti`). Composed here.
-/
namespace TsRs
open Text Export Fs

/-- `export_into` is `export_to` at the spelling `dir / output_path()` (the second normalisation is the identity) -/
theorem exportInto_eq_exportTo (w : World) (t : TyInfo) (dir op : Str) (g : GenT)
    (ho : t.outputPath = some op) (ht : t.text = .ok (genText g)) (hi : t.ident = g.ident) :
    exportInto w t dir = exportTo w (tyOfGen g) (Path.join dir op) := by
  simp only [exportInto, ho]
  cases ha : Path.absolute (cwdStr w.fs) (Path.join dir op) with
  | error e => simp [exportTo, ha]
  | ok p =>
    have hidem := Path.absolute_idem (cwdStr w.fs) (Path.join dir op) p (by simp [cwdStr, Path.isAbsolute]) ha
    simp only [exportTo, hidem, ha, ht, hi, tyOfGen]

/-- the table entries of the types of `order`: generated text, output path, target file -/
structure TableOK (u : Universe) (slots : List TSlot) (dir : Str) (gen : Nat → GenT) (rel : Nat → Str) (slotOf : Nat → Nat) (j : Nat) : Prop where
  entry : ∃ t, u[j]? = some t ∧ t.outputPath = some (rel j) ∧ t.text = .ok (genText (gen j)) ∧ t.ident = (gen j).ident
  slot : slotOf j < slots.length

def opOf (dir : Str) (gen : Nat → GenT) (rel : Nat → Str) (slotOf : Nat → Nat) (j : Nat) : TOp := ((slotOf j, gen j), Path.join dir (rel j))

/-- the sequence of `export_into` steps is the sequence of `export_to` steps -/
theorem runInto_eq_runOpsTo (u : Universe) (slots : List TSlot) (dir : Str) (gen : Nat → GenT) (rel : Nat → Str) (slotOf : Nat → Nat) :
    ∀ (order : List Nat) (w : World), (∀ j ∈ order, TableOK u slots dir gen rel slotOf j) →
    runInto u dir w order = runOpsTo slots w (order.map (opOf dir gen rel slotOf))
  | [], w, _ => rfl
  | j :: rest, w, h => by
    obtain ⟨⟨t, hu, ho, ht, hi⟩, hs⟩ := h j (by simp)
    have hsl : slots[slotOf j]? = some slots[slotOf j] := List.getElem?_eq_getElem hs
    simp only [runInto, hu, List.map_cons, runOpsTo, opOf, hsl]
    rw [exportInto_eq_exportTo w t dir (rel j) (gen j) ho ht hi]
    cases hex : exportTo w (tyOfGen (gen j)) (Path.join dir (rel j)) with
    | mk w' o =>
      cases o with
      | ok => exact runInto_eq_runOpsTo u slots dir gen rel slotOf rest w' (fun k hk => h k (by simp [hk]))
      | err e => rfl
      | panic => rfl

theorem gensAt_map (order : List Nat) (slotOf : Nat → Nat) (gen : Nat → GenT) (i : Nat) :
    gensAt i (order.map fun j => (slotOf j, gen j)) = (order.filter fun j => slotOf j = i).map gen := by
  induction order with
  | nil => rfl
  | cons j rest ih =>
    simp only [gensAt, List.map_cons, List.filter_cons] at ih ⊢
    by_cases h : slotOf j = i
    · simp [h, ih]
    · simp [h, ih]

theorem nodup_map_on {α β : Type} (f : α → β) : ∀ (l : List α), (∀ x ∈ l, ∀ y ∈ l, f x = f y → x = y) → l.Nodup → (l.map f).Nodup
  | [], _, _ => by simp
  | a :: l, h, hnd => by
    obtain ⟨ha, hl⟩ := List.nodup_cons.mp hnd
    simp only [List.map_cons]
    refine List.nodup_cons.mpr ⟨?_, nodup_map_on f l (fun x hx y hy => h x (by simp [hx]) y (by simp [hy])) hl⟩
    intro hm
    obtain ⟨y, hy, e⟩ := List.mem_map.mp hm
    have := h a (by simp) y (by simp [hy]) e.symm
    exact ha (this ▸ hy)

theorem gensAt_map_nodup (order : List Nat) (hnd : order.Nodup) (slotOf : Nat → Nat) (gen : Nat → GenT) (key : GenT → Str)
    (hinj : ∀ j ∈ order, ∀ j' ∈ order, slotOf j = slotOf j' → key (gen j) = key (gen j') → j = j') (i : Nat) :
    ((gensAt i (order.map fun j => (slotOf j, gen j))).map key).Nodup := by
  rw [gensAt_map, List.map_map]
  refine nodup_map_on _ _ ?_ (List.Nodup.sublist List.filter_sublist hnd)
  intro x hx y hy e
  have hx' := List.mem_filter.mp hx
  have hy' := List.mem_filter.mp hy
  exact hinj x hx'.1 y hy'.1 (by simp at hx' hy'; rw [hx'.2, hy'.2]) e

/-- **a sequence of `export_into` steps over a table**: every step returns `Ok` and every file holds what went there -/
theorem runInto_files (u : Universe) (slots : List TSlot) (dir : Str) (gen : Nat → GenT) (rel : Nat → Str) (slotOf : Nat → Nat)
    (order : List Nat) (hnd : order.Nodup) (w : World)
    (htab : ∀ j ∈ order, TableOK u slots dir gen rel slotOf j)
    (hs : TSlotsOK w.fs slots)
    (hsp : ∀ j ∈ order, ∀ s, slots[slotOf j]? = some s → Path.absolute (cwdStr w.fs) (Path.join dir (rel j)) = .ok s.path)
    (hgen : ∀ j ∈ order, GenOK (gen j))
    (hname : ∀ j ∈ order, ∀ j' ∈ order, slotOf j = slotOf j' → (gen j).name = (gen j').name → j = j')
    (hident : ∀ j ∈ order, ∀ j' ∈ order, slotOf j = slotOf j' → (gen j).ident = (gen j').ident → j = j')
    (hp : w.poisoned = false) (hreg : ∀ s ∈ slots, regGet w.reg (regKey s.path) = none) :
    ∃ w', runInto u dir w order = (w', true) ∧ TInv w.fs slots (order.map fun j => (slotOf j, gen j)) w' := by
  rw [runInto_eq_runOpsTo u slots dir gen rel slotOf order w htab]
  have hmap : (order.map (opOf dir gen rel slotOf)).map (·.1) = order.map fun j => (slotOf j, gen j) := by
    simp [opOf, Function.comp_def]
  have hok : TOpsOK slots (cwdStr w.fs) (order.map (opOf dir gen rel slotOf)) := by
    refine ⟨?_, ?_, ?_, ?_, ?_⟩
    · intro op hop
      obtain ⟨j, hj, rfl⟩ := List.mem_map.mp hop
      exact (htab j hj).slot
    · intro op hop s hs'
      obtain ⟨j, hj, rfl⟩ := List.mem_map.mp hop
      exact hsp j hj s hs'
    · intro op hop
      obtain ⟨j, hj, rfl⟩ := List.mem_map.mp hop
      exact hgen j hj
    · intro i; rw [hmap]; exact gensAt_map_nodup order hnd slotOf gen (·.name) hname i
    · intro i; rw [hmap]; exact gensAt_map_nodup order hnd slotOf gen (·.ident) hident i
  obtain ⟨w', hr, hinv⟩ := tmulti_history slots w _ hs hok hp hreg
  exact ⟨w', hr, by rw [hmap] at hinv; exact hinv⟩

end TsRs
