import TsRsVerif.Model.Export
import TsRsVerif.Lemmas.FsLemmas
/-! Step-level lemmas about `exportAndMerge` / `exportTo` / `exportInto`. -/
namespace TsRs.Export
open TsRs.Fs

/-- the four ways `exportAndMerge` can end -/
theorem exportAndMerge_cases (w : World) (path name text : Str) :
    (exportAndMerge w path name text = (w, .panic) ∧ w.poisoned = true) ∨
    (exportAndMerge w path name text = (w, .err .io)) ∨
    (exportAndMerge w path name text = (w, .ok)) ∨
    (exportAndMerge w path name text = ({ w with poisoned := true }, .panic) ∧ w.poisoned = false ∧
        ∃ names loc orig why, regGet w.reg (regKey path) = some names ∧ w.fs.openRead path = some (loc, orig)
          ∧ Merge.merge orig text = .panic why) ∨
    (∃ l c, w.poisoned = false ∧ (w.fs.lookup l ≠ some .dir) ∧ exportAndMerge w path name text =
        ({ w with fs := w.fs.set l (.file c), reg := regInsert w.reg (regKey path) name }, .ok)) := by
  unfold exportAndMerge
  by_cases hpt : w.poisoned = true
  · left; simp [hpt]
  · have hp : w.poisoned = false := by simpa using hpt
    simp only [hpt, if_false]
    cases hr : regGet w.reg (regKey path) with
    | none =>
      simp only
      cases hc : w.fs.fileCreate path text with
      | none => right; left; rfl
      | some fs' =>
        right; right; right; right
        unfold Fs.fileCreate at hc
        cases hres : w.fs.resolve path with
        | none => simp [hres] at hc
        | some l =>
          cases l with
          | nil => simp [hres] at hc
          | cons a as =>
            simp only [hres] at hc
            split at hc
            · simp at hc
            · cases hl : w.fs.lookup (a :: as) with
              | none =>
                simp only [hl] at hc
                refine ⟨a :: as, text, (by first | exact hp | trivial), by simp [hl], ?_⟩
                simp only [Option.some.injEq] at hc; subst hc; rfl
              | some nd =>
                cases nd with
                | dir => simp [hl] at hc
                | file c0 =>
                  simp only [hl] at hc
                  refine ⟨a :: as, text, (by first | exact hp | trivial), by simp [hl], ?_⟩
                  simp only [Option.some.injEq] at hc; subst hc; rfl
    | some names =>
      simp only
      by_cases hin : name ∈ names
      · right; right; left; simp [hin]
      · simp only [hin, if_false]
        cases ho : w.fs.openRead path with
        | none => right; left; rfl
        | some lo =>
          obtain ⟨loc, orig⟩ := lo
          simp only
          cases hm : Merge.merge orig text with
          | panic why =>
            right; right; right; left
            exact ⟨rfl, (by first | exact hp | trivial), names, loc, orig, why, rfl, rfl, hm⟩
          | ok buf =>
            right; right; right; right
            refine ⟨loc, _, (by first | exact hp | trivial), ?_, rfl⟩
            unfold Fs.openRead at ho
            cases hres : w.fs.resolve path with
            | none => simp [hres] at ho
            | some l =>
              simp only [hres] at ho
              cases hl : w.fs.lookup l with
              | none => simp [hl] at ho
              | some nd =>
                cases nd with
                | dir => simp [hl] at ho
                | file c0 =>
                  simp only [hl, Option.some.injEq, Prod.mk.injEq] at ho
                  obtain ⟨h1, _⟩ := ho; subst h1; simp [hl]

theorem exportAndMerge_err (w w' : World) (path name text : Str) (e : ExportErr)
    (h : exportAndMerge w path name text = (w', .err e)) : w' = w := by
  rcases exportAndMerge_cases w path name text with ⟨h1, _⟩ | h1 | h1 | ⟨h1, _⟩ | ⟨l, c, _, _, h1⟩ <;>
    rw [h1] at h <;> simp at h
  exact h.1.symm

end TsRs.Export
