import TsRsVerif.Model.TreeDerive
import TsRsVerif.Lemmas.BuiltinLemmas
import TsRsVerif.Lemmas.MemberLemmas
import TsRsVerif.Props.C12
import TsRsVerif.Lemmas.SubstLemmas
import TsRsVerif.Lemmas.MemberOpt
/-! End-to-end soundness of the tree-level derive against the serde model, for the core fragment. -/
namespace TsRs
open Text Ts Builtin Tree

mutual
theorem subst_nil : ∀ (t : Ts), Ts.subst [] t = t
  | .number | .bigint | .string | .boolean | .null | .never | .lit _ | .neverArray | .emptyRecord | .raw _ => by simp [Ts.subst]
  | .param n => by simp [Ts.subst, lookupSub]
  | .ref n args => by simp [Ts.subst, substList_nil args]
  | .array t => by simp [Ts.subst, subst_nil t]
  | .tuple ts => by simp [Ts.subst, substList_nil ts]
  | .obj fs => by simp [Ts.subst, substFields_nil fs]
  | .mapped k v => by simp [Ts.subst, subst_nil k, subst_nil v]
  | .union ts => by simp [Ts.subst, substList_nil ts]
  | .inter ts => by simp [Ts.subst, substList_nil ts]
  | .paren t => by simp [Ts.subst, subst_nil t]
theorem substList_nil : ∀ (ts : List Ts), Ts.substList [] ts = ts
  | [] => by simp [Ts.substList]
  | t :: ts => by simp [Ts.substList, subst_nil t, substList_nil ts]
theorem substFields_nil : ∀ (fs : List (TsKey × Ts)), Ts.substFields [] fs = fs
  | [] => by simp [Ts.substFields]
  | (k, t) :: fs => by simp [Ts.substFields, subst_nil t, substFields_nil fs]
end

mutual
theorem rsubst_nil : ∀ (t : RTy), RTy.subst [] t = t
  | .prim _ => by simp [RTy.subst]
  | .param n => by simp [RTy.subst]
  | .option t | .vec t | .slice t | .set t | .range t => by simp [RTy.subst, rsubst_nil t]
  | .arr t n => by simp [RTy.subst, rsubst_nil t]
  | .wrap k t => by simp [RTy.subst, rsubst_nil t]
  | .tuple ts => by simp [RTy.subst, rsubstL_nil ts]
  | .map k v => by simp [RTy.subst, rsubst_nil k, rsubst_nil v]
  | .result a b => by simp [RTy.subst, rsubst_nil a, rsubst_nil b]
  | .named id args => by simp [RTy.subst, rsubstL_nil args]
theorem rsubstL_nil : ∀ (ts : List RTy), RTy.substL [] ts = ts
  | [] => by simp [RTy.substL]
  | t :: ts => by simp [RTy.substL, rsubst_nil t, rsubstL_nil ts]
end


/-- serialization of user types at fuel `m` is sound for the tree-level declarations -/
def Sound (cfg : Cfg) (env : Env) (m : Nat) : Prop :=
  ∀ id args v j it targs, env.find id = some it → nameTyBL cfg.limit (nameN env) args = some targs →
    Serde.serItem cfg env m id args v = some j → cleanV v = true →
    Member (declsOf cfg env) (.ref (Derive.tsName it) targs) j

theorem namedSound_of (cfg : Cfg) (env : Env) (m : Nat) (h : Sound cfg env m) :
    NamedSound (declsOf cfg env) cfg.limit (nameN env) (fun id args v => Serde.serItem cfg env m id args v) := by
  intro id args targs v j T hargs hN hs hc
  unfold nameN at hN
  cases hf : env.find id with
  | none => simp [hf] at hN
  | some it =>
    simp only [hf, Option.bind_some] at hN
    split at hN
    · simp only [Option.some.injEq] at hN
      subst hN
      exact h id args v j it targs hf hargs hs hc
    · cases hN

/-- a value of any type built from library constructors over user types -/
theorem serTy_sound (cfg : Cfg) (env : Env) (n : Nat) (hS : ∀ m, m < n → Sound cfg env m)
    (f : Nat) (hf : f ≤ n) (t : RTy) (v : RVal) (j : JVal) (T : Ts)
    (hs : Serde.serTy cfg env f t v = some j) (hc : cleanV v = true) (hT : tyTs cfg env t = some T) :
    Member (declsOf cfg env) T j := by
  cases f with
  | zero => simp [Serde.serTy] at hs
  | succ f' =>
    simp only [Serde.serTy] at hs
    exact C12_sound_over _ cfg.limit (nameN env) _ (namedSound_of cfg env f' (hS f' (by omega))) t v T j hT hs hc

theorem substList_len (σ : List (Str × Ts)) : ∀ (ts : List Ts), (Ts.substList σ ts).length = ts.length
  | [] => by simp [Ts.substList]
  | t :: ts => by simp [Ts.substList, substList_len σ ts]

theorem nameN_commutes (env : Env) : NCommutes (nameN env) := by
  intro id xs T σ h
  unfold nameN at h ⊢
  cases hf : env.find id with
  | none => simp [hf] at h
  | some it =>
    simp only [hf, Option.bind_some] at h ⊢
    split at h
    · rename_i hl
      simp only [Option.some.injEq] at h
      subst h
      simp [Ts.subst, substList_len, hl]
    · cases h

/-- values of field types under a substitution of the item's parameters: `σ` on the Rust side, `σ'` (the names of the same
arguments) on the TypeScript side -/
def TySound (cfg : Cfg) (env : Env) (n : Nat) (σ : List (Str × RTy)) (σ' : List (Str × Ts)) : Prop :=
  ∀ f, f ≤ n → ∀ (t : RTy) (v : RVal) (j : JVal) (T : Ts), Serde.serTy cfg env f (RTy.subst σ t) v = some j → cleanV v = true →
    tyTs cfg env t = some T → Member (declsOf cfg env) (Ts.subst σ' T) j

theorem tySound_of (cfg : Cfg) (env : Env) (n : Nat) (hS : ∀ m, m < n → Sound cfg env m)
    (names : List Str) (args : List RTy) (targs : List Ts) (hargs : nameTyBL cfg.limit (nameN env) args = some targs) :
    TySound cfg env n (names.zip args) (names.zip targs) := by
  intro f hf t v j T hs hc hT
  have hT' := name_subst cfg.limit (nameN env) (nameN_commutes env) names args targs hargs t T hT
  exact serTy_sound cfg env n hS f hf _ v j _ hs hc hT'

theorem substFields_map (σ : List (Str × Ts)) : ∀ (fs : List (TsKey × Ts)), Ts.substFields σ fs = fs.map fun x => (x.1, Ts.subst σ x.2)
  | [] => by simp [Ts.substFields]
  | (k, t) :: fs => by simp [Ts.substFields, substFields_map σ fs]

theorem substList_map (σ : List (Str × Ts)) : ∀ (ts : List Ts), Ts.substList σ ts = ts.map (Ts.subst σ)
  | [] => by simp [Ts.substList]
  | t :: ts => by simp [Ts.substList, substList_map σ ts]

theorem cleanVL_cons {v : RVal} {vs : List RVal} (h : cleanVL (v :: vs) = true) : cleanV v = true ∧ cleanVL vs = true := by
  simpa [cleanVL] using h

theorem serTy_option_some (cfg : Cfg) (env : Env) (f : Nat) (t : RTy) (v : RVal) (j : JVal)
    (hs : Serde.serTy cfg env f (.option t) v = some j) (hn : Serde.isNoneVal v = false) :
    ∃ x, v = .some x ∧ Serde.serTy cfg env f t x = some j := by
  cases f with
  | zero => simp [Serde.serTy] at hs
  | succ f' =>
    simp only [Serde.serTy] at hs ⊢
    cases v with
    | none => simp [Serde.isNoneVal] at hn
    | some x => exact ⟨x, rfl, by simpa [Builtin.serB] using hs⟩
    | _ => simp [Builtin.serB] at hs

theorem optMode_ff (of : Opt) (f : Field) (h1 : (optMode of f).1 = false) (h2 : (optMode of f).2 = false) :
    Derive.isOption f.ty = false := by
  unfold optMode at h1 h2
  cases of <;> cases hfo : f.attr.optional <;> simp_all

theorem optionInner_id (t : RTy) (h : Derive.isOption t = false) : Derive.optionInner t = t := by
  cases t <;> simp_all [Derive.isOption, Derive.optionInner]

theorem isOption_cases (t : RTy) (h : Derive.isOption t = true) : ∃ u, t = .option u := by
  cases t <;> simp [Derive.isOption] at h
  exact ⟨_, rfl⟩

/-- the named fields of a body: every property is either written by serde with a member value, or left out and optional -/
theorem serNamed_sound (cfg : Cfg) (env : Env) (n : Nat) (σ : List (Str × RTy)) (σ' : List (Str × Ts)) (hty : TySound cfg env n σ σ')
    (ra : Option Rule) (of : Opt) :
    ∀ (f : Nat), f ≤ n → ∀ (fields : List Field) (vals : List RVal) (kvs : List (Str × JVal)) (fs : List (TsKey × Ts)),
    Serde.serNamed cfg env f σ ra fields vals = some kvs → cleanVL vals = true →
    fields.all (fieldOkN cfg ra of) = true → fieldsTs cfg env ra of fields = some fs →
    ∃ l : List Row, Ts.substFields σ' fs = fieldsOf l ∧ kvs = presentOf l
      ∧ (∀ x ∈ l, match x.2.2.2 with | some j => Member (declsOf cfg env) x.2.2.1 j | none => x.2.1 = true)
      ∧ l.map (·.1) = keysOf cfg ra fields
  | 0, _, _, _, _, _, hs, _, _, _ => by simp [Serde.serNamed] at hs
  | f + 1, hf, [], [], kvs, fs, hs, _, _, hT => by
    simp only [Serde.serNamed, Option.some.injEq] at hs
    simp only [fieldsTs, Option.some.injEq] at hT
    subst hs; subst hT
    exact ⟨[], by simp [Ts.substFields, fieldsOf], by simp [presentOf], by simp, by simp [keysOf]⟩
  | f + 1, hf, [], _ :: _, kvs, fs, hs, _, _, _ => by simp [Serde.serNamed] at hs
  | f + 1, hf, _ :: _, [], kvs, fs, hs, _, _, _ => by simp [Serde.serNamed] at hs
  | f + 1, hf, fld :: flds, v :: vs, kvs, fs, hs, hc, hok, hT => by
    obtain ⟨hcv, hcvs⟩ := cleanVL_cons hc
    simp only [List.all_cons, Bool.and_eq_true] at hok
    obtain ⟨hfo, hrest⟩ := hok
    simp only [Serde.serNamed, bind, Option.bind] at hs
    cases hr : Serde.serNamed cfg env f σ ra flds vs with
    | none => simp [hr] at hs
    | some rest =>
      simp only [hr] at hs
      simp only [fieldsTs, bind, Option.bind] at hT
      cases hrt : fieldsTs cfg env ra of flds with
      | none => simp [hrt] at hT
      | some rfs =>
        simp only [hrt] at hT
        obtain ⟨l, hl1, hl2, hl3, hl4⟩ := serNamed_sound cfg env n σ σ' hty ra of f (by omega) flds vs rest rfs hr hcvs hrest hrt
        simp only [fieldOkN, Bool.and_eq_true, Bool.not_eq_true', Option.isNone_iff_eq_none, Bool.or_eq_true] at hfo
        obtain ⟨⟨⟨⟨hinl, hflat⟩, hta⟩, hto⟩, hcond⟩ := hfo
        by_cases hskip : fld.attr.skip = true
        · simp only [hskip, ↓reduceIte, pure, Option.some.injEq] at hs hT
          subst hs; subst hT
          refine ⟨l, hl1, hl2, hl3, ?_⟩
          simp [keysOf, hskip] at hl4 ⊢
          exact hl4
        · have hskip' : fld.attr.skip = false := by simpa using hskip
          rcases hcond with hcond | hcond
          · rw [hskip'] at hcond; cases hcond
          simp only [Bool.and_eq_true, beq_iff_eq, Bool.or_eq_true, Bool.not_eq_true', Bool.and_eq_false_imp] at hcond
          obtain ⟨⟨⟨⟨hk, hssq⟩, hqopt⟩, hqs⟩, hofp⟩ := hcond
          simp only [hskip', Bool.false_eq_true, ↓reduceIte] at hs hT
          -- the type the derive prints for the property
          cases ht : tyTs cfg env (if (optMode of fld).2 = true then fld.ty else Derive.optionInner fld.ty) with
          | none => simp [ht] at hT
          | some T =>
            simp only [ht, pure, Option.some.injEq] at hT
            subst hT
            have hkeys : (Serde.fieldKey cfg ra fld :: l.map (·.1)) = keysOf cfg ra (fld :: flds) := by
              simp [keysOf, hskip'] at hl4 ⊢
              exact hl4
            by_cases hnone : (fld.attr.skipSerIfNone && Serde.isNoneVal v) = true
            · -- serde leaves the property out; it is written `name?:`
              simp only [hnone, ↓reduceIte, pure, Option.some.injEq] at hs
              subst hs
              have hq : (optMode of fld).1 = true := by
                simp only [Bool.and_eq_true] at hnone
                rcases hssq with h | h
                · rw [hnone.1] at h; cases h
                · exact h
              refine ⟨(Serde.fieldKey cfg ra fld, true, Ts.subst σ' T, none) :: l, ?_, ?_, ?_, ?_⟩
              · simp [Ts.substFields, fieldsOf, hl1, hk, hq]
              · simp [presentOf, hl2]
              · intro x hx
                rcases List.mem_cons.mp hx with rfl | hx'
                · simp
                · exact hl3 x hx'
              · simpa using hkeys
            · simp only [hnone, Bool.false_eq_true, ↓reduceIte] at hs
              cases hj : Serde.serTy cfg env f (RTy.subst σ fld.ty) v with
              | none => simp [hj] at hs
              | some j =>
                simp only [hj, hflat, Bool.false_eq_true, ↓reduceIte, pure, Option.some.injEq] at hs
                subst hs
                have hm : Member (declsOf cfg env) (Ts.subst σ' T) j := by
                  by_cases hnul : (optMode of fld).2 = true
                  · simp only [hnul, ↓reduceIte] at ht
                    exact hty f (by omega) fld.ty v j T hj hcv ht
                  · have hnul' : (optMode of fld).2 = false := by simpa using hnul
                    simp only [hnul', Bool.false_eq_true, ↓reduceIte] at ht
                    by_cases hq : (optMode of fld).1 = true
                    · -- `name?: T` without `| null`: the field is an Option, `None` is skipped, so the value is `Some x`
                      have hopt : Derive.isOption fld.ty = true := by
                        rcases hqopt with h | h
                        · rw [hq] at h; cases h
                        · exact h
                      obtain ⟨u, hu⟩ := isOption_cases fld.ty hopt
                      have hss : fld.attr.skipSerIfNone = true := by
                        rcases hqs with h | h
                        · have := h hq; simp [hnul'] at this
                        · exact h
                      have hvn : Serde.isNoneVal v = false := by
                        cases hv : Serde.isNoneVal v with
                        | false => rfl
                        | true => simp [hss, hv] at hnone
                      rw [hu] at hj ht
                      simp only [RTy.subst] at hj
                      simp only [Derive.optionInner] at ht
                      obtain ⟨x, hvx, hjx⟩ := serTy_option_some cfg env f _ v j hj hvn
                      subst hvx
                      exact hty f (by omega) u x j T hjx (by simpa [cleanV] using hcv) ht
                    · -- neither `?` nor `| null` to drop: a non-Option field under the container's `optional_fields`
                      have hq' : (optMode of fld).1 = false := by simpa using hq
                      rw [optionInner_id _ (optMode_ff of fld hq' hnul')] at ht
                      exact hty f (by omega) fld.ty v j T hj hcv ht
                refine ⟨(Serde.fieldKey cfg ra fld, (optMode of fld).1, Ts.subst σ' T, some j) :: l, ?_, ?_, ?_, ?_⟩
                · simp [Ts.substFields, fieldsOf, hl1, hk]
                · simp [presentOf, hl2]
                · intro x hx
                  rcases List.mem_cons.mp hx with rfl | hx'
                  · exact hm
                  · exact hl3 x hx'
                · simpa using hkeys

/-- tuple fields: element-wise membership -/
theorem serTuple_sound (cfg : Cfg) (env : Env) (n : Nat) (σ : List (Str × RTy)) (σ' : List (Str × Ts)) (hty : TySound cfg env n σ σ')
    (ra : Option Rule) :
    ∀ (f : Nat), f ≤ n → ∀ (fields : List Field) (vals : List RVal) (js : List JVal) (ts : List Ts),
    Serde.serTuple cfg env f σ fields vals = some js → cleanVL vals = true →
    fields.all (fieldOk cfg ra) = true → tupleTs cfg env fields = some ts →
    MemberZip (declsOf cfg env) (Ts.substList σ' ts) js
  | 0, _, _, _, _, _, hs, _, _, _ => by simp [Serde.serTuple] at hs
  | f + 1, hf, [], [], js, ts, hs, _, _, hT => by
    simp only [Serde.serTuple, Option.some.injEq] at hs
    simp only [tupleTs, Option.some.injEq] at hT
    subst hs; subst hT
    simp only [Ts.substList]
    exact MemberZip.nil
  | f + 1, hf, [], _ :: _, js, ts, hs, _, _, _ => by simp [Serde.serTuple] at hs
  | f + 1, hf, _ :: _, [], js, ts, hs, _, _, _ => by simp [Serde.serTuple] at hs
  | f + 1, hf, fld :: flds, v :: vs, js, ts, hs, hc, hok, hT => by
    obtain ⟨hcv, hcvs⟩ := cleanVL_cons hc
    simp only [List.all_cons, Bool.and_eq_true] at hok
    obtain ⟨hfo, hrest⟩ := hok
    simp only [Serde.serTuple, bind, Option.bind] at hs
    cases hr : Serde.serTuple cfg env f σ flds vs with
    | none => simp [hr] at hs
    | some rest =>
      simp only [hr] at hs
      simp only [tupleTs, bind, Option.bind] at hT
      cases hrt : tupleTs cfg env flds with
      | none => simp [hrt] at hT
      | some rts =>
        simp only [hrt] at hT
        have ih := serTuple_sound cfg env n σ σ' hty ra f (by omega) flds vs rest rts hr hcvs hrest hrt
        by_cases hskip : fld.attr.skip = true
        · simp only [hskip, ↓reduceIte, pure, Option.some.injEq] at hs hT
          subst hs; subst hT
          exact ih
        · have hskip' : fld.attr.skip = false := by simpa using hskip
          simp only [hskip', Bool.false_eq_true, ↓reduceIte] at hs
          simp only [hskip', Bool.false_eq_true, ↓reduceIte] at hT
          cases hj : Serde.serTy cfg env f (RTy.subst σ fld.ty) v with
          | none => simp [hj] at hs
          | some j =>
            cases ht : tyTs cfg env fld.ty with
            | none => simp [ht] at hT
            | some T =>
              simp only [hj, pure, Option.some.injEq] at hs
              simp only [ht, pure, Option.some.injEq] at hT
              subst hs; subst hT
              simp only [Ts.substList]
              exact MemberZip.cons (hty f (by omega) fld.ty v j T hj hcv ht) ih

theorem serTuple_length (cfg : Cfg) (env : Env) (σ : List (Str × RTy)) : ∀ (f : Nat) (fields : List Field) (vals : List RVal) (js : List JVal),
    Serde.serTuple cfg env f σ fields vals = some js → fields.length = vals.length
  | 0, _, _, _, hs => by simp [Serde.serTuple] at hs
  | f + 1, [], [], _, _ => rfl
  | f + 1, [], _ :: _, _, hs => by simp [Serde.serTuple] at hs
  | f + 1, _ :: _, [], _, hs => by simp [Serde.serTuple] at hs
  | f + 1, fld :: flds, v :: vs, js, hs => by
    simp only [Serde.serTuple, bind, Option.bind] at hs
    cases hr : Serde.serTuple cfg env f σ flds vs with
    | none => simp [hr] at hs
    | some rest => simp [serTuple_length cfg env σ f flds vs rest hr]

/-- the body of a struct / the content of a variant -/
theorem structBody_sound (cfg : Cfg) (env : Env) (n : Nat) (σ : List (Str × RTy)) (σ' : List (Str × Ts)) (hty : TySound cfg env n σ σ')
    (f : Nat) (hf : f ≤ n) (ra : Option Rule) (of : Opt) (tag : Option Str) (name : Str) (shape : Shape) (fields : List Field)
    (vals : List RVal) (j : JVal) (T : Ts)
    (hs : Serde.serStructBody cfg env f σ ra tag name shape fields vals = some j) (hc : cleanVL vals = true)
    (hok : bodyOk cfg ra of tag shape fields = true)
    (hnt : ∀ fld, shape = .tuple → fields = [fld] → fld.attr.skip = false)
    (hT : structBody cfg env ra of (tag.map fun t => (t, name)) shape fields = some T) :
    Member (declsOf cfg env) (Ts.subst σ' T) j := by
  cases f with
  | zero => simp [Serde.serStructBody] at hs
  | succ f' =>
    simp only [bodyOk, Bool.and_eq_true] at hok
    obtain ⟨hfields, hkeys⟩ := hok
    cases shape with
    | unit =>
      simp only [Serde.serStructBody, Option.some.injEq] at hs
      simp only [structBody, Option.some.injEq] at hT
      subst hs; subst hT; simp only [Ts.subst]; exact Member.null
    | named =>
      simp only [beq_self_eq_true, ↓reduceIte] at hfields
      simp only [Serde.serStructBody, bind, Option.bind] at hs
      cases hk : Serde.serNamed cfg env f' σ ra fields vals with
      | none => simp [hk] at hs
      | some kvs =>
        simp only [hk, pure, Option.some.injEq] at hs
        simp only [structBody] at hT
        by_cases hemp : (fields.isEmpty && (tag.map fun t => (t, name)).isNone) = true
        · simp only [hemp, ↓reduceIte, Option.some.injEq] at hT
          simp only [Bool.and_eq_true, List.isEmpty_iff, Option.isNone_iff_eq_none, Option.map_eq_none_iff] at hemp
          obtain ⟨hf0, ht0⟩ := hemp
          subst hf0; subst ht0
          cases f' with
          | zero => simp [Serde.serNamed] at hk
          | succ f'' =>
            cases vals with
            | nil =>
              simp only [Serde.serNamed, Option.some.injEq] at hk
              subst hk; subst hs; subst hT
              simp only [Ts.subst]
              exact Member.emptyRecord
            | cons _ _ => simp [Serde.serNamed] at hk
        · simp only [hemp, Bool.false_eq_true, ↓reduceIte, bind, Option.bind] at hT
          cases hfs : fieldsTs cfg env ra of fields with
          | none => simp [hfs] at hT
          | some fs =>
            simp only [hfs, pure, Option.some.injEq] at hT
            obtain ⟨l, hl1, hl2, hl3, hl4⟩ := serNamed_sound cfg env n σ σ' hty ra of f' (by omega) fields vals kvs fs hk hc hfields hfs
            have hnd : (tag.toList ++ keysOf cfg ra fields).Nodup := by simpa using hkeys
            cases tag with
            | none =>
              simp only [Option.map_none, List.nil_append] at hT hs
              subst hs; subst hT
              simp only [Ts.subst]
              rw [hl1, hl2]
              exact objOpt_sound _ l (by rw [hl4]; simpa using hnd) hl3
            | some t =>
              simp only [Option.map_some, List.singleton_append] at hT hs
              subst hs; subst hT
              simp only [Ts.subst, Ts.substFields]
              rw [hl1, hl2]
              have := objOpt_sound (declsOf cfg env) ((t, false, Ts.lit name, some (JVal.str name)) :: l)
                (by simp only [List.map_cons, hl4]; simpa using hnd)
                (by
                  intro x hx
                  rcases List.mem_cons.mp hx with rfl | hx'
                  · exact Member.lit name
                  · exact hl3 x hx')
              simpa [fieldsOf, presentOf] using this
    | tuple =>
      have hfields : fields.all (fieldOk cfg ra) = true := by simpa using hfields
      simp only [Serde.serStructBody] at hs
      simp only [structBody] at hT
      match fields, vals, hs, hT, hfields, hnt, hc with
      | [], vals, hs, hT, _, _, _ =>
        simp only [bind, Option.bind] at hs
        cases hr : Serde.serTuple cfg env f' σ [] vals with
        | none => simp [hr] at hs
        | some js =>
          have hlen := serTuple_length cfg env σ f' [] vals js hr
          cases vals with
          | cons _ _ => simp at hlen
          | nil =>
            cases f' with
            | zero => simp [Serde.serTuple] at hr
            | succ _ =>
              simp only [hr, pure, Option.some.injEq] at hs
              simp only [Serde.serTuple, Option.some.injEq] at hr
              simp only [Option.some.injEq] at hT
              rw [← hs, ← hT, ← hr]
              simp only [Ts.subst]
              exact Member.neverArray
      | [fld], [v], hs, hT, hfields, hnt, hc =>
        have hsk := hnt fld rfl rfl
        simp only [hsk, Bool.false_eq_true, ↓reduceIte] at hT
        simp only [] at hs
        exact hty f' (by omega) fld.ty v j T hs (cleanVL_cons hc).1 hT
      | [fld], [], hs, _, _, _, _ =>
        simp only [bind, Option.bind] at hs
        cases hr : Serde.serTuple cfg env f' σ [fld] [] with
        | none => simp [hr] at hs
        | some js => have := serTuple_length cfg env σ f' [fld] [] js hr; simp at this
      | [fld], v1 :: v2 :: vr, hs, _, _, _, _ =>
        simp only [bind, Option.bind] at hs
        cases hr : Serde.serTuple cfg env f' σ [fld] (v1 :: v2 :: vr) with
        | none => simp [hr] at hs
        | some js => have := serTuple_length cfg env σ f' [fld] _ js hr; simp at this
      | f1 :: f2 :: rest, vals, hs, hT, hfields, _, hc =>
        simp only [bind, Option.bind] at hs
        cases hr : Serde.serTuple cfg env f' σ (f1 :: f2 :: rest) vals with
        | none => simp [hr] at hs
        | some js =>
          simp only [hr, pure, Option.some.injEq] at hs
          cases hts : tupleTs cfg env (f1 :: f2 :: rest) with
          | none => simp [hts] at hT
          | some ts =>
            simp only [hts, Option.map_some, Option.some.injEq] at hT
            subst hs; subst hT
            simp only [Ts.subst]
            exact Member.tuple (serTuple_sound cfg env n σ σ' hty ra f' (by omega) _ vals js ts hr hc hfields hts)

theorem serStructBody_ra_irrel (cfg : Cfg) (env : Env) (f : Nat) (σ : List (Str × RTy)) (ra ra' : Option Rule) (tag : Option Str)
    (name : Str) (shape : Shape) (fields : List Field) (vals : List RVal) (h : shape ≠ .named) :
    Serde.serStructBody cfg env f σ ra tag name shape fields vals = Serde.serStructBody cfg env f σ ra' tag name shape fields vals := by
  cases f with
  | zero => simp [Serde.serStructBody]
  | succ f' =>
    cases shape with
    | named => exact absurd rfl h
    | unit => simp [Serde.serStructBody]
    | tuple => simp [Serde.serStructBody]

theorem structBody_ra_irrel (cfg : Cfg) (env : Env) (ra ra' : Option Rule) (of : Opt) (tag : Option (Str × Str))
    (shape : Shape) (fields : List Field) (h : shape ≠ .named) :
    structBody cfg env ra of tag shape fields = structBody cfg env ra' of tag shape fields := by
  cases shape with
  | named => exact absurd rfl h
  | unit => simp [structBody]
  | tuple => simp [structBody]

theorem structBody_unitLike (cfg : Cfg) (env : Env) (ra : Option Rule) (var : Variant) (h : var.unitLike = true) :
    structBody cfg env ra .no none var.shape var.fields = some .null := by
  unfold Variant.unitLike at h
  simp only [Bool.or_eq_true, decide_eq_true_eq, Bool.and_eq_true] at h
  rcases h with h | ⟨h1, h2⟩
  · simp [structBody, h]
  · simp only [structBody, h1]
    match hf : var.fields, h2 with
    | [fld], h2 => simp [h2]
    | [], h2 => simp at h2
    | _ :: _ :: _, h2 => simp at h2

theorem single_obj (D : Decls) (k : Str) (T : Ts) (j : JVal) (h : Member D T j) :
    Member D (.obj [({ name := k }, T)]) (.obj [(k, j)]) := by
  have := obj_sound D [(k, T, j)] (by simp) (by intro x hx; simp at hx; subst hx; exact h)
  simpa using this

theorem pair_obj (D : Decls) (k1 k2 : Str) (T1 T2 : Ts) (j1 j2 : JVal) (hne : k1 ≠ k2) (h1 : Member D T1 j1) (h2 : Member D T2 j2) :
    Member D (.obj [({ name := k1 }, T1), ({ name := k2 }, T2)]) (.obj [(k1, j1), (k2, j2)]) := by
  have := obj_sound D [(k1, T1, j1), (k2, T2, j2)] (by simp [hne]) (by
    intro x hx; simp at hx
    rcases hx with rfl | rfl
    · exact h1
    · exact h2)
  simpa using this

/-- one variant: what serde writes for a value of the variant inhabits the arm the derive prints for it -/
theorem variant_sound (cfg : Cfg) (env : Env) (n : Nat) (σ : List (Str × RTy)) (σ' : List (Str × Ts)) (hty : TySound cfg env n σ σ')
    (f : Nat) (hf : f ≤ n) (it : Item) (var : Variant) (vals : List RVal) (j : JVal) (T : Ts)
    (hs : Serde.serVariant cfg env f it σ var vals = some j) (hc : cleanVL vals = true)
    (hok : variantOk cfg it var = true) (hT : variantTs cfg env it var = some T) :
    Member (declsOf cfg env) (Ts.subst σ' T) j := by
  cases f with
  | zero => simp [Serde.serVariant] at hs
  | succ f' =>
    simp only [variantOk, Bool.and_eq_true, Bool.not_eq_true', Option.isNone_iff_eq_none, beq_iff_eq] at hok
    obtain ⟨⟨⟨⟨hinl, hta⟩, hto⟩, hname⟩, hra, htg⟩ := hok
    simp only [Serde.serVariant] at hs
    by_cases hskip : var.attr.skip = true
    · simp [hskip] at hs
    · simp only [hskip, Bool.false_eq_true, ↓reduceIte] at hs
      simp only [variantTs] at hT
      rw [hname] at hT
      have hbody : ∀ (tag : Option Str) (nm : Str) (c : JVal) (B : Ts),
          Serde.serStructBody cfg env f' σ (Serde.renameAllS it var) tag nm var.shape var.fields vals = some c →
          bodyOk cfg (renameAllT it var) .no tag var.shape var.fields = true →
          var.unitLike = false →
          structBody cfg env (renameAllT it var) .no
            (tag.map fun t => (t, nm)) var.shape var.fields = some B →
          Member (declsOf cfg env) (Ts.subst σ' B) c := by
        intro tag nm c B h1 h2 hul h3
        have hnt : ∀ fld, var.shape = .tuple → var.fields = [fld] → fld.attr.skip = false := by
          intro fld hsh hfl
          unfold Variant.unitLike at hul
          simp only [hsh, hfl, Bool.or_eq_false_iff, Bool.and_eq_false_iff] at hul
          simpa using hul.2
        by_cases hsh : var.shape = .named
        · have e : (renameAllT it var) = (Serde.renameAllS it var) := by
            unfold renameAllT Serde.renameAllS
            cases var.attr.renameAll <;> simp [hsh]
          rw [e] at h2 h3
          exact structBody_sound cfg env n σ σ' hty f' (by omega) _ .no tag nm var.shape var.fields vals c B h1 hc h2 hnt h3
        · rw [serStructBody_ra_irrel cfg env f' σ _ (renameAllT it var) tag nm var.shape var.fields vals hsh] at h1
          exact structBody_sound cfg env n σ σ' hty f' (by omega) _ .no tag nm var.shape var.fields vals c B h1 hc h2 hnt h3
      cases htgd : (if var.attr.untagged = true then Derive.Tagged.untagged else Derive.tagged it.attr) with
      | untagged =>
        simp only [htgd] at hs hT htg
        by_cases hul : var.unitLike = true
        · simp only [hul, ↓reduceIte] at hs
          rw [structBody_unitLike cfg env _ var hul] at hT
          simp only [Option.some.injEq] at hs hT
          rw [← hs, ← hT]; simp only [Ts.subst]; exact Member.null
        · have hul' : var.unitLike = false := by simpa using hul
          simp only [hul', Bool.false_eq_true, ↓reduceIte] at hs
          exact hbody none _ j T hs htg hul' hT
      | externally =>
        simp only [htgd] at hs hT htg
        by_cases hul : var.unitLike = true
        · simp only [hul, ↓reduceIte, Option.some.injEq] at hs hT
          rw [← hs, ← hT]; simp only [Ts.subst]; exact Member.lit _
        · have hul' : var.unitLike = false := by simpa using hul
          simp only [hul', Bool.false_eq_true, ↓reduceIte] at hs hT
          cases hcnt : Serde.serStructBody cfg env f' σ (Serde.renameAllS it var) none
              (Serde.variantKey cfg it.attr.renameAll var) var.shape var.fields vals with
          | none => simp [hcnt] at hs
          | some c =>
            cases hB : structBody cfg env (renameAllT it var) .no
                none var.shape var.fields with
            | none => simp [hB] at hT
            | some B =>
              simp only [hcnt, Option.map_some, Option.some.injEq] at hs
              simp only [hB, Option.map_some, Option.some.injEq] at hT
              rw [← hs, ← hT]
              simp only [Ts.subst, Ts.substFields]
              exact single_obj _ _ _ c (hbody none _ c B hcnt htg hul' hB)
      | adjacently t ct =>
        simp only [htgd, Bool.and_eq_true, bne_iff_ne, ne_eq] at hs hT htg
        by_cases hul : var.unitLike = true
        · simp only [hul, ↓reduceIte, Option.some.injEq] at hs hT
          rw [← hs, ← hT]; simp only [Ts.subst, Ts.substFields]; exact single_obj _ t _ _ (Member.lit _)
        · have hul' : var.unitLike = false := by simpa using hul
          simp only [hul', Bool.false_eq_true, ↓reduceIte] at hs hT
          cases hcnt : Serde.serStructBody cfg env f' σ (Serde.renameAllS it var) none
              (Serde.variantKey cfg it.attr.renameAll var) var.shape var.fields vals with
          | none => simp [hcnt] at hs
          | some c =>
            cases hB : structBody cfg env (renameAllT it var) .no
                none var.shape var.fields with
            | none => simp [hB] at hT
            | some B =>
              simp only [hcnt, Option.map_some, Option.some.injEq] at hs
              simp only [hB, Option.map_some, Option.some.injEq] at hT
              rw [← hs, ← hT]
              simp only [Ts.subst, Ts.substFields]
              exact pair_obj _ t ct _ _ _ c htg.1 (Member.lit _) (hbody none _ c B hcnt htg.2 hul' hB)
      | internally t =>
        simp only [htgd, Bool.and_eq_true] at hs hT htg
        by_cases hul : var.unitLike = true
        · simp only [hul, ↓reduceIte, Option.some.injEq] at hs hT
          rw [← hs, ← hT]; simp only [Ts.subst, Ts.substFields]; exact single_obj _ t _ _ (Member.lit _)
        · have hul' : var.unitLike = false := by simpa using hul
          simp only [hul', Bool.false_eq_true, ↓reduceIte] at hs hT
          cases hsh : var.shape with
          | named =>
            simp only [hsh] at hs hT
            have h2 := htg.2
            rw [hsh] at h2
            have := hbody (some t) (Serde.variantKey cfg it.attr.renameAll var) j T (by rw [hsh]; exact hs) (by rw [hsh]; exact h2) hul' (by rw [hsh]; simpa using hT)
            exact this
          | unit =>
            unfold Variant.unitLike at hul'
            simp [hsh] at hul'
          | tuple => simp [hsh] at hT

/-- the declaration of an item is found under its TypeScript name (names are unique) -/
theorem lookup_decl_in (cfg : Cfg) (env : Env) : ∀ (l : List Item) (it : Item) (b : Ts),
    (l.map Derive.tsName).Nodup → it ∈ l → itemBody cfg env it = some b →
    lookupDecl (l.filterMap fun x => (itemBody cfg env x).map fun bb => (Derive.tsName x, x.generics.map (·.name), bb)) (Derive.tsName it)
      = some (it.generics.map (·.name), b)
  | [], _, _, _, h, _ => by cases h
  | x :: xs, it, b, hnd, hmem, hb => by
    simp only [List.map_cons, List.nodup_cons] at hnd
    rcases List.mem_cons.mp hmem with rfl | hmem'
    · simp [List.filterMap_cons, hb, lookupDecl]
    · have hne : Derive.tsName x ≠ Derive.tsName it := by
        intro h
        apply hnd.1
        rw [h]
        exact List.mem_map.mpr ⟨it, hmem', rfl⟩
      have ih := lookup_decl_in cfg env xs it b hnd.2 hmem' hb
      cases hx : itemBody cfg env x with
      | none => simp only [List.filterMap_cons, hx, Option.map_none]; exact ih
      | some bx =>
        simp only [List.filterMap_cons, hx, Option.map_some]
        simp only [lookupDecl, List.find?_cons, hne, decide_false] at ih ⊢
        exact ih

theorem variantsTs_mem (cfg : Cfg) (env : Env) (it : Item) : ∀ (vs : List Variant) (arms : List Ts) (var : Variant),
    variantsTs cfg env it vs = some arms → var ∈ vs → var.attr.skip = false →
    ∃ Tv, variantTs cfg env it var = some Tv ∧ Tv ∈ arms
  | [], _, _, _, h, _ => by cases h
  | v :: vs, arms, var, ha, hmem, hsk => by
    simp only [variantsTs, bind, Option.bind] at ha
    cases hr : variantsTs cfg env it vs with
    | none => simp [hr] at ha
    | some rest =>
      simp only [hr] at ha
      rcases List.mem_cons.mp hmem with rfl | hmem'
      · simp only [hsk, Bool.false_eq_true, ↓reduceIte] at ha
        cases hv : variantTs cfg env it var with
        | none => simp [hv] at ha
        | some Tv =>
          simp only [hv, pure, Option.some.injEq] at ha
          exact ⟨Tv, rfl, by rw [← ha]; simp⟩
      · obtain ⟨Tv, h1, h2⟩ := variantsTs_mem cfg env it vs rest var hr hmem' hsk
        by_cases hvs : v.attr.skip = true
        · simp only [hvs, ↓reduceIte, pure, Option.some.injEq] at ha
          exact ⟨Tv, h1, by rw [← ha]; exact h2⟩
        · simp only [hvs, Bool.false_eq_true, ↓reduceIte] at ha
          cases hv : variantTs cfg env it v with
          | none => simp [hv] at ha
          | some Tv' =>
            simp only [hv, pure, Option.some.injEq] at ha
            exact ⟨Tv, h1, by rw [← ha]; simp [h2]⟩

theorem zip_map_names (gs : List GenericParam) (args : List RTy) :
    (gs.zip args).map (fun (g, a) => (g.name, a)) = (gs.map (·.name)).zip args := by
  induction gs generalizing args with
  | nil => simp
  | cons g gs ih =>
    cases args with
    | nil => simp
    | cons a as => simp [ih]

/-- one more unit of fuel: if every shallower serialization is sound, so is this one -/
theorem item_step (cfg : Cfg) (env : Env) (hF : fragB cfg env = true) (n : Nat) (hS : ∀ m, m < n → Sound cfg env m) :
    Sound cfg env n := by
  intro id args v j it targs hfind hargs hs hc
  simp only [fragB, Bool.and_eq_true, List.all_eq_true, decide_eq_true_eq] at hF
  obtain ⟨⟨⟨hitems, _hnames⟩, htsnames⟩, hbodies⟩ := hF
  have hmem : it ∈ env := List.mem_of_find?_eq_some hfind
  have hok := hitems it hmem
  have hbody := hbodies it hmem
  obtain ⟨body, hb⟩ := Option.isSome_iff_exists.mp hbody
  have hlook : lookupDecl (declsOf cfg env) (Derive.tsName it) = some (it.generics.map (·.name), body) :=
    lookup_decl_in cfg env env it body htsnames hmem hb
  refine Member.ref hlook ?_
  have hty := tySound_of cfg env n hS (it.generics.map (·.name)) args targs hargs
  cases n with
  | zero => simp [Serde.serItem] at hs
  | succ f =>
    simp only [Serde.serItem, hfind, zip_map_names] at hs
    simp only [itemOk, Bool.and_eq_true, List.isEmpty_iff, Option.isNone_iff_eq_none, beq_iff_eq] at hok
    obtain ⟨⟨⟨_, _⟩, _⟩, hrest⟩ := hok
    by_cases hen : it.isEnum = true
    · simp only [hen, ↓reduceIte] at hs hrest
      cases v with
      | variant idx vals =>
        simp only at hs
        cases hvar : it.variants[idx]? with
        | none => simp [hvar] at hs
        | some var =>
          simp only [hvar] at hs
          have hvmem : var ∈ it.variants := List.mem_of_getElem? hvar
          have hvok : variantOk cfg it var = true := by
            simp only [Bool.and_eq_true] at hrest
            have h2 := hrest.2
            rw [List.all_eq_true] at h2; exact h2 var hvmem
          have hnsk : var.attr.skip = false := by
            cases f with
            | zero => simp [Serde.serVariant] at hs
            | succ f' =>
              by_cases h : var.attr.skip = true
              · simp [Serde.serVariant, h] at hs
              · simpa using h
          simp only [itemBody, hen, ↓reduceIte] at hb
          have hne : it.variants.isEmpty = false := by
            cases hv : it.variants with
            | nil => rw [hv] at hvmem; cases hvmem
            | cons _ _ => rfl
          simp only [hne, Bool.false_eq_true, ↓reduceIte, bind, Option.bind] at hb
          cases harms : variantsTs cfg env it it.variants with
          | none => simp [harms] at hb
          | some arms =>
            simp only [harms] at hb
            obtain ⟨Tv, hTv, hin⟩ := variantsTs_mem cfg env it it.variants arms var harms hvmem hnsk
            have hane : arms.isEmpty = false := by
              cases arms with
              | nil => cases hin
              | cons _ _ => rfl
            simp only [hane, Bool.false_eq_true, ↓reduceIte, pure, Option.some.injEq] at hb
            rw [← hb]
            have hcv : cleanVL vals = true := by simpa [cleanV] using hc
            simp only [Ts.subst]
            refine Member.union (t := Ts.subst _ Tv) ?_ (variant_sound cfg env (f + 1) _ _ hty f (by omega) it var vals j Tv hs hcv hvok hTv)
            rw [substList_map]
            exact List.mem_map.mpr ⟨Tv, hin, rfl⟩
      | _ => simp at hs
    · have hen' : it.isEnum = false := by simpa using hen
      simp only [hen', Bool.false_eq_true, ↓reduceIte, Bool.and_eq_true, Bool.not_eq_true'] at hs hrest
      cases v with
      | strukt vals =>
        simp only at hs
        have hcv : cleanVL vals = true := by simpa [cleanV] using hc
        simp only [itemBody, hen', Bool.false_eq_true, ↓reduceIte] at hb
        have hnt : ∀ fld, it.shape = .tuple → it.fields = [fld] → fld.attr.skip = false := by
          intro fld hsh hfl
          have := hrest.2
          simp only [hsh, hfl, beq_self_eq_true, Bool.true_and] at this
          exact this
        exact structBody_sound cfg env (f + 1) _ _ hty f (by omega) it.attr.renameAll it.attr.optionalFields it.attr.tag (Derive.tsName it) it.shape it.fields vals j body hs hcv hrest.1 hnt hb
      | _ => simp at hs

/-- **every serialization of a user type is sound**, at every fuel -/
theorem all_sound (cfg : Cfg) (env : Env) (hF : fragB cfg env = true) : ∀ n m, m < n → Sound cfg env m
  | 0, _, h => by omega
  | n + 1, m, h => by
    by_cases hm : m < n
    · exact all_sound cfg env hF n m hm
    · have : m = n := by omega
      subst this
      exact item_step cfg env hF m (all_sound cfg env hF m)

end TsRs
