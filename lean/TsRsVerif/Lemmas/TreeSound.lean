import TsRsVerif.Model.TreeDerive
import TsRsVerif.Lemmas.BuiltinLemmas
import TsRsVerif.Lemmas.MemberLemmas
import TsRsVerif.Props.C12
/-! End-to-end soundness of the tree-level derive against the serde model, for the core fragment. -/
namespace TsRs
open Text Ts Builtin Tree

mutual
theorem subst_nil : ∀ (t : Ts), Ts.subst [] t = t
  | .number | .bigint | .string | .boolean | .null | .never | .lit _ | .neverArray | .emptyRecord | .raw _ => by simp [Ts.subst]
  | .param n => by simp [Ts.subst, lookupSub]
  | .ref n args => by simp [Ts.subst, substList_nil args]
  | .array t => by simp [Ts.subst, subst_nil t]
  | .tuple ts => by simp [Ts.subst, substList_nil ts]
  | .obj fs => by simp [Ts.subst, substFields_nil fs]
  | .mapped k v => by simp [Ts.subst, subst_nil k, subst_nil v]
  | .union ts => by simp [Ts.subst, substList_nil ts]
  | .inter ts => by simp [Ts.subst, substList_nil ts]
  | .paren t => by simp [Ts.subst, subst_nil t]
theorem substList_nil : ∀ (ts : List Ts), Ts.substList [] ts = ts
  | [] => by simp [Ts.substList]
  | t :: ts => by simp [Ts.substList, subst_nil t, substList_nil ts]
theorem substFields_nil : ∀ (fs : List (TsKey × Ts)), Ts.substFields [] fs = fs
  | [] => by simp [Ts.substFields]
  | (k, t) :: fs => by simp [Ts.substFields, subst_nil t, substFields_nil fs]
end

mutual
theorem rsubst_nil : ∀ (t : RTy), RTy.subst [] t = t
  | .prim _ => by simp [RTy.subst]
  | .param n => by simp [RTy.subst]
  | .option t | .vec t | .slice t | .set t | .range t => by simp [RTy.subst, rsubst_nil t]
  | .arr t n => by simp [RTy.subst, rsubst_nil t]
  | .wrap k t => by simp [RTy.subst, rsubst_nil t]
  | .tuple ts => by simp [RTy.subst, rsubstL_nil ts]
  | .map k v => by simp [RTy.subst, rsubst_nil k, rsubst_nil v]
  | .result a b => by simp [RTy.subst, rsubst_nil a, rsubst_nil b]
  | .named id args => by simp [RTy.subst, rsubstL_nil args]
theorem rsubstL_nil : ∀ (ts : List RTy), RTy.substL [] ts = ts
  | [] => by simp [RTy.substL]
  | t :: ts => by simp [RTy.substL, rsubst_nil t, rsubstL_nil ts]
end


/-- serialization of user types at fuel `m` is sound for the tree-level declarations -/
def Sound (cfg : Cfg) (env : Env) (m : Nat) : Prop :=
  ∀ id args v j it targs, env.find id = some it → Serde.serItem cfg env m id args v = some j → cleanV v = true →
    Member (declsOf cfg env) (.ref (Derive.tsName it) targs) j

theorem namedSound_of (cfg : Cfg) (env : Env) (m : Nat) (h : Sound cfg env m) :
    NamedSound (declsOf cfg env) cfg.limit (nameN env) (fun id args v => Serde.serItem cfg env m id args v) := by
  intro id args targs v j T _ hN hs hc
  unfold nameN at hN
  cases hf : env.find id with
  | none => simp [hf] at hN
  | some it =>
    simp only [hf, Option.map_some, Option.some.injEq] at hN
    subst hN
    exact h id args v j it targs hf hs hc

/-- a value of any type built from library constructors over user types -/
theorem serTy_sound (cfg : Cfg) (env : Env) (n : Nat) (hS : ∀ m, m < n → Sound cfg env m)
    (f : Nat) (hf : f ≤ n) (t : RTy) (v : RVal) (j : JVal) (T : Ts)
    (hs : Serde.serTy cfg env f t v = some j) (hc : cleanV v = true) (hT : tyTs cfg env t = some T) :
    Member (declsOf cfg env) T j := by
  cases f with
  | zero => simp [Serde.serTy] at hs
  | succ f' =>
    simp only [Serde.serTy] at hs
    exact C12_sound_over _ cfg.limit (nameN env) _ (namedSound_of cfg env f' (hS f' (by omega))) t v T j hT hs hc

theorem cleanVL_cons {v : RVal} {vs : List RVal} (h : cleanVL (v :: vs) = true) : cleanV v = true ∧ cleanVL vs = true := by
  simpa [cleanVL] using h

/-- the named fields of a body: the entries serde writes are, one by one, members of the declared properties -/
theorem serNamed_sound (cfg : Cfg) (env : Env) (n : Nat) (hS : ∀ m, m < n → Sound cfg env m) (ra : Option Rule) :
    ∀ (f : Nat), f ≤ n → ∀ (fields : List Field) (vals : List RVal) (kvs : List (Str × JVal)) (fs : List (TsKey × Ts)),
    Serde.serNamed cfg env f [] ra fields vals = some kvs → cleanVL vals = true →
    fields.all (fieldOk cfg ra) = true → fieldsTs cfg env ra fields = some fs →
    ∃ l : List (Str × Ts × JVal), fs = l.map (fun x => (({ name := x.1 } : TsKey), x.2.1)) ∧ kvs = l.map (fun x => (x.1, x.2.2))
      ∧ (∀ x ∈ l, Member (declsOf cfg env) x.2.1 x.2.2) ∧ l.map (·.1) = keysOf cfg ra fields
  | 0, _, _, _, _, _, hs, _, _, _ => by simp [Serde.serNamed] at hs
  | f + 1, hf, [], [], kvs, fs, hs, _, _, hT => by
    simp only [Serde.serNamed, Option.some.injEq] at hs
    simp only [fieldsTs, Option.some.injEq] at hT
    subst hs; subst hT
    exact ⟨[], rfl, rfl, by simp, by simp [keysOf]⟩
  | f + 1, hf, [], _ :: _, kvs, fs, hs, _, _, _ => by simp [Serde.serNamed] at hs
  | f + 1, hf, _ :: _, [], kvs, fs, hs, _, _, _ => by simp [Serde.serNamed] at hs
  | f + 1, hf, fld :: flds, v :: vs, kvs, fs, hs, hc, hok, hT => by
    obtain ⟨hcv, hcvs⟩ := cleanVL_cons hc
    simp only [List.all_cons, Bool.and_eq_true] at hok
    obtain ⟨hfo, hrest⟩ := hok
    simp only [Serde.serNamed, bind, Option.bind] at hs
    cases hr : Serde.serNamed cfg env f [] ra flds vs with
    | none => simp [hr] at hs
    | some rest =>
      simp only [hr] at hs
      simp only [fieldsTs, bind, Option.bind] at hT
      cases hrt : fieldsTs cfg env ra flds with
      | none => simp [hrt] at hT
      | some rfs =>
        simp only [hrt] at hT
        obtain ⟨l, hl1, hl2, hl3, hl4⟩ := serNamed_sound cfg env n hS ra f (by omega) flds vs rest rfs hr hcvs hrest hrt
        simp only [fieldOk, Bool.and_eq_true, Bool.not_eq_true', beq_iff_eq, Option.isNone_iff_eq_none, Bool.or_eq_true] at hfo
        obtain ⟨⟨⟨⟨⟨⟨hinl, hflat⟩, hopt⟩, hta⟩, hto⟩, hssn⟩, hkey⟩ := hfo
        by_cases hskip : fld.attr.skip = true
        · simp only [hskip, ↓reduceIte, pure, Option.some.injEq] at hs hT
          subst hs; subst hT
          refine ⟨l, hl1, hl2, hl3, ?_⟩
          simp [keysOf, hskip] at hl4 ⊢
          exact hl4
        · have hskip' : fld.attr.skip = false := by simpa using hskip
          simp only [hskip', Bool.false_eq_true, ↓reduceIte, hssn, Bool.false_and, rsubst_nil] at hs
          simp only [hskip', Bool.false_eq_true, ↓reduceIte] at hT
          cases hj : Serde.serTy cfg env f fld.ty v with
          | none => simp [hj] at hs
          | some j =>
            cases ht : tyTs cfg env fld.ty with
            | none => simp [ht] at hT
            | some T =>
              simp only [hj, hflat, Bool.false_eq_true, ↓reduceIte, pure, Option.some.injEq] at hs
              simp only [ht, pure, Option.some.injEq] at hT
              have hm := serTy_sound cfg env n hS f (by omega) fld.ty v j T hj hcv ht
              have hk : fieldKey cfg ra fld = Serde.fieldKey cfg ra fld := by
                rcases hkey with h | h
                · rw [hskip'] at h; cases h
                · exact h
              subst hs; subst hT
              refine ⟨(Serde.fieldKey cfg ra fld, T, j) :: l, ?_, ?_, ?_, ?_⟩
              · simp [hl1, hk]
              · simp [hl2]
              · intro x hx
                rcases List.mem_cons.mp hx with rfl | hx'
                · exact hm
                · exact hl3 x hx'
              · simp [keysOf, hskip'] at hl4 ⊢
                exact hl4

end TsRs
