import TsRsVerif.Model.Comment
namespace TsRs
open Text Derive Comment

/-- the text contains an adjacent `*/` -/
def hasClose : Str → Bool
  | '*' :: '/' :: _ => true
  | _ :: r => hasClose r
  | [] => false

theorem hasClose_cons_ne (c : Char) (l : Str) (h : c ≠ '*') : hasClose (c :: l) = hasClose l := by
  conv => lhs; unfold hasClose
  split
  · rename_i heq; simp at heq; exact absurd heq.1 h
  · rename_i heq; simp at heq; obtain ⟨rfl, rfl⟩ := heq; rfl
  · rename_i heq; simp at heq

theorem hasClose_star_cons (c : Char) (l : Str) (h : c ≠ '/') : hasClose ('*' :: c :: l) = hasClose (c :: l) := by
  conv => lhs; unfold hasClose
  split
  · rename_i heq; simp at heq; exact absurd heq.1 h
  · rename_i heq; simp at heq; obtain ⟨rfl, rfl⟩ := heq; rfl
  · rename_i heq; simp at heq

theorem hasClose_star_slash (l : Str) : hasClose ('*' :: '/' :: l) = true := by
  unfold hasClose; rfl

theorem hasClose_star_nil : hasClose ['*'] = false := by decide

theorem escapeClose_head (s : Str) : (escapeClose s).head? = s.head? := by
  unfold escapeClose
  split <;> simp

/-- **the escaped text never contains `*/`** -/
theorem escapeClose_noClose : ∀ (s : Str), hasClose (escapeClose s) = false := by
  intro s
  fun_induction escapeClose s with
  | case1 rest ih =>
    rw [hasClose_star_cons _ _ (by decide), hasClose_cons_ne _ _ (by decide), hasClose_cons_ne _ _ (by decide)]
    exact ih
  | case2 c rest hne ih =>
    by_cases hc : c = '*'
    · subst hc
      cases hr : escapeClose rest with
      | nil => exact hasClose_star_nil
      | cons d ds =>
        have hd : d ≠ '/' := by
          intro hd; subst hd
          have := escapeClose_head rest
          rw [hr] at this
          cases rest with
          | nil => simp at this
          | cons r rs => simp at this; subst this; exact hne rs rfl rfl
        rw [hasClose_star_cons _ _ hd, ← hr]; exact ih
    · rw [hasClose_cons_ne _ _ hc]; exact ih
  | case3 => rfl

/-- text without `*/` is written verbatim -/
theorem escapeClose_id : ∀ (s : Str), hasClose s = false → escapeClose s = s := by
  intro s
  fun_induction escapeClose s with
  | case1 rest ih => intro h; rw [hasClose_star_slash] at h; cases h
  | case2 c rest hne ih =>
    intro h
    have : hasClose rest = false := by
      by_cases hc : c = '*'
      · subst hc
        cases rest with
        | nil => rfl
        | cons d ds =>
          have hd : d ≠ '/' := fun hd => hne ds rfl (by rw [hd])
          rw [hasClose_star_cons _ _ hd] at h; exact h
      · rw [hasClose_cons_ne _ _ hc] at h; exact h
    rw [ih this]
  | case3 => intro _; rfl

/-- escaping only inserts characters: the text is a subsequence of what is written -/
theorem escapeClose_sublist : ∀ (s : Str), List.Sublist s (escapeClose s) := by
  intro s
  fun_induction escapeClose s with
  | case1 rest ih => exact List.Sublist.cons₂ _ (List.Sublist.cons _ (List.Sublist.cons₂ _ ih))
  | case2 c rest _ ih => exact List.Sublist.cons₂ _ ih
  | case3 => exact List.Sublist.slnil

/-- inside a block comment, text without `*/` followed by `*/` is skipped entirely -/
theorem run_block_skip (rest : Str) : ∀ (l : Str),
    (hasClose l = false → run .block (l ++ '*' :: '/' :: rest) = run .code rest) ∧
    (hasClose ('*' :: l) = false → run .blockStar (l ++ '*' :: '/' :: rest) = run .code rest)
  | [] => by
    constructor <;> intro _ <;> simp [run, step]
  | c :: l => by
    have ih := run_block_skip rest l
    constructor
    · intro h
      by_cases hc : c = '*'
      · subst hc
        have := ih.2 h
        simp [run, step, this]
      · rw [hasClose_cons_ne _ _ hc] at h
        have := ih.1 h
        simp [run, step, hc, this]
    · intro h
      have hslash : c ≠ '/' := by
        intro hs; subst hs; rw [hasClose_star_slash] at h; cases h
      rw [hasClose_star_cons _ _ hslash] at h
      by_cases hc : c = '*'
      · subst hc
        have := ih.2 h
        simp [run, step, this]
      · rw [hasClose_cons_ne _ _ hc] at h
        have := ih.1 h
        simp [run, step, hc, hslash, this]

theorem run_append (st : St) (a b : Str) :
    run st (a ++ b) = ((run st a).1 ++ (run (run st a).2 b).1, (run (run st a).2 b).2) := by
  induction a generalizing st with
  | nil => simp [run]
  | cons c a ih =>
    simp only [List.cons_append, run]
    rw [ih]
    simp [List.append_assoc]

/-- the first `*/` after text without `*/` is the one that follows it -/
theorem splitClose_noClose (rest : Str) : ∀ (l : Str), hasClose l = false →
    splitClose (l ++ '*' :: '/' :: rest) = some (l, rest)
  | [], _ => by simp [splitClose]
  | c :: l, h => by
    have hl : hasClose l = false ∧ ¬ (c = '*' ∧ ∃ t, l = '/' :: t) := by
      by_cases hc : c = '*'
      · subst hc
        cases l with
        | nil => exact ⟨rfl, by simp⟩
        | cons d ds =>
          have hd : d ≠ '/' := by intro hd; subst hd; rw [hasClose_star_slash] at h; cases h
          rw [hasClose_star_cons _ _ hd] at h
          exact ⟨h, by simp [hd]⟩
      · rw [hasClose_cons_ne _ _ hc] at h; exact ⟨h, by simp [hc]⟩
    have ih := splitClose_noClose rest l hl.1
    rw [List.cons_append]
    unfold splitClose
    split
    · rename_i heq
      simp only [List.cons.injEq] at heq
      obtain ⟨rfl, heq2⟩ := heq
      cases l with
      | nil => simp at heq2
      | cons d ds =>
        simp only [List.cons_append, List.cons.injEq] at heq2
        exact absurd ⟨rfl, ds, by rw [heq2.1]⟩ hl.2
    · rename_i heq
      simp only [List.cons.injEq] at heq
      obtain ⟨rfl, rfl⟩ := heq
      rw [ih]; rfl
    · rename_i heq; simp at heq

end TsRs
