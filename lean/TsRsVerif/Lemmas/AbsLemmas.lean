import TsRsVerif.Model.Path
import TsRsVerif.Lemmas.PathLemmas
/-! `path::absolute` returns an absolute, normalised path and is idempotent. -/
namespace TsRs.Path
open TsRs.Text

/-- a name as `Path::components` yields it -/
def CompName (n : Str) : Prop := n ≠ [] ∧ '/' ∉ n ∧ n ≠ ['.'] ∧ n ≠ ['.', '.']

theorem splitChar_no_sep (d : Char) (s : Str) : ∀ p ∈ splitChar d s, d ∉ p := by
  induction s with
  | nil => intro p hp; simp [splitChar] at hp; subst hp; simp
  | cons c cs ih =>
    intro p hp
    simp only [splitChar] at hp
    split at hp
    · simp at hp
      rcases hp with h | h
      · subst h; simp
      · exact ih p h
    · rename_i hcd
      cases hsc : splitChar d cs with
      | nil => simp [hsc] at hp; subst hp; simp; exact fun e => hcd e.symm
      | cons q qs =>
        simp only [hsc] at hp
        simp at hp
        rcases hp with h | h
        · subst h
          have := ih q (by simp [hsc])
          simp; exact ⟨fun e => hcd e.symm, this⟩
        · exact ih p (by simp [hsc, h])

/-- elements of `pieceComps false ps`: `..` or a proper name taken from `ps` -/
theorem pieceComps_false_mem (ps : List Str) : ∀ c ∈ pieceComps false ps,
    c = Comp.parent ∨ ∃ n, c = Comp.normal n ∧ n ∈ ps ∧ n ≠ [] ∧ n ≠ ['.'] ∧ n ≠ ['.', '.'] := by
  induction ps with
  | nil => intro c hc; simp [pieceComps] at hc
  | cons p ps ih =>
    intro c hc
    simp only [pieceComps] at hc
    split at hc
    · rcases ih c hc with h | ⟨n, h1, h2, h3⟩
      · exact Or.inl h
      · exact Or.inr ⟨n, h1, by simp [h2], h3⟩
    · split at hc
      · simp at hc
        rcases ih c hc with h | ⟨n, h1, h2, h3⟩
        · exact Or.inl h
        · exact Or.inr ⟨n, h1, by simp [h2], h3⟩
      · split at hc
        · simp at hc
          rcases hc with h | h
          · exact Or.inl h
          · rcases ih c h with h' | ⟨n, h1, h2, h3⟩
            · exact Or.inl h'
            · exact Or.inr ⟨n, h1, by simp [h2], h3⟩
        · rename_i h0 h1 h2
          simp at hc
          rcases hc with h | h
          · exact Or.inr ⟨p, h, by simp, h0, h1, h2⟩
          · rcases ih c h with h' | ⟨n, h1', h2', h3'⟩
            · exact Or.inl h'
            · exact Or.inr ⟨n, h1', by simp [h2'], h3'⟩

/-- the stack of `absolute`'s loop: the root followed by proper names -/
def Shape (out : List Comp) : Prop := ∃ ns, out = Comp.root :: N ns ∧ ∀ n ∈ ns, CompName n

theorem normLoop_shape (cs : List Comp) : ∀ (out out' : List Comp), Shape out →
    (∀ c ∈ cs, c = Comp.parent ∨ ∃ n, c = Comp.normal n ∧ CompName n) →
    normLoop out cs = some out' → Shape out' := by
  induction cs with
  | nil => intro out out' hs _ h; simp [normLoop] at h; subst h; exact hs
  | cons c cs ih =>
    intro out out' hs hcs h
    have hcs' : ∀ c' ∈ cs, c' = Comp.parent ∨ ∃ n, c' = Comp.normal n ∧ CompName n :=
      fun c' hc' => hcs c' (by simp [hc'])
    rcases hcs c (by simp) with hc | ⟨n, hc, hn⟩
    · subst hc
      obtain ⟨ns, hout, hok⟩ := hs
      simp only [normLoop] at h
      rcases List.eq_nil_or_concat ns with hns | ⟨ns', x, hns⟩
      · subst hns; subst hout; simp [N] at h
      · subst hns; subst hout
        have hrev : (Comp.root :: N (ns'.concat x)).reverse = Comp.normal x :: (Comp.root :: N ns').reverse := by
          simp [N]
        rw [hrev] at h
        simp only [List.reverse_reverse] at h
        exact ih _ _ ⟨ns', rfl, fun n hn => hok n (by simp [hn])⟩ hcs' h
    · subst hc
      obtain ⟨ns, hout, hok⟩ := hs
      simp only [normLoop] at h
      refine ih _ _ ⟨ns ++ [n], ?_, ?_⟩ hcs' h
      · subst hout; simp [N]
      · intro m hm; simp at hm; rcases hm with hm | hm
        · exact hok m hm
        · subst hm; exact hn

theorem components_abs (s : Str) (h : isAbsolute s = true) :
    ∃ cs, components s = Comp.root :: cs ∧
      ∀ c ∈ cs, c = Comp.parent ∨ ∃ n, c = Comp.normal n ∧ CompName n := by
  cases s with
  | nil => simp [isAbsolute] at h
  | cons c rest =>
    have hc : c = '/' := by simpa [isAbsolute] using h
    subst hc
    refine ⟨pieceComps false (splitChar '/' rest), rfl, ?_⟩
    intro c hc
    rcases pieceComps_false_mem _ c hc with h1 | ⟨n, h1, h2, h3, h4, h5⟩
    · exact Or.inl h1
    · exact Or.inr ⟨n, h1, h3, splitChar_no_sep '/' rest n h2, h4, h5⟩

theorem join_abs (cwd p : Str) (h : isAbsolute cwd = true) : isAbsolute (join cwd p) = true := by
  unfold join push
  by_cases hp : isAbsolute p = true
  · simp only [hp, if_true]
  · simp only [hp]
    cases cwd with
    | nil => simp [isAbsolute] at h
    | cons c cs =>
      have hc : c = '/' := by simpa [isAbsolute] using h
      subst hc
      simp only [Bool.false_eq_true, if_false]
      by_cases hl : ('/' :: cs).getLast? = some '/'
      · simp [hl, isAbsolute]
      · simp [hl, isAbsolute]

/-- **`absolute` yields `/` followed by proper names** when the current directory is absolute -/
theorem absolute_shape (cwd p q : Str) (hcwd : isAbsolute cwd = true) (h : absolute cwd p = .ok q) :
    ∃ ns, q = ofComps (Comp.root :: N ns) ∧ ∀ n ∈ ns, CompName n := by
  unfold absolute at h
  obtain ⟨cs, hcs, hok⟩ := components_abs (join cwd p) (join_abs cwd p hcwd)
  rw [hcs] at h
  have h1 : normLoop [] (Comp.root :: cs) = normLoop [Comp.root] cs := by simp [normLoop]
  rw [h1] at h
  cases hn : normLoop [Comp.root] cs with
  | none => simp [hn] at h
  | some out =>
    obtain ⟨ns, hout, hns⟩ := normLoop_shape cs [Comp.root] out ⟨[], rfl, by simp⟩ hok hn
    subst hout
    simp only [hn] at h
    injection h with h
    exact ⟨ns, h.symm, hns⟩

theorem pieceComps_names (ns : List Str) (h : ∀ n ∈ ns, CompName n) : pieceComps false ns = N ns := by
  induction ns with
  | nil => rfl
  | cons n ns ih =>
    have hn := h n (by simp)
    simp [pieceComps, hn.1, hn.2.2.1, hn.2.2.2, N, ih (fun m hm => h m (by simp [hm]))]

theorem components_ofComps (ns : List Str) (h : ∀ n ∈ ns, CompName n) :
    components (ofComps (Comp.root :: N ns)) = Comp.root :: N ns := by
  have hmap : (N ns).map compStr = ns := by simp [N, compStr, Function.comp_def]
  simp only [ofComps, hmap, components]
  cases ns with
  | nil => simp [intercalate, splitChar, pieceComps, N]
  | cons a as =>
    rw [splitChar_intercalate '/' (a :: as) (by simp) (fun p hp => (h p hp).2.1)]
    rw [pieceComps_names _ h]

theorem normLoop_normals (ns : List Str) (out : List Comp) : normLoop out (N ns) = some (out ++ N ns) := by
  induction ns generalizing out with
  | nil => simp [normLoop, N]
  | cons n ns ih => simp only [N, List.map_cons, normLoop]; rw [show List.map Comp.normal ns = N ns from rfl, ih]; simp [N]

/-- **`absolute` is idempotent** (so the registry key does not depend on how often, or through
    which entry point, a path has been normalised) -/
theorem absolute_idem (cwd p q : Str) (hcwd : isAbsolute cwd = true) (h : absolute cwd p = .ok q) :
    absolute cwd q = .ok q := by
  obtain ⟨ns, hq, hns⟩ := absolute_shape cwd p q hcwd h
  have hqa : isAbsolute q = true := by subst hq; simp [ofComps, isAbsolute]
  have hj : join cwd q = q := by simp [join, push, hqa]
  unfold absolute
  rw [hj, hq, components_ofComps ns hns]
  have : normLoop [] (Comp.root :: N ns) = some (Comp.root :: N ns) := by
    simp only [normLoop]; rw [normLoop_normals]; simp
  rw [this]

end TsRs.Path
