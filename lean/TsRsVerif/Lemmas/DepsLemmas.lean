import TsRsVerif.Lemmas.UsedNames
import TsRsVerif.Lemmas.TreeSound
/-! The dependency list the derive records, deduplicated, visits the same names as the list itself. -/
namespace TsRs
open Text Ts Builtin Derive Tree

mutual
theorem RTy.beq_eq : ∀ (a b : RTy), RTy.beq a b = true → a = b
  | .prim a, .prim b, h => by simp [RTy.beq] at h; rw [h]
  | .param a, .param b, h => by simp [RTy.beq] at h; rw [h]
  | .option a, .option b, h => by simp only [RTy.beq] at h; rw [RTy.beq_eq a b h]
  | .vec a, .vec b, h => by simp only [RTy.beq] at h; rw [RTy.beq_eq a b h]
  | .slice a, .slice b, h => by simp only [RTy.beq] at h; rw [RTy.beq_eq a b h]
  | .set a, .set b, h => by simp only [RTy.beq] at h; rw [RTy.beq_eq a b h]
  | .range a, .range b, h => by simp only [RTy.beq] at h; rw [RTy.beq_eq a b h]
  | .arr a n, .arr b m, h => by
    simp only [RTy.beq, Bool.and_eq_true, beq_iff_eq] at h
    rw [h.1, RTy.beq_eq a b h.2]
  | .tuple a, .tuple b, h => by simp only [RTy.beq] at h; rw [RTy.beqL_eq a b h]
  | .map a b, .map c d, h => by
    simp only [RTy.beq, Bool.and_eq_true] at h
    rw [RTy.beq_eq a c h.1, RTy.beq_eq b d h.2]
  | .result a b, .result c d, h => by
    simp only [RTy.beq, Bool.and_eq_true] at h
    rw [RTy.beq_eq a c h.1, RTy.beq_eq b d h.2]
  | .wrap k a, .wrap k' b, h => by
    simp only [RTy.beq, Bool.and_eq_true, beq_iff_eq] at h
    rw [h.1, RTy.beq_eq a b h.2]
  | .named i a, .named j b, h => by
    simp only [RTy.beq, Bool.and_eq_true, beq_iff_eq] at h
    rw [h.1, RTy.beqL_eq a b h.2]
  | .prim _, .option _, h => by simp [RTy.beq] at h
  | .prim _, .vec _, h => by simp [RTy.beq] at h
  | .prim _, .slice _, h => by simp [RTy.beq] at h
  | .prim _, .set _, h => by simp [RTy.beq] at h
  | .prim _, .arr _ _, h => by simp [RTy.beq] at h
  | .prim _, .tuple _, h => by simp [RTy.beq] at h
  | .prim _, .map _ _, h => by simp [RTy.beq] at h
  | .prim _, .result _ _, h => by simp [RTy.beq] at h
  | .prim _, .range _, h => by simp [RTy.beq] at h
  | .prim _, .wrap _ _, h => by simp [RTy.beq] at h
  | .prim _, .named _ _, h => by simp [RTy.beq] at h
  | .prim _, .param _, h => by simp [RTy.beq] at h
  | .option _, .prim _, h => by simp [RTy.beq] at h
  | .option _, .vec _, h => by simp [RTy.beq] at h
  | .option _, .slice _, h => by simp [RTy.beq] at h
  | .option _, .set _, h => by simp [RTy.beq] at h
  | .option _, .arr _ _, h => by simp [RTy.beq] at h
  | .option _, .tuple _, h => by simp [RTy.beq] at h
  | .option _, .map _ _, h => by simp [RTy.beq] at h
  | .option _, .result _ _, h => by simp [RTy.beq] at h
  | .option _, .range _, h => by simp [RTy.beq] at h
  | .option _, .wrap _ _, h => by simp [RTy.beq] at h
  | .option _, .named _ _, h => by simp [RTy.beq] at h
  | .option _, .param _, h => by simp [RTy.beq] at h
  | .vec _, .prim _, h => by simp [RTy.beq] at h
  | .vec _, .option _, h => by simp [RTy.beq] at h
  | .vec _, .slice _, h => by simp [RTy.beq] at h
  | .vec _, .set _, h => by simp [RTy.beq] at h
  | .vec _, .arr _ _, h => by simp [RTy.beq] at h
  | .vec _, .tuple _, h => by simp [RTy.beq] at h
  | .vec _, .map _ _, h => by simp [RTy.beq] at h
  | .vec _, .result _ _, h => by simp [RTy.beq] at h
  | .vec _, .range _, h => by simp [RTy.beq] at h
  | .vec _, .wrap _ _, h => by simp [RTy.beq] at h
  | .vec _, .named _ _, h => by simp [RTy.beq] at h
  | .vec _, .param _, h => by simp [RTy.beq] at h
  | .slice _, .prim _, h => by simp [RTy.beq] at h
  | .slice _, .option _, h => by simp [RTy.beq] at h
  | .slice _, .vec _, h => by simp [RTy.beq] at h
  | .slice _, .set _, h => by simp [RTy.beq] at h
  | .slice _, .arr _ _, h => by simp [RTy.beq] at h
  | .slice _, .tuple _, h => by simp [RTy.beq] at h
  | .slice _, .map _ _, h => by simp [RTy.beq] at h
  | .slice _, .result _ _, h => by simp [RTy.beq] at h
  | .slice _, .range _, h => by simp [RTy.beq] at h
  | .slice _, .wrap _ _, h => by simp [RTy.beq] at h
  | .slice _, .named _ _, h => by simp [RTy.beq] at h
  | .slice _, .param _, h => by simp [RTy.beq] at h
  | .set _, .prim _, h => by simp [RTy.beq] at h
  | .set _, .option _, h => by simp [RTy.beq] at h
  | .set _, .vec _, h => by simp [RTy.beq] at h
  | .set _, .slice _, h => by simp [RTy.beq] at h
  | .set _, .arr _ _, h => by simp [RTy.beq] at h
  | .set _, .tuple _, h => by simp [RTy.beq] at h
  | .set _, .map _ _, h => by simp [RTy.beq] at h
  | .set _, .result _ _, h => by simp [RTy.beq] at h
  | .set _, .range _, h => by simp [RTy.beq] at h
  | .set _, .wrap _ _, h => by simp [RTy.beq] at h
  | .set _, .named _ _, h => by simp [RTy.beq] at h
  | .set _, .param _, h => by simp [RTy.beq] at h
  | .arr _ _, .prim _, h => by simp [RTy.beq] at h
  | .arr _ _, .option _, h => by simp [RTy.beq] at h
  | .arr _ _, .vec _, h => by simp [RTy.beq] at h
  | .arr _ _, .slice _, h => by simp [RTy.beq] at h
  | .arr _ _, .set _, h => by simp [RTy.beq] at h
  | .arr _ _, .tuple _, h => by simp [RTy.beq] at h
  | .arr _ _, .map _ _, h => by simp [RTy.beq] at h
  | .arr _ _, .result _ _, h => by simp [RTy.beq] at h
  | .arr _ _, .range _, h => by simp [RTy.beq] at h
  | .arr _ _, .wrap _ _, h => by simp [RTy.beq] at h
  | .arr _ _, .named _ _, h => by simp [RTy.beq] at h
  | .arr _ _, .param _, h => by simp [RTy.beq] at h
  | .tuple _, .prim _, h => by simp [RTy.beq] at h
  | .tuple _, .option _, h => by simp [RTy.beq] at h
  | .tuple _, .vec _, h => by simp [RTy.beq] at h
  | .tuple _, .slice _, h => by simp [RTy.beq] at h
  | .tuple _, .set _, h => by simp [RTy.beq] at h
  | .tuple _, .arr _ _, h => by simp [RTy.beq] at h
  | .tuple _, .map _ _, h => by simp [RTy.beq] at h
  | .tuple _, .result _ _, h => by simp [RTy.beq] at h
  | .tuple _, .range _, h => by simp [RTy.beq] at h
  | .tuple _, .wrap _ _, h => by simp [RTy.beq] at h
  | .tuple _, .named _ _, h => by simp [RTy.beq] at h
  | .tuple _, .param _, h => by simp [RTy.beq] at h
  | .map _ _, .prim _, h => by simp [RTy.beq] at h
  | .map _ _, .option _, h => by simp [RTy.beq] at h
  | .map _ _, .vec _, h => by simp [RTy.beq] at h
  | .map _ _, .slice _, h => by simp [RTy.beq] at h
  | .map _ _, .set _, h => by simp [RTy.beq] at h
  | .map _ _, .arr _ _, h => by simp [RTy.beq] at h
  | .map _ _, .tuple _, h => by simp [RTy.beq] at h
  | .map _ _, .result _ _, h => by simp [RTy.beq] at h
  | .map _ _, .range _, h => by simp [RTy.beq] at h
  | .map _ _, .wrap _ _, h => by simp [RTy.beq] at h
  | .map _ _, .named _ _, h => by simp [RTy.beq] at h
  | .map _ _, .param _, h => by simp [RTy.beq] at h
  | .result _ _, .prim _, h => by simp [RTy.beq] at h
  | .result _ _, .option _, h => by simp [RTy.beq] at h
  | .result _ _, .vec _, h => by simp [RTy.beq] at h
  | .result _ _, .slice _, h => by simp [RTy.beq] at h
  | .result _ _, .set _, h => by simp [RTy.beq] at h
  | .result _ _, .arr _ _, h => by simp [RTy.beq] at h
  | .result _ _, .tuple _, h => by simp [RTy.beq] at h
  | .result _ _, .map _ _, h => by simp [RTy.beq] at h
  | .result _ _, .range _, h => by simp [RTy.beq] at h
  | .result _ _, .wrap _ _, h => by simp [RTy.beq] at h
  | .result _ _, .named _ _, h => by simp [RTy.beq] at h
  | .result _ _, .param _, h => by simp [RTy.beq] at h
  | .range _, .prim _, h => by simp [RTy.beq] at h
  | .range _, .option _, h => by simp [RTy.beq] at h
  | .range _, .vec _, h => by simp [RTy.beq] at h
  | .range _, .slice _, h => by simp [RTy.beq] at h
  | .range _, .set _, h => by simp [RTy.beq] at h
  | .range _, .arr _ _, h => by simp [RTy.beq] at h
  | .range _, .tuple _, h => by simp [RTy.beq] at h
  | .range _, .map _ _, h => by simp [RTy.beq] at h
  | .range _, .result _ _, h => by simp [RTy.beq] at h
  | .range _, .wrap _ _, h => by simp [RTy.beq] at h
  | .range _, .named _ _, h => by simp [RTy.beq] at h
  | .range _, .param _, h => by simp [RTy.beq] at h
  | .wrap _ _, .prim _, h => by simp [RTy.beq] at h
  | .wrap _ _, .option _, h => by simp [RTy.beq] at h
  | .wrap _ _, .vec _, h => by simp [RTy.beq] at h
  | .wrap _ _, .slice _, h => by simp [RTy.beq] at h
  | .wrap _ _, .set _, h => by simp [RTy.beq] at h
  | .wrap _ _, .arr _ _, h => by simp [RTy.beq] at h
  | .wrap _ _, .tuple _, h => by simp [RTy.beq] at h
  | .wrap _ _, .map _ _, h => by simp [RTy.beq] at h
  | .wrap _ _, .result _ _, h => by simp [RTy.beq] at h
  | .wrap _ _, .range _, h => by simp [RTy.beq] at h
  | .wrap _ _, .named _ _, h => by simp [RTy.beq] at h
  | .wrap _ _, .param _, h => by simp [RTy.beq] at h
  | .named _ _, .prim _, h => by simp [RTy.beq] at h
  | .named _ _, .option _, h => by simp [RTy.beq] at h
  | .named _ _, .vec _, h => by simp [RTy.beq] at h
  | .named _ _, .slice _, h => by simp [RTy.beq] at h
  | .named _ _, .set _, h => by simp [RTy.beq] at h
  | .named _ _, .arr _ _, h => by simp [RTy.beq] at h
  | .named _ _, .tuple _, h => by simp [RTy.beq] at h
  | .named _ _, .map _ _, h => by simp [RTy.beq] at h
  | .named _ _, .result _ _, h => by simp [RTy.beq] at h
  | .named _ _, .range _, h => by simp [RTy.beq] at h
  | .named _ _, .wrap _ _, h => by simp [RTy.beq] at h
  | .named _ _, .param _, h => by simp [RTy.beq] at h
  | .param _, .prim _, h => by simp [RTy.beq] at h
  | .param _, .option _, h => by simp [RTy.beq] at h
  | .param _, .vec _, h => by simp [RTy.beq] at h
  | .param _, .slice _, h => by simp [RTy.beq] at h
  | .param _, .set _, h => by simp [RTy.beq] at h
  | .param _, .arr _ _, h => by simp [RTy.beq] at h
  | .param _, .tuple _, h => by simp [RTy.beq] at h
  | .param _, .map _ _, h => by simp [RTy.beq] at h
  | .param _, .result _ _, h => by simp [RTy.beq] at h
  | .param _, .range _, h => by simp [RTy.beq] at h
  | .param _, .wrap _ _, h => by simp [RTy.beq] at h
  | .param _, .named _ _, h => by simp [RTy.beq] at h
theorem RTy.beqL_eq : ∀ (a b : List RTy), RTy.beqL a b = true → a = b
  | [], [], _ => rfl
  | x :: xs, y :: ys, h => by
    simp only [RTy.beqL, Bool.and_eq_true] at h
    rw [RTy.beq_eq x y h.1, RTy.beqL_eq xs ys h.2]
  | [], _ :: _, h => by simp [RTy.beqL] at h
  | _ :: _, [], h => by simp [RTy.beqL] at h
end

theorem Dep.beq_eq (d e : Dep) (h : Dep.beq d e = true) : d = e := by
  cases d <;> cases e <;> simp [Dep.beq] at h
  all_goals
    rename_i a b
    obtain ⟨h1, h2⟩ := h
    have := RTy.beq_eq _ _ h2
    cases a; cases b
    simp_all

theorem mem_dedupDeps : ∀ (l : List Dep) (e : Dep), e ∈ dedupDeps l ↔ e ∈ l
  | [], e => by simp [dedupDeps]
  | d :: ds, e => by
    have ih := mem_dedupDeps ds e
    simp only [dedupDeps, List.mem_cons, List.mem_filter, Bool.not_eq_true']
    constructor
    · rintro (h | ⟨h, _⟩)
      · exact Or.inl h
      · exact Or.inr (ih.mp h)
    · rintro (h | h)
      · exact Or.inl h
      · by_cases hb : Dep.beq d e = true
        · exact Or.inl (Dep.beq_eq d e hb).symm
        · exact Or.inr ⟨ih.mpr h, by simpa using hb⟩

/-- what `visit_dependencies` does with one recorded dependency -/
def visitDep (env : Env) (f : Nat) (σ : List (Str × RTy)) : Dep → List Visited
  | .type t => visitOne env f (resolveInner σ t)
  | .generics t => visitGenerics env f (resolveInner σ t)
  | .transitive t => visitDeps env f (resolveInner σ t)

theorem visitDeps_named (env : Env) (f : Nat) (id : Str) (args : List RTy) (it : Item) (h : env.find id = some it) :
    visitDeps env (f + 1) (.named id args) = (dedupDeps (itemDeps it)).flatMap (visitDep env f (bindArgs it args)) := by
  rw [visitDeps]
  simp only [h]
  congr 1

theorem mem_idents_flatMap {α : Type} (l : List α) (g : α → List Visited) (n : Str) :
    n ∈ idents (l.flatMap g) ↔ ∃ x ∈ l, n ∈ idents (g x) := by
  simp only [idents, List.mem_map, List.mem_flatMap]
  constructor
  · rintro ⟨v, ⟨x, hx, hv⟩, rfl⟩; exact ⟨x, hx, v, hv, rfl⟩
  · rintro ⟨x, hx, v, hv, rfl⟩; exact ⟨v, ⟨x, hx, hv⟩, rfl⟩

/-- deduplication does not change what is visited -/
theorem idents_dedup (env : Env) (f : Nat) (σ : List (Str × RTy)) (l : List Dep) (n : Str) :
    n ∈ idents ((dedupDeps l).flatMap (visitDep env f σ)) ↔ n ∈ idents (l.flatMap (visitDep env f σ)) := by
  rw [mem_idents_flatMap, mem_idents_flatMap]
  constructor
  · rintro ⟨x, hx, h⟩; exact ⟨x, (mem_dedupDeps l x).mp hx, h⟩
  · rintro ⟨x, hx, h⟩; exact ⟨x, (mem_dedupDeps l x).mpr hx, h⟩

theorem fieldDepTy_inner (of : Opt) (fld : Field) : (fieldDepTy of fld).inner = !(optMode of fld).2 := by
  unfold fieldDepTy optMode
  cases of <;> cases fld.attr.optional <;> rfl

theorem tyWF_optionInner (env : Env) (t : RTy) (h : tyWF env t = true) : tyWF env (optionInner t) = true := by
  cases t <;> simp_all [optionInner, tyWF]

theorem depthR_optionInner (t : RTy) : depthR (optionInner t) ≤ depthR t := by
  cases t <;> simp [optionInner, depthR]

/-- the dependencies one (non-skipped, plain) field records visit exactly the names its printed type mentions -/
theorem field_visit (cfg : Cfg) (env : Env) (f : Nat) (of : Opt) (fld : Field) (T : Ts)
    (hta : fld.attr.typeAs = none) (hw : tyWF env fld.ty = true) (hd : depthR fld.ty < f)
    (hT : tyTs cfg env (if (optMode of fld).2 then fld.ty else optionInner fld.ty) = some T) (n : Str) :
    n ∈ idents ((push (fieldDepTy of fld)).flatMap (visitDep env f [])) ↔ n ∈ refNames T := by
  have hty : (fieldDepTy of fld).ty = fld.ty := by simp [fieldDepTy, effTy, hta]
  have hres : resolveInner [] (fieldDepTy of fld) = (if (optMode of fld).2 then fld.ty else optionInner fld.ty) := by
    simp only [resolveInner, hty, rsubst_nil, fieldDepTy_inner]
    cases (optMode of fld).2 <;> simp
  simp only [push, List.flatMap_cons, List.flatMap_nil, List.append_nil, visitDep, hres]
  have hw' : tyWF env (if (optMode of fld).2 then fld.ty else optionInner fld.ty) = true := by
    split
    · exact hw
    · exact tyWF_optionInner env _ hw
  have hd' : depthR (if (optMode of fld).2 then fld.ty else optionInner fld.ty) < f := by
    split
    · exact hd
    · exact Nat.lt_of_le_of_lt (depthR_optionInner _) hd
  exact visit_refs cfg env _ T f hw' hd' hT n

/-- the plain fields of the fragment -/
def PlainField (env : Env) (f : Nat) (fld : Field) : Prop :=
  fld.attr.typeAs = none ∧ fld.attr.typeOverride = none ∧ fld.attr.flatten = false ∧ fld.attr.inline = false ∧
  (fld.attr.skip = false → tyWF env fld.ty = true ∧ depthR fld.ty < f)

def namedDeps (of : Opt) (fields : List Field) : List Dep :=
  fields.flatMap fun fld =>
    if fld.attr.skip || fld.attr.typeOverride.isSome then []
    else
      let t := fieldDepTy of fld
      if fld.attr.flatten || fld.attr.inline then [.transitive t] else push t

theorem idents_flatMap_append (env : Env) (f : Nat) (σ : List (Str × RTy)) (a b : List Dep) (n : Str) :
    n ∈ idents ((a ++ b).flatMap (visitDep env f σ)) ↔ n ∈ idents (a.flatMap (visitDep env f σ)) ∨ n ∈ idents (b.flatMap (visitDep env f σ)) := by
  simp [idents, List.flatMap_append]

/-- **named fields**: the recorded dependencies visit exactly the names the printed properties mention -/
theorem namedFields_visit (cfg : Cfg) (env : Env) (f : Nat) (ra : Option Rule) (of : Opt) :
    ∀ (fields : List Field) (fs : List (TsKey × Ts)), (∀ fld ∈ fields, PlainField env f fld) →
    fieldsTs cfg env ra of fields = some fs →
    ∀ n, n ∈ idents ((namedDeps of fields).flatMap (visitDep env f [])) ↔ n ∈ refNamesF fs
  | [], fs, _, hT, n => by
    simp only [fieldsTs, Option.some.injEq] at hT
    subst hT
    simp [namedDeps, idents, refNamesF]
  | fld :: rest, fs, hp, hT, n => by
    simp only [fieldsTs, bind, Option.bind] at hT
    cases hr : fieldsTs cfg env ra of rest with
    | none => simp [hr] at hT
    | some rfs =>
      simp only [hr] at hT
      have ih := namedFields_visit cfg env f ra of rest rfs (fun x hx => hp x (by simp [hx])) hr n
      obtain ⟨hta, hto, hfl, hin, hty⟩ := hp fld (by simp)
      have hsplit : namedDeps of (fld :: rest) =
          (if fld.attr.skip || fld.attr.typeOverride.isSome then [] else push (fieldDepTy of fld)) ++ namedDeps of rest := by
        simp [namedDeps, List.flatMap_cons, hfl, hin]
      rw [hsplit, idents_flatMap_append, ih]
      by_cases hskip : fld.attr.skip = true
      · simp only [hskip, ↓reduceIte, pure, Option.some.injEq] at hT
        subst hT
        simp [hskip, idents]
      · have hskip' : fld.attr.skip = false := by simpa using hskip
        simp only [hskip', Bool.false_eq_true, ↓reduceIte] at hT
        cases ht : tyTs cfg env (if (optMode of fld).2 = true then fld.ty else optionInner fld.ty) with
        | none => simp [ht] at hT
        | some T =>
          simp only [ht, pure, Option.some.injEq] at hT
          subst hT
          have hf := field_visit cfg env f of fld T hta (hty hskip').1 (hty hskip').2 ht n
          simp only [hskip', hto, Option.isSome_none, Bool.or_self, Bool.false_eq_true, ↓reduceIte, refNamesF, List.mem_append]
          rw [hf]

theorem refNamesF_append : ∀ (a b : List (TsKey × Ts)), refNamesF (a ++ b) = refNamesF a ++ refNamesF b
  | [], b => by simp [refNamesF]
  | (k, t) :: a, b => by simp [refNamesF, refNamesF_append a b, List.append_assoc]

/-- **a struct with named fields (monomorphic, fragment)**: `dependencies()` = the names its declaration mentions -/
theorem struct_named_visit (cfg : Cfg) (env : Env) (it : Item) (f : Nat) (body : Ts)
    (hfind : env.find it.name = some it) (hs : it.isEnum = false) (hg : it.generics = []) (hsh : it.shape = .named)
    (hta : it.attr.typeAs = none) (hto : it.attr.typeOverride = none)
    (hp : ∀ fld ∈ it.fields, PlainField env f fld) (hb : itemBody cfg env it = some body) :
    ∀ n, n ∈ idents (visitDeps env (f + 1) (.named it.name [])) ↔ n ∈ refNames body := by
  intro n
  rw [visitDeps_named env f it.name [] it hfind, idents_dedup]
  have hσ : bindArgs it [] = [] := by simp [bindArgs, hg]
  rw [hσ]
  have hdeps : itemDeps it = (if it.fields.length = 0 && it.attr.tag.isNone then [] else namedDeps it.attr.optionalFields it.fields) := by
    simp only [itemDeps, hs, Bool.false_eq_true, ↓reduceIte, hg, List.flatMap_nil, List.append_nil, typeDefDeps, hta, hto, hsh, namedDeps]
  rw [hdeps]
  simp only [itemBody, hs, Bool.false_eq_true, ↓reduceIte, structBody, hsh] at hb
  by_cases hemp : (it.fields.isEmpty && (it.attr.tag.map fun t => (t, tsName it)).isNone) = true
  · simp only [hemp, ↓reduceIte, Option.some.injEq] at hb
    subst hb
    simp only [Bool.and_eq_true, List.isEmpty_iff, Option.isNone_iff_eq_none, Option.map_eq_none_iff] at hemp
    simp [hemp.1, hemp.2, idents, refNames]
  · simp only [hemp, Bool.false_eq_true, ↓reduceIte, bind, Option.bind] at hb
    cases hfs : fieldsTs cfg env it.attr.renameAll it.attr.optionalFields it.fields with
    | none => simp [hfs] at hb
    | some fs =>
      simp only [hfs, pure, Option.some.injEq] at hb
      subst hb
      have hnv := namedFields_visit cfg env f it.attr.renameAll it.attr.optionalFields it.fields fs hp hfs n
      have hcond : (it.fields.length = 0 && it.attr.tag.isNone) = false ∨ it.fields = [] := by
        by_cases h0 : it.fields = []
        · exact Or.inr h0
        · left
          have : it.fields.length ≠ 0 := by simpa using h0
          simp [this]
      have hl : n ∈ idents (List.flatMap (visitDep env f [])
          (if (decide (it.fields.length = 0) && it.attr.tag.isNone) = true then [] else namedDeps it.attr.optionalFields it.fields))
          ↔ n ∈ refNamesF fs := by
        rw [← hnv]
        rcases hcond with h | h
        · rw [if_neg (by rw [h]; exact Bool.false_ne_true)]
        · simp [h, namedDeps]
      rw [hl]
      cases htg : it.attr.tag with
      | none => simp [refNames, refNamesF_append]
      | some t => simp [refNames, refNamesF_append, refNamesF]

def tupleDeps (fields : List Field) : List Dep :=
  fields.flatMap fun fld =>
    if fld.attr.skip || fld.attr.typeOverride.isSome then []
    else
      let t : DepTy := { ty := effTy fld, inner := false }
      if fld.attr.inline then [.transitive t] else push t

theorem field_visit0 (cfg : Cfg) (env : Env) (f : Nat) (fld : Field) (T : Ts)
    (hta : fld.attr.typeAs = none) (hw : tyWF env fld.ty = true) (hd : depthR fld.ty < f)
    (hT : tyTs cfg env fld.ty = some T) (n : Str) :
    n ∈ idents ((push ({ ty := effTy fld, inner := false } : DepTy)).flatMap (visitDep env f [])) ↔ n ∈ refNames T := by
  have hres : resolveInner [] ({ ty := effTy fld, inner := false } : DepTy) = fld.ty := by
    simp [resolveInner, effTy, hta, rsubst_nil]
  simp only [push, List.flatMap_cons, List.flatMap_nil, List.append_nil, visitDep, hres]
  exact visit_refs cfg env _ T f hw hd hT n

/-- **tuple fields** -/
theorem tupleFields_visit (cfg : Cfg) (env : Env) (f : Nat) :
    ∀ (fields : List Field) (ts : List Ts), (∀ fld ∈ fields, PlainField env f fld) →
    tupleTs cfg env fields = some ts →
    ∀ n, n ∈ idents ((tupleDeps fields).flatMap (visitDep env f [])) ↔ n ∈ refNamesL ts
  | [], ts, _, hT, n => by
    simp only [tupleTs, Option.some.injEq] at hT
    subst hT
    simp [tupleDeps, idents, refNamesL]
  | fld :: rest, ts, hp, hT, n => by
    simp only [tupleTs, bind, Option.bind] at hT
    cases hr : tupleTs cfg env rest with
    | none => simp [hr] at hT
    | some rts =>
      simp only [hr] at hT
      have ih := tupleFields_visit cfg env f rest rts (fun x hx => hp x (by simp [hx])) hr n
      obtain ⟨hta, hto, hfl, hin, hty⟩ := hp fld (by simp)
      have hsplit : tupleDeps (fld :: rest) =
          (if fld.attr.skip || fld.attr.typeOverride.isSome then [] else push ({ ty := effTy fld, inner := false } : DepTy)) ++ tupleDeps rest := by
        simp [tupleDeps, List.flatMap_cons, hin]
      rw [hsplit, idents_flatMap_append, ih]
      by_cases hskip : fld.attr.skip = true
      · simp only [hskip, ↓reduceIte, pure, Option.some.injEq] at hT
        subst hT
        simp [hskip, idents]
      · have hskip' : fld.attr.skip = false := by simpa using hskip
        simp only [hskip', Bool.false_eq_true, ↓reduceIte] at hT
        cases ht : tyTs cfg env fld.ty with
        | none => simp [ht] at hT
        | some T =>
          simp only [ht, pure, Option.some.injEq] at hT
          subst hT
          have hf := field_visit0 cfg env f fld T hta (hty hskip').1 (hty hskip').2 ht n
          simp only [hskip', hto, Option.isSome_none, Bool.or_self, Bool.false_eq_true, ↓reduceIte, refNamesL, List.mem_append]
          rw [hf]

/-- **the body of a struct / the content of a variant**, every shape: recorded dependencies = mentioned names -/
theorem body_visit (cfg : Cfg) (env : Env) (f : Nat) (ra : Option Rule) (of : Opt) (tag : Option Str) (nm : Str)
    (shape : Shape) (fields : List Field) (B : Ts)
    (hp : ∀ fld ∈ fields, PlainField env f fld)
    (hB : structBody cfg env ra of (tag.map fun t => (t, nm)) shape fields = some B) :
    ∀ n, n ∈ idents ((typeDefDeps { tag := tag, optionalFields := of } shape fields).flatMap (visitDep env f [])) ↔ n ∈ refNames B := by
  intro n
  cases shape with
  | unit =>
    simp only [structBody, Option.some.injEq] at hB
    subst hB
    simp [typeDefDeps, idents, refNames]
  | named =>
    have hdeps : typeDefDeps { tag := tag, optionalFields := of } .named fields
        = (if fields.length = 0 && tag.isNone then [] else namedDeps of fields) := by
      simp only [typeDefDeps, namedDeps]
    rw [hdeps]
    simp only [structBody] at hB
    by_cases hemp : (fields.isEmpty && (tag.map fun t => (t, nm)).isNone) = true
    · simp only [hemp, ↓reduceIte, Option.some.injEq] at hB
      subst hB
      simp only [Bool.and_eq_true, List.isEmpty_iff, Option.isNone_iff_eq_none, Option.map_eq_none_iff] at hemp
      simp [hemp.1, hemp.2, idents, refNames]
    · simp only [hemp, Bool.false_eq_true, ↓reduceIte, bind, Option.bind] at hB
      cases hfs : fieldsTs cfg env ra of fields with
      | none => simp [hfs] at hB
      | some fs =>
        simp only [hfs, pure, Option.some.injEq] at hB
        subst hB
        have hnv := namedFields_visit cfg env f ra of fields fs hp hfs n
        have hcond : (decide (fields.length = 0) && tag.isNone) = false ∨ fields = [] := by
          by_cases h0 : fields = []
          · exact Or.inr h0
          · left
            have : fields.length ≠ 0 := by simpa using h0
            simp [this]
        have hl : n ∈ idents (List.flatMap (visitDep env f [])
            (if (decide (fields.length = 0) && tag.isNone) = true then [] else namedDeps of fields)) ↔ n ∈ refNamesF fs := by
          rw [← hnv]
          rcases hcond with h | h
          · rw [if_neg (by rw [h]; exact Bool.false_ne_true)]
          · simp [h, namedDeps]
        rw [hl]
        cases htg : tag with
        | none => simp [refNames, refNamesF_append]
        | some t => simp [refNames, refNamesF_append, refNamesF]
  | tuple =>
    simp only [structBody] at hB
    match fields, hp, hB with
    | [], _, hB =>
      simp only [Option.some.injEq] at hB
      subst hB
      simp [typeDefDeps, idents, refNames]
    | [fld], hp, hB =>
      obtain ⟨hta, hto, hfl, hin, hty⟩ := hp fld (by simp)
      by_cases hskip : fld.attr.skip = true
      · simp only [hskip, ↓reduceIte, Option.some.injEq] at hB
        subst hB
        simp [typeDefDeps, hskip, idents, refNames]
      · have hskip' : fld.attr.skip = false := by simpa using hskip
        simp only [hskip', Bool.false_eq_true, ↓reduceIte] at hB
        have hf := field_visit0 cfg env f fld B hta (hty hskip').1 (hty hskip').2 hB n
        simp only [typeDefDeps, hskip', hto, Option.isSome_none, Bool.or_self, Bool.false_eq_true, ↓reduceIte, hin]
        exact hf
    | f1 :: f2 :: rest, hp, hB =>
      cases hts : tupleTs cfg env (f1 :: f2 :: rest) with
      | none => simp [hts] at hB
      | some ts =>
        simp only [hts, Option.map_some, Option.some.injEq] at hB
        subst hB
        have := tupleFields_visit cfg env f (f1 :: f2 :: rest) ts hp hts n
        simp only [refNames]
        rw [← this]
        simp only [typeDefDeps, tupleDeps]

/-- the `StructAttr` a variant's fields are processed with, as far as dependencies are concerned -/
def variantSAttr (it : Item) (v : Variant) : SAttr :=
  { tag := match v.shape, tagged it.attr with
      | .named, .internally t => if v.attr.untagged then none else some t
      | _, _ => none }

theorem deps_unitLike (sattr : SAttr) (v : Variant) (hta : sattr.typeAs = none) (hto : sattr.typeOverride = none) (h : v.unitLike = true) :
    typeDefDeps sattr v.shape v.fields = [] := by
  unfold Variant.unitLike at h
  simp only [Bool.or_eq_true, decide_eq_true_eq, Bool.and_eq_true] at h
  rcases h with h | ⟨h1, h2⟩
  · simp [typeDefDeps, hta, hto, h]
  · simp only [typeDefDeps, hta, hto, h1]
    match hf : v.fields, h2 with
    | [fld], h2 => simp [h2]
    | [], _ => rfl
    | _ :: _ :: _, h2 => simp at h2

/-- **one variant**: recorded dependencies = names mentioned by the arm -/
theorem variant_visit (cfg : Cfg) (env : Env) (f : Nat) (it : Item) (v : Variant) (arm : Ts)
    (hp : ∀ fld ∈ v.fields, PlainField env f fld)
    (hA : variantTs cfg env it v = some arm) :
    ∀ n, n ∈ idents ((typeDefDeps (variantSAttr it v) v.shape v.fields).flatMap (visitDep env f [])) ↔ n ∈ refNames arm := by
  intro n
  simp only [variantTs] at hA
  have hnone : ∀ B, structBody cfg env (renameAllT it v) .no none v.shape v.fields = some B →
      (variantSAttr it v).tag = none →
      (n ∈ idents ((typeDefDeps (variantSAttr it v) v.shape v.fields).flatMap (visitDep env f [])) ↔ n ∈ refNames B) := by
    intro B hB htag
    have := body_visit cfg env f (renameAllT it v) .no none [] v.shape v.fields B hp (by simpa using hB) n
    have e : variantSAttr it v = { tag := none, optionalFields := .no } := by
      unfold variantSAttr at htag ⊢
      simp only at htag
      rw [htag]
    rw [e]; exact this
  have hunit : v.unitLike = true →
      (n ∈ idents ((typeDefDeps (variantSAttr it v) v.shape v.fields).flatMap (visitDep env f [])) ↔ False) := by
    intro hul
    rw [deps_unitLike _ v rfl rfl hul]
    simp [idents]
  cases htg : (if v.attr.untagged = true then Derive.Tagged.untagged else Derive.tagged it.attr) with
  | untagged =>
    simp only [htg] at hA
    have htag : (variantSAttr it v).tag = none := by
      unfold variantSAttr
      by_cases hu : v.attr.untagged = true
      · cases v.shape <;> cases tagged it.attr <;> simp [hu]
      · simp only [hu, Bool.false_eq_true, ↓reduceIte] at htg
        rw [htg]; cases v.shape <;> rfl
    exact hnone arm hA htag
  | externally =>
    simp only [htg] at hA
    have htag : (variantSAttr it v).tag = none := by
      unfold variantSAttr
      by_cases hu : v.attr.untagged = true
      · simp [hu] at htg
      · simp only [hu, Bool.false_eq_true, ↓reduceIte] at htg
        rw [htg]; cases v.shape <;> rfl
    by_cases hul : v.unitLike = true
    · simp only [hul, ↓reduceIte, Option.some.injEq] at hA
      subst hA
      rw [hunit hul]; simp [refNames]
    · simp only [hul, Bool.false_eq_true, ↓reduceIte] at hA
      cases hB : structBody cfg env (renameAllT it v) .no none v.shape v.fields with
      | none => simp [hB] at hA
      | some B =>
        simp only [hB, Option.map_some, Option.some.injEq] at hA
        subst hA
        rw [hnone B hB htag]
        simp [refNames, refNamesF]
  | adjacently t c =>
    simp only [htg] at hA
    have htag : (variantSAttr it v).tag = none := by
      unfold variantSAttr
      by_cases hu : v.attr.untagged = true
      · simp [hu] at htg
      · simp only [hu, Bool.false_eq_true, ↓reduceIte] at htg
        rw [htg]; cases v.shape <;> rfl
    by_cases hul : v.unitLike = true
    · simp only [hul, ↓reduceIte, Option.some.injEq] at hA
      subst hA
      rw [hunit hul]; simp [refNames, refNamesF]
    · simp only [hul, Bool.false_eq_true, ↓reduceIte] at hA
      cases hB : structBody cfg env (renameAllT it v) .no none v.shape v.fields with
      | none => simp [hB] at hA
      | some B =>
        simp only [hB, Option.map_some, Option.some.injEq] at hA
        subst hA
        rw [hnone B hB htag]
        simp [refNames, refNamesF]
  | internally t =>
    simp only [htg] at hA
    have hnu : v.attr.untagged = false := by
      by_cases hu : v.attr.untagged = true
      · simp [hu] at htg
      · simpa using hu
    have htgd : tagged it.attr = .internally t := by simpa [hnu] using htg
    by_cases hul : v.unitLike = true
    · simp only [hul, ↓reduceIte, Option.some.injEq] at hA
      subst hA
      rw [hunit hul]; simp [refNames, refNamesF]
    · simp only [hul, Bool.false_eq_true, ↓reduceIte] at hA
      cases hsh : v.shape with
      | named =>
        simp only [hsh] at hA
        have e : variantSAttr it v = { tag := some t, optionalFields := .no } := by
          unfold variantSAttr
          simp [hsh, htgd, hnu]
        rw [e]
        have := body_visit cfg env f (renameAllT it v) .no (some t) (Derive.variantTsName cfg it.attr.renameAll v) .named v.fields arm hp (by simpa using hA) n
        exact this
      | unit => simp [hsh] at hA
      | tuple => simp [hsh] at hA

theorem refNamesL_append : ∀ (a b : List Ts), refNamesL (a ++ b) = refNamesL a ++ refNamesL b
  | [], b => by simp [refNamesL]
  | t :: a, b => by simp [refNamesL, refNamesL_append a b, List.append_assoc]

theorem flatMap_congr' {α β : Type} (g h : α → List β) : ∀ (l : List α), (∀ x ∈ l, g x = h x) → l.flatMap g = l.flatMap h
  | [], _ => rfl
  | x :: xs, hx => by simp [List.flatMap_cons, hx x (by simp), flatMap_congr' g h xs (fun y hy => hx y (by simp [hy]))]

/-- the dependencies the derive records for the variants of an enum (fragment: no `as` / `type` on variants) -/
def enumDeps (it : Item) (vs : List Variant) : List Dep :=
  vs.flatMap fun v => if v.attr.skip then [] else typeDefDeps (variantSAttr it v) v.shape v.fields

theorem variants_visit (cfg : Cfg) (env : Env) (f : Nat) (it : Item) :
    ∀ (vs : List Variant) (arms : List Ts), (∀ v ∈ vs, ∀ fld ∈ v.fields, PlainField env f fld) →
    variantsTs cfg env it vs = some arms →
    ∀ n, n ∈ idents ((enumDeps it vs).flatMap (visitDep env f [])) ↔ n ∈ refNamesL arms
  | [], arms, _, hA, n => by
    simp only [variantsTs, Option.some.injEq] at hA
    subst hA
    simp [enumDeps, idents, refNamesL]
  | v :: vs, arms, hp, hA, n => by
    simp only [variantsTs, bind, Option.bind] at hA
    cases hr : variantsTs cfg env it vs with
    | none => simp [hr] at hA
    | some rest =>
      simp only [hr] at hA
      have ih := variants_visit cfg env f it vs rest (fun x hx => hp x (by simp [hx])) hr n
      have hsplit : enumDeps it (v :: vs) = (if v.attr.skip then [] else typeDefDeps (variantSAttr it v) v.shape v.fields) ++ enumDeps it vs := by
        simp [enumDeps, List.flatMap_cons]
      rw [hsplit, idents_flatMap_append, ih]
      by_cases hskip : v.attr.skip = true
      · simp only [hskip, ↓reduceIte, pure, Option.some.injEq] at hA
        subst hA
        simp [hskip, idents]
      · have hskip' : v.attr.skip = false := by simpa using hskip
        simp only [hskip', Bool.false_eq_true, ↓reduceIte] at hA
        cases hv : variantTs cfg env it v with
        | none => simp [hv] at hA
        | some arm =>
          simp only [hv, pure, Option.some.injEq] at hA
          subst hA
          have := variant_visit cfg env f it v arm (hp v (by simp)) hv n
          simp only [hskip', Bool.false_eq_true, ↓reduceIte, refNamesL, List.mem_append]
          rw [this]

/-- the recorded dependencies of an item without type parameters visit exactly the names its body mentions (no demand that the
item is one of the program: it may be the instance of a generic one) -/
theorem itemDeps_visit (cfg : Cfg) (env : Env) (it : Item) (f : Nat) (body : Ts) (hg : it.generics = [])
    (hta : it.attr.typeAs = none) (hto : it.attr.typeOverride = none)
    (hv : ∀ v ∈ it.variants, v.attr.typeAs = none ∧ v.attr.typeOverride = none)
    (hp : ∀ fld ∈ it.fields, PlainField env f fld) (hpv : ∀ v ∈ it.variants, ∀ fld ∈ v.fields, PlainField env f fld)
    (hb : itemBody cfg env it = some body) :
    ∀ n, n ∈ idents ((itemDeps it).flatMap (visitDep env f [])) ↔ n ∈ refNames body := by
  intro n
  by_cases hen : it.isEnum = true
  · have hdeps : itemDeps it = enumDeps it it.variants := by
      simp only [itemDeps, hen, ↓reduceIte, hta, hto, hg, List.flatMap_nil, List.append_nil, enumDeps]
      apply flatMap_congr'
      intro v hvm
      obtain ⟨h1, h2⟩ := hv v hvm
      simp only [h1, h2]
      rfl
    rw [hdeps]
    simp only [itemBody, hen, ↓reduceIte] at hb
    by_cases hemp : it.variants.isEmpty = true
    · simp only [hemp, ↓reduceIte, Option.some.injEq] at hb
      subst hb
      simp only [List.isEmpty_iff] at hemp
      simp [hemp, enumDeps, idents, refNames]
    · simp only [hemp, Bool.false_eq_true, ↓reduceIte, bind, Option.bind] at hb
      cases harms : variantsTs cfg env it it.variants with
      | none => simp [harms] at hb
      | some arms =>
        simp only [harms] at hb
        have hvv := variants_visit cfg env f it it.variants arms hpv harms n
        by_cases hae : arms.isEmpty = true
        · simp only [hae, ↓reduceIte, Option.some.injEq] at hb
          subst hb
          simp only [List.isEmpty_iff] at hae
          rw [hvv, hae]; simp [refNames, refNamesL]
        · simp only [hae, Bool.false_eq_true, ↓reduceIte, pure, Option.some.injEq] at hb
          subst hb
          rw [hvv]; simp [refNames]
  · have hen' : it.isEnum = false := by simpa using hen
    have hdeps : itemDeps it = typeDefDeps { tag := it.attr.tag, optionalFields := it.attr.optionalFields } it.shape it.fields := by
      simp only [itemDeps, hen', Bool.false_eq_true, ↓reduceIte, hg, List.flatMap_nil, List.append_nil, hta, hto]
    rw [hdeps]
    simp only [itemBody, hen', Bool.false_eq_true, ↓reduceIte] at hb
    exact body_visit cfg env f it.attr.renameAll it.attr.optionalFields it.attr.tag (tsName it) it.shape it.fields body hp hb n

/-- **every monomorphic item of the fragment: `dependencies()` visits exactly the names the declaration mentions** -/
theorem item_visit (cfg : Cfg) (env : Env) (it : Item) (f : Nat) (body : Ts)
    (hfind : env.find it.name = some it) (hg : it.generics = [])
    (hta : it.attr.typeAs = none) (hto : it.attr.typeOverride = none)
    (hv : ∀ v ∈ it.variants, v.attr.typeAs = none ∧ v.attr.typeOverride = none)
    (hp : ∀ fld ∈ it.fields, PlainField env f fld) (hpv : ∀ v ∈ it.variants, ∀ fld ∈ v.fields, PlainField env f fld)
    (hb : itemBody cfg env it = some body) :
    ∀ n, n ∈ idents (visitDeps env (f + 1) (.named it.name [])) ↔ n ∈ refNames body := by
  intro n
  rw [visitDeps_named env f it.name [] it hfind, idents_dedup]
  have hσ : bindArgs it [] = [] := by simp [bindArgs, hg]
  rw [hσ]
  exact itemDeps_visit cfg env it f body hg hta hto hv hp hpv hb n

end TsRs
