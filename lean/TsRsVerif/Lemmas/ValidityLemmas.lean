import TsRsVerif.Model.Validity
namespace TsRs
open Attr Validity

theorem fieldStep_absorb (compat : Bool) (m : String) (f : AField) : fieldStep compat (.error m) f = .error m := rfl
theorem variantStep_absorb (compat : Bool) (p : Parsed) (m : String) (v : AVariant) : variantStep compat p (.error m) v = .error m := rfl

theorem foldl_error {α : Type} (step : Outcome → α → Outcome) (habs : ∀ m x, step (.error m) x = .error m) :
    ∀ (l : List α) (m : String), l.foldl step (.error m) = .error m
  | [], _ => rfl
  | x :: xs, m => by simp only [List.foldl_cons, habs]; exact foldl_error step habs xs m

/-- an element on which the step fails (from `.ok`) makes the whole fold fail -/
theorem foldl_hits {α : Type} (step : Outcome → α → Outcome) (habs : ∀ m x, step (.error m) x = .error m) :
    ∀ (l : List α) (x : α), x ∈ l → (∃ m, step .ok x = .error m) → ∃ m, l.foldl step .ok = .error m
  | [], _, h, _ => by cases h
  | y :: ys, x, h, hx => by
    simp only [List.foldl_cons]
    cases hy : step .ok y with
    | error m => exact ⟨m, foldl_error step habs ys m⟩
    | ok =>
      rcases List.mem_cons.mp h with rfl | h'
      · obtain ⟨m, hm⟩ := hx; rw [hy] at hm; cases hm
      · exact foldl_hits step habs ys x h' hx

end TsRs
