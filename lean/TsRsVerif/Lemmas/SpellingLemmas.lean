import TsRsVerif.Model.Export
import TsRsVerif.Lemmas.ExportLemmas
/-! The current directory never changes; the walk depends on the directory only through `absolute`. -/
namespace TsRs.Export
open TsRs.Fs

theorem set_cwd (fs : Fs) (l : Loc) (n : Node) : (fs.set l n).cwd = fs.cwd := rfl

theorem exportAndMerge_cwd (w : World) (path name text : Str) :
    (exportAndMerge w path name text).1.fs.cwd = w.fs.cwd := by
  rcases exportAndMerge_cases w path name text with ⟨h1, _⟩ | h1 | h1 | ⟨h1, _⟩ | ⟨l, c, _, _, h1⟩ <;> rw [h1]
  simp [set_cwd]

theorem exportTo_cwd (w : World) (t : TyInfo) (p : Str) : (exportTo w t p).1.fs.cwd = w.fs.cwd := by
  unfold exportTo
  cases Path.absolute (cwdStr w.fs) p with
  | error e => rfl
  | ok path =>
    simp only
    cases t.text with
    | error e => rfl
    | ok buffer =>
      simp only
      cases Path.parent path with
      | none => exact exportAndMerge_cwd _ _ _ _
      | some par =>
        simp only
        cases hc : w.fs.createDirAll par with
        | none => rfl
        | some fs' =>
          simp only
          rw [exportAndMerge_cwd]
          exact (createDirAll_frame _ _ _ hc).2

theorem exportInto_cwd (w : World) (t : TyInfo) (d : Str) : (exportInto w t d).1.fs.cwd = w.fs.cwd := by
  unfold exportInto
  cases t.outputPath with
  | none => rfl
  | some op =>
    simp only
    cases Path.absolute (cwdStr w.fs) (Path.join d op) with
    | error e => rfl
    | ok p => exact exportTo_cwd _ _ _

/-- two directory spellings are equivalent below the current directory `c` -/
def SameDir (c : Loc) (d d' : Str) : Prop :=
  ∀ op, Path.absolute ('/' :: Text.intercalate ['/'] c) (Path.join d op)
      = Path.absolute ('/' :: Text.intercalate ['/'] c) (Path.join d' op)

theorem exportInto_spelling (w : World) (t : TyInfo) (d d' : Str) (h : SameDir w.fs.cwd d d') :
    exportInto w t d = exportInto w t d' := by
  unfold exportInto
  cases t.outputPath with
  | none => rfl
  | some op =>
    simp only
    have := h op
    unfold cwdStr
    rw [this]

theorem visitDeps_spelling (u : Universe) (c : Loc)
    (r r' : World → List Nat → Nat → Option WalkRes)
    (hr : ∀ w s d, w.fs.cwd = c → r w s d = r' w s d)
    (hc : ∀ w s d w' s' o, w.fs.cwd = c → r w s d = some (w', s', o) → w'.fs.cwd = c) :
    ∀ (deps : List Nat) (w : World) (seen : List Nat), w.fs.cwd = c →
      visitDeps u r deps w seen = visitDeps u r' deps w seen ∧
      (∀ w' s' o, visitDeps u r deps w seen = some (w', s', o) → w'.fs.cwd = c) := by
  intro deps
  induction deps with
  | nil => intro w seen hw; exact ⟨rfl, fun w' s' o h => by simp [visitDeps] at h; rw [← h.1]; exact hw⟩
  | cons d ds ih =>
    intro w seen hw
    simp only [visitDeps]
    cases u[d]? with
    | none => exact ⟨rfl, fun _ _ _ h => by simp at h⟩
    | some td =>
      simp only
      by_cases hne : td.outputPath.isNone = true
      · simp only [hne, if_true]; exact ih w seen hw
      · simp only [hne]
        rw [← hr w seen d hw]
        cases hrr : r w seen d with
        | none => exact ⟨rfl, fun _ _ _ h => by simp at h⟩
        | some res =>
          obtain ⟨w2, s2, o⟩ := res
          have hw2 := hc w seen d w2 s2 o hw hrr
          cases o with
          | ok => simp only; exact ih w2 s2 hw2
          | err e => exact ⟨rfl, fun w' s' o' h => by simp at h; rw [← h.1]; exact hw2⟩
          | panic => exact ⟨rfl, fun w' s' o' h => by simp at h; rw [← h.1]; exact hw2⟩

theorem exportRec_spelling (u : Universe) (c : Loc) (d d' : Str) (h : SameDir c d d') :
    ∀ (fuel : Nat) (w : World) (seen : List Nat) (i : Nat), w.fs.cwd = c →
      exportRec u fuel w seen d i = exportRec u fuel w seen d' i ∧
      (∀ w' s' o, exportRec u fuel w seen d i = some (w', s', o) → w'.fs.cwd = c) := by
  intro fuel
  induction fuel with
  | zero => intro w seen i _; exact ⟨rfl, fun _ _ _ h => by simp [exportRec] at h⟩
  | succ fuel ih =>
    intro w seen i hw
    simp only [exportRec]
    by_cases hin : i ∈ seen
    · simp only [hin, if_true]; exact ⟨by first | rfl | trivial, fun w' s' o h => by simp at h; rw [← h.1]; exact hw⟩
    · simp only [hin, if_false]
      cases u[i]? with
      | none => exact ⟨rfl, fun _ _ _ h => by simp at h⟩
      | some t =>
        simp only
        rw [← exportInto_spelling w t d d' (by rw [hw]; exact h)]
        have hcw := exportInto_cwd w t d
        cases hex : exportInto w t d with
        | mk w1 o =>
          rw [hex] at hcw
          simp only at hcw
          cases o with
          | ok =>
            simp only
            exact visitDeps_spelling u c _ _ (fun w2 s2 x hw2 => (ih w2 s2 x hw2).1)
              (fun w2 s2 x w3 s3 o3 hw2 hr => (ih w2 s2 x hw2).2 w3 s3 o3 hr) t.deps w1 (i :: seen) (by rw [hcw, hw])
          | err e => exact ⟨rfl, fun w' s' o' h => by simp at h; rw [← h.1, hcw, hw]⟩
          | panic => exact ⟨rfl, fun w' s' o' h => by simp at h; rw [← h.1, hcw, hw]⟩

end TsRs.Export
