import TsRsVerif.Lemmas.ImportLemmas
/-! The import map of `merge` (`BTreeMap<&str, BTreeSet<&str>>` as a sorted association list of sorted lists) is a
function of the SET of import lines fed into it: canonical form, absorption of an already canonical map, and invariance
under permutation of the lines. -/
namespace TsRs.Merge
open TsRs.Text

def keys (m : Imports) : List Str := m.map (·.1)

/-- `(p, t)` is imported: some entry for `p` lists `t` -/
def HasPair (m : Imports) (p t : Str) : Prop := ∃ tys, (p, tys) ∈ m ∧ t ∈ tys

/-! ### inserting at the end of a sorted structure -/

theorem insertSorted_end (t : Str) : ∀ (l : List Str), (∀ x ∈ l, ltStr x t = true) → insertSorted t l = l ++ [t]
  | [], _ => rfl
  | y :: ys, h => by
    have hy : ltStr y t = true := h y (by simp)
    have h1 : ltStr t y = false := ltStr_asymm hy
    have h2 : t ≠ y := fun e => (ltStr_ne hy) e.symm
    simp only [insertSorted, h1, h2, Bool.false_eq_true, ↓reduceIte, List.cons_append]
    rw [insertSorted_end t ys (fun x hx => h x (by simp [hx]))]

theorem touchPath_end (p : Str) : ∀ (acc : Imports), (∀ k ∈ keys acc, ltStr k p = true) → touchPath p acc = acc ++ [(p, [])]
  | [], _ => rfl
  | (q, tys) :: rest, h => by
    have hq : ltStr q p = true := h q (by simp [keys])
    have h1 : ltStr p q = false := ltStr_asymm hq
    have h2 : p ≠ q := fun e => (ltStr_ne hq) e.symm
    simp only [touchPath, h1, h2, Bool.false_eq_true, ↓reduceIte, List.cons_append]
    rw [touchPath_end p rest (fun k hk => h k (by simp [keys] at hk ⊢; exact Or.inr hk))]

theorem insertImport_end (p t : Str) (tys : List Str) : ∀ (acc : Imports), (∀ k ∈ keys acc, ltStr k p = true) →
    insertImport p t (acc ++ [(p, tys)]) = acc ++ [(p, insertSorted t tys)]
  | [], _ => by simp [insertImport, ltStr_irrefl]
  | (q, qs) :: rest, h => by
    have hq : ltStr q p = true := h q (by simp [keys])
    have h1 : ltStr p q = false := ltStr_asymm hq
    have h2 : p ≠ q := fun e => (ltStr_ne hq) e.symm
    simp only [List.cons_append, insertImport, h1, h2, Bool.false_eq_true, ↓reduceIte]
    rw [insertImport_end p t tys rest (fun k hk => h k (by simp [keys] at hk ⊢; exact Or.inr hk))]

theorem foldl_insertImport_end (p : Str) (acc : Imports) (hacc : ∀ k ∈ keys acc, ltStr k p = true) :
    ∀ (ts pre : List Str), SortedS (pre ++ ts) →
      ts.foldl (fun a t => insertImport p t a) (acc ++ [(p, pre)]) = acc ++ [(p, pre ++ ts)]
  | [], pre, _ => by simp
  | t :: ts, pre, hs => by
    simp only [List.foldl_cons]
    have hlt : ∀ x ∈ pre, ltStr x t = true := by
      intro x hx
      have := List.pairwise_append.mp hs
      exact this.2.2 x hx t (by simp)
    rw [insertImport_end p t pre acc hacc, insertSorted_end t pre hlt]
    have hs' : SortedS ((pre ++ [t]) ++ ts) := by simpa using hs
    rw [foldl_insertImport_end p acc hacc ts (pre ++ [t]) hs']
    simp

theorem addLine_end (acc : Imports) (p : Str) (tys : List Str) (hacc : ∀ k ∈ keys acc, ltStr k p = true) (hs : SortedS tys) :
    addLine acc (p, tys) = acc ++ [(p, tys)] := by
  unfold addLine
  simp only
  rw [touchPath_end p acc hacc]
  have := foldl_insertImport_end p acc hacc tys [] (by simpa using hs)
  simpa using this

/-- feeding an already canonical map, entry by entry, into a map whose keys are all smaller appends it -/
theorem foldl_addLine_end : ∀ (m acc : Imports), ImportsWF (acc ++ m) → m.foldl addLine acc = acc ++ m
  | [], acc, _ => by simp
  | (p, tys) :: rest, acc, h => by
    simp only [List.foldl_cons]
    obtain ⟨hk, hv⟩ := h
    have hk' : (keys acc ++ p :: keys rest).Pairwise (fun a b => ltStr a b = true) := by
      simpa [keys] using hk
    have hacc : ∀ k ∈ keys acc, ltStr k p = true := by
      intro k hk2
      exact (List.pairwise_append.mp hk').2.2 k hk2 p (by simp)
    rw [addLine_end acc p tys hacc (hv (p, tys) (by simp))]
    have : ImportsWF ((acc ++ [(p, tys)]) ++ rest) := by
      refine ⟨by simpa using hk, fun e he => hv e (by simpa using he)⟩
    rw [foldl_addLine_end rest (acc ++ [(p, tys)]) this]
    simp

/-- **a canonical map read back line by line is itself** -/
theorem foldl_addLine_self (m : Imports) (h : ImportsWF m) : m.foldl addLine [] = m := by
  simpa using foldl_addLine_end m [] (by simpa using h)

/-! ### what a map contains -/

theorem touchPath_keys (p : Str) (m : Imports) (k : Str) : k ∈ keys (touchPath p m) ↔ k = p ∨ k ∈ keys m := by
  induction m with
  | nil => simp [touchPath, keys]
  | cons e rest ih =>
    obtain ⟨q, tys⟩ := e
    simp only [touchPath]
    split
    · simp [keys]
    · split
      · rename_i h; subst h; simp [keys]
      · simp only [keys, List.map_cons, List.mem_cons] at ih ⊢
        rw [ih]
        constructor
        · rintro (h | h | h)
          · exact Or.inr (Or.inl h)
          · exact Or.inl h
          · exact Or.inr (Or.inr h)
        · rintro (h | h | h)
          · exact Or.inr (Or.inl h)
          · exact Or.inl h
          · exact Or.inr (Or.inr h)

theorem touchPath_pairs (p : Str) (m : Imports) (q t : Str) : HasPair (touchPath p m) q t ↔ HasPair m q t := by
  induction m with
  | nil => simp [touchPath, HasPair]
  | cons e rest ih =>
    obtain ⟨r, tys⟩ := e
    simp only [touchPath]
    split
    · unfold HasPair
      constructor
      · rintro ⟨tys', hm, ht⟩
        rcases List.mem_cons.mp hm with h | h
        · simp only [Prod.mk.injEq] at h
          rw [h.2] at ht; simp at ht
        · exact ⟨tys', h, ht⟩
      · rintro ⟨tys', hm, ht⟩
        exact ⟨tys', List.mem_cons_of_mem _ hm, ht⟩
    · split
      · rfl
      · unfold HasPair at ih ⊢
        constructor
        · rintro ⟨tys', hm, ht⟩
          rcases List.mem_cons.mp hm with h | h
          · exact ⟨tys', by simp [h], ht⟩
          · obtain ⟨tys'', hm', ht'⟩ := ih.mp ⟨tys', h, ht⟩
            exact ⟨tys'', by simp [hm'], ht'⟩
        · rintro ⟨tys', hm, ht⟩
          rcases List.mem_cons.mp hm with h | h
          · exact ⟨tys', by simp [h], ht⟩
          · obtain ⟨tys'', hm', ht'⟩ := ih.mpr ⟨tys', h, ht⟩
            exact ⟨tys'', by simp [hm'], ht'⟩

theorem insertImport_pairs (p ty : Str) (m : Imports) (q t : Str) :
    HasPair (insertImport p ty m) q t ↔ (q = p ∧ t = ty) ∨ HasPair m q t := by
  induction m with
  | nil =>
    simp only [insertImport, HasPair, List.mem_singleton, Prod.mk.injEq, List.not_mem_nil, false_and, exists_false, or_false]
    constructor
    · rintro ⟨tys, ⟨h1, h2⟩, ht⟩; subst h2; exact ⟨h1, by simpa using ht⟩
    · rintro ⟨h1, h2⟩; exact ⟨[ty], ⟨h1, rfl⟩, by simp [h2]⟩
  | cons e rest ih =>
    obtain ⟨r, tys⟩ := e
    simp only [insertImport]
    split
    · unfold HasPair
      constructor
      · rintro ⟨tys', hm, ht⟩
        rcases List.mem_cons.mp hm with h | h
        · simp only [Prod.mk.injEq] at h
          obtain ⟨h1, h2⟩ := h; subst h2
          exact Or.inl ⟨h1, by simpa using ht⟩
        · exact Or.inr ⟨tys', h, ht⟩
      · rintro (⟨h1, h2⟩ | ⟨tys', hm, ht⟩)
        · exact ⟨[ty], by simp [h1], by simp [h2]⟩
        · exact ⟨tys', List.mem_cons_of_mem _ hm, ht⟩
    · split
      · rename_i heq; subst heq
        unfold HasPair
        constructor
        · rintro ⟨tys', hm, ht⟩
          rcases List.mem_cons.mp hm with h | h
          · simp only [Prod.mk.injEq] at h
            obtain ⟨h1, h2⟩ := h
            rw [h2] at ht
            rcases (insertSorted_mem ty tys t).mp ht with h3 | h3
            · exact Or.inl ⟨h1, h3⟩
            · exact Or.inr ⟨tys, by simp [h1], h3⟩
          · exact Or.inr ⟨tys', by simp [h], ht⟩
        · rintro (⟨h1, h2⟩ | ⟨tys', hm, ht⟩)
          · exact ⟨insertSorted ty tys, by simp [h1], (insertSorted_mem ty tys t).mpr (Or.inl h2)⟩
          · rcases List.mem_cons.mp hm with h | h
            · simp only [Prod.mk.injEq] at h
              obtain ⟨h1, h2⟩ := h
              rw [h2] at ht
              exact ⟨insertSorted ty tys, by simp [h1], (insertSorted_mem ty tys t).mpr (Or.inr ht)⟩
            · exact ⟨tys', by simp [h], ht⟩
      · unfold HasPair at ih ⊢
        constructor
        · rintro ⟨tys', hm, ht⟩
          rcases List.mem_cons.mp hm with h | h
          · exact Or.inr ⟨tys', by simp [h], ht⟩
          · rcases ih.mp ⟨tys', h, ht⟩ with h3 | ⟨tys'', hm', ht'⟩
            · exact Or.inl h3
            · exact Or.inr ⟨tys'', by simp [hm'], ht'⟩
        · rintro (h3 | ⟨tys', hm, ht⟩)
          · obtain ⟨tys'', hm', ht'⟩ := ih.mpr (Or.inl h3)
            exact ⟨tys'', by simp [hm'], ht'⟩
          · rcases List.mem_cons.mp hm with h | h
            · exact ⟨tys', by simp [h], ht⟩
            · obtain ⟨tys'', hm', ht'⟩ := ih.mpr (Or.inr ⟨tys', h, ht⟩)
              exact ⟨tys'', by simp [hm'], ht'⟩

theorem foldl_insertImport_keys (p : Str) : ∀ (ts : List Str) (m : Imports) (k : Str),
    k ∈ keys (ts.foldl (fun a t => insertImport p t a) m) ↔ (ts ≠ [] ∧ k = p) ∨ k ∈ keys m
  | [], m, k => by simp
  | t :: ts, m, k => by
    simp only [List.foldl_cons, ne_eq, reduceCtorEq, not_false_eq_true, true_and]
    rw [foldl_insertImport_keys p ts (insertImport p t m) k]
    have := insertImport_keys p t m k
    simp only [keys] at this ⊢
    rw [this]
    constructor
    · rintro (⟨_, h⟩ | h | h)
      · exact Or.inl h
      · exact Or.inl h
      · exact Or.inr h
    · rintro (h | h)
      · exact Or.inr (Or.inl h)
      · exact Or.inr (Or.inr h)

theorem foldl_insertImport_pairs (p : Str) : ∀ (ts : List Str) (m : Imports) (q t : Str),
    HasPair (ts.foldl (fun a t => insertImport p t a) m) q t ↔ (q = p ∧ t ∈ ts) ∨ HasPair m q t
  | [], m, q, t => by simp
  | t0 :: ts, m, q, t => by
    simp only [List.foldl_cons]
    rw [foldl_insertImport_pairs p ts (insertImport p t0 m) q t, insertImport_pairs]
    simp only [List.mem_cons]
    constructor
    · rintro (⟨h1, h2⟩ | ⟨h1, h2⟩ | h)
      · exact Or.inl ⟨h1, Or.inr h2⟩
      · exact Or.inl ⟨h1, Or.inl h2⟩
      · exact Or.inr h
    · rintro (⟨h1, h2 | h2⟩ | h)
      · exact Or.inr (Or.inl ⟨h1, h2⟩)
      · exact Or.inl ⟨h1, h2⟩
      · exact Or.inr (Or.inr h)

theorem addLine_keys (m : Imports) (l : Str × List Str) (k : Str) : k ∈ keys (addLine m l) ↔ k = l.1 ∨ k ∈ keys m := by
  unfold addLine
  rw [foldl_insertImport_keys, touchPath_keys]
  constructor
  · rintro (⟨_, h⟩ | h)
    · exact Or.inl h
    · exact h
  · intro h; exact Or.inr h

theorem addLine_pairs (m : Imports) (l : Str × List Str) (q t : Str) :
    HasPair (addLine m l) q t ↔ (q = l.1 ∧ t ∈ l.2) ∨ HasPair m q t := by
  unfold addLine
  rw [foldl_insertImport_pairs, touchPath_pairs]

theorem foldl_addLine_keys : ∀ (ls : List (Str × List Str)) (m : Imports) (k : Str),
    k ∈ keys (ls.foldl addLine m) ↔ (∃ l ∈ ls, k = l.1) ∨ k ∈ keys m
  | [], m, k => by simp
  | l :: ls, m, k => by
    simp only [List.foldl_cons]
    rw [foldl_addLine_keys ls (addLine m l) k, addLine_keys]
    simp only [List.mem_cons, exists_eq_or_imp]
    constructor
    · rintro (h | h | h)
      · exact Or.inl (Or.inr h)
      · exact Or.inl (Or.inl h)
      · exact Or.inr h
    · rintro ((h | h) | h)
      · exact Or.inr (Or.inl h)
      · exact Or.inl h
      · exact Or.inr (Or.inr h)

theorem foldl_addLine_pairs : ∀ (ls : List (Str × List Str)) (m : Imports) (q t : Str),
    HasPair (ls.foldl addLine m) q t ↔ (∃ l ∈ ls, q = l.1 ∧ t ∈ l.2) ∨ HasPair m q t
  | [], m, q, t => by simp
  | l :: ls, m, q, t => by
    simp only [List.foldl_cons]
    rw [foldl_addLine_pairs ls (addLine m l) q t, addLine_pairs]
    simp only [List.mem_cons, exists_eq_or_imp]
    constructor
    · rintro (h | h | h)
      · exact Or.inl (Or.inr h)
      · exact Or.inl (Or.inl h)
      · exact Or.inr h
    · rintro ((h | h) | h)
      · exact Or.inr (Or.inl h)
      · exact Or.inl h
      · exact Or.inr (Or.inr h)

/-! ### the canonical form is preserved -/

theorem touchPath_wf (p : Str) (m : Imports) (h : ImportsWF m) : ImportsWF (touchPath p m) := by
  induction m with
  | nil => simp [touchPath, ImportsWF, SortedS]
  | cons e rest ih =>
    obtain ⟨q, tys⟩ := e
    obtain ⟨hk, hv⟩ := h
    have hk' := List.pairwise_cons.mp hk
    have hrest : ImportsWF rest := ⟨hk'.2, fun e he => hv e (by simp [he])⟩
    simp only [touchPath]
    split
    · rename_i hlt
      refine ⟨?_, ?_⟩
      · simp only [List.map_cons]
        refine List.pairwise_cons.mpr ⟨?_, hk⟩
        intro k hk2
        simp only [List.map_cons, List.mem_cons] at hk2
        rcases hk2 with hk2 | hk2
        · subst hk2; exact hlt
        · exact ltStr_trans hlt (hk'.1 k hk2)
      · intro e he; simp at he
        rcases he with he | he | he
        · subst he; simp [SortedS]
        · subst he; exact hv (q, tys) (by simp)
        · exact hv e (by simp [he])
    · rename_i hnlt
      split
      · exact ⟨hk, hv⟩
      · rename_i hne
        obtain ⟨ihk, ihv⟩ := ih hrest
        refine ⟨?_, ?_⟩
        · simp only [List.map_cons]
          refine List.pairwise_cons.mpr ⟨?_, ihk⟩
          intro k hk2
          rcases (touchPath_keys p rest k).mp hk2 with h1 | h1
          · subst h1
            rcases ltStr_total hne with h2 | h2
            · exact absurd h2 hnlt
            · exact h2
          · exact hk'.1 k h1
        · intro e he; simp at he
          rcases he with he | he
          · subst he; exact hv (q, tys) (by simp)
          · exact ihv e he

theorem addLine_wf (m : Imports) (l : Str × List Str) (h : ImportsWF m) : ImportsWF (addLine m l) := by
  unfold addLine
  have : ∀ (ts : List Str) (m' : Imports), ImportsWF m' → ImportsWF (ts.foldl (fun a t => insertImport l.1 t a) m') := by
    intro ts
    induction ts with
    | nil => intro m' h'; exact h'
    | cons t ts ih => intro m' h'; exact ih _ (insertImport_wf l.1 t m' h')
  exact this l.2 _ (touchPath_wf l.1 m h)

theorem foldl_addLine_wf : ∀ (ls : List (Str × List Str)) (m : Imports), ImportsWF m → ImportsWF (ls.foldl addLine m)
  | [], _, h => h
  | l :: ls, m, h => foldl_addLine_wf ls (addLine m l) (addLine_wf m l h)

/-! ### a canonical map is determined by what it contains -/

theorem wf_key_unique {m : Imports} (h : ImportsWF m) {p : Str} {a b : List Str} (ha : (p, a) ∈ m) (hb : (p, b) ∈ m) : a = b := by
  induction m with
  | nil => simp at ha
  | cons e rest ih =>
    obtain ⟨hk, hv⟩ := h
    have hk' := List.pairwise_cons.mp hk
    have hrest : ImportsWF rest := ⟨hk'.2, fun e he => hv e (by simp [he])⟩
    rcases List.mem_cons.mp ha with ha | ha <;> rcases List.mem_cons.mp hb with hb | hb
    · rw [← ha] at hb; exact (Prod.mk.inj hb).2.symm ▸ rfl
    · exfalso
      have : ltStr e.1 p = true := hk'.1 p (List.mem_map.mpr ⟨(p, b), hb, rfl⟩)
      rw [← ha] at this; exact absurd this (by simp [ltStr_irrefl])
    · exfalso
      have : ltStr e.1 p = true := hk'.1 p (List.mem_map.mpr ⟨(p, a), ha, rfl⟩)
      rw [← hb] at this; exact absurd this (by simp [ltStr_irrefl])
    · exact ih hrest ha hb

theorem importsWF_ext : ∀ {m₁ m₂ : Imports}, ImportsWF m₁ → ImportsWF m₂ → (∀ k, k ∈ keys m₁ ↔ k ∈ keys m₂) →
    (∀ p t, HasPair m₁ p t ↔ HasPair m₂ p t) → m₁ = m₂
  | [], [], _, _, _, _ => rfl
  | [], e :: _, _, _, hk, _ => by
    have := (hk e.1).mpr (by simp [keys]); simp [keys] at this
  | e :: _, [], _, _, hk, _ => by
    have := (hk e.1).mp (by simp [keys]); simp [keys] at this
  | (p₁, t₁) :: r₁, (p₂, t₂) :: r₂, h₁, h₂, hk, hp => by
    obtain ⟨hk₁, hv₁⟩ := h₁
    obtain ⟨hk₂, hv₂⟩ := h₂
    have hk₁' := List.pairwise_cons.mp hk₁
    have hk₂' := List.pairwise_cons.mp hk₂
    have wf₁ : ImportsWF ((p₁, t₁) :: r₁) := ⟨hk₁, hv₁⟩
    have wf₂ : ImportsWF ((p₂, t₂) :: r₂) := ⟨hk₂, hv₂⟩
    have hr₁ : ImportsWF r₁ := ⟨hk₁'.2, fun e he => hv₁ e (by simp [he])⟩
    have hr₂ : ImportsWF r₂ := ⟨hk₂'.2, fun e he => hv₂ e (by simp [he])⟩
    have hpe : p₁ = p₂ := by
      have a := (hk p₁).mp (by simp [keys])
      have b := (hk p₂).mpr (by simp [keys])
      simp only [keys, List.map_cons, List.mem_cons] at a b
      rcases a with a | a
      · exact a
      · rcases b with b | b
        · exact b.symm
        · have x := hk₂'.1 p₁ a
          have y := hk₁'.1 p₂ b
          exact absurd y (by rw [ltStr_asymm x]; simp)
    subst hpe
    have hte : t₁ = t₂ := by
      apply sortedS_ext (hv₁ (p₁, t₁) (by simp)) (hv₂ (p₁, t₂) (by simp))
      intro x
      constructor
      · intro hx
        obtain ⟨tys, hm, ht⟩ := (hp p₁ x).mp ⟨t₁, by simp, hx⟩
        rw [wf_key_unique wf₂ (show (p₁, t₂) ∈ _ by simp) hm]; exact ht
      · intro hx
        obtain ⟨tys, hm, ht⟩ := (hp p₁ x).mpr ⟨t₂, by simp, hx⟩
        rw [wf_key_unique wf₁ (show (p₁, t₁) ∈ _ by simp) hm]; exact ht
    subst hte
    have hne₁ : ∀ k ∈ keys r₁, k ≠ p₁ := fun k hk3 e => by
      have := hk₁'.1 k hk3; rw [e] at this; simp [ltStr_irrefl] at this
    have hne₂ : ∀ k ∈ keys r₂, k ≠ p₁ := fun k hk3 e => by
      have := hk₂'.1 k hk3; rw [e] at this; simp [ltStr_irrefl] at this
    have : r₁ = r₂ := by
      apply importsWF_ext hr₁ hr₂
      · intro k
        constructor
        · intro hk3
          have := (hk k).mp (by simp only [keys, List.map_cons, List.mem_cons]; exact Or.inr hk3)
          simp only [keys, List.map_cons, List.mem_cons] at this
          rcases this with e | e
          · exact absurd e (hne₁ k hk3)
          · exact e
        · intro hk3
          have := (hk k).mpr (by simp only [keys, List.map_cons, List.mem_cons]; exact Or.inr hk3)
          simp only [keys, List.map_cons, List.mem_cons] at this
          rcases this with e | e
          · exact absurd e (hne₂ k hk3)
          · exact e
      · intro q t
        constructor
        · rintro ⟨tys, hm, ht⟩
          have hq : q ≠ p₁ := hne₁ q (List.mem_map.mpr ⟨(q, tys), hm, rfl⟩)
          obtain ⟨tys', hm', ht'⟩ := (hp q t).mp ⟨tys, by simp [hm], ht⟩
          rcases List.mem_cons.mp hm' with e | e
          · exact absurd (Prod.mk.inj e).1 hq
          · exact ⟨tys', e, ht'⟩
        · rintro ⟨tys, hm, ht⟩
          have hq : q ≠ p₁ := hne₂ q (List.mem_map.mpr ⟨(q, tys), hm, rfl⟩)
          obtain ⟨tys', hm', ht'⟩ := (hp q t).mpr ⟨tys, by simp [hm], ht⟩
          rcases List.mem_cons.mp hm' with e | e
          · exact absurd (Prod.mk.inj e).1 hq
          · exact ⟨tys', e, ht'⟩
    rw [this]

/-- **the import map does not depend on the order of the lines** -/
theorem foldl_addLine_perm {ls₁ ls₂ : List (Str × List Str)} (h : ls₁.Perm ls₂) :
    ls₁.foldl addLine [] = ls₂.foldl addLine [] := by
  have wf0 : ImportsWF [] := by simp [ImportsWF]
  apply importsWF_ext (foldl_addLine_wf ls₁ [] wf0) (foldl_addLine_wf ls₂ [] wf0)
  · intro k
    rw [foldl_addLine_keys, foldl_addLine_keys]
    simp only [h.mem_iff]
  · intro p t
    rw [foldl_addLine_pairs, foldl_addLine_pairs]
    simp only [h.mem_iff]

/-- **absorption**: merging into a file whose import block is already the map of earlier lines is the map of all lines -/
theorem foldl_addLine_absorb (ls xs : List (Str × List Str)) :
    (ls.foldl addLine [] ++ xs).foldl addLine [] = (ls ++ xs).foldl addLine [] := by
  have wf0 : ImportsWF [] := by simp [ImportsWF]
  rw [List.foldl_append, List.foldl_append, foldl_addLine_self _ (foldl_addLine_wf ls [] wf0)]

end TsRs.Merge
