import TsRsVerif.Lemmas.HistoryWorld
import TsRsVerif.Lemmas.FsLemmas
import TsRsVerif.Lemmas.AbsLemmas
/-!
# Histories through the entry point `export_to`

`export_to` normalises the path it is given (`path::absolute`), creates the missing parent directories (`create_dir_all`) and
then calls `export_and_merge`. A whole history of such calls — each with its OWN SPELLING of the path, as long as the spellings
have one normal form — behaves like the history of `export_and_merge` calls on the file system in which the parent directories
exist: `create_dir_all` creates them once and is the identity afterwards (also after the file has been written).
-/
namespace TsRs
open Text Export Fs

namespace Fs

/-- `create_dir_all` never removes a directory -/
theorem createDirAllAux_mono (cs : List Comp) : ∀ (fs : Fs) (cur : Loc) (fs' : Fs),
    createDirAllAux fs cur cs = some fs' → ∀ l, fs.lookup l = some .dir → fs'.lookup l = some .dir := by
  induction cs with
  | nil => intro fs cur fs' h l hl; simp [createDirAllAux] at h; subst h; exact hl
  | cons c cs ih =>
    intro fs cur fs' h l hl
    cases c with
    | root => exact ih fs [] fs' (by simpa [createDirAllAux] using h) l hl
    | cur => exact ih fs cur fs' (by simpa [createDirAllAux] using h) l hl
    | parent => exact ih fs cur.dropLast fs' (by simpa [createDirAllAux] using h) l hl
    | normal n =>
      simp only [createDirAllAux] at h
      cases hx : fs.lookup (cur ++ [n]) with
      | none =>
        simp only [hx] at h
        refine ih _ _ _ h l ?_
        rw [lookup_set]
        by_cases h0 : l = []
        · simp [h0]
        · by_cases h1 : l = cur ++ [n]
          · simp [h0, h1]
          · simp [h0, h1, hl]
      | some nd =>
        cases nd with
        | dir => simp only [hx] at h; exact ih _ _ _ h l hl
        | file c => simp [hx] at h

/-- after `create_dir_all` has succeeded, it is the identity on every file system that has (at least) the directories of the
result -/
theorem createDirAllAux_idem (cs : List Comp) : ∀ (fs : Fs) (cur : Loc) (fs' : Fs),
    createDirAllAux fs cur cs = some fs' → ∀ g : Fs, (∀ l, fs'.lookup l = some .dir → g.lookup l = some .dir) →
    createDirAllAux g cur cs = some g := by
  induction cs with
  | nil => intro fs cur fs' _ g _; simp [createDirAllAux]
  | cons c cs ih =>
    intro fs cur fs' h g hg
    cases c with
    | root => simpa [createDirAllAux] using ih fs [] fs' (by simpa [createDirAllAux] using h) g hg
    | cur => simpa [createDirAllAux] using ih fs cur fs' (by simpa [createDirAllAux] using h) g hg
    | parent => simpa [createDirAllAux] using ih fs cur.dropLast fs' (by simpa [createDirAllAux] using h) g hg
    | normal n =>
      simp only [createDirAllAux] at h
      have hdir : fs'.lookup (cur ++ [n]) = some .dir := by
        cases hx : fs.lookup (cur ++ [n]) with
        | none =>
          simp only [hx] at h
          refine createDirAllAux_mono cs _ _ _ h _ ?_
          rw [lookup_set]; simp
        | some nd =>
          cases nd with
          | dir => simp only [hx] at h; exact createDirAllAux_mono cs _ _ _ h _ hx
          | file c => simp [hx] at h
      have hrest : ∃ fs1, createDirAllAux fs1 (cur ++ [n]) cs = some fs' := by
        cases hx : fs.lookup (cur ++ [n]) with
        | none => simp only [hx] at h; exact ⟨_, h⟩
        | some nd =>
          cases nd with
          | dir => simp only [hx] at h; exact ⟨_, h⟩
          | file c => simp [hx] at h
      obtain ⟨fs1, h1⟩ := hrest
      simp only [createDirAllAux, hg _ hdir]
      exact ih fs1 _ fs' h1 g hg

theorem createDirAll_idem (fs : Fs) (p : Str) (fs' : Fs) (h : fs.createDirAll p = some fs') (g : Fs) (hcwd : g.cwd = fs.cwd)
    (hg : ∀ l, fs'.lookup l = some .dir → g.lookup l = some .dir) : g.createDirAll p = some g := by
  unfold createDirAll at h ⊢
  split at h
  · rename_i hp; simp [hp]
  · rename_i hp
    simp only [hp, if_false, hcwd]
    exact createDirAllAux_idem _ _ _ _ h g hg

/-- writing a regular file at a location that is not a directory keeps every directory -/
theorem dirs_set_file (fs : Fs) (loc : Loc) (c : Str) (hnd : fs.lookup loc ≠ some .dir) :
    ∀ l, fs.lookup l = some .dir → (fs.set loc (.file c)).lookup l = some .dir := by
  intro l hl
  rw [lookup_set]
  by_cases h0 : l = []
  · simp [h0]
  · by_cases h1 : l = loc
    · subst h1; exact absurd hl hnd
    · simp [h0, h1, hl]

end Fs

namespace Fs

/-- after `create_dir_all` of a chain of names, the chain can be walked and ends in a directory -/
theorem createDirAllAux_walk (ns : List Str) : ∀ (fs : Fs) (cur : Loc) (fs' : Fs), fs.isDir cur = true →
    createDirAllAux fs cur (ns.map Comp.normal) = some fs' → walk fs' cur (ns.map Comp.normal) = some (cur ++ ns) ∧ fs'.isDir (cur ++ ns) = true := by
  induction ns with
  | nil =>
    intro fs cur fs' hd h
    simp only [List.map_nil, createDirAllAux, Option.some.injEq] at h
    subst h
    simp [walk, hd]
  | cons n ns ih =>
    intro fs cur fs' hd h
    have hcur' : fs'.isDir cur = true := by
      have := createDirAllAux_mono _ fs cur fs' h cur (by simpa [isDir] using hd)
      simpa [isDir] using this
    simp only [List.map_cons, createDirAllAux] at h
    cases hx : fs.lookup (cur ++ [n]) with
    | none =>
      simp only [hx] at h
      have hd1 : (fs.set (cur ++ [n]) .dir).isDir (cur ++ [n]) = true := by simp [isDir, lookup_set]
      obtain ⟨hw, hdd⟩ := ih _ _ _ hd1 h
      simp only [List.map_cons, walk, hcur', if_true]
      simpa using And.intro hw hdd
    | some nd =>
      cases nd with
      | file c => simp [hx] at h
      | dir =>
        simp only [hx] at h
        obtain ⟨hw, hdd⟩ := ih _ _ _ (by simp [isDir, hx]) h
        simp only [List.map_cons, walk, hcur', if_true]
        simpa using And.intro hw hdd

end Fs

open Path in
/-- **the target can be created once `create_dir_all` has run**: for a normalised absolute path `/n₁/../nₖ/name`, its parent is
`/n₁/../nₖ`; after `create_dir_all` of the parent the path resolves to the location `[n₁, .., nₖ, name]` below an existing directory,
so `File::create` succeeds unless that location is a directory -/
theorem target_creatable (fs fsD : Fs) (ns : List Str) (name text : Str) (hns : ∀ n ∈ ns ++ [name], CompName n)
    (hd : fs.createDirAll (Path.ofComps (Comp.root :: N ns)) = some fsD)
    (hnd' : ∀ loc, fsD.resolve (Path.ofComps (Comp.root :: N (ns ++ [name]))) = some loc → fsD.lookup loc ≠ some .dir) :
    Path.parent (Path.ofComps (Comp.root :: N (ns ++ [name]))) = some (Path.ofComps (Comp.root :: N ns)) ∧
    (fsD.fileCreate (Path.ofComps (Comp.root :: N (ns ++ [name]))) text).isSome := by
  have hns' : ∀ n ∈ ns, CompName n := fun n hn => hns n (by simp [hn])
  have hc1 := components_ofComps (ns ++ [name]) hns
  have hc2 := components_ofComps ns hns'
  constructor
  · unfold Path.parent
    rw [hc1]
    simp [N, List.reverse_append]
  · have hne : Path.ofComps (Comp.root :: N ns) ≠ [] := by simp [Path.ofComps]
    unfold Fs.createDirAll at hd
    simp only [hne, if_false, hc2, Fs.createDirAllAux] at hd
    obtain ⟨hw, hdir⟩ := Fs.createDirAllAux_walk ns fs [] fsD (by simp [Fs.isDir, Fs.lookup]) (by simpa [N] using hd)
    have hroot : fsD.isDir [] = true := by simp [Fs.isDir, Fs.lookup]
    have hres : fsD.resolve (Path.ofComps (Comp.root :: N (ns ++ [name]))) = some (ns ++ [name]) := by
      unfold Fs.resolve
      rw [hc1]
      simp only [Fs.walk, N, List.map_append, List.map_cons, List.map_nil]
      have : ∀ (cs : List Comp) (cur l : Loc), Fs.walk fsD cur cs = some l → Fs.walk fsD cur (cs ++ [Comp.normal name]) = Fs.walk fsD l [Comp.normal name] := by
        intro cs
        induction cs with
        | nil => intro cur l h; simp [Fs.walk] at h; subst h; rfl
        | cons c cs ih =>
          intro cur l h
          cases c <;> simp only [Fs.walk, List.cons_append] at h ⊢
          · exact ih _ _ h
          · split at h
            · rename_i hh; simp only [hh, if_true]; exact ih _ _ h
            · cases h
          · split at h
            · rename_i hh; simp only [hh, if_true]; exact ih _ _ h
            · cases h
          · split at h
            · rename_i hh; simp only [hh, if_true]; exact ih _ _ h
            · cases h
      rw [this _ _ _ (by simpa using hw)]
      simp only [List.nil_append] at hdir
      simp [Fs.walk, hdir]
    have hnd := hnd' _ hres
    unfold Fs.fileCreate
    simp only [hres]
    have hdl : (ns ++ [name]).dropLast = ns := by simp
    simp only [List.nil_append] at hdir
    generalize hL : ns ++ [name] = L at hdl hnd ⊢
    cases L with
    | nil => simp at hL
    | cons a l =>
      simp only [hdl, hdir, Bool.not_true, Bool.false_eq_true, if_false]
      cases hl : fsD.lookup (a :: l) with
      | none => simp
      | some nd =>
        cases nd with
        | dir => exact absurd hl hnd
        | file c => simp

/-- one step of a history through `export_to`: its own spelling of the path, the generated text of `g` -/
def tyOfGen (g : GenT) : TyInfo := { ident := g.ident, outputPath := none, text := .ok (genText g), deps := [] }

def runAllTo : World → List (Str × GenT) → World × Bool
  | w, [] => (w, true)
  | w, (p0, g) :: rest =>
    match exportTo w (tyOfGen g) p0 with
    | (w', .ok) => runAllTo w' rest
    | (w', _) => (w', false)

/-- `export_to` on a world whose parent directories exist already is `export_and_merge` on the normal form of the path -/
theorem exportTo_eq (w : World) (g : GenT) (p0 path par : Str) (fsD : Fs)
    (habs : Path.absolute (cwdStr w.fs) p0 = .ok path) (hpar : Path.parent path = some par)
    (hd : w.fs.createDirAll par = some fsD) :
    exportTo w (tyOfGen g) p0 = exportGen { w with fs := fsD } path g := by
  simp [exportTo, tyOfGen, habs, hpar, hd, exportGen]

theorem cwdStr_set (fs : Fs) (l : Loc) (n : Node) : cwdStr (fs.set l n) = cwdStr fs := rfl

theorem historyTo_aux (fsD : Fs) (cwd0 path par : Str) (loc : Loc) (fsI : Fs) (hI : fsI.createDirAll par = some fsD)
    (hpar : Path.parent path = some par) (hcwd : cwdStr fsD = cwd0) (hcI : fsD.cwd = fsI.cwd) :
    ∀ (steps : List (Str × GenT)) (pre : List GenT) (w : World),
    pre ≠ [] → (∀ s ∈ steps, Path.absolute cwd0 s.1 = .ok path) →
    (∀ x ∈ pre ++ steps.map (·.2), GenOK x) → ((pre ++ steps.map (·.2)).map (·.name)).Nodup →
    ((pre ++ steps.map (·.2)).map (·.ident)).Nodup → HInv fsD path loc pre w →
    ∃ w', runAllTo w steps = (w', true) ∧ HInv fsD path loc (pre ++ steps.map (·.2)) w'
  | [], pre, w, _, _, _, _, _, h => ⟨w, rfl, by simpa using h⟩
  | (p0, g) :: rest, pre, w, hne, habs, hok, hnd, hndI, h => by
    have hfresh : g.name ∉ pre.map (·.name) := by
      simp only [List.map_cons, List.map_append] at hnd
      have := (List.nodup_append.mp hnd).2.2
      intro hin
      exact this _ hin _ (by simp) rfl
    have hfreshI : g.ident ∉ pre.map (·.ident) := by
      simp only [List.map_cons, List.map_append] at hndI
      have := (List.nodup_append.mp hndI).2.2
      intro hin
      exact this _ hin _ (by simp) rfl
    obtain ⟨hp, hl, hr, hndl, hfs, names, hn1, hn2⟩ := h
    -- `create_dir_all` is the identity now
    have hsame : w.fs.createDirAll par = some w.fs := by
      refine Fs.createDirAll_idem fsI par fsD hI w.fs ?_ ?_
      · rw [hfs]; exact hcI
      · rw [hfs]; exact Fs.dirs_set_file fsD loc _ hndl
    have hcw : cwdStr w.fs = cwd0 := by rw [hfs, cwdStr_set]; exact hcwd
    have hstep : exportTo w (tyOfGen g) p0 = exportGen w path g := by
      have := exportTo_eq w g p0 path par w.fs (by rw [hcw]; exact habs (p0, g) (by simp)) hpar hsame
      simpa using this
    obtain ⟨w1, h1, hinv1⟩ := next_export fsD w path loc pre g hne (fun x hx => hok x (by simp [hx])) (hok g (by simp)) hfresh hfreshI
      ⟨hp, hl, hr, hndl, hfs, names, hn1, hn2⟩
    obtain ⟨w2, h2, hinv2⟩ := historyTo_aux fsD cwd0 path par loc fsI hI hpar hcwd hcI rest (pre ++ [g]) w1 (by simp)
      (fun s hs => habs s (by simp [hs])) (by simpa using hok) (by simpa using hnd) (by simpa using hndI) hinv1
    refine ⟨w2, ?_, by simpa using hinv2⟩
    simp only [runAllTo, hstep, h1, h2]

/-- **a whole history through `export_to`**: in a process that has not written the file yet, any sequence of `export_to` calls —
each with its own spelling `p0` of the path, all with the normal form `path` — of well-formed generated texts with distinct names:
the parent directories are created by the first call (`fsD`), every call returns `Ok`, and the end is exactly the canonical file of
the sequence on top of `fsD`. -/
theorem historyTo_canonical (w : World) (path par : Str) (fsD : Fs) (p0 : Str) (g : GenT) (rest : List (Str × GenT))
    (habs : ∀ s ∈ (p0, g) :: rest, Path.absolute (cwdStr w.fs) s.1 = .ok path) (hpar : Path.parent path = some par)
    (hd : w.fs.createDirAll par = some fsD)
    (hok : ∀ x ∈ g :: rest.map (·.2), GenOK x) (hnd : ((g :: rest.map (·.2)).map (·.name)).Nodup)
    (hndI : ((g :: rest.map (·.2)).map (·.ident)).Nodup)
    (hp : w.poisoned = false) (hreg : regGet w.reg (regKey path) = none)
    (hc : (fsD.fileCreate path (genText g)).isSome) :
    ∃ w' loc, runAllTo w ((p0, g) :: rest) = (w', true) ∧ HInv fsD path loc (g :: rest.map (·.2)) w' := by
  obtain ⟨fs', hfs'⟩ := Option.isSome_iff_exists.mp hc
  have hstep : exportTo w (tyOfGen g) p0 = exportGen { w with fs := fsD } path g :=
    exportTo_eq w g p0 path par fsD (habs (p0, g) (by simp)) hpar hd
  obtain ⟨w1, loc, h1, hinv1⟩ := first_export { w with fs := fsD } path g fs' (hok g (by simp)) hp hreg hfs'
  have hcwdD : fsD.cwd = w.fs.cwd := (Fs.createDirAll_frame _ _ _ hd).2
  have hcw : cwdStr fsD = cwdStr w.fs := by simp [cwdStr, hcwdD]
  obtain ⟨w2, h2, hinv2⟩ := historyTo_aux fsD (cwdStr w.fs) path par loc w.fs hd hpar hcw hcwdD rest [g] w1 (by simp)
    (fun s hs => habs s (by simp [hs])) (by simpa using hok) (by simpa using hnd) (by simpa using hndI) hinv1
  refine ⟨w2, loc, ?_, by simpa using hinv2⟩
  simp only [runAllTo, hstep, h1, h2]

/-- **order and spelling independence through `export_to`**: two histories whose generated texts are permutations of one another,
each step with ANY spelling of the path that has the normal form `path`, both succeed and end in the same file system -/
theorem historyTo_order_independent (w : World) (path par : Str) (fsD : Fs) (s₁ s₂ : List (Str × GenT))
    (hperm : (s₁.map (·.2)).Perm (s₂.map (·.2))) (hne : s₁ ≠ [])
    (habs₁ : ∀ s ∈ s₁, Path.absolute (cwdStr w.fs) s.1 = .ok path) (habs₂ : ∀ s ∈ s₂, Path.absolute (cwdStr w.fs) s.1 = .ok path)
    (hpar : Path.parent path = some par) (hd : w.fs.createDirAll par = some fsD)
    (hok : ∀ x ∈ s₁.map (·.2), GenOK x) (hnd : ((s₁.map (·.2)).map (·.name)).Nodup) (hndI : ((s₁.map (·.2)).map (·.ident)).Nodup)
    (hp : w.poisoned = false) (hreg : regGet w.reg (regKey path) = none)
    (hc : ∃ text, (fsD.fileCreate path text).isSome) :
    ∃ w₁ w₂, runAllTo w s₁ = (w₁, true) ∧ runAllTo w s₂ = (w₂, true) ∧ w₁.fs = w₂.fs := by
  obtain ⟨t0, ht0⟩ := hc
  cases s₁ with
  | nil => exact absurd rfl hne
  | cons a as =>
    cases s₂ with
    | nil => exact absurd hperm.length_eq (by simp)
    | cons b bs =>
      obtain ⟨pa, ga⟩ := a
      obtain ⟨pb, gb⟩ := b
      have hok₂ : ∀ x ∈ gb :: bs.map (·.2), GenOK x := fun x hx => hok x (hperm.mem_iff.mpr (by simpa using hx))
      have hnd₂ : ((gb :: bs.map (·.2)).map (·.name)).Nodup := by
        have := (hperm.map (·.name)).nodup_iff.mp hnd; simpa using this
      have hndI₂ : ((gb :: bs.map (·.2)).map (·.ident)).Nodup := by
        have := (hperm.map (·.ident)).nodup_iff.mp hndI; simpa using this
      obtain ⟨w₁, l₁, r₁, i₁⟩ := historyTo_canonical w path par fsD pa ga as habs₁ hpar hd (by simpa using hok) (by simpa using hnd)
        (by simpa using hndI) hp hreg (fileCreate_text_irrel _ _ _ _ ht0)
      obtain ⟨w₂, l₂, r₂, i₂⟩ := historyTo_canonical w path par fsD pb gb bs habs₂ hpar hd hok₂ hnd₂ hndI₂ hp hreg
        (fileCreate_text_irrel _ _ _ _ ht0)
      refine ⟨w₁, w₂, r₁, r₂, ?_⟩
      obtain ⟨_, _, hr₁, _, hf₁, _⟩ := i₁
      obtain ⟨_, _, hr₂, _, hf₂, _⟩ := i₂
      have : l₁ = l₂ := by rw [hr₁] at hr₂; exact Option.some.inj hr₂
      subst this
      rw [hf₁, hf₂, canonSt_perm _ _ (by simpa using hperm) (by simpa using hnd)]

open Path in
/-- the same from what `export_to` computes: the normal form of ANY spelling, its parent, `create_dir_all` of the parent -/
theorem exportTo_target_creatable (w : World) (p0 path par : Str) (fsD : Fs) (text : Str)
    (habs : Path.absolute (cwdStr w.fs) p0 = .ok path) (hpar : Path.parent path = some par) (hd : w.fs.createDirAll par = some fsD)
    (hnd : ∀ loc, fsD.resolve path = some loc → fsD.lookup loc ≠ some .dir) : (fsD.fileCreate path text).isSome := by
  obtain ⟨ns, hq, hns⟩ := absolute_shape (cwdStr w.fs) p0 path (by simp [cwdStr, isAbsolute]) habs
  subst hq
  rcases List.eq_nil_or_concat ns with rfl | ⟨ns', name, rfl⟩
  · exfalso
    have hc := components_ofComps [] (by simp)
    unfold Path.parent at hpar
    rw [hc] at hpar
    simp [N] at hpar
  · have hns2 : ∀ n ∈ ns' ++ [name], CompName n := by simpa using hns
    have hp := (target_creatable w.fs fsD ns' name text hns2 · (by simpa using hnd))
    have hpar' : Path.parent (ofComps (Comp.root :: N (ns' ++ [name]))) = some (ofComps (Comp.root :: N ns')) := by
      have hc1 := components_ofComps (ns' ++ [name]) hns2
      unfold Path.parent
      rw [hc1]
      simp [N, List.reverse_append]
    have hpe : par = ofComps (Comp.root :: N ns') := by
      have : some par = some (ofComps (Comp.root :: N ns')) := by rw [← hpar]; simpa using hpar'
      exact Option.some.inj this
    subst hpe
    simpa using (hp hd).2

end TsRs
