import TsRsVerif.Model.Deps
import TsRsVerif.Lemmas.SortedStr
/-! `dedupByName` does not depend on the order in which the dependencies were visited, as long as no
    two candidates share a name. -/
namespace TsRs
open Text Derive

/-- in a list without two entries of the same key, `find?` by key returns the one entry with that key,
    wherever it stands -/
theorem find?_unique {α : Type} (key : α → Str) : ∀ (l : List α) (n : Str) (x : α),
    (l.map key).Nodup → x ∈ l → key x = n → l.find? (fun y => key y = n) = some x
  | [], _, _, _, h, _ => by cases h
  | y :: ys, n, x, hnd, hx, hk => by
    simp only [List.map_cons, List.nodup_cons] at hnd
    rcases List.mem_cons.mp hx with rfl | hx'
    · simp [List.find?, hk]
    · have hne : key y ≠ n := by
        intro h
        apply hnd.1
        rw [h, ← hk]
        exact List.mem_map.mpr ⟨x, hx', rfl⟩
      simp only [List.find?, hne, decide_false]
      exact find?_unique key ys n x hnd.2 hx' hk

theorem find?_none_of_not_mem {α : Type} (key : α → Str) (l : List α) (n : Str) (h : n ∉ l.map key) :
    l.find? (fun y => key y = n) = none := by
  rw [List.find?_eq_none]
  intro y hy hk
  simp only [decide_eq_true_eq] at hk
  exact h (List.mem_map.mpr ⟨y, hy, hk⟩)

/-- `find?` by key agrees on two permutations of a list with unique keys -/
theorem find?_perm {α : Type} (key : α → Str) (l l' : List α) (hp : l.Perm l') (hnd : (l.map key).Nodup) (n : Str) :
    l.find? (fun y => key y = n) = l'.find? (fun y => key y = n) := by
  have hnd' : (l'.map key).Nodup := (hp.map key).nodup_iff.mp hnd
  by_cases h : n ∈ l.map key
  · obtain ⟨x, hx, hk⟩ := List.mem_map.mp h
    rw [find?_unique key l n x hnd hx hk, find?_unique key l' n x hnd' (hp.mem_iff.mp hx) hk]
  · have h' : n ∉ l'.map key := fun hh => h ((hp.map key).mem_iff.mpr hh)
    rw [find?_none_of_not_mem key l n h, find?_none_of_not_mem key l' n h']

/-- **the candidates sorted by name do not depend on the visiting order** -/
theorem dedupByName_perm (it : Item) (deps deps' : List Visited) (hp : deps.Perm deps')
    (hnd : ((deps.filter fun d => !RTy.beq d.ty (withoutGenerics it)).map (·.ident)).Nodup) :
    dedupByName it deps = dedupByName it deps' := by
  unfold dedupByName
  simp only
  have hc : (deps.filter fun d => !RTy.beq d.ty (withoutGenerics it)).Perm
      (deps'.filter fun d => !RTy.beq d.ty (withoutGenerics it)) := hp.filter _
  have hnames' : List.foldl (fun acc d => insertSorted d.ident acc) []
      (deps.filter fun d => !RTy.beq d.ty (withoutGenerics it)) =
      List.foldl (fun acc d => insertSorted d.ident acc) [] (deps'.filter fun d => !RTy.beq d.ty (withoutGenerics it)) := by
    have := foldl_insertSorted_perm _ _ (hc.map (·.ident))
    simpa [List.foldl_map] using this
  rw [hnames']
  have hr : ((deps.filter fun d => !RTy.beq d.ty (withoutGenerics it)).reverse.map (·.ident)).Nodup := by
    rw [List.map_reverse]; exact (List.reverse_perm _).nodup_iff.mpr hnd
  have hf : ∀ n : Str, (deps.filter fun d => !RTy.beq d.ty (withoutGenerics it)).reverse.find? (fun d => d.ident = n)
      = (deps'.filter fun d => !RTy.beq d.ty (withoutGenerics it)).reverse.find? (fun d => d.ident = n) := fun n =>
    find?_perm (·.ident) _ _ ((List.reverse_perm _).trans (hc.trans (List.reverse_perm _).symm)) hr n
  simp only [hf]

end TsRs
