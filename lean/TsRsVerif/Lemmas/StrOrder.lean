import TsRsVerif.Model.Text
/-! `ltStr` (Rust's byte-wise `str` order) is a strict total order. -/
namespace TsRs.Text

theorem ltStr_irrefl (a : Str) : ltStr a a = false := by
  induction a with
  | nil => rfl
  | cons c cs ih => simp [ltStr, ih]

theorem ltStr_asymm {a b : Str} (h : ltStr a b = true) : ltStr b a = false := by
  induction a generalizing b with
  | nil => cases b <;> simp_all [ltStr]
  | cons c cs ih =>
    cases b with
    | nil => simp [ltStr] at h
    | cons d ds =>
      simp only [ltStr] at h ⊢
      by_cases h1 : c.toNat < d.toNat
      · have : ¬ d.toNat < c.toNat := by omega
        simp [this, h1]
      · by_cases h2 : d.toNat < c.toNat
        · simp [h1, h2] at h
        · simp [h1, h2] at h ⊢; exact ih h

theorem ltStr_trans {a b c : Str} (h1 : ltStr a b = true) (h2 : ltStr b c = true) : ltStr a c = true := by
  induction a generalizing b c with
  | nil => cases b <;> cases c <;> simp_all [ltStr]
  | cons x xs ih =>
    cases b with
    | nil => simp [ltStr] at h1
    | cons y ys =>
      cases c with
      | nil => simp [ltStr] at h2
      | cons z zs =>
        simp only [ltStr] at h1 h2 ⊢
        by_cases hxy : x.toNat < y.toNat
        · by_cases hyz : y.toNat < z.toNat
          · have : x.toNat < z.toNat := by omega
            simp [this]
          · by_cases hzy : z.toNat < y.toNat
            · simp [hyz, hzy] at h2
            · have : x.toNat < z.toNat := by omega
              simp [this]
        · by_cases hyx : y.toNat < x.toNat
          · simp [hxy, hyx] at h1
          · simp [hxy, hyx] at h1
            by_cases hyz : y.toNat < z.toNat
            · have : x.toNat < z.toNat := by omega
              simp [this]
            · by_cases hzy : z.toNat < y.toNat
              · simp [hyz, hzy] at h2
              · simp [hyz, hzy] at h2
                have e1 : ¬ x.toNat < z.toNat := by omega
                have e2 : ¬ z.toNat < x.toNat := by omega
                simp [e1, e2]; exact ih h1 h2

theorem ltStr_total {a b : Str} (h : a ≠ b) : ltStr a b = true ∨ ltStr b a = true := by
  induction a generalizing b with
  | nil => cases b with
    | nil => exact absurd rfl h
    | cons d ds => left; rfl
  | cons c cs ih =>
    cases b with
    | nil => right; rfl
    | cons d ds =>
      simp only [ltStr]
      by_cases h1 : c.toNat < d.toNat
      · left; simp [h1]
      · by_cases h2 : d.toNat < c.toNat
        · right; simp [h2]
        · have hcd : c = d := Char.toNat_inj.mp (by omega)
          subst hcd
          have : cs ≠ ds := fun e => h (by rw [e])
          simp [h1]; exact ih this

theorem ltStr_ne {a b : Str} (h : ltStr a b = true) : a ≠ b := by
  intro e; subst e; simp [ltStr_irrefl] at h

end TsRs.Text
