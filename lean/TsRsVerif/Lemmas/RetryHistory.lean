import TsRsVerif.Lemmas.HistoryToMulti
/-!
# A failed export inside a history

A step that returns an error changes neither the registry nor the lock (`exportTo_err_untouched`); the invariant `TInv` of the
several-files history speaks about the file system, the registry and the lock separately. So after ANY failed step, under any
obstacle, as soon as the file system again meets the file-system clauses of the invariant (the obstacle is gone; directories the
failed step created may stay), the rest of the history — the retry included — succeeds and ends in the invariant of the history in
which the failure never happened.
-/
namespace TsRs
open Text Export Fs

/-- a failed `export_to` leaves the registry and the lock as they were -/
theorem exportTo_err_untouched (w w' : World) (t : TyInfo) (p : Str) (e : ExportErr)
    (h : exportTo w t p = (w', .err e)) : w'.reg = w.reg ∧ w'.poisoned = w.poisoned := by
  unfold exportTo at h
  cases ha : Path.absolute (cwdStr w.fs) p with
  | error e' => simp [ha] at h; obtain ⟨h1, _⟩ := h; subst h1; exact ⟨rfl, rfl⟩
  | ok path =>
    simp only [ha] at h
    cases ht : t.text with
    | error e' => simp [ht] at h; obtain ⟨h1, _⟩ := h; subst h1; exact ⟨rfl, rfl⟩
    | ok text =>
      simp only [ht] at h
      cases hpar : Path.parent path with
      | none =>
        simp only [hpar] at h
        have := exportAndMerge_err _ _ _ _ _ _ h
        subst this; exact ⟨rfl, rfl⟩
      | some par =>
        simp only [hpar] at h
        cases hc : w.fs.createDirAll par with
        | none => simp [hc] at h; obtain ⟨h1, _⟩ := h; subst h1; exact ⟨rfl, rfl⟩
        | some fs' =>
          simp only [hc] at h
          have := exportAndMerge_err _ _ _ _ _ _ h
          subst this; exact ⟨rfl, rfl⟩

/-- the invariant determines every regular file -/
theorem tinv_same_files (fs0 : Fs) (slots : List TSlot) (done : List Op) (w₁ w₂ : World)
    (h₁ : TInv fs0 slots done w₁) (h₂ : TInv fs0 slots done w₂) :
    ∀ l c, w₁.fs.lookup l = some (.file c) ↔ w₂.fs.lookup l = some (.file c) := by
  intro l c
  by_cases hex : ∃ (i : Nat) (s : TSlot), slots[i]? = some s ∧ s.loc = l ∧ gensAt i done ≠ []
  · obtain ⟨i, s, hsl, hl, hne⟩ := hex
    subst hl
    rw [h₁.files i s hsl hne, h₂.files i s hsl hne]
  · have hnone : ∀ (i : Nat) s, slots[i]? = some s → s.loc = l → gensAt i done = [] := by
      intro i s hsl hl
      refine Classical.byContradiction fun hne => hex ⟨i, s, hsl, hl, hne⟩
    rw [h₁.others l c hnone, h₂.others l c hnone]

/-- the invariant with another file system, registry and lock taken from `w` -/
def withFs (w : World) (fs : Fs) : World := { w with fs := fs }

/-- **retry after a failure**: `w₁` is the world after the steps `done`; under an obstacle (`wobs`: any file system, the same
registry and lock) a step fails with an error (`wf`); in `w₂` the obstacle is gone (the file system again meets the invariant's
clauses about files and directories; registry and lock are the failed world's). Then the rest of the history, the retry included,
succeeds and ends in the invariant of the failure-free history. -/
theorem retry_history (fs0 : Fs) (slots : List TSlot) (hs : TSlotsOK fs0 slots) (done : List Op) (w₁ wobs wf w₂ : World)
    (t : TyInfo) (p : Str) (e : ExportErr) (rest : List TOp)
    (h₁ : TInv fs0 slots done w₁)
    (hobsR : wobs.reg = w₁.reg) (hobsP : wobs.poisoned = w₁.poisoned)
    (hfail : exportTo wobs t p = (wf, .err e))
    (h2R : w₂.reg = wf.reg) (h2P : w₂.poisoned = wf.poisoned)
    (h2fs : TInv fs0 slots done (withFs w₁ w₂.fs))
    (hr : ∀ op ∈ rest, op.1.1 < slots.length)
    (hsp : ∀ op ∈ rest, ∀ s, slots[op.1.1]? = some s → Path.absolute (cwdStr fs0) op.2 = .ok s.path)
    (hg : ∀ x, (∃ op ∈ rest, op.1.2 = x) ∨ (∃ op ∈ done, op.2 = x) → GenOK x)
    (hnm : ∀ i, ((gensAt i (done ++ rest.map (·.1))).map (·.name)).Nodup)
    (hid : ∀ i, ((gensAt i (done ++ rest.map (·.1))).map (·.ident)).Nodup) :
    (∃ w', runOpsTo slots w₂ rest = (w', true) ∧ TInv fs0 slots (done ++ rest.map (·.1)) w') ∧
    (∃ w'', runOpsTo slots w₁ rest = (w'', true) ∧ TInv fs0 slots (done ++ rest.map (·.1)) w'') := by
  obtain ⟨hfr, hfp⟩ := exportTo_err_untouched wobs wf t p e hfail
  have hw2 : w₂ = withFs w₁ w₂.fs := by
    cases w₂ with
    | mk fs reg poisoned =>
      simp only at h2R h2P
      simp only [withFs, h2R, hfr, hobsR, h2P, hfp, hobsP]
  have hinv2 : TInv fs0 slots done w₂ := by rw [hw2]; exact h2fs
  exact ⟨tmulti_aux fs0 slots hs rest done w₂ hinv2 hr hsp hg hnm hid, tmulti_aux fs0 slots hs rest done w₁ h₁ hr hsp hg hnm hid⟩

end TsRs
