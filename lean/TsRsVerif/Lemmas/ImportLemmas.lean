import TsRsVerif.Model.Deps
import TsRsVerif.Lemmas.SortedStr
/-! Invariants of the import map built by `generate_imports` / `merge`. -/
namespace TsRs.Merge
open TsRs.Text

/-- every name list strictly sorted (so: no name twice under one specifier) and the specifiers
    strictly sorted (so: one import line per specifier) -/
def ImportsWF (m : Imports) : Prop :=
  (m.map (·.1)).Pairwise (fun a b => ltStr a b = true) ∧ ∀ e ∈ m, SortedS e.2

theorem insertImport_keys (path ty : Str) (m : Imports) (k : Str) :
    k ∈ (insertImport path ty m).map (·.1) ↔ k = path ∨ k ∈ m.map (·.1) := by
  induction m with
  | nil => simp [insertImport]
  | cons e rest ih =>
    obtain ⟨p, tys⟩ := e
    simp only [insertImport]
    split
    · simp
    · split
      · rename_i h; subst h; simp
      · simp only [List.map_cons, List.mem_cons, ih]
        constructor
        · rintro (h | h | h)
          · exact Or.inr (Or.inl h)
          · exact Or.inl h
          · exact Or.inr (Or.inr h)
        · rintro (h | h | h)
          · exact Or.inr (Or.inl h)
          · exact Or.inl h
          · exact Or.inr (Or.inr h)

theorem insertImport_wf (path ty : Str) (m : Imports) (h : ImportsWF m) : ImportsWF (insertImport path ty m) := by
  induction m with
  | nil => simp [insertImport, ImportsWF, SortedS, insertSorted]
  | cons e rest ih =>
    obtain ⟨p, tys⟩ := e
    obtain ⟨hk, hv⟩ := h
    have hk' := List.pairwise_cons.mp hk
    have hrest : ImportsWF rest := ⟨hk'.2, fun e he => hv e (by simp [he])⟩
    simp only [insertImport]
    split
    · rename_i hlt
      refine ⟨?_, ?_⟩
      · simp only [List.map_cons]
        refine List.pairwise_cons.mpr ⟨?_, hk⟩
        intro k hk2
        simp only [List.map_cons, List.mem_cons] at hk2
        rcases hk2 with hk2 | hk2
        · subst hk2; exact hlt
        · exact ltStr_trans hlt (hk'.1 k hk2)
      · intro e he; simp at he
        rcases he with he | he | he
        · subst he; simp [SortedS]
        · subst he; exact hv (p, tys) (by simp)
        · exact hv e (by simp [he])
    · rename_i hnlt
      split
      · rename_i heq
        refine ⟨by simpa using hk, ?_⟩
        intro e he; simp at he
        rcases he with he | he
        · subst he; exact insertSorted_sorted ty tys (hv (p, tys) (by simp))
        · exact hv e (by simp [he])
      · rename_i hne
        obtain ⟨ihk, ihv⟩ := ih hrest
        refine ⟨?_, ?_⟩
        · simp only [List.map_cons]
          refine List.pairwise_cons.mpr ⟨?_, ihk⟩
          intro k hk2
          rcases (insertImport_keys path ty rest k).mp hk2 with h1 | h1
          · subst h1
            rcases ltStr_total hne with h2 | h2
            · exact absurd h2 hnlt
            · exact h2
          · exact hk'.1 k h1
        · intro e he; simp at he
          rcases he with he | he
          · subst he; exact hv (p, tys) (by simp)
          · exact ihv e he

end TsRs.Merge
