import TsRsVerif.Model.TsEval
/-! Soundness of the executable membership test: `memberb … = true → Member …`.
    So a `true` verdict of the oracle (run on the implementation's real output) IS a statement in
    the formal semantics of `Model/Ts.lean`. -/
namespace TsRs.Ts

theorem splits_perm {α : Type} : ∀ (l : List α) (a b : List α), (a, b) ∈ splits l → (a ++ b).Perm l
  | [], a, b, h => by simp [splits] at h; obtain ⟨rfl, rfl⟩ := h; simp
  | x :: xs, a, b, h => by
    simp only [splits, List.mem_flatMap] at h
    obtain ⟨⟨a', b'⟩, hmem, hab⟩ := h
    have ih := splits_perm xs a' b' hmem
    simp only [List.mem_cons, Prod.mk.injEq, List.not_mem_nil, or_false] at hab
    rcases hab with ⟨rfl, rfl⟩ | ⟨rfl, rfl⟩
    · simpa using ih
    · exact (List.perm_middle).trans (List.Perm.cons x ih)

theorem keyJson_cases (key : Str) (kj : JVal) (h : kj ∈ keyJson key) :
    kj = .str key ∨ ∃ i : Int, kj = .int i ∧ (toString i).toList = key := by
  unfold keyJson at h
  simp only [List.mem_append, List.mem_cons, List.not_mem_nil, or_false] at h
  rcases h with h | h
  · exact Or.inl h
  · split at h
    · split at h
      · rename_i i _ hi
        simp at h
        exact Or.inr ⟨i, h, hi⟩
      · simp at h
    · simp at h

mutual
theorem memberb_sound (D : Decls) : ∀ (f : Nat) (t : Ts) (j : JVal), memberb D f t j = true → Member D t j
  | 0, _, _, h => by simp [memberb] at h
  | f + 1, t, j, h => by
    cases t with
    | number => cases j <;> simp [memberb] at h <;> first | exact Member.numberInt _ | exact Member.numberFloat _
    | bigint => cases j <;> simp [memberb] at h; exact Member.bigint _
    | string => cases j <;> simp [memberb] at h; exact Member.string _
    | boolean => cases j <;> simp [memberb] at h; exact Member.boolean _
    | null => cases j <;> simp [memberb] at h; exact Member.null
    | never => cases j <;> simp [memberb] at h
    | lit s => cases j <;> simp [memberb] at h; subst h; exact Member.lit _
    | ref n args =>
      simp only [memberb] at h
      cases hl : lookupDecl D n with
      | none => simp [hl] at h
      | some pb =>
        obtain ⟨ps, body⟩ := pb
        simp only [hl] at h
        exact Member.ref hl (memberb_sound D f _ j h)
    | param n => cases j <;> simp [memberb] at h
    | array x =>
      cases j with
      | arr js => simp only [memberb] at h; exact Member.array (all_sound D f x js (by simpa using h))
      | _ => simp [memberb] at h
    | tuple xs =>
      cases j with
      | arr js =>
        simp only [memberb, Bool.and_eq_true, beq_iff_eq] at h
        exact Member.tuple (zip_sound D f xs js h.1 (by simpa using h.2))
      | _ => simp [memberb] at h
    | neverArray =>
      cases j with
      | arr js =>
        cases js with
        | nil => exact Member.neverArray
        | cons _ _ => simp [memberb] at h
      | _ => simp [memberb] at h
    | emptyRecord =>
      cases j with
      | obj kvs =>
        cases kvs with
        | nil => exact Member.emptyRecord
        | cons _ _ => simp [memberb] at h
      | _ => simp [memberb] at h
    | obj fs =>
      cases j with
      | obj kvs =>
        simp only [memberb, Bool.and_eq_true] at h
        refine Member.obj (fields_sound D f fs kvs (by simpa using h.1)) ?_
        intro k hk
        have h2 := h.2
        rw [List.all_eq_true] at h2
        simp only [JVal.keys, List.mem_map] at hk
        obtain ⟨kv, hkv, rfl⟩ := hk
        have := h2 kv hkv
        rw [List.any_eq_true] at this
        obtain ⟨fld, hf, he⟩ := this
        exact ⟨fld, hf, by simpa using he⟩
      | _ => simp [memberb] at h
    | mapped k v =>
      cases j with
      | obj kvs => simp only [memberb] at h; exact Member.mapped (map_sound D f k v kvs (by simpa using h))
      | _ => simp [memberb] at h
    | union xs =>
      simp only [memberb] at h
      rw [List.any_eq_true] at h
      obtain ⟨x, hx, hm⟩ := h
      exact Member.union hx (memberb_sound D f x j hm)
    | inter xs =>
      cases j with
      | obj kvs => simp only [memberb] at h; exact interObjb_sound D f xs kvs h
      | null => simp only [memberb] at h; exact inter_val_sound D f xs .null rfl (by simpa using h)
      | bool b => simp only [memberb] at h; exact inter_val_sound D f xs (.bool b) rfl (by simpa using h)
      | int i => simp only [memberb] at h; exact inter_val_sound D f xs (.int i) rfl (by simpa using h)
      | float r => simp only [memberb] at h; exact inter_val_sound D f xs (.float r) rfl (by simpa using h)
      | str s => simp only [memberb] at h; exact inter_val_sound D f xs (.str s) rfl (by simpa using h)
      | arr js => simp only [memberb] at h; exact inter_val_sound D f xs (.arr js) rfl (by simpa using h)
    | paren x => simp only [memberb] at h; exact Member.paren (memberb_sound D f x j h)
    | raw s => cases j <;> simp [memberb] at h
termination_by f _ _ _ => (f, 0)
theorem all_sound (D : Decls) (f : Nat) (t : Ts) : ∀ (js : List JVal), (∀ x ∈ js, memberb D f t x = true) → MemberAll D t js
  | [], _ => MemberAll.nil
  | j :: js, h => MemberAll.cons (memberb_sound D f t j (h j (by simp))) (all_sound D f t js (fun x hx => h x (by simp [hx])))
termination_by js _ => (f, 1 + js.length)
theorem zip_sound (D : Decls) (f : Nat) : ∀ (ts : List Ts) (js : List JVal), ts.length = js.length →
    (∀ p ∈ ts.zip js, memberb D f p.1 p.2 = true) → MemberZip D ts js
  | [], [], _, _ => MemberZip.nil
  | [], _ :: _, hl, _ => by simp at hl
  | _ :: _, [], hl, _ => by simp at hl
  | t :: ts, j :: js, hl, h =>
    MemberZip.cons (memberb_sound D f t j (h (t, j) (by simp)))
      (zip_sound D f ts js (by simpa using hl) (fun p hp => h p (by simp [hp])))
termination_by ts _ _ _ => (f, 1 + ts.length)
theorem fields_sound (D : Decls) (f : Nat) : ∀ (fs : List (TsKey × Ts)) (kvs : List (Str × JVal)),
    (∀ fld ∈ fs, fieldCheck (JVal.lookup fld.1.name kvs) fld.1.optional (fun v => memberb D f fld.2 v) = true) →
    MemberFields D fs kvs
  | [], _, _ => MemberFields.nil
  | (k, t) :: fs, kvs, h => by
    have h1 := h (k, t) (by simp)
    have rest := fields_sound D f fs kvs (fun fld hf => h fld (by simp [hf]))
    cases hl : JVal.lookup k.name kvs with
    | none => simp only [hl, fieldCheck] at h1; exact MemberFields.absent hl h1 rest
    | some v => simp only [hl, fieldCheck] at h1; exact MemberFields.present hl (memberb_sound D f t v h1) rest
termination_by fs _ _ => (f, 1 + fs.length)
theorem map_sound (D : Decls) (f : Nat) (k v : Ts) : ∀ (kvs : List (Str × JVal)),
    (∀ kv ∈ kvs, ((keyJson kv.1).any (fun kj => memberb D f k kj) && memberb D f v kv.2) = true) → MemberMap D k v kvs
  | [], _ => MemberMap.nil
  | (key, val) :: kvs, h => by
    have h1 := h (key, val) (by simp)
    have rest := map_sound D f k v kvs (fun kv hkv => h kv (by simp [hkv]))
    simp only [Bool.and_eq_true, List.any_eq_true] at h1
    obtain ⟨⟨kj, hkj, hm⟩, hv⟩ := h1
    have hvm := memberb_sound D f v val hv
    rcases keyJson_cases key kj hkj with rfl | ⟨i, rfl, hi⟩
    · exact MemberMap.consStr (memberb_sound D f k _ hm) hvm rest
    · exact MemberMap.consInt i hi (memberb_sound D f k _ hm) hvm rest
termination_by kvs _ => (f, 1 + kvs.length)
theorem inter_val_sound (D : Decls) (f : Nat) : ∀ (ts : List Ts) (j : JVal), j.isObj = false →
    (∀ t ∈ ts, memberb D f t j = true) → Member D (.inter ts) j
  | [], _, _, _ => Member.interNil
  | [t], j, _, h => Member.interOne (memberb_sound D f t j (h t (by simp)))
  | t :: t' :: ts, j, hj, h =>
    Member.interVal hj (memberb_sound D f t j (h t (by simp))) (inter_val_sound D f (t' :: ts) j hj (fun x hx => h x (by simp [hx])))
termination_by ts _ _ _ => (f, 1 + ts.length)
theorem interObjb_sound (D : Decls) : ∀ (f : Nat) (ts : List Ts) (kvs : List (Str × JVal)),
    interObjb D f ts kvs = true → Member D (.inter ts) (.obj kvs)
  | 0, _, _, h => by simp [interObjb] at h
  | _ + 1, [], _, _ => Member.interNil
  | f + 1, [t], kvs, h => by simp only [interObjb] at h; exact Member.interOne (memberb_sound D f t _ h)
  | f + 1, t :: t' :: ts, kvs, h => by
    simp only [interObjb] at h
    rw [List.any_eq_true] at h
    obtain ⟨⟨a, b⟩, hab, hm⟩ := h
    simp only [Bool.and_eq_true] at hm
    exact Member.interObj (splits_perm kvs a b hab) (memberb_sound D f t _ hm.1) (interObjb_sound D f (t' :: ts) b hm.2) (by simp)
termination_by f _ _ _ => (f, 0)
end

end TsRs.Ts
