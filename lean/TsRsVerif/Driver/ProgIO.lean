/-
  ProgIO.lean — (driver only) decoding of programs (items, type expressions, values) from the JSON
  the corpus generator writes, and encoding of results.
-/
import Lean.Data.Json
import TsRsVerif.Model.Deps
import TsRsVerif.Model.Serde
import TsRsVerif.Model.TsParse
import TsRsVerif.Model.TsEval
open Lean TsRs

namespace ProgIO

def str (j : Json) (k : String) : Str := match j.getObjValAs? String k with | .ok s => s.toList | .error _ => []
def strOpt (j : Json) (k : String) : Option Str := match j.getObjValAs? String k with | .ok s => some s.toList | .error _ => none
def bool (j : Json) (k : String) : Bool := match j.getObjValAs? Bool k with | .ok b => b | .error _ => false
def nat (j : Json) (k : String) : Nat := match j.getObjValAs? Nat k with | .ok n => n | .error _ => 0
def arr (j : Json) (k : String) : List Json := match j.getObjVal? k with | .ok (Json.arr a) => a.toList | _ => []
def obj? (j : Json) (k : String) : Option Json := match j.getObjVal? k with | .ok (Json.null) => none | .ok v => some v | .error _ => none

def wrapKind : String → WrapKind
  | "ref" => .ref | "box" => .box | "arc" => .arc | "rc" => .rc | "cow" => .cow | "cell" => .cell
  | "refcell" => .refCell | "mutex" => .mutex | "rwlock" => .rwLock | "weak" => .weak | _ => .phantom

partial def rty (j : Json) : RTy :=
  match String.ofList (str j "k") with
  | "prim" => .prim (String.ofList (str j "r"))
  | "option" => .option (rty ((obj? j "t").getD Json.null))
  | "vec" => .vec (rty ((obj? j "t").getD Json.null))
  | "slice" => .slice (rty ((obj? j "t").getD Json.null))
  | "set" => .set (rty ((obj? j "t").getD Json.null))
  | "arr" => .arr (rty ((obj? j "t").getD Json.null)) (nat j "n")
  | "tuple" => .tuple ((arr j "ts").map rty)
  | "map" => .map (rty ((obj? j "a").getD Json.null)) (rty ((obj? j "b").getD Json.null))
  | "result" => .result (rty ((obj? j "a").getD Json.null)) (rty ((obj? j "b").getD Json.null))
  | "range" => .range (rty ((obj? j "t").getD Json.null))
  | "wrap" => .wrap (wrapKind (String.ofList (str j "w"))) (rty ((obj? j "t").getD Json.null))
  | "named" => .named (str j "id") ((arr j "args").map rty)
  | "param" => .param (str j "n")
  | _ => .prim "?"

partial def rval (j : Json) : RVal :=
  match String.ofList (str j "k") with
  | "int" => .int ((String.ofList (str j "i")).toInt?.getD 0)
  | "float" => .float (str j "r")
  | "nan" => .nonFinite
  | "bool" => .bool (bool j "b")
  | "char" => .char ((str j "c").headD ' ')
  | "str" => .str (str j "s")
  | "unit" => .unit
  | "none" => .none
  | "some" => .some (rval ((obj? j "v").getD Json.null))
  | "seq" => .seq ((arr j "vs").map rval)
  | "map" => .map ((arr j "kvs").map fun kv => match kv with
      | Json.arr #[a, b] => (rval a, rval b)
      | _ => (.unit, .unit))
  | "ok" => .ok (rval ((obj? j "v").getD Json.null))
  | "err" => .err (rval ((obj? j "v").getD Json.null))
  | "range" => .range (rval ((obj? j "a").getD Json.null)) (rval ((obj? j "b").getD Json.null))
  | "phantom" => .phantom
  | "weak_dead" => .weakDead
  | "struct" => .strukt ((arr j "vs").map rval)
  | "variant" => .variant (nat j "i") ((arr j "vs").map rval)
  | _ => .unit

def ruleOpt (j : Json) (k : String) : Option Rule := (strOpt j k).bind fun s => Case.ruleOfName (String.ofList s)

def optOf (j : Json) (k : String) : Opt :=
  match (strOpt j k).map String.ofList with
  | some "optional" => .optional
  | some "nullable" => .nullable
  | _ => .no

def fieldAttr (a : Json) : FieldAttr :=
  { rename := strOpt a "rename", inline := bool a "inline", skip := bool a "skip", flatten := bool a "flatten",
    optional := optOf a "optional", typeAs := (obj? a "as").map rty, typeOverride := strOpt a "type",
    docs := (arr a "docs").filterMap fun d => match d with | Json.str s => some s.toList | _ => none,
    hasDefault := bool a "default", skipSerIfNone := bool a "skip_ser_if_none" }

def field (j : Json) : Field :=
  { name := strOpt j "name", ty := rty ((obj? j "ty").getD Json.null), attr := fieldAttr ((obj? j "attrs").getD (Json.mkObj [])) }

def shape (j : Json) : Shape :=
  match String.ofList (str j "shape") with
  | "tuple" => .tuple | "unit" => .unit | _ => .named

def variant (j : Json) : Variant :=
  let a := (obj? j "attrs").getD (Json.mkObj [])
  { name := str j "name", shape := shape j, fields := (arr j "fields").map field,
    attr := { rename := strOpt a "rename", renameAll := ruleOpt a "rename_all", skip := bool a "skip", untagged := bool a "untagged",
              inline := bool a "inline", typeAs := (obj? a "as").map rty, typeOverride := strOpt a "type" } }

def item (j : Json) : Item :=
  let a := (obj? j "attrs").getD (Json.mkObj [])
  { isEnum := String.ofList (str j "kind") = "enum", name := str j "name",
    generics := (arr j "generics").map fun g => { name := str g "name", default := (obj? g "default").map rty },
    attr := { rename := strOpt a "rename", renameAll := ruleOpt a "rename_all", renameAllFields := ruleOpt a "rename_all_fields",
              tag := strOpt a "tag", content := strOpt a "content", untagged := bool a "untagged", exportTo := strOpt a "export_to",
              typeAs := (obj? a "as").map rty, typeOverride := strOpt a "type",
              concrete := (arr a "concrete").map fun c => (str c "name", rty ((obj? c "ty").getD Json.null)),
              optionalFields := optOf a "optional_fields",
              docs := (arr a "docs").filterMap fun d => match d with | Json.str s => some s.toList | _ => none },
    shape := shape j, fields := (arr j "fields").map field, variants := (arr j "variants").map variant }

/-! ### JSON values: model ↔ Lean.Json -/

partial def ofLean : Json → JVal
  | .null => .null
  | .bool b => .bool b
  | .num n => if n.exponent = 0 then .int n.mantissa else .float (toString n).toList
  | .str s => .str s.toList
  | .arr a => .arr (a.toList.map ofLean)
  | .obj kvs => .obj (kvs.toList.map fun (k, v) => (k.toList, ofLean v))

def escJson (s : Str) : String :=
  String.ofList (s.flatMap fun c =>
    if c = '"' then ['\\', '"'] else if c = '\\' then ['\\', '\\'] else if c = '\n' then ['\\', 'n']
    else if c = '\r' then ['\\', 'r'] else if c = '\t' then ['\\', 't']
    else if c.toNat < 32 then ("\\u" ++ String.ofList (Nat.toDigits 16 c.toNat |> fun d => List.replicate (4 - d.length) '0' ++ d)).toList
    else [c])

partial def render : JVal → String
  | .null => "null"
  | .bool b => if b then "true" else "false"
  | .int i => toString i
  | .float r => String.ofList r
  | .str s => "\"" ++ escJson s ++ "\""
  | .arr xs => "[" ++ ",".intercalate (xs.map render) ++ "]"
  | .obj kvs => "{" ++ ",".intercalate (kvs.map fun (k, v) => "\"" ++ escJson k ++ "\":" ++ render v) ++ "}"

def resJ : Res Str → Json
  | .ok s => Json.mkObj [("ok", Json.str (String.ofList s))]
  | .panic _ => Json.mkObj [("panic", Json.bool true)]

/-- everything the compiled corpus crate prints for one probe -/
def probe (cfg : Cfg) (env : Env) (esm : Bool) (cwd outDir : Str) (p : Json) : Json :=
  let t := rty ((obj? p "ty").getD Json.null)
  let fuel := 40
  let depsV := Derive.visitDeps env fuel t
  let gensV := Derive.visitGenerics env fuel t
  let visJ (vs : List Derive.Visited) : Json := Json.arr (vs.map fun v =>
    Json.arr #[Json.str (String.ofList v.ident), Json.str (String.ofList v.path)]).toArray
  let itemOf : Option (Item × List RTy) := match t with
    | .named id args => (env.find id).map fun it => (it, args)
    | _ => none
  let vals := (arr p "values").map fun v => match Serde.serTy cfg env fuel t (rval v) with
    | some j => Json.str (render j)
    | none => Json.null
  let base : List (String × Json) :=
    [("name", resJ (Derive.nameS env t)), ("inline", resJ (Derive.inlineS cfg env fuel t)),
     ("inline_flattened", resJ (Derive.inlineFlatS cfg env fuel t)),
     ("deps", visJ depsV), ("generics", visJ gensV), ("values", Json.arr vals.toArray)]
  let more : List (String × Json) := match itemOf with
    | some (it, args) =>
      -- imports are generated from the dependencies of `WithoutGenerics`
      let wdeps := Derive.visitDeps env fuel (Derive.withoutGenerics it)
      [("ident", Json.str (String.ofList (Derive.tsName it))),
       ("decl", resJ (Derive.declS cfg env fuel it)),
       ("decl_concrete", resJ (Derive.declConcreteS cfg env fuel it args)),
       ("output_path", Json.str (String.ofList (Derive.outputPath it))),
       ("docs", let d := Derive.parseDocs it.attr.docs; if d = [] then Json.null else Json.str (String.ofList d)),
       ("export_to_string", match Derive.exportToString cfg env fuel esm cwd outDir it wdeps with
         | none => Json.mkObj [("panic", Json.bool true)]
         | some (.error .cannotBeExported) => Json.mkObj [("err", Json.str "CannotBeExported")]
         | some (.error _) => Json.mkObj [("err", Json.str "Io")]
         | some (.ok r) => resJ r)]
    | none => [("output_path", Json.null)]
  Json.mkObj (base ++ more)

end ProgIO
