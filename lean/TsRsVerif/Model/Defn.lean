/-
  Model/Defn.lean — Rust items (structs / enums) with RESOLVED attributes: one structure per
  `*Attr` struct of macros/src/attr, after `from_attrs` (ts + serde merged). The "programs" the
  derive properties quantify over. `Env` = all items of the program (trait dispatch on a named type
  is lookup by identifier).
-/
import TsRsVerif.Model.RTy
import TsRsVerif.Model.Case
namespace TsRs

inductive Opt where
  | no | optional | nullable            -- `#[ts(optional)]` / `#[ts(optional = nullable)]`
  deriving DecidableEq, Repr, Inhabited

structure FieldAttr where
  rename : Option Str := none
  inline : Bool := false
  skip : Bool := false
  flatten : Bool := false
  optional : Opt := .no
  typeAs : Option RTy := none            -- `_` already replaced by the field's type
  typeOverride : Option Str := none
  docs : List Str := []                  -- the `#[doc = ".."]` strings
  hasDefault : Bool := false             -- serde(default) (matters for Deserialize only)
  skipSerIfNone : Bool := false          -- serde(skip_serializing_if = "Option::is_none")
  deriving Repr, Inhabited

structure Field where
  name : Option Str                      -- `none` for tuple fields; raw identifiers keep `r#`
  ty : RTy
  attr : FieldAttr := {}
  deriving Repr, Inhabited

inductive Shape where
  | named | tuple | unit
  deriving DecidableEq, Repr, Inhabited

structure VariantAttr where
  rename : Option Str := none
  renameAll : Option Rule := none
  skip : Bool := false
  untagged : Bool := false
  inline : Bool := false
  typeAs : Option RTy := none
  typeOverride : Option Str := none
  deriving Repr, Inhabited

structure Variant where
  name : Str
  shape : Shape
  fields : List Field
  attr : VariantAttr := {}
  deriving Repr, Inhabited

structure GenericParam where
  name : Str
  default : Option RTy := none
  deriving Repr, Inhabited

structure ContainerAttr where
  rename : Option Str := none
  renameAll : Option Rule := none
  renameAllFields : Option Rule := none
  tag : Option Str := none
  content : Option Str := none
  untagged : Bool := false
  exportTo : Option Str := none
  typeAs : Option RTy := none
  typeOverride : Option Str := none
  concrete : List (Str × RTy) := []
  optionalFields : Opt := .no
  docs : List Str := []
  deriving Repr, Inhabited

structure Item where
  isEnum : Bool
  name : Str                             -- Rust identifier (raw identifiers keep `r#`)
  generics : List GenericParam := []     -- type parameters only, in order
  attr : ContainerAttr := {}
  shape : Shape := .named                -- structs
  fields : List Field := []              -- structs
  variants : List Variant := []          -- enums
  deriving Repr, Inhabited

/-- a unit variant, or a newtype variant whose only field is skipped (serde and ts-rs treat it like a unit variant) -/
def Variant.unitLike (v : Variant) : Bool :=
  v.shape = .unit || (v.shape = .tuple && (match v.fields with | [fld] => fld.attr.skip | _ => false))

abbrev Env := List Item

namespace Env
def find (env : Env) (id : Str) : Option Item := List.find? (fun it => it.name = id) env
end Env

mutual
/-- substitute type parameters in a type expression -/
def RTy.subst (σ : List (Str × RTy)) : RTy → RTy
  | .param n => match (σ.find? (·.1 = n)).map (·.2) with
    | some t => t
    | none => .param n
  | .option t => .option (RTy.subst σ t)
  | .vec t => .vec (RTy.subst σ t)
  | .slice t => .slice (RTy.subst σ t)
  | .set t => .set (RTy.subst σ t)
  | .arr t n => .arr (RTy.subst σ t) n
  | .tuple ts => .tuple (RTy.substL σ ts)
  | .map k v => .map (RTy.subst σ k) (RTy.subst σ v)
  | .result t e => .result (RTy.subst σ t) (RTy.subst σ e)
  | .range t => .range (RTy.subst σ t)
  | .wrap k t => .wrap k (RTy.subst σ t)
  | .named id args => .named id (RTy.substL σ args)
  | .prim r => .prim r
def RTy.substL (σ : List (Str × RTy)) : List RTy → List RTy
  | [] => []
  | t :: ts => RTy.subst σ t :: RTy.substL σ ts
end

end TsRs
