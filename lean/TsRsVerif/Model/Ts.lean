/-
  Model/Ts.lean — the fragment of TypeScript types ts-rs can print, its rendering (ts-rs's exact
  spacing), and its MEANING as a set of JSON values (`Member`), under the reading fixed by the
  properties: object types are exact, `bigint` is a JSON integer, `number` any JSON number,
  `k?: T` = absent or in `T`, `A & B` on objects = disjoint merge of the properties.
-/
import TsRsVerif.Model.Json
namespace TsRs
open Text

structure TsKey where
  name : Str
  optional : Bool := false
  deriving Repr, Inhabited, DecidableEq

inductive Ts where
  | number | bigint | string | boolean | null | never
  | lit (s : Str)                          -- "s"
  | ref (name : Str) (args : List Ts)      -- Name<A, B>
  | param (name : Str)                     -- a bound type parameter
  | array (t : Ts)                         -- Array<t>
  | tuple (ts : List Ts)                   -- [a, b]
  | neverArray                             -- never[]
  | emptyRecord                            -- Record<string, never>
  | obj (fields : List (TsKey × Ts))       -- { k: T, k?: T, }
  | mapped (k v : Ts)                      -- { [key in K]?: V }
  | union (ts : List Ts)                   -- a | b
  | inter (ts : List Ts)                   -- a & b
  | paren (t : Ts)                         -- (t)
  | raw (s : Str)                          -- opaque text (`#[ts(type = "..")]`); no inhabitants
  deriving Repr, Inhabited

/-- declarations: name ↦ (type parameters, body) -/
abbrev Decls := List (Str × List Str × Ts)

namespace Ts

def lookupDecl (D : Decls) (n : Str) : Option (List Str × Ts) :=
  (D.find? (·.1 = n)).map (·.2)

def lookupSub (σ : List (Str × Ts)) (n : Str) : Option Ts := (σ.find? (·.1 = n)).map (·.2)

mutual
/-- substitute type parameters -/
def subst (σ : List (Str × Ts)) : Ts → Ts
  | .param n => match lookupSub σ n with
    | some t => t
    | none => .param n
  | .ref n args => .ref n (substList σ args)
  | .array t => .array (subst σ t)
  | .tuple ts => .tuple (substList σ ts)
  | .obj fs => .obj (substFields σ fs)
  | .mapped k v => .mapped (subst σ k) (subst σ v)
  | .union ts => .union (substList σ ts)
  | .inter ts => .inter (substList σ ts)
  | .paren t => .paren (subst σ t)
  | t => t
def substList (σ : List (Str × Ts)) : List Ts → List Ts
  | [] => []
  | t :: ts => subst σ t :: substList σ ts
def substFields (σ : List (Str × Ts)) : List (TsKey × Ts) → List (TsKey × Ts)
  | [] => []
  | (k, t) :: fs => (k, subst σ t) :: substFields σ fs
end

/-! ### meaning -/

/-- the string encoding of a map key: JSON object keys are strings; serde_json prints integer,
    bool-free scalar keys as their decimal text -/
def keyJson (k : Str) : List JVal :=
  -- a key `k` can stand for the string `k`, or for the integer whose canonical decimal text it is
  [JVal.str k] ++ (match (String.ofList k).toInt? with
    | some i => if (toString i).toList = k then [JVal.int i] else []
    | none => [])

mutual
/-- `Member D t j`: the JSON value `j` inhabits the (closed) type `t` under declarations `D`.
    Least fixed point, so recursive declarations are fine. -/
inductive Member (D : Decls) : Ts → JVal → Prop where
  | numberInt (i : Int) : Member D .number (.int i)
  | numberFloat (r : Str) : Member D .number (.float r)
  | bigint (i : Int) : Member D .bigint (.int i)
  | string (s : Str) : Member D .string (.str s)
  | boolean (b : Bool) : Member D .boolean (.bool b)
  | null : Member D .null .null
  | lit (s : Str) : Member D (.lit s) (.str s)
  | ref {n : Str} {args : List Ts} {ps : List Str} {body : Ts} {j : JVal} :
      lookupDecl D n = some (ps, body) → Member D (subst (ps.zip args) body) j → Member D (.ref n args) j
  | array {t : Ts} {js : List JVal} : MemberAll D t js → Member D (.array t) (.arr js)
  | tuple {ts : List Ts} {js : List JVal} : MemberZip D ts js → Member D (.tuple ts) (.arr js)
  | neverArray : Member D .neverArray (.arr [])
  | emptyRecord : Member D .emptyRecord (.obj [])
  | obj {fs : List (TsKey × Ts)} {kvs : List (Str × JVal)} :
      MemberFields D fs kvs → (∀ k ∈ JVal.keys kvs, ∃ f ∈ fs, f.1.name = k) → Member D (.obj fs) (.obj kvs)
  | mapped {k v : Ts} {kvs : List (Str × JVal)} : MemberMap D k v kvs → Member D (.mapped k v) (.obj kvs)
  | union {ts : List Ts} {t : Ts} {j : JVal} : t ∈ ts → Member D t j → Member D (.union ts) j
  | interNil {j : JVal} : Member D (.inter []) j
  | interObj {t : Ts} {ts : List Ts} {kvs kvs₁ kvs₂ : List (Str × JVal)} :
      -- disjoint merge: the properties split into a part for `t` and a part for the rest
      List.Perm (kvs₁ ++ kvs₂) kvs → Member D t (.obj kvs₁) → Member D (.inter ts) (.obj kvs₂) → ts ≠ [] →
      Member D (.inter (t :: ts)) (.obj kvs)
  | interOne {t : Ts} {j : JVal} : Member D t j → Member D (.inter [t]) j
  | interVal {t : Ts} {ts : List Ts} {j : JVal} : j.isObj = false →
      Member D t j → Member D (.inter ts) j → Member D (.inter (t :: ts)) j
  | paren {t : Ts} {j : JVal} : Member D t j → Member D (.paren t) j
/-- every element of the list inhabits `t` -/
inductive MemberAll (D : Decls) : Ts → List JVal → Prop where
  | nil {t : Ts} : MemberAll D t []
  | cons {t : Ts} {j : JVal} {js : List JVal} : Member D t j → MemberAll D t js → MemberAll D t (j :: js)
/-- element-wise, same length -/
inductive MemberZip (D : Decls) : List Ts → List JVal → Prop where
  | nil : MemberZip D [] []
  | cons {t : Ts} {ts : List Ts} {j : JVal} {js : List JVal} :
      Member D t j → MemberZip D ts js → MemberZip D (t :: ts) (j :: js)
/-- every declared property is present with a member value, or absent and optional -/
inductive MemberFields (D : Decls) : List (TsKey × Ts) → List (Str × JVal) → Prop where
  | nil {kvs : List (Str × JVal)} : MemberFields D [] kvs
  | present {k : TsKey} {t : Ts} {fs : List (TsKey × Ts)} {kvs : List (Str × JVal)} {v : JVal} :
      JVal.lookup k.name kvs = some v → Member D t v → MemberFields D fs kvs → MemberFields D ((k, t) :: fs) kvs
  | absent {k : TsKey} {t : Ts} {fs : List (TsKey × Ts)} {kvs : List (Str × JVal)} :
      JVal.lookup k.name kvs = none → k.optional = true → MemberFields D fs kvs → MemberFields D ((k, t) :: fs) kvs
/-- `{ [key in K]?: V }`: every key encodes a member of `K`, every value is in `V` -/
inductive MemberMap (D : Decls) : Ts → Ts → List (Str × JVal) → Prop where
  | nil {k v : Ts} : MemberMap D k v []
  | consStr {k v : Ts} {key : Str} {val : JVal} {kvs : List (Str × JVal)} :
      -- the key is a string and stands for itself …
      Member D k (.str key) → Member D v val → MemberMap D k v kvs → MemberMap D k v ((key, val) :: kvs)
  | consInt {k v : Ts} {key : Str} {val : JVal} {kvs : List (Str × JVal)} (i : Int) :
      -- … or for the integer whose decimal text it is
      (toString i).toList = key → Member D k (.int i) → Member D v val → MemberMap D k v kvs →
      MemberMap D k v ((key, val) :: kvs)
end

end Ts
end TsRs
