/-
  Model/Fs.lean — a POSIX file system without symlinks, with exactly the calls ts-rs makes
  (`create_dir_all`, `File::create`, `OpenOptions::read+write`, read, write-at-offset WITHOUT
  truncation, `sync_all`), and their failure behaviour.
-/
import TsRsVerif.Model.Path
namespace TsRs
open Text

inductive Node where
  | file (content : Str)
  | dir
  deriving DecidableEq, Repr, Inhabited

/-- absolute, resolved location: names below `/` -/
abbrev Loc := List Str

structure Fs where
  nodes : List (Loc × Node)      -- the root `[]` is implicitly a directory
  cwd : Loc
  deriving Repr, Inhabited

namespace Fs

def lookup (fs : Fs) (l : Loc) : Option Node :=
  if l = [] then some .dir else (fs.nodes.find? (·.1 = l)).map (·.2)

def set (fs : Fs) (l : Loc) (n : Node) : Fs :=
  { fs with nodes := (l, n) :: fs.nodes.filter (·.1 ≠ l) }

def isDir (fs : Fs) (l : Loc) : Bool := fs.lookup l = some .dir

/-- kernel path walk: every intermediate component must be an existing directory -/
def walk (fs : Fs) : Loc → List Comp → Option Loc
  | cur, [] => some cur
  | _, Comp.root :: cs => walk fs [] cs
  | cur, Comp.cur :: cs => if fs.isDir cur then walk fs cur cs else none
  | cur, Comp.parent :: cs => if fs.isDir cur then walk fs cur.dropLast cs else none
  | cur, Comp.normal n :: cs => if fs.isDir cur then walk fs (cur ++ [n]) cs else none

/-- resolve a path string to a location (the final component need not exist) -/
def resolve (fs : Fs) (p : Str) : Option Loc := walk fs fs.cwd (Path.components p)

/-- `std::fs::create_dir_all` -/
def createDirAllLoc (fs : Fs) : Loc → List Str → Option Fs
  | _, [] => some fs
  | cur, n :: ns =>
    let next := cur ++ [n]
    match fs.lookup next with
    | some .dir => createDirAllLoc fs next ns
    | some (.file _) => none
    | none => createDirAllLoc (fs.set next .dir) next ns

/-- `create_dir_all(path)`: walks like the OS does (`mkdir -p` semantics incl. `..` through
    directories that must exist) -/
def createDirAllAux (fs : Fs) : Loc → List Comp → Option Fs
  | _, [] => some fs
  | _, Comp.root :: cs => createDirAllAux fs [] cs
  | cur, Comp.cur :: cs => createDirAllAux fs cur cs
  | cur, Comp.parent :: cs => createDirAllAux fs cur.dropLast cs
  | cur, Comp.normal n :: cs =>
    let next := cur ++ [n]
    match fs.lookup next with
    | some .dir => createDirAllAux fs next cs
    | some (.file _) => none
    | none => createDirAllAux (fs.set next .dir) next cs

def createDirAll (fs : Fs) (p : Str) : Option Fs :=
  if p = [] then some fs else createDirAllAux fs fs.cwd (Path.components p)

/-- `File::create(path)` + `write_all` + `sync_all`: truncating create -/
def fileCreate (fs : Fs) (p : Str) (content : Str) : Option Fs :=
  match fs.resolve p with
  | none => none
  | some [] => none
  | some l =>
    if !fs.isDir l.dropLast then none
    else match fs.lookup l with
      | some .dir => none
      | _ => some (fs.set l (.file content))

/-- `OpenOptions::new().read(true).write(true).open(path)` then `read_to_string` -/
def openRead (fs : Fs) (p : Str) : Option (Loc × Str) :=
  match fs.resolve p with
  | none => none
  | some l => match fs.lookup l with
    | some (.file c) => some (l, c)
    | _ => none

def byteLen (s : Str) : Nat := (s.map utf8Len).sum

/-- characters covering the first `n` bytes -/
def takeBytes : Nat → Str → Str
  | 0, _ => []
  | _, [] => []
  | n + 1, c :: cs => c :: takeBytes (n + 1 - utf8Len c) cs

def dropBytes : Nat → Str → Str
  | 0, s => s
  | _, [] => []
  | n + 1, c :: cs => dropBytes (n + 1 - utf8Len c) cs

/-- `seek(Start(off))` + `write_all(new)`: bytes before `off` kept, bytes after the written range
    kept too (the file is NOT truncated) -/
def writeAt (old : Str) (off : Nat) (new : Str) : Str :=
  takeBytes off old ++ new ++ dropBytes (off + byteLen new) old

end Fs
end TsRs
