/-
  Model/Merge.lean — transcription of `merge` (ts-rs/src/export.rs:192-293).
  Structured as  parse → core step on a structured file → render, exactly as the Rust function is:
  it splits header/declarations, parses import lines into an ordered map, renders the imports, and
  runs the insertion loop over the `\n\n`-separated declarations.
-/
import TsRsVerif.Model.Text
import TsRsVerif.Generated.Tables
namespace TsRs
open Text

namespace Merge

def NOTE : Str := Gen.NOTE.toList
def DECL_START : Str := Gen.DECLARATION_START.toList
def nn : Str := ['\n', '\n']

/-- `BTreeMap<&str, BTreeSet<&str>>`: association list sorted by key, values sorted duplicate-free -/
abbrev Imports := List (Str × List Str)

def insertImport (path ty : Str) : Imports → Imports
  | [] => [(path, [ty])]
  | (p, tys) :: rest =>
    if ltStr path p then (path, [ty]) :: (p, tys) :: rest
    else if path = p then (p, insertSorted ty tys) :: rest
    else (p, tys) :: insertImport path ty rest

/-- `imports_map.entry(path).or_default()` followed by inserting every type of the line
    (an import line with an empty type list still creates the entry) -/
def touchPath (path : Str) : Imports → Imports
  | [] => [(path, [])]
  | (p, tys) :: rest =>
    if ltStr path p then (path, []) :: (p, tys) :: rest
    else if path = p then (p, tys) :: rest
    else (p, tys) :: touchPath path rest

def addLine (m : Imports) (line : Str × List Str) : Imports :=
  line.2.foldl (fun acc ty => insertImport line.1 ty acc) (touchPath line.1 m)

/-- one import line → (path, types); `None` = the `unwrap()` on `split_once(" } from ")` panics (export.rs).
The line is cut at ` } from `: the text before it is a list of identifiers and cannot contain it (a type may be called `from`) -/
def parseImportLine (line : Str) : Option (Str × List Str) :=
  match splitOnce " } from ".toList line with
  | none => none
  | some (imp, frm) =>
    let path := trimEndP (fun c => c = '"' || c = ';') (trimStartP (· = '"') frm)
    let types := split ", ".toList (trimStartMatches "import type { ".toList imp)
    some (path, types)

/-- export.rs:224-240 -/
def renderImports (m : Imports) : Str :=
  (m.map fun (path, tys) =>
    "import type { ".toList ++ intercalate ", ".toList tys ++ " } from \"".toList ++ path ++ "\";\n".toList).flatten

/-- `decl.split(DECLARATION_START).last().unwrap().split_whitespace().next().unwrap()` -/
def declName (decl : Str) : Option Str :=
  match (split DECL_START decl).getLast? with
  | none => none
  | some tail => firstWord tail

/-- the insertion loop, export.rs:259-290 (`inserted` flag, strict `<` on names) -/
def insertLoop (newName newDecl : Str) : Bool → List (Str × Str) → List Str
  | inserted, [] => if inserted then [] else [newDecl]
  | inserted, (name, decl) :: rest =>
    if inserted || ltStr name newName then decl :: insertLoop newName newDecl inserted rest
    else newDecl :: decl :: insertLoop newName newDecl true rest

def renderDecls (ds : List Str) : Str := (ds.map fun d => ['\n'] ++ d ++ ['\n']).flatten

def trimNl (s : Str) : Str := trimP (· = '\n') s

/-- `merge(original_contents, new_contents)`; `Res.panic` where the Rust code's `expect`/`unwrap` fire -/
def merge (orig new : Str) : Res Str :=
  match splitOnce nn orig, splitOnce nn new with
  | none, _ => .panic "HEADER_ERROR_MESSAGE (original)"
  | _, none => .panic "HEADER_ERROR_MESSAGE (new)"
  | some (oh, od), some (nh, nd) =>
    let lns := (lines oh).drop 1 ++ (lines nh).drop 1
    match lns.mapM parseImportLine with
    | none => .panic "unwrap on split_once(\" from \")"
    | some parsed =>
      let imports := renderImports (parsed.foldl addLine [])
      let newDecl := trimNl nd
      match declName newDecl with
      | none => .panic "unwrap on new declaration name"
      | some newName =>
        let decls := (split nn od).map trimNl
        match decls.mapM (fun d => (declName d).map fun n => (n, d)) with
        | none => .panic "unwrap on declaration name"
        | some named => .ok (imports ++ renderDecls (insertLoop newName newDecl false named))

/-! ### specification side: the canonical file of a set of generated texts -/

/-- the pieces of one generated text `NOTE ++ imports ++ "\n" ++ docs ++ "export type …" ++ "\n"`:
    its import lines and its declaration block (everything after the first blank line) -/
def genParts (text : Str) : Option (List (Str × List Str) × Str) :=
  match splitOnce nn text with
  | none => none
  | some (h, d) =>
    match ((lines h).drop 1).mapM parseImportLine with
    | some ls => some (ls, trimNl d)
    | none => none

/-- insertion of a block into a name-sorted list (specification; not the Rust loop) -/
def insertByName (n d : Str) : List (Str × Str) → List (Str × Str)
  | [] => [(n, d)]
  | (m, e) :: rest => if ltStr n m then (n, d) :: (m, e) :: rest
                      else if n = m then (m, e) :: rest
                      else (m, e) :: insertByName n d rest

/-- `canonFile gens` for `gens = [(TypeScript name, generated text)]`: NOTE, the union of all import
    lines (grouped by path, sorted, names sorted and unique), then every declaration exactly once in
    NAME order (the name is given, not re-read from the text), each as `\n<block>\n`. -/
def canonFile (gens : List (Str × Str)) : Option Str :=
  match gens.mapM (fun g => (genParts g.2).map fun p => (g.1, p)) with
  | none => none
  | some parts =>
    let imports := parts.foldl (fun m p => p.2.1.foldl addLine m) ([] : Imports)
    let blocks := parts.foldl (fun bs p => insertByName p.1 p.2.2 bs) []
    some (NOTE ++ renderImports imports ++ renderDecls (blocks.map (·.2)))

end Merge
end TsRs
