/-
  Model/De.lean — ORACLE model of ACCEPTANCE by serde's `Deserialize` (serde_derive + serde_json) for the types of the
  fragment: does `serde_json::from_str::<T>` accept this JSON value, and if not, why. The verdict is a rank:
  `0` accepted; `1` rejected only because of a LEAF (a number the Rust leaf type cannot represent, a string that is not one
  character for `char`) — what C02's statement excludes; `2` out of fuel; `3` rejected because of its SHAPE (a missing required
  property, an unknown tag or variant, a wrong tuple length, a wrong kind of value).
  Validated against the real crates on every run (check C02); `Props/C02.lean` proves that a member of the generated TypeScript
  type never gets rank 2 or 3.
-/
import TsRsVerif.Model.Serde
namespace TsRs
open Text

namespace De
open Builtin

def accPrim (c : PrimClass) (j : JVal) : Nat :=
  match c, j with
  | .int lo hi nz, .int i => if lo ≤ i ∧ i ≤ hi ∧ (nz = false ∨ i ≠ 0) then 0 else 1
  | .int _ _ _, .float _ => 1
  | .float, .int _ => 0
  | .float, .float _ => 0
  | .bool, .bool _ => 0
  | .char, .str s => if s.length = 1 then 0 else 1
  | .string, .str _ => 0
  | .unit, .null => 0
  | _, _ => 3

/-- a JSON object key read as a value of the key type (primitive key types only) -/
def accKey (k : RTy) (key : Str) : Nat :=
  match k with
  | .prim r =>
    match primClass r with
    | some (.int lo hi nz) =>
      match (String.ofList key).toInt? with
      | some i => if (toString i).toList = key then (if lo ≤ i ∧ i ≤ hi ∧ (nz = false ∨ i ≠ 0) then 0 else 1) else 3
      | none => 3
    | some .string => 0
    | some .char => if key.length = 1 then 0 else 1
    | _ => 3
  | _ => 3

def isNull : JVal → Bool
  | .null => true
  | _ => false

mutual
def accB (accN : Str → List RTy → JVal → Nat) : RTy → JVal → Nat
  | .prim r, j => match primClass r with
    | some c => accPrim c j
    | none => 3
  | .option t, j => if isNull j then 0 else accB accN t j
  | .vec t, j | .slice t, j | .set t, j => match j with
    | .arr js => accAllB accN t js
    | _ => 3
  | .arr t n, j => match j with
    | .arr js => if js.length = n then accAllB accN t js else 3
    | _ => 3
  | .tuple ts, j => match j with
    | .arr js => accZipB accN ts js
    | _ => 3
  | .map k v, j => match j with
    | .obj kvs => accMapB accN k v kvs
    | _ => 3
  | .result t e, j => match j with
    | .obj [(key, c)] => if key = "Ok".toList then accB accN t c else if key = "Err".toList then accB accN e c else 3
    | _ => 3
  | .range t, j => match j with
    | .obj kvs => match JVal.lookup "start".toList kvs, JVal.lookup "end".toList kvs with
      | some a, some b => max (accB accN t a) (accB accN t b)
      | _, _ => 3
    | _ => 3
  | .wrap w t, j => if w = .phantom || w = .weak then 3 else accB accN t j
  | .named id args, j => accN id args j
  | .param _, _ => 3
def accAllB (accN : Str → List RTy → JVal → Nat) : RTy → List JVal → Nat
  | _, [] => 0
  | t, j :: js => max (accB accN t j) (accAllB accN t js)
def accZipB (accN : Str → List RTy → JVal → Nat) : List RTy → List JVal → Nat
  | [], [] => 0
  | t :: ts, j :: js => max (accB accN t j) (accZipB accN ts js)
  | _, _ => 3
def accMapB (accN : Str → List RTy → JVal → Nat) : RTy → RTy → List (Str × JVal) → Nat
  | _, _, [] => 0
  | k, v, (key, val) :: rest => max (max (accKey k key) (accB accN v val)) (accMapB accN k v rest)
end

/-- a missing property is filled in: `Option` (also behind the transparent wrappers) or `#[serde(default)]` -/
def missingOk (t : RTy) (f : Field) : Bool :=
  f.attr.hasDefault || (match t with
    | .option _ => true
    | .wrap w (.option _) => w != .phantom && w != .weak
    | _ => false)

mutual
def accTy (cfg : Cfg) (env : Env) : Nat → RTy → JVal → Nat
  | 0, _, _ => 2
  | f + 1, t, j => accB (fun id args j' => accItem cfg env f id args j') t j
def accItem (cfg : Cfg) (env : Env) : Nat → Str → List RTy → JVal → Nat
  | 0, _, _, _ => 2
  | f + 1, id, args, j =>
    match env.find id with
    | none => 3
    | some it =>
      let σ := (it.generics.zip args).map fun (g, a) => (g.name, a)
      if it.isEnum then accEnum cfg env f it σ j
      else accBody cfg env f σ it.attr.renameAll it.attr.tag it.shape it.fields j
/-- a struct / the content of a variant; a tagged struct's tag property is simply not looked at (unknown keys are ignored) -/
def accBody (cfg : Cfg) (env : Env) : Nat → List (Str × RTy) → Option Rule → Option Str → Shape → List Field → JVal → Nat
  | 0, _, _, _, _, _, _ => 2
  | f + 1, σ, renameAll, _tag, shape, fields, j =>
    match shape with
    | .unit => if isNull j then 0 else 3
    | .named => match j with
      | .obj kvs => accNamed cfg env f σ renameAll fields kvs
      | _ => 3
    | .tuple =>
      match fields with
      | [fld] => accTy cfg env f (RTy.subst σ fld.ty) j
      | _ => match j with
        | .arr js => accTuple cfg env f σ fields js
        | _ => 3
def accNamed (cfg : Cfg) (env : Env) : Nat → List (Str × RTy) → Option Rule → List Field → List (Str × JVal) → Nat
  | 0, _, _, _, _ => 2
  | _ + 1, _, _, [], _ => 0
  | f + 1, σ, renameAll, fld :: fs, kvs =>
    let rest := accNamed cfg env f σ renameAll fs kvs
    if fld.attr.skip then rest
    else if fld.attr.flatten then 3
    else match JVal.lookup (Serde.fieldKey cfg renameAll fld) kvs with
      | some j => max (accTy cfg env f (RTy.subst σ fld.ty) j) rest
      | none => if missingOk (RTy.subst σ fld.ty) fld then rest else 3
def accTuple (cfg : Cfg) (env : Env) : Nat → List (Str × RTy) → List Field → List JVal → Nat
  | 0, _, _, _ => 2
  | _ + 1, _, [], [] => 0
  | _ + 1, _, [], _ :: _ => 3
  | f + 1, σ, fld :: fs, js =>
    if fld.attr.skip then accTuple cfg env f σ fs js
    else match js with
      | j :: js' => max (accTy cfg env f (RTy.subst σ fld.ty) j) (accTuple cfg env f σ fs js')
      | [] => 3
/-- the variant (tagged or not) whose content the value has to fit -/
def accVariantContent (cfg : Cfg) (env : Env) : Nat → Item → List (Str × RTy) → Variant → Option JVal → Nat
  | 0, _, _, _, _ => 2
  | f + 1, it, σ, var, content =>
    if var.unitLike then (match content with
      | none => 0
      | some c => if isNull c then 0 else 3)
    else match content with
      | none => 3
      | some c => accBody cfg env f σ (Serde.renameAllS it var) none var.shape var.fields c
def accEnum (cfg : Cfg) (env : Env) : Nat → Item → List (Str × RTy) → JVal → Nat
  | 0, _, _, _ => 2
  | f + 1, it, σ, j =>
    let live := it.variants.filter fun v => !v.attr.skip
    let untaggedVs := live.filter fun v => v.attr.untagged || it.attr.untagged
    let taggedVs := live.filter fun v => !(v.attr.untagged || it.attr.untagged)
    let byName (n : Str) : Option Variant := taggedVs.find? fun v => Serde.variantKey cfg it.attr.renameAll v = n
    let viaTag : Nat :=
      match Derive.tagged it.attr with
      | .untagged => 3
      | .externally =>
        match j with
        | .str s => (match byName s with
          | some var => if var.unitLike then 0 else 3
          | none => 3)
        | .obj [(k, c)] => (match byName k with
          | some var => accVariantContent cfg env f it σ var (some c)
          | none => 3)
        | _ => 3
      | .adjacently t c =>
        match j with
        | .obj kvs => (match JVal.lookup t kvs with
          | some (.str n) => (match byName n with
            | some var => accVariantContent cfg env f it σ var (JVal.lookup c kvs)
            | none => 3)
          | _ => 3)
        | _ => 3
      | .internally t =>
        match j with
        | .obj kvs => (match JVal.lookup t kvs with
          | some (.str n) => (match byName n with
            | some var =>
              if var.unitLike then 0
              else if var.shape = .named then accNamed cfg env f σ (Serde.renameAllS it var) var.fields kvs
              else match var.fields with
                -- a newtype variant: the field's type reads the object without the tag
                | [fld] => accTy cfg env f (RTy.subst σ fld.ty) (.obj (kvs.filter fun kv => kv.1 ≠ t))
                | _ => 3
            | none => 3)
          | _ => 3)
        | _ => 3
    untaggedVs.foldl (fun acc var => min acc (accVariantContent cfg env f it σ var (if var.unitLike then none else some j) |>
      fun r => if var.unitLike then (if isNull j then 0 else 3) else r)) viaTag
end

end De
end TsRs
