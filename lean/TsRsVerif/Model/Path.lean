/-
  Model/Path.lean — Unix `std::path` semantics used by ts-rs and the transcription of
  ts-rs/src/export/path.rs (`absolute`, `diff_paths`) and export.rs (`import_path`,
  the `is_same_file` test).  Paths are strings (`Str`); `components` is `Path::components()`.
-/
import TsRsVerif.Model.Text
namespace TsRs
open Text

inductive Comp where
  | root
  | cur
  | parent
  | normal (s : Str)
  deriving DecidableEq, Repr, Inhabited

inductive ExportErr where
  | cannotBeExported
  | io
  | fmt
  deriving DecidableEq, Repr, Inhabited

namespace Path

/-- classify the `/`-separated pieces of a path (after the optional root) -/
def pieceComps : (first : Bool) → List Str → List Comp
  | _, [] => []
  | first, p :: ps =>
    if p = [] then pieceComps first ps            -- repeated / trailing separators
    else if p = ['.'] then
      (if first then [Comp.cur] else []) ++ pieceComps false ps
    else if p = ['.', '.'] then Comp.parent :: pieceComps false ps
    else Comp.normal p :: pieceComps false ps

/-- `Path::components()` on Unix -/
def components (s : Str) : List Comp :=
  match s with
  | '/' :: rest => Comp.root :: pieceComps false (splitChar '/' rest)
  | _ => pieceComps true (splitChar '/' s)

def compStr : Comp → Str
  | .root => ['/']
  | .cur => ['.']
  | .parent => ['.', '.']
  | .normal s => s

def isAbsolute (s : Str) : Bool := s.head? = some '/'

/-- `PathBuf::push` -/
def push (base p : Str) : Str :=
  if isAbsolute p then p
  else if base = [] then p
  else if base.getLast? = some '/' then base ++ p
  else base ++ ['/'] ++ p

/-- `Path::join` -/
def join (base p : Str) : Str := push base p

/-- `iter.collect::<PathBuf>()` over components (`push` of each `as_os_str`): the pieces joined
    by `/`, a leading root contributing the initial `/`. (std behaviour, stated directly.) -/
def ofComps : List Comp → Str
  | Comp.root :: cs => '/' :: intercalate ['/'] (cs.map compStr)
  | cs => intercalate ['/'] (cs.map compStr)

def dotTs : Str := ['.', 't', 's']
def dotJs : Str := ['.', 'j', 's']

/-- `Path::parent()` -/
def parent (s : Str) : Option Str :=
  match (components s).reverse with
  | [] => none
  | Comp.root :: _ => none
  | _ :: rest => some (ofComps rest.reverse)

/-- `Path::file_name()` -/
def fileName (s : Str) : Option Str :=
  match (components s).getLast? with
  | some (Comp.normal n) => some n
  | _ => none

/-- `PathBuf == PathBuf` (also what `Hash` agrees with) : component-wise -/
def pathEq (a b : Str) : Bool := components a == components b

/-- the normalisation loop of `absolute` (path.rs:10-19) over components -/
def normLoop : List Comp → List Comp → Option (List Comp)
  | out, [] => some out
  | out, Comp.cur :: cs => normLoop out cs
  | out, Comp.parent :: cs =>
    match out.reverse with
    | [] => none
    | Comp.root :: _ => none          -- `..` may not climb above the root
    | _ :: r => normLoop r.reverse cs
  | out, c :: cs => normLoop (out ++ [c]) cs

/-- `path::absolute` (path.rs:7-26): join onto the current directory, drop `.`, resolve `..`
    lexically; error if `..` pops an empty stack. -/
def absolute (cwd p : Str) : Except ExportErr Str :=
  match normLoop [] (components (join cwd p)) with
  | none => .error .cannotBeExported
  | some [] => .ok ['.']
  | some out => .ok (ofComps out)

/-- the loop of `diff_paths` (path.rs:51-78). `started` = `!comps.is_empty()`.
    Returns `none` where the Rust code hits `unreachable!` (never, after `absolute`). -/
def diffLoop : (started : Bool) → List Comp → List Comp → List Comp
  | _, [], [] => []
  | _, a :: as, [] => a :: as
  | _, [], _ :: bs => Comp.parent :: diffLoop true [] bs
  | started, a :: as, b :: bs =>
    if !started && a == b then diffLoop false as bs
    else Comp.parent :: (bs.map fun _ => Comp.parent) ++ (a :: as)

/-- `diff_paths(path, base)` -/
def diffPaths (cwd path base : Str) : Except ExportErr Str := do
  let p ← absolute cwd path
  let b ← absolute cwd base
  pure (ofComps (diffLoop false (components p) (components b)))

/-- the tail of `import_path` (export.rs:386-405): `./` prefix, extension handling -/
def strPathOf (rel : Str) : Str :=
  match (components rel).head? with
  | some (Comp.normal _) => ['.', '/'] ++ rel
  | _ => rel

def specOfRel (esm : Bool) (rel : Str) : Str :=
  let noExt := trimEndMatches dotTs (strPathOf rel)
  if esm then noExt ++ dotJs else noExt

/-- `import_path(from, import)` (export.rs:384-406); `from.parent().unwrap()` → `none` = panic -/
def importPath (esm : Bool) (cwd frm imp : Str) : Option (Except ExportErr Str) :=
  match parent frm with
  | none => none
  | some dir =>
    some (match diffPaths cwd imp dir with
    | .error e => .error e
    | .ok rel => .ok (specOfRel esm rel))

/-- the `is_same_file` test of `generate_imports` (export.rs:348-354) -/
def isSameFile (path relPath : Str) : Bool :=
  match fileName path with
  | none => false
  | some f => (['.', '/'] ++ trimEndMatches dotTs f) == trimEndMatches dotJs relPath

/-! ### specification side: ECMAScript relative module resolution -/

/-- resolve the `/`-separated specifier against a directory given as a component stack -/
def resolveLoop : List Str → List Str → Option (List Str)
  | dir, [] => some dir
  | dir, p :: ps =>
    if p = ['.'] then resolveLoop dir ps
    else if p = ['.', '.'] then
      match dir.reverse with
      | [] => none
      | _ :: r => resolveLoop r.reverse ps
    else resolveLoop (dir ++ [p]) ps

/-- `resolve esm dir spec`: the file (as a list of names below `/`) that a TypeScript compiler
    resolves `import … from "<spec>"` to, for an importing file located in directory `dir`:
    interpret `.`/`..`, then append `.ts` (or replace the final `.js` by `.ts` for ES modules). -/
def resolve (esm : Bool) (dir : List Str) (spec : Str) : Option (List Str) :=
  let spec' : Option Str :=
    if esm then (stripSuffix dotJs spec).map (· ++ dotTs)
    else some (spec ++ dotTs)
  match spec' with
  | none => none
  | some s => resolveLoop dir (splitChar '/' s)

/-- C08's statement as a decidable predicate on a specifier: relative, forward slashes only,
    no `.ts` extension, `.js` exactly for ES modules, and it resolves to `target` from `dir`. -/
def specGood (esm : Bool) (dir target : List Str) (spec : Str) : Bool :=
  (startsWith ['.', '/'] spec || startsWith ['.', '.', '/'] spec)
  && !spec.contains '\\'
  && !endsWith dotTs spec
  && (endsWith dotJs spec == esm)
  && (resolve esm dir spec == some target)

/-- names of an absolute, normalised path (`/a/b` ↦ `[a, b]`); `none` if not of that form -/
def absNames (s : Str) : Option (List Str) :=
  match components s with
  | Comp.root :: cs => cs.mapM fun c => match c with
    | Comp.normal n => some n
    | _ => none
  | _ => none

end Path
end TsRs
