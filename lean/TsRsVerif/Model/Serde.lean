/-
  Model/Serde.lean — ORACLE model: the JSON serde_derive 1.0.215 + serde_json 1.0.133 produce for
  values of structs / enums with the supported attributes (rename, rename_all, rename_all_fields,
  tag, content, untagged, per-variant untagged, skip, flatten, skip_serializing_if = is_none).
  Part of the specification / trusted base; validated against the real crates on every run.
-/
import TsRsVerif.Model.Defn
import TsRsVerif.Model.Builtin
import TsRsVerif.Model.Derive
namespace TsRs
open Text

namespace Serde

def fieldKey (cfg : Cfg) (renameAll : Option Rule) (f : Field) : Str :=
  let ident := Derive.unraw (f.name.getD [])
  match f.attr.rename, renameAll with
  | some rn, _ => rn
  | none, some r => match Case.serdeField cfg.ops r ident with
    | .ok n => n
    | .panic _ => ident
  | none, none => ident

def variantKey (cfg : Cfg) (renameAll : Option Rule) (v : Variant) : Str :=
  let ident := Derive.unraw v.name
  match v.attr.rename, renameAll with
  | some rn, _ => rn
  | none, some r => match Case.serdeVariant cfg.ops r ident with
    | .ok n => n
    | .panic _ => ident
  | none, none => ident

/-- the `rename_all` serde applies to a variant's fields: the variant's own, else the enum's `rename_all_fields` -/
def renameAllS (it : Item) (var : Variant) : Option Rule :=
  match var.attr.renameAll with
  | some r => some r
  | none => it.attr.renameAllFields

def isNoneVal : RVal → Bool
  | .none => true
  | _ => false

mutual
/-- serde_json's output for a value of type `t` -/
def serTy (cfg : Cfg) (env : Env) : Nat → RTy → RVal → Option JVal
  | 0, _, _ => none
  | f + 1, t, v => Builtin.serB (fun id args v' => serItem cfg env f id args v') t v
/-- a value of a user type -/
def serItem (cfg : Cfg) (env : Env) : Nat → Str → List RTy → RVal → Option JVal
  | 0, _, _, _ => none
  | f + 1, id, args, v =>
    match env.find id with
    | none => none
    | some it =>
      let σ := (it.generics.zip args).map fun (g, a) => (g.name, a)
      if it.isEnum then
        match v with
        | .variant idx vals =>
          match it.variants[idx]? with
          | none => none
          | some var => serVariant cfg env f it σ var vals
        | _ => none
      else
        match v with
        | .strukt vals => serStructBody cfg env f σ it.attr.renameAll it.attr.tag (Derive.unraw it.name |> fun n => it.attr.rename.getD n) it.shape it.fields vals
        | _ => none
/-- the body of a struct / struct-like variant; `tag` = internal tag to put first -/
def serStructBody (cfg : Cfg) (env : Env) : Nat → List (Str × RTy) → Option Rule → Option Str → Str → Shape → List Field → List RVal → Option JVal
  | 0, _, _, _, _, _, _, _ => none
  | f + 1, σ, renameAll, tag, name, shape, fields, vals =>
    match shape with
    | .unit => some .null
    | .named => do
      let kvs ← serNamed cfg env f σ renameAll fields vals
      let tagKv : List (Str × JVal) := match tag with
        | some t => [(t, .str name)]
        | none => []
      pure (.obj (tagKv ++ kvs))
    | .tuple =>
      match fields, vals with
      | [fld], [v] => serTy cfg env f (RTy.subst σ fld.ty) v         -- newtype: transparent
      | _, _ => do let js ← serTuple cfg env f σ fields vals; pure (.arr js)
def serNamed (cfg : Cfg) (env : Env) : Nat → List (Str × RTy) → Option Rule → List Field → List RVal → Option (List (Str × JVal))
  | 0, _, _, _, _ => none
  | _ + 1, _, _, [], [] => some []
  | f + 1, σ, renameAll, fld :: fs, v :: vs => do
    let rest ← serNamed cfg env f σ renameAll fs vs
    if fld.attr.skip then pure rest
    else if fld.attr.skipSerIfNone && isNoneVal v then pure rest
    else
      let j ← serTy cfg env f (RTy.subst σ fld.ty) v
      if fld.attr.flatten then
        match j with
        | .obj kvs => pure (kvs ++ rest)
        | .null => pure rest              -- flattened `None` / unit
        | _ => none
      else pure ((fieldKey cfg renameAll fld, j) :: rest)
  | _ + 1, _, _, _, _ => none
def serTuple (cfg : Cfg) (env : Env) : Nat → List (Str × RTy) → List Field → List RVal → Option (List JVal)
  | 0, _, _, _ => none
  | _ + 1, _, [], [] => some []
  | f + 1, σ, fld :: fs, v :: vs => do
    let rest ← serTuple cfg env f σ fs vs
    if fld.attr.skip then pure rest
    else do
      let j ← serTy cfg env f (RTy.subst σ fld.ty) v
      pure (j :: rest)
  | _ + 1, _, _, _ => none
def serVariant (cfg : Cfg) (env : Env) : Nat → Item → List (Str × RTy) → Variant → List RVal → Option JVal
  | 0, _, _, _, _ => none
  | f + 1, it, σ, var, vals =>
    if var.attr.skip then none                      -- serde: "the enum variant … cannot be serialized"
    else
      let name := variantKey cfg it.attr.renameAll var
      let renameAll := renameAllS it var
      let tg := if var.attr.untagged then Derive.Tagged.untagged else Derive.tagged it.attr
      -- a newtype variant whose only field is skipped behaves like a unit variant
      let unitLike := var.unitLike
      let content : Option JVal :=
        if unitLike then some .null
        else serStructBody cfg env f σ renameAll none name var.shape var.fields vals
      match tg with
      | .externally =>
        if unitLike then some (.str name)
        else content.map fun c => .obj [(name, c)]
      | .untagged => content
      | .adjacently t c =>
        if unitLike then some (.obj [(t, .str name)])
        else content.map fun cj => .obj [(t, .str name), (c, cj)]
      | .internally t =>
        if unitLike then some (.obj [(t, .str name)])
        else match var.shape with
          | .named => serStructBody cfg env f σ renameAll (some t) name var.shape var.fields vals
          | _ =>
            match content with
            | some (.obj kvs) => some (.obj ((t, .str name) :: kvs))
            | some .null => some (.obj [(t, .str name)])
            | _ => none
end

end Serde
end TsRs
