/-
  Model/Comment.lean — the part of TypeScript's lexical grammar that decides what is comment and what
  is code: block comments `/* .. */` (first `*/` closes, no nesting), line comments `// ..`, string
  literals `".."` / `'..'` with backslash escapes (comment markers inside a string are text).
  `sig` returns the significant characters of a text: everything that is neither comment nor
  white space outside strings — two texts with the same `sig` declare the same types.
-/
import TsRsVerif.Model.Derive
namespace TsRs
open Text

namespace Comment

inductive St where
  | code | slash | block | blockStar | line
  | str (q : Char) | strEsc (q : Char)
  deriving DecidableEq, Repr, Inhabited

def isWs (c : Char) : Bool := c = ' ' || c = '\n' || c = '\t' || c = '\r'
def isQuote (c : Char) : Bool := c = '"' || c = '\''

/-- one character in `code` state: (emitted characters, next state) -/
def codeStep (c : Char) : Str × St :=
  if c = '/' then ([], .slash)
  else if isWs c then ([], .code)
  else if isQuote c then ([c], .str c)
  else ([c], .code)

def step (st : St) (c : Char) : Str × St :=
  match st with
  | .code => codeStep c
  | .slash =>
    if c = '*' then ([], .block)
    else if c = '/' then ([], .line)
    else let (o, s) := codeStep c; ('/' :: o, s)       -- the pending `/` was an operator
  | .block => if c = '*' then ([], .blockStar) else ([], .block)
  | .blockStar => if c = '/' then ([], .code) else if c = '*' then ([], .blockStar) else ([], .block)
  | .line => if c = '\n' then ([], .code) else ([], .line)
  | .str q => if c = '\\' then ([c], .strEsc q) else if c = q then ([c], .code) else ([c], .str q)
  | .strEsc q => ([c], .str q)

/-- run the lexer: emitted significant characters and the end state -/
def run : St → Str → Str × St
  | st, [] => ([], st)
  | st, c :: r =>
    let (o, st') := step st c
    let (o', e) := run st' r
    (o ++ o', e)

/-- a `/` still pending at the end of the text is an operator -/
def flush : St → Str
  | .slash => ['/']
  | _ => []

/-- the significant characters of a text read from state `st` -/
def sig (st : St) (s : Str) : Str := let (o, e) := run st s; o ++ flush e

/-- the state in which the text ends -/
def endState (st : St) (s : Str) : St := (run st s).2

/-- split the inside of a block comment at the first `*/`: (body, what follows the comment) -/
def splitClose : Str → Option (Str × Str)
  | '*' :: '/' :: rest => some ([], rest)
  | c :: rest => (splitClose rest).map fun (b, r) => (c :: b, r)
  | [] => none

/-- a text starting with a block comment: (comment body, rest) -/
def leadingComment : Str → Option (Str × Str)
  | '/' :: '*' :: rest => splitClose rest
  | _ => none

/-- executable test: `s` is the body of a string literal delimited by `q` — no bare `q`, no dangling backslash
(sound for `LitBody`, `Lemmas/Closed.lean`) -/
def litBodyB (q : Char) : Str → Bool
  | [] => true
  | [c] => c != q && c != '\\'
  | c :: d :: r => if c = '\\' then litBodyB q r else c != q && litBodyB q (d :: r)


end Comment
end TsRs
