/-
  Model/Text.lean — Rust `str` operations used by ts-rs, re-implemented over `List Char`
  with Rust's semantics. Import-free (core only), every function structurally recursive so
  that it reduces in the kernel (`decide`) and compiles into the driver executable.
-/
namespace TsRs

abbrev Str := List Char

/-- outcome of a computation that may `panic!` in Rust -/
inductive Res (α : Type) where
  | ok (a : α)
  | panic (why : String)
  deriving Repr, DecidableEq, Inhabited

namespace Res
def bind {α β} (r : Res α) (f : α → Res β) : Res β :=
  match r with
  | ok a => f a
  | panic w => panic w
def map {α β} (f : α → β) (r : Res α) : Res β :=
  match r with
  | ok a => ok (f a)
  | panic w => panic w
def isOk {α} : Res α → Bool
  | ok _ => true
  | panic _ => false
instance : Monad Res where
  pure := ok
  bind := bind
end Res

instance {ε α : Type} [DecidableEq ε] [DecidableEq α] : DecidableEq (Except ε α) := fun a b =>
  match a, b with
  | .ok x, .ok y => if h : x = y then isTrue (by rw [h]) else isFalse (fun e => h (by injection e))
  | .error x, .error y => if h : x = y then isTrue (by rw [h]) else isFalse (fun e => h (by injection e))
  | .ok _, .error _ => isFalse (fun e => by injection e)
  | .error _, .ok _ => isFalse (fun e => by injection e)

namespace Text

/-- `str::strip_prefix` -/
def stripPrefix : (pat s : Str) → Option Str
  | [], s => some s
  | _ :: _, [] => none
  | p :: ps, c :: cs => if p = c then stripPrefix ps cs else none

def startsWith (pat s : Str) : Bool := (stripPrefix pat s).isSome

def endsWith (pat s : Str) : Bool := startsWith pat.reverse s.reverse

/-- `str::strip_suffix` -/
def stripSuffix (pat s : Str) : Option Str :=
  (stripPrefix pat.reverse s.reverse).map List.reverse

/-- `str::split_once(pat)` for a non-empty pattern: split at the FIRST occurrence. -/
def splitOnce (pat : Str) : Str → Option (Str × Str)
  | [] => none
  | c :: cs =>
    match stripPrefix pat (c :: cs) with
    | some rest => some ([], rest)
    | none => (splitOnce pat cs).map fun (a, b) => (c :: a, b)

/-- worker for `split`: `skip` characters of an already matched pattern are still to be dropped;
    `cur` is the current piece, reversed. -/
def splitAux (pat : Str) : Nat → Str → Str → List Str
  | _, cur, [] => [cur.reverse]
  | k + 1, cur, _ :: cs => splitAux pat k cur cs
  | 0, cur, c :: cs =>
    if startsWith pat (c :: cs) then cur.reverse :: splitAux pat (pat.length - 1) [] cs
    else splitAux pat 0 (c :: cur) cs

/-- `str::split(pat: &str)` for a non-empty pattern (left to right, non-overlapping);
    always returns at least one piece. -/
def split (pat s : Str) : List Str := splitAux pat 0 [] s

/-- `str::split(c: char)` -/
def splitChar (d : Char) : Str → List Str
  | [] => [[]]
  | c :: cs =>
    if c = d then [] :: splitChar d cs
    else match splitChar d cs with
      | [] => [[c]]          -- unreachable
      | p :: ps => (c :: p) :: ps

def intercalate (sep : Str) : List Str → Str
  | [] => []
  | [a] => a
  | a :: b :: rest => a ++ sep ++ intercalate sep (b :: rest)

/-- `str::lines()` : split on `\n`, strip one trailing `\r` per line, no final empty line. -/
def lines (s : Str) : List Str :=
  let ps := splitChar '\n' s
  let ps := if ps.getLast? = some [] then ps.dropLast else ps
  ps.map fun l => match stripSuffix ['\r'] l with
    | some l' => l'
    | none => l

/-- `str::trim_start_matches(pat: &str)` (repeated), non-empty pattern. Fuel = length. -/
def trimStartMatchesAux (pat : Str) : Nat → Str → Str
  | 0, s => s
  | n + 1, s => match stripPrefix pat s with
    | some r => if pat.isEmpty then s else trimStartMatchesAux pat n r
    | none => s

def trimStartMatches (pat s : Str) : Str := trimStartMatchesAux pat s.length s

/-- `str::trim_end_matches(pat: &str)` (repeated!) -/
def trimEndMatches (pat s : Str) : Str :=
  (trimStartMatches pat.reverse s.reverse).reverse

/-- `str::trim_start_matches(p)` for a char predicate -/
def trimStartP (p : Char → Bool) : Str → Str
  | [] => []
  | c :: cs => if p c then trimStartP p cs else c :: cs

def trimEndP (p : Char → Bool) (s : Str) : Str := (trimStartP p s.reverse).reverse

def trimP (p : Char → Bool) (s : Str) : Str := trimEndP p (trimStartP p s)

/-- `char::is_whitespace` (Unicode White_Space) -/
def isWhitespace (c : Char) : Bool :=
  let n := c.toNat
  (9 ≤ n && n ≤ 13) || n = 32 || n = 0x85 || n = 0xA0 || n = 0x1680 ||
  (0x2000 ≤ n && n ≤ 0x200A) || n = 0x2028 || n = 0x2029 || n = 0x202F || n = 0x205F || n = 0x3000

/-- `str::trim()` -/
def trim (s : Str) : Str := trimP isWhitespace s

/-- first item of `str::split_whitespace()` -/
def firstWord (s : Str) : Option Str :=
  match trimStartP isWhitespace s with
  | [] => none
  | w => some (w.takeWhile fun c => !isWhitespace c)

/-- `str::replace(from, to)` for non-empty `from` -/
def replace (frm to s : Str) : Str := intercalate to (split frm s)

/-- byte-wise `str` ordering = lexicographic by code point (UTF-8 preserves it) -/
def ltStr : Str → Str → Bool
  | [], [] => false
  | [], _ :: _ => true
  | _ :: _, [] => false
  | a :: as, b :: bs => if a.toNat < b.toNat then true else if b.toNat < a.toNat then false else ltStr as bs

def leStr (a b : Str) : Bool := !ltStr b a

/-- insertion into a sorted duplicate-free list (the order of a `BTreeSet<&str>`) -/
def insertSorted (x : Str) : List Str → List Str
  | [] => [x]
  | y :: ys => if ltStr x y then x :: y :: ys else if x = y then y :: ys else y :: insertSorted x ys

/-- `str::find(c)` as a character count of the prefix before the first `c` -/
def takeUntilChar (d : Char) : Str → Option Str
  | [] => none
  | c :: cs => if c = d then some [] else (takeUntilChar d cs).map (c :: ·)

def utf8Len (c : Char) : Nat :=
  let n := c.toNat
  if n < 0x80 then 1 else if n < 0x800 then 2 else if n < 0x10000 then 3 else 4

def asciiUpper (c : Char) : Char :=
  if 'a'.toNat ≤ c.toNat ∧ c.toNat ≤ 'z'.toNat then Char.ofNat (c.toNat - 32) else c

def asciiLower (c : Char) : Char :=
  if 'A'.toNat ≤ c.toNat ∧ c.toNat ≤ 'Z'.toNat then Char.ofNat (c.toNat + 32) else c

end Text
end TsRs
