/-
  Model/Export.lean — `export_and_merge` and `export_to`'s file handling (export.rs:103-183) over
  the file-system model and the `EXPORT_PATHS` registry.
-/
import TsRsVerif.Model.Fs
import TsRsVerif.Model.Merge
namespace TsRs
open Text

/-- `EXPORT_PATHS : HashMap<PathBuf, HashSet<String>>`; keys compare as `PathBuf`s (component-wise) -/
abbrev Registry := List (List Comp × List Str)

structure World where
  fs : Fs
  reg : Registry
  poisoned : Bool := false
  deriving Repr, Inhabited

inductive Outcome where
  | ok
  | err (e : ExportErr)
  | panic
  deriving DecidableEq, Repr, Inhabited

namespace Export

def regKey (p : Str) : List Comp := Path.components p

def regGet (r : Registry) (k : List Comp) : Option (List Str) := (r.find? (·.1 = k)).map (·.2)

def regInsert (r : Registry) (k : List Comp) (name : Str) : Registry :=
  match regGet r k with
  | none => (k, [name]) :: r
  | some names => (k, if name ∈ names then names else name :: names) :: r.filter (·.1 ≠ k)

/-- `export_and_merge(path, type_name, generated_type)` (export.rs:136-183) -/
def exportAndMerge (w : World) (path name text : Str) : World × Outcome :=
  if w.poisoned then (w, .panic)            -- `lock().unwrap()` on a poisoned mutex
  else
    let k := regKey path
    match regGet w.reg k with
    | none =>
      match w.fs.fileCreate path text with
      | none => (w, .err .io)
      | some fs' => ({ w with fs := fs', reg := regInsert w.reg k name }, .ok)
    | some names =>
      if name ∈ names then (w, .ok)
      else match w.fs.openRead path with
        | none => (w, .err .io)
        | some (loc, orig) =>
          match Merge.merge orig text with
          | .panic _ => ({ w with poisoned := true }, .panic)   -- panics while holding the lock
          | .ok buffer =>
            let content := Fs.writeAt orig (Fs.byteLen Merge.NOTE) buffer
            ({ w with fs := w.fs.set loc (.file content), reg := regInsert w.reg k name }, .ok)

/-! ### the entry points over a table of types

What a type contributes to exporting is summarised by `TyInfo` (its identifier, relative output
path, the text `export_to_string` returns, and the exportable types `visit_dependencies` visits, in
order). The export machinery itself — `export_to`, `export_into`, `export_recursive` and the three
public entry points — is transcribed below. -/

structure TyInfo where
  ident : Str
  outputPath : Option Str
  text : Except ExportErr Str
  deps : List Nat
  deriving Repr, Inhabited

abbrev Universe := List TyInfo

def cwdStr (fs : Fs) : Str := '/' :: intercalate ['/'] fs.cwd

/-- `export_to::<T, _>(path)` (export.rs, without the `format` feature). The path is normalised
    first (`path::absolute`), so the registry key is the same for every entry point. -/
def exportTo (w : World) (t : TyInfo) (path0 : Str) : World × Outcome :=
  match Path.absolute (cwdStr w.fs) path0 with
  | .error e => (w, .err e)
  | .ok path =>
    match t.text with
    | .error e => (w, .err e)
    | .ok buffer =>
      match Path.parent path with
      | none => exportAndMerge w path t.ident buffer
      | some par =>
        match w.fs.createDirAll par with
        | none => (w, .err .io)
        | some fs' => exportAndMerge { w with fs := fs' } path t.ident buffer

/-- `export_into::<T>(out_dir)` (export.rs:91-100) -/
def exportInto (w : World) (t : TyInfo) (outDir : Str) : World × Outcome :=
  match t.outputPath with
  | none => (w, .err .cannotBeExported)
  | some op =>
    match Path.absolute (cwdStr w.fs) (Path.join outDir op) with
    | .error e => (w, .err e)
    | .ok p => exportTo w t p

abbrev WalkRes := World × List Nat × Outcome

/-- `T::visit_dependencies(&mut visitor)` with `Visit::visit` (export.rs:51-61): dependencies in
    order; once an error is recorded the remaining ones are skipped; non-exportable ones are
    skipped; otherwise `export_recursive` (passed as `recur`) is called. -/
def visitDeps (u : Universe) (recur : World → List Nat → Nat → Option WalkRes) :
    List Nat → World → List Nat → Option WalkRes
  | [], w, seen => some (w, seen, .ok)
  | d :: ds, w, seen =>
    match u[d]? with
    | none => none
    | some td =>
      if td.outputPath.isNone then visitDeps u recur ds w seen
      else match recur w seen d with
        | none => none
        | some (w2, seen2, .ok) => visitDeps u recur ds w2 seen2
        | some (w2, seen2, o) => some (w2, seen2, o)

/-- `export_recursive` (export.rs:63-87): depth-first, `seen` keyed by the instantiation, the first
    error stops the walk. `fuel` bounds the recursion depth (the number of types suffices);
    `none` = fuel exhausted / index outside the table. -/
def exportRec (u : Universe) : Nat → World → List Nat → Str → Nat → Option WalkRes
  | 0, _, _, _, _ => none
  | fuel + 1, w, seen, outDir, i =>
    if i ∈ seen then some (w, seen, .ok)
    else
      match u[i]? with
      | none => none
      | some t =>
        match exportInto w t outDir with
        | (w1, .ok) => visitDeps u (fun w' s' d => exportRec u fuel w' s' outDir d) t.deps w1 (i :: seen)
        | (w1, o) => some (w1, i :: seen, o)

inductive Entry where
  | export (i : Nat)
  | exportAll (i : Nat)
  | exportAllTo (i : Nat) (dir : Str)
  deriving Repr, Inhabited

/-- `TS::export`, `TS::export_all`, `TS::export_all_to` (lib.rs:500-552) -/
def runEntry (u : Universe) (defaultOutDir : Str) (w : World) : Entry → Option (World × Outcome)
  | .export i =>
    match u[i]? with
    | none => none
    | some t =>
      match t.outputPath with
      | none => some (w, .err .cannotBeExported)
      | some op => some (exportTo w t (Path.join defaultOutDir op))
  | .exportAll i => (exportRec u (u.length + 1) w [] defaultOutDir i).map fun r => (r.1, r.2.2)
  | .exportAllTo i dir => (exportRec u (u.length + 1) w [] dir i).map fun r => (r.1, r.2.2)

end Export
end TsRs
