/-
  Model/Export.lean — `export_and_merge` and `export_to`'s file handling (export.rs:103-183) over
  the file-system model and the `EXPORT_PATHS` registry.
-/
import TsRsVerif.Model.Fs
import TsRsVerif.Model.Merge
namespace TsRs
open Text

/-- `EXPORT_PATHS : HashMap<PathBuf, HashSet<String>>`; keys compare as `PathBuf`s (component-wise) -/
abbrev Registry := List (List Comp × List Str)

structure World where
  fs : Fs
  reg : Registry
  poisoned : Bool := false
  deriving Repr, Inhabited

inductive Outcome where
  | ok
  | err (e : ExportErr)
  | panic
  deriving DecidableEq, Repr, Inhabited

namespace Export

def regKey (p : Str) : List Comp := Path.components p

def regGet (r : Registry) (k : List Comp) : Option (List Str) := (r.find? (·.1 = k)).map (·.2)

def regInsert (r : Registry) (k : List Comp) (name : Str) : Registry :=
  match regGet r k with
  | none => (k, [name]) :: r
  | some names => (k, if name ∈ names then names else name :: names) :: r.filter (·.1 ≠ k)

/-- `export_and_merge(path, type_name, generated_type)` (export.rs:136-183) -/
def exportAndMerge (w : World) (path name text : Str) : World × Outcome :=
  if w.poisoned then (w, .panic)            -- `lock().unwrap()` on a poisoned mutex
  else
    let k := regKey path
    match regGet w.reg k with
    | none =>
      match w.fs.fileCreate path text with
      | none => (w, .err .io)
      | some fs' => ({ w with fs := fs', reg := regInsert w.reg k name }, .ok)
    | some names =>
      if name ∈ names then (w, .ok)
      else match w.fs.openRead path with
        | none => (w, .err .io)
        | some (loc, orig) =>
          match Merge.merge orig text with
          | .panic _ => ({ w with poisoned := true }, .panic)   -- panics while holding the lock
          | .ok buffer =>
            let content := Fs.writeAt orig (Fs.byteLen Merge.NOTE) buffer
            ({ w with fs := w.fs.set loc (.file content), reg := regInsert w.reg k name }, .ok)

end Export
end TsRs
