/-
  Model/Builtin.lean — the hand-written `impl TS for …` of ts-rs/src/lib.rs (`impl_primitives!`,
  `impl_wrapper!`, `impl_shadow!`, Option, Vec, [T; N], HashMap, Result, Range, tuples) at tree level
  (`nameTyB`), and — as ORACLE model — what serde/serde_json emit for the same types (`serB`).
  Named user types are handled by the callbacks `nameN` / `serN` (Model/Derive.lean, Model/Serde.lean).
-/
import TsRsVerif.Model.RTy
import TsRsVerif.Model.Ts
import TsRsVerif.Generated.Tables
namespace TsRs
open Text

namespace Builtin

/-- TypeScript name of a primitive row, from the GENERATED table -/
def primTsName (rust : String) : Option String :=
  (Gen.primitives.find? (·.1 = rust)).map (·.2.1)

def tsOfPrimName : String → Option Ts
  | "number" => some .number | "bigint" => some .bigint | "string" => some .string
  | "boolean" => some .boolean | "null" => some .null
  | _ => none

def primTs (rust : String) : Option Ts := (primTsName rust).bind tsOfPrimName

mutual
/-- `impl TS for …::name()` as a type tree; `none` where `name()` is not defined by the model -/
def nameTyB (limit : Nat) (nameN : Str → List Ts → Option Ts) : RTy → Option Ts
  | .prim r => primTs r
  | .option t => (nameTyB limit nameN t).map fun x => .union [x, .null]
  | .vec t | .slice t | .set t => (nameTyB limit nameN t).map .array
  | .arr t n => (nameTyB limit nameN t).map fun x => if n > limit then .array x else .tuple (List.replicate n x)
  | .tuple ts => (nameTyBL limit nameN ts).map .tuple
  | .map k v => do
      let k' ← nameTyB limit nameN k
      let v' ← nameTyB limit nameN v
      pure (.mapped k' v')
  | .result t e => do
      let t' ← nameTyB limit nameN t
      let e' ← nameTyB limit nameN e
      pure (.union [.obj [({ name := "Ok".toList }, t')], .obj [({ name := "Err".toList }, e')]])
  | .range t => (nameTyB limit nameN t).map fun x => .obj [({ name := "start".toList }, x), ({ name := "end".toList }, x)]
  | .wrap _ t => nameTyB limit nameN t
  | .named id args => (nameTyBL limit nameN args).bind (nameN id)
  | .param n => some (.param n)
def nameTyBL (limit : Nat) (nameN : Str → List Ts → Option Ts) : List RTy → Option (List Ts)
  | [] => some []
  | t :: ts => do
      let x ← nameTyB limit nameN t
      let xs ← nameTyBL limit nameN ts
      pure (x :: xs)
end

/-! ### serde's side (specification) -/

inductive PrimClass where
  | int (lo hi : Int) (nonzero : Bool)
  | float | bool | char | string | unit
  deriving Repr, DecidableEq

/-- what values a primitive Rust type has and how serde_json prints them -/
def primClass : String → Option PrimClass
  | "u8" => some (.int 0 255 false) | "i8" => some (.int (-128) 127 false)
  | "u16" => some (.int 0 65535 false) | "i16" => some (.int (-32768) 32767 false)
  | "u32" => some (.int 0 4294967295 false) | "i32" => some (.int (-2147483648) 2147483647 false)
  | "u64" => some (.int 0 18446744073709551615 false) | "i64" => some (.int (-9223372036854775808) 9223372036854775807 false)
  | "u128" => some (.int 0 340282366920938463463374607431768211455 false)
  | "i128" => some (.int (-170141183460469231731687303715884105728) 170141183460469231731687303715884105727 false)
  | "usize" => some (.int 0 18446744073709551615 false) | "isize" => some (.int (-9223372036854775808) 9223372036854775807 false)
  | "NonZeroU8" => some (.int 0 255 true) | "NonZeroI8" => some (.int (-128) 127 true)
  | "NonZeroU16" => some (.int 0 65535 true) | "NonZeroI16" => some (.int (-32768) 32767 true)
  | "NonZeroU32" => some (.int 0 4294967295 true) | "NonZeroI32" => some (.int (-2147483648) 2147483647 true)
  | "NonZeroU64" => some (.int 0 18446744073709551615 true) | "NonZeroI64" => some (.int (-9223372036854775808) 9223372036854775807 true)
  | "NonZeroU128" => some (.int 0 340282366920938463463374607431768211455 true)
  | "NonZeroI128" => some (.int (-170141183460469231731687303715884105728) 170141183460469231731687303715884105727 true)
  | "NonZeroUsize" => some (.int 0 18446744073709551615 true) | "NonZeroIsize" => some (.int (-9223372036854775808) 9223372036854775807 true)
  | "f32" | "f64" => some .float
  | "bool" => some .bool
  | "char" => some .char
  | "String" | "str" | "Path" | "PathBuf" | "Ipv4Addr" | "Ipv6Addr" | "IpAddr" | "SocketAddrV4" | "SocketAddrV6" | "SocketAddr" => some .string
  | "()" => some .unit
  | _ => none

/-- the TypeScript type that describes serde's JSON for a primitive class (the SPECIFICATION the
    generated table is compared with): small integers and floats are `number`, 64/128-bit integers
    `bigint`, … -/
def specTs (rust : String) : Option String :=
  match primClass rust with
  | some (.int lo hi _) =>
    if rust = "usize" ∨ rust = "isize" ∨ rust = "NonZeroUsize" ∨ rust = "NonZeroIsize" then some "number"
    else if hi ≤ 4294967295 ∧ -2147483648 ≤ lo then some "number" else some "bigint"
  | some .float => some "number"
  | some .bool => some "boolean"
  | some .char | some .string => some "string"
  | some .unit => some "null"
  | none => none

def serPrim (c : PrimClass) (v : RVal) : Option JVal :=
  match c, v with
  | .int lo hi nz, .int i => if lo ≤ i ∧ i ≤ hi ∧ (nz = false ∨ i ≠ 0) then some (.int i) else none
  | .float, .float r => some (.float r)
  | .float, .int i => some (.float (toString i ++ ".0").toList)   -- an integral float prints as `1.0`
  | .float, .nonFinite => some .null                               -- NaN / inf serialize to `null`
  | .bool, .bool b => some (.bool b)
  | .char, .char ch => some (.str [ch])
  | .string, .str s => some (.str s)
  | .unit, .unit => some .null
  | _, _ => none

/-- the JSON object key serde_json derives from a serialized key -/
def keyOfJson : JVal → Option Str
  | .str s => some s
  | .int i => some (toString i).toList
  | _ => none

mutual
/-- serde_json's output for a value of a library type; `none` = the value does not have that type
    (or serde_json refuses, e.g. a non-string-like map key) -/
def serB (serN : Str → List RTy → RVal → Option JVal) : RTy → RVal → Option JVal
  | .prim r, v => (primClass r).bind fun c => serPrim c v
  | .option _, .none => some .null
  | .option t, .some v => serB serN t v
  | .vec t, .seq vs | .slice t, .seq vs | .set t, .seq vs => (serAllB serN t vs).map .arr
  | .arr t n, .seq vs => if vs.length = n then (serAllB serN t vs).map .arr else none
  | .tuple ts, .seq vs => (serZipB serN ts vs).map .arr
  | .map k v, .map kvs => (serMapB serN k v kvs).map .obj
  | .result t _, .ok v => (serB serN t v).map fun j => .obj [("Ok".toList, j)]
  | .result _ e, .err v => (serB serN e v).map fun j => .obj [("Err".toList, j)]
  | .range t, .range a b => do
      let a' ← serB serN t a
      let b' ← serB serN t b
      pure (.obj [("start".toList, a'), ("end".toList, b')])
  | .wrap .phantom _, .phantom => some .null
  | .wrap .weak _, .weakDead => some .null
  | .wrap .phantom _, _ => none
  | .wrap _ t, v => serB serN t v
  | .named id args, v => serN id args v
  | _, _ => none
def serAllB (serN : Str → List RTy → RVal → Option JVal) : RTy → List RVal → Option (List JVal)
  | _, [] => some []
  | t, v :: vs => do
      let j ← serB serN t v
      let js ← serAllB serN t vs
      pure (j :: js)
def serZipB (serN : Str → List RTy → RVal → Option JVal) : List RTy → List RVal → Option (List JVal)
  | [], [] => some []
  | t :: ts, v :: vs => do
      let j ← serB serN t v
      let js ← serZipB serN ts vs
      pure (j :: js)
  | _, _ => none
def serMapB (serN : Str → List RTy → RVal → Option JVal) : RTy → RTy → List (RVal × RVal) → Option (List (Str × JVal))
  | _, _, [] => some []
  | k, v, (a, b) :: rest => do
      let kj ← serB serN k a
      let key ← keyOfJson kj
      let vj ← serB serN v b
      let more ← serMapB serN k v rest
      pure ((key, vj) :: more)
end

end Builtin
end TsRs
