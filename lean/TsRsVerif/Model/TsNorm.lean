/-
  Model/TsNorm.lean — structural equality and a normal form of type trees, used by the oracles of
  C07 / C14 to compare presentations (parentheses dropped, nested unions/intersections flattened,
  `{..} & {..}` merged, references to chosen declarations unfolded).
-/
import TsRsVerif.Model.Ts
namespace TsRs
open Text
namespace Ts

mutual
def beq : Ts → Ts → Bool
  | .number, .number | .bigint, .bigint | .string, .string | .boolean, .boolean | .null, .null | .never, .never => true
  | .neverArray, .neverArray | .emptyRecord, .emptyRecord => true
  | .lit a, .lit b | .param a, .param b | .raw a, .raw b => a == b
  | .ref a as, .ref b bs => a == b && beqL as bs
  | .array a, .array b | .paren a, .paren b => beq a b
  | .tuple a, .tuple b | .union a, .union b | .inter a, .inter b => beqL a b
  | .obj a, .obj b => beqF a b
  | .mapped a b, .mapped c d => beq a c && beq b d
  | _, _ => false
def beqL : List Ts → List Ts → Bool
  | [], [] => true
  | a :: as, b :: bs => beq a b && beqL as bs
  | _, _ => false
def beqF : List (TsKey × Ts) → List (TsKey × Ts) → Bool
  | [], [] => true
  | (k, a) :: as, (k', b) :: bs => k.name == k'.name && k.optional == k'.optional && beq a b && beqF as bs
  | _, _ => false
end

mutual
/-- normal form: no parentheses, flat unions / intersections, adjacent object literals of an
    intersection merged, references to `names` unfolded through `D`; the fuel bounds the DEPTH only (lists of elements / fields
    are traversed at the same fuel, so a wide object does not exhaust it) -/
def norm (D : Decls) (names : List Str) : Nat → Ts → Ts
  | 0, t => t
  | f + 1, t =>
    match t with
    | .paren x => norm D names f x
    | .ref n args =>
      let args' := normL D names f args
      if n ∈ names then
        match lookupDecl D n with
        | some (ps, body) => norm D names f (subst (ps.zip args') body)
        | none => .ref n args'
      else .ref n args'
    | .array x => .array (norm D names f x)
    | .tuple xs => .tuple (normL D names f xs)
    | .obj fs => .obj (normF D names f fs)
    | .mapped k v => .mapped (norm D names f k) (norm D names f v)
    | .union xs =>
      let ys := (normL D names f xs).flatMap fun y => match y with | .union zs => zs | z => [z]
      match ys with | [y] => y | _ => .union ys
    | .inter xs =>
      let ys := (normL D names f xs).flatMap fun y => match y with | .inter zs => zs | z => [z]
      -- merge object literals
      let objs := ys.filterMap fun y => match y with | .obj fs => some fs | _ => none
      let rest := ys.filter fun y => match y with | .obj _ => false | _ => true
      let merged := if objs = [] then rest else .obj objs.flatten :: rest
      match merged with | [y] => y | _ => .inter merged
    | x => x
termination_by f t => (f, 0)
def normL (D : Decls) (names : List Str) : Nat → List Ts → List Ts
  | _, [] => []
  | f, t :: ts => norm D names f t :: normL D names f ts
termination_by f ts => (f, ts.length + 1)
def normF (D : Decls) (names : List Str) : Nat → List (TsKey × Ts) → List (TsKey × Ts)
  | _, [] => []
  | f, (k, t) :: fs => (k, norm D names f t) :: normF D names f fs
termination_by f fs => (f, fs.length + 1)
end

mutual
/-- free type-parameter-like names: references without arguments that are not declared in `D` -/
def freeRefs : Ts → List Str
  | .ref n args => n :: freeRefsL args
  | .param n => [n]
  | .array x | .paren x => freeRefs x
  | .tuple xs | .union xs | .inter xs => freeRefsL xs
  | .obj fs => freeRefsF fs
  | .mapped k v => freeRefs k ++ freeRefs v
  | _ => []
def freeRefsL : List Ts → List Str
  | [] => []
  | t :: ts => freeRefs t ++ freeRefsL ts
def freeRefsF : List (TsKey × Ts) → List Str
  | [] => []
  | (_, t) :: fs => freeRefs t ++ freeRefsF fs
end

end Ts
end TsRs
