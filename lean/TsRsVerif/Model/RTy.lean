/-
  Model/RTy.lean — Rust type expressions and Rust values (as far as serde sees them).
-/
import TsRsVerif.Model.Json
namespace TsRs

inductive WrapKind where
  | ref | box | arc | rc | cow | cell | refCell | mutex | rwLock | weak | phantom
  deriving DecidableEq, Repr, Inhabited

inductive RTy where
  | prim (rust : String)                  -- a row of `impl_primitives!` (by its Rust spelling)
  | option (t : RTy)
  | vec (t : RTy)
  | slice (t : RTy)
  | set (t : RTy)                         -- HashSet / BTreeSet
  | arr (t : RTy) (n : Nat)               -- [T; N]
  | tuple (ts : List RTy)
  | map (k v : RTy)                       -- HashMap / BTreeMap
  | result (t e : RTy)
  | range (t : RTy)                       -- Range / RangeInclusive
  | wrap (k : WrapKind) (t : RTy)
  | named (id : Str) (args : List RTy)    -- a user type with its type arguments
  | param (name : Str)                    -- a type parameter of the enclosing item
  deriving Repr, Inhabited

inductive RVal where
  | int (i : Int)
  | float (repr : Str)                    -- finite, printed with fraction/exponent
  | nonFinite                             -- NaN / ±inf
  | bool (b : Bool)
  | char (c : Char)
  | str (s : Str)
  | unit
  | none
  | some (v : RVal)
  | seq (vs : List RVal)                  -- Vec, slices, sets, arrays, tuples
  | map (kvs : List (RVal × RVal))
  | ok (v : RVal)
  | err (v : RVal)
  | range (a b : RVal)
  | phantom
  | weakDead
  | strukt (fields : List RVal)           -- struct value: fields in declaration order
  | variant (idx : Nat) (fields : List RVal)
  deriving Repr, Inhabited

end TsRs
