/-
  Model/TreeDerive.lean — the derive as a function into TYPE TREES (`Ts`) instead of text, for the core
  fragment: structs (named / tuple / newtype / unit / empty) and enums (externally, adjacently,
  internally tagged, untagged, per-variant `untagged`) with `rename`, `rename_all`,
  `rename_all_fields`, `tag`, `content`, `skip`, type parameters (generic items, any instantiation); `optional` /
  `optional = nullable` / `optional_fields` paired with `skip_serializing_if`; no `flatten`, `inline`, `as`, `type`, `concrete`. Same case analysis as `Derive.itemDef` (types/{named,tuple,newtype,unit,enum}.rs); the two
  are tied at run time: the REAL `decl()` of every corpus item in the fragment, parsed, must equal
  `Tree.itemBody` (check C01, stream "tree derive").
  `Props/C01.lean` proves: what the serde model emits for a value of such an item inhabits this tree.
-/
import TsRsVerif.Model.Serde
namespace TsRs
open Text Ts

namespace Tree

/-- the TypeScript property name of a field, before quoting (`format_field`, types/named.rs) -/
def fieldKey (cfg : Cfg) (renameAll : Option Rule) (f : Field) : Str :=
  let ident := Case.toTsIdent (f.name.getD [])
  match f.attr.rename, renameAll with
  | some rn, _ => rn
  | none, some r => Case.applyToField cfg.ops r ident
  | none, none => ident

/-- `<Named as TS>::name()` as a tree: a reference with the argument names (one per type parameter: anything else does not compile) -/
def nameN (env : Env) (id : Str) (targs : List Ts) : Option Ts :=
  (env.find id).bind fun it => if targs.length = it.generics.length then some (.ref (Derive.tsName it) targs) else none

def tyTs (cfg : Cfg) (env : Env) (t : RTy) : Option Ts := Builtin.nameTyB cfg.limit (nameN env) t

/-- `format_field`: (the property is written `name?:`, the `| null` of an Option is kept) — field-level
`optional` / `optional = nullable`, else the container's `optional_fields` for fields of type `Option` -/
def optMode (of : Opt) (f : Field) : Bool × Bool :=
  match of, f.attr.optional with
  | _, .optional => (true, false)
  | _, .nullable => (true, true)
  | .optional, .no => (Derive.isOption f.ty, false)
  | .nullable, .no => (Derive.isOption f.ty, true)
  | .no, .no => (false, true)

/-- the properties of a named-field body: one per non-skipped field -/
def fieldsTs (cfg : Cfg) (env : Env) (renameAll : Option Rule) (of : Opt) : List Field → Option (List (TsKey × Ts))
  | [] => some []
  | f :: fs => do
    let rest ← fieldsTs cfg env renameAll of fs
    if f.attr.skip then pure rest
    else do
      let t ← tyTs cfg env (if (optMode of f).2 then f.ty else Derive.optionInner f.ty)
      pure (({ name := fieldKey cfg renameAll f, optional := (optMode of f).1 }, t) :: rest)

def tupleTs (cfg : Cfg) (env : Env) : List Field → Option (List Ts)
  | [] => some []
  | f :: fs => do
    let rest ← tupleTs cfg env fs
    if f.attr.skip then pure rest
    else do
      let t ← tyTs cfg env f.ty
      pure (t :: rest)

/-- `type_def` (types/mod.rs): the body of a struct or of a variant's content; `tag` = (tag, name) of a tagged struct -/
def structBody (cfg : Cfg) (env : Env) (renameAll : Option Rule) (of : Opt) (tag : Option (Str × Str)) (shape : Shape) (fields : List Field) : Option Ts :=
  match shape with
  | .unit => some .null
  | .named =>
    if fields.isEmpty && tag.isNone then some .emptyRecord
    else do
      let fs ← fieldsTs cfg env renameAll of fields
      let tagF : List (TsKey × Ts) := match tag with
        | some (t, n) => [({ name := t }, .lit n)]
        | none => []
      pure (.obj (tagF ++ fs))
  | .tuple =>
    match fields with
    | [] => some .neverArray
    | [f] => if f.attr.skip then some .null else tyTs cfg env f.ty
    | fs => (tupleTs cfg env fs).map .tuple

/-- `StructAttr::from_variant`: the variant's own `rename_all`, else (named fields only) the enum's `rename_all_fields` -/
def renameAllT (it : Item) (v : Variant) : Option Rule :=
  match v.attr.renameAll with
  | some r => some r
  | none => if v.shape = .named then it.attr.renameAllFields else none

/-- `format_variant` (types/enum.rs) -/
def variantTs (cfg : Cfg) (env : Env) (it : Item) (v : Variant) : Option Ts :=
  let name := Derive.variantTsName cfg it.attr.renameAll v
  let renameAll := renameAllT it v
  let tg := if v.attr.untagged then Derive.Tagged.untagged else Derive.tagged it.attr
  let unitLike := v.unitLike
  match tg with
  | .untagged => structBody cfg env renameAll .no none v.shape v.fields
  | .externally =>
    if unitLike then some (.lit name)
    else (structBody cfg env renameAll .no none v.shape v.fields).map fun c => .obj [({ name := name }, c)]
  | .adjacently t c =>
    if unitLike then some (.obj [({ name := t }, .lit name)])
    else (structBody cfg env renameAll .no none v.shape v.fields).map fun b => .obj [({ name := t }, .lit name), ({ name := c }, b)]
  | .internally t =>
    if unitLike then some (.obj [({ name := t }, .lit name)])
    else match v.shape with
      | .named => structBody cfg env renameAll .no (some (t, name)) v.shape v.fields
      | _ => none                                    -- newtype variants of internally tagged enums: outside the fragment

def variantsTs (cfg : Cfg) (env : Env) (it : Item) : List Variant → Option (List Ts)
  | [] => some []
  | v :: vs => do
    let rest ← variantsTs cfg env it vs
    if v.attr.skip then pure rest
    else do
      let t ← variantTs cfg env it v
      pure (t :: rest)

/-- the right-hand side of the item's declaration -/
def itemBody (cfg : Cfg) (env : Env) (it : Item) : Option Ts :=
  if it.isEnum then
    if it.variants.isEmpty then some .never
    else do
      let arms ← variantsTs cfg env it it.variants
      if arms.isEmpty then some .never else pure (.union arms)
  else
    structBody cfg env it.attr.renameAll it.attr.optionalFields (it.attr.tag.map fun t => (t, Derive.tsName it)) it.shape it.fields

/-- all declarations of a program -/
def declsOf (cfg : Cfg) (env : Env) : Decls :=
  env.filterMap fun it => (itemBody cfg env it).map fun b => (Derive.tsName it, it.generics.map (·.name), b)

/-! ### the fragment (decidable) -/

def fieldOk (cfg : Cfg) (renameAll : Option Rule) (f : Field) : Bool :=
  !f.attr.inline && !f.attr.flatten && f.attr.optional == .no && f.attr.typeAs.isNone && f.attr.typeOverride.isNone
  && !f.attr.skipSerIfNone
  && (f.attr.skip || fieldKey cfg renameAll f == Serde.fieldKey cfg renameAll f)      -- C09: the two renamings agree

def isParam : RTy → Bool
  | .param _ => true
  | _ => false

/-- a named field, with the optional machinery: a property written `name?: T` (without `| null`) must be left out by serde when it
is `None` (`skip_serializing_if = "Option::is_none"`), a property that serde may leave out must be written `name?:` -/
def fieldOkN (cfg : Cfg) (renameAll : Option Rule) (of : Opt) (f : Field) : Bool :=
  !f.attr.inline && !f.attr.flatten && f.attr.typeAs.isNone && f.attr.typeOverride.isNone
  && (f.attr.skip ||
      (fieldKey cfg renameAll f == Serde.fieldKey cfg renameAll f
       && (!f.attr.skipSerIfNone || (optMode of f).1)
       && (!(optMode of f).1 || Derive.isOption f.ty)
       && (!((optMode of f).1 && !(optMode of f).2) || f.attr.skipSerIfNone)
       && (of == .no || !isParam f.ty)))

def keysOf (cfg : Cfg) (renameAll : Option Rule) (fields : List Field) : List Str :=
  (fields.filter fun f => !f.attr.skip).map (Serde.fieldKey cfg renameAll)

def bodyOk (cfg : Cfg) (renameAll : Option Rule) (of : Opt) (tag : Option Str) (shape : Shape) (fields : List Field) : Bool :=
  (if shape == .named then fields.all (fieldOkN cfg renameAll of) else fields.all (fieldOk cfg renameAll))
  && (shape != .named || ((tag.toList ++ keysOf cfg renameAll fields).Nodup : Bool))

def variantOk (cfg : Cfg) (it : Item) (v : Variant) : Bool :=
  !v.attr.inline && v.attr.typeAs.isNone && v.attr.typeOverride.isNone
  && Derive.variantTsName cfg it.attr.renameAll v == Serde.variantKey cfg it.attr.renameAll v
  && (let renameAll := renameAllT it v
      -- serde applies rename_all_fields to every variant; it only matters for named fields
      (v.shape != .named || renameAll == Serde.renameAllS it v)
      && (match (if v.attr.untagged then Derive.Tagged.untagged else Derive.tagged it.attr) with
          | .internally t => (v.shape == .named || v.shape == .unit || (v.shape == .tuple && (match v.fields with | [f] => f.attr.skip | _ => false)))
                             && bodyOk cfg renameAll .no (some t) v.shape v.fields
          | .adjacently t c => t != c && bodyOk cfg renameAll .no none v.shape v.fields
          | _ => bodyOk cfg renameAll .no none v.shape v.fields))

def itemOk (cfg : Cfg) (it : Item) : Bool :=
  it.attr.typeAs.isNone && it.attr.typeOverride.isNone && it.attr.concrete.isEmpty
  && (if it.isEnum then it.attr.optionalFields == .no && it.variants.all (variantOk cfg it)
      else bodyOk cfg it.attr.renameAll it.attr.optionalFields it.attr.tag it.shape it.fields
           -- a newtype struct whose only field is skipped: not modelled on the serde side
           && !(it.shape == .tuple && (match it.fields with | [f] => f.attr.skip | _ => false)))

/-- the program is in the fragment: every item is, Rust names and TypeScript names are unique -/
def fragB (cfg : Cfg) (env : Env) : Bool :=
  env.all (itemOk cfg) && ((env.map (·.name)).Nodup : Bool) && ((env.map Derive.tsName).Nodup : Bool)
  && env.all fun it => (itemBody cfg env it).isSome            -- every type mentioned is known

end Tree
end TsRs
