/-
  Model/TsParse.lean — reader for the TypeScript text ts-rs prints (used by the ORACLES, which judge
  the implementation's real output, and by the render/parse bridge checks). Recursive descent
  with fuel; comments are skipped; `none` = not in the fragment.
-/
import TsRsVerif.Model.Ts
namespace TsRs
open Text

namespace TsParse

def isDelim (c : Char) : Bool :=
  isWhitespace c || c = '|' || c = '&' || c = '(' || c = ')' || c = '{' || c = '}' || c = '[' || c = ']'
  || c = '<' || c = '>' || c = ',' || c = ':' || c = ';' || c = '?' || c = '"' || c = '='

/-- skip whitespace and `/* … */` comments -/
def skipWs : Nat → Str → Str
  | 0, s => s
  | n + 1, s =>
    match s with
    | '/' :: '*' :: rest =>
      let rec close : Str → Str
        | '*' :: '/' :: r => r
        | _ :: r => close r
        | [] => []
      skipWs n (close rest)
    | c :: rest => if isWhitespace c then skipWs n rest else s
    | [] => []

def ws (s : Str) : Str := skipWs s.length s

def hexVal (c : Char) : Option Nat :=
  if '0'.toNat ≤ c.toNat && c.toNat ≤ '9'.toNat then some (c.toNat - '0'.toNat)
  else if 'a'.toNat ≤ c.toNat && c.toNat ≤ 'f'.toNat then some (c.toNat - 'a'.toNat + 10)
  else if 'A'.toNat ≤ c.toNat && c.toNat ≤ 'F'.toNat then some (c.toNat - 'A'.toNat + 10)
  else none

inductive LitMode where
  | normal
  | hex (n : Nat)          -- inside `\u{..}`, value so far

/-- `\n`, `\r`, `\t`, `\0`; any other escaped character stands for itself -/
def unescChar (c : Char) : Char :=
  if c = 'n' then '\n' else if c = 'r' then '\r' else if c = 't' then '\t' else if c = '0' then Char.ofNat 0 else c

/-- the body of a double-quoted literal with JavaScript's `\` escapes (`\"`, `\\`, `\n`, `\r`, `\t`, `\0`,
`\u{..}`): (decoded content, rest after the closing quote) -/
def litBody : LitMode → Str → Str → Option (Str × Str)
  | .normal, acc, '"' :: r => some (acc.reverse, r)
  | .normal, acc, '\\' :: 'u' :: '{' :: r => litBody (.hex 0) acc r
  | .normal, acc, '\\' :: 'x' :: a :: b :: r =>
    match hexVal a, hexVal b with
    | some x, some y => litBody .normal (Char.ofNat (x * 16 + y) :: acc) r
    | _, _ => none
  | .normal, acc, '\\' :: c :: r => litBody .normal (unescChar c :: acc) r
  | .normal, acc, c :: r => litBody .normal (c :: acc) r
  | .hex n, acc, '}' :: r => litBody .normal (Char.ofNat n :: acc) r
  | .hex n, acc, c :: r => match hexVal c with
    | some d => litBody (.hex (n * 16 + d)) acc r
    | none => none
  | _, _, [] => none

def strLit : Str → Option (Str × Str)
  | '"' :: rest => litBody .normal [] rest
  | _ => none

def ident (s : Str) : Option (Str × Str) :=
  let w := s.takeWhile fun c => !isDelim c
  if w = [] then none else some (w, s.drop w.length)

/-- an unquoted property name made of digits is a numeric literal: it names the property
`String(Number(literal))` (`007` is not the key "007"; a literal with a leading zero is rejected, as in a module) -/
def propKey (k : Str) : Option Str :=
  if k.all Char.isDigit then
    match k with
    | '0' :: _ :: _ => none
    | _ =>
      let n := k.foldl (fun a c => a * 10 + (c.toNat - '0'.toNat)) 0
      if n < 9007199254740992 then some (Nat.repr n).toList else none   -- beyond 2^53 the name is rounded: not in the fragment
  else some k

def expect (c : Char) (s : Str) : Option Str :=
  match ws s with
  | d :: rest => if d = c then some rest else none
  | [] => none

def primOf (n : Str) : Option Ts :=
  match String.ofList n with
  | "number" => some .number | "bigint" => some .bigint | "string" => some .string
  | "boolean" => some .boolean | "null" => some .null | "never" => some .never
  | _ => none

mutual
def pType : Nat → Str → Option (Ts × Str)
  | 0, _ => none
  | f + 1, s =>
    match pInter f s with
    | none => none
    | some (t, r) => pUnionTail f [t] r
def pUnionTail : Nat → List Ts → Str → Option (Ts × Str)
  | 0, _, _ => none
  | f + 1, acc, s =>
    match ws s with
    | '|' :: r =>
      match pInter f r with
      | none => none
      | some (t, r') => pUnionTail f (acc ++ [t]) r'
    | r => some (match acc with | [t] => t | ts => .union ts, r)
def pInter : Nat → Str → Option (Ts × Str)
  | 0, _ => none
  | f + 1, s =>
    match pPostfix f s with
    | none => none
    | some (t, r) => pInterTail f [t] r
def pInterTail : Nat → List Ts → Str → Option (Ts × Str)
  | 0, _, _ => none
  | f + 1, acc, s =>
    match ws s with
    | '&' :: r =>
      match pPostfix f r with
      | none => none
      | some (t, r') => pInterTail f (acc ++ [t]) r'
    | r => some (match acc with | [t] => t | ts => .inter ts, r)
def pPostfix : Nat → Str → Option (Ts × Str)
  | 0, _ => none
  | f + 1, s =>
    match pPrimary f s with
    | none => none
    | some (t, r) =>
      match ws r with
      | '[' :: r1 => match ws r1 with
        | ']' :: r2 => some (if (match t with | .never => true | _ => false) then .neverArray else .array t, r2)
        | _ => some (t, r)
      | _ => some (t, r)
def pPrimary : Nat → Str → Option (Ts × Str)
  | 0, _ => none
  | f + 1, s =>
    match ws s with
    | '(' :: r =>
      match pType f r with
      | none => none
      | some (t, r') => (expect ')' r').map fun r'' => (.paren t, r'')
    | '[' :: r => (pList f ']' [] r).map fun (ts, r') => (.tuple ts, r')
    | '{' :: r => pObj f r
    | '"' :: r => (strLit ('"' :: r)).map fun (c, r') => (.lit c, r')
    | r =>
      match ident r with
      | none => none
      | some (n, r') =>
        match ws r' with
        | '<' :: r2 =>
          match pList f '>' [] r2 with
          | none => none
          | some (args, r3) =>
            if n = "Array".toList then (match args with | [t] => some (.array t, r3) | _ => none)
            else if n = "Record".toList then some (.emptyRecord, r3)
            else some (.ref n args, r3)
        | _ => some ((primOf n).getD (.ref n []), r')
/-- comma-separated types up to the closing character -/
def pList : Nat → Char → List Ts → Str → Option (List Ts × Str)
  | 0, _, _, _ => none
  | f + 1, close, acc, s =>
    match ws s with
    | c :: r =>
      if c = close then some (acc, r)
      else if c = ',' then pList f close acc r
      else match pType f (c :: r) with
        | none => none
        | some (t, r') => pList f close (acc ++ [t]) r'
    | [] => none
def pObj : Nat → Str → Option (Ts × Str)
  | 0, _ => none
  | f + 1, s =>
    match ws s with
    | '[' :: r =>
      -- `{ [key in K]?: V }`
      match ident (ws r) with
      | some (_, r1) => match ident (ws r1) with
        | some (_, r2) => match pType f r2 with
          | some (k, r3) => match expect ']' r3 with
            | some r4 => match expect '?' r4 with
              | some r5 => match expect ':' r5 with
                | some r6 => match pType f r6 with
                  | some (v, r7) => (expect '}' r7).map fun r8 => (.mapped k v, r8)
                  | none => none
                | none => none
              | none => none
            | none => none
          | none => none
        | none => none
      | none => none
    | r => (pFields f [] r).map fun (fs, r') => (.obj fs, r')
def pFields : Nat → List (TsKey × Ts) → Str → Option (List (TsKey × Ts) × Str)
  | 0, _, _ => none
  | f + 1, acc, s =>
    match ws s with
    | '}' :: r => some (acc, r)
    | ',' :: r => pFields f acc r
    | r =>
      let key : Option (Str × Str) := match r with
        | '"' :: _ => strLit r
        | _ => match ident r with
          | some (k, r') => (propKey k).map fun k' => (k', r')
          | none => none
      match key with
      | none => none
      | some (k, r1) =>
        let (opt, r2) := match ws r1 with
          | '?' :: r' => (true, r')
          | r' => (false, r')
        match expect ':' r2 with
        | none => none
        | some r3 => match pType f r3 with
          | none => none
          | some (t, r4) => pFields f (acc ++ [({ name := k, optional := opt }, t)]) r4
end

def parseType (s : Str) : Option Ts :=
  match pType (8 * s.length + 16) s with      -- every nesting level costs a handful of calls: `[[[]]]` is 6 characters and 3 levels deep
  | some (t, r) => if ws r = [] then some t else none
  | none => none

/-- `type Name<A, B = D> = body;` → (name, params, defaults, body) -/
def parseDecl (s : Str) : Option (Str × List Str × Ts) :=
  match stripPrefix "type ".toList (ws s) with
  | none => none
  | some r =>
    match ident r with
    | none => none
    | some (n, r1) =>
      let (ps, r2) : List Str × Str := match ws r1 with
        | '<' :: rr =>
          -- parameters: identifiers, optional `= Default` skipped up to the matching `>` at depth 0
          let rec go : Nat → Nat → Str → List Str → Str → List Str × Str
            | 0, _, _, acc, rest => (acc, rest)
            | fuel + 1, depth, cur, acc, c :: rest =>
              if c = '<' then go fuel (depth + 1) (cur ++ [c]) acc rest
              else if c = '>' then
                if depth = 0 then (acc ++ [cur], rest) else go fuel (depth - 1) (cur ++ [c]) acc rest
              else if c = ',' && depth = 0 then go fuel depth [] (acc ++ [cur]) rest
              else go fuel depth (cur ++ [c]) acc rest
            | _, _, cur, acc, [] => (acc ++ [cur], [])
          let (raw, rest) := go rr.length 0 [] [] rr
          (raw.map fun p => trim ((splitChar '=' p).headD []), rest)
        | rr => ([], rr)
      match expect '=' r2 with
      | none => none
      | some r3 =>
        let body := trim r3
        let body := match stripSuffix [';'] body with
          | some b => b
          | none => body
        (parseType body).map fun t => (n, ps, t)

mutual
/-- turn references to bound parameter names into `param` -/
def bindParams (ps : List Str) : Ts → Ts
  | .ref n [] => if n ∈ ps then .param n else .ref n []
  | .ref n args => .ref n (bindParamsL ps args)
  | .array t => .array (bindParams ps t)
  | .tuple ts => .tuple (bindParamsL ps ts)
  | .obj fs => .obj (bindParamsF ps fs)
  | .mapped k v => .mapped (bindParams ps k) (bindParams ps v)
  | .union ts => .union (bindParamsL ps ts)
  | .inter ts => .inter (bindParamsL ps ts)
  | .paren t => .paren (bindParams ps t)
  | t => t
def bindParamsL (ps : List Str) : List Ts → List Ts
  | [] => []
  | t :: ts => bindParams ps t :: bindParamsL ps ts
def bindParamsF (ps : List Str) : List (TsKey × Ts) → List (TsKey × Ts)
  | [] => []
  | (k, t) :: fs => (k, bindParams ps t) :: bindParamsF ps fs
end

end TsParse
end TsRs
