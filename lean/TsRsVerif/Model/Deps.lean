/-
  Model/Deps.lean — `visit_dependencies` / `visit_generics` / `dependencies()`, `decl()`,
  `output_path()`, `generate_imports` and `export_to_string` for derived and built-in types.
-/
import TsRsVerif.Model.Derive
import TsRsVerif.Model.Path
import TsRsVerif.Model.Merge
namespace TsRs
open Text

mutual
def RTy.beq : RTy → RTy → Bool
  | .prim a, .prim b => a == b
  | .option a, .option b | .vec a, .vec b | .slice a, .slice b | .set a, .set b | .range a, .range b => RTy.beq a b
  | .arr a n, .arr b m => n == m && RTy.beq a b
  | .tuple a, .tuple b => RTy.beqL a b
  | .map a b, .map c d | .result a b, .result c d => RTy.beq a c && RTy.beq b d
  | .wrap k a, .wrap k' b => k == k' && RTy.beq a b
  | .named i a, .named j b => i == j && RTy.beqL a b
  | .param a, .param b => a == b
  | _, _ => false
def RTy.beqL : List RTy → List RTy → Bool
  | [], [] => true
  | a :: as, b :: bs => RTy.beq a b && RTy.beqL as bs
  | _, _ => false
end

namespace Derive

inductive DepKind where
  | type | generics | transitive
  deriving DecidableEq, Repr, Inhabited

/-- `Dependencies::push` = Type + Generics; `append_from` = Transitive -/
def pushDep (ty : RTy) : List (DepKind × RTy) := [(.type, ty), (.generics, ty)]
def appendFrom (ty : RTy) : List (DepKind × RTy) := [(.transitive, ty)]

/-- the type expression a field contributes (after `as`, and wrapped in `OptionInnerType` when the
    field is optional-but-not-nullable); the wrapping is resolved at run time by `resolveInner` -/
structure DepTy where
  ty : RTy
  inner : Bool      -- `<ty as TS>::OptionInnerType`
  deriving Repr, Inhabited

def fieldDepTy (optionalFields : Opt) (fld : Field) : DepTy :=
  let ty := effTy fld
  let nullable := match optionalFields, fld.attr.optional with
    | _, .optional => false
    | _, .nullable => true
    | .optional, .no => false
    | .nullable, .no => true
    | .no, .no => true
  { ty := ty, inner := !nullable }

inductive Dep where
  | type (t : DepTy) | generics (t : DepTy) | transitive (t : DepTy)
  deriving Repr, Inhabited

def push (t : DepTy) : List Dep := [.type t, .generics t]

/-- dependencies recorded by `type_def` for a field list (named / newtype / tuple) -/
def typeDefDeps (attr : SAttr) (shape : Shape) (fields : List Field) : List Dep :=
  match attr.typeOverride, attr.typeAs with
  | some _, _ => []
  | none, some a => [.transitive { ty := a, inner := false }]
  | none, none =>
    match shape with
    | .unit => []
    | .named =>
      if fields.length = 0 && attr.tag.isNone then []
      else fields.flatMap fun fld =>
        if fld.attr.skip || fld.attr.typeOverride.isSome then []
        else
          let t := fieldDepTy attr.optionalFields fld
          if fld.attr.flatten || fld.attr.inline then [.transitive t] else push t
    | .tuple =>
      match fields with
      | [] => []
      | [fld] =>
        if fld.attr.skip || fld.attr.typeOverride.isSome then []
        else
          let t : DepTy := { ty := effTy fld, inner := false }
          if fld.attr.inline then [.transitive t] else push t
      | _ => fields.flatMap fun fld =>
        if fld.attr.skip || fld.attr.typeOverride.isSome then []
        else
          let t : DepTy := { ty := effTy fld, inner := false }
          if fld.attr.inline then [.transitive t] else push t

/-- the `Dependencies` the derive records for an item, in source order (the real set is a
    `HashSet`: duplicates collapse and the iteration order is arbitrary) -/
def itemDeps (it : Item) : List Dep :=
  let body : List Dep :=
    if it.isEnum then
      match it.attr.typeOverride, it.attr.typeAs with
      | some _, _ => []
      | none, some a => [.transitive { ty := a, inner := false }]
      | none, none =>
        it.variants.flatMap fun v =>
          if v.attr.skip then []
          else match v.attr.typeAs, v.attr.typeOverride with
            | some a, _ => push { ty := a, inner := false }
            | none, some _ => []
            | none, none =>
              let sattr : SAttr :=
                { tag := match v.shape, tagged it.attr with
                    | .named, .internally t => if v.attr.untagged then none else some t
                    | _, _ => none }
              typeDefDeps sattr v.shape v.fields
    else
      typeDefDeps { tag := it.attr.tag, typeAs := it.attr.typeAs, typeOverride := it.attr.typeOverride,
                    optionalFields := it.attr.optionalFields } it.shape it.fields
  -- `format_generics` pushes the defaults of non-concrete type parameters (lib.rs generate_decl_fn)
  let defaults : List Dep := it.generics.flatMap fun g =>
    if (it.attr.concrete.find? (·.1 = g.name)).isSome then []
    else match g.default with
      | some d => push { ty := d, inner := false }
      | none => []
  body ++ defaults

def Dep.beq : Dep → Dep → Bool
  | .type a, .type b | .generics a, .generics b | .transitive a, .transitive b => a.inner == b.inner && RTy.beq a.ty b.ty
  | _, _ => false

/-- the `HashSet<Dependency>`: syntactically equal entries collapse (first occurrence kept here;
    the real iteration order is arbitrary) -/
def dedupDeps : List Dep → List Dep
  | [] => []
  | d :: ds => d :: (dedupDeps ds).filter fun e => !Dep.beq d e

def resolveInner (σ : List (Str × RTy)) (d : DepTy) : RTy :=
  let t := RTy.subst σ d.ty
  if d.inner then optionInner t else t

def outputPath (it : Item) : Str :=
  match it.attr.exportTo with
  | some p => if p.getLast? = some '/' then p ++ tsName it ++ ".ts".toList else p
  | none => tsName it ++ ".ts".toList

/-- a visited exportable type -/
structure Visited where
  ty : RTy
  ident : Str
  path : Str
  deriving Repr, Inhabited

mutual
/-- `<T as TS>::visit_generics(v)` -/
def visitGenerics (env : Env) : Nat → RTy → List Visited
  | 0, _ => []
  | f + 1, t =>
    match t with
    | .option x | .vec x | .slice x | .set x | .arr x _ | .range x | .wrap _ x =>
      visitGenerics env f x ++ visitOne env f x
    | .map k v | .result k v =>
      visitGenerics env f k ++ visitOne env f k ++ visitGenerics env f v ++ visitOne env f v
    | .tuple ts => ts.flatMap fun x => visitOne env f x ++ visitGenerics env f x
    | .named id args =>
      match env.find id with
      | none => []
      | some it => (liveArgs it args).flatMap fun (_, a) => visitOne env f a ++ visitGenerics env f a
    | _ => []
/-- `v.visit::<T>()` for the `dependencies()` visitor: records `T` iff it is exportable -/
def visitOne (env : Env) : Nat → RTy → List Visited
  | 0, _ => []
  | _ + 1, t =>
    match t with
    | .named id _ =>
      match env.find id with
      | none => []
      | some it => [{ ty := t, ident := tsName it, path := outputPath it }]
    | _ => []
/-- `<T as TS>::visit_dependencies(v)` -/
def visitDeps (env : Env) : Nat → RTy → List Visited
  | 0, _ => []
  | f + 1, t =>
    match t with
    | .option x | .vec x | .slice x | .set x | .arr x _ | .range x | .wrap _ x => visitDeps env f x
    | .map k v | .result k v => visitDeps env f k ++ visitDeps env f v
    | .named id args =>
      match env.find id with
      | none => []
      | some it =>
        let σ := bindArgs it args
        (dedupDeps (itemDeps it)).flatMap fun d => match d with
          | .type t => visitOne env f (resolveInner σ t)
          | .generics t => visitGenerics env f (resolveInner σ t)
          | .transitive t => visitDeps env f (resolveInner σ t)
    | _ => []
end

/-- the placeholder substitution `decl()` evaluates the body at: non-concretised parameters are
    bound to themselves (the dummy structs shadowing them), concretised ones to their concrete type -/
def declSubst (it : Item) : List (Str × RTy) := it.generics.map fun g =>
  match (it.attr.concrete.find? (·.1 = g.name)).map (·.2) with
  | some c => (g.name, c)
  | none => (g.name, .param g.name)

def bindersOf (env : Env) : List GenericParam → Res (List Str)
  | [] => .ok []
  | g :: gs =>
    match (match g.default with
      | some dflt => (nameS env dflt).map fun n => g.name ++ " = ".toList ++ n
      | none => (.ok g.name : Res Str)), bindersOf env gs with
    | .ok x, .ok xs => .ok (x :: xs)
    | .panic w, _ => .panic w
    | _, .panic w => .panic w

/-- `format_generics` (utils.rs): the binders of the declaration — the non-concretised type
    parameters in order, each with its default -/
def declBinders (env : Env) (it : Item) : Res (List Str) :=
  bindersOf env (it.generics.filter fun g => (it.attr.concrete.find? (·.1 = g.name)).isNone)

/-- `decl()` (lib.rs generate_decl_fn) -/
def declS (cfg : Cfg) (env : Env) (fuel : Nat) (it : Item) : Res Str := do
  let d ← itemDef cfg env fuel it (declSubst it)
  let ps ← declBinders env it
  let generics := if ps = [] then [] else "<".toList ++ intercalate ", ".toList ps ++ ">".toList
  pure ("type ".toList ++ tsName it ++ generics ++ " = ".toList ++ d.1 ++ ";".toList)

/-- `decl_concrete()` -/
def declConcreteS (cfg : Cfg) (env : Env) (fuel : Nat) (it : Item) (args : List RTy) : Res Str := do
  let d ← itemDef cfg env fuel it (bindArgs it args)
  pure ("type ".toList ++ tsName it ++ " = ".toList ++ d.1 ++ ";".toList)

/-- `T::WithoutGenerics` as an instantiation: every non-concrete type parameter ↦ `Dummy` -/
def withoutGenerics (it : Item) : RTy :=
  .named it.name (it.generics.map fun g =>
    match (it.attr.concrete.find? (·.1 = g.name)).map (·.2) with
    | some c => c
    | none => .param "Dummy".toList)

/-- one iteration of the loop of `generate_imports` (export.rs:344-361) -/
def importStep (esm : Bool) (cwd outDir path : Str) (acc : Option (Except ExportErr Merge.Imports)) (d : Visited) :
    Option (Except ExportErr Merge.Imports) :=
  match acc with
  | none => none
  | some (.error e) => some (.error e)
  | some (.ok m) =>
    match Path.importPath esm cwd path (Path.join outDir d.path) with
    | none => none
    | some (.error e) => some (.error e)
    | some (.ok rel) =>
      if Path.isSameFile path rel then some (.ok m)
      else some (.ok (Merge.insertImport rel d.ident m))

/-- `.collect::<BTreeMap<&String, &Dependency>>()`: the candidates (everything but the type's own
    instantiation) sorted by name, the LAST entry of a name winning -/
def dedupByName (it : Item) (deps : List Visited) : List Visited :=
  let cand := deps.filter fun d => !RTy.beq d.ty (withoutGenerics it)
  let names := cand.foldl (fun acc d => insertSorted d.ident acc) []
  names.filterMap fun n => cand.reverse.find? (·.ident = n)

/-- `generate_imports::<T::WithoutGenerics>` (export.rs:326-381) with the dependency list visited
    in the order `deps`; `none` = `from.parent().unwrap()` panics -/
def generateImports (esm : Bool) (cwd outDir : Str) (it : Item) (deps : List Visited) : Option (Except ExportErr Str) :=
  let path := Path.join outDir (outputPath it)
  match (dedupByName it deps).foldl (importStep esm cwd outDir path) (some (.ok [])) with
  | none => none
  | some (.error e) => some (.error e)
  | some (.ok m) => some (.ok (Merge.renderImports m ++ ['\n']))

/-- `export_to_string::<T>()` -/
def exportToString (cfg : Cfg) (env : Env) (fuel : Nat) (esm : Bool) (cwd outDir : Str) (it : Item) (deps : List Visited) :
    Option (Except ExportErr (Res Str)) :=
  match generateImports esm cwd outDir it deps with
  | none => none
  | some (.error e) => some (.error e)
  | some (.ok imports) =>
    some (.ok (do
      let d ← declS cfg env fuel it
      pure (Merge.NOTE ++ imports ++ parseDocs it.attr.docs ++ "export ".toList ++ d ++ ['\n'])))

end Derive
end TsRs
