/-
  Model/Case.lean — `Inflection::apply` (macros/src/attr/mod.rs:85-131), the identifier helpers of
  macros/src/utils.rs, and — as ORACLE model — serde_derive 1.0.215 `internals/case.rs`
  (`apply_to_field` / `apply_to_variant`).
-/
import TsRsVerif.Model.Text
namespace TsRs
open Text

/-- Unicode facts Rust's `char`/`str` methods rely on; parameters of the model. -/
structure CharOps where
  isUpper : Char → Bool      -- char::is_uppercase
  isAlnum : Char → Bool      -- char::is_alphanumeric
  isNumeric : Char → Bool    -- char::is_numeric
  strLower : Str → Str       -- str::to_lowercase
  strUpper : Str → Str       -- str::to_uppercase
  escDebug : Char → Str := fun c => [c]   -- how `{:?}` of a `str` writes the character (`char::escape_debug_ext`)

inductive Rule where
  | lower | upper | camel | snake | pascal | screamingSnake | kebab | screamingKebab
  deriving DecidableEq, Repr, Inhabited

namespace Case

def isAsciiUpper (c : Char) : Bool := 'A'.toNat ≤ c.toNat && c.toNat ≤ 'Z'.toNat
def isAsciiLower (c : Char) : Bool := 'a'.toNat ≤ c.toNat && c.toNat ≤ 'z'.toNat

def mapUpper (s : Str) : Str := s.map asciiUpper
def mapLower (s : Str) : Str := s.map asciiLower

/-- `s[..1].to_ascii_lowercase() + &s[1..]` — byte slicing: panics on the empty string and when the
    first character is longer than one byte. -/
def lowerFirstByte (s : Str) : Res Str :=
  match s with
  | [] => .panic "byte index 1 is out of bounds"
  | c :: cs => if utf8Len c = 1 then .ok (asciiLower c :: cs) else .panic "byte index 1 is not a char boundary"

/-- the `Pascal` arm (mod.rs:107-122); serde's `PascalCase` field arm is the same loop -/
def pascalLoop : Bool → Str → Str
  | _, [] => []
  | cap, c :: cs =>
    if c = '_' then pascalLoop true cs
    else if cap then asciiUpper c :: pascalLoop false cs
    else c :: pascalLoop false cs

def pascal (s : Str) : Str := pascalLoop true s

/-- the `Snake` arm (mod.rs:94-105); `first` = `i == 0`. serde's variant `SnakeCase` is the same loop -/
def snakeLoop (isUpper : Char → Bool) : Bool → Str → Str
  | _, [] => []
  | first, c :: cs =>
    (if isUpper c && !first then ['_'] else []) ++ asciiLower c :: snakeLoop isUpper false cs

def snake (ops : CharOps) (s : Str) : Str := snakeLoop ops.isUpper true s

def replaceChar (a b : Char) (s : Str) : Str := s.map fun c => if c = a then b else c

/-- `lowercase_first_char` (mod.rs): ASCII-lowercase the first character; total. -/
def lowerFirstChar : Str → Str
  | [] => []
  | c :: cs => asciiLower c :: cs

/-- `Inflection::apply_to_field` (macros/src/attr/mod.rs) -/
def applyToField (_ops : CharOps) : Rule → Str → Str
  | .lower, s => s
  | .snake, s => s
  | .upper, s => mapUpper s
  | .screamingSnake, s => mapUpper s
  | .pascal, s => pascal s
  | .camel, s => lowerFirstChar (pascal s)
  | .kebab, s => replaceChar '_' '-' s
  | .screamingKebab, s => replaceChar '_' '-' (mapUpper s)

/-- `Inflection::apply_to_variant` (macros/src/attr/mod.rs) -/
def applyToVariant (ops : CharOps) : Rule → Str → Str
  | .pascal, s => s
  | .lower, s => mapLower s
  | .upper, s => mapUpper s
  | .camel, s => lowerFirstChar s
  | .snake, s => snake ops s
  | .screamingSnake, s => mapUpper (snake ops s)
  | .kebab, s => replaceChar '_' '-' (snake ops s)
  | .screamingKebab, s => replaceChar '_' '-' (mapUpper (snake ops s))

/-- the single routine `Inflection::apply` of the pinned snapshot d52b84a (before the `fix:`
    commit); kept to state the counter-examples that motivated the repair. -/
def applyOld (ops : CharOps) : Rule → Str → Res Str
  | .lower, s => .ok (ops.strLower s)
  | .upper, s => .ok (ops.strUpper s)
  | .camel, s => lowerFirstByte (pascal s)
  | .snake, s => .ok (snake ops s)
  | .pascal, s => .ok (pascal s)
  | .screamingSnake, s => .ok (mapUpper (snake ops s))
  | .kebab, s => .ok (replaceChar '_' '-' (snake ops s))
  | .screamingKebab, s => .ok (mapUpper (replaceChar '_' '-' (snake ops s)))

/-! ### oracle: serde_derive `case.rs` -/

def serdeField (_ops : CharOps) : Rule → Str → Res Str
  | .lower, s => .ok s
  | .snake, s => .ok s
  | .upper, s => .ok (mapUpper s)
  | .pascal, s => .ok (pascal s)
  | .camel, s => lowerFirstByte (pascal s)
  | .screamingSnake, s => .ok (mapUpper s)
  | .kebab, s => .ok (replaceChar '_' '-' s)
  | .screamingKebab, s => .ok (replaceChar '_' '-' (mapUpper s))

def serdeVariant (ops : CharOps) : Rule → Str → Res Str
  | .pascal, s => .ok s
  | .lower, s => .ok (mapLower s)
  | .upper, s => .ok (mapUpper s)
  | .camel, s => lowerFirstByte s
  | .snake, s => .ok (snake ops s)
  | .screamingSnake, s => .ok (mapUpper (snake ops s))
  | .kebab, s => .ok (replaceChar '_' '-' (snake ops s))
  | .screamingKebab, s => .ok (replaceChar '_' '-' (mapUpper (snake ops s)))

/-! ### identifier helpers (utils.rs) -/

/-- `to_ts_ident` (utils.rs:110-117): note `trim_start_matches("r#")` strips repeatedly, but an
    identifier can carry the prefix only once. -/
def toTsIdent (ident : Str) : Str :=
  if startsWith ['r', '#'] ident then trimStartMatches ['r', '#'] ident else ident

/-- `raw_name_to_ts_field` (utils.rs:123-140) -/
def validName (ops : CharOps) (value : Str) : Bool :=
  let validChars := !value.isEmpty && value.all fun c => ops.isAlnum c || c = '_' || c = '$'
  let noDigitFirst := match value with
    | [] => true
    | c :: _ => !ops.isNumeric c
  validChars && noDigitFirst

def hexDigit (n : Nat) : Char := if n < 10 then Char.ofNat ('0'.toNat + n) else Char.ofNat ('a'.toNat + (n - 10))

def hexOf : Nat → Nat → Str
  | 0, _ => []
  | f + 1, n => if n < 16 then [hexDigit n] else hexOf f (n / 16) ++ [hexDigit (n % 16)]

/-- `{:?}` of a `str`, per character, on ASCII: quotes, backslashes and control characters are escaped -/
def asciiEscDebug (c : Char) : Str :=
  if c = '"' then ['\\', '"'] else if c = '\\' then ['\\', '\\']
  else if c = '\n' then ['\\', 'n'] else if c = '\r' then ['\\', 'r'] else if c = '\t' then ['\\', 't']
  else if c.toNat = 0 then ['\\', '0']
  else if c.toNat < 32 || c.toNat = 127 then ['\\', 'u', '{'] ++ hexOf 8 c.toNat ++ ['}']
  else [c]

/-- `string_literal` (ts-rs/src/lib.rs, macros/src/utils.rs): `{:?}` spells NUL `\0`, which JavaScript would read
as an octal escape when a digit follows; it is written `\x00` -/
def jsEsc (e : Str) : Str :=
  match e with
  | ['\\', '0'] => ['\\', 'x', '0', '0']
  | e => e

/-- `string_literal(s)`: a TypeScript string literal -/
def quoteStr (ops : CharOps) (s : Str) : Str := '"' :: (s.map fun c => jsEsc (ops.escDebug c)).flatten ++ ['"']

/-- `raw_name_to_ts_field` (utils.rs): an identifier-like name as it is, anything else (and the empty name) as a string literal -/
def rawNameToTsField (ops : CharOps) (value : Str) : Str :=
  if validName ops value then value else quoteStr ops value

/-- ASCII instance of `CharOps` (what Rust's tables give on ASCII input) -/
def asciiOps : CharOps where
  isUpper := isAsciiUpper
  isAlnum := fun c => isAsciiUpper c || isAsciiLower c || ('0'.toNat ≤ c.toNat && c.toNat ≤ '9'.toNat)
  isNumeric := fun c => '0'.toNat ≤ c.toNat && c.toNat ≤ '9'.toNat
  strLower := mapLower
  strUpper := mapUpper
  escDebug := asciiEscDebug

def ruleOfName : String → Option Rule
  | "Lower" => some .lower | "Upper" => some .upper | "Camel" => some .camel | "Snake" => some .snake
  | "Pascal" => some .pascal | "ScreamingSnake" => some .screamingSnake | "Kebab" => some .kebab
  | "ScreamingKebab" => some .screamingKebab | _ => none

end Case
end TsRs
