/-
  Model/TsEval.lean — executable (fuelled) membership test `memberb`, used by the driver to judge
  the implementation's real declarations against real serde JSON.
-/
import TsRsVerif.Model.Ts
namespace TsRs
open Text
namespace Ts

/-- all ways to split a list into two complementary sublists -/
def splits {α : Type} : List α → List (List α × List α)
  | [] => [([], [])]
  | x :: xs => (splits xs).flatMap fun (a, b) => [(x :: a, b), (a, x :: b)]

/-- a declared property against the looked-up JSON entry -/
def fieldCheck (look : Option JVal) (optional : Bool) (chk : JVal → Bool) : Bool :=
  match look with
  | some v => chk v
  | none => optional

mutual
def memberb (D : Decls) : Nat → Ts → JVal → Bool
  | 0, _, _ => false
  | f + 1, t, j =>
    match t, j with
    | .number, .int _ => true
    | .number, .float _ => true
    | .bigint, .int _ => true
    | .string, .str _ => true
    | .boolean, .bool _ => true
    | .null, .null => true
    | .lit s, .str s' => s == s'
    | .ref n args, j =>
      match lookupDecl D n with
      | some (ps, body) => memberb D f (subst (ps.zip args) body) j
      | none => false
    | .array t, .arr js => js.all fun x => memberb D f t x
    | .tuple ts, .arr js => ts.length == js.length && (ts.zip js).all fun (t, x) => memberb D f t x
    | .neverArray, .arr [] => true
    | .emptyRecord, .obj [] => true
    | .obj fs, .obj kvs =>
      (fs.all fun (k, t) => fieldCheck (JVal.lookup k.name kvs) k.optional fun v => memberb D f t v)
      && (kvs.all fun (k, _) => fs.any fun (k', _) => k'.name == k)
    | .mapped k v, .obj kvs =>
      kvs.all fun (key, val) => ((keyJson key).any fun kj => memberb D f k kj) && memberb D f v val
    | .union ts, j => ts.any fun t => memberb D f t j
    | .inter ts, .obj kvs => interObjb D f ts kvs
    | .inter ts, j => ts.all fun t => memberb D f t j
    | .paren t, j => memberb D f t j
    | _, _ => false
def interObjb (D : Decls) : Nat → List Ts → List (Str × JVal) → Bool
  | 0, _, _ => false
  | _ + 1, [], _ => true
  | f + 1, [t], kvs => memberb D f t (.obj kvs)
  | f + 1, t :: ts, kvs =>
    (splits kvs).any fun (a, b) => memberb D f t (.obj a) && interObjb D f ts b
end

end Ts
end TsRs
