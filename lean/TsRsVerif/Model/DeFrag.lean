/-
  Model/DeFrag.lean — the DECIDABLE fragment of the completeness theorem `C02_members_are_accepted` (evaluated by the driver on the
  reachable items of every probe): JSON values with distinct keys (`wfJ`), the types the acceptance model reads (`tyOk`; `tyOkP` with
  the item's own type parameters allowed), the items (`itemDeOk`) and programs (`deFragB`). Definitions only — no theorem, so that the
  driver does not depend on any proof.
-/
import TsRsVerif.Model.De
import TsRsVerif.Model.TreeDerive
namespace TsRs
open Ts Tree Builtin De

/-! ### JSON values with distinct keys -/
mutual
def wfJ : JVal → Bool
  | .arr js => wfJL js
  | .obj kvs => (decide ((kvs.map (·.1)).Nodup)) && wfJF kvs
  | _ => true
def wfJL : List JVal → Bool
  | [] => true
  | j :: js => wfJ j && wfJL js
def wfJF : List (Str × JVal) → Bool
  | [] => true
  | (_, j) :: kvs => wfJ j && wfJF kvs
end

/-! ### the types the acceptance model covers -/
mutual
/-- no type parameters, no `PhantomData` / `Weak`, map keys are integer / string / char primitives, user types without arguments -/
def tyOk (limit : Nat) : RTy → Bool
  | .prim r => (primClass r).isSome
  | .option t | .vec t | .slice t | .set t | .range t => tyOk limit t
  | .arr t n => decide (n ≤ limit) && tyOk limit t       -- beyond the limit ts-rs writes `Array<T>` (and serde has no impl beyond 32)
  | .tuple ts => tyOkL limit ts
  | .map k v => (match k with
      | .prim r => (match primClass r with
        | some (.int _ _ _) | some .string | some .char => true
        | _ => false)
      | _ => false) && tyOk limit v
  | .result t e => tyOk limit t && tyOk limit e
  | .wrap w t => w != .phantom && w != .weak && tyOk limit t
  | .named _ args => tyOkL limit args
  | .param _ => false
def tyOkL (limit : Nat) : List RTy → Bool
  | [] => true
  | t :: ts => tyOk limit t && tyOkL limit ts
end

mutual
/-- the same for the field types of a generic item: type parameters are allowed (they are replaced by `tyOk` arguments) -/
def tyOkP (limit : Nat) (ps : List Str) : RTy → Bool
  | .prim r => (primClass r).isSome
  | .option t | .vec t | .slice t | .set t | .range t => tyOkP limit ps t
  | .arr t n => decide (n ≤ limit) && tyOkP limit ps t
  | .tuple ts => tyOkPL limit ps ts
  | .map k v => (match k with
      | .prim r => (match primClass r with
        | some (.int _ _ _) | some .string | some .char => true
        | _ => false)
      | _ => false) && tyOkP limit ps v
  | .result t e => tyOkP limit ps t && tyOkP limit ps e
  | .wrap w t => w != .phantom && w != .weak && tyOkP limit ps t
  | .named _ args => tyOkPL limit ps args
  | .param n => ps.contains n
def tyOkPL (limit : Nat) (ps : List Str) : List RTy → Bool
  | [] => true
  | t :: ts => tyOkP limit ps t && tyOkPL limit ps ts
end


/-- field types that only mention the item's parameters, read with closed arguments -/
def fieldTyOkP (cfg : Cfg) (ps : List Str) (f : Field) : Bool := f.attr.skip || tyOkP cfg.limit ps f.ty
def fieldTyOk (cfg : Cfg) (f : Field) : Bool := f.attr.skip || tyOk cfg.limit f.ty


/-- the items the completeness theorem covers: field types readable by the model and mentioning only the item's own type
parameters, distinct variant keys (`untagged` enums and variants included) -/
def itemDeOk (cfg : Cfg) (it : Item) : Bool :=
  it.fields.all (fieldTyOkP cfg (it.generics.map (·.name)))
  && it.variants.all (fun v => v.fields.all (fieldTyOkP cfg (it.generics.map (·.name))))
  && decide (((it.variants.filter fun v => !v.attr.skip).map (Serde.variantKey cfg it.attr.renameAll)).Nodup)

def deFragB (cfg : Cfg) (env : Env) : Bool := Tree.fragB cfg env && env.all (itemDeOk cfg)


end TsRs
