/-
  Model/Attr.lean — attribute lists as TOKENS and the two arms of `impl_parse!` (macros/src/utils.rs)
  driven by the GENERATED key tables: the `#[ts(..)]` parser (unknown key = error) and the
  `#[serde(..)]` parser (unknown key = `skip_until_next_comma`, a failing list is dropped), then
  `merge` / `from_attrs`.  Values are restricted to what the generator produces: string literals,
  identifiers, integer literals, parenthesised groups (arbitrary `syn::Expr`/`Type` parsing is not
  modelled).  A parsed attribute struct is an association list  target field ↦ canonical value.
-/
import TsRsVerif.Model.Text
import TsRsVerif.Generated.Tables
namespace TsRs
open Text

inductive Tok where
  | ident (s : String)
  | punct (c : Char)
  | strLit (s : String)
  | otherLit (s : String)            -- integer / bool literal etc.
  | group (toks : List Tok)          -- `( … )`
  deriving Repr, Inhabited

abbrev Parsed := List (String × String)     -- target field ↦ canonical value

inductive Pos where
  | struct | enum | variant | field
  deriving DecidableEq, Repr, Inhabited

namespace Attr

def isComma : Tok → Bool
  | .punct ',' => true
  | _ => false

def isEq : Tok → Bool
  | .punct '=' => true
  | _ => false

/-- `skip_until_next_comma` (attr/mod.rs): drop tokens up to (not including) the next top-level
    comma (a parenthesised group is ONE token tree, so commas inside it do not count) -/
def skipUntilNextComma : List Tok → List Tok
  | [] => []
  | t :: rest => if isComma t then t :: rest else skipUntilNextComma rest

/-- the routine of the pinned snapshot d52b84a (before the `fix:` commit): it tested only the token
    AFTER the current one, so a bare key directly followed by `,` walked past that comma -/
def skipUntilNextCommaOld : List Tok → List Tok
  | [] => []
  | _ :: next =>
    match next with
    | c :: _ => if isComma c then next else skipUntilNextCommaOld next
    | [] => []

def tsKeys : Pos → List (String × String × String × String)
  | .struct => Gen.keys_ts_struct | .enum => Gen.keys_ts_enum | .variant => Gen.keys_ts_variant | .field => Gen.keys_ts_field
def serdeKeys : Pos → List (String × String × String × String)
  | .struct => Gen.keys_serde_struct | .enum => Gen.keys_serde_enum | .variant => Gen.keys_serde_variant | .field => Gen.keys_serde_field

def lookupKey (tbl : List (String × String × String × String)) (k : String) : Option (String × String × String) :=
  (tbl.find? (·.1 = k)).map (·.2)

def tokText : Tok → String
  | .ident s => s
  | .punct c => String.singleton c
  | .strLit s => "\"" ++ s ++ "\""
  | .otherLit s => s
  | .group _ => "(..)"

def inflectionOf (s : String) : Option String := (Gen.inflections.find? (·.1 = s)).map (·.2)

/-- a value parser of the table: consumes tokens, yields the canonical value; `none` = parse error -/
def parseValue (parser : String) (toks : List Tok) : Option (String × List Tok) :=
  match parser, toks with
  | "flag_true", rest => some ("true", rest)
  | "parse_assign_str", eq :: Tok.strLit s :: rest => if isEq eq then some (s, rest) else none
  | "with_str", eq :: Tok.strLit s :: rest => if isEq eq then some ("true", rest) else none
  | "parse_assign_expr", eq :: v :: rest =>
    if isEq eq then (match v with
      | .strLit _ | .ident _ | .otherLit _ => some (tokText v, rest)
      | _ => none) else none
  | "parse_assign_inflection", eq :: Tok.strLit s :: rest =>
    if isEq eq then (inflectionOf s).map fun r => (r, rest) else none
  | "parse_assign_from_str", eq :: Tok.strLit s :: rest => if isEq eq then some (s, rest) else none
  | "parse_bound", eq :: Tok.strLit s :: rest => if isEq eq then some (s, rest) else none
  | "parse_concrete", Tok.group _ :: rest => some ("(..)", rest)
  | "parse_optional", toks =>
    (match toks with
    | eq :: Tok.ident "nullable" :: rest => if isEq eq then some ("nullable", rest) else some ("optional", toks)
    | eq :: rest => if isEq eq then none else some ("optional", toks)
    | [] => some ("optional", []))
  -- the hand-written `default` / `deny_unknown_fields` arms: `if input.peek(=) { <n times '='> then a string }`
  | "opt_eq_str:1", toks =>
    (match toks with
    | eq :: Tok.strLit _ :: rest => if isEq eq then some ("", rest) else some ("", toks)
    | eq :: _ => if isEq eq then none else some ("", toks)
    | [] => some ("", []))
  | "opt_eq_str:2", toks =>
    (match toks with
    | eq :: rest => if isEq eq then
        (match rest with
        | eq2 :: Tok.strLit _ :: rest2 => if isEq eq2 then some ("", rest2) else none
        | _ => none) else some ("", toks)
    | [] => some ("", []))
  | "opt_eq_str:0", toks => some ("", toks)
  | _, _ => none

inductive PRes where
  | ok (p : Parsed)
  | error (msg : String)
  deriving Repr, Inhabited

def setField (p : Parsed) (target value : String) : Parsed :=
  if target = "-" then p else (target, value) :: p.filter (·.1 ≠ target)

/-- the `loop` of `impl_parse!`; `serde` selects the lenient arm. Fuel = number of tokens. -/
def parseLoop (tbl : List (String × String × String × String)) (serde : Bool) : Nat → Parsed → List Tok → PRes
  | 0, _, _ => .error "fuel"
  | f + 1, acc, toks =>
    match toks with
    | Tok.ident k :: rest =>
      -- serde arm: an unknown key, AND a known key whose value cannot be parsed, are skipped up to the
      -- next comma (utils.rs impl_parse!, second arm); the ts arm reports an error in both cases
      let next : Option (Parsed × List Tok) :=
        match lookupKey tbl k with
        | some (target, parser, _) =>
          match parseValue parser rest with
          | some (v, r) => some (setField acc target v, r)
          | none => if serde then some (acc, skipUntilNextComma rest) else none
        | none => if serde then some (acc, skipUntilNextComma rest) else none
      match next with
      | none => .error (if (lookupKey tbl k).isSome then "value" else "Unknown attribute")
      | some (acc', r) =>
        match r with
        | [] => .ok acc'
        | c :: r' =>
          if isComma c then (match r' with
            | [] => .ok acc'                          -- a trailing comma is fine
            | _ => parseLoop tbl serde f acc' r')
          else .error "expected `,`"
    | _ => .error "expected identifier"

def parseList (tbl : List (String × String × String × String)) (serde : Bool) (toks : List Tok) : PRes :=
  parseLoop tbl serde (toks.length + 1) [] toks

inductive MergeKind where
  | firstWins | boolOr | optionalOr | concat | secondWins
  deriving DecidableEq

def mergeKind (target : String) : MergeKind :=
  if target ∈ ["export", "inline", "skip", "flatten", "untagged", "using_serde_with"] then .boolOr
  else if target ∈ ["optional", "optional_fields"] then .optionalOr
  else if target ∈ ["concrete", "bound"] then .concat
  else .firstWins

/-- `Attr::merge(self, other)` -/
def merge (a b : Parsed) : Parsed :=
  let keys := (a.map (·.1) ++ b.map (·.1)).eraseDups
  keys.filterMap fun k =>
    match (a.find? (·.1 = k)).map (·.2), (b.find? (·.1 = k)).map (·.2) with
    | some x, none => some (k, x)
    | none, some y => some (k, y)
    | none, none => none
    | some x, some y =>
      match mergeKind k with
      | .firstWins => some (k, x)
      | .boolOr => some (k, "true")
      | .optionalOr => some (k, if x = "nullable" ∨ y = "nullable" then "nullable" else "optional")
      | .concat => some (k, x ++ ";" ++ y)
      | .secondWins => some (k, y)

/-- `parse_attrs`: every `#[ts(..)]` list must parse; folded with `merge` from the default -/
def parseTsAttrs (pos : Pos) (lists : List (List Tok)) : PRes :=
  lists.foldl (fun acc l => match acc with
    | .error m => .error m
    | .ok p => match parseList (tsKeys pos) false l with
      | .ok q => .ok (merge p q)
      | .error m => .error m) (.ok [])

/-- `parse_serde_attrs`: lists that fail to parse are dropped (`.ok()`) -/
def parseSerdeAttrs (pos : Pos) (lists : List (List Tok)) : Parsed :=
  lists.foldl (fun acc l => match parseList (serdeKeys pos) true l with
    | .ok q => merge acc q
    | .error _ => acc) []

/-- `XAttr::from_attrs` (without docs): ts lists, then — with serde-compat, and unless a ts `skip`
    was seen at variant/field level — the serde lists merged BEHIND them (ts wins) -/
def fromAttrs (serdeCompat : Bool) (pos : Pos) (ts serde : List (List Tok)) : PRes :=
  match parseTsAttrs pos ts with
  | .error m => .error m
  | .ok p =>
    let skipSeen := (pos = .variant ∨ pos = .field) ∧ (p.find? (·.1 = "skip")).isSome
    if serdeCompat ∧ ¬ skipSeen then .ok (merge p (parseSerdeAttrs pos serde)) else .ok p

end Attr
end TsRs
