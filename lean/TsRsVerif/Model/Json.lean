/-
  Model/Json.lean — JSON values as serde_json produces / accepts them.
  Numbers: `int` (JSON integer literal, any size) or `float` (a finite number printed with a
  fraction/exponent; kept abstract as its text). Objects are association lists in document order.
-/
import TsRsVerif.Model.Text
namespace TsRs

inductive Json where
  | null
  | bool (b : Bool)
  | int (i : Int)
  | float (repr : Str)
  | str (s : Str)
  | arr (items : List Json)
  | obj (fields : List (Str × Json))
  deriving Repr, Inhabited

namespace Json

def isObj : Json → Bool
  | .obj _ => true
  | _ => false

def lookup (k : Str) : List (Str × Json) → Option Json
  | [] => none
  | (k', v) :: rest => if k' = k then some v else lookup k rest

def keys (kvs : List (Str × Json)) : List Str := kvs.map (·.1)

mutual
def beq : Json → Json → Bool
  | .null, .null => true
  | .bool a, .bool b => a == b
  | .int a, .int b => a == b
  | .float a, .float b => a == b
  | .str a, .str b => a == b
  | .arr a, .arr b => beqList a b
  | .obj a, .obj b => beqFields a b
  | _, _ => false
def beqList : List Json → List Json → Bool
  | [], [] => true
  | a :: as, b :: bs => beq a b && beqList as bs
  | _, _ => false
def beqFields : List (Str × Json) → List (Str × Json) → Bool
  | [], [] => true
  | (k, a) :: as, (k', b) :: bs => k == k' && beq a b && beqFields as bs
  | _, _ => false
end

end Json
end TsRs
