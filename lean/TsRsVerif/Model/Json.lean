/-
  Model/JVal.lean — JSON values as serde_json produces / accepts them.
  Numbers: `int` (JSON integer literal, any size) or `float` (a finite number printed with a
  fraction/exponent; kept abstract as its text). Objects are association lists in document order.
-/
import TsRsVerif.Model.Text
namespace TsRs

inductive JVal where
  | null
  | bool (b : Bool)
  | int (i : Int)
  | float (repr : Str)
  | str (s : Str)
  | arr (items : List JVal)
  | obj (fields : List (Str × JVal))
  deriving Repr, Inhabited

namespace JVal

def isObj : JVal → Bool
  | .obj _ => true
  | _ => false

def lookup (k : Str) : List (Str × JVal) → Option JVal
  | [] => none
  | (k', v) :: rest => if k' = k then some v else lookup k rest

def keys (kvs : List (Str × JVal)) : List Str := kvs.map (·.1)

mutual
def beq : JVal → JVal → Bool
  | .null, .null => true
  | .bool a, .bool b => a == b
  | .int a, .int b => a == b
  | .float a, .float b => a == b
  | .str a, .str b => a == b
  | .arr a, .arr b => beqList a b
  | .obj a, .obj b => beqFields a b
  | _, _ => false
def beqList : List JVal → List JVal → Bool
  | [], [] => true
  | a :: as, b :: bs => beq a b && beqList as bs
  | _, _ => false
def beqFields : List (Str × JVal) → List (Str × JVal) → Bool
  | [], [] => true
  | (k, a) :: as, (k', b) :: bs => k == k' && beq a b && beqFields as bs
  | _, _ => false
end

end JVal
end TsRs
