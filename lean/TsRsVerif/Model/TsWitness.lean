/-
  Model/TsWitness.lean — type-directed enumeration of JSON witnesses of a TypeScript type (C02):
  each union arm, each subset of optional properties (up to a bound), array lengths 0..2, map sizes
  0..1, leaves at values every Rust leaf type of that TypeScript name can represent.
-/
import TsRsVerif.Model.Ts
namespace TsRs
open Text
namespace Ts

def capList {α : Type} (n : Nat) (l : List α) : List α := l.take n

/-- cartesian product of per-position choices, capped -/
def product (cap : Nat) : List (List JVal) → List (List JVal)
  | [] => [[]]
  | cs :: rest =>
    let tails := product cap rest
    capList cap (cs.flatMap fun c => tails.map fun t => c :: t)

mutual
def witnesses (D : Decls) (cap : Nat) : Nat → Ts → List JVal
  | 0, _ => []
  | f + 1, t =>
    match t with
    | .number => [.int 1]
    | .bigint => [.int 1]
    | .string => [.str ['a']]
    | .boolean => [.bool true, .bool false]
    | .null => [.null]
    | .never => []
    | .lit s => [.str s]
    | .ref n args =>
      match lookupDecl D n with
      | some (ps, body) => witnesses D cap f (subst (ps.zip args) body)
      | none => []
    | .param _ => []
    | .array x =>
      let ws := witnesses D cap f x
      [.arr []] ++ (capList 2 ws).map (fun w => JVal.arr [w]) ++ (match ws with | a :: b :: _ => [.arr [a, b]] | a :: _ => [.arr [a, a]] | [] => [])
    | .tuple xs => (product cap (witnessesL D cap f xs)).map .arr
    | .neverArray => [.arr []]
    | .emptyRecord => [.obj []]
    | .obj fs => capList cap (objWitnesses D cap f fs)
    | .mapped k v =>
      let keys : List Str := (witnesses D cap f k).filterMap fun kj => match kj with
        | .str s => some s
        | .int i => some (toString i).toList
        | _ => none
      [.obj []] ++ (match keys, witnesses D cap f v with
        | key :: _, w :: _ => [.obj [(key, w)]]
        | _, _ => [])
    | .union xs => capList cap (xs.flatMap fun x => capList (max 2 (cap / (xs.length + 1))) (witnesses D cap f x))
    | .inter xs =>
      -- disjoint merge of object witnesses; for a single member its own witnesses
      match xs with
      | [] => []
      | [x] => witnesses D cap f x
      | x :: rest =>
        let ws := witnesses D cap f x
        let rs := witnesses D cap f (.inter rest)
        capList cap (ws.flatMap fun w => rs.filterMap fun r => match w, r with
          | .obj a, .obj b => some (.obj (a ++ b))
          | _, _ => none)
    | .paren x => witnesses D cap f x
    | .raw _ => []
def witnessesL (D : Decls) (cap : Nat) : Nat → List Ts → List (List JVal)
  | 0, _ => []
  | _ + 1, [] => []
  | f + 1, t :: ts => capList 3 (witnesses D cap f t) :: witnessesL D cap f ts
/-- objects: every required property with each of (up to two of) its witnesses for the first
    property, one witness for the others; optional properties present / absent -/
def objWitnesses (D : Decls) (cap : Nat) : Nat → List (TsKey × Ts) → List JVal
  | 0, _ => []
  | _ + 1, [] => [.obj []]
  | f + 1, (k, t) :: fs =>
    let rest := objWitnesses D cap f fs
    let ws := capList 2 (witnesses D cap f t)
    let withKey := ws.flatMap fun w => rest.filterMap fun r => match r with
      | .obj kvs => some (JVal.obj ((k.name, w) :: kvs))
      | _ => none
    capList cap (if k.optional then withKey ++ rest else withKey)
end

end Ts
end TsRs
