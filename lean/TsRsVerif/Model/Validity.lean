/-
  Model/Validity.lean — the diagnostics of the derive: the four `assert_validity` (attr/*.rs),
  `check_attributes` (types/unit.rs), `EnumAttr::tagged`, in the order the derive runs them
  (types/mod.rs `type_def`, types/enum.rs `enum_def` / `format_variant`, types/named.rs
  `format_field`, newtype.rs, tuple.rs). Attribute structs are `Parsed` maps (Model/Attr.lean).
-/
import TsRsVerif.Model.Attr
import TsRsVerif.Model.Defn
namespace TsRs
open Text

namespace Validity

def has (p : Parsed) (k : String) : Bool := (p.find? (·.1 = k)).isSome

/-- `StructAttr::assert_validity(fields)` (attr/struct.rs:104-158) — first failing check wins -/
def structAttr (p : Parsed) (shape : Shape) : Option String :=
  if has p "type_override" && has p "type_as" then some "`as` is not compatible with `type`"
  else if has p "type_override" && has p "rename_all" then some "`rename_all` is not compatible with `type`"
  else if has p "type_override" && has p "tag" then some "`tag` is not compatible with `type`"
  else if has p "type_override" && has p "optional_fields" then some "`optional_fields` is not compatible with `type`"
  else if has p "type_as" && has p "tag" then some "`tag` is not compatible with `as`"
  else if has p "type_as" && has p "rename_all" then some "`rename_all` is not compatible with `as`"
  else if has p "type_as" && has p "optional_fields" then some "`optional_fields` is not compatible with `as`"
  else if shape ≠ .named && has p "tag" then some "`tag` cannot be used with unit or tuple structs"
  else if shape ≠ .named && has p "rename_all" then some "`rename_all` cannot be used with unit or tuple structs"
  else if shape ≠ .named && has p "optional_fields" then some "`optional_fields` cannot be used with unit or tuple structs"
  else none

/-- `EnumAttr::assert_validity` (attr/enum.rs:96-190) -/
def enumAttr (p : Parsed) : Option String :=
  if has p "type_override" && has p "type_as" then some "`as` is not compatible with `type`"
  else if has p "type_override" && has p "rename_all" then some "`rename_all` is not compatible with `type`"
  else if has p "type_override" && has p "rename_all_fields" then some "`rename_all_fields` is not compatible with `type`"
  else if has p "type_override" && has p "tag" then some "`tag` is not compatible with `type`"
  else if has p "type_override" && has p "content" then some "`content` is not compatible with `type`"
  else if has p "type_override" && has p "untagged" then some "`untagged` is not compatible with `type`"
  else if has p "type_as" && has p "rename_all" then some "`rename_all` is not compatible with `as`"
  else if has p "type_as" && has p "rename_all_fields" then some "`rename_all_fields` is not compatible with `as`"
  else if has p "type_as" && has p "tag" then some "`tag` is not compatible with `as`"
  else if has p "type_as" && has p "content" then some "`content` is not compatible with `as`"
  else if has p "type_as" && has p "untagged" then some "`untagged` is not compatible with `as`"
  else if has p "untagged" && has p "tag" && !has p "content" then some "untagged cannot be used with tag"
  else if has p "untagged" && has p "content" then some "untagged cannot be used with content"
  else if !has p "untagged" && !has p "tag" && has p "content" then some "content cannot be used without tag"
  else none

/-- `VariantAttr::assert_validity` (attr/variant.rs:46-85) -/
def variantAttr (p : Parsed) (shape : Shape) : Option String :=
  if has p "type_as" && has p "type_override" then some "`as` is not compatible with `type`"
  else if has p "type_as" && has p "rename_all" then some "`as` is not compatible with `rename_all`"
  else if has p "type_override" && has p "rename_all" then some "`type` is not compatible with `rename_all`"
  else if has p "type_override" && has p "inline" then some "`type` is not compatible with `inline`"
  else if shape ≠ .named && has p "rename_all" then some "`rename_all` is not applicable to unit or tuple variants"
  else none

/-- `FieldAttr::assert_validity` (attr/field.rs:71-160) -/
def fieldAttr (serdeCompat : Bool) (p : Parsed) (named : Bool) : Option String :=
  if serdeCompat && has p "using_serde_with" && !(has p "type_as" || has p "type_override") then
    some "using `#[serde(with = \"...\")]` requires the use of `#[ts(as = \"...\")]` or `#[ts(type = \"...\")]`"
  else if has p "type_override" && has p "type_as" then some "`type` is not compatible with `as`"
  else if has p "type_override" && has p "inline" then some "`type` is not compatible with `inline`"
  else if has p "type_override" && has p "flatten" then some "`type` is not compatible with `flatten`"
  else if has p "type_override" && has p "optional" then some "`type` is not compatible with `optional`"
  else if has p "flatten" && has p "type_as" then some "`as` is not compatible with `flatten`"
  else if has p "flatten" && has p "rename" then some "`rename` is not compatible with `flatten`"
  else if has p "flatten" && has p "inline" then some "`inline` is not compatible with `flatten`"
  else if has p "flatten" && has p "optional" then some "`optional` is not compatible with `flatten`"
  else if !named && has p "flatten" then some "`flatten` cannot with tuple struct fields"
  else if !named && has p "rename" then some "`flatten` cannot with tuple struct fields"
  else if !named && has p "optional" then some "`optional` cannot with tuple struct fields"
  else none

/-- abstract item: attribute token lists at every position + shapes -/
structure AField where
  named : Bool
  ts : List (List Tok)
  serde : List (List Tok)
  deriving Inhabited

structure AVariant where
  shape : Shape
  ts : List (List Tok)
  serde : List (List Tok)
  fields : List AField
  deriving Inhabited

structure AItem where
  isEnum : Bool
  ts : List (List Tok)
  serde : List (List Tok)
  shape : Shape
  fields : List AField
  variants : List AVariant
  deriving Inhabited

inductive Outcome where
  | ok
  | error (msg : String)
  deriving Repr, DecidableEq, Inhabited

def ofPRes (r : Attr.PRes) (k : Parsed → Outcome) : Outcome :=
  match r with
  | .ok p => k p
  | .error m => .error m

/-- one field through `format_field`: parse its attributes, then `FieldAttr::assert_validity` -/
def fieldStep (compat : Bool) (acc : Outcome) (f : AField) : Outcome :=
  match acc with
  | .error m => .error m
  | .ok => ofPRes (Attr.fromAttrs compat .field f.ts f.serde) fun p =>
      match fieldAttr compat p f.named with
      | some m => .error m
      | none => .ok

/-- the fields of a struct / variant as `type_def` processes them, given the (struct-level) attr -/
def fieldsOutcome (compat : Bool) (sattrTypeOverride sattrTypeAs : Bool) (shape : Shape) (fields : List AField) : Outcome :=
  if sattrTypeOverride || sattrTypeAs then .ok
  else
    -- named: every field; unnamed: 0 → empty array, 1 → newtype (its field), n → tuple (every field); unit → nothing
    let relevant := match shape with
      | .unit => []
      | _ => fields
    relevant.foldl (fieldStep compat) .ok

/-- one variant through `format_variant`, `p` being the enum's attributes -/
def variantStep (compat : Bool) (p : Parsed) (acc : Outcome) (v : AVariant) : Outcome :=
  match acc with
  | .error m => .error m
  | .ok => ofPRes (Attr.fromAttrs compat .variant v.ts v.serde) fun vp =>
      match variantAttr vp v.shape with
      | some m => .error m
      | none =>
        if has vp "skip" then .ok
        else
          -- `StructAttr::from_variant`: rename_all = variant's, else the enum's rename_all_fields (named variants only);
          -- tag = the enum's tag for named variants of an internally tagged enum
          let internal := has p "tag" && !has p "content" && !has p "untagged" && !has vp "untagged"
          let renameAll := has vp "rename_all" || (v.shape = .named && has p "rename_all_fields")
          if v.shape = .named && v.fields.isEmpty && !internal && renameAll then
            .error "`rename_all` is not applicable to unit structs"
          else match fieldsOutcome compat false false v.shape v.fields with
          | .error m => .error m
          | .ok => if has vp "type_as" && has vp "type_override" then .error "`type` is not compatible with `as`" else .ok

/-- the result class of the derive: `Ok(expansion)` or `Err(message)` -/
def derive (compat : Bool) (it : AItem) : Outcome :=
  if !it.isEnum then
    ofPRes (Attr.fromAttrs compat .struct it.ts it.serde) fun p =>
      match structAttr p it.shape with
      | some m => .error m
      | none =>
        -- `struct E {}` without a tag goes to `unit::empty_object` → `check_attributes`
        if !(has p "type_override" || has p "type_as") && it.shape = .named && it.fields.isEmpty && !has p "tag" && has p "rename_all" then
          .error "`rename_all` is not applicable to unit structs"
        else fieldsOutcome compat (has p "type_override") (has p "type_as") it.shape it.fields
  else
    ofPRes (Attr.fromAttrs compat .enum it.ts it.serde) fun p =>
      match enumAttr p with
      | some m => .error m
      | none =>
        if has p "type_override" || has p "type_as" then .ok
        else it.variants.foldl (variantStep compat p) .ok

end Validity
end TsRs
