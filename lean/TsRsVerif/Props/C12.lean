import TsRsVerif.Model.Builtin
import TsRsVerif.Lemmas.BuiltinLemmas
import TsRsVerif.Model.TsEval
/-!
# C12 — built-in impls describe serde's representation of library types

`nameTyB` models the hand-written `impl TS for …` blocks of ts-rs/src/lib.rs (driven by the
GENERATED primitive table); `serB` is the oracle model of serde/serde_json for the same types.
-/
namespace TsRs
open Text Ts Builtin

/-- the decidable form of `TableOK`, evaluated over the whole generated table -/
def tableOKb : Bool :=
  Gen.primitives.all fun row => match primClass row.1 with
    | some _ => specTs row.1 == some row.2.1
    | none => true

/-- **every row of `impl_primitives!`** (as regenerated from the sources) maps its Rust type to the
TypeScript name that describes serde's JSON for it: ≤32-bit integers, `usize`/`isize` and floats ↦
`number`, 64/128-bit integers ↦ `bigint`, `bool` ↦ `boolean`, string-likes and `char` ↦ `string`,
`()` ↦ `null`. A proof over the complete finite table, re-checked whenever the table changes. -/
theorem C12_table : tableOKb = true := by decide +kernel

theorem C12_tableOK : TableOK := by
  intro row hmem hsome
  have h := C12_table
  unfold tableOKb at h
  rw [List.all_eq_true] at h
  have := h row hmem
  cases hc : primClass row.1 with
  | none => rw [hc] at hsome; simp at hsome
  | some c => rw [hc] at this; simpa using this

/-- no user types: the callbacks of the library-type model -/
def noNamedTy : Str → List Ts → Option Ts := fun _ _ => none
def noNamedSer : Str → List RTy → RVal → Option JVal := fun _ _ _ => none

/-- **C12 (soundness)**: for every library type expression built from the primitives, `Option`,
`Vec`, slices, sets, arrays of EVERY length, tuples of every arity, maps, `Result`, ranges and the
wrappers, nested to ANY depth, and every value of it (without non-finite floats, `PhantomData`
and dangling `Weak`, see the counter-examples below): the JSON serde_json emits inhabits the
TypeScript type ts-rs reports. Holds for every value of the array/tuple limit. -/
theorem C12_sound (D : Decls) (limit : Nat) (t : RTy) (v : RVal) (T : Ts) (j : JVal)
    (hT : nameTyB limit noNamedTy t = some T) (hs : serB noNamedSer t v = some j)
    (hc : cleanV v = true) : Member D T j :=
  serB_sound D limit noNamedTy noNamedSer C12_tableOK
    (fun _ _ _ _ _ _ _ h _ _ => by simp [noNamedTy] at h) t v T j hT hs hc

/-- the same with user types plugged in: whatever is sound for the named types stays sound under
every library type constructor (this is how C01 uses C12) -/
theorem C12_sound_over (D : Decls) (limit : Nat) (nameN : Str → List Ts → Option Ts)
    (serN : Str → List RTy → RVal → Option JVal) (hN : NamedSound D limit nameN serN)
    (t : RTy) (v : RVal) (T : Ts) (j : JVal)
    (hT : nameTyB limit nameN t = some T) (hs : serB serN t v = some j) (hc : cleanV v = true) :
    Member D T j :=
  serB_sound D limit nameN serN C12_tableOK hN t v T j hT hs hc

/-- **arrays of every length**: a fixed-length tuple up to the limit, `Array<T>` beyond -/
theorem C12_array (limit n : Nat) (nameN : Str → List Ts → Option Ts) (t : RTy) :
    nameTyB limit nameN (.arr t n) =
      (nameTyB limit nameN t).map fun x => if n > limit then .array x else .tuple (List.replicate n x) := by
  simp [nameTyB]

/-- **transparent wrappers are their content** -/
theorem C12_wrapper (limit : Nat) (nameN : Str → List Ts → Option Ts) (k : WrapKind) (t : RTy) :
    nameTyB limit nameN (.wrap k t) = nameTyB limit nameN t := by simp [nameTyB]

/-! ## non-vacuity: a nested library type and a value of it -/
example : ∃ T j,
    nameTyB 64 noNamedTy (.map (.prim "String") (.option (.arr (.tuple [.prim "u64", .wrap .box (.prim "bool")]) 2))) = some T ∧
    serB noNamedSer (.map (.prim "String") (.option (.arr (.tuple [.prim "u64", .wrap .box (.prim "bool")]) 2)))
      (.map [(.str "k".toList, .some (.seq [.seq [.int 7, .bool true], .seq [.int 0, .bool false]])), (.str "n".toList, .none)]) = some j ∧
    Member [] T j := by
  have hs : serB noNamedSer (.map (.prim "String") (.option (.arr (.tuple [.prim "u64", .wrap .box (.prim "bool")]) 2)))
      (.map [(.str "k".toList, .some (.seq [.seq [.int 7, .bool true], .seq [.int 0, .bool false]])), (.str "n".toList, .none)])
      = some (.obj [("k".toList, .arr [.arr [.int 7, .bool true], .arr [.int 0, .bool false]]), ("n".toList, .null)]) := by
    simp [serB, serAllB, serZipB, serMapB, primClass, serPrim, keyOfJson, bind, Option.bind]
  exact ⟨_, _, rfl, hs, C12_sound [] 64 _ _ _ _ rfl hs (by simp [cleanV, cleanVL, cleanVM])⟩

/-! ## rows/values where the property is FALSE of the unchanged tree (known findings) -/

/-- `PhantomData<T>` is reported as `T`, serde emits `null` -/
theorem C12_cex_phantom :
    nameTyB 64 noNamedTy (.wrap .phantom (.prim "u8")) = some .number ∧
    serB noNamedSer (.wrap .phantom (.prim "u8")) .phantom = some .null ∧
    Ts.memberb [] 10 .number .null = false := ⟨rfl, by simp [serB], rfl⟩

/-- a dangling `Weak<T>` serializes to `null`, the binding says `T` -/
theorem C12_cex_weak :
    nameTyB 64 noNamedTy (.wrap .weak (.prim "String")) = some .string ∧
    serB noNamedSer (.wrap .weak (.prim "String")) .weakDead = some .null := ⟨rfl, by simp [serB]⟩

/-- non-finite floats serialize to `null`, the binding says `number` -/
theorem C12_cex_nan :
    nameTyB 64 noNamedTy (.prim "f64") = some .number ∧
    serB noNamedSer (.prim "f64") .nonFinite = some .null := ⟨rfl, by simp [serB, primClass, serPrim]⟩

end TsRs
