import TsRsVerif.Model.Export
namespace TsRs
theorem C17_placeholder : True := trivial
end TsRs
