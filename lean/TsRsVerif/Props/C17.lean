import TsRsVerif.Model.Export
import TsRsVerif.Lemmas.ExportLemmas
import TsRsVerif.Lemmas.RetryHistory
import TsRsVerif.Lemmas.WalkFail
/-!
# C17 — export failures are returned as errors and do not poison later exports

Theorems over `Model/Export.lean` (`exportTo` = `export_to`, the unit every entry point is a
sequence of; `exportInto` = `export_into`).  The model is tied to export.rs / path.rs by the
obstacle histories of `tools/props/c17.py`, run on the compiled universe and on this model.
-/
namespace TsRs
open Text Export Fs

/-- **a failed `export_to` step leaves everything but (newly created) directories untouched**:
the registry is unchanged (the failure is *not recorded as done*), the lock is not poisoned, and the
regular files of the file system are exactly what they were. For every world, type and path. -/
theorem C17_failed_step_untouched (w w' : World) (t : TyInfo) (p : Str) (e : ExportErr)
    (h : exportTo w t p = (w', .err e)) :
    w'.reg = w.reg ∧ w'.poisoned = w.poisoned ∧ FilesEq w.fs w'.fs := by
  unfold exportTo at h
  cases ha : Path.absolute (cwdStr w.fs) p with
  | error e' => simp [ha] at h; obtain ⟨h1, _⟩ := h; subst h1; exact ⟨rfl, rfl, FilesEq.refl _⟩
  | ok path =>
    simp only [ha] at h
    cases ht : t.text with
    | error e' => simp [ht] at h; obtain ⟨h1, _⟩ := h; subst h1; exact ⟨rfl, rfl, FilesEq.refl _⟩
    | ok buffer =>
      simp only [ht] at h
      cases hpar : Path.parent path with
      | none =>
        simp only [hpar] at h
        have := exportAndMerge_err _ _ _ _ _ _ h
        subst this; exact ⟨rfl, rfl, FilesEq.refl _⟩
      | some par =>
        simp only [hpar] at h
        cases hc : w.fs.createDirAll par with
        | none => simp [hc] at h; obtain ⟨h1, _⟩ := h; subst h1; exact ⟨rfl, rfl, FilesEq.refl _⟩
        | some fs' =>
          simp only [hc] at h
          have := exportAndMerge_err _ _ _ _ _ _ h
          subst this
          exact ⟨rfl, rfl, (createDirAll_frame _ _ _ hc).1⟩

/-- the same for `export_into` (non-exportable type, path climbing above `/`, I/O obstacle) -/
theorem C17_failed_export_into_untouched (w w' : World) (t : TyInfo) (dir : Str) (e : ExportErr)
    (h : exportInto w t dir = (w', .err e)) :
    w'.reg = w.reg ∧ w'.poisoned = w.poisoned ∧ FilesEq w.fs w'.fs := by
  unfold exportInto at h
  cases ho : t.outputPath with
  | none => simp [ho] at h; obtain ⟨h1, _⟩ := h; subst h1; exact ⟨rfl, rfl, FilesEq.refl _⟩
  | some op =>
    simp only [ho] at h
    cases ha : Path.absolute (cwdStr w.fs) (Path.join dir op) with
    | error e' => simp [ha] at h; obtain ⟨h1, _⟩ := h; subst h1; exact ⟨rfl, rfl, FilesEq.refl _⟩
    | ok p => simp only [ha] at h; exact C17_failed_step_untouched w w' t p e h

/-- **errors, not panics — non-exportable root**: returns `CannotBeExported`, world unchanged -/
theorem C17_non_exportable (w : World) (t : TyInfo) (dir : Str) (h : t.outputPath = none) :
    exportInto w t dir = (w, .err .cannotBeExported) := by
  simp [exportInto, h]

/-- **errors, not panics — path climbing above `/`** (and any other `absolute` failure) -/
theorem C17_climb_is_error (w : World) (t : TyInfo) (dir op : Str) (e : ExportErr)
    (ho : t.outputPath = some op) (ha : Path.absolute (cwdStr w.fs) (Path.join dir op) = .error e) :
    exportInto w t dir = (w, .err e) := by
  simp [exportInto, ho, ha]

/-- a `..` that would pop the root makes `absolute` fail (the behaviour after the `fix:` commit;
    before it the result was the *relative* path `x.ts`) -/
theorem C17_pop_root_is_error :
    Path.absolute "/w".toList "../../x.ts".toList = .error .cannotBeExported ∧
    Path.absolute "/w".toList "../x.ts".toList = .ok "/x.ts".toList := by decide

/-- **the only source of a panic** in an export step on an unpoisoned registry is `merge` hitting one
of its `expect`/`unwrap`s on the existing file's content; in particular the first write of a file
never panics. -/
theorem C17_panic_only_from_merge (w w' : World) (path name text : Str)
    (hp : w.poisoned = false) (h : exportAndMerge w path name text = (w', .panic)) :
    ∃ names loc orig why, regGet w.reg (regKey path) = some names ∧
      w.fs.openRead path = some (loc, orig) ∧ Merge.merge orig text = .panic why := by
  rcases exportAndMerge_cases w path name text with ⟨_, h1⟩ | h1 | h1 | ⟨_, _, h1⟩ | ⟨l, c, _, _, h1⟩
  · rw [hp] at h1; simp at h1
  · rw [h1] at h; simp at h
  · rw [h1] at h; simp at h
  · exact h1
  · rw [h1] at h; simp at h

/-- a failed step is **not recorded as done**: a retry sees the registry of before the failure -/
theorem C17_not_recorded (w w' : World) (t : TyInfo) (p : Str) (e : ExportErr) (k : List Comp)
    (h : exportTo w t p = (w', .err e)) : regGet w'.reg k = regGet w.reg k := by
  rw [(C17_failed_step_untouched w w' t p e h).1]

/-! ## non-vacuity: a concrete failing step (the parent component is a regular file) -/
example :
    let fs : Fs := { nodes := [(["w".toList], .dir), (["w".toList, "bindings".toList], .file "i am a file".toList)], cwd := ["w".toList] }
    let w : World := { fs := fs, reg := [] }
    let t : TyInfo := { ident := "A".toList, outputPath := some "A.ts".toList, text := .ok "x\n\nexport type A = 1;\n".toList, deps := [] }
    (exportInto w t "./bindings".toList).2 = .err .io := by decide

/-- **`export_all` returns the first failure and exports nothing after it**: a walk that returns an error has exactly the effect
of `export_into` for a duplicate-free list of types, each returning `Ok`, followed by ONE `export_into` that returns that very
error — the error of a dependency is never replaced by the success of a later sibling, nothing is written after it — and that last
step left the registry, the lock and every regular file as they were (`Lemmas/WalkFail.lean`; for any dependency graph, any order of
the dependency lists, any obstacle). The converse for `Ok` is `C11_export_all_is_a_sequence`: every step returned `Ok`. -/
theorem C17_walk_returns_first_failure (u : Universe) (fuel : Nat) (w w' : World) (dir : Str) (i : Nat) (seen' : List Nat) (e : ExportErr)
    (h : exportRec u fuel w [] dir i = some (w', seen', .err e)) :
    ∃ (order : List Nat) (j : Nat) (t : TyInfo) (w1 : World), order.Nodup ∧ j ∉ order ∧
      runInto u dir w order = (w1, true) ∧ u[j]? = some t ∧ exportInto w1 t dir = (w', .err e) ∧
      w'.reg = w1.reg ∧ w'.poisoned = w1.poisoned ∧ FilesEq w1.fs w'.fs := by
  obtain ⟨order, j, t, w1, hn, _, hj, _, hr, hu, he⟩ := exportRec_fail u dir fuel w [] i w' seen' (.err e) h (by simp)
  exact ⟨order, j, t, w1, hn, hj, hr, hu, he, C17_failed_export_into_untouched w1 w' t dir e he⟩

/-! non-vacuity: the FIRST of two dependencies cannot be written (its target is a directory): the walk returns the I/O error and the
second dependency's file is not written -/
def exFU : Universe := [
  { ident := "Root".toList, outputPath := some "Root.ts".toList, text := .ok "// r\n\nexport type Root = 1;\n".toList, deps := [1, 2] },
  { ident := "Early".toList, outputPath := some "Early.ts".toList, text := .ok "// e\n\nexport type Early = 1;\n".toList, deps := [] },
  { ident := "Late".toList, outputPath := some "Late.ts".toList, text := .ok "// l\n\nexport type Late = 1;\n".toList, deps := [] }]
def exFW : World := { fs := { nodes := [(["w".toList], .dir), (["w".toList, "out".toList], .dir), (["w".toList, "out".toList, "Early.ts".toList], .dir)], cwd := ["w".toList] }, reg := [] }
#guard ((exportRec exFU 8 exFW [] "./out".toList 0).map fun r => (r.2.2 == Outcome.err .io, r.1.fs.lookup ["w".toList, "out".toList, "Late.ts".toList] == none,
  (r.1.fs.lookup ["w".toList, "out".toList, "Root.ts".toList]).isSome)) == some (true, true, true)

/-- **a failed export is not recorded as done; after the obstacle is removed the retry — and everything after it — gives the
directory contents of the history in which the failure never happened.** `w₁`: the world after any history `done` over any number of
files (`TInv`: each file holds the canonical text of its exports). Under ANY obstacle (`wobs`: an arbitrary file system; the process
state — registry, lock — is that of `w₁`) some `export_to` returns an error (`wf`). `w₂` is the failed world with the obstacle gone:
its file system again meets the invariant's clauses (the files of `done` as they were, no regular file on the way to a target, no
target a directory — directories the failed step created may stay); registry and lock are what the failed step left. Then the rest
of the history, the retry included, returns `Ok` at every step from `w₂` exactly as it does from `w₁`, both end in the invariant of
`done ++ rest`, and every regular file has the same content in both. -/
theorem C17_retry_as_if_never_failed (fs0 : Fs) (slots : List TSlot) (hs : TSlotsOK fs0 slots) (done : List Op) (w₁ wobs wf w₂ : World)
    (t : TyInfo) (p : Str) (e : ExportErr) (rest : List TOp)
    (h₁ : TInv fs0 slots done w₁)
    (hobsR : wobs.reg = w₁.reg) (hobsP : wobs.poisoned = w₁.poisoned)
    (hfail : exportTo wobs t p = (wf, .err e))
    (h2R : w₂.reg = wf.reg) (h2P : w₂.poisoned = wf.poisoned)
    (h2fs : TInv fs0 slots done (withFs w₁ w₂.fs))
    (hr : ∀ op ∈ rest, op.1.1 < slots.length)
    (hsp : ∀ op ∈ rest, ∀ s, slots[op.1.1]? = some s → Path.absolute (cwdStr fs0) op.2 = .ok s.path)
    (hg : ∀ x, (∃ op ∈ rest, op.1.2 = x) ∨ (∃ op ∈ done, op.2 = x) → GenOK x)
    (hnm : ∀ i, ((gensAt i (done ++ rest.map (·.1))).map (·.name)).Nodup)
    (hid : ∀ i, ((gensAt i (done ++ rest.map (·.1))).map (·.ident)).Nodup) :
    ∃ w' w'', runOpsTo slots w₂ rest = (w', true) ∧ runOpsTo slots w₁ rest = (w'', true) ∧
      TInv fs0 slots (done ++ rest.map (·.1)) w' ∧
      (∀ l c, w'.fs.lookup l = some (.file c) ↔ w''.fs.lookup l = some (.file c)) := by
  obtain ⟨⟨w', r', i'⟩, ⟨w'', r'', i''⟩⟩ := retry_history fs0 slots hs done w₁ wobs wf w₂ t p e rest h₁ hobsR hobsP hfail h2R h2P h2fs hr hsp hg hnm hid
  exact ⟨w', w'', r', r'', i', tinv_same_files fs0 slots _ w' w'' i' i''⟩

/-! non-vacuity: two files; after one export the next target is a DIRECTORY; the step fails with an I/O error, registry untouched;
with the directory gone the retry and a further export into the first file succeed and leave what the failure-free history leaves -/
def exRA : GenT := ⟨"Alpha".toList, "Alpha".toList, [], "export type Alpha = { a: number, };".toList⟩
def exRB : GenT := ⟨"Beta".toList, "Beta".toList, [("../Other".toList, ["Other".toList])], "export type Beta = { o: Other, };".toList⟩
def exRO : GenT := ⟨"Other".toList, "Other".toList, [], "export type Other = string;".toList⟩
def exRSlots : List TSlot := [⟨["w".toList, "out".toList, "deep".toList], "shared.ts".toList⟩, ⟨["w".toList, "out".toList], "Other.ts".toList⟩]
def exRW0 : World := { fs := { nodes := [(["w".toList], .dir)], cwd := ["w".toList] }, reg := [] }
def exRW1 : World := (runOpsTo exRSlots exRW0 [((0, exRB), "out/deep/shared.ts".toList)]).1
def exRObs : World := { exRW1 with fs := exRW1.fs.set ["w".toList, "out".toList, "Other.ts".toList] .dir }
def exRFail : World × Outcome := exportTo exRObs (tyOfGen exRO) "./out/Other.ts".toList
def exRRest : List TOp := [((1, exRO), "./out/Other.ts".toList), ((0, exRA), "/w/out/deep/../deep/shared.ts".toList)]
#guard exRFail.2 == .err .io && exRFail.1.reg == exRW1.reg && !exRFail.1.poisoned
#guard (runOpsTo exRSlots { exRFail.1 with fs := exRW1.fs } exRRest).2 && (runOpsTo exRSlots exRW1 exRRest).2
#guard [["w".toList, "out".toList, "deep".toList, "shared.ts".toList], ["w".toList, "out".toList, "Other.ts".toList]].all fun l =>
  ((runOpsTo exRSlots { exRFail.1 with fs := exRW1.fs } exRRest).1.fs.lookup l) == ((runOpsTo exRSlots exRW1 exRRest).1.fs.lookup l)
#guard ((runOpsTo exRSlots { exRFail.1 with fs := exRW1.fs } exRRest).1.fs.lookup ["w".toList, "out".toList, "deep".toList, "shared.ts".toList])
  == some (.file (fileText (canonSt [exRB, exRA])))

end TsRs
