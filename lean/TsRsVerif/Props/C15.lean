/-
  Props/C15.lean — doc comments are contained and never alter the type.

  `Derive.parseDocs` / `Derive.jsdoc` / `Derive.escapeClose` transcribe `utils.rs:parse_docs`; the
  lexical model `Comment.run` (block / line comments, strings) says what a TypeScript reader takes
  for comment and what for code. The theorems hold for EVERY doc text (any characters, any number
  of lines, any length): the generated block is exactly one comment, it ends where the generator
  ended it, removing it leaves the significant characters of the file unchanged, and the doc text
  is inside it. The tie (tools/props/c15.py) runs the real `parse_docs` and the real derive on
  generated doc texts and compares with the model byte for byte, and checks the context
  hypothesis (`endState .code prefix = .code`) on the real output with an independent lexer.
-/
import TsRsVerif.Lemmas.CommentLemmas
import TsRsVerif.Lemmas.Closed
namespace TsRs
open Text Derive Comment

/-- the text handed to `jsdoc` for a non-empty list of doc attributes -/
def docInner (ds : List Str) : Str :=
  match ds with
  | [] => []
  | [d] => if d.contains '\n' then d else "\n *".toList ++ d ++ "\n ".toList
  | ds => '\n' :: intercalate ['\n'] (ds.map fun l => " *".toList ++ l) ++ "\n ".toList

theorem parseDocs_eq (ds : List Str) (h : ds ≠ []) : parseDocs ds = jsdoc (docInner ds) := by
  match ds, h with
  | [d], _ => simp only [parseDocs, docInner]; split <;> rfl
  | a :: b :: r, _ => simp [parseDocs, docInner]

/-- **containment**: whatever the text, the generated block read as a TypeScript comment ends exactly
where the generator ended it; its body is the escaped text -/
theorem C15_contained (text rest : Str) :
    leadingComment (jsdoc text ++ rest) = some (escapeClose ('*' :: text), '\n' :: rest) := by
  have h := splitClose_noClose ('\n' :: rest) (escapeClose ('*' :: text)) (escapeClose_noClose _)
  simp only [jsdoc, List.cons_append, List.append_assoc, List.nil_append, leadingComment] at h ⊢
  exact h

/-- … for every non-empty list of doc attributes -/
theorem C15_docs_one_comment (ds : List Str) (h : ds ≠ []) (rest : Str) :
    leadingComment (parseDocs ds ++ rest) = some (escapeClose ('*' :: docInner ds), '\n' :: rest) := by
  rw [parseDocs_eq ds h]; exact C15_contained _ _

/-- **nothing of the block is read as code**: the lexer is back in `code` state right after it,
having emitted nothing -/
theorem C15_jsdoc_inert (text rest : Str) : run .code (jsdoc text ++ rest) = run .code rest := by
  have h := (run_block_skip ('\n' :: rest) (escapeClose ('*' :: text))).1 (escapeClose_noClose _)
  simp only [jsdoc, List.cons_append, List.append_assoc, List.nil_append]
  have h2 : run .code ('\n' :: rest) = run .code rest := by simp [run, step, codeStep, isWs]
  rw [h2] at h
  simp only [run, step, codeStep]
  simp [h]

theorem C15_docs_inert (ds : List Str) (rest : Str) : run .code (parseDocs ds ++ rest) = run .code rest := by
  by_cases h : ds = []
  · subst h; rfl
  · rw [parseDocs_eq ds h]; exact C15_jsdoc_inert _ _

/-- field documentation (`"\n" ++ block`) is inert too -/
theorem C15_field_docs_inert (ds : List Str) (rest : Str) : run .code (fieldDocs ds ++ rest) = run .code rest := by
  unfold fieldDocs
  simp only
  split
  · rfl
  · have h2 : run .code ('\n' :: (parseDocs ds ++ rest)) = run .code (parseDocs ds ++ rest) := by simp [run, step, codeStep, isWs]
    rw [List.cons_append, h2]; exact C15_docs_inert ds rest

/-- **docs never alter the type**: wherever a doc block is placed in code position, the file with
and without it has the same significant characters (hence declares the same types) -/
theorem C15_inert_in_context (p : Str) (ds : List Str) (rest : Str) (hp : endState .code p = .code) :
    sig .code (p ++ (parseDocs ds ++ rest)) = sig .code (p ++ rest) := by
  unfold sig endState at *
  rw [run_append .code p (parseDocs ds ++ rest), run_append .code p rest, hp, C15_docs_inert]

theorem C15_field_inert_in_context (p : Str) (ds : List Str) (rest : Str) (hp : endState .code p = .code) :
    sig .code (p ++ (fieldDocs ds ++ rest)) = sig .code (p ++ rest) := by
  unfold sig endState at *
  rw [run_append .code p (fieldDocs ds ++ rest), run_append .code p rest, hp, C15_field_docs_inert]

/-- a whole object body: any number of fields, each with any documentation — provided the
undocumented field texts are lexically closed (checked on the real output by the tie) -/
theorem C15_fields_docs_inert : ∀ (fs : List (List Str × Str)), (∀ f ∈ fs, endState .code f.2 = .code) →
    run .code (intercalate [' '] (fs.map fun f => fieldDocs f.1 ++ f.2)) = run .code (intercalate [' '] (fs.map (·.2)))
  | [], _ => rfl
  | [f], _ => by
    simp only [List.map, intercalate]
    have := C15_field_docs_inert f.1 f.2
    exact this
  | f :: g :: r, h => by
    have ih := C15_fields_docs_inert (g :: r) (fun x hx => h x (by simp [hx]))
    have hf : endState .code f.2 = .code := h f (by simp)
    simp only [List.map, intercalate] at ih ⊢
    simp only [List.append_assoc]
    rw [C15_field_docs_inert]
    unfold endState at hf
    have hsp : ∀ x, run .code (' ' :: x) = run .code x := by intro x; simp [run, step, codeStep, isWs]
    rw [run_append .code f.2 ([' '] ++ _), run_append .code f.2 ([' '] ++ _), hf]
    rw [List.singleton_append, List.singleton_append, hsp, hsp, ih]

/-- texts built from pieces without `/` and quotes (identifiers, punctuation, numbers, white space) and string literals whose body
escapes the quote and the backslash — what ts-rs writes for property names, type names, literal types and the punctuation around them -/
inductive Rendered : Str → Prop where
  | plain {s : Str} : (∀ c ∈ s, c ≠ '/' ∧ isQuote c = false) → Rendered s
  | lit {q : Char} {body : Str} : isQuote q = true → LitBody q body → Rendered (q :: (body ++ [q]))
  | append {a b : Str} : Rendered a → Rendered b → Rendered (a ++ b)

/-- **the context hypothesis holds for every rendering of that kind**: after it the reader is in code again -/
theorem C15_rendered_closed {s : Str} (h : Rendered s) : endState .code s = .code := by
  induction h with
  | plain hp => exact closed_plain _ hp
  | lit hq hb => exact closed_lit _ hq _ hb
  | append _ _ iha ihb => exact Closed.append iha ihb

/-- … so documentation on any fields of an object body written from such pieces never changes what is read as code -/
theorem C15_rendered_fields_docs_inert (fs : List (List Str × Str)) (h : ∀ f ∈ fs, Rendered f.2) :
    run .code (intercalate [' '] (fs.map fun f => fieldDocs f.1 ++ f.2)) = run .code (intercalate [' '] (fs.map (·.2))) :=
  C15_fields_docs_inert fs (fun f hf => C15_rendered_closed (h f hf))

/-- **what ts-rs writes for a property name is such a piece**, for EVERY name: an identifier-like name as it is (letters, digits, `_`,
`$` — given that the character table calls neither `/` nor a quote alphanumeric), anything else through the string-literal routine
(given the lexical contract `EscLex` of the escape table: what is written for one character has no bare `"` and no dangling backslash;
proven for the ASCII table, `asciiEsc_lex`) -/
theorem C15_property_name_rendered (ops : CharOps) (hesc : EscLex ops)
    (hal : ∀ c, ops.isAlnum c = true → c ≠ '/' ∧ isQuote c = false) (n : Str) :
    Rendered (Case.rawNameToTsField ops n) := by
  unfold Case.rawNameToTsField
  by_cases hv : Case.validName ops n = true
  · simp only [hv, if_true]
    refine Rendered.plain ?_
    intro c hc
    simp only [Case.validName, Bool.and_eq_true, List.all_eq_true, Bool.or_eq_true, decide_eq_true_eq] at hv
    rcases hv.1.2 c hc with (h | h) | h
    · exact hal c h
    · subst h; decide
    · subst h; decide
  · simp only [hv, Bool.false_eq_true, if_false]
    obtain ⟨body, he, hb⟩ := quoteStr_litBody ops hesc n
    rw [he]
    exact Rendered.lit (by decide) hb

/-- the ASCII character table meets both hypotheses -/
theorem C15_ascii_table_ok : EscLex Case.asciiOps ∧ ∀ c, Case.asciiOps.isAlnum c = true → c ≠ '/' ∧ isQuote c = false := by
  refine ⟨asciiEsc_lex, ?_⟩
  intro c h
  simp only [Case.asciiOps, Case.isAsciiUpper, Case.isAsciiLower, Bool.or_eq_true, Bool.and_eq_true, decide_eq_true_eq] at h
  constructor
  · intro e; subst e; revert h; decide
  · simp only [isQuote, Bool.or_eq_false_iff, decide_eq_false_iff_not]
    constructor <;> (intro e; subst e; revert h; decide)

/-- non-vacuity: a property with a quoted name that contains a quote, a backslash, `/*` and `//`, and a literal type -/
example : Rendered "\"a\\\"b\\\\ /* // */\": 'x' | Array<number>,".toList := by
  have e : "\"a\\\"b\\\\ /* // */\": 'x' | Array<number>,".toList
      = ('"' :: ("a\\\"b\\\\ /* // */".toList ++ ['"'])) ++ (": ".toList ++ (('\'' :: ("x".toList ++ ['\''])) ++ " | Array<number>,".toList)) := by decide
  rw [e]
  refine Rendered.append (Rendered.lit (by decide) ?_) (Rendered.append (Rendered.plain (by decide)) (Rendered.append (Rendered.lit (by decide) ?_) (Rendered.plain (by decide))))
  · exact litBodyB_sound _ _ (by decide)
  · exact litBodyB_sound _ _ (by decide)

theorem infix_intercalate_map (f : Str → Str) (sep : Str) : ∀ (xs : List Str) (l : Str), l ∈ xs →
    f l <:+: intercalate sep (xs.map f)
  | [], _, h => by cases h
  | [x], l, h => by
    simp only [List.mem_cons, List.not_mem_nil, or_false] at h
    subst h
    exact List.infix_refl _
  | x :: y :: ys, l, h => by
    have e : intercalate sep ((x :: y :: ys).map f) = f x ++ sep ++ intercalate sep ((y :: ys).map f) := rfl
    rw [e]
    rcases List.mem_cons.mp h with rfl | h'
    · exact ⟨[], sep ++ intercalate sep ((y :: ys).map f), by simp⟩
    · obtain ⟨s, t, hst⟩ := infix_intercalate_map f sep (y :: ys) l h'
      exact ⟨f x ++ sep ++ s, t, by rw [← hst]; simp⟩

/-- **the documentation text is in the comment**: every doc line is part of the block's text, which
is a subsequence of the comment body (escaping only inserts backslashes) … -/
theorem C15_text_kept (ds : List Str) (l : Str) (hl : l ∈ ds) :
    l <:+: docInner ds ∧ List.Sublist (docInner ds) (escapeClose ('*' :: docInner ds)) := by
  refine ⟨?_, (List.sublist_cons_self '*' (docInner ds)).trans (escapeClose_sublist _)⟩
  match ds, hl with
  | [d], hl =>
    simp only [List.mem_cons, List.not_mem_nil, or_false] at hl
    subst hl
    simp only [docInner]
    split
    · exact List.infix_refl _
    · exact ⟨"\n *".toList, "\n ".toList, by simp⟩
  | a :: b :: r, hl =>
    simp only [docInner]
    have h1 := infix_intercalate_map (fun l => " *".toList ++ l) ['\n'] (a :: b :: r) l hl
    have h2 : l <:+: (fun l => " *".toList ++ l) l := ⟨" *".toList, [], by simp⟩
    obtain ⟨s, t, hst⟩ := h2.trans h1
    exact ⟨'\n' :: s, t ++ "\n ".toList, by rw [← hst]; simp⟩

/-- … and verbatim when the text forms no `*/` -/
theorem C15_text_verbatim (ds : List Str) (h : hasClose ('*' :: docInner ds) = false) (hne : ds ≠ []) :
    parseDocs ds = '/' :: '*' :: '*' :: docInner ds ++ "*/\n".toList := by
  rw [parseDocs_eq ds hne, jsdoc, escapeClose_id _ h]; rfl

/-! ## the defect that was there: without the escape the block ends early (`/// see **/*.rs`) -/

def parseDocsOld (docs : List Str) : Str :=
  match docs with
  | [] => []
  | [d] => if d.contains '\n' then "/**".toList ++ d ++ "*/\n".toList
           else "/**\n".toList ++ " *".toList ++ d ++ "\n */\n".toList
  | ds => "/**\n".toList ++ intercalate ['\n'] (ds.map fun l => " *".toList ++ l) ++ "\n */\n".toList

theorem C15_old_cex_glob :
    sig .code (parseDocsOld [" see **/*.rs".toList] ++ "export type A = number;".toList) ≠ sig .code "export type A = number;".toList ∧
    sig .code (parseDocs [" see **/*.rs".toList] ++ "export type A = number;".toList) = sig .code "export type A = number;".toList := by
  decide +kernel

theorem C15_old_cex_leading_slash :
    (leadingComment (parseDocsOld ["/x".toList] ++ "T".toList)).map (·.2) ≠ some "\nT".toList ∧
    (leadingComment (parseDocs ["/x".toList] ++ "T".toList)).map (·.2) = some "\nT".toList := by
  decide +kernel

/-! ## non-vacuity -/
example : endState .code "{ a: number, \"b-c\": \"x/*y\", ".toList = .code := by decide +kernel
example : parseDocs [" a".toList, " b*/c".toList] = "/**\n * a\n * b*\\/c\n */\n".toList := by decide +kernel

end TsRs
