import TsRsVerif.Model.Case
/-!
# C09 — rename_all yields the names serde puts on the wire, for every identifier

`applyToField` / `applyToVariant` model ts-rs (after the `fix:` commit that gave fields and variants
serde's two routines); `serdeField` / `serdeVariant` model serde_derive 1.0.215 `case.rs` (oracle).
serde's routines can panic (byte slicing in `camelCase`); then `derive(Serialize)` does not compile
and nothing is put on the wire, so the statement is: whenever serde produces a name, ts-rs produces
the same one.  All theorems hold for EVERY identifier (any length, any characters) and for EVERY
instantiation of the Unicode tables (`CharOps`).
-/
namespace TsRs
open Text Case

theorem lowerFirstByte_ok (t n : Str) (h : lowerFirstByte t = .ok n) : lowerFirstChar t = n := by
  cases t with
  | nil => simp [lowerFirstByte] at h
  | cons c cs =>
    simp only [lowerFirstByte] at h
    split at h
    · simp only [Res.ok.injEq] at h; simpa [lowerFirstChar] using h
    · simp at h

/-- **C09, struct fields and fields of struct variants**: all 8 rules, every identifier. -/
theorem C09_field (ops : CharOps) (r : Rule) (s n : Str) (h : serdeField ops r s = .ok n) :
    applyToField ops r s = n := by
  cases r <;> simp only [serdeField, Res.ok.injEq] at h <;> try (simpa [applyToField] using h)
  exact lowerFirstByte_ok _ _ h

/-- **C09, enum variants**: all 8 rules, every identifier. -/
theorem C09_variant (ops : CharOps) (r : Rule) (s n : Str) (h : serdeVariant ops r s = .ok n) :
    applyToVariant ops r s = n := by
  cases r <;> simp only [serdeVariant, Res.ok.injEq] at h <;> try (simpa [applyToVariant] using h)
  exact lowerFirstByte_ok _ _ h

/-- ts-rs's renaming is total: where serde's own routine would panic (so that
    `derive(Serialize)` fails to compile) ts-rs still returns a name instead of panicking. -/
theorem C09_total (ops : CharOps) (r : Rule) (s : Str) :
    (∃ n, applyToField ops r s = n) ∧ (∃ n, applyToVariant ops r s = n) := ⟨⟨_, rfl⟩, ⟨_, rfl⟩⟩

/-- the property name printed into the binding denotes the renamed name: `raw_name_to_ts_field`
    either leaves it as it is or wraps it in double quotes -/
theorem C09_binding_name (ops : CharOps) (n : Str) :
    rawNameToTsField ops n = n ∨ rawNameToTsField ops n = quoteStr ops n := by
  unfold rawNameToTsField
  cases validName ops n <;> simp

/-! ## non-vacuity / sanity: concrete identifiers outside Rust naming conventions -/
example : applyToField asciiOps .snake "fooBar".toList = "fooBar".toList
    ∧ serdeField asciiOps .snake "fooBar".toList = .ok "fooBar".toList := by decide
example : applyToVariant asciiOps .camel "Foo_Bar".toList = "foo_Bar".toList
    ∧ serdeVariant asciiOps .camel "Foo_Bar".toList = .ok "foo_Bar".toList := by decide
example : applyToField asciiOps .screamingKebab "a__b_1".toList = "A--B-1".toList := by decide
example : applyToVariant asciiOps .kebab "HTTPServer_x".toList = "h-t-t-p-server_x".toList.map (fun c => if c = '_' then '-' else c) := by decide
/-- serde panics here (`__` has an empty Pascal form), ts-rs returns the empty name -/
example : serdeField asciiOps .camel "__".toList = .panic "byte index 1 is out of bounds"
    ∧ applyToField asciiOps .camel "__".toList = [] := by decide

/-! ## the defect of the pinned snapshot (single `Inflection::apply`), as counter-example theorems.
These are why the `fix:` commit exists; `applyOld` is the old routine. -/
theorem C09_old_cex_field_snake :
    applyOld asciiOps .snake "fooBar".toList ≠ serdeField asciiOps .snake "fooBar".toList := by decide
theorem C09_old_cex_field_lower :
    applyOld asciiOps .lower "fooBar".toList ≠ serdeField asciiOps .lower "fooBar".toList := by decide
theorem C09_old_cex_field_screaming :
    applyOld asciiOps .screamingSnake "fooBar".toList ≠ serdeField asciiOps .screamingSnake "fooBar".toList := by decide
theorem C09_old_cex_field_kebab :
    applyOld asciiOps .kebab "fooBar".toList ≠ serdeField asciiOps .kebab "fooBar".toList := by decide
theorem C09_old_cex_variant_camel :
    applyOld asciiOps .camel "Foo_Bar".toList ≠ serdeVariant asciiOps .camel "Foo_Bar".toList := by decide
theorem C09_old_cex_variant_pascal :
    applyOld asciiOps .pascal "Foo_Bar".toList ≠ serdeVariant asciiOps .pascal "Foo_Bar".toList := by decide
theorem C09_old_cex_camel_panics :
    applyOld asciiOps .camel "__".toList = .panic "byte index 1 is out of bounds" := by decide

end TsRs
