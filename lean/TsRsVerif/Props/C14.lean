import TsRsVerif.Model.Deps
import TsRsVerif.Lemmas.DenotLemmas
import TsRsVerif.Lemmas.UnfoldCheck
/-!
# C14 — inline, flatten and `as` change presentation, never meaning

Theorems over the string-level model of the derive. `as = "U"`: the item is processed exactly as if
the Rust type at that position were `U`. Inline: `inline()` of a type IS the body of its concrete
declaration. The denotational statements are theorems about the meaning of TypeScript types (`Member`):
`C14_inline_same_values` (a reference and its unfolded body denote the same values; also below `Array<..>` and
`.. | null`), `C14_flatten_is_merge` (`{ A } & { B }` with disjoint property names denotes exactly what the merged
literal `{ A B }` denotes — the textual merge ts-rs performs). That the REAL declarations of sibling items are such
unfoldings / merges of each other is decided on every run by the relational oracle of `tools/props/c14.py`
(normal-form comparison of the real declarations, and cross-membership of real JSON).
-/
namespace TsRs
open Text Derive

/-- replace the Rust type of a field by `U` and drop its `as` -/
def retype (f : Field) (U : RTy) : Field := { f with ty := U, attr := { f.attr with typeAs := none } }

theorem effTy_retype (f : Field) (U : RTy) : effTy (retype f U) = U := rfl
theorem effTy_as (f : Field) (U : RTy) (h : f.attr.typeAs = some U) : effTy f = U := by simp [effTy, h]

/-- **`as = "U"` on a named field yields exactly the binding the field would have if its Rust type
were `U`**: the whole field list is formatted identically (names, optional markers, inline/flatten
handling, docs), for every struct, every attribute combination and every other field. -/
theorem C14_as_named_field (cfg : Cfg) (env : Env) (fuel : Nat) (σ : List (Str × RTy)) (attr : SAttr)
    (pre post : List Field) (f : Field) (U : RTy) (h : f.attr.typeAs = some U) :
    formatFields cfg env fuel σ attr (pre ++ f :: post) = formatFields cfg env fuel σ attr (pre ++ retype f U :: post) := by
  induction pre generalizing fuel with
  | nil =>
    cases fuel with
    | zero => rfl
    | succ n => simp only [List.nil_append, formatFields, effTy_retype, effTy_as f U h]; rfl
  | cons p ps ih =>
    cases fuel with
    | zero => rfl
    | succ n => simp only [List.cons_append, formatFields]; rw [ih n]

/-- the same for the single field of a newtype struct / variant -/
theorem C14_as_newtype (cfg : Cfg) (env : Env) (fuel : Nat) (σ : List (Str × RTy)) (f : Field) (U : RTy)
    (h : f.attr.typeAs = some U) :
    newtypeDef cfg env fuel σ f = newtypeDef cfg env fuel σ (retype f U) := by
  cases fuel with
  | zero => rfl
  | succ n => simp only [newtypeDef, effTy_retype, effTy_as f U h]; rfl

/-- … and for a field of a tuple struct / variant -/
theorem C14_as_tuple_field (cfg : Cfg) (env : Env) (fuel : Nat) (σ : List (Str × RTy))
    (pre post : List Field) (f : Field) (U : RTy) (h : f.attr.typeAs = some U) :
    tupleFields cfg env fuel σ (pre ++ f :: post) = tupleFields cfg env fuel σ (pre ++ retype f U :: post) := by
  induction pre generalizing fuel with
  | nil =>
    cases fuel with
    | zero => rfl
    | succ n => simp only [List.nil_append, tupleFields, effTy_retype, effTy_as f U h]; rfl
  | cons p ps ih =>
    cases fuel with
    | zero => rfl
    | succ n => simp only [List.cons_append, tupleFields]; rw [ih n]

/-- **container-level `as = "U"`**: the item's inline form is `U`'s inline form (at the arguments) -/
theorem C14_as_container (cfg : Cfg) (env : Env) (fuel : Nat) (σ : List (Str × RTy)) (attr : SAttr) (name : Str)
    (shape : Shape) (fields : List Field) (U : RTy) (hover : attr.typeOverride = none) (h : attr.typeAs = some U) :
    typeDef cfg env (fuel + 1) σ attr name shape fields
      = (inlineS cfg env fuel (RTy.subst σ U)).bind fun s => .ok (s, none) := by
  simp [typeDef, hover, h, bind, Res.bind, pure]

/-- **the inline form of a type is the body of its own declaration instantiated at its arguments**:
`inline()` and `decl_concrete()` of `N<args>` are computed from the same `itemDef` at the same
substitution -/
theorem C14_inline_is_body (cfg : Cfg) (env : Env) (fuel : Nat) (id : Str) (args : List RTy) (it : Item) (d : TDef)
    (hit : env.find id = some it) (hd : itemDef cfg env fuel it (bindArgs it args) = .ok d) :
    inlineS cfg env (fuel + 1) (.named id args) = .ok d.1 ∧
    declConcreteS cfg env fuel it args = .ok ("type ".toList ++ tsName it ++ " = ".toList ++ d.1 ++ ";".toList) := by
  constructor
  · simp [inlineS, hit, hd, bind, Res.bind, pure]
  · simp [declConcreteS, hd, bind, Res.bind, pure]

/-- an inlined field prints the field type's `inline()`, a plain field its `name()`: the ONLY
difference between the two presentations of a named field -/
theorem C14_inline_vs_name (cfg : Cfg) (env : Env) (fuel : Nat) (σ : List (Str × RTy)) (attr : SAttr) (f : Field)
    (hs : f.attr.skip = false) (ho : f.attr.typeOverride = none) (hf : f.attr.flatten = false)
    (hopt : f.attr.optional = .no) (hso : attr.optionalFields = .no) (s : Str)
    (hty : (if f.attr.inline then inlineS cfg env (fuel + 1) (RTy.subst σ (effTy f))
            else nameS env (RTy.subst σ (effTy f))) = .ok s) :
    formatFields cfg env (fuel + 2) σ attr [f]
      = .ok ([fieldDocs f.attr.docs ++ fieldTsName cfg attr.renameAll f ++ ": ".toList ++ s ++ ",".toList], []) := by
  simp only [formatFields, hs, ho, hf, hopt, hso, bind, Res.bind, pure, Bool.false_eq_true, if_false]
  cases hi : f.attr.inline
  · simp only [hi, Bool.false_eq_true, if_false] at hty ⊢
    simp [hty]
  · simp only [hi, if_true] at hty ⊢
    simp [hty]

/-! ## what the presentations MEAN -/
open Ts in
/-- **inline never changes meaning**: a reference `Name<args>` and the body of the declaration unfolded at those
arguments (what `#[ts(inline)]` prints) denote the same set of JSON values, for every declaration environment -/
theorem C14_inline_same_values (D : Decls) (n : Str) (args : List Ts) (ps : List Str) (body : Ts) (j : JVal)
    (hl : lookupDecl D n = some (ps, body)) :
    Member D (.ref n args) j ↔ Member D (subst (ps.zip args) body) j := member_ref_iff D n args ps body j hl

open Ts in
/-- … also when the inlined type stands below `Vec` (`Array<..>`) or `Option` (`.. | null`) -/
theorem C14_inline_below_containers (D : Decls) (t t' : Ts) (h : ∀ j, Member D t j ↔ Member D t' j) (j : JVal) :
    (Member D (.array t) j ↔ Member D (.array t') j) ∧ (Member D (.union [t, .null]) j ↔ Member D (.union [t', .null]) j) :=
  ⟨member_array_congr D t t' h j, member_union_null_congr D t t' h j⟩

open Ts in
/-- **flatten never changes meaning**: merging the properties of the flattened object type into the parent's literal
(what ts-rs prints for `#[serde(flatten)]` on a struct) denotes exactly the intersection `{ parent } & { flattened }`,
whenever the two have no property name in common (JSON objects with distinct keys) -/
theorem C14_flatten_is_merge (D : Decls) (A B : List (TsKey × Ts)) (kvs : List (Str × JVal))
    (hdisj : ∀ k, k ∈ namesOf A → k ∉ namesOf B) (hnd : (kvs.map (·.1)).Nodup) :
    Member D (.inter [.obj A, .obj B]) (.obj kvs) ↔ Member D (.obj (A ++ B)) (.obj kvs) := inter_objs_iff D A B kvs hdisj hnd

open Ts in
/-- **inline changes presentation, never meaning — for whole sets of declarations**: let `D'` be obtained from `D` by unfolding
references inside the declaration bodies — any number of them, at any depth (inside arrays, tuples, objects, maps, unions,
intersections, below other unfolded references), parenthesised or not, a union reached by unfolding an arm of a union spliced
into it: everything `#[ts(inline)]` does. Then every type `t` under `D` and each of its unfoldings `t'` under `D'` have exactly
the same JSON values. `WSD D`: every declaration mentions only its own type parameters (C07). -/
theorem C14_unfolding_same_values (D D' : Decls) (hw : WSD D) (hd : DeclsUnf D D') (t t' : Ts) (u : Unf D t t') (j : JVal) :
    Member D t j ↔ Member D' t' j := unfold_same_values hw hd u j

open Ts in
/-- … in the form the check uses: when the executable test accepts the pair (declarations of the program without its `inline`
marks, parsed REAL declarations of the program with them), every reference has the same values under both -/
theorem C14_checked_unfolding (D D' : Decls) (fuel : Nat) (hw : wsdB D = true) (h : declsUnfB D fuel D D' = true)
    (n : Str) (args : List Ts) (j : JVal) : Member D (.ref n args) j ↔ Member D' (.ref n args) j :=
  unfold_same_values (wsdB_sound D hw) (declsUnfB_sound D D' fuel h) (unf_refl D _) j

/-! non-vacuity: a generic declaration inlined below an array inside another declaration, and an enum inlined into `.. | null` -/
def exD : Decls := [("L".toList, [], .obj [({ name := "x".toList }, .number)]),
  ("G".toList, ["T".toList], .obj [({ name := "t".toList }, .param "T".toList), ({ name := "l".toList }, .ref "L".toList [])]),
  ("E".toList, [], .union [.lit "a".toList, .lit "b".toList]),
  ("S".toList, [], .obj [({ name := "gs".toList }, .array (.ref "G".toList [.string])), ({ name := "e".toList }, .union [.ref "E".toList [], .null])])]
def exD' : Decls := [("L".toList, [], .obj [({ name := "x".toList }, .number)]),
  ("G".toList, ["T".toList], .obj [({ name := "t".toList }, .param "T".toList), ({ name := "l".toList }, .obj [({ name := "x".toList }, .number)])]),
  ("E".toList, [], .union [.lit "a".toList, .lit "b".toList]),
  ("S".toList, [], .obj [({ name := "gs".toList }, .array (.obj [({ name := "t".toList }, .string), ({ name := "l".toList }, .ref "L".toList [])])),
                         ({ name := "e".toList }, .union [.lit "a".toList, .lit "b".toList, .null])])]
example : wsdB exD = true ∧ declsUnfB exD 12 exD exD' = true := by decide +kernel

end TsRs
