import TsRsVerif.Model.Deps
namespace TsRs
theorem C14_placeholder : True := trivial
end TsRs
