import TsRsVerif.Model.Attr
/-!
# C10 — serde and ts attribute spellings are equivalent; ts wins; unknown serde is inert

Token-level model of `impl_parse!` (both arms), `skip_until_next_comma`, `merge` and `from_attrs`,
driven by the key tables REGENERATED from the eight `impl_parse!` blocks. The specification of
"supported serde attribute" (position × key) is the hand-written list `spec` below — deliberately
not derived from the code.
-/
namespace TsRs
open Text Attr

/-- supported serde attributes per position (from the crate documentation) -/
def spec : List (Pos × String) :=
  [(.struct, "rename"), (.struct, "rename_all"), (.struct, "tag"),
   (.enum, "rename"), (.enum, "rename_all"), (.enum, "rename_all_fields"), (.enum, "tag"), (.enum, "content"), (.enum, "untagged"),
   (.variant, "rename"), (.variant, "rename_all"), (.variant, "skip"), (.variant, "untagged"),
   (.field, "rename"), (.field, "skip"), (.field, "flatten")]

/-- **both spellings are wired identically**: for every supported (position, key) the `ts` table and
the `serde` table contain the key and map it to the same target field, value parser and wrapper.
A proof over the complete finite tables, re-checked against the regenerated tables on every run
(deleting or retargeting a key in any `impl_parse!` block breaks it). -/
theorem C10_tables : spec.all (fun pk =>
    (lookupKey (tsKeys pk.1) pk.2).isSome && lookupKey (tsKeys pk.1) pk.2 == lookupKey (serdeKeys pk.1) pk.2) = true := by
  decide +kernel

theorem skip_no_comma (body rest : List Tok) (h : ∀ t ∈ body, isComma t = false) :
    skipUntilNextComma (body ++ Tok.punct ',' :: rest) = Tok.punct ',' :: rest := by
  induction body with
  | nil => simp [skipUntilNextComma, isComma]
  | cons t ts ih =>
    have ht : isComma t = false := h t (by simp)
    simp only [List.cons_append, skipUntilNextComma, ht, Bool.false_eq_true, if_false]
    exact ih (fun x hx => h x (by simp [hx]))

theorem skip_to_end (body : List Tok) (h : ∀ t ∈ body, isComma t = false) : skipUntilNextComma body = [] := by
  induction body with
  | nil => rfl
  | cons t ts ih =>
    have ht : isComma t = false := h t (by simp)
    simp only [skipUntilNextComma, ht, Bool.false_eq_true, if_false]
    exact ih (fun x hx => h x (by simp [hx]))

/-- **an unsupported serde entry is inert, in any position of the list**: a key the table does not
know, followed by ANY tokens up to the next top-level comma, is skipped and parsing continues with
the rest of the list exactly as if the entry were not there -/
theorem C10_inert_unknown (tbl : List (String × String × String × String)) (n : Nat) (acc : Parsed)
    (k : String) (body rest : List Tok) (hk : lookupKey tbl k = none) (hb : ∀ t ∈ body, isComma t = false) (hr : rest ≠ []) :
    parseLoop tbl true (n + 1) acc (Tok.ident k :: (body ++ Tok.punct ',' :: rest)) = parseLoop tbl true n acc rest := by
  cases rest with
  | nil => exact absurd rfl hr
  | cons r0 rs => simp [parseLoop, hk, skip_no_comma body (r0 :: rs) hb, isComma]

/-- … also as the last entry of the list -/
theorem C10_inert_unknown_last (tbl : List (String × String × String × String)) (n : Nat) (acc : Parsed)
    (k : String) (body : List Tok) (hk : lookupKey tbl k = none) (hb : ∀ t ∈ body, isComma t = false) :
    parseLoop tbl true (n + 1) acc (Tok.ident k :: body) = .ok acc := by
  simp [parseLoop, hk, skip_to_end body hb]

/-- **a supported key in a form that cannot be parsed is inert too** (e.g. `rename(serialize = ..)`,
`bound(..)`): it is skipped like an unknown one instead of discarding the list -/
theorem C10_inert_unparseable (tbl : List (String × String × String × String)) (n : Nat) (acc : Parsed)
    (k : String) (x : String × String × String) (body rest : List Tok) (hk : lookupKey tbl k = some x)
    (hv : parseValue x.2.1 (body ++ Tok.punct ',' :: rest) = none) (hb : ∀ t ∈ body, isComma t = false) (hr : rest ≠ []) :
    parseLoop tbl true (n + 1) acc (Tok.ident k :: (body ++ Tok.punct ',' :: rest)) = parseLoop tbl true n acc rest := by
  obtain ⟨target, parser, w⟩ := x
  cases rest with
  | nil => exact absurd rfl hr
  | cons r0 rs => simp [parseLoop, hk, hv, skip_no_comma body (r0 :: rs) hb, isComma]

/-- **a trailing comma is fine**: an unknown last entry followed by `,` ends the list as well -/
theorem C10_trailing_comma (tbl : List (String × String × String × String)) (n : Nat) (acc : Parsed)
    (k : String) (body : List Tok) (hk : lookupKey tbl k = none) (hb : ∀ t ∈ body, isComma t = false) :
    parseLoop tbl true (n + 1) acc (Tok.ident k :: (body ++ [Tok.punct ','])) = .ok acc := by
  have := skip_no_comma body [] hb
  simp [parseLoop, hk, this, isComma]

/-- **with serde compatibility off, serde attributes have no effect at all** -/
theorem C10_compat_off (pos : Pos) (ts serde serde' : List (List Tok)) :
    fromAttrs false pos ts serde = fromAttrs false pos ts serde' := by
  simp [fromAttrs]

/-- **ts wins**: for every `Option`-valued attribute the merged value is the `ts` one whenever the
`ts` lists set it, whatever the serde lists say -/
theorem C10_ts_wins (p q : Parsed) (k v : String) (hk : mergeKind k = .firstWins)
    (hp : (p.find? (·.1 = k)).map (·.2) = some v) :
    ((merge p q).find? (·.1 = k)).map (·.2) = some v := by
  unfold merge
  simp only
  have hmem : k ∈ (p.map (·.1) ++ q.map (·.1)).eraseDups := by
    rw [List.mem_eraseDups]
    cases hf : p.find? (·.1 = k) with
    | none => simp [hf] at hp
    | some e =>
      have := List.find?_some hf
      have hm := List.mem_of_find?_eq_some hf
      simp only [List.mem_append, List.mem_map]
      left; exact ⟨e, hm, by simpa using this⟩
  generalize (p.map (·.1) ++ q.map (·.1)).eraseDups = keys at hmem
  induction keys with
  | nil => simp at hmem
  | cons k' ks ih =>
    simp only [List.filterMap_cons]
    by_cases hkk : k' = k
    · subst hkk
      simp only [hp]
      cases (q.find? (·.1 = k')).map (·.2) with
      | none => simp
      | some y => simp [hk]
    · have hmem' : k ∈ ks := by
        rcases List.mem_cons.mp hmem with h | h
        · exact absurd h.symm hkk
        · exact h
      split
      · exact ih hmem'
      · rename_i kv hkv
        -- the emitted pair has key k' ≠ k
        have hkey : kv.1 = k' := by
          revert hkv
          cases (p.find? (·.1 = k')).map (·.2) <;> cases (q.find? (·.1 = k')).map (·.2) <;> simp
          · intro h; rw [← h]
          · intro h; rw [← h]
          · rename_i x y
            cases mergeKind k' <;> simp <;> intro h <;> rw [← h]
        simp only [List.find?_cons]
        have : (kv.1 = k) = False := by simp [hkey, hkk]
        simp only [this, decide_false]
        exact ih hmem'

/-! ## the defects of the pinned snapshot (fixed by three `fix:` commits), as counter-examples -/

/-- old `skip_until_next_comma`: a bare unknown key followed by `,` swallowed the next entry -/
theorem C10_old_cex_bare_key_swallows :
    (skipUntilNextCommaOld [Tok.punct ',', Tok.ident "tag", Tok.punct '=', Tok.strLit "t"]).length = 0 ∧
    (skipUntilNextComma [Tok.punct ',', Tok.ident "tag", Tok.punct '=', Tok.strLit "t"]).length = 4 := by decide

/-! ## non-vacuity: a whole list through the model -/
example : (match parseList (serdeKeys .enum) true
      [Tok.ident "deny_unknown_fields", Tok.punct ',', Tok.ident "rename", Tok.group [Tok.ident "serialize", Tok.punct '=', Tok.strLit "a"],
       Tok.punct ',', Tok.ident "tag", Tok.punct '=', Tok.strLit "t", Tok.punct ',', Tok.ident "skip_serializing_if", Tok.punct '=', Tok.strLit "x"] with
    | .ok p => p == [("tag", "t")]
    | .error _ => false) = true := by decide +kernel

end TsRs
