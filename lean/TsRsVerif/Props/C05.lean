import TsRsVerif.Model.Export
import TsRsVerif.Lemmas.MergeLemmas
/-!
# C05 — several types in one file: order-independent, idempotent, lossless merge

`Merge.merge` is `render ∘ (import map + insertion loop) ∘ parse`, as the Rust function is.
The theorems below are about the middle part — the very functions `merge` is composed of
(`insertLoop`, `insertByName`) — and about `exportAndMerge` over the file-system/registry model.
What is NOT proven in Lean (stated partial, checked on every case of every run by the driver, see
DESIGN.md): the parse/render round trip `parse (render file) = file` for `WFBlock` texts, and the
commutation of the import map (`addLine`); both are exercised by the history stream, whose oracle
compares the real file with `canonFile` for every order.
-/
namespace TsRs
open Text Merge Export

/-- **the Rust insertion loop is insertion into the name-sorted list** (any list, any texts):
the loop of export.rs:259-290 run with `inserted = false` yields exactly the declarations of
`insertByName`, provided the new name is not yet in the file (the registry guarantees that). -/
theorem C05_loop_is_sorted_insert (n d : Str) (ds : List (Str × Str)) (hn : ∀ x ∈ ds, x.1 ≠ n) :
    insertLoop n d false ds = (insertByName n d ds).map (·.2) := by
  induction ds with
  | nil => simp [insertLoop, insertByName]
  | cons x xs ih =>
    obtain ⟨m, e⟩ := x
    have hm : m ≠ n := hn (m, e) (by simp)
    have ih' := ih (fun y hy => hn y (by simp [hy]))
    simp only [insertLoop, insertByName, Bool.false_or]
    by_cases hlt : ltStr m n = true
    · have h2 : ltStr n m = false := ltStr_asymm hlt
      have h3 : ¬ n = m := fun h => hm h.symm
      simp [hlt, h2, h3, ih']
    · have h2 : ltStr n m = true := by
        rcases ltStr_total hm with h | h
        · exact absurd h hlt
        · exact h
      simp [hlt, h2, insertLoop_true]

/-- **order independence**: exporting the same set of (distinctly named) declarations in ANY two
orders yields the same list of blocks — for every number of types and every text. -/
theorem C05_order_independent (g₁ g₂ : List (Str × Str)) (hp : g₁.Perm g₂)
    (hnd : (g₁.map (·.1)).Nodup) : insertAll g₁ = insertAll g₂ := by
  have hnd₂ : (g₂.map (·.1)).Nodup := (hp.map _).nodup_iff.mp hnd
  have s₁ := foldl_insert_sorted g₁ [] (by simp [SortedN])
  have s₂ := foldl_insert_sorted g₂ [] (by simp [SortedN])
  have p₁ := foldl_insert_perm g₁ [] hnd (by simp)
  have p₂ := foldl_insert_perm g₂ [] hnd₂ (by simp)
  refine sorted_perm_eq s₁ s₂ ?_
  simp only [List.append_nil] at p₁ p₂
  exact p₁.trans ((List.reverse_perm _).trans (hp.trans ((List.reverse_perm _).symm.trans p₂.symm)))

/-- **lossless, exactly once, in name order**: the block list is a permutation of the exported
declarations (every one intact, none twice, none lost) and is strictly sorted by name. -/
theorem C05_lossless_sorted (g : List (Str × Str)) (hnd : (g.map (·.1)).Nodup) :
    (insertAll g).Perm g ∧ SortedN (insertAll g) := by
  refine ⟨?_, foldl_insert_sorted g [] (by simp [SortedN])⟩
  have := foldl_insert_perm g [] hnd (by simp)
  simp only [List.append_nil] at this
  exact this.trans (List.reverse_perm _)

/-- **idempotence**: exporting a type whose name the registry already lists for that path changes
neither the file system nor the registry, whatever the text and the world. -/
theorem C05_idempotent (w : World) (path name text : Str) (names : List Str)
    (hp : w.poisoned = false) (hreg : regGet w.reg (regKey path) = some names) (hin : name ∈ names) :
    exportAndMerge w path name text = (w, .ok) := by
  simp [exportAndMerge, hp, hreg, hin]

/-- **first touch truncates**: for a path this process has not written yet, the file afterwards is
exactly the generated text — stale content of a previous run cannot leak. -/
theorem C05_first_touch (w : World) (path name text : Str) (fs' : Fs)
    (hp : w.poisoned = false) (hreg : regGet w.reg (regKey path) = none)
    (hc : w.fs.fileCreate path text = some fs') :
    exportAndMerge w path name text =
      ({ w with fs := fs', reg := regInsert w.reg (regKey path) name }, .ok) := by
  simp [exportAndMerge, hp, hreg, hc]

/-- a failing step leaves the world untouched (used by C17 as well) -/
theorem C05_error_untouched (w w' : World) (path name text : Str) (e : ExportErr)
    (h : exportAndMerge w path name text = (w', .err e)) : w' = w := by
  unfold exportAndMerge at h
  cases hp : w.poisoned with
  | true => simp [hp] at h
  | false =>
    simp only [hp] at h
    cases hr : regGet w.reg (regKey path) with
    | none =>
      simp only [hr] at h
      cases hc : w.fs.fileCreate path text with
      | none => simp [hc] at h; exact h.1.symm
      | some fs' => simp [hc] at h
    | some names =>
      simp only [hr] at h
      by_cases hin : name ∈ names
      · simp [hin] at h
      · simp only [hin] at h
        cases ho : w.fs.openRead path with
        | none => simp [ho] at h; exact h.1.symm
        | some lo =>
          obtain ⟨loc, orig⟩ := lo
          simp only [ho] at h
          cases hm : Merge.merge orig text with
          | ok buf => simp [hm] at h
          | panic why => simp [hm] at h

/-! ## non-vacuity -/
example : insertAll [("B".toList, "export type B = 1;".toList), ("A".toList, "export type A = 2;".toList),
      ("Ab".toList, "x".toList)]
    = [("A".toList, "export type A = 2;".toList), ("Ab".toList, "x".toList), ("B".toList, "export type B = 1;".toList)] := by
  decide +kernel

/-- the whole string-level `merge` on a concrete pair: imports united and sorted, block inserted in name order -/
example : merge
    (NOTE ++ "import type { Dep } from \"./Dep\";\n\nexport type B = Dep;\n".toList)
    (NOTE ++ "import type { Other, Dep } from \"./Dep\";\n\n/**\n * doc\n */\nexport type A = Other;\n".toList)
    = .ok ("import type { Dep, Other } from \"./Dep\";\n\n/**\n * doc\n */\nexport type A = Other;\n\nexport type B = Dep;\n".toList) := by
  decide +kernel

/-! ## why `WFBlock` is needed: counter-examples of the unchanged tree (known findings) -/

/-- a blank line inside a block splits it: the merged body has THREE declarations for two types -/
theorem C05_cex_blank_line :
    merge (NOTE ++ "\n/** a\n\n b */\nexport type M = 1;\n".toList) (NOTE ++ "\nexport type Z = 2;\n".toList)
      = .ok ("\n/** a\n\n b */\nexport type M = 1;\n\nexport type Z = 2;\n".toList) ∧
    merge (NOTE ++ "\n/** a\n\n b */\nexport type M = 1;\n".toList) (NOTE ++ "\nexport type A = 2;\n".toList)
      = .ok ("\n/** a\n\nexport type A = 2;\n\n b */\nexport type M = 1;\n".toList) := by
  decide +kernel

/-- `export type` inside a field doc: the name of the block is mis-read (`Zzz` instead of `B`) -/
theorem C05_cex_name_misread :
    declName "export type B = { \n/**\n * like export type Zzz = 1\n */\na: number, };".toList = some "Zzz".toList := by
  decide +kernel

end TsRs
