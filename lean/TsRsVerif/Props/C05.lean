import TsRsVerif.Model.Export
import TsRsVerif.Lemmas.MergeLemmas
import TsRsVerif.Lemmas.MergeText
import TsRsVerif.Lemmas.ImportLine
import TsRsVerif.Lemmas.HistoryWorld
/-!
# C05 — several types in one file: order-independent, idempotent, lossless merge

`Merge.merge` is `render ∘ (import map + insertion loop) ∘ parse`, as the Rust function is.
The theorems below are about the middle part — the very functions `merge` is composed of
(`insertLoop`, `insertByName`) — and about `exportAndMerge` over the file-system/registry model.
`C05_merge_text` is the bridge from the TEXT of the file to the blocks: for a file whose header has no blank line
and whose declaration blocks are well-formed (`BlockOK`: no blank line inside, no line break at the ends, the name is
read back from the text), `merge(file, new)` is the import block followed by the blocks with the new one inserted in
name order; `C05_merge_text_full` discharges the parsing of the header as well (`parse_render_line`: an import line is
read back, for any path and any list of names). `C05_history_canonical` closes the loop over whole histories (refinement to the abstract content `canonSt`): any sequence
of exports of well-formed texts with distinct names into one path of a process that has not written it yet succeeds step
by step and leaves exactly `fileText (canonSt exports)` there — the seek-and-write without truncation leaves nothing of
the old file behind because import block and declaration list only grow (`Lemmas/ByteLen.lean`) — and `canonSt` does not
depend on the order (`C05_canon_order_independent`: the import map is a function of the SET of import lines,
`Lemmas/ImportsCanon.lean`). `C05_oracle_is_canonical`: the `canonFile` oracle the check computes from the real generated
texts is that same text. The two open findings of C05 are exactly
the two ways to violate `BlockOK`; proving `parse_render_line` exposed a third defect (a type called `from`, fixed in
cc8d787).
-/
namespace TsRs
open Text Merge Export

/-- **the Rust insertion loop is insertion into the name-sorted list** (any list, any texts):
the loop of export.rs:259-290 run with `inserted = false` yields exactly the declarations of
`insertByName`, provided the new name is not yet in the file (the registry guarantees that). -/
theorem C05_loop_is_sorted_insert (n d : Str) (ds : List (Str × Str)) (hn : ∀ x ∈ ds, x.1 ≠ n) :
    insertLoop n d false ds = (insertByName n d ds).map (·.2) :=
  loop_is_sorted_insert n d ds hn

/-- **the text-level merge is sorted insertion into the blocks of the file** (any number of blocks, any texts) -/
theorem C05_merge_text (hdrO hdrN : Str) (blocks : List (Str × Str)) (n d : Str) (parsed : List (Str × List Str))
    (hO : hasNN hdrO = false ∧ endsNl hdrO = false) (hN : hasNN hdrN = false ∧ endsNl hdrN = false)
    (hne : blocks ≠ []) (hb : ∀ b ∈ blocks, BlockOK b.1 b.2) (hnew : BlockOK n d) (hfresh : ∀ x ∈ blocks, x.1 ≠ n)
    (himp : ((lines hdrO).drop 1 ++ (lines hdrN).drop 1).mapM parseImportLine = some parsed) :
    merge (hdrO ++ '\n' :: '\n' :: declsText (blocks.map (·.2))) (hdrN ++ '\n' :: '\n' :: (d ++ ['\n']))
      = .ok (renderImports (parsed.foldl addLine []) ++ renderDecls ((insertByName n d blocks).map (·.2))) := by
  rw [merge_text hdrO hdrN blocks n d parsed hO hN hne hb hnew himp, C05_loop_is_sorted_insert n d blocks hfresh]

/-- **the whole text-level merge**, with nothing assumed about parsing: a file made of the notice line, import lines
(one per specifier: any path not starting / ending with a quote, any non-empty list of names without `{`, `}`, `,`) and
well-formed blocks, merged with a generated text of the same make, is the union of the import maps followed by the blocks
with the new one inserted in name order. -/
theorem C05_merge_text_full (note : Str) (impO impN : List (Str × List Str)) (blocks : List (Str × Str)) (n d : Str)
    (hnote : LineOK note)
    (hO : ∀ x ∈ impO, PathOK x.1 ∧ x.2 ≠ [] ∧ ∀ t ∈ x.2, NameOK t) (hN : ∀ x ∈ impN, PathOK x.1 ∧ x.2 ≠ [] ∧ ∀ t ∈ x.2, NameOK t)
    (hlO : ∀ x ∈ impO, LineOK (renderLine x.1 x.2)) (hlN : ∀ x ∈ impN, LineOK (renderLine x.1 x.2))
    (hne : blocks ≠ []) (hb : ∀ b ∈ blocks, BlockOK b.1 b.2) (hnew : BlockOK n d) (hfresh : ∀ x ∈ blocks, x.1 ≠ n) :
    merge (header note (impO.map fun x => renderLine x.1 x.2) ++ '\n' :: '\n' :: declsText (blocks.map (·.2)))
          (header note (impN.map fun x => renderLine x.1 x.2) ++ '\n' :: '\n' :: (d ++ ['\n']))
      = .ok (renderImports ((impO ++ impN).foldl addLine []) ++ renderDecls ((insertByName n d blocks).map (·.2))) :=
  merge_text_full note impO impN blocks n d hnote hO hN hlO hlN hne hb hnew hfresh

/-- … and the merged text has again the shape the theorem asks of its input (so it applies to every later merge) -/
theorem C05_merged_shape (ds : List Str) : renderDecls ds = (ds.map fun d => ['\n'] ++ d ++ ['\n']).flatten := rfl

/-- **order independence**: exporting the same set of (distinctly named) declarations in ANY two
orders yields the same list of blocks — for every number of types and every text. -/
theorem C05_order_independent (g₁ g₂ : List (Str × Str)) (hp : g₁.Perm g₂)
    (hnd : (g₁.map (·.1)).Nodup) : insertAll g₁ = insertAll g₂ := by
  have hnd₂ : (g₂.map (·.1)).Nodup := (hp.map _).nodup_iff.mp hnd
  have s₁ := foldl_insert_sorted g₁ [] (by simp [SortedN])
  have s₂ := foldl_insert_sorted g₂ [] (by simp [SortedN])
  have p₁ := foldl_insert_perm g₁ [] hnd (by simp)
  have p₂ := foldl_insert_perm g₂ [] hnd₂ (by simp)
  refine sorted_perm_eq s₁ s₂ ?_
  simp only [List.append_nil] at p₁ p₂
  exact p₁.trans ((List.reverse_perm _).trans (hp.trans ((List.reverse_perm _).symm.trans p₂.symm)))

/-- **lossless, exactly once, in name order**: the block list is a permutation of the exported
declarations (every one intact, none twice, none lost) and is strictly sorted by name. -/
theorem C05_lossless_sorted (g : List (Str × Str)) (hnd : (g.map (·.1)).Nodup) :
    (insertAll g).Perm g ∧ SortedN (insertAll g) := by
  refine ⟨?_, foldl_insert_sorted g [] (by simp [SortedN])⟩
  have := foldl_insert_perm g [] hnd (by simp)
  simp only [List.append_nil] at this
  exact this.trans (List.reverse_perm _)

/-- **idempotence**: exporting a type whose name the registry already lists for that path changes
neither the file system nor the registry, whatever the text and the world. -/
theorem C05_idempotent (w : World) (path name text : Str) (names : List Str)
    (hp : w.poisoned = false) (hreg : regGet w.reg (regKey path) = some names) (hin : name ∈ names) :
    exportAndMerge w path name text = (w, .ok) := by
  simp [exportAndMerge, hp, hreg, hin]

/-- **first touch truncates**: for a path this process has not written yet, the file afterwards is
exactly the generated text — stale content of a previous run cannot leak. -/
theorem C05_first_touch (w : World) (path name text : Str) (fs' : Fs)
    (hp : w.poisoned = false) (hreg : regGet w.reg (regKey path) = none)
    (hc : w.fs.fileCreate path text = some fs') :
    exportAndMerge w path name text =
      ({ w with fs := fs', reg := regInsert w.reg (regKey path) name }, .ok) := by
  simp [exportAndMerge, hp, hreg, hc]

/-- a failing step leaves the world untouched (used by C17 as well) -/
theorem C05_error_untouched (w w' : World) (path name text : Str) (e : ExportErr)
    (h : exportAndMerge w path name text = (w', .err e)) : w' = w := by
  unfold exportAndMerge at h
  cases hp : w.poisoned with
  | true => simp [hp] at h
  | false =>
    simp only [hp] at h
    cases hr : regGet w.reg (regKey path) with
    | none =>
      simp only [hr] at h
      cases hc : w.fs.fileCreate path text with
      | none => simp [hc] at h; exact h.1.symm
      | some fs' => simp [hc] at h
    | some names =>
      simp only [hr] at h
      by_cases hin : name ∈ names
      · simp [hin] at h
      · simp only [hin] at h
        cases ho : w.fs.openRead path with
        | none => simp [ho] at h; exact h.1.symm
        | some lo =>
          obtain ⟨loc, orig⟩ := lo
          simp only [ho] at h
          cases hm : Merge.merge orig text with
          | ok buf => simp [hm] at h
          | panic why => simp [hm] at h

/-! ## non-vacuity -/
example : insertAll [("B".toList, "export type B = 1;".toList), ("A".toList, "export type A = 2;".toList),
      ("Ab".toList, "x".toList)]
    = [("A".toList, "export type A = 2;".toList), ("Ab".toList, "x".toList), ("B".toList, "export type B = 1;".toList)] := by
  decide +kernel

/-- the whole string-level `merge` on a concrete pair: imports united and sorted, block inserted in name order -/
example : merge
    (NOTE ++ "import type { Dep } from \"./Dep\";\n\nexport type B = Dep;\n".toList)
    (NOTE ++ "import type { Other, Dep } from \"./Dep\";\n\n/**\n * doc\n */\nexport type A = Other;\n".toList)
    = .ok ("import type { Dep, Other } from \"./Dep\";\n\n/**\n * doc\n */\nexport type A = Other;\n\nexport type B = Dep;\n".toList) := by
  decide +kernel

/-! ## why `WFBlock` is needed: counter-examples of the unchanged tree (known findings) -/

/-- **refinement to the abstract content, for whole histories** (any number of exports, any well-formed texts): in a
process that has not written `path` yet, exporting `g :: gs` (distinct identifiers, distinct declared names — a generic type's
declared name is `Name<T, ..>`, its identifier `Name`) one after the other returns `Ok` every time
and ends with: the file system is the initial one with exactly `fileText (canonSt (g :: gs))` at the file's location
(nothing else touched, nothing of intermediate contents left behind), the registry lists exactly the exported names, the
lock is not poisoned. -/
theorem C05_history_canonical (w : World) (path : Str) (g : GenT) (gs : List GenT)
    (hok : ∀ x ∈ g :: gs, GenOK x) (hnd : ((g :: gs).map (·.name)).Nodup) (hndI : ((g :: gs).map (·.ident)).Nodup)
    (hp : w.poisoned = false) (hreg : regGet w.reg (regKey path) = none)
    (hc : (w.fs.fileCreate path (genText g)).isSome) :
    ∃ w' loc, runAll path w (g :: gs) = (w', true) ∧ w'.poisoned = false ∧ w.fs.resolve path = some loc ∧
      w'.fs = w.fs.set loc (.file (fileText (canonSt (g :: gs)))) ∧
      ∃ names, regGet w'.reg (regKey path) = some names ∧ ∀ n, n ∈ names ↔ n ∈ (g :: gs).map (·.ident) := by
  obtain ⟨w', loc, hr, h1, _, h3, _, h5, h6⟩ := history_canonical w path g gs hok hnd hndI hp hreg hc
  exact ⟨w', loc, hr, h1, h3, h5, h6⟩

/-- **lossless**: the canonical content holds the block of every export, each exactly once, in name order -/
theorem C05_canon_lossless (gens : List GenT) (hnd : (gens.map (·.name)).Nodup) :
    ((canonSt gens).blocks).Perm (gens.map fun g => (g.name, g.decl)) ∧ SortedN (canonSt gens).blocks := by
  have e : (canonSt gens).blocks = insertAll (gens.map fun g => (g.name, g.decl)) := by
    simp only [canonSt, insertAll, List.foldl_map]
  rw [e]
  have hnd' : ((gens.map fun g => (g.name, g.decl)).map (·.1)).Nodup := by rw [List.map_map]; exact hnd
  refine ⟨?_, foldl_insert_sorted _ [] (by simp [SortedN])⟩
  have := foldl_insert_perm (gens.map fun g => (g.name, g.decl)) [] hnd' (by simp)
  simp only [List.append_nil] at this
  exact this.trans (List.reverse_perm _)

/-- **order independence of the abstract content** — import map AND blocks, for every permutation of the exports -/
theorem C05_canon_order_independent (g₁ g₂ : List GenT) (hp : g₁.Perm g₂) (hnd : (g₁.map (·.name)).Nodup) :
    canonSt g₁ = canonSt g₂ := canonSt_perm g₁ g₂ hp hnd

/-- the import map is a function of the SET of import lines: invariant under permutation, and re-reading an already
merged block changes nothing -/
theorem C05_imports_perm (ls₁ ls₂ : List (Str × List Str)) (h : ls₁.Perm ls₂) :
    ls₁.foldl addLine [] = ls₂.foldl addLine [] := foldl_addLine_perm h

/-- **the oracle is the theorem's canonical file**: what the check computes from the real generated texts
(`canonFile`, compared with the real file after every history) is `fileText (canonSt ..)` -/
theorem C05_oracle_is_canonical (gens : List GenT) (hne : gens ≠ []) (hok : ∀ x ∈ gens, GenOK x) :
    canonFile (gens.map fun g => (g.name, genText g)) = some (fileText (canonSt gens)) := canonFile_eq gens hne hok

/-- seek-and-write leaves nothing behind: the merged text is never shorter than what it overwrites -/
theorem C05_write_leaves_nothing (s : FileSt) (g : GenT) (hs : StOK s) :
    Fs.writeAt (fileText s) (Fs.byteLen NOTE) (renderImports (s.add g).imps ++ renderDecls ((s.add g).blocks.map (·.2)))
      = fileText (s.add g) := write_step s g hs

/-! non-vacuity: two concrete generated texts (one with an import line) satisfy `GenOK`, and a concrete world satisfies the
premises of `C05_history_canonical` -/
def exG1 : GenT := ⟨"Beta".toList, "Beta".toList, [("./Dep".toList, ["Dep".toList, "Other".toList])], "/**\n * doc\n */\nexport type Beta = { d: Dep, o: Other, };".toList⟩
def exG2 : GenT := ⟨"Alpha".toList, "Alpha<T>".toList, [], "export type Alpha<T> = { a: T, };".toList⟩
def exW : World := { fs := { nodes := [(["w".toList], .dir), (["w".toList, "out".toList], .dir)], cwd := ["w".toList] }, reg := [] }

example : GenOK exG1 := by
  refine ⟨⟨⟨by decide +kernel, by intro e he; simp only [exG1, List.mem_singleton] at he; subst he; unfold SortedS; decide +kernel⟩, ?_⟩, ⟨by decide +kernel, by decide +kernel, by decide +kernel, by decide +kernel, by decide +kernel⟩⟩
  intro x hx
  simp only [exG1, List.mem_singleton] at hx
  subst hx
  refine ⟨⟨by decide +kernel, by decide +kernel, by decide +kernel, by decide +kernel⟩, by decide +kernel, by decide +kernel, ?_⟩
  intro t ht
  simp only [List.mem_cons, List.not_mem_nil, or_false] at ht
  rcases ht with rfl | rfl <;> exact ⟨⟨by decide +kernel, by decide +kernel, by decide +kernel⟩, by decide +kernel⟩
example : GenOK exG2 := by
  refine ⟨⟨⟨by decide +kernel, by intro e he; simp [exG2] at he⟩, by intro x hx; simp [exG2] at hx⟩, ⟨by decide +kernel, by decide +kernel, by decide +kernel, by decide +kernel, by decide +kernel⟩⟩
example : exW.poisoned = false ∧ regGet exW.reg (regKey "out/shared.ts".toList) = none ∧
    (exW.fs.fileCreate "out/shared.ts".toList (genText exG1)).isSome = true := by
  refine ⟨rfl, rfl, by decide +kernel⟩
#guard (runAll "out/shared.ts".toList exW [exG1, exG2]).2 &&
  (((runAll "out/shared.ts".toList exW [exG1, exG2]).1.fs.openRead "out/shared.ts".toList).map (·.2) == some (fileText (canonSt [exG2, exG1])))

/-- a blank line inside a block splits it: the merged body has THREE declarations for two types -/
theorem C05_cex_blank_line :
    merge (NOTE ++ "\n/** a\n\n b */\nexport type M = 1;\n".toList) (NOTE ++ "\nexport type Z = 2;\n".toList)
      = .ok ("\n/** a\n\n b */\nexport type M = 1;\n\nexport type Z = 2;\n".toList) ∧
    merge (NOTE ++ "\n/** a\n\n b */\nexport type M = 1;\n".toList) (NOTE ++ "\nexport type A = 2;\n".toList)
      = .ok ("\n/** a\n\nexport type A = 2;\n\n b */\nexport type M = 1;\n".toList) := by
  decide +kernel

/-- `export type` inside a field doc: the name of the block is mis-read (`Zzz` instead of `B`) -/
theorem C05_cex_name_misread :
    declName "export type B = { \n/**\n * like export type Zzz = 1\n */\na: number, };".toList = some "Zzz".toList := by
  decide +kernel

/-! ## non-vacuity of the text bridge: a real-looking file and a new declaration -/
example : BlockOK "Alpha".toList "/**\n * doc\n */\nexport type Alpha = { a: number, };".toList := by
  refine ⟨by decide +kernel, by decide +kernel, by decide +kernel, by decide +kernel, by decide +kernel⟩
example : merge ("// note\nimport type { X } from \"./X\";".toList ++ '\n' :: '\n' :: declsText ["export type Alpha = X;".toList, "export type Gamma = null;".toList])
    ("// note".toList ++ '\n' :: '\n' :: ("export type Beta = 1;".toList ++ ['\n']))
    = .ok "import type { X } from \"./X\";\n\nexport type Alpha = X;\n\nexport type Beta = 1;\n\nexport type Gamma = null;\n".toList := by
  decide +kernel

end TsRs
