import TsRsVerif.Model.Deps
/-!
# C07 — declarations of generic types are parametric and well-scoped

Theorems over the string-level model of the generated impl (`Model/Derive.lean`, `Model/Deps.lean`).
As DESIGN.md §9 says, parametricity is close to definitional in the model (the model's `declS`
does not take the type arguments, exactly because the generated `decl()` replaces them by
placeholder types first); what carries the claim is the relational tie of `tools/props/c07.py`,
which compares the real `decl()` of ≥3 instantiations of every generic item.
-/
namespace TsRs
open Text Derive

/-- the declaration a type expression's `decl()` prints: only the ITEM matters, not the arguments -/
def declOf (cfg : Cfg) (env : Env) (fuel : Nat) : RTy → Res Str
  | .named id _ => match env.find id with
    | some it => declS cfg env fuel it
    | none => .panic "unknown type"
  | _ => .panic "cannot be declared"

/-- **parametric**: `decl()` is the same text for every choice of type arguments -/
theorem C07_parametric (cfg : Cfg) (env : Env) (fuel : Nat) (id : Str) (args₁ args₂ : List RTy) :
    declOf cfg env fuel (.named id args₁) = declOf cfg env fuel (.named id args₂) := rfl

/-- **binders and shape of the declaration**: `type <name><binders> = <body at the placeholders>;`
where the binders are exactly the non-concretised type parameters, in order, each with its default
(`declBinders`), and the body is evaluated with every such parameter bound to ITSELF (`declSubst`),
so it can mention no other parameter name -/
theorem C07_decl_shape (cfg : Cfg) (env : Env) (fuel : Nat) (it : Item) (d : TDef) (ps : List Str)
    (hd : itemDef cfg env fuel it (declSubst it) = .ok d) (hps : declBinders env it = .ok ps) :
    declS cfg env fuel it = .ok ("type ".toList ++ tsName it ++
      (if ps = [] then [] else "<".toList ++ intercalate ", ".toList ps ++ ">".toList) ++ " = ".toList ++ d.1 ++ ";".toList) := by
  simp [declS, hd, hps, bind, Res.bind, pure]

/-- the binder list has one entry per non-concretised type parameter, in order -/
theorem C07_binders_length (env : Env) (it : Item) (ps : List Str) (h : declBinders env it = .ok ps) :
    ps.length = (it.generics.filter fun g => (it.attr.concrete.find? (·.1 = g.name)).isNone).length := by
  unfold declBinders at h
  generalize (it.generics.filter fun g => (it.attr.concrete.find? (·.1 = g.name)).isNone) = gs at h
  induction gs generalizing ps with
  | nil => simp [bindersOf] at h; subst h; rfl
  | cons g gs ih =>
    simp only [bindersOf] at h
    split at h
    · rename_i x xs _ hxs
      simp only [Res.ok.injEq] at h
      subst h
      simp [ih xs hxs]
    · simp at h
    · simp at h

/-- **a reference to an instantiation is the identifier applied to the names of the
non-concretised arguments** -/
theorem C07_name (env : Env) (id : Str) (args : List RTy) (it : Item) (all : List Str)
    (hit : env.find id = some it) (hall : nameSL env args = .ok all) :
    nameS env (.named id args) = .ok (
      let xs := (it.generics.zip all).filterMap fun (g, x) =>
        if (it.attr.concrete.find? (·.1 = g.name)).isSome then none else some x
      if xs = [] then tsName it else tsName it ++ "<".toList ++ intercalate ", ".toList xs ++ ">".toList) := by
  simp only [nameS, hit, hall, bind, Res.bind, pure]

/-- **`decl_concrete()` is the declaration body instantiated at the arguments** (it is `inline()`) -/
theorem C07_concrete_is_inline (cfg : Cfg) (env : Env) (fuel : Nat) (id : Str) (args : List RTy) (it : Item) (s : Str)
    (hit : env.find id = some it) (hin : inlineS cfg env (fuel + 1) (.named id args) = .ok s) :
    declConcreteS cfg env fuel it args = .ok ("type ".toList ++ tsName it ++ " = ".toList ++ s ++ ";".toList) := by
  simp only [inlineS, hit, bind, Res.bind] at hin
  unfold declConcreteS
  cases hd : itemDef cfg env fuel it (bindArgs it args) with
  | panic w => simp [hd] at hin
  | ok d =>
    simp only [hd, pure, Res.ok.injEq] at hin
    simp [bind, Res.bind, pure, hin]

/-! ## non-vacuity: a generic struct with a default and a concretised parameter -/
def exLeaf : Item := { isEnum := false, name := "Leaf".toList, fields := [{ name := some "v".toList, ty := .prim "u8" }] }
def exG : Item :=
  { isEnum := false, name := "G".toList,
    generics := [{ name := "A".toList }, { name := "B".toList, default := some (.named "Leaf".toList []) }, { name := "C".toList }],
    attr := { concrete := [("C".toList, .prim "i32")] },
    fields := [{ name := some "a".toList, ty := .vec (.param "A".toList) }, { name := some "b".toList, ty := .param "B".toList },
               { name := some "c".toList, ty := .param "C".toList }] }
example : declS { ops := Case.asciiOps } [exLeaf, exG] 20 exG
    = .ok "type G<A, B = Leaf> = { a: Array<A>, b: B, c: number, };".toList := by decide +kernel

end TsRs
