import TsRsVerif.Model.Deps
namespace TsRs
theorem C07_placeholder : True := trivial
end TsRs
