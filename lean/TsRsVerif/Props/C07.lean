import TsRsVerif.Model.Deps
import TsRsVerif.Lemmas.DeInst
import TsRsVerif.Model.TsEval
import TsRsVerif.Model.TsNorm
/-!
# C07 — declarations of generic types are parametric and well-scoped

Theorems over the string-level model of the generated impl (`Model/Derive.lean`, `Model/Deps.lean`).
As DESIGN.md §9 says, parametricity is close to definitional in the model (the model's `declS`
does not take the type arguments, exactly because the generated `decl()` replaces them by
placeholder types first); what carries the claim is the relational tie of `tools/props/c07.py`,
which compares the real `decl()` of ≥3 instantiations of every generic item.
-/
namespace TsRs
open Text Derive

/-- the declaration a type expression's `decl()` prints: only the ITEM matters, not the arguments -/
def declOf (cfg : Cfg) (env : Env) (fuel : Nat) : RTy → Res Str
  | .named id _ => match env.find id with
    | some it => declS cfg env fuel it
    | none => .panic "unknown type"
  | _ => .panic "cannot be declared"

/-- **parametric**: `decl()` is the same text for every choice of type arguments -/
theorem C07_parametric (cfg : Cfg) (env : Env) (fuel : Nat) (id : Str) (args₁ args₂ : List RTy) :
    declOf cfg env fuel (.named id args₁) = declOf cfg env fuel (.named id args₂) := rfl

/-- **binders and shape of the declaration**: `type <name><binders> = <body at the placeholders>;`
where the binders are exactly the non-concretised type parameters, in order, each with its default
(`declBinders`), and the body is evaluated with every such parameter bound to ITSELF (`declSubst`),
so it can mention no other parameter name -/
theorem C07_decl_shape (cfg : Cfg) (env : Env) (fuel : Nat) (it : Item) (d : TDef) (ps : List Str)
    (hd : itemDef cfg env fuel it (declSubst it) = .ok d) (hps : declBinders env it = .ok ps) :
    declS cfg env fuel it = .ok ("type ".toList ++ tsName it ++
      (if ps = [] then [] else "<".toList ++ intercalate ", ".toList ps ++ ">".toList) ++ " = ".toList ++ d.1 ++ ";".toList) := by
  simp [declS, hd, hps, bind, Res.bind, pure]

/-- the binder list has one entry per non-concretised type parameter, in order -/
theorem C07_binders_length (env : Env) (it : Item) (ps : List Str) (h : declBinders env it = .ok ps) :
    ps.length = (it.generics.filter fun g => (it.attr.concrete.find? (·.1 = g.name)).isNone).length := by
  unfold declBinders at h
  generalize (it.generics.filter fun g => (it.attr.concrete.find? (·.1 = g.name)).isNone) = gs at h
  induction gs generalizing ps with
  | nil => simp [bindersOf] at h; subst h; rfl
  | cons g gs ih =>
    simp only [bindersOf] at h
    split at h
    · rename_i x xs _ hxs
      simp only [Res.ok.injEq] at h
      subst h
      simp [ih xs hxs]
    · simp at h
    · simp at h

/-- **a reference to an instantiation is the identifier applied to the names of the
non-concretised arguments** -/
theorem C07_name (env : Env) (id : Str) (args : List RTy) (it : Item) (all : List Str)
    (hit : env.find id = some it) (hall : nameSL env args = .ok all) :
    nameS env (.named id args) = .ok (
      let xs := (it.generics.zip all).filterMap fun (g, x) =>
        if (it.attr.concrete.find? (·.1 = g.name)).isSome then none else some x
      if xs = [] then tsName it else tsName it ++ "<".toList ++ intercalate ", ".toList xs ++ ">".toList) := by
  simp only [nameS, hit, hall, bind, Res.bind, pure]

/-- **`decl_concrete()` is the declaration body instantiated at the arguments** (it is `inline()`) -/
theorem C07_concrete_is_inline (cfg : Cfg) (env : Env) (fuel : Nat) (id : Str) (args : List RTy) (it : Item) (s : Str)
    (hit : env.find id = some it) (hin : inlineS cfg env (fuel + 1) (.named id args) = .ok s) :
    declConcreteS cfg env fuel it args = .ok ("type ".toList ++ tsName it ++ " = ".toList ++ s ++ ";".toList) := by
  simp only [inlineS, hit, bind, Res.bind] at hin
  unfold declConcreteS
  cases hd : itemDef cfg env fuel it (bindArgs it args) with
  | panic w => simp [hd] at hin
  | ok d =>
    simp only [hd, pure, Res.ok.injEq] at hin
    simp [bind, Res.bind, pure, hin]

/-! ## non-vacuity: a generic struct with a default and a concretised parameter -/
def exLeaf : Item := { isEnum := false, name := "Leaf".toList, fields := [{ name := some "v".toList, ty := .prim "u8" }] }
def exG : Item :=
  { isEnum := false, name := "G".toList,
    generics := [{ name := "A".toList }, { name := "B".toList, default := some (.named "Leaf".toList []) }, { name := "C".toList }],
    attr := { concrete := [("C".toList, .prim "i32")] },
    fields := [{ name := some "a".toList, ty := .vec (.param "A".toList) }, { name := some "b".toList, ty := .param "B".toList },
               { name := some "c".toList, ty := .param "C".toList }] }
example : declS { ops := Case.asciiOps } [exLeaf, exG] 20 exG
    = .ok "type G<A, B = Leaf> = { a: Array<A>, b: B, c: number, };".toList := by decide +kernel

/-! ## expanding the generic declaration at the arguments IS the instantiation's own declaration (tree level)

The tree-level model (`Model/TreeDerive.lean`: the declaration as a TypeScript type tree, tied to the real `decl()` text by the
compiled correspondence of C01 / C07) for every item without `inline` / `flatten` / `as` / `type` / `concrete`: the body of the item
whose Rust definition has the arguments in place of the parameters (what `decl_concrete()` of the instantiation prints) is the generic
body with the TypeScript names of the arguments substituted for the binders — the same tree, so it denotes the same type under every
set of declarations. For every item of that fragment (structs of every shape, enums of every representation, optional fields,
renames), every argument list whose names exist. -/
open Ts Tree Builtin in
theorem C07_expansion_is_concrete (cfg : Cfg) (env : Env) (it : Item) (names : List Str) (args : List RTy) (targs : List Ts) (b : Ts)
    (hargs : nameTyBL cfg.limit (nameN env) args = some targs)
    (h : itemBody cfg env it = some b)
    (hS : it.isEnum = false → it.shape = .named → it.fields.all (fieldOkN cfg it.attr.renameAll it.attr.optionalFields) = true)
    (hE : it.isEnum = true → ∀ v ∈ it.variants, v.shape = .named → v.fields.all (fieldOkN cfg (renameAllT it v) .no) = true) :
    itemBody cfg env (Item.inst (names.zip args) it) = some (Ts.subst (names.zip targs) b) :=
  itemBody_inst cfg env names args targs hargs it b h hS hE

/-- … hence the two denote the same set of JSON values, whatever the other declarations are -/
theorem C07_expansion_denotes_concrete (cfg : Cfg) (env : Env) (it : Item) (names : List Str) (args : List RTy) (targs : List Ts) (b c : Ts)
    (hargs : Builtin.nameTyBL cfg.limit (Tree.nameN env) args = some targs)
    (h : Tree.itemBody cfg env it = some b)
    (hS : it.isEnum = false → it.shape = .named → it.fields.all (Tree.fieldOkN cfg it.attr.renameAll it.attr.optionalFields) = true)
    (hE : it.isEnum = true → ∀ v ∈ it.variants, v.shape = .named → v.fields.all (Tree.fieldOkN cfg (Tree.renameAllT it v) .no) = true)
    (hc : Tree.itemBody cfg env (Item.inst (names.zip args) it) = some c) (D : Decls) (fuel : Nat) (j : JVal) :
    Ts.memberb D fuel c j = Ts.memberb D fuel (Ts.subst (names.zip targs) b) j := by
  rw [C07_expansion_is_concrete cfg env it names args targs b hargs h hS hE] at hc
  injection hc with hc; rw [hc]

/-- the reference to the instantiation is the identifier applied to the names of the arguments (tree level) -/
theorem C07_reference_tree (cfg : Cfg) (env : Env) (id : Str) (args : List RTy) (T : Ts)
    (h : Tree.tyTs cfg env (.named id args) = some T) :
    ∃ it targs, env.find id = some it ∧ Builtin.nameTyBL cfg.limit (Tree.nameN env) args = some targs ∧
      targs.length = it.generics.length ∧ T = .ref (tsName it) targs := by
  simp only [Tree.tyTs, Builtin.nameTyB, bind, Option.bind] at h
  cases ha : Builtin.nameTyBL cfg.limit (Tree.nameN env) args with
  | none => simp [ha] at h
  | some targs =>
    simp only [ha, Tree.nameN, Option.bind] at h
    cases hf : env.find id with
    | none => simp [hf] at h
    | some it =>
      simp only [hf] at h
      split at h
      · injection h with h; exact ⟨it, targs, rfl, rfl, by assumption, h.symm⟩
      · simp at h

/-! non-vacuity: a generic enum with its parameter bare, in a `Vec` and under `Option`, at `bool` -/
def exC7Cfg : Cfg := { ops := { isUpper := fun c => Case.isAsciiUpper c, isAlnum := fun _ => true, isNumeric := fun _ => false, strLower := id, strUpper := id } }
def exC7G : Item := { isEnum := true, name := "G".toList, generics := [{ name := "T".toList }], attr := { tag := some "k".toList }, variants := [
  { name := "N".toList, shape := .unit, fields := [] },
  { name := "L".toList, shape := .named, fields := [{ name := some "l".toList, ty := .vec (.param "T".toList) }, { name := some "o".toList, ty := .option (.param "T".toList) }] }] }
example : (∀ v ∈ exC7G.variants, v.shape = .named → v.fields.all (Tree.fieldOkN exC7Cfg (Tree.renameAllT exC7G v) .no) = true)
    := by decide +kernel
#guard match Builtin.nameTyBL exC7Cfg.limit (Tree.nameN [exC7G]) [.prim "bool"] with | some ts => Ts.beqL ts [.boolean] | none => false
#guard (Tree.itemBody exC7Cfg [exC7G] exC7G).isSome
#guard match Tree.itemBody exC7Cfg [exC7G] (Item.inst (["T".toList].zip [.prim "bool"]) exC7G), Tree.itemBody exC7Cfg [exC7G] exC7G with
  | some c, some b => Ts.beq c (Ts.subst (["T".toList].zip [.boolean]) b) && !Ts.beq c b
  | _, _ => false

end TsRs
