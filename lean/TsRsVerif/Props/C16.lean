/-
  Props/C16.lean — the derive is total; documented conflicts are always diagnosed.

  The model (`Model/Validity.lean`) is the derive's diagnostic flow: attribute parsing (`Model/Attr.lean`,
  tables regenerated from the source), the four `assert_validity`, `check_attributes`, in the order
  `type_def` / `enum_def` / `format_variant` / `format_field` run them. Its outcome class and message
  are compared with the real pipeline (run in-process under `catch_unwind`) on every generated item
  by tools/props/c16.py; what rustc says about an accepted expansion is not modelled (compile stream).

  Theorems here quantify over EVERY attribute map / item, not over the sampled ones:
  whatever else is written on the item, a documented-incompatible combination ends in an error.
-/
import TsRsVerif.Model.Validity
import TsRsVerif.Lemmas.ValidityLemmas
namespace TsRs
open Attr Validity

/-- the combinations documented as incompatible on a struct (`type`/`as` vs the shaping attributes) -/
def structConflicts : List (String × String) :=
  [("type_override", "type_as"), ("type_override", "rename_all"), ("type_override", "tag"), ("type_override", "optional_fields"),
   ("type_as", "tag"), ("type_as", "rename_all"), ("type_as", "optional_fields")]

def enumConflicts : List (String × String) :=
  [("type_override", "type_as"), ("type_override", "rename_all"), ("type_override", "rename_all_fields"), ("type_override", "tag"),
   ("type_override", "content"), ("type_override", "untagged"), ("type_as", "rename_all"), ("type_as", "rename_all_fields"),
   ("type_as", "tag"), ("type_as", "content"), ("type_as", "untagged"), ("untagged", "tag"), ("untagged", "content")]

def variantConflicts : List (String × String) :=
  [("type_as", "type_override"), ("type_as", "rename_all"), ("type_override", "rename_all"), ("type_override", "inline")]

def fieldConflicts : List (String × String) :=
  [("type_override", "type_as"), ("type_override", "inline"), ("type_override", "flatten"), ("type_override", "optional"),
   ("flatten", "type_as"), ("flatten", "rename"), ("flatten", "inline"), ("flatten", "optional")]

/-- **struct level**: every documented pair is rejected whatever else the attribute map holds -/
theorem C16_struct_conflicts_rejected (p : Parsed) (shape : Shape) (c : String × String) (hc : c ∈ structConflicts)
    (h1 : has p c.1 = true) (h2 : has p c.2 = true) : (structAttr p shape).isSome = true := by
  simp only [structConflicts, List.mem_cons, List.not_mem_nil, or_false] at hc
  rcases hc with rfl | rfl | rfl | rfl | rfl | rfl | rfl <;>
    (simp only at h1 h2; unfold structAttr; generalize has p "type_override" = a at *; generalize has p "type_as" = b at *; generalize has p "rename_all" = c at *; generalize has p "tag" = d at *; generalize has p "optional_fields" = e at *; cases a <;> cases b <;> cases c <;> cases d <;> cases e <;> cases shape <;> simp_all)

/-- **struct level, shape**: `tag`, `rename_all`, `optional_fields` on a unit or tuple struct are rejected -/
theorem C16_struct_shape_rejected (p : Parsed) (shape : Shape) (hs : shape ≠ .named) (k : String)
    (hk : k ∈ ["tag", "rename_all", "optional_fields"]) (h : has p k = true) : (structAttr p shape).isSome = true := by
  simp only [List.mem_cons, List.not_mem_nil, or_false] at hk
  rcases hk with rfl | rfl | rfl <;>
    (unfold structAttr; generalize has p "type_override" = a at *; generalize has p "type_as" = b at *; generalize has p "rename_all" = c at *; generalize has p "tag" = d at *; generalize has p "optional_fields" = e at *; cases a <;> cases b <;> cases c <;> cases d <;> cases e <;> cases shape <;> simp_all)

/-- **enum level** -/
theorem C16_enum_conflicts_rejected (p : Parsed) (c : String × String) (hc : c ∈ enumConflicts)
    (h1 : has p c.1 = true) (h2 : has p c.2 = true) : (enumAttr p).isSome = true := by
  simp only [enumConflicts, List.mem_cons, List.not_mem_nil, or_false] at hc
  rcases hc with rfl | rfl | rfl | rfl | rfl | rfl | rfl | rfl | rfl | rfl | rfl | rfl | rfl <;>
    (simp only at h1 h2; unfold enumAttr; generalize has p "type_override" = a at *; generalize has p "type_as" = b at *; generalize has p "rename_all" = c at *; generalize has p "rename_all_fields" = d at *; generalize has p "tag" = e at *; generalize has p "content" = f at *; generalize has p "untagged" = g at *; cases a <;> cases b <;> cases c <;> cases d <;> cases e <;> cases f <;> cases g <;> simp_all)

/-- `content` without `tag` (and without `untagged`) is rejected -/
theorem C16_enum_content_without_tag (p : Parsed) (hc : has p "content" = true) (ht : has p "tag" = false) :
    (enumAttr p).isSome = true := by
  unfold enumAttr; generalize has p "type_override" = a at *; generalize has p "type_as" = b at *; generalize has p "rename_all" = c at *; generalize has p "rename_all_fields" = d at *; generalize has p "tag" = e at *; generalize has p "content" = f at *; generalize has p "untagged" = g at *; cases a <;> cases b <;> cases c <;> cases d <;> cases e <;> cases f <;> cases g <;> simp_all

/-- **variant level** -/
theorem C16_variant_conflicts_rejected (p : Parsed) (shape : Shape) (c : String × String) (hc : c ∈ variantConflicts)
    (h1 : has p c.1 = true) (h2 : has p c.2 = true) : (variantAttr p shape).isSome = true := by
  simp only [variantConflicts, List.mem_cons, List.not_mem_nil, or_false] at hc
  rcases hc with rfl | rfl | rfl | rfl <;>
    (simp only at h1 h2; unfold variantAttr; generalize has p "type_as" = a at *; generalize has p "type_override" = b at *; generalize has p "rename_all" = c at *; generalize has p "inline" = d at *; cases a <;> cases b <;> cases c <;> cases d <;> cases shape <;> simp_all)

theorem C16_variant_shape_rejected (p : Parsed) (shape : Shape) (hs : shape ≠ .named) (h : has p "rename_all" = true) :
    (variantAttr p shape).isSome = true := by
  unfold variantAttr; generalize has p "type_as" = a at *; generalize has p "type_override" = b at *; generalize has p "rename_all" = c at *; generalize has p "inline" = d at *; cases a <;> cases b <;> cases c <;> cases d <;> cases shape <;> simp_all

/-- **field level** -/
theorem C16_field_conflicts_rejected (compat : Bool) (p : Parsed) (named : Bool) (c : String × String) (hc : c ∈ fieldConflicts)
    (h1 : has p c.1 = true) (h2 : has p c.2 = true) : (fieldAttr compat p named).isSome = true := by
  simp only [fieldConflicts, List.mem_cons, List.not_mem_nil, or_false] at hc
  rcases hc with rfl | rfl | rfl | rfl | rfl | rfl | rfl | rfl <;>
    (simp only at h1 h2; unfold fieldAttr; generalize has p "using_serde_with" = a at *; generalize has p "type_as" = b at *; generalize has p "type_override" = c at *; generalize has p "inline" = d at *; generalize has p "flatten" = e at *; generalize has p "optional" = f at *; generalize has p "rename" = g at *; cases a <;> cases b <;> cases c <;> cases d <;> cases e <;> cases f <;> cases g <;> cases compat <;> cases named <;> simp_all)

/-- `flatten`, `rename`, `optional` on a tuple field are rejected -/
theorem C16_tuple_field_rejected (compat : Bool) (p : Parsed) (k : String) (hk : k ∈ ["flatten", "rename", "optional"])
    (h : has p k = true) : (fieldAttr compat p false).isSome = true := by
  simp only [List.mem_cons, List.not_mem_nil, or_false] at hk
  rcases hk with rfl | rfl | rfl <;>
    (unfold fieldAttr; generalize has p "using_serde_with" = a at *; generalize has p "type_as" = b at *; generalize has p "type_override" = c at *; generalize has p "inline" = d at *; generalize has p "flatten" = e at *; generalize has p "optional" = f at *; generalize has p "rename" = g at *; cases a <;> cases b <;> cases c <;> cases d <;> cases e <;> cases f <;> cases g <;> cases compat <;> simp_all)

/-- `#[serde(with)]` without `as`/`type` is rejected under serde-compat -/
theorem C16_serde_with_rejected (p : Parsed) (named : Bool) (hw : has p "using_serde_with" = true)
    (ha : has p "type_as" = false) (ho : has p "type_override" = false) : (fieldAttr true p named).isSome = true := by
  unfold fieldAttr; simp [hw, ha, ho]

/-- **unknown key in a `#[ts(..)]` list**: an error, wherever it stands in the list being parsed -/
theorem C16_unknown_ts_key (tbl : List (String × String × String × String)) (n : Nat) (acc : Parsed) (k : String) (rest : List Tok)
    (hk : lookupKey tbl k = none) : parseLoop tbl false (n + 1) acc (Tok.ident k :: rest) = .error "Unknown attribute" := by
  simp [parseLoop, hk]

/-- a known `ts` key whose value does not parse is an error, not silently dropped -/
theorem C16_bad_ts_value (tbl : List (String × String × String × String)) (n : Nat) (acc : Parsed) (k : String) (rest : List Tok)
    (x : String × String × String) (hk : lookupKey tbl k = some x) (hv : parseValue x.2.1 rest = none) :
    parseLoop tbl false (n + 1) acc (Tok.ident k :: rest) = .error "value" := by
  obtain ⟨t, pr, w⟩ := x
  simp only at hv
  simp [parseLoop, hk, hv]

/-! ## lifting to whole items: the derive's outcome -/

/-- the model has exactly two outcomes; the tie checks the implementation never produces a third (a panic) -/
theorem C16_two_outcomes (compat : Bool) (it : AItem) : derive compat it = .ok ∨ ∃ m, derive compat it = .error m := by
  cases derive compat it with
  | ok => exact Or.inl rfl
  | error m => exact Or.inr ⟨m, rfl⟩

/-- attribute parse errors at container level end the derive -/
theorem C16_derive_parse_error (compat : Bool) (it : AItem) (m : String)
    (h : fromAttrs compat (if it.isEnum then .enum else .struct) it.ts it.serde = .error m) : derive compat it = .error m := by
  unfold derive
  cases hb : it.isEnum <;> simp [hb] at h ⊢ <;> simp [ofPRes, h]

/-- **struct**: any struct-level complaint is the derive's outcome, whatever the fields are -/
theorem C16_derive_struct_rejects (compat : Bool) (it : AItem) (p : Parsed) (m : String) (hs : it.isEnum = false)
    (hp : fromAttrs compat .struct it.ts it.serde = .ok p) (hm : structAttr p it.shape = some m) :
    derive compat it = .error m := by
  unfold derive; simp [hs, ofPRes, hp, hm]

/-- **enum**: any enum-level complaint is the derive's outcome, whatever the variants are -/
theorem C16_derive_enum_rejects (compat : Bool) (it : AItem) (p : Parsed) (m : String) (hs : it.isEnum = true)
    (hp : fromAttrs compat .enum it.ts it.serde = .ok p) (hm : enumAttr p = some m) :
    derive compat it = .error m := by
  unfold derive; simp [hs, ofPRes, hp, hm]


/-- **field, at any position of a struct**: a field-level complaint makes the derive fail, whatever the other fields hold -/
theorem C16_derive_field_rejects (compat : Bool) (it : AItem) (p : Parsed) (f : AField) (fp : Parsed) (m : String)
    (hs : it.isEnum = false) (hp : fromAttrs compat .struct it.ts it.serde = .ok p) (hv : structAttr p it.shape = none)
    (ho : has p "type_override" = false) (ha : has p "type_as" = false) (hsh : it.shape ≠ .unit)
    (hf : f ∈ it.fields) (hfp : fromAttrs compat .field f.ts f.serde = .ok fp) (hm : fieldAttr compat fp f.named = some m) :
    ∃ m', derive compat it = .error m' := by
  have hne : it.fields.isEmpty = false := by cases h : it.fields with
    | nil => rw [h] at hf; cases hf
    | cons _ _ => rfl
  unfold derive
  simp only [hs, ofPRes, hp, hv, ho, ha, hne, fieldsOutcome]
  have : (match it.shape with | .unit => [] | _ => it.fields) = it.fields := by
    cases h : it.shape <;> simp_all
  simp only [Bool.not_false, ↓reduceIte, Bool.or_self, Bool.not_false, Bool.true_and, Bool.and_false, Bool.false_and, Bool.false_eq_true, this]
  exact foldl_hits (fieldStep compat) (fieldStep_absorb compat) it.fields f hf ⟨m, by simp [fieldStep, ofPRes, hfp, hm]⟩

/-- **variant, at any position of an enum**: a variant-level complaint makes the derive fail, whatever the other variants hold -/
theorem C16_derive_variant_rejects (compat : Bool) (it : AItem) (p : Parsed) (v : AVariant) (vp : Parsed) (m : String)
    (hs : it.isEnum = true) (hp : fromAttrs compat .enum it.ts it.serde = .ok p) (hv : enumAttr p = none)
    (ho : has p "type_override" = false) (ha : has p "type_as" = false)
    (hmem : v ∈ it.variants) (hvp : fromAttrs compat .variant v.ts v.serde = .ok vp) (hm : variantAttr vp v.shape = some m) :
    ∃ m', derive compat it = .error m' := by
  unfold derive
  simp only [hs, ofPRes, hp, hv, ho, ha]
  simp only [Bool.not_true, Bool.false_eq_true, ↓reduceIte, Bool.or_self]
  exact foldl_hits (variantStep compat p) (variantStep_absorb compat p) it.variants v hmem ⟨m, by simp [variantStep, ofPRes, hvp, hm]⟩

/-- **field of a (non-skipped) variant**: a field-level complaint inside a variant makes the derive fail -/
theorem C16_derive_variant_field_rejects (compat : Bool) (it : AItem) (p : Parsed) (v : AVariant) (vp : Parsed) (f : AField) (fp : Parsed) (m : String)
    (hs : it.isEnum = true) (hp : fromAttrs compat .enum it.ts it.serde = .ok p) (hv : enumAttr p = none)
    (ho : has p "type_override" = false) (ha : has p "type_as" = false)
    (hmem : v ∈ it.variants) (hvp : fromAttrs compat .variant v.ts v.serde = .ok vp) (hskip : has vp "skip" = false)
    (hsh : v.shape ≠ .unit) (hf : f ∈ v.fields) (hfp : fromAttrs compat .field f.ts f.serde = .ok fp)
    (hm : fieldAttr compat fp f.named = some m) :
    ∃ m', derive compat it = .error m' := by
  unfold derive
  simp only [hs, ofPRes, hp, hv, ho, ha]
  simp only [Bool.not_true, Bool.false_eq_true, ↓reduceIte, Bool.or_self]
  refine foldl_hits (variantStep compat p) (variantStep_absorb compat p) it.variants v hmem ?_
  have hne : v.fields.isEmpty = false := by cases h : v.fields with
    | nil => rw [h] at hf; cases hf
    | cons _ _ => rfl
  have hrel : (match v.shape with | .unit => [] | _ => v.fields) = v.fields := by
    cases h : v.shape <;> simp_all
  obtain ⟨m1, h1⟩ := foldl_hits (fieldStep compat) (fieldStep_absorb compat) v.fields f hf ⟨m, by simp [fieldStep, ofPRes, hfp, hm]⟩
  simp only [variantStep, ofPRes, hvp]
  cases hva : variantAttr vp v.shape with
  | some m2 => exact ⟨m2, rfl⟩
  | none =>
    simp only [hskip, Bool.false_eq_true, ↓reduceIte, hne, Bool.false_and, Bool.and_false, fieldsOutcome, Bool.or_self, hrel, h1]
    exact ⟨m1, rfl⟩

/-! ## non-vacuity: concrete items meeting the hypotheses, through the whole model -/

/-- `#[ts(type = "string", tag = "t")] struct T { a: _ }` -/
example : derive true { isEnum := false, ts := [[Tok.ident "type", Tok.punct '=', Tok.strLit "string", Tok.punct ',', Tok.ident "tag", Tok.punct '=', Tok.strLit "t"]], serde := [], shape := .named, fields := [{ named := true, ts := [], serde := [] }], variants := [] }
    = .error "`tag` is not compatible with `type`" := by decide +kernel

/-- `enum T { V0, #[ts(rename_all = "camelCase")] V1(_) }`: the second variant is the one at fault -/
example : derive true { isEnum := true, ts := [], serde := [], shape := .named, fields := [], variants := [{ shape := .unit, ts := [], serde := [], fields := [] }, { shape := .tuple, ts := [[Tok.ident "rename_all", Tok.punct '=', Tok.strLit "camelCase"]], serde := [], fields := [{ named := false, ts := [], serde := [] }] }] }
    = .error "`rename_all` is not applicable to unit or tuple variants" := by decide +kernel

/-- `struct T { a: _, #[ts(flatten, optional)] b: _ }`: the second field is the one at fault -/
example : derive true { isEnum := false, ts := [], serde := [], shape := .named, variants := [], fields := [{ named := true, ts := [], serde := [] }, { named := true, ts := [[Tok.ident "flatten", Tok.punct ',', Tok.ident "optional"]], serde := [] }] }
    = .error "`optional` is not compatible with `flatten`" := by decide +kernel

/-- an unknown key; and an ordinary item is accepted (the theorems are not about a model that rejects everything) -/
example : derive true { isEnum := false, ts := [[Tok.ident "bogus"]], serde := [], shape := .named, fields := [], variants := [] }
    = .error "Unknown attribute" := by decide +kernel
example : derive true { isEnum := true, ts := [[Tok.ident "tag", Tok.punct '=', Tok.strLit "t"]], serde := [[Tok.ident "rename_all", Tok.punct '=', Tok.strLit "camelCase"]], shape := .named, fields := [], variants := [{ shape := .named, ts := [], serde := [], fields := [{ named := true, ts := [[Tok.ident "optional"]], serde := [] }] }] }
    = .ok := by decide +kernel

end TsRs
