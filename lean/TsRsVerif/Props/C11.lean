import TsRsVerif.Model.Export
namespace TsRs
theorem C11_placeholder : True := trivial
end TsRs
