import TsRsVerif.Model.Export
import TsRsVerif.Model.Deps
import TsRsVerif.Lemmas.DfsLemmas
import TsRsVerif.Lemmas.ExportLemmas
import TsRsVerif.Lemmas.WalkSeq
import TsRsVerif.Lemmas.WalkFiles
/-!
# C11 — an export writes exactly the root's and its dependencies' files

`exportRec` = `export_recursive` (depth-first walk with the `seen` set), `exportInto` = `export_into`.
A type's file is written exactly when the walk adds the type to `seen` (that is where `export_into`
is called), so "which files are written" is "which types are visited".
-/
namespace TsRs
open Text Export Fs

/-- **the walk visits exactly the exportable types reachable from the root** — for every
dependency graph (cycles, shared dependencies, any size), whenever the export succeeds. -/
theorem C11_visits_exactly_reachable (u : Universe) (fuel : Nat) (w w' : World) (dir : Str) (i : Nat)
    (seen' : List Nat) (h : exportRec u fuel w [] dir i = some (w', seen', .ok)) :
    ∀ j, j ∈ seen' ↔ Reach u i j := by
  obtain ⟨hinv, hi⟩ := exportRec_inv u (Reach u i) (fun n d hn hd => Reach.step hn hd)
    fuel w [] dir i w' seen' Reach.refl h
  intro j
  constructor
  · intro hj
    rcases hinv.sound j hj with h0 | h0
    · simp at h0
    · exact h0
  · exact reach_subset u i seen' hi (fun n hn d hd => hinv.closed n hn (by simp) d hd) j

/-- nothing is visited twice and nothing already seen is exported again -/
theorem C11_seen_is_skipped (u : Universe) (fuel : Nat) (w : World) (seen : List Nat) (dir : Str) (i : Nat)
    (h : i ∈ seen) : exportRec u (fuel + 1) w seen dir i = some (w, seen, .ok) := by
  simp [exportRec, h]

/-- **one export step changes at most one file location** (and creates directories): every other
regular file is exactly what it was. -/
theorem C11_step_touches_one_file (w w' : World) (path name text : Str)
    (h : exportAndMerge w path name text = (w', .ok)) :
    ∃ l, ∀ l' c, l' ≠ l → (w.fs.lookup l' = some (.file c) ↔ w'.fs.lookup l' = some (.file c)) := by
  rcases exportAndMerge_cases w path name text with ⟨h1, _⟩ | h1 | h1 | ⟨h1, _⟩ | ⟨l, c, _, _, h1⟩
  · rw [h1] at h; simp at h
  · rw [h1] at h; simp at h
  · rw [h1] at h; simp at h; subst h; exact ⟨[], fun _ _ _ => Iff.rfl⟩
  · rw [h1] at h; simp at h
  · rw [h1] at h
    simp only [Prod.mk.injEq, and_true] at h
    subst h
    refine ⟨l, fun l' c' hne => ?_⟩
    simp only [lookup_set]
    by_cases h0 : l' = []
    · subst h0; simp [lookup]
    · simp [h0, hne]

/-- the location that does change holds a regular file afterwards (never a directory) -/
theorem C11_step_writes_a_file (w w' : World) (path name text : Str)
    (hreg : regGet w.reg (regKey path) = none)
    (h : exportAndMerge w path name text = (w', .ok)) :
    ∃ l, w'.fs.lookup l = some (.file text) := by
  rcases exportAndMerge_cases w path name text with ⟨h1, hp⟩ | h1 | h1 | ⟨h1, _⟩ | ⟨l, c, hp, hl, h1⟩
  · rw [h1] at h; simp at h
  · rw [h1] at h; simp at h
  · -- `(w, ok)` without a registry entry is impossible: the first write always changes the registry
    exfalso
    unfold exportAndMerge at h1
    cases hpo : w.poisoned with
    | true => simp [hpo] at h1
    | false =>
      simp only [hpo, hreg] at h1
      cases hc : w.fs.fileCreate path text with
      | none => simp [hc] at h1
      | some fs' =>
        simp only [hc, Bool.false_eq_true, if_false, Prod.mk.injEq, and_true] at h1
        have : (regInsert w.reg (regKey path) name) = w.reg := by
          have := congrArg World.reg h1; simpa using this
        simp [regInsert, hreg] at this
  · rw [h1] at h; simp at h
  · -- first write: the content is the generated text
    unfold exportAndMerge at h
    simp only [hp, hreg, Bool.false_eq_true, if_false] at h
    cases hc : w.fs.fileCreate path text with
    | none => simp [hc] at h
    | some fs' =>
      simp only [hc, Prod.mk.injEq, and_true] at h
      subst h
      unfold Fs.fileCreate at hc
      cases hres : w.fs.resolve path with
      | none => simp [hres] at hc
      | some l0 =>
        cases l0 with
        | nil => simp [hres] at hc
        | cons a as =>
          simp only [hres] at hc
          split at hc
          · simp at hc
          · split at hc
            · simp at hc
            · simp only [Option.some.injEq] at hc
              subst hc
              exact ⟨a :: as, by simp [lookup_set]⟩

/-! ## non-vacuity: a cyclic graph with a shared dependency and a non-exportable node -/
example :
    let mk : Str → List Nat → TyInfo := fun n ds => { ident := n, outputPath := some (n ++ ".ts".toList), text := .ok ("// n\n\nexport type ".toList ++ n ++ " = 1;\n".toList), deps := ds }
    let u : Universe := [mk "A".toList [1, 2, 3], mk "B".toList [0, 2], mk "C".toList [],
                         { ident := "number".toList, outputPath := none, text := .error .cannotBeExported, deps := [] }, mk "Unreached".toList [0]]
    let w : World := { fs := { nodes := [(["w".toList], .dir)], cwd := ["w".toList] }, reg := [] }
    (exportRec u 6 w [] "./bindings".toList 0).map (fun r => (r.2.1, r.2.2)) = some ([2, 1, 0], Outcome.ok) := by
  decide +kernel

/-- **`export_all` is exactly one `export_into` per reachable exportable type**: a successful walk from `i` has the effect of calling
`export_into` for a duplicate-free list of types, one after the other, and that list consists of exactly the exportable types
reachable from `i`; nothing else touches the world. (What such a sequence leaves in each file is C05 / C06:
`C06_interleaved_history`, `C06_export_to_histories`.) -/
theorem C11_export_all_is_a_sequence (u : Universe) (fuel : Nat) (w w' : World) (dir : Str) (i : Nat) (seen' : List Nat)
    (h : exportRec u fuel w [] dir i = some (w', seen', .ok)) :
    ∃ order : List Nat, order.Nodup ∧ (∀ j, j ∈ order ↔ Reach u i j) ∧ runInto u dir w order = (w', true) := by
  obtain ⟨order, hs, hnd, _, hrun⟩ := exportRec_seq u dir fuel w [] i w' seen' h
  refine ⟨order, hnd, ?_, hrun⟩
  intro j
  rw [← C11_visits_exactly_reachable u fuel w w' dir i seen' h j, hs]
  simp

/-- **`export_all`, end to end**: a successful `export_all` from `i` over a table whose reachable entries are well-formed generated
texts with documented locations (`TableOK`: output path, text, identifier, target file; `TSlotsOK`: the target files are proper, different,
not ancestors of one another, not directories, no regular file on the way; every `dir / output_path()` has the normal form of its
target; per file distinct names) leaves, in EVERY target file that received a type, exactly the canonical text of the reachable types
that belong there (`files`), every other regular file as it was (`others`), and the registry listing exactly those types — whatever
the order of the walk, whatever directories existed before. Composition of `C11_export_all_is_a_sequence`, `runInto_eq_runOpsTo`
(`export_into` = `export_to` at `dir / output_path()`) and the several-files theorem of C06. -/
theorem C11_export_all_files (u : Universe) (slots : List TSlot) (dir : Str) (gen : Nat → GenT) (rel : Nat → Str) (slotOf : Nat → Nat)
    (fuel : Nat) (w w' : World) (i : Nat) (seen' : List Nat)
    (h : exportRec u fuel w [] dir i = some (w', seen', .ok))
    (htab : ∀ j, Reach u i j → TableOK u slots dir gen rel slotOf j)
    (hs : TSlotsOK w.fs slots)
    (hsp : ∀ j, Reach u i j → ∀ s, slots[slotOf j]? = some s → Path.absolute (cwdStr w.fs) (Path.join dir (rel j)) = .ok s.path)
    (hgen : ∀ j, Reach u i j → GenOK (gen j))
    (hname : ∀ j j', Reach u i j → Reach u i j' → slotOf j = slotOf j' → (gen j).name = (gen j').name → j = j')
    (hident : ∀ j j', Reach u i j → Reach u i j' → slotOf j = slotOf j' → (gen j).ident = (gen j').ident → j = j')
    (hp : w.poisoned = false) (hreg : ∀ s ∈ slots, regGet w.reg (regKey s.path) = none) :
    ∃ order : List Nat, order.Nodup ∧ (∀ j, j ∈ order ↔ Reach u i j) ∧
      TInv w.fs slots (order.map fun j => (slotOf j, gen j)) w' := by
  obtain ⟨order, hnd, hmem, hrun⟩ := C11_export_all_is_a_sequence u fuel w w' dir i seen' h
  obtain ⟨w'', hrun', hinv⟩ := runInto_files u slots dir gen rel slotOf order hnd w
    (fun j hj => htab j ((hmem j).mp hj)) hs (fun j hj => hsp j ((hmem j).mp hj)) (fun j hj => hgen j ((hmem j).mp hj))
    (fun j hj j' hj' => hname j j' ((hmem j).mp hj) ((hmem j').mp hj')) (fun j hj j' hj' => hident j j' ((hmem j).mp hj) ((hmem j').mp hj'))
    hp hreg
  rw [hrun] at hrun'
  have : w' = w'' := by injection hrun' with h1 _
  subst this
  exact ⟨order, hnd, hmem, hinv⟩

/-! non-vacuity of `C11_export_all_files`: three types in two files (two of them share `shared.ts`), a cycle; the walk succeeds and
each file holds the canonical text of its types -/
def exGA : GenT := ⟨"Alpha".toList, "Alpha".toList, [("./Other".toList, ["Other".toList])], "export type Alpha = { o: Other, };".toList⟩
def exGB : GenT := ⟨"Beta".toList, "Beta".toList, [], "export type Beta = { a: Alpha, };".toList⟩
def exGO : GenT := ⟨"Other".toList, "Other".toList, [("./deep/shared".toList, ["Beta".toList])], "export type Other = Beta | null;".toList⟩
def exGen : Nat → GenT := fun j => if j = 0 then exGA else if j = 1 then exGB else exGO
def exRel : Nat → Str := fun j => if j = 2 then "Other.ts".toList else "deep/shared.ts".toList
def exSlotOf : Nat → Nat := fun j => if j = 2 then 1 else 0
def exGU : Universe := [0, 1, 2].map fun j => { ident := (exGen j).ident, outputPath := some (exRel j), text := .ok (genText (exGen j)), deps := [(j + 2) % 3] }
def exGSlots : List TSlot := [⟨["w".toList, "out".toList, "deep".toList], "shared.ts".toList⟩, ⟨["w".toList, "out".toList], "Other.ts".toList⟩]
def exGW : World := { fs := { nodes := [(["w".toList], .dir)], cwd := ["w".toList] }, reg := [] }
example : ∀ j, j < 3 → TableOK exGU exGSlots "./out".toList exGen exRel exSlotOf j ∧
    (∀ s, exGSlots[exSlotOf j]? = some s → Path.absolute (cwdStr exGW.fs) (Path.join "./out".toList (exRel j)) = .ok s.path) := by
  intro j hj
  rcases j with _ | _ | _ | j
  · exact ⟨⟨⟨_, rfl, rfl, rfl, rfl⟩, by decide⟩, by intro s hs; simp [exSlotOf, exGSlots] at hs; subst hs; decide +kernel⟩
  · exact ⟨⟨⟨_, rfl, rfl, rfl, rfl⟩, by decide⟩, by intro s hs; simp [exSlotOf, exGSlots] at hs; subst hs; decide +kernel⟩
  · exact ⟨⟨⟨_, rfl, rfl, rfl, rfl⟩, by decide⟩, by intro s hs; simp [exSlotOf, exGSlots] at hs; subst hs; decide +kernel⟩
  · omega
#guard ((exportRec exGU 8 exGW [] "./out".toList 0).map fun r => (r.2.1, r.2.2 == Outcome.ok)) == some ([1, 2, 0], true)
#guard ((exportRec exGU 8 exGW [] "./out".toList 0).bind fun r => r.1.fs.lookup ["w".toList, "out".toList, "deep".toList, "shared.ts".toList])
  == some (.file (fileText (canonSt [exGA, exGB])))
#guard ((exportRec exGU 8 exGW [] "./out".toList 0).bind fun r => r.1.fs.lookup ["w".toList, "out".toList, "Other.ts".toList])
  == some (.file (fileText (canonSt [exGO])))

/-- **the three documented locations**: `<TypeScript name>.ts` by default; the given path with `<TypeScript name>.ts` appended
when `export_to` ends in `/`; the given path verbatim otherwise — whatever its extension (`output_path()` as generated by the
derive, `Model/Deps.lean`, compared with the real `output_path()` of every compiled item). -/
theorem C11_output_path_cases (it : Item) :
    (it.attr.exportTo = none → Derive.outputPath it = Derive.tsName it ++ ".ts".toList) ∧
    (∀ p, it.attr.exportTo = some p → p.getLast? = some '/' → Derive.outputPath it = p ++ Derive.tsName it ++ ".ts".toList) ∧
    (∀ p, it.attr.exportTo = some p → p.getLast? ≠ some '/' → Derive.outputPath it = p) := by
  refine ⟨fun h => by simp [Derive.outputPath, h], fun p h hl => by simp [Derive.outputPath, h, hl], fun p h hl => by simp [Derive.outputPath, h, hl]⟩

/-- … and the location written is the directory joined with exactly that path: `export_into` hands `export_to` the normal form of
`dir / output_path()` (the path a type reports for itself is the path that gets written) -/
theorem C11_written_location (w : World) (t : TyInfo) (dir op : Str) (h : t.outputPath = some op) :
    exportInto w t dir = (match Path.absolute (cwdStr w.fs) (Path.join dir op) with
      | .error e => (w, .err e)
      | .ok p => exportTo w t p) := by
  simp only [exportInto, h]
  cases Path.absolute (cwdStr w.fs) (Path.join dir op) <;> rfl

example : Derive.outputPath { isEnum := false, name := "T".toList, attr := { exportTo := some "forms/v1.ts/".toList } } = "forms/v1.ts/T.ts".toList
    ∧ Derive.outputPath { isEnum := false, name := "T".toList, attr := { exportTo := some "forms/index".toList } } = "forms/index".toList := by decide

end TsRs
